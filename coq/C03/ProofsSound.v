(* C03/ProofsSound.v -- soundness: a successful run of the model yields an isomorphism
   (under: unique identities, defs precede uses on the left, outside uses of the left are outside
   the right; result types only if they are compared or assumed equal). *)
From Coq Require Import List Arith Bool Lia.
From XV Require Import C03.Model C03.ProofsSpec.
Import ListNotations.

(* the values/blocks in sv/sb are keys of the context *)
Definition covers (c : ctx) (sv : list vid) (sb : list bid) : Prop :=
  (forall o, In o sv -> In o (map fst (cv c))) /\ (forall s, In s sb -> In s (map fst (cb c))).

Lemma in_map_fst : forall (l : list (nat * nat)) k v, In (k, v) l -> In k (map fst l).
Proof. intros l k v H. apply in_map_iff. exists (k, v). auto. Qed.

Lemma in_map_fst_ex : forall (l : list (nat * nat)) k, In k (map fst l) -> exists v, In (k, v) l.
Proof. intros l k H. apply in_map_iff in H. destruct H as [[k' v] [E H]]. simpl in E. subst. eauto. Qed.

Lemma covers_ext : forall c c' sv sb d d' b b',
  covers c sv sb -> ext d d' b b' c c' -> covers c' (d ++ sv) (b ++ sb).
Proof.
  intros c c' sv sb d d' b b' [C1 C2] (L1 & L2 & V & B). split.
  - intros o H. apply in_app_iff in H. destruct H as [H|H].
    + destruct (in_combine_ex_l _ _ _ H L1) as [y Hy]. eapply in_map_fst. apply V. left. exact Hy.
    + apply C1 in H. apply in_map_fst_ex in H. destruct H as [v H]. eapply in_map_fst. apply V. right. exact H.
  - intros o H. apply in_app_iff in H. destruct H as [H|H].
    + destruct (in_combine_ex_l _ _ _ H L2) as [y Hy]. eapply in_map_fst. apply B. left. exact Hy.
    + apply C2 in H. apply in_map_fst_ex in H. destruct H as [v H]. eapply in_map_fst. apply B. right. exact H.
Qed.

Lemma covers_incl : forall c sv sb sv' sb', covers c sv sb -> incl sv' sv -> incl sb' sb -> covers c sv' sb'.
Proof. intros c sv sb sv' sb' [C1 C2] I1 I2. split; intros o H; [apply C1, I1|apply C2, I2]; exact H. Qed.

Lemma block_pre_ext : forall c args args' v1 b b',
  reg_args (cv c) args args' = (true, v1) -> length args = length args' ->
  ext (map fst args) (map fst args') [b] [b'] c (Ctx v1 ((b, b') :: cb c)).
Proof.
  intros c args args' v1 b b' H Hl. apply reg_args_true in H. destruct H as [H _].
  repeat split; simpl; try tauto.
  - rewrite !map_length. exact Hl.
  - apply H.
  - apply H.
Qed.

Lemma region_pre_ext : forall c r r', blocks_len r = blocks_len r' ->
  ext [] [] (blocks_ids r) (blocks_ids r') c (Ctx (cv c) (reg_blocks (cb c) r r')).
Proof.
  intros c r r' Hl. repeat split; simpl; try tauto.
  - rewrite !blocks_ids_len. exact Hl.
  - intros H. apply reg_blocks_in in H. exact H.
  - intros H. apply reg_blocks_in. exact H.
Qed.

Lemma Forall2_in_impl : forall (A B : Type) (P Q : A -> B -> Prop) l l',
  Forall2 P l l' -> (forall x y, In x l -> In y l' -> P x y -> Q x y) -> Forall2 Q l l'.
Proof.
  induction 1 as [|x y l l' Hh Ht IH]; intros HI; constructor.
  - apply HI; simpl; auto.
  - apply IH. intros x0 y0 Hx Hy. apply HI; simpl; auto.
Qed.

Lemma Forall2_combine : forall (A B : Type) (Q : A -> B -> Prop) l l',
  length l = length l' -> (forall x y, In (x, y) (combine l l') -> Q x y) -> Forall2 Q l l'.
Proof.
  induction l as [|x l IH]; destruct l' as [|y l']; simpl; intros Hl H; try discriminate; constructor.
  - apply H. auto.
  - apply IH; [lia|]. intros; apply H; auto.
Qed.

Lemma Forall2_combine_inv : forall (A B : Type) (Q : A -> B -> Prop) l l',
  Forall2 Q l l' -> forall x y, In (x, y) (combine l l') -> Q x y.
Proof.
  induction 1 as [|a b l l' Hh Ht IH]; simpl; intros x y H; [contradiction|].
  destruct H as [H|H]; [inversion H; subst; exact Hh|apply IH; exact H].
Qed.

Lemma in_combine_map : forall (A B : Type) (f : A -> B) l l' x y,
  In (x, y) (combine l l') -> In (f x, f y) (combine (map f l) (map f l')).
Proof.
  induction l as [|a l IH]; destruct l' as [|b l']; simpl; intros x y H; try contradiction.
  destruct H as [H|H]; [inversion H; subst; auto|right; apply IH; exact H].
Qed.

Lemma in_combine_map_eq : forall (A B : Type) (f : A -> B) l l' x y,
  map f l = map f l' -> In (x, y) (combine l l') -> f x = f y.
Proof.
  induction l as [|a l IH]; destruct l' as [|b l']; simpl; intros x y E H; try contradiction.
  inversion E. destruct H as [H|H]; [inversion H; subst; auto|eapply IH; eauto].
Qed.

Section Sound.
  Variable cf : cfg.
  Variable rt : bool.
  Variables Rv Rb : nat -> nat -> Prop.
  Variables Iva Ivb : list vid.
  Variables Iba Ibb : list bid.

  Definition Pext (o : vid) : Prop := ~ In o Iva -> ~ In o Ivb.
  Definition Qext (s : bid) : Prop := ~ In s Iba -> ~ In s Ibb.
  Definition in_rel (c : ctx) : Prop :=
    (forall p, In p (cv c) -> Rv (fst p) (snd p)) /\ (forall p, In p (cb c) -> Rb (fst p) (snd p)).

  Lemma in_rel_mono : forall d d' b b' c c', ext d d' b b' c c' -> in_rel c' -> in_rel c.
  Proof.
    intros d d' b b' c c' E [H1 H2]. split; intros p H.
    - apply H1. eapply ext_mono_v; eauto.
    - apply H2. eapply ext_mono_b; eauto.
  Qed.

  (* one use checked against the context corresponds in the sense of the spec *)
  Lemma use_sound : forall (l : list (nat * nat)) (R : nat -> nat -> Prop) (Ia Ib seen : list nat) o o',
    get_or_self l o = o' ->
    (forall p, In p l -> R (fst p) (snd p)) ->
    (In o Ia -> In o seen) -> (forall x, In x seen -> In x (map fst l)) ->
    (~ In o Ia -> ~ In o Ib) ->
    R o o' \/ (~ In o Ia /\ ~ In o' Ib /\ o = o').
  Proof.
    intros l R Ia Ib seen o o' Hg HR Hd Hc He. unfold get_or_self in Hg.
    destruct (lookup l o) as [q|] eqn:E.
    - subst q. left. apply lookup_some_in in E. apply (HR _ E).
    - subst o'. apply lookup_none_notin in E.
      destruct (in_dec Nat.eq_dec o Ia) as [Hi|Hn].
      + exfalso. apply E. apply Hc. apply Hd. exact Hi.
      + right. auto.
  Qed.

  Definition rt_hyp (P : Prop) : Prop := rt = true -> cmp_rt cf = false -> P.

  Lemma sound_all :
    (forall x c y c' sv sb, equiv_op cf c x y = (true, c') -> in_rel c' ->
       dpu_op Iva Iba sv sb x -> covers c sv sb -> uses_op Pext Qext x -> rt_hyp (rt_eq_op x y) ->
       m_op rt Rv Rb Iva Ivb Iba Ibb x y)
    /\ (forall l c l' c' sv sb, equiv_ops cf c l l' = (true, c') -> ops_len l = ops_len l' -> in_rel c' ->
       dpu_ops Iva Iba sv sb l -> covers c sv sb -> uses_ops Pext Qext l -> rt_hyp (rt_eq_ops l l') ->
       m_ops rt Rv Rb Iva Ivb Iba Ibb l l')
    /\ (forall k c k' c' sv sb, equiv_block cf c k k' = (true, c') -> in_rel c' ->
       dpu_block Iva Iba sv sb k -> covers c sv sb -> uses_block Pext Qext k -> rt_hyp (rt_eq_block k k') ->
       m_block rt Rv Rb Iva Ivb Iba Ibb k k')
    /\ (forall r c r' c' sv sb, equiv_blocks cf c r r' = (true, c') -> blocks_len r = blocks_len r' -> in_rel c' ->
       dpu_blocks Iva Iba sv sb r -> covers c sv sb -> uses_blocks Pext Qext r -> rt_hyp (rt_eq_blocks r r') ->
       m_blocks rt Rv Rb Iva Ivb Iba Ibb r r')
    /\ (forall g c g' c' sv sb, equiv_regions cf c g g' = (true, c') -> regions_len g = regions_len g' -> in_rel c' ->
       dpu_regions Iva Iba sv sb g -> covers c sv sb -> uses_regions Pext Qext g -> rt_hyp (rt_eq_regions g g') ->
       m_regions rt Rv Rb Iva Ivb Iba Ibb g g').
  Proof.
    apply ir_mutind.
    - (* Op *)
      intros n os rs a p ss g IHg par c y c' sv sb H HR Hd Hc Hu Hrt.
      destruct y as [n' os' rs' a' p' ss' g' par']. cbn [equiv_op] in H.
      destruct (negb (n =? n')) eqn:En; [discriminate|].
      match type of H with (if ?b then _ else _) = _ => destruct b eqn:Hlen end; [discriminate|].
      destruct (parent_fail cf c par par'); [discriminate|].
      destruct (negb (all_mapped (cv c) os os')) eqn:Ho; [discriminate|].
      destruct (negb (all_mapped (cb c) ss ss')) eqn:Hs; [discriminate|].
      destruct (equiv_regions cf c g g') as [ok c1] eqn:Hg.
      destruct ok; simpl in H; [|discriminate].
      inversion H; subst c'; clear H.
      apply orb_false_iff in Hlen; destruct Hlen as [Hlen Hty].
      repeat (apply orb_false_iff in Hlen; destruct Hlen as [Hlen ?]).
      repeat match goal with Hx : negb (_ =? _) = false |- _ =>
        apply negb_false_iff in Hx; apply Nat.eqb_eq in Hx end.
      apply negb_false_iff in Ho, Hs.
      destruct Hd as (Hdo & Hds & Hdg). destruct Hu as (Huo & Hus & Hug).
      destruct Hc as [Hc1 Hc2]. destruct HR as [HRv HRb]. cbn [cv cb] in HRv, HRb.
      assert (Eg := proj2 (proj2 (proj2 (proj2 equiv_ext))) g cf c g' c1 Hg ltac:(assumption)).
      assert (Hsnd : rt = true -> map snd rs = map snd rs').
      { intros Ert. destruct (cmp_rt cf) eqn:Ecmp.
        - simpl in Hty. apply negb_false_iff in Hty. apply nats_eqb_eq. exact Hty.
        - destruct (Hrt Ert Ecmp) as [Hx _]. exact Hx. }
      cbn [m_op]. repeat split; try assumption.
      + (* operands *)
        eapply Forall2_in_impl; [apply all_mapped_true; eassumption|].
        intros o o' Hio _ Hget. cbv beta in Hget.
        apply (use_sound (cv c) Rv Iva Ivb sv o o' Hget).
        * intros q Hq. apply HRv. apply reg_results_in. right. eapply ext_mono_v; [exact Eg|exact Hq].
        * intros Hi. apply Hdo; assumption.
        * exact Hc1.
        * apply Huo. exact Hio.
      + (* results *)
        apply Forall2_combine; [assumption|]. intros r r' Hin. split.
        * apply (HRv (fst r, fst r')). apply reg_results_in. left.
          apply in_combine_map with (f := @fst vid ty). exact Hin.
        * intros Ert. eapply in_combine_map_eq with (f := @snd vid ty); [apply Hsnd; exact Ert|exact Hin].
      + (* successors *)
        eapply Forall2_in_impl; [apply all_mapped_true; eassumption|].
        intros s s' His _ Hget. cbv beta in Hget.
        apply (use_sound (cb c) Rb Iba Ibb sb s s' Hget).
        * intros q Hq. apply HRb. eapply ext_mono_b; [exact Eg|exact Hq].
        * intros Hi. apply Hds; assumption.
        * exact Hc2.
        * apply Hus. exact His.
      + (* regions *)
        eapply IHg; eauto.
        * split; intros q Hq; [apply HRv; apply reg_results_in; right; exact Hq|apply HRb; exact Hq].
        * split; assumption.
        * intros A B. destruct (Hrt A B) as [_ Hx]. exact Hx.
    - (* ONil *)
      intros c l' c' sv sb H Hl. destruct l'; simpl in *; [tauto|discriminate].
    - (* OCons *)
      intros o IHo t IHt c l' c' sv sb H Hl HR Hd Hc Hu Hrt.
      destruct l' as [|o' t']; [simpl in Hl; discriminate|].
      cbn [equiv_ops] in H. destruct (equiv_op cf c o o') as [ok c1] eqn:Ho.
      destruct ok; [|discriminate]. simpl in Hl.
      destruct Hd as [Hd1 Hd2]. destruct Hu as [Hu1 Hu2].
      assert (Eo := proj1 equiv_ext o cf c o' c1 Ho).
      assert (Et := proj1 (proj2 equiv_ext) t cf c1 t' c' H ltac:(lia)).
      cbn [m_ops]. split.
      + eapply IHo; eauto.
        * eapply in_rel_mono; eauto.
        * intros A B. destruct (Hrt A B) as [Hx _]. exact Hx.
      + eapply IHt; eauto.
        * eapply covers_ext; eauto.
        * intros A B. destruct (Hrt A B) as [_ Hx]. exact Hx.
    - (* Blk *)
      intros b args body IHb c k' c' sv sb H HR Hd Hc Hu Hrt. destruct k' as [b' args' body'].
      cbn [equiv_block] in H.
      match type of H with (if ?b then _ else _) = _ => destruct b eqn:Hlen end; [discriminate|].
      apply orb_false_iff in Hlen. destruct Hlen as [Hl1 Hl2].
      apply negb_false_iff, Nat.eqb_eq in Hl1. apply negb_false_iff, Nat.eqb_eq in Hl2.
      destruct (reg_args (cv c) args args') as [ok v1] eqn:Ha.
      destruct ok; simpl in H; [|discriminate].
      assert (Epre := block_pre_ext c args args' v1 b b' Ha Hl1).
      assert (Eb := proj1 (proj2 equiv_ext) body cf _ body' c' H Hl2).
      destruct (reg_args_true _ _ _ _ Ha) as [Ha1 Ha2].
      destruct HR as [HRv HRb].
      cbn [m_block]. repeat split.
      + apply (HRb (b, b')). eapply ext_mono_b; [exact Eb|]. simpl. auto.
      + apply Forall2_combine; [assumption|]. intros r r' Hin. split.
        * apply (HRv (fst r, fst r')). eapply ext_mono_v; [exact Eb|]. simpl. apply Ha1. left.
          apply in_combine_map with (f := @fst vid ty). exact Hin.
        * eapply in_combine_map_eq with (f := @snd vid ty); [apply Ha2; exact Hl1|exact Hin].
      + eapply IHb; eauto.
        * split; assumption.
        * apply (covers_ext _ _ _ _ _ _ _ _ Hc Epre).
    - (* BNil *)
      intros c r' c' sv sb H Hl. destruct r'; simpl in *; [tauto|discriminate].
    - (* BCons *)
      intros k IHk t IHt c r' c' sv sb H Hl HR Hd Hc Hu Hrt.
      destruct r' as [|k' t']; [simpl in Hl; discriminate|].
      cbn [equiv_blocks] in H. destruct (equiv_block cf c k k') as [ok c1] eqn:Hk.
      destruct ok; [|discriminate]. simpl in Hl.
      destruct Hd as [Hd1 Hd2]. destruct Hu as [Hu1 Hu2].
      assert (Ek := proj1 (proj2 (proj2 equiv_ext)) k cf c k' c1 Hk).
      destruct (proj1 (proj2 (proj2 (proj2 equiv_ext))) t cf c1 t' c' H ltac:(lia)) as [Et _].
      cbn [m_blocks]. split.
      + eapply IHk; eauto.
        * eapply in_rel_mono; eauto.
        * intros A B. destruct (Hrt A B) as [Hx _]. exact Hx.
      + eapply IHt; eauto; try lia.
        * eapply covers_ext; eauto.
        * intros A B. destruct (Hrt A B) as [_ Hx]. exact Hx.
    - (* GNil *)
      intros c g' c' sv sb H Hl. destruct g'; simpl in *; [tauto|discriminate].
    - (* GCons *)
      intros r IHr t IHt c g' c' sv sb H Hl HR Hd Hc Hu Hrt.
      destruct g' as [|r' t']; [simpl in Hl; discriminate|].
      rewrite equiv_regions_cons in H. unfold equiv_region, region_pre in H.
      destruct (negb (blocks_len r =? blocks_len r')) eqn:Hbl; [discriminate|].
      apply negb_false_iff, Nat.eqb_eq in Hbl.
      match type of H with (let (_, _) := ?e in _) = _ => destruct e as [ok c1] eqn:Hr end.
      destruct ok; [|discriminate]. simpl in Hl.
      destruct Hd as [Hd1 Hd2]. destruct Hu as [Hu1 Hu2].
      assert (Epre := region_pre_ext c r r' Hbl).
      destruct (proj1 (proj2 (proj2 (proj2 equiv_ext))) r cf _ r' c1 Hr Hbl) as [Er _].
      assert (Et := proj2 (proj2 (proj2 (proj2 equiv_ext))) t cf c1 t' c' H ltac:(lia)).
      assert (Hc0 := covers_ext _ _ _ _ _ _ _ _ Hc Epre). simpl in Hc0.
      cbn [m_regions]. split.
      + eapply IHr; eauto.
        * eapply in_rel_mono; eauto.
        * intros A B. destruct (Hrt A B) as [Hx _]. exact Hx.
      + eapply IHt; eauto; try lia.
        * eapply covers_incl; [eapply covers_ext; [exact Hc0|exact Er]| |].
          -- apply incl_refl.
          -- intros z Hz. apply in_app_iff in Hz. apply in_app_iff.
             destruct Hz as [Hz|Hz]; [left; exact Hz|right; apply in_app_iff; right; exact Hz].
        * intros A B. destruct (Hrt A B) as [_ Hx]. exact Hx.
  Qed.
End Sound.

Lemma pair_eta : forall (p : nat * nat), p = (fst p, snd p).
Proof. intros [x y]. reflexivity. Qed.

Lemma in_rel_top : forall d d' b b' c', ext d d' b b' empty_ctx c' ->
  in_rel (fun x y => In (x, y) (combine d d')) (fun x y => In (x, y) (combine b b')) c'.
Proof.
  intros d d' b b' c' (_ & _ & V & B). split; intros p H; rewrite <- pair_eta.
  - apply V in H. simpl in H. tauto.
  - apply B in H. simpl in H. tauto.
Qed.

Lemma covers_nil : forall c, covers c [] [].
Proof. intros c. split; intros o H; inversion H. Qed.

(* ---- top level ---- *)

Theorem sound_op_gen : forall cf rt a b,
  NoDup (defs_op a) -> NoDup (defs_op b) -> NoDup (blks_op a) -> NoDup (blks_op b) ->
  dpu_top_op a -> ext_ok_op a b ->
  (rt = true -> cmp_rt cf = false -> rt_eq_op a b) ->
  se_op cf a b = true -> iso_op rt a b.
Proof.
  intros cf rt a b N1 N2 N3 N4 Hd He Hrt H. unfold se_op in H.
  destruct (equiv_op cf empty_ctx a b) as [ok c'] eqn:E. simpl in H. subst ok.
  assert (X := proj1 equiv_ext a cf _ b c' E).
  destruct X as (L1 & L2 & V & B).
  exists (fun x y => In (x, y) (combine (defs_op a) (defs_op b))),
         (fun x y => In (x, y) (combine (blks_op a) (blks_op b))).
  split; [apply bij_combine; assumption|]. split; [apply bij_combine; assumption|].
  eapply (proj1 (sound_all cf rt _ _ _ _ _ _)); eauto.
  - apply in_rel_top. repeat split; auto; apply V || apply B.
  - apply covers_nil.
Qed.

Theorem sound_block_gen : forall cf rt a b,
  NoDup (defs_block a) -> NoDup (defs_block b) -> NoDup (blks_block a) -> NoDup (blks_block b) ->
  dpu_top_block a -> ext_ok_block a b ->
  (rt = true -> cmp_rt cf = false -> rt_eq_block a b) ->
  se_block cf a b = true -> iso_block rt a b.
Proof.
  intros cf rt a b N1 N2 N3 N4 Hd He Hrt H. unfold se_block in H.
  destruct (equiv_block cf empty_ctx a b) as [ok c'] eqn:E. simpl in H. subst ok.
  assert (X := proj1 (proj2 (proj2 equiv_ext)) a cf _ b c' E).
  destruct X as (L1 & L2 & V & B).
  exists (fun x y => In (x, y) (combine (defs_block a) (defs_block b))),
         (fun x y => In (x, y) (combine (blks_block a) (blks_block b))).
  split; [apply bij_combine; assumption|]. split; [apply bij_combine; assumption|].
  eapply (proj1 (proj2 (proj2 (sound_all cf rt _ _ _ _ _ _)))); eauto.
  - apply in_rel_top. repeat split; auto; apply V || apply B.
  - apply covers_nil.
Qed.

Theorem sound_region_gen : forall cf rt a b,
  NoDup (defs_blocks a) -> NoDup (defs_blocks b) -> NoDup (blks_blocks a) -> NoDup (blks_blocks b) ->
  dpu_top_region a -> ext_ok_region a b ->
  (rt = true -> cmp_rt cf = false -> rt_eq_blocks a b) ->
  se_region cf a b = true -> iso_region rt a b.
Proof.
  intros cf rt a b N1 N2 N3 N4 Hd He Hrt H. unfold se_region, equiv_region, region_pre in H.
  destruct (negb (blocks_len a =? blocks_len b)) eqn:Hbl; [simpl in H; discriminate|].
  apply negb_false_iff, Nat.eqb_eq in Hbl.
  match type of H with fst ?e = _ => destruct e as [ok c'] eqn:E end. simpl in H. subst ok.
  assert (Epre := region_pre_ext empty_ctx a b Hbl).
  destruct (proj1 (proj2 (proj2 (proj2 equiv_ext))) a cf _ b c' E Hbl) as [Er Hsub].
  assert (X : ext (defs_blocks a) (defs_blocks b) (blks_blocks a) (blks_blocks b) empty_ctx c').
  { eapply ext_absorb with (i := blocks_ids a) (i' := blocks_ids b);
      [rewrite !blocks_ids_len; exact Hbl|exact Hsub|].
    change (defs_blocks a) with ([] ++ defs_blocks a). change (defs_blocks b) with ([] ++ defs_blocks b).
    eapply ext_trans; eauto. }
  exists (fun x y => In (x, y) (combine (defs_blocks a) (defs_blocks b))),
         (fun x y => In (x, y) (combine (blks_blocks a) (blks_blocks b))).
  destruct X as (L1 & L2 & V & B).
  split; [apply bij_combine; assumption|]. split; [apply bij_combine; assumption|].
  eapply (proj1 (proj2 (proj2 (proj2 (sound_all cf rt _ _ _ _ _ _))))); eauto.
  - apply in_rel_top. repeat split; auto; apply V || apply B.
  - assert (Hc := covers_ext _ _ _ _ _ _ _ _ (covers_nil empty_ctx) Epre). simpl in Hc.
    rewrite app_nil_r in Hc. exact Hc.
Qed.
