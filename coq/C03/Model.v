(* C03/Model.v -- executable model of Operation/Block/Region.is_structurally_equivalent
   (xdsl/ir/core.py).  Definitions only, no proofs.

   IR trees.  Values (op results, block arguments) and blocks are object identities = nat ids;
   types, attribute dictionaries, property dictionaries and op names are opaque payloads with
   decidable equality = nat (interned by the harness, equal payload <-> equal number).
   A region is the list of its blocks.  Explicit mutual list types keep every recursion structural.

   The mutable `context` dict of the Python is threaded: ctx -> ... -> bool * ctx.  Its keys are
   SSA values and blocks (distinct Python objects), hence two association lists; `context[k] = v`
   conses (the newest binding shadows), `context.get` returns the first binding. *)
From Coq Require Import List Arith Bool.
Import ListNotations.

Definition vid := nat.
Definition bid := nat.
Definition ty := nat.

Inductive op : Type :=
  | Op (name : nat) (operands : list vid) (results : list (vid * ty)) (attrs props : nat)
       (succs : list bid) (regs : regions) (parent : option bid)
with ops : Type := ONil | OCons (o : op) (os : ops)
with block : Type := Blk (b : bid) (args : list (vid * ty)) (body : ops)
with blocks : Type := BNil | BCons (k : block) (ks : blocks)      (* one region *)
with regions : Type := GNil | GCons (r : blocks) (rs : regions).

Fixpoint ops_len (l : ops) : nat := match l with ONil => 0 | OCons _ t => S (ops_len t) end.
Fixpoint blocks_len (l : blocks) : nat := match l with BNil => 0 | BCons _ t => S (blocks_len t) end.
Fixpoint regions_len (l : regions) : nat := match l with GNil => 0 | GCons _ t => S (regions_len t) end.

Definition op_parent (x : op) : option bid := match x with Op _ _ _ _ _ _ _ p => p end.
Definition blk_id (k : block) : bid := match k with Blk b _ _ => b end.
Fixpoint blocks_ids (l : blocks) : list bid :=
  match l with BNil => [] | BCons k t => blk_id k :: blocks_ids t end.

(* ---- the context dict ---- *)
Record ctx := Ctx { cv : list (vid * vid); cb : list (bid * bid) }.
Definition empty_ctx : ctx := Ctx [] [].

Fixpoint lookup (l : list (nat * nat)) (k : nat) : option nat :=
  match l with
  | [] => None
  | (k', v) :: r => if k' =? k then Some v else lookup r k
  end.
(* context.get(x, x) *)
Definition get_or_self (l : list (nat * nat)) (k : nat) : nat :=
  match lookup l k with Some v => v | None => k end.

(* ---- the two repairs are switches, so that model and theorems follow the code by one edit ---- *)
Record cfg := Cfg {
  cmp_rt : bool;          (* result types are compared (false on the unchanged tree) *)
  parent_strict : bool    (* a parent missing from the context fails the parent check (true on the unchanged tree) *)
}.
Definition cfg_original : cfg := Cfg false true.
Definition cfg_fixed : cfg := Cfg true false.
(* THE configuration of /repo's working tree: the only line to edit after a repair is applied *)
Definition cfg_repo : cfg := cfg_fixed.   (* /repo since fix commits 82d3918 (result types) and ef6c9c6 (parent check) *)

Fixpoint nats_eqb (l l' : list nat) : bool :=
  match l, l' with
  | [], [] => true
  | a :: r, a' :: r' => (a =? a') && nats_eqb r r'
  | _, _ => false
  end.

(* `self.parent is not None and other.parent is not None and context.get(self.parent) != other.parent` *)
Definition parent_fail (cf : cfg) (c : ctx) (p p' : option bid) : bool :=
  match p, p' with
  | Some b, Some b' =>
      match lookup (cb c) b with
      | Some q => negb (q =? b')
      | None => parent_strict cf      (* None != other.parent ; repaired: get(self.parent, other.parent) *)
      end
  | _, _ => false
  end.

(* all(context.get(x, x) == y for x, y in zip(xs, ys)) *)
Definition all_mapped (l : list (nat * nat)) (xs ys : list nat) : bool :=
  forallb (fun p => get_or_self l (fst p) =? snd p) (combine xs ys).

(* for result, other_result in zip(...): context[result] = other_result *)
Definition reg_results (l : list (vid * vid)) (rs rs' : list (vid * ty)) : list (vid * vid) :=
  fold_left (fun acc p => (fst (fst p), fst (snd p)) :: acc) (combine rs rs') l.

(* Block: for arg, other_arg in zip(...): if arg.type != other_arg.type: return False; context[arg] = other_arg *)
Fixpoint reg_args (l : list (vid * vid)) (xs ys : list (vid * ty)) : bool * list (vid * vid) :=
  match xs, ys with
  | (a, t) :: r, (a', t') :: r' =>
      if negb (t =? t') then (false, l) else reg_args ((a, a') :: l) r r'
  | _, _ => (true, l)
  end.

(* Region: for block, other_block in zip(...): context[block] = other_block *)
Definition reg_blocks (l : list (bid * bid)) (r r' : blocks) : list (bid * bid) :=
  fold_left (fun acc p => p :: acc) (combine (blocks_ids r) (blocks_ids r')) l.

(* the part of Region.is_structurally_equivalent before its `all(...)`: None = `return False` *)
Definition region_pre (c : ctx) (r r' : blocks) : option ctx :=
  if negb (blocks_len r =? blocks_len r') then None
  else Some (Ctx (cv c) (reg_blocks (cb c) r r')).

Fixpoint equiv_op (cf : cfg) (c : ctx) (x y : op) {struct x} : bool * ctx :=
  match x, y with
  | Op n os rs a p ss g par, Op n' os' rs' a' p' ss' g' par' =>
      if negb (n =? n') then (false, c) else
      if negb (length os =? length os') || negb (length rs =? length rs')
         || negb (regions_len g =? regions_len g') || negb (length ss =? length ss')
         || negb (a =? a') || negb (p =? p')
         || (cmp_rt cf && negb (nats_eqb (map snd rs) (map snd rs')))   (* absent on the unchanged tree *)
      then (false, c) else
      if parent_fail cf c par par' then (false, c) else
      if negb (all_mapped (cv c) os os') then (false, c) else
      if negb (all_mapped (cb c) ss ss') then (false, c) else
      let (ok, c1) := equiv_regions cf c g g' in
      if negb ok then (false, c1) else
      (true, Ctx (reg_results (cv c1) rs rs') (cb c1))
  end
(* all(region.is_structurally_equivalent(other_region, context) for ... in zip(...)) -- short-circuits *)
with equiv_regions (cf : cfg) (c : ctx) (g g' : regions) {struct g} : bool * ctx :=
  match g, g' with
  | GCons r t, GCons r' t' =>
      let (ok, c1) :=
        match region_pre c r r' with
        | None => (false, c)
        | Some c0 => equiv_blocks cf c0 r r'
        end in
      if ok then equiv_regions cf c1 t t' else (false, c1)
  | _, _ => (true, c)
  end
with equiv_blocks (cf : cfg) (c : ctx) (r r' : blocks) {struct r} : bool * ctx :=
  match r, r' with
  | BCons k t, BCons k' t' =>
      let (ok, c1) := equiv_block cf c k k' in
      if ok then equiv_blocks cf c1 t t' else (false, c1)
  | _, _ => (true, c)
  end
with equiv_block (cf : cfg) (c : ctx) (k k' : block) {struct k} : bool * ctx :=
  match k, k' with
  | Blk b args body, Blk b' args' body' =>
      if negb (length args =? length args') || negb (ops_len body =? ops_len body') then (false, c) else
      let (ok, v1) := reg_args (cv c) args args' in
      if negb ok then (false, Ctx v1 (cb c)) else
      equiv_ops cf (Ctx v1 ((b, b') :: cb c)) body body'        (* context[self] = other *)
  end
with equiv_ops (cf : cfg) (c : ctx) (l l' : ops) {struct l} : bool * ctx :=
  match l, l' with
  | OCons o t, OCons o' t' =>
      let (ok, c1) := equiv_op cf c o o' in
      if ok then equiv_ops cf c1 t t' else (false, c1)
  | _, _ => (true, c)
  end.

Definition equiv_region (cf : cfg) (c : ctx) (r r' : blocks) : bool * ctx :=
  match region_pre c r r' with
  | None => (false, c)
  | Some c0 => equiv_blocks cf c0 r r'
  end.

(* top-level calls (`context=None` -> {}) *)
Definition se_op (cf : cfg) (a b : op) : bool := fst (equiv_op cf empty_ctx a b).
Definition se_block (cf : cfg) (a b : block) : bool := fst (equiv_block cf empty_ctx a b).
Definition se_region (cf : cfg) (a b : blocks) : bool := fst (equiv_region cf empty_ctx a b).

(* consumers: OperationInfo.__eq__ (CSE) ends with
     all(s.is_structurally_equivalent(o) for s, o in zip(self.op.regions, other.op.regions, strict=True))
   i.e. every region pair with a FRESH context; None = zip(strict=True) raises ValueError (reached only
   if no earlier pair was unequal).  ModulePass.schedule_space / HashableModule.__eq__ are se_op itself. *)
Fixpoint regions_each_fresh (cf : cfg) (g g' : regions) : option bool :=
  match g, g' with
  | GNil, GNil => Some true
  | GCons r t, GCons r' t' => if se_region cf r r' then regions_each_fresh cf t t' else Some false
  | _, _ => None
  end.
(* OperationInfo.__eq__ (the hash comparison is implied by the other conjuncts) *)
Definition op_info_eq (cf : cfg) (a b : op) : option bool :=
  match a, b with
  | Op n os rs aa p _ g _, Op n' os' rs' aa' p' _ g' _ =>
      if (n =? n') && (aa =? aa') && (p =? p') && nats_eqb os os' && nats_eqb (map snd rs) (map snd rs')
      then regions_each_fresh cf g g' else Some false
  end.

(* ---- a simple model of clone: rename every value id by fv and every block id by fb
        (the theorem assumes fv/fb are the identity outside the cloned IR, injective and fresh
        inside); the clone of the root is detached ---- *)
Definition ren_res (fv : vid -> vid) (l : list (vid * ty)) : list (vid * ty) :=
  map (fun p => (fv (fst p), snd p)) l.
Fixpoint clone_op (fv : vid -> vid) (fb : bid -> bid) (x : op) {struct x} : op :=
  match x with
  | Op n os rs a p ss g par =>
      Op n (map fv os) (ren_res fv rs) a p (map fb ss) (clone_regions fv fb g) (option_map fb par)
  end
with clone_regions (fv : vid -> vid) (fb : bid -> bid) (g : regions) {struct g} : regions :=
  match g with GNil => GNil | GCons r t => GCons (clone_blocks fv fb r) (clone_regions fv fb t) end
with clone_blocks (fv : vid -> vid) (fb : bid -> bid) (r : blocks) {struct r} : blocks :=
  match r with BNil => BNil | BCons k t => BCons (clone_block fv fb k) (clone_blocks fv fb t) end
with clone_block (fv : vid -> vid) (fb : bid -> bid) (k : block) {struct k} : block :=
  match k with Blk b args body => Blk (fb b) (ren_res fv args) (clone_ops fv fb body) end
with clone_ops (fv : vid -> vid) (fb : bid -> bid) (l : ops) {struct l} : ops :=
  match l with ONil => ONil | OCons o t => OCons (clone_op fv fb o) (clone_ops fv fb t) end.
Definition detach (x : op) : op :=
  match x with Op n os rs a p ss g _ => Op n os rs a p ss g None end.
Definition clone_root (fv : vid -> vid) (fb : bid -> bid) (x : op) : op := detach (clone_op fv fb x).
