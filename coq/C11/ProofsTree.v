(* C11/ProofsTree.v -- the tree half of the heap invariant (the region walk yields only live operations):
   the invariant TInv, its consequence for the walk, and its preservation by erase and by the eight
   primitives that do not touch the tree.  Not done: insert, inline_block, inline_region,
   move_region_contents_to_new_regions, create_block (see Props/C11.v C11_tree_invariant_model_partial). *)
From Coq Require Import List Arith Bool ZArith Lia.
From XV Require Import C11.Model C11.IR C11.Proofs C11.ProofsEv C11.ProofsLive C11.ProofsInv.
Import ListNotations.

Definition g_rparent (c : cir) (g : nat) : option op :=
  match aget (c_regs c) g with Some r => r_parent r | None => None end.

Record TInv (c : cir) : Prop := {
  t1 : forall b o, In o (g_bops c b) -> In o (g_alive c) -> g_parent c o = Some b;
  t2 : forall g b, In b (g_blocks c g) -> g_bparent c b = Some g;
  t3 : forall p g, In g (g_regions c p) -> In p (g_alive c) -> g_rparent c g = Some p;
  ta : forall p g b o, In p (g_alive c) -> In g (g_regions c p) -> In b (g_blocks c g) ->
                       In o (g_bops c b) -> In o (g_alive c);
  tr : In root (g_alive c)
}.

Lemma in_ord {A} rev (l : list A) x : In x (ord rev l) <-> In x l.
Proof. unfold ord. destruct rev; [symmetry; apply in_rev | reflexivity]. Qed.

(* every op of a walk other than its start sits in a block of a region of an op of the walk *)
Lemma walk_parent c rev rf : forall f o x,
  In x (walk_op f c rev rf o) ->
  x = o \/ exists p g b, In p (walk_op f c rev rf o) /\ In g (g_regions c p) /\ In b (g_blocks c g) /\ In x (g_bops c b).
Proof.
  induction f as [|f IH]; simpl; intros o x H; [contradiction|].
  assert (Hin : x = o \/ In x (flat_map (fun g => flat_map (fun b => flat_map (walk_op f c rev rf) (ord rev (g_bops c b)))
                                                        (ord rev (g_blocks c g))) (ord rev (g_regions c o)))).
  { destruct rf; [apply in_app_or in H; destruct H as [H|[H|[]]]; auto | destruct H; auto]. }
  destruct Hin as [->|Hin]; [left; reflexivity|]. right.
  apply in_flat_map in Hin. destruct Hin as (g & Hg & Hin). apply in_ord in Hg.
  apply in_flat_map in Hin. destruct Hin as (b & Hb & Hin). apply in_ord in Hb.
  apply in_flat_map in Hin. destruct Hin as (y & Hy & Hin). apply in_ord in Hy.
  assert (Hself : forall z, In z (if rf then flat_map (fun g => flat_map (fun b => flat_map (walk_op f c rev rf) (ord rev (g_bops c b)))
                                   (ord rev (g_blocks c g))) (ord rev (g_regions c o)) ++ [o]
                           else o :: flat_map (fun g => flat_map (fun b => flat_map (walk_op f c rev rf) (ord rev (g_bops c b)))
                                   (ord rev (g_blocks c g))) (ord rev (g_regions c o))) <->
                          z = o \/ In z (flat_map (fun g => flat_map (fun b => flat_map (walk_op f c rev rf) (ord rev (g_bops c b)))
                                   (ord rev (g_blocks c g))) (ord rev (g_regions c o)))).
  { intros z. destruct rf; [rewrite in_app_iff; simpl; intuition | simpl; intuition]. }
  assert (Hsub : forall z, In z (walk_op f c rev rf y) ->
                 In z (flat_map (fun g => flat_map (fun b => flat_map (walk_op f c rev rf) (ord rev (g_bops c b)))
                                   (ord rev (g_blocks c g))) (ord rev (g_regions c o)))).
  { intros z Hz. apply in_flat_map. exists g. split; [apply in_ord; exact Hg|].
    apply in_flat_map. exists b. split; [apply in_ord; exact Hb|].
    apply in_flat_map. exists y. split; [apply in_ord; exact Hy | exact Hz]. }
  destruct (IH y x Hin) as [->|(p & g' & b' & Hp & Hg' & Hb' & Hx)].
  - exists o, g, b. split; [apply Hself; left; reflexivity|]. auto.
  - exists p, g', b'. split; [apply Hself; right; apply Hsub; exact Hp|]. auto.
Qed.

(* under the invariant, a walk started at a live op only meets live ops *)
Lemma walk_alive c rev rf (T : TInv c) : forall f o x,
  In o (g_alive c) -> In x (walk_op f c rev rf o) -> In x (g_alive c).
Proof.
  induction f as [|f IH]; simpl; intros o x Ho H; [contradiction|].
  assert (Hin : x = o \/ In x (flat_map (fun g => flat_map (fun b => flat_map (walk_op f c rev rf) (ord rev (g_bops c b)))
                                                        (ord rev (g_blocks c g))) (ord rev (g_regions c o)))).
  { destruct rf; [apply in_app_or in H; destruct H as [H|[H|[]]]; auto | destruct H; auto]. }
  destruct Hin as [->|Hin]; auto.
  apply in_flat_map in Hin. destruct Hin as (g & Hg & Hin). apply in_ord in Hg.
  apply in_flat_map in Hin. destruct Hin as (b & Hb & Hin). apply in_ord in Hb.
  apply in_flat_map in Hin. destruct Hin as (y & Hy & Hin). apply in_ord in Hy.
  apply (IH y x); auto. eapply (ta c T); eauto.
Qed.

Lemma tinv_walk c (T : TInv c) rev rf o : In o (g_walk rev rf c) -> In o (g_alive c).
Proof.
  unfold g_walk, remove1. intros H. apply filter_In in H. destruct H as [H _].
  eapply walk_alive; eauto. apply (tr c T).
Qed.

(* ---------- the part of the heap the tree invariant looks at ---------- *)
Definition osig (c : cir) (o : op) := option_map (fun r => (o_parent r, o_regions r, o_dead r)) (aget (c_ops c) o).
Definition bsig (c : cir) (b : block) := option_map (fun r => (b_parent r, b_ops r)) (aget (c_blks c) b).
Definition rsig (c : cir) (g : nat) := option_map (fun r => (r_parent r, r_blocks r)) (aget (c_regs c) g).
Definition tree_eq (c c' : cir) : Prop :=
  (forall o, osig c' o = osig c o) /\ (forall b, bsig c' b = bsig c b) /\ (forall g, rsig c' g = rsig c g).

Lemma alive_osig c o : In o (g_alive c) <-> exists p rs, osig c o = Some (p, rs, false).
Proof.
  rewrite alive_info. unfold info, osig. destruct (aget (c_ops c) o) as [r|]; simpl.
  - split; [intros [l H]; inversion H; eauto | intros (p & rs & H); inversion H; eauto].
  - split; [intros [l H] | intros (p & rs & H)]; discriminate.
Qed.
Lemma parent_osig c o : g_parent c o = match osig c o with Some (p, _, _) => p | None => None end.
Proof. unfold g_parent, osig. destruct (aget (c_ops c) o); reflexivity. Qed.
Lemma regions_osig c o : g_regions c o = match osig c o with Some (_, rs, _) => rs | None => [] end.
Proof. unfold g_regions, osig. destruct (aget (c_ops c) o); reflexivity. Qed.
Lemma bops_bsig c b : g_bops c b = match bsig c b with Some (_, l) => l | None => [] end.
Proof. unfold g_bops, bsig. destruct (aget (c_blks c) b); reflexivity. Qed.
Lemma bparent_bsig c b : g_bparent c b = match bsig c b with Some (p, _) => p | None => None end.
Proof. unfold g_bparent, bsig. destruct (aget (c_blks c) b); reflexivity. Qed.
Lemma blocks_rsig c g : g_blocks c g = match rsig c g with Some (_, l) => l | None => [] end.
Proof. unfold g_blocks, rsig. destruct (aget (c_regs c) g); reflexivity. Qed.
Lemma rparent_rsig c g : g_rparent c g = match rsig c g with Some (p, _) => p | None => None end.
Proof. unfold g_rparent, rsig. destruct (aget (c_regs c) g); reflexivity. Qed.

Lemma tree_eq_refl c : tree_eq c c.
Proof. repeat split. Qed.
Lemma tree_eq_trans c c1 c2 : tree_eq c c1 -> tree_eq c1 c2 -> tree_eq c c2.
Proof. intros (A & B & C0) (A' & B' & C'). repeat split; intros; congruence. Qed.

Lemma tinv_tree_eq c c' : tree_eq c c' -> TInv c -> TInv c'.
Proof.
  intros (Eo & Eb & Er) T.
  assert (Ea : forall o, In o (g_alive c') <-> In o (g_alive c)) by (intros o; rewrite !alive_osig, Eo; reflexivity).
  assert (Ep : forall o, g_parent c' o = g_parent c o) by (intros; rewrite !parent_osig, Eo; reflexivity).
  assert (Erg : forall o, g_regions c' o = g_regions c o) by (intros; rewrite !regions_osig, Eo; reflexivity).
  assert (Ebo : forall b, g_bops c' b = g_bops c b) by (intros; rewrite !bops_bsig, Eb; reflexivity).
  assert (Ebp : forall b, g_bparent c' b = g_bparent c b) by (intros; rewrite !bparent_bsig, Eb; reflexivity).
  assert (Ebl : forall g, g_blocks c' g = g_blocks c g) by (intros; rewrite !blocks_rsig, Er; reflexivity).
  assert (Erp : forall g, g_rparent c' g = g_rparent c g) by (intros; rewrite !rparent_rsig, Er; reflexivity).
  split.
  - intros b o. rewrite Ebo, Ea, Ep. apply (t1 c T).
  - intros g b. rewrite Ebl, Ebp. apply (t2 c T).
  - intros p g. rewrite Erg, Ea, Erp. apply (t3 c T).
  - intros p g b o. rewrite !Ea, Erg, Ebl, Ebo. apply (ta c T).
  - apply Ea. apply (tr c T).
Qed.

(* elementary updates that do not touch the tree *)
Lemma tree_eq_upd_val c v f : tree_eq c (upd_val c v f).
Proof. unfold upd_val. destruct (aget (c_vals c) v); repeat split. Qed.
Lemma osig_upd_op c k f o :
  osig (upd_op c k f) o =
  if Nat.eqb o k then option_map (fun r => (o_parent (f r), o_regions (f r), o_dead (f r))) (aget (c_ops c) k)
  else osig c o.
Proof.
  unfold upd_op, osig. destruct (aget (c_ops c) k) as [r|] eqn:E; simpl.
  - rewrite aget_aset. destruct (Nat.eqb o k); reflexivity.
  - destruct (Nat.eqb o k) eqn:Eo; auto. apply Nat.eqb_eq in Eo. subst. rewrite E. reflexivity.
Qed.
Lemma bsig_upd_blk c k f b :
  bsig (upd_blk c k f) b =
  if Nat.eqb b k then option_map (fun r => (b_parent (f r), b_ops (f r))) (aget (c_blks c) k)
  else bsig c b.
Proof.
  unfold upd_blk, bsig. destruct (aget (c_blks c) k) as [r|] eqn:E; simpl.
  - rewrite aget_aset. destruct (Nat.eqb b k); reflexivity.
  - destruct (Nat.eqb b k) eqn:Eo; auto. apply Nat.eqb_eq in Eo. subst. rewrite E. reflexivity.
Qed.
Lemma rsig_upd_reg c k f g :
  rsig (upd_reg c k f) g =
  if Nat.eqb g k then option_map (fun r => (r_parent (f r), r_blocks (f r))) (aget (c_regs c) k)
  else rsig c g.
Proof.
  unfold upd_reg, rsig. destruct (aget (c_regs c) k) as [r|] eqn:E; simpl.
  - rewrite aget_aset. destruct (Nat.eqb g k); reflexivity.
  - destruct (Nat.eqb g k) eqn:Eo; auto. apply Nat.eqb_eq in Eo. subst. rewrite E. reflexivity.
Qed.
Lemma osig_upd_blk c k f o : osig (upd_blk c k f) o = osig c o.
Proof. unfold osig. rewrite ops_upd_blk. reflexivity. Qed.
Lemma osig_upd_reg c k f o : osig (upd_reg c k f) o = osig c o.
Proof. unfold osig. rewrite ops_upd_reg. reflexivity. Qed.
Lemma bsig_upd_op c k f b : bsig (upd_op c k f) b = bsig c b.
Proof. unfold upd_op, bsig. destruct (aget (c_ops c) k); reflexivity. Qed.
Lemma bsig_upd_reg c k f b : bsig (upd_reg c k f) b = bsig c b.
Proof. unfold upd_reg, bsig. destruct (aget (c_regs c) k); reflexivity. Qed.
Lemma rsig_upd_op c k f g : rsig (upd_op c k f) g = rsig c g.
Proof. unfold upd_op, rsig. destruct (aget (c_ops c) k); reflexivity. Qed.
Lemma rsig_upd_blk c k f g : rsig (upd_blk c k f) g = rsig c g.
Proof. unfold upd_blk, rsig. destruct (aget (c_blks c) k); reflexivity. Qed.

Lemma tree_eq_upd_op_pres c k f :
  (forall r, o_parent (f r) = o_parent r /\ o_regions (f r) = o_regions r /\ o_dead (f r) = o_dead r) ->
  tree_eq c (upd_op c k f).
Proof.
  intros Hf. split; [|split]; intros x; [|apply bsig_upd_op | apply rsig_upd_op].
  rewrite osig_upd_op. destruct (Nat.eqb x k) eqn:E; auto. apply Nat.eqb_eq in E. subst.
  unfold osig. destruct (aget (c_ops c) k) as [r|]; simpl; auto. destruct (Hf r) as (-> & -> & ->). reflexivity.
Qed.
Lemma tree_eq_upd_blk_pres c k f :
  (forall r, b_parent (f r) = b_parent r /\ b_ops (f r) = b_ops r) -> tree_eq c (upd_blk c k f).
Proof.
  intros Hf. split; [|split]; intros x; [apply osig_upd_blk | | apply rsig_upd_blk].
  rewrite bsig_upd_blk. destruct (Nat.eqb x k) eqn:E; auto. apply Nat.eqb_eq in E. subst.
  unfold bsig. destruct (aget (c_blks c) k) as [r|]; simpl; auto. destruct (Hf r) as (-> & ->). reflexivity.
Qed.
Lemma tree_eq_fold {A} (step : cir -> A -> cir) (l : list A) :
  (forall c x, tree_eq c (step c x)) -> forall c, tree_eq c (fold_left step l c).
Proof.
  induction l as [|x l IH]; simpl; intros H c; [apply tree_eq_refl|].
  eapply tree_eq_trans; [apply H|]. apply IH. exact H.
Qed.
Lemma tree_eq_alloc_vals tys : forall c ow, tree_eq c (fst (alloc_vals c ow tys)).
Proof.
  induction tys as [|t r IH]; simpl; intros c ow; [apply tree_eq_refl|].
  set (c1 := with_next (with_vals c (aset (c_vals c) (c_next c) {| v_type := t; v_owner := ow; v_uses := [] |})) (S (c_next c))).
  specialize (IH c1 ow). destruct (alloc_vals c1 ow r) as [c2 vs]. simpl in *.
  eapply tree_eq_trans; [|exact IH]. repeat split.
Qed.

Lemma tree_eq_set_operand c u x : tree_eq c (set_operand c u x).
Proof. unfold set_operand. apply tree_eq_upd_op_pres. intros r; repeat split. Qed.
Lemma tree_eq_move_use v t c u : tree_eq c (move_use v t c u).
Proof.
  unfold move_use, add_use, remove_use.
  eapply tree_eq_trans; [apply tree_eq_set_operand|].
  eapply tree_eq_trans; apply tree_eq_upd_val.
Qed.
Lemma tree_eq_rauw v t c : tree_eq c (cp_rauw v t c).
Proof.
  unfold cp_rauw. destruct (Nat.eqb v t); [apply tree_eq_refl|]. apply tree_eq_fold. intros; apply tree_eq_move_use.
Qed.
Lemma tree_eq_rauw_if v t p c : tree_eq c (cp_rauw_if v t p c).
Proof.
  unfold cp_rauw_if. apply tree_eq_fold. intros c0 u. destruct (eval_upred p u); [apply tree_eq_move_use | apply tree_eq_refl].
Qed.
Lemma tree_eq_erase_value v c : tree_eq c (cp_erase_value v c).
Proof.
  unfold cp_erase_value. apply tree_eq_fold. intros c0 u. unfold remove_use.
  eapply tree_eq_trans; [apply tree_eq_set_operand | apply tree_eq_upd_val].
Qed.
Lemma tree_eq_retype v ty c : tree_eq c (cp_retype v ty c).
Proof. apply tree_eq_upd_val. Qed.
Lemma tree_eq_insert_arg b idx ty c : tree_eq c (cp_insert_arg b idx ty c).
Proof.
  unfold cp_insert_arg. pose proof (tree_eq_alloc_vals [ty] c (VOBlock b)) as H.
  destruct (alloc_vals c (VOBlock b) [ty]) as [c1 vs]. simpl in H.
  eapply tree_eq_trans; [exact H|]. apply tree_eq_upd_blk_pres. intros r; split; reflexivity.
Qed.
Lemma tree_eq_erase_arg v c : tree_eq c (cp_erase_arg v c).
Proof.
  unfold cp_erase_arg. destruct (aget (c_vals c) v) as [r|]; [|apply tree_eq_refl].
  destruct (v_owner r) as [o|b]; [apply tree_eq_refl|].
  apply tree_eq_trans with (c1 := upd_blk c b (fun r0 => set_bargs (remove1 v (b_args r0)) r0)).
  - apply tree_eq_upd_blk_pres. intros r0; split; reflexivity.
  - apply tree_eq_erase_value.
Qed.
Lemma tree_eq_bump o c : tree_eq c (cp_bump o c).
Proof.
  unfold cp_bump. destruct (aget (c_ops c) o) as [r|]; [|apply tree_eq_refl].
  destruct (o_dead r); [apply tree_eq_refl|]. apply tree_eq_upd_op_pres. intros r0; repeat split.
Qed.

(* ---------- erase ---------- *)
Lemma tree_eq_drop_operand_uses c s : tree_eq c (drop_operand_uses c s).
Proof.
  rewrite drop_operand_uses_eq. generalize (g_operands c s) as l. generalize 0 as k. intros k l. revert k c.
  induction l as [|x l IH]; intros k c; [apply tree_eq_refl|].
  rewrite drop_from_cons. eapply tree_eq_trans; [|apply IH].
  destruct x; [apply tree_eq_upd_val | apply tree_eq_refl].
Qed.

Lemma osig_fold_set_dead l : forall c o,
  osig (fold_left (fun c s => upd_op c s set_dead) l c) o =
  if mem o l then option_map (fun '(p, rs, d) => (None, rs, true)) (osig c o) else osig c o.
Proof.
  induction l as [|s l IH]; simpl; intros c o; auto.
  rewrite IH. rewrite osig_upd_op. unfold mem. simpl.
  destruct (Nat.eqb o s) eqn:E; simpl.
  - apply Nat.eqb_eq in E. subst. unfold osig. destruct (aget (c_ops c) s) as [r|]; simpl;
      destruct (existsb (Nat.eqb s) l); reflexivity.
  - reflexivity.
Qed.
Lemma mem_in x l : mem x l = true <-> In x l.
Proof.
  unfold mem. rewrite existsb_exists. split.
  - intros (y & Hy & E). apply Nat.eqb_eq in E. subst. exact Hy.
  - intros H. exists x. split; auto. apply Nat.eqb_refl.
Qed.

Lemma bsig_fold_set_dead l : forall c b, bsig (fold_left (fun c s => upd_op c s set_dead) l c) b = bsig c b.
Proof. induction l as [|s l IH]; simpl; intros c b; auto. rewrite IH. apply bsig_upd_op. Qed.
Lemma rsig_fold_set_dead l : forall c g, rsig (fold_left (fun c s => upd_op c s set_dead) l c) g = rsig c g.
Proof. induction l as [|s l IH]; simpl; intros c g; auto. rewrite IH. apply rsig_upd_op. Qed.

Lemma tinv_erase o1 c :
  In o1 (g_alive c) -> ~ In root (g_subops c o1) -> TInv c -> TInv (cp_erase o1 c).
Proof.
  intros Ho1 Hroot T. unfold cp_erase. set (subs := g_subops c o1).
  set (c1 := match g_parent c o1 with
             | Some b => upd_blk c b (fun r => set_bops (remove1 o1 (b_ops r)) r)
             | None => c end).
  set (c2 := fold_left drop_operand_uses subs c1).
  set (c3 := fold_left (fun c s => upd_op c s set_dead) subs c2).
  assert (E12 : tree_eq c1 c2) by (apply tree_eq_fold; intros; apply tree_eq_drop_operand_uses).
  destruct E12 as (Eo12 & Eb12 & Er12).
  assert (Eo1 : forall o, osig c1 o = osig c o).
  { intros o. unfold c1. destruct (g_parent c o1); [apply osig_upd_blk | reflexivity]. }
  assert (Er1 : forall g, rsig c1 g = rsig c g).
  { intros g. unfold c1. destruct (g_parent c o1); [apply rsig_upd_blk | reflexivity]. }
  assert (Eo3 : forall o, osig c3 o = if mem o subs then option_map (fun '(p, rs, d) => (None, rs, true)) (osig c o) else osig c o).
  { intros o. unfold c3. rewrite osig_fold_set_dead, Eo12, Eo1. reflexivity. }
  assert (Eb3 : forall b, bsig c3 b = bsig c1 b).
  { intros b. unfold c3. rewrite bsig_fold_set_dead. apply Eb12. }
  assert (Er3 : forall g, rsig c3 g = rsig c g).
  { intros g. unfold c3. rewrite rsig_fold_set_dead, Er12. apply Er1. }
  (* getters of c3 *)
  assert (Ha3 : forall o, In o (g_alive c3) <-> In o (g_alive c) /\ ~ In o subs).
  { intros o. rewrite !alive_osig, Eo3. destruct (mem o subs) eqn:Em.
    - apply mem_in in Em. split; [|tauto]. intros (p & rs & H). destruct (osig c o) as [[[p0 rs0] d0]|]; simpl in H; discriminate.
    - split; [intros H; split; auto; intros Hin; apply mem_in in Hin; congruence | tauto]. }
  assert (Hreg3 : forall o, g_regions c3 o = g_regions c o).
  { intros o. rewrite !regions_osig, Eo3. destruct (mem o subs); auto. destruct (osig c o) as [[[p0 rs0] d0]|]; reflexivity. }
  assert (Hpar3 : forall o, ~ In o subs -> g_parent c3 o = g_parent c o).
  { intros o Hn. rewrite !parent_osig, Eo3. destruct (mem o subs) eqn:Em; auto. apply mem_in in Em. contradiction. }
  assert (Hblk3 : forall g, g_blocks c3 g = g_blocks c g) by (intros; rewrite !blocks_rsig, Er3; reflexivity).
  assert (Hrp3 : forall g, g_rparent c3 g = g_rparent c g) by (intros; rewrite !rparent_rsig, Er3; reflexivity).
  assert (Hbp3 : forall b, g_bparent c3 b = g_bparent c b).
  { intros b. rewrite !bparent_bsig, Eb3. unfold c1. destruct (g_parent c o1) as [b0|]; auto.
    rewrite bsig_upd_blk. destruct (Nat.eqb b b0) eqn:E; auto. apply Nat.eqb_eq in E. subst.
    unfold bsig. destruct (aget (c_blks c) b0); reflexivity. }
  assert (Hbo3 : forall b x, In x (g_bops c3 b) -> In x (g_bops c b) /\ (g_parent c o1 = Some b -> x <> o1)).
  { intros b x. rewrite !bops_bsig, Eb3. unfold c1. destruct (g_parent c o1) as [b0|] eqn:Ep.
    - rewrite bsig_upd_blk. destruct (Nat.eqb b b0) eqn:E.
      + apply Nat.eqb_eq in E. subst. unfold bsig. destruct (aget (c_blks c) b0) as [r|]; simpl; [|intros []].
        unfold remove1. intros H. apply filter_In in H. destruct H as [H Hne]. split; auto.
        intros _ ->. rewrite Nat.eqb_refl in Hne. discriminate.
      + apply Nat.eqb_neq in E. intros H. split; auto. intros E'. inversion E'. congruence.
    - intros H. split; auto. discriminate. }
  (* a live op of c3 has no child in subs *)
  assert (Hchild : forall p g b o, In p (g_alive c3) -> In g (g_regions c p) -> In b (g_blocks c g) ->
                                   In o (g_bops c3 b) -> In o (g_alive c) /\ ~ In o subs).
  { intros p g b o Hp Hg Hb Ho. apply Ha3 in Hp. destruct Hp as [Hp Hpn].
    destruct (Hbo3 b o Ho) as [Hoc Hne].
    assert (Hoa : In o (g_alive c)) by (eapply (ta c T); eauto).
    split; auto. intros Hos.
    destruct (walk_parent c false false _ o1 o Hos) as [->|(p' & g' & b' & Hp' & Hg' & Hb' & Ho')].
    - apply Hne; [apply (t1 c T b o1 Hoc Ho1) | reflexivity].
    - assert (Hp'a : In p' (g_alive c)) by (exact (walk_alive c false false T _ o1 p' Ho1 Hp')).
      pose proof (t1 c T b o Hoc Hoa) as P1. pose proof (t1 c T b' o Ho' Hoa) as P2.
      rewrite P1 in P2. inversion P2; subst b'.
      pose proof (t2 c T g b Hb) as Q1. pose proof (t2 c T g' b Hb') as Q2.
      rewrite Q1 in Q2. inversion Q2; subst g'.
      pose proof (t3 c T p g Hg Hp) as R1. pose proof (t3 c T p' g Hg' Hp'a) as R2.
      rewrite R1 in R2. inversion R2; subst p'. contradiction. }
  split.
  - intros b o Ho Hoa. apply Ha3 in Hoa. destruct Hoa as [Hoa Hon].
    rewrite Hpar3; auto. apply (t1 c T); auto. apply (Hbo3 b o Ho).
  - intros g b. rewrite Hblk3, Hbp3. apply (t2 c T).
  - intros p g. rewrite Hreg3, Hrp3. intros Hg Hp. apply Ha3 in Hp. apply (t3 c T); tauto.
  - intros p g b o Hp Hg Hb Ho. rewrite Hreg3 in Hg. rewrite Hblk3 in Hb.
    apply Ha3. eapply Hchild; eauto.
  - apply Ha3. split; [apply (tr c T) | exact Hroot].
Qed.

(* ---------- summary: the primitives for which the tree half is proved ---------- *)
Definition tree_covered (p : prim) : Prop :=
  match p with
  | PErase _ | PRauw _ _ | PEraseValue _ | PRauwIf _ _ _ | PRetype _ _ | PInsertArg _ _ _ | PEraseArg _ | PBump _ => True
  | PInsert _ _ | PInlineBlock _ _ _ | PMoveRegion _ _ | PInlineRegion _ _ _ | PCreateBlock _ _ _ => False
  end.
(* erase is called on a live operation that does not enclose the owner of the rewritten region *)
Definition erase_side (p : prim) (c : cir) : Prop :=
  match p with PErase o => In o (g_alive c) /\ ~ In root (g_subops c o) | _ => True end.

Theorem tinv_prim_covered p c :
  tree_covered p -> erase_side p c -> TInv c -> TInv (run_prim cir_sem p c).
Proof.
  intros Hc Hs T. destruct p; simpl in *; try contradiction.
  - destruct Hs. apply tinv_erase; assumption.
  - eapply tinv_tree_eq; [apply tree_eq_rauw | exact T].
  - eapply tinv_tree_eq; [apply tree_eq_erase_value | exact T].
  - eapply tinv_tree_eq; [apply tree_eq_rauw_if | exact T].
  - eapply tinv_tree_eq; [apply tree_eq_retype | exact T].
  - eapply tinv_tree_eq; [apply tree_eq_insert_arg | exact T].
  - eapply tinv_tree_eq; [apply tree_eq_erase_arg | exact T].
  - eapply tinv_tree_eq; [apply tree_eq_bump | exact T].
Qed.

(* ---------- InvLaws for the heap model, restricted to the covered primitives ---------- *)
Definition cov_erase_ok (c : cir) (o : op) : Prop := In o (g_alive c) /\ ~ In root (g_subops c o).

Lemma tinv_prim_side p c :
  TInv c -> prim_side cir_sem cir_ins_ok tree_covered cov_erase_ok p c -> TInv (run_prim cir_sem p c).
Proof.
  intros T [Hc Hs]. apply tinv_prim_covered; auto. destruct p; simpl in *; auto.
Qed.

Theorem cir_inv_laws_covered :
  InvLaws cir_sem (fun c => UInv c /\ TInv c) cir_ins_ok tree_covered cov_erase_ok.
Proof.
  apply cir_inv_laws.
  - exact tinv_prim_side.
  - intros c rev rf o T Ho. exact (tinv_walk c T rev rf o Ho).
Qed.

(* the invariants hold initially (ModuleOp([])), so the hypotheses of the theorems are satisfiable *)
Lemma inv_empty_module : UInv empty_module /\ TInv empty_module.
Proof.
  split.
  - split; unfold g_uses; simpl; intros; try contradiction. constructor.
  - split.
    + intros b o H. unfold g_bops in H. simpl in H. destruct (Nat.eqb b 0); simpl in H; contradiction.
    + intros g b H. unfold g_blocks in H. simpl in H. destruct (Nat.eqb g 0) eqn:E; simpl in H; [|contradiction].
      destruct H as [<-|[]]. apply Nat.eqb_eq in E. subst. reflexivity.
    + intros p g H _. unfold g_regions in H. simpl in H. destruct (Nat.eqb p 0) eqn:E; simpl in H; [|contradiction].
      destruct H as [<-|[]]. apply Nat.eqb_eq in E. subst. reflexivity.
    + intros p g b o _ _ _ H. unfold g_bops in H. simpl in H. destruct (Nat.eqb b 0); simpl in H; contradiction.
    + vm_compute. auto.
Qed.
