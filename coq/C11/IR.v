(* C11/IR.v -- the concrete instance of C11/Model.v's `Sem` that is run next to the real code:
   a heap of operations / blocks / regions / SSA values with ordered use lists, mirroring
   xdsl/ir/core.py + xdsl/rewriter.py for exactly the calls the PatternRewriter makes; plus the
   language of scripted patterns used by the correspondence check.  Definitions only. *)
From Coq Require Import List Arith Bool ZArith.
From XV Require Import C11.Model.
Import ListNotations.

(* ---------- association maps with nat keys ---------- *)
Definition amap (A : Type) := list (nat * A).
Fixpoint aget {A} (m : amap A) (k : nat) : option A :=
  match m with
  | [] => None
  | (k', v) :: r => if Nat.eqb k k' then Some v else aget r k
  end.
Fixpoint aset {A} (m : amap A) (k : nat) (v : A) : amap A :=
  match m with
  | [] => [(k, v)]
  | (k', v') :: r => if Nat.eqb k k' then (k, v) :: r else (k', v') :: aset r k v
  end.
Definition amem {A} (m : amap A) (k : nat) : bool :=
  match aget m k with Some _ => true | None => false end.

Definition mem (x : nat) (l : list nat) : bool := existsb (Nat.eqb x) l.
Definition remove1 (x : nat) (l : list nat) : list nat := filter (fun y => negb (Nat.eqb x y)) l.
Fixpoint index_of (x : nat) (l : list nat) : option nat :=
  match l with
  | [] => None
  | y :: r => if Nat.eqb x y then Some 0 else option_map S (index_of x r)
  end.
Fixpoint insert_at {A} (i : nat) (x : list A) (l : list A) : list A :=
  match i, l with
  | O, _ => x ++ l
  | S i', y :: r => y :: insert_at i' x r
  | S _, [] => x
  end.
(* insert xs before the element `b` of l (at the end if `b` is None / absent) *)
Definition insert_before (xs : list nat) (b : option nat) (l : list nat) : list nat :=
  match b with
  | None => l ++ xs
  | Some y => match index_of y l with Some i => insert_at i xs l | None => l ++ xs end
  end.
Fixpoint next_of (x : nat) (l : list nat) : option nat :=
  match l with
  | [] => None
  | y :: r => if Nat.eqb x y then hd_error r else next_of x r
  end.
Fixpoint set_nth {A} (i : nat) (v : A) (l : list A) : list A :=
  match l, i with
  | [], _ => []
  | _ :: r, O => v :: r
  | x :: r, S i' => x :: set_nth i' v r
  end.

(* ---------- the heap ---------- *)
Record opr := { o_parent : option block; o_pure : bool; o_stage : nat; o_operands : list operand;
                o_results : list value; o_regions : list nat; o_dead : bool }.
Record blkr := { b_parent : option nat; b_args : list value; b_ops : list op }.
Record regr := { r_parent : option op; r_blocks : list block }.
Inductive vowner := VOOp (o : op) | VOBlock (b : block).
Record valr := { v_type : Z; v_owner : vowner; v_uses : list (op * nat) }.
Record cir := { c_ops : amap opr; c_blks : amap blkr; c_regs : amap regr; c_vals : amap valr;
                c_next : nat;            (* fresh ids for values and regions *)
                c_limbo : list nat }.    (* regions returned by move_region_contents_to_new_regions *)
Definition root : op := 0.

Definition with_ops (c : cir) (m : amap opr) : cir :=
  {| c_ops := m; c_blks := c_blks c; c_regs := c_regs c; c_vals := c_vals c; c_next := c_next c; c_limbo := c_limbo c |}.
Definition with_blks (c : cir) (m : amap blkr) : cir :=
  {| c_ops := c_ops c; c_blks := m; c_regs := c_regs c; c_vals := c_vals c; c_next := c_next c; c_limbo := c_limbo c |}.
Definition with_regs (c : cir) (m : amap regr) : cir :=
  {| c_ops := c_ops c; c_blks := c_blks c; c_regs := m; c_vals := c_vals c; c_next := c_next c; c_limbo := c_limbo c |}.
Definition with_vals (c : cir) (m : amap valr) : cir :=
  {| c_ops := c_ops c; c_blks := c_blks c; c_regs := c_regs c; c_vals := m; c_next := c_next c; c_limbo := c_limbo c |}.
Definition with_next (c : cir) (n : nat) : cir :=
  {| c_ops := c_ops c; c_blks := c_blks c; c_regs := c_regs c; c_vals := c_vals c; c_next := n; c_limbo := c_limbo c |}.
Definition with_limbo (c : cir) (l : list nat) : cir :=
  {| c_ops := c_ops c; c_blks := c_blks c; c_regs := c_regs c; c_vals := c_vals c; c_next := c_next c; c_limbo := l |}.

Definition upd_op (c : cir) (o : op) (f : opr -> opr) : cir :=
  match aget (c_ops c) o with Some r => with_ops c (aset (c_ops c) o (f r)) | None => c end.
Definition upd_blk (c : cir) (b : block) (f : blkr -> blkr) : cir :=
  match aget (c_blks c) b with Some r => with_blks c (aset (c_blks c) b (f r)) | None => c end.
Definition upd_reg (c : cir) (g : nat) (f : regr -> regr) : cir :=
  match aget (c_regs c) g with Some r => with_regs c (aset (c_regs c) g (f r)) | None => c end.
Definition upd_val (c : cir) (v : value) (f : valr -> valr) : cir :=
  match aget (c_vals c) v with Some r => with_vals c (aset (c_vals c) v (f r)) | None => c end.

Definition set_parent (p : option block) (r : opr) : opr :=
  {| o_parent := p; o_pure := o_pure r; o_stage := o_stage r; o_operands := o_operands r;
     o_results := o_results r; o_regions := o_regions r; o_dead := o_dead r |}.
Definition set_operands (l : list operand) (r : opr) : opr :=
  {| o_parent := o_parent r; o_pure := o_pure r; o_stage := o_stage r; o_operands := l;
     o_results := o_results r; o_regions := o_regions r; o_dead := o_dead r |}.
Definition set_regions (l : list nat) (r : opr) : opr :=
  {| o_parent := o_parent r; o_pure := o_pure r; o_stage := o_stage r; o_operands := o_operands r;
     o_results := o_results r; o_regions := l; o_dead := o_dead r |}.
Definition set_dead (r : opr) : opr :=
  {| o_parent := None; o_pure := o_pure r; o_stage := o_stage r; o_operands := o_operands r;
     o_results := o_results r; o_regions := o_regions r; o_dead := true |}.
Definition set_stage (n : nat) (r : opr) : opr :=
  {| o_parent := o_parent r; o_pure := o_pure r; o_stage := n; o_operands := o_operands r;
     o_results := o_results r; o_regions := o_regions r; o_dead := o_dead r |}.
Definition set_bops (l : list op) (r : blkr) : blkr :=
  {| b_parent := b_parent r; b_args := b_args r; b_ops := l |}.
Definition set_bargs (l : list value) (r : blkr) : blkr :=
  {| b_parent := b_parent r; b_args := l; b_ops := b_ops r |}.
Definition set_bparent (p : option nat) (r : blkr) : blkr :=
  {| b_parent := p; b_args := b_args r; b_ops := b_ops r |}.
Definition set_rblocks (l : list block) (r : regr) : regr := {| r_parent := r_parent r; r_blocks := l |}.
Definition set_rparent (p : option op) (r : regr) : regr := {| r_parent := p; r_blocks := r_blocks r |}.
Definition set_uses (l : list (op * nat)) (r : valr) : valr :=
  {| v_type := v_type r; v_owner := v_owner r; v_uses := l |}.
Definition set_vtype (t : Z) (r : valr) : valr :=
  {| v_type := t; v_owner := v_owner r; v_uses := v_uses r |}.

(* ---------- observers ---------- *)
Definition g_uses (c : cir) (v : value) : list (op * nat) :=
  match aget (c_vals c) v with Some r => v_uses r | None => [] end.
Definition g_operands (c : cir) (o : op) : list operand :=
  match aget (c_ops c) o with Some r => o_operands r | None => [] end.
Definition g_results (c : cir) (o : op) : list value :=
  match aget (c_ops c) o with Some r => o_results r | None => [] end.
Definition g_regions (c : cir) (o : op) : list nat :=
  match aget (c_ops c) o with Some r => o_regions r | None => [] end.
Definition g_blocks (c : cir) (g : nat) : list block :=
  match aget (c_regs c) g with Some r => r_blocks r | None => [] end.
Definition g_bops (c : cir) (b : block) : list op :=
  match aget (c_blks c) b with Some r => b_ops r | None => [] end.
Definition g_bargs (c : cir) (b : block) : list value :=
  match aget (c_blks c) b with Some r => b_args r | None => [] end.
Definition g_parent (c : cir) (o : op) : option block :=
  match aget (c_ops c) o with Some r => o_parent r | None => None end.
Definition g_bparent (c : cir) (b : block) : option nat :=
  match aget (c_blks c) b with Some r => b_parent r | None => None end.
Definition g_owner_op (c : cir) (v : value) : option op :=
  match aget (c_vals c) v with
  | Some r => match v_owner r with VOOp o => Some o | VOBlock _ => None end
  | None => None
  end.
(* Block.parent_op() *)
Definition g_block_parent_op (c : cir) (b : block) : option op :=
  match g_bparent c b with
  | Some g => match aget (c_regs c) g with Some r => r_parent r | None => None end
  | None => None
  end.
Definition g_def_parent (c : cir) (v : value) : option op :=
  match aget (c_vals c) v with
  | Some r => match v_owner r with VOOp o => Some o | VOBlock b => g_block_parent_op c b end
  | None => None
  end.
Definition g_has_regions (c : cir) (o : op) : bool :=
  match g_regions c o with [] => false | _ => true end.

Definition ord {A} (rev : bool) (l : list A) : list A := if rev then List.rev l else l.

(* Operation.walk(reverse, region_first) *)
Fixpoint walk_op (f : nat) (c : cir) (rev rf : bool) (o : op) : list op :=
  match f with
  | O => []
  | S f' =>
      let inner :=
        flat_map (fun g => flat_map (fun b => flat_map (walk_op f' c rev rf) (ord rev (g_bops c b)))
                                    (ord rev (g_blocks c g)))
                 (ord rev (g_regions c o)) in
      if rf then inner ++ [o] else o :: inner
  end.
(* blocks nested in an operation *)
Fixpoint blocks_op (f : nat) (c : cir) (o : op) : list block :=
  match f with
  | O => []
  | S f' =>
      flat_map (fun g => flat_map (fun b => b :: flat_map (blocks_op f' c) (g_bops c b)) (g_blocks c g))
               (g_regions c o)
  end.
Definition fuel_of (c : cir) : nat := S (length (c_ops c)).
Definition g_subops (c : cir) (o : op) : list op := walk_op (fuel_of c) c false false o.
Definition g_subblocks (c : cir) (o : op) : list block := blocks_op (fuel_of c) c o.
Definition g_walk (rev rf : bool) (c : cir) : list op :=
  remove1 root (walk_op (fuel_of c) c rev rf root).
Definition op_alive (c : cir) (o : op) : bool :=
  match aget (c_ops c) o with Some r => negb (o_dead r) | None => false end.
Definition g_alive (c : cir) : list op := filter (op_alive c) (map fst (c_ops c)).
Definition g_attached (c : cir) : list op := g_subops c root.
Definition g_trivially_dead (c : cir) (o : op) : bool :=
  match aget (c_ops c) o with
  | Some r => o_pure r && forallb (fun v => match g_uses c v with [] => true | _ => false end) (o_results r)
  | None => false
  end.

(* ---------- use lists ---------- *)
Definition use_eqb (a b : op * nat) : bool := Nat.eqb (fst a) (fst b) && Nat.eqb (snd a) (snd b).
Fixpoint remove_use_l (u : op * nat) (l : list (op * nat)) : list (op * nat) :=
  match l with
  | [] => []
  | x :: r => if use_eqb u x then r else x :: remove_use_l u r
  end.
Definition add_use (c : cir) (v : value) (u : op * nat) : cir :=
  upd_val c v (fun r => set_uses (u :: v_uses r) r).
Definition remove_use (c : cir) (v : value) (u : op * nat) : cir :=
  upd_val c v (fun r => set_uses (remove_use_l u (v_uses r)) r).
Definition set_operand (c : cir) (u : op * nat) (x : operand) : cir :=
  upd_op c (fst u) (fun r => set_operands (set_nth (snd u) x (o_operands r)) r).

(* ---------- construction ---------- *)
Fixpoint alloc_vals (c : cir) (ow : vowner) (tys : list Z) : cir * list value :=
  match tys with
  | [] => (c, [])
  | t :: r =>
      let v := c_next c in
      let c1 := with_next (with_vals c (aset (c_vals c) v {| v_type := t; v_owner := ow; v_uses := [] |})) (S v) in
      let '(c2, vs) := alloc_vals c1 ow r in (c2, v :: vs)
  end.
Fixpoint add_uses_from (c : cir) (o : op) (i : nat) (vs : list value) : cir :=
  match vs with
  | [] => c
  | v :: r => add_uses_from (add_use c v (o, i)) o (S i) r
  end.
(* Operation.__init__: operands (uses added in order), results; no regions yet, no parent *)
Definition mk_op (c : cir) (id : op) (pure : bool) (stage : nat) (opers : list value) (restys : list Z) : cir :=
  let c1 := add_uses_from c id 0 opers in
  let '(c2, rs) := alloc_vals c1 (VOOp id) restys in
  with_ops c2 (aset (c_ops c2) id {| o_parent := None; o_pure := pure; o_stage := stage;
                                     o_operands := map OVal opers; o_results := rs; o_regions := [];
                                     o_dead := false |}).
Definition mk_block (c : cir) (id : block) (tys : list Z) : cir :=
  let '(c1, vs) := alloc_vals c (VOBlock id) tys in
  with_blks c1 (aset (c_blks c1) id {| b_parent := None; b_args := vs; b_ops := [] |}).
Definition mk_region (c : cir) (parent : option op) : cir * nat :=
  let g := c_next c in
  (with_next (with_regs c (aset (c_regs c) g {| r_parent := parent; r_blocks := [] |})) (S g), g).
Definition append_op (c : cir) (b : block) (o : op) : cir :=
  upd_op (upd_blk c b (fun r => set_bops (b_ops r ++ [o]) r)) o (set_parent (Some b)).
Definition append_block (c : cir) (g : nat) (b : block) : cir :=
  upd_blk (upd_reg c g (fun r => set_rblocks (r_blocks r ++ [b]) r)) b (set_bparent (Some g)).
Definition attach_regions (c : cir) (o : op) (gs : list nat) : cir :=
  fold_left (fun c g => upd_reg c g (set_rparent (Some o))) gs
            (upd_op c o (fun r => set_regions (o_regions r ++ gs) r)).

(* ModuleOp([]) : operation 0 owning region 0 holding block 0 *)
Definition empty_module : cir :=
  {| c_ops := [(0, {| o_parent := None; o_pure := false; o_stage := 0; o_operands := []; o_results := [];
                      o_regions := [0]; o_dead := false |})];
     c_blks := [(0, {| b_parent := Some 0; b_args := []; b_ops := [] |})];
     c_regs := [(0, {| r_parent := Some 0; r_blocks := [0] |})];
     c_vals := []; c_next := 1; c_limbo := [] |}.

(* ---------- primitive mutations ---------- *)
(* InsertPoint -> (block, insert_before) *)
Definition ip_target (c : cir) (ip : ipoint) : option (block * option op) :=
  match ip with
  | IPDefault => None
  | IPBefore t => match g_parent c t with Some b => Some (b, Some t) | None => None end
  | IPAfter t => match g_parent c t with Some b => Some (b, next_of t (g_bops c b)) | None => None end
  | IPStart b => Some (b, hd_error (g_bops c b))
  | IPEnd b => Some (b, None)
  end.
Definition place_ops (c : cir) (os : list op) (tgt : block * option op) : cir :=
  let '(b, before) := tgt in
  fold_left (fun c o => upd_op c o (set_parent (Some b))) os
            (upd_blk c b (fun r => set_bops (insert_before os before (b_ops r)) r)).

Definition create_leaf (c : cir) (b : block) (l : leafop) : cir :=
  append_op (mk_op c (lf_id l) (lf_pure l) 0 (lf_operands l) (lf_restys l)) b (lf_id l).
Definition create_blk (c : cir) (g : nat) (nb : newblk) : cir :=
  let c1 := mk_block c (nb_id nb) (nb_argtys nb) in
  let c2 := fold_left (fun c l => create_leaf c (nb_id nb) l) (nb_body nb) c1 in
  append_block c2 g (nb_id nb).
(* regions first (leaf ops are created before their owner), then the op itself *)
Definition create_new (limbo0 : list nat) (c : cir) (n : newop) : cir :=
  let '(c1, gs) :=
    fold_left (fun (acc : cir * list nat) (nr : newreg) =>
                 let '(c, gs) := acc in
                 match nr with
                 | NRFresh bs => let '(c1, g) := mk_region c None in
                                 (fold_left (fun c nb => create_blk c g nb) bs c1, gs ++ [g])
                 | NRLimbo k => (c, gs ++ [nth k limbo0 0])
                 end) (no_regions n) (c, []) in
  attach_regions (mk_op c1 (no_id n) (no_pure n) 0 (no_operands n) (no_restys n)) (no_id n) gs.
Definition limbo_used (news : list newop) : list nat :=
  flat_map (fun n => flat_map (fun nr => match nr with NRLimbo k => [k] | NRFresh _ => [] end) (no_regions n)) news.
Definition drop_limbo (limbo0 : list nat) (ks : list nat) : list nat :=
  map snd (filter (fun ig => negb (mem (fst ig) ks)) (combine (seq 0 (length limbo0)) limbo0)).

Definition cp_insert (news : list newop) (ip : ipoint) (c : cir) : cir :=
  match ip_target c ip with
  | None => c
  | Some tgt =>
      let limbo0 := c_limbo c in
      let c1 := fold_left (create_new limbo0) news c in
      let c2 := with_limbo c1 (drop_limbo limbo0 (limbo_used news)) in
      place_ops c2 (map no_id news) tgt
  end.

Definition drop_operand_uses (c : cir) (s : op) : cir :=
  fst (fold_left (fun (acc : cir * nat) (x : operand) =>
                    let '(c, i) := acc in
                    (match x with OVal v => remove_use c v (s, i) | OErased => c end, S i))
                 (g_operands c s) (c, 0)).
(* Rewriter.erase_op: detach, drop_all_references of the op and everything nested, mark dead *)
Definition cp_erase (o : op) (c : cir) : cir :=
  let subs := g_subops c o in
  let c1 := match g_parent c o with
            | Some b => upd_blk c b (fun r => set_bops (remove1 o (b_ops r)) r)
            | None => c
            end in
  let c2 := fold_left drop_operand_uses subs c1 in
  fold_left (fun c s => upd_op c s set_dead) subs c2.

(* `use.operation.operands[use.index] = value`: OpOperands.__setitem__ *)
Definition move_use (v t : value) (c : cir) (u : op * nat) : cir :=
  add_use (remove_use (set_operand c u (OVal t)) v u) t u.
(* SSAValue.replace_all_uses_with: for use in tuple(self.uses) *)
Definition cp_rauw (v t : value) (c : cir) : cir :=
  if Nat.eqb v t then c else fold_left (move_use v t) (g_uses c v) c.
(* SSAValue.erase(safe_erase=False) = replace_all_uses_with(ErasedSSAValue) *)
Definition cp_erase_value (v : value) (c : cir) : cir :=
  fold_left (fun c u => remove_use (set_operand c u OErased) v u) (g_uses c v) c.
(* SSAValue.replace_uses_with_if *)
Definition cp_rauw_if (v t : value) (p : upred) (c : cir) : cir :=
  fold_left (fun c u => if eval_upred p u then move_use v t c u else c) (g_uses c v) c.
(* Rewriter.replace_value_with_new_type: a new value object takes the place of the old one and
   inherits its uses one by one (which reverses the use list) *)
Definition cp_retype (v : value) (ty : Z) (c : cir) : cir :=
  upd_val c v (fun r => set_vtype ty (set_uses (List.rev (v_uses r)) r)).
Definition cp_insert_arg (b : block) (idx : nat) (ty : Z) (c : cir) : cir :=
  let '(c1, vs) := alloc_vals c (VOBlock b) [ty] in
  upd_blk c1 b (fun r => set_bargs (insert_at idx vs (b_args r)) r).
Definition cp_erase_arg (v : value) (c : cir) : cir :=
  match aget (c_vals c) v with
  | Some r => match v_owner r with
              | VOBlock b => cp_erase_value v (upd_blk c b (fun r => set_bargs (remove1 v (b_args r)) r))
              | VOOp _ => c
              end
  | None => c
  end.
Definition cp_inline_block (b : block) (ip : ipoint) (args : list value) (c : cir) : cir :=
  match ip_target c ip with
  | None => c
  | Some tgt =>
      let c1 := fold_left (fun c av => cp_rauw (fst av) (snd av) c) (combine (g_bargs c b) args) c in
      let os := g_bops c1 b in
      let c2 := upd_blk c1 b (set_bops []) in
      let c3 := place_ops c2 os tgt in
      match g_bparent c3 b with
      | Some g => upd_blk (upd_reg c3 g (fun r => set_rblocks (remove1 b (r_blocks r)) r)) b (set_bparent None)
      | None => c3
      end
  end.
Definition cp_move_region (o : op) (k : nat) (c : cir) : cir :=
  match nth_error (g_regions c o) k with
  | None => c
  | Some g =>
      let bs := g_blocks c g in
      let '(c1, g') := mk_region c None in
      let c2 := upd_reg (upd_reg c1 g (set_rblocks [])) g' (set_rblocks bs) in
      let c3 := fold_left (fun c b => upd_blk c b (set_bparent (Some g'))) bs c2 in
      with_limbo c3 (c_limbo c3 ++ [g'])
  end.
(* BlockInsertPoint -> (region, insert_before) *)
Definition bp_target (c : cir) (bp : bpoint) : option (nat * option block) :=
  match bp with
  | BPBefore b => match g_bparent c b with Some g => Some (g, Some b) | None => None end
  | BPAfter b => match g_bparent c b with Some g => Some (g, next_of b (g_blocks c g)) | None => None end
  | BPStart o k => match nth_error (g_regions c o) k with
                   | Some g => Some (g, hd_error (g_blocks c g)) | None => None end
  | BPEnd o k => match nth_error (g_regions c o) k with Some g => Some (g, None) | None => None end
  end.
Definition place_blocks (c : cir) (bs : list block) (tgt : nat * option block) : cir :=
  let '(g, before) := tgt in
  fold_left (fun c b => upd_blk c b (set_bparent (Some g))) bs
            (upd_reg c g (fun r => set_rblocks (insert_before bs before (r_blocks r)) r)).
Definition cp_inline_region (o : op) (k : nat) (bp : bpoint) (c : cir) : cir :=
  match nth_error (g_regions c o) k, bp_target c bp with
  | Some g, Some tgt =>
      let bs := g_blocks c g in
      place_blocks (upd_reg c g (set_rblocks [])) bs tgt
  | _, _ => c
  end.
Definition cp_create_block (id : block) (bp : bpoint) (tys : list Z) (c : cir) : cir :=
  match bp_target c bp with
  | Some tgt => place_blocks (mk_block c id tys) [id] tgt
  | None => c
  end.
Definition cp_bump (o : op) (c : cir) : cir :=
  match aget (c_ops c) o with
  | Some r => if o_dead r then c else upd_op c o (set_stage (S (o_stage r)))
  | None => c
  end.

Definition cir_sem : Sem :=
  {| C := cir; uses := g_uses; operands := g_operands; results := g_results; owner_op := g_owner_op;
     def_parent := g_def_parent; has_regions := g_has_regions; subops := g_subops; walk := g_walk;
     alive := g_alive; attached := g_attached; trivially_dead := g_trivially_dead;
     p_insert := cp_insert; p_erase := cp_erase; p_rauw := cp_rauw; p_erase_value := cp_erase_value;
     p_rauw_if := cp_rauw_if; p_retype := cp_retype; p_insert_arg := cp_insert_arg;
     p_erase_arg := cp_erase_arg; p_inline_block := cp_inline_block; p_move_region := cp_move_region;
     p_inline_region := cp_inline_region; p_create_block := cp_create_block; p_bump := cp_bump |}.

(* ------------------------------------------------------------------ *)
(* Building the initial IR from the same command list the harness executes on xDSL. *)
Inductive vref := VRes (t : op) (i : nat) | VArg (b : block) (i : nat).
Inductive bcmd :=
| KOp (id : op) (pure : bool) (stage : nat) (parent : block) (opers : list vref) (restys : list Z) (nregs : nat)
| KBlk (id : block) (o : op) (r : nat) (argtys : list Z).

Definition rv_raw (c : cir) (x : vref) : option value :=
  match x with
  | VRes t i => nth_error (g_results c t) i
  | VArg b i => nth_error (g_bargs c b) i
  end.
Fixpoint all_some {A} (l : list (option A)) : option (list A) :=
  match l with
  | [] => Some []
  | None :: _ => None
  | Some x :: r => option_map (cons x) (all_some r)
  end.
Fixpoint mk_regions (c : cir) (n : nat) : cir * list nat :=
  match n with
  | O => (c, [])
  | S n' => let '(c1, g) := mk_region c None in let '(c2, gs) := mk_regions c1 n' in (c2, g :: gs)
  end.
Definition build_cmd (c : cir) (k : bcmd) : cir :=
  match k with
  | KOp id pure st parent opers restys nregs =>
      match all_some (map (rv_raw c) opers) with
      | None => c
      | Some vs =>
          let '(c1, gs) := mk_regions c nregs in
          append_op (attach_regions (mk_op c1 id pure st vs restys) id gs) parent id
      end
  | KBlk id o r tys =>
      match nth_error (g_regions c o) r with
      | Some g => append_block (mk_block c id tys) g id
      | None => c
      end
  end.
Definition build (ks : list bcmd) : cir := fold_left build_cmd ks empty_module.

(* ------------------------------------------------------------------ *)
(* Scripted patterns: a table (op tag, stage) -> guarded list of call templates.  A template is
   resolved against the current IR when its turn comes; an unresolvable reference or a violated
   precondition of the real method (it would raise, or leave dangling references) skips the call. *)
Record tleaf := { tl_id : op; tl_pure : bool; tl_operands : list vref; tl_restys : list Z }.
Record tblk := { tb_id : block; tb_argtys : list Z; tb_body : list tleaf }.
Inductive treg := TRFresh (bs : list tblk) | TRLimbo (k : nat).
Record tnew := { tn_id : op; tn_pure : bool; tn_operands : list vref; tn_restys : list Z;
                 tn_regions : list treg }.
Inductive tmpl :=
| TInsert (news : list tnew) (ip : ipoint)
| TErase (t : op)
| TRauw (from : vref) (to : option vref)
| TRauwIf (from to : vref) (p : upred)
| TReplace (t : op) (news : list tnew) (res : option (list (option vref)))
| TRetype (v : vref) (ty : Z)
| TInsertArg (b : block) (idx : nat) (ty : Z)
| TEraseArg (v : vref)
| TInlineBlock (b : block) (ip : ipoint) (args : list vref)
| TMoveRegion (t : op) (r : nat)
| TInlineRegion (t : op) (r : nat) (bp : bpoint)
| TNotify (t : op)
| TCreateBlock (id : block) (bp : bpoint) (tys : list Z)
(* `rewriter.name_hint = ...` (Builder property, reset by the walker before every match): not a
   rewriting call; name hints are not part of the modelled IR, so nothing observable changes *)
| TSetHint (on : bool).

Definition att_blocks (c : cir) : list block := g_subblocks c root.
Definition att_op (c : cir) (t : op) : bool := mem t (g_attached c) && negb (Nat.eqb t root).
Definition att_blk (c : cir) (b : block) : bool := mem b (att_blocks c).
Definition rv (c : cir) (x : vref) : option value :=
  match x with
  | VRes t i => if att_op c t then nth_error (g_results c t) i else None
  | VArg b i => if att_blk c b then nth_error (g_bargs c b) i else None
  end.
Definition unused (c : cir) (v : value) : bool := match g_uses c v with [] => true | _ => false end.
Definition nodup_nat (l : list nat) : bool :=
  (fix go (l seen : list nat) : bool :=
     match l with [] => true | x :: r => negb (mem x seen) && go r (x :: seen) end) l [].

Definition ip_ok (c : cir) (r : rw) (ip : ipoint) : bool :=
  match real_ip r ip with
  | IPDefault => false
  | IPBefore t | IPAfter t => att_op c t
  | IPStart b | IPEnd b => att_blk c b
  end.
Definition ip_block (c : cir) (r : rw) (ip : ipoint) : option block :=
  option_map fst (ip_target c (real_ip r ip)).
Definition bp_ok (c : cir) (bp : bpoint) : bool :=
  match bp with
  | BPBefore b | BPAfter b => att_blk c b
  | BPStart o k | BPEnd o k =>
      att_op c o && match nth_error (g_regions c o) k with Some _ => true | None => false end
  end.

Definition res_leaf (c : cir) (l : tleaf) : option leafop :=
  option_map (fun vs => {| lf_id := tl_id l; lf_pure := tl_pure l; lf_operands := vs; lf_restys := tl_restys l |})
             (all_some (map (rv c) (tl_operands l))).
Definition res_blk (c : cir) (b : tblk) : option newblk :=
  option_map (fun ls => {| nb_id := tb_id b; nb_argtys := tb_argtys b; nb_body := ls |})
             (all_some (map (res_leaf c) (tb_body b))).
Definition res_reg (c : cir) (g : treg) : option newreg :=
  match g with
  | TRFresh bs => option_map NRFresh (all_some (map (res_blk c) bs))
  | TRLimbo k => if Nat.ltb k (length (c_limbo c)) then Some (NRLimbo k) else None
  end.
Definition res_new (c : cir) (n : tnew) : option newop :=
  match all_some (map (rv c) (tn_operands n)), all_some (map (res_reg c) (tn_regions n)) with
  | Some vs, Some gs => Some {| no_id := tn_id n; no_pure := tn_pure n; no_operands := vs;
                                no_restys := tn_restys n; no_regions := gs |}
  | _, _ => None
  end.
Definition new_op_ids (news : list newop) : list op :=
  flat_map (fun n => no_id n :: flat_map (fun g => match g with
                                                     | NRFresh bs => flat_map (fun b => map lf_id (nb_body b)) bs
                                                     | NRLimbo _ => [] end) (no_regions n)) news.
Definition new_blk_ids (news : list newop) : list block :=
  flat_map (fun n => flat_map (fun g => match g with NRFresh bs => map nb_id bs | NRLimbo _ => [] end)
                              (no_regions n)) news.
(* all new identifiers are unused so far, pairwise distinct; limbo slots are used at most once *)
Definition news_ok (c : cir) (news : list newop) : bool :=
  forallb (fun i => negb (amem (c_ops c) i)) (new_op_ids news) && nodup_nat (new_op_ids news)
  && forallb (fun i => negb (amem (c_blks c) i)) (new_blk_ids news) && nodup_nat (new_blk_ids news)
  && nodup_nat (limbo_used news).
Definition news_operands (news : list newop) : list value :=
  flat_map (fun n => no_operands n ++ flat_map (fun g => match g with
                                                         | NRFresh bs => flat_map (fun b => flat_map lf_operands (nb_body b)) bs
                                                         | NRLimbo _ => [] end) (no_regions n)) news.
Definition res_news (c : cir) (news : list tnew) : option (list newop) :=
  match all_some (map (res_new c) news) with
  | Some l => if news_ok c l then Some l else None
  | None => None
  end.

(* values defined inside the subtree of o (results of nested ops, arguments of nested blocks);
   `top` = false leaves out o's own results *)
Definition defs_under (c : cir) (o : op) (top : bool) : list value :=
  flat_map (fun s => if Nat.eqb s o && negb top then [] else g_results c s) (g_subops c o)
  ++ flat_map (g_bargs c) (g_subblocks c o).
(* no operation outside the subtree of o uses a value in vs *)
Definition used_only_inside (c : cir) (o : op) (vs : list value) : bool :=
  let subs := g_subops c o in
  forallb (fun v => forallb (fun u => mem (fst u) subs) (g_uses c v)) vs.
Definition blocks_under_block (c : cir) (b : block) : list block :=
  b :: flat_map (g_subblocks c) (g_bops c b).
Definition ops_under_region (c : cir) (g : nat) : list op :=
  flat_map (fun b => flat_map (g_subops c) (g_bops c b)) (g_blocks c g).
Definition blocks_under_region (c : cir) (g : nat) : list block :=
  flat_map (blocks_under_block c) (g_blocks c g).

Definition resolve (c : cir) (r : rw) (tm : tmpl) : option action :=
  match tm with
  | TInsert news ip =>
      if ip_ok c r ip then option_map (fun l => AInsert l ip) (res_news c news) else None
  | TErase t =>
      if att_op c t && used_only_inside c t (defs_under c t true) then Some (AErase t) else None
  | TRauw from to =>
      match rv c from, to with
      | Some f, Some tx => option_map (fun t => ARauw f (Some t)) (rv c tx)
      | Some f, None => if unused c f then Some (ARauw f None) else None
      | None, _ => None
      end
  | TRauwIf from to p =>
      match rv c from, rv c to with
      | Some f, Some t => Some (ARauwIf f t p)
      | _, _ => None
      end
  | TReplace t news res =>
      if att_op c t && used_only_inside c t (defs_under c t false) then
        match res_news c news with
        | None => None
        | Some l =>
            if negb (forallb (fun v => negb (mem v (defs_under c t false))) (news_operands l)) then None else
            let nold := length (g_results c t) in
            match res with
            | None =>
                let nnew := match last_opt l with Some n => length (no_restys n) | None => 0 end in
                if Nat.eqb nold nnew then Some (AReplace t l None) else None
            | Some rs =>
                match all_some (map (fun x => match x with
                                              | None => Some None
                                              | Some y => option_map Some (rv c y) end) rs) with
                | None => None
                | Some vs =>
                    if Nat.eqb nold (length vs)
                       && forallb (fun ov => match ov with
                                             | (old, None) => unused c old && negb (mem old (news_operands l))
                                             | (_, Some v) => negb (mem v (defs_under c t true))
                                             end) (combine (g_results c t) vs)
                    then Some (AReplace t l (Some vs)) else None
                end
            end
        end
      else None
  | TRetype v ty =>
      match rv c v with
      | Some x => match g_def_parent c x with
                  | Some p => if Nat.eqb p root then None else Some (ARetype x ty)
                  | None => None
                  end
      | None => None
      end
  | TInsertArg b idx ty =>
      if att_blk c b && Nat.leb idx (length (g_bargs c b)) then Some (AInsertArg b idx ty) else None
  | TEraseArg v =>
      match v, rv c v with
      | VArg _ _, Some x => if unused c x then Some (AEraseArg x) else None
      | _, _ => None
      end
  | TInlineBlock b ip args =>
      if att_blk c b && ip_ok c r ip then
        match ip_block c r ip, all_some (map (rv c) args) with
        | Some d, Some vs =>
            if negb (mem d (blocks_under_block c b))
               && (match vs with
                   | [] => forallb (unused c) (g_bargs c b)
                   | _ => Nat.eqb (length vs) (length (g_bargs c b))
                          && forallb (fun v => negb (mem v (g_bargs c b))) vs
                   end)
            then Some (AInlineBlock b ip vs) else None
        | _, _ => None
        end
      else None
  | TMoveRegion t k =>
      if att_op c t && match nth_error (g_regions c t) k with Some _ => true | None => false end
      then Some (AMoveRegion t k) else None
  | TInlineRegion t k bp =>
      if att_op c t && bp_ok c bp then
        match nth_error (g_regions c t) k, bp_target c bp with
        | Some g, Some (g', before) =>
            if negb (Nat.eqb g g')
               && match aget (c_regs c) g' with
                  | Some rg => match r_parent rg with
                               | Some p => negb (mem p (ops_under_region c g))
                               | None => false
                               end
                  | None => false
                  end
            then Some (AInlineRegion t k bp) else None
        | _, _ => None
        end
      else None
  | TNotify t => if att_op c t then Some (ANotify t) else None
  | TCreateBlock id bp tys =>
      if bp_ok c bp && negb (amem (c_blks c) id) then Some (ACreateBlock id bp tys) else None
  | TSetHint _ => None
  end.

(* guards are evaluated when the match starts *)
Inductive guard :=
| GStageGe (t : op) (n : nat) | GUnused (v : vref) | GNumBlocks (t : op) (r n : nat) | GNot (g : guard).
Fixpoint eval_guard (c : cir) (g : guard) : bool :=
  match g with
  | GStageGe t n => att_op c t && match aget (c_ops c) t with Some r => Nat.leb n (o_stage r) | None => false end
  | GUnused v => match rv c v with Some x => unused c x | None => false end
  | GNumBlocks t r n => att_op c t && match nth_error (g_regions c t) r with
                                      | Some g => Nat.eqb (length (g_blocks c g)) n | None => false end
  | GNot g' => negb (eval_guard c g')
  end.

Record entry := { e_tag : op; e_stage : nat; e_guards : list guard; e_steps : list tmpl }.
Definition table := list entry.
Definition stage_of (c : cir) (o : op) : nat :=
  match aget (c_ops c) o with Some r => o_stage r | None => 0 end.
Definition script (tb : table) : pattern cir_sem :=
  fun c o =>
    match find (fun e => Nat.eqb (e_tag e) o && Nat.eqb (e_stage e) (stage_of c o)) tb with
    | Some e =>
        if forallb (eval_guard c) (e_guards e)
        then map (fun tm => PAct cir_sem (fun c r => resolve c r tm)) (e_steps e) ++ [PBumpIfFlag cir_sem o]
        else []
    | None => []
    end.

(* pop policy given by a finite choice sequence (cyclic); [] = LIFO *)
Definition pick_seq (sq : list nat) : pick_t :=
  fun k w => match sq with [] => length w - 1 | _ => nth (k mod length sq) sq 0 end.
