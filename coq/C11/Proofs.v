(* C11/Proofs.v -- specifications and proofs about the generic driver of C11/Model.v, valid for
   every IR model `M : Sem` that satisfies the stated primitive laws, every pattern (a sequence of
   rewriter calls), every pop policy and every walk configuration. *)
From Coq Require Import List Arith Bool ZArith Lia.
From XV Require Import C11.Model.
Import ListNotations.

Arguments ws_c {M} _.
Arguments ws_flag {M} _.
Arguments ws_k {M} _.
Arguments ws_ev {M} _.
Arguments ws_inv {M} _.

Section Generic.
Variable M : Sem.
Notation Ct := (C M).

(* ------------------------------------------------------------------ *)
(* Laws about the two use-replacing primitives (proved for the concrete heap in ProofsIR.v):
   `for use in tuple(self.uses)` over an empty (or entirely filtered-out) use list does nothing. *)
Record FlagLaws : Prop := {
  rauw_nouse : forall c v t, uses M c v = [] -> p_rauw M v t c = c;
  rauw_if_nouse : forall c v t p, filter (eval_upred p) (uses M c v) = [] -> p_rauw_if M v t p c = c
}.

Lemma map_fst_nil {A B} (l : list (A * B)) : map fst l = [] -> l = [].
Proof. destruct l; simpl; congruence. Qed.

(* ---- has_done_action is only ever set ---- *)
Lemma x_rauw_mono from to c r c1 r1 t :
  x_rauw M from to c r = (c1, r1, t) -> flag r = true -> flag r1 = true.
Proof.
  unfold x_rauw. intros H Hf.
  destruct (match to with Some t0 => Nat.eqb from t0 | None => false end).
  - inversion H; subst; exact Hf.
  - destruct to; destruct (map fst (uses M c from)); inversion H; subst; simpl; auto.
Qed.

Lemma x_rauw_all_mono prs : forall c r c1 r1 t,
  x_rauw_all M prs c r = (c1, r1, t) -> flag r = true -> flag r1 = true.
Proof.
  induction prs as [|[old new] rest IH]; simpl; intros c r c1 r1 t H Hf.
  - inversion H; subst; exact Hf.
  - destruct (x_rauw M old new c r) as [[c' r'] t'] eqn:E1.
    destruct (x_rauw_all M rest c' r') as [[c'' r''] t''] eqn:E2.
    inversion H; subst. eapply IH; eauto. eapply x_rauw_mono; eauto.
Qed.

Lemma exec_flag_mono a c r c1 r1 t :
  exec M true a c r = (c1, r1, t) -> flag r = true -> flag r1 = true.
Proof.
  destruct a; simpl; intros H Hf.
  - unfold x_insert in H. destruct news; inversion H; subst; reflexivity.
  - unfold x_erase in H. inversion H; subst; reflexivity.
  - eapply x_rauw_mono; eauto.
  - unfold x_rauw_if in H. destruct (Nat.eqb from to).
    + inversion H; subst; exact Hf.
    + destruct (map fst (filter (eval_upred p) (uses M c from))); inversion H; subst; simpl; auto.
  - unfold x_replace in H.
    destruct (x_insert M news (IPBefore o) c (set_flag r)) as [[c' r'] t'].
    destruct (x_rauw_all M _ c' r') as [[c'' r''] t''].
    unfold x_erase in H. inversion H; subst; reflexivity.
  - unfold x_retype in H. inversion H; subst; reflexivity.
  - unfold x_insert_arg in H. inversion H; subst; reflexivity.
  - unfold x_erase_arg in H. destruct (x_rauw M v None c (set_flag r)) as [[c' r'] t'] eqn:E.
    inversion H; subst. eapply x_rauw_mono; eauto.
  - unfold x_inline_block in H. inversion H; subst; reflexivity.
  - unfold x_move_region in H. inversion H; subst; reflexivity.
  - unfold x_inline_region in H. inversion H; subst; reflexivity.
  - unfold x_notify in H. inversion H; subst; reflexivity.
  - unfold x_create_block in H. inversion H; subst; reflexivity.
Qed.

(* ---- the action table, column "sets has_done_action": a call that leaves the flag unset has
   changed nothing and called no listener ---- *)
Lemma exec_unflagged (L : FlagLaws) a c r c1 r1 t :
  exec M true a c r = (c1, r1, t) -> flag r1 = false ->
  c1 = c /\ r1 = r /\ t = [].
Proof.
  intros H Hf. destruct a; simpl in H.
  - unfold x_insert in H. destruct news; inversion H; subst; discriminate Hf.
  - unfold x_erase in H. inversion H; subst; discriminate Hf.
  - unfold x_rauw in H.
    destruct (match to with Some t0 => Nat.eqb from t0 | None => false end).
    + inversion H; subst; auto.
    + destruct to as [t0|].
      * destruct (map fst (uses M c from)) eqn:Em.
        -- apply map_fst_nil in Em. inversion H; subst. rewrite (rauw_nouse L); auto.
        -- inversion H; subst; discriminate Hf.
      * destruct (map fst (uses M c from)); inversion H; subst; discriminate Hf.
  - unfold x_rauw_if in H. destruct (Nat.eqb from to).
    + inversion H; subst; auto.
    + destruct (map fst (filter (eval_upred p) (uses M c from))) eqn:Em.
      * apply map_fst_nil in Em. inversion H; subst. rewrite (rauw_if_nouse L); auto.
      * inversion H; subst; discriminate Hf.
  - unfold x_replace in H.
    destruct (x_insert M news (IPBefore o) c (set_flag r)) as [[c' r'] t'].
    destruct (x_rauw_all M _ c' r') as [[c'' r''] t''].
    unfold x_erase in H. inversion H; subst; discriminate Hf.
  - unfold x_retype in H. inversion H; subst; discriminate Hf.
  - unfold x_insert_arg in H. inversion H; subst; discriminate Hf.
  - unfold x_erase_arg in H. destruct (x_rauw M v None c (set_flag r)) as [[c' r'] t'] eqn:E.
    inversion H; subst. assert (flag r1 = true) by (eapply x_rauw_mono; eauto). congruence.
  - unfold x_inline_block in H. inversion H; subst; discriminate Hf.
  - unfold x_move_region in H. inversion H; subst; discriminate Hf.
  - unfold x_inline_region in H. inversion H; subst; discriminate Hf.
  - unfold x_notify in H. inversion H; subst; discriminate Hf.
  - unfold x_create_block in H. inversion H; subst; discriminate Hf.
Qed.

(* C11_flag_sound (per call) *)
Theorem flag_sound (L : FlagLaws) a c r :
  apply M true a c r <> c -> sets_flag M true a c r = true.
Proof.
  unfold apply, sets_flag. intros Hne.
  destruct (exec M true a c r) as [[c1 r1] t] eqn:E. simpl in *.
  destruct (flag r1) eqn:Hf; auto.
  destruct (exec_unflagged L a c r c1 r1 t E Hf) as [Hc _]. contradiction.
Qed.

(* ------------------------------------------------------------------ *)
(* A match that ends with has_done_action unset is inert.                *)
Lemma run_steps_mono recur steps : forall c r w ev c1 r1 w1 ev1,
  run_steps M true recur steps c r w ev = (c1, r1, w1, ev1) -> flag r = true -> flag r1 = true.
Proof.
  induction steps as [|s rest IH]; simpl; intros c r w ev c1 r1 w1 ev1 H Hf.
  - inversion H; subst; exact Hf.
  - destruct s as [f|o].
    + destruct (f c r) as [a|].
      * destruct (exec M true a c r) as [[c' r'] t] eqn:E.
        eapply IH; eauto. eapply exec_flag_mono; eauto.
      * eapply IH; eauto.
    + eapply IH; eauto.
Qed.

Lemma run_steps_inert (L : FlagLaws) recur steps : forall c r w ev c1 r1 w1 ev1,
  run_steps M true recur steps c r w ev = (c1, r1, w1, ev1) -> flag r1 = false ->
  c1 = c /\ r1 = r /\ w1 = w /\ ev1 = ev.
Proof.
  induction steps as [|s rest IH]; simpl; intros c r w ev c1 r1 w1 ev1 H Hf.
  - inversion H; subst; auto.
  - destruct s as [f|o].
    + destruct (f c r) as [a|] eqn:Ef.
      * destruct (exec M true a c r) as [[c' r'] t] eqn:E.
        destruct (IH _ _ _ _ _ _ _ _ H Hf) as (-> & -> & -> & ->).
        destruct (exec_unflagged L a c r c' r' t E Hf) as (-> & -> & ->).
        unfold handle_trace. simpl. rewrite app_nil_r. auto.
      * eapply IH; eauto.
    + destruct (IH _ _ _ _ _ _ _ _ H Hf) as (-> & -> & -> & ->).
      rewrite Hf. auto.
Qed.

Lemma run_pats_inert (L : FlagLaws) recur ps o : forall c r w ev c1 r1 w1 ev1,
  run_pats M true recur ps o c r w ev = (c1, r1, w1, ev1) -> flag r1 = false ->
  c1 = c /\ r1 = r /\ w1 = w /\ ev1 = ev.
Proof.
  induction ps as [|p rest IH]; simpl; intros c r w ev c1 r1 w1 ev1 H Hf.
  - inversion H; subst; auto.
  - destruct (run_steps M true recur (p c o) c r w ev) as [[[c' r'] w'] ev'] eqn:E.
    destruct (flag r') eqn:Hf'.
    + inversion H; subst. congruence.
    + destruct (run_steps_inert L _ _ _ _ _ _ _ _ _ _ E Hf') as (-> & -> & -> & ->).
      eapply IH; eauto.
Qed.

Lemma run_match_inert (L : FlagLaws) recur m o c w c1 r1 w1 ev1 :
  run_match M true recur m o c w = (c1, r1, w1, ev1) -> flag r1 = false ->
  c1 = c /\ w1 = w /\ ev1 = [].
Proof.
  intros H Hf. unfold run_match in H. destruct m as [p|dce ps].
  - destruct (run_steps_inert L _ _ _ _ _ _ _ _ _ _ H Hf) as (Hc & Hr & Hw & He). auto.
  - destruct (dce && trivially_dead M c o).
    + unfold x_erase in H. inversion H; subst. discriminate Hf.
    + destruct (run_pats_inert L _ _ _ _ _ _ _ _ _ _ _ H Hf) as (Hc & Hr & Hw & He). auto.
Qed.

(* the IR result and the flag of a match do not depend on the worklist contents *)
Lemma run_steps_indep recur steps : forall c r w ev w' ev',
  fst (fst (run_steps M true recur steps c r w ev)) = fst (fst (run_steps M true recur steps c r w' ev')).
Proof.
  induction steps as [|s rest IH]; simpl; intros; auto.
  destruct s as [f|o].
  - destruct (f c r) as [a|]; auto. destruct (exec M true a c r) as [[c' r'] t]. apply IH.
  - apply IH.
Qed.

Lemma run_pats_indep recur ps o : forall c r w ev w' ev',
  fst (fst (run_pats M true recur ps o c r w ev)) = fst (fst (run_pats M true recur ps o c r w' ev')).
Proof.
  induction ps as [|p rest IH]; simpl; intros; auto.
  pose proof (run_steps_indep recur (p c o) c r w ev w' ev') as H.
  destruct (run_steps M true recur (p c o) c r w ev) as [[[c1 r1] w1] ev1].
  destruct (run_steps M true recur (p c o) c r w' ev') as [[[c2 r2] w2] ev2].
  simpl in H. inversion H; subst. destruct (flag r2); auto.
Qed.

Lemma run_match_indep recur m o c w w' :
  fst (fst (run_match M true recur m o c w)) = fst (fst (run_match M true recur m o c w')).
Proof.
  unfold run_match. destruct m as [p|dce ps].
  - apply run_steps_indep.
  - destruct (dce && trivially_dead M c o).
    + unfold x_erase. reflexivity.
    + apply run_pats_indep.
Qed.

(* "the pattern would not change anything when applied to o": the match leaves the IR as it is
   and has_done_action unset, whatever the worklist holds *)
Definition quiescent (recur : bool) (m : matcher M) (c : Ct) (o : op) : Prop :=
  forall w, fst (fst (fst (run_match M true recur m o c w))) = c /\
            flag (snd (fst (fst (run_match M true recur m o c w)))) = false.

(* ------------------------------------------------------------------ *)
(* worklist facts *)
Lemma wl_push_in x y w : In y (wl_push x w) <-> y = x \/ In y w.
Proof.
  unfold wl_push. destruct (existsb (Nat.eqb x) w) eqn:E.
  - split; auto. intros [->|H]; auto.
    apply existsb_exists in E. destruct E as (z & Hz & Hxz). apply Nat.eqb_eq in Hxz. subst; auto.
  - rewrite in_app_iff. simpl. intuition.
Qed.

Lemma wl_remove_in x y w : In y (wl_remove x w) <-> In y w /\ y <> x.
Proof.
  unfold wl_remove. rewrite filter_In. rewrite negb_true_iff, Nat.eqb_neq. intuition.
Qed.

Lemma popped_in pick k w : w <> [] -> In (popped pick k w) w.
Proof.
  intros Hw. unfold popped. apply nth_In. apply Nat.mod_upper_bound.
  destruct w; simpl; [congruence | lia].
Qed.

Lemma populate_in cf c : forall o,
  In o (walk M (negb (walk_reverse cf)) (negb (walk_regions_first cf)) c) -> In o (populate M cf c []).
Proof.
  unfold populate. intros o.
  generalize (walk M (negb (walk_reverse cf)) (negb (walk_regions_first cf)) c) as l.
  assert (G : forall l w, In o l \/ In o w -> In o (fold_left (fun w o => wl_push o w) l w)).
  { induction l as [|x l IH]; simpl; intros w [H|H]; auto; try contradiction.
    - destruct H as [->|H]; apply IH; [right; apply wl_push_in; auto | left; exact H].
    - apply IH. right. apply wl_push_in. auto. }
  intros l H. apply G. auto.
Qed.

(* ------------------------------------------------------------------ *)
(* a pass of _process_worklist that reports no modification has left the IR untouched and has
   found every operation of its worklist quiescent *)
Lemma process_unflagged (L : FlagLaws) recur m pick fuel : forall w s s',
  process M true fuel recur m pick w s = Some s' -> ws_flag s' = false ->
  ws_flag s = false /\ ws_c s' = ws_c s /\ forall o, In o w -> quiescent recur m (ws_c s) o.
Proof.
  induction fuel as [|f IH]; simpl; intros w s s' H Hf; [discriminate|].
  destruct w as [|x w0].
  - inversion H; subst. split; auto. split; auto. intros o [].
  - set (w := x :: w0) in *.
    set (o := popped pick (ws_k s) w) in *.
    destruct (run_match M true recur m o (ws_c s) (wl_remove o w)) as [[[c1 r1] w1] ev1] eqn:E.
    destruct (IH _ _ _ H Hf) as (Hfs & Hc & Hq). simpl in Hfs, Hc, Hq.
    apply orb_false_iff in Hfs. destruct Hfs as [Hfs Hfr].
    destruct (run_match_inert L _ _ _ _ _ _ _ _ _ E Hfr) as (Hc1 & Hw1 & _).
    split; auto. split; [congruence|].
    intros o' Ho'. destruct (Nat.eq_dec o' o) as [Heq|Hne].
    + rewrite Heq. intros w'.
      pose proof (run_match_indep recur m o (ws_c s) w' (wl_remove o w)) as Hi.
      rewrite E in Hi. simpl in Hi.
      destruct (run_match M true recur m o (ws_c s) w') as [[[c2 r2] w2] ev2]. simpl in *.
      inversion Hi. split; [exact Hc1 | exact Hfr].
    + rewrite <- Hc1. apply Hq. rewrite Hw1. apply wl_remove_in. auto.
Qed.

(* every successful rewrite_region with apply_recursively ends with a pass that reported no
   modification *)
Lemma outer_last n fuel cf m pick : forall s s',
  outer M true n fuel cf m pick s = Some s' ->
  exists s0, one_pass M true fuel cf m pick s0 = Some s' /\ ws_flag s' = false.
Proof.
  induction n as [|n IH]; simpl; intros s s' H; [discriminate|].
  destruct (one_pass M true fuel cf m pick s) as [s1|] eqn:E; [|discriminate].
  destruct (ws_flag s1) eqn:Hf.
  - eapply IH; eauto.
  - inversion H; subst. eauto.
Qed.

(* C11_fixpoint *)
Theorem fixpoint (L : FlagLaws) n fuel cf m pick c s ret :
  apply_recursively cf = true ->
  rewrite_region M true n fuel cf m pick c = Some (s, ret) ->
  forall o, In o (walk M (negb (walk_reverse cf)) (negb (walk_regions_first cf)) (ws_c s)) ->
            quiescent true m (ws_c s) o.
Proof.
  intros Hrec H o Ho. unfold rewrite_region in H.
  destruct (one_pass M true fuel cf m pick _) as [s1|] eqn:E1; [|discriminate].
  rewrite Hrec in H. simpl in H.
  assert (Hlast : exists s0, one_pass M true fuel cf m pick s0 = Some s /\ ws_flag s = false).
  { destruct (ws_flag s1) eqn:Hf.
    - destruct (outer M true n fuel cf m pick s1) as [s2|] eqn:E2; [|discriminate].
      inversion H; subst. eapply outer_last; eauto.
    - inversion H; subst. eauto. }
  destruct Hlast as (s0 & Hp & Hf). unfold one_pass in Hp. rewrite Hrec in Hp.
  destruct (process_unflagged L true m pick _ _ _ _ Hp Hf) as (_ & Hc & Hq). simpl in Hc, Hq.
  rewrite Hc in Ho. rewrite Hc. apply Hq. apply populate_in. exact Ho.
Qed.

(* C11_returns_true_if_changed *)
Theorem returns_true_if_changed (L : FlagLaws) n fuel cf m pick c s ret :
  rewrite_region M true n fuel cf m pick c = Some (s, ret) ->
  ws_c s <> c -> ret = true.
Proof.
  intros H Hne. unfold rewrite_region in H.
  destruct (one_pass M true fuel cf m pick _) as [s1|] eqn:E1; [|discriminate].
  assert (Hfirst : ws_flag s1 = false -> ws_c s1 = c).
  { intros Hf. unfold one_pass in E1.
    destruct (process_unflagged L _ m pick _ _ _ _ E1 Hf) as (_ & Hc & _). exact Hc. }
  destruct (negb (apply_recursively cf)).
  - inversion H; subst s1 ret. destruct (ws_flag s) eqn:Hf; [reflexivity|].
    exfalso. apply Hne. apply Hfirst. reflexivity.
  - destruct (ws_flag s1) eqn:Hf.
    + destruct (outer M true n fuel cf m pick s1); inversion H; subst; reflexivity.
    + inversion H; subst s1 ret. exfalso. apply Hne. apply Hfirst. reflexivity.
Qed.

(* has_done_action is set whenever a match mutated the IR *)
Theorem match_flag_sound (L : FlagLaws) recur m o c w :
  fst (fst (fst (run_match M true recur m o c w))) <> c ->
  flag (snd (fst (fst (run_match M true recur m o c w)))) = true.
Proof.
  intros Hne. destruct (run_match M true recur m o c w) as [[[c1 r1] w1] ev1] eqn:E. simpl in *.
  destruct (flag r1) eqn:Hf; auto.
  destruct (run_match_inert L _ _ _ _ _ _ _ _ _ E Hf) as (Hc & _). contradiction.
Qed.

End Generic.

(* ================================================================== *)
(* Liveness of worklist entries: patterns are never invoked on erased operations.            *)

(* the primitive mutations as data, to state laws uniformly *)
Inductive prim :=
| PInsert (news : list newop) (ip : ipoint) | PErase (o : op) | PRauw (v t : value)
| PEraseValue (v : value) | PRauwIf (v t : value) (p : upred) | PRetype (v : value) (ty : Z)
| PInsertArg (b : block) (i : nat) (ty : Z) | PEraseArg (v : value)
| PInlineBlock (b : block) (ip : ipoint) (args : list value) | PMoveRegion (o : op) (k : nat)
| PInlineRegion (o : op) (k : nat) (bp : bpoint) | PCreateBlock (id : block) (bp : bpoint) (tys : list Z)
| PBump (o : op).

Section Live.
Variable M : Sem.
Notation Ct := (C M).

Definition run_prim (p : prim) (c : Ct) : Ct :=
  match p with
  | PInsert news ip => p_insert M news ip c | PErase o => p_erase M o c | PRauw v t => p_rauw M v t c
  | PEraseValue v => p_erase_value M v c | PRauwIf v t q => p_rauw_if M v t q c
  | PRetype v ty => p_retype M v ty c | PInsertArg b i ty => p_insert_arg M b i ty c
  | PEraseArg v => p_erase_arg M v c | PInlineBlock b ip args => p_inline_block M b ip args c
  | PMoveRegion o k => p_move_region M o k c | PInlineRegion o k bp => p_inline_region M o k bp c
  | PCreateBlock id bp tys => p_create_block M id bp tys c | PBump o => p_bump M o c
  end.
(* only erase kills operations, and it kills op.walk() *)
Definition kills (p : prim) (c : Ct) : list op :=
  match p with PErase o => subops M c o | _ => [] end.

(* `wf`: the part of IR well-formedness the driver relies on (use lists only name live users, the
   region walk only yields live ops); every primitive preserves it. *)
Variable wf : Ct -> Prop.
(* `ip_ok c ip`: the insertion point names an existing position (InsertPoint's own validity check) *)
Variable ip_ok : Ct -> ipoint -> Prop.
(* `ins_ok c news`: the operations to insert are new (their identifiers are unused, pairwise distinct) *)
Variable ins_ok : Ct -> list newop -> Prop.
(* side conditions under which a primitive is ever called by the rewriter: insert with new operations,
   replace_uses_with_if only with two different values (x_rauw_if returns early otherwise) *)
(* `okp p`: the primitive is one the pattern set may use at all (fun _ => True for no restriction);
   `erase_ok c o`: side condition of erasing o in state c *)
Variable okp : prim -> Prop.
Variable erase_ok : Ct -> op -> Prop.
Definition prim_side (p : prim) (c : Ct) : Prop :=
  okp p /\
  match p with
  | PInsert news _ => ins_ok c news | PRauwIf v t _ => v <> t | PErase o => erase_ok c o | _ => True
  end.
Definition okp_rauw : Prop := (forall v t, okp (PRauw v t)) /\ (forall v, okp (PEraseValue v)).
Record LiveLaws : Prop := {
  ll_wf_prim : forall p c, wf c -> prim_side p c -> wf (run_prim p c);
  ll_users : forall c v u, wf c -> In u (uses M c v) -> In (fst u) (alive M c);
  ll_walk : forall c rev rf o, wf c -> In o (walk M rev rf c) -> In o (alive M c);
  ll_survive : forall p c x, In x (alive M c) -> ~ In x (kills p c) -> In x (alive M (run_prim p c));
  ll_leaf : forall c o x, has_regions M c o = false -> In x (subops M c o) -> x = o;
  ll_inserted : forall news ip c n, ip_ok c ip -> In n news -> In (no_id n) (alive M (p_insert M news ip c))
}.

(* the same laws in two groups: facts about which operations a primitive kills / creates
   (StructLaws, proved for the heap model in ProofsLive.v) and the invariant part (InvLaws) *)
Record StructLaws : Prop := {
  sl_survive : forall p c x, In x (alive M c) -> ~ In x (kills p c) -> In x (alive M (run_prim p c));
  sl_leaf : forall c o x, has_regions M c o = false -> In x (subops M c o) -> x = o;
  sl_inserted : forall news ip c n, ip_ok c ip -> In n news -> In (no_id n) (alive M (p_insert M news ip c))
}.
Record InvLaws : Prop := {
  il_wf_prim : forall p c, wf c -> prim_side p c -> wf (run_prim p c);
  il_users : forall c v u, wf c -> In u (uses M c v) -> In (fst u) (alive M c);
  il_walk : forall c rev rf o, wf c -> In o (walk M rev rf c) -> In o (alive M c)
}.
Lemma live_laws_of : StructLaws -> InvLaws -> LiveLaws.
Proof. intros [A B C0] [D E F]. split; assumption. Qed.

(* obligations of the pattern (documented preconditions): the op it erases / replaces / notifies is
   not already erased, and the erased op has no dangling operand *)
Definition owners_alive (c : Ct) (o : op) : Prop :=
  forall v d, In (OVal v) (operands M c o) -> owner_op M c v = Some d -> In d (alive M c).
Definition replace_mid (o : op) (news : list newop) (res : option (list (option value))) (c : Ct) (r : rw) : Ct :=
  let '(c1, r1, _) := x_insert M news (IPBefore o) c (set_flag r) in
  let nres := match res with
              | Some l => l
              | None => match last_opt news with
                        | Some n => map Some (results M c1 (no_id n))
                        | None => []
                        end
              end in
  fst (fst (x_rauw_all M (combine (results M c1 o) nres) c1 r1)).
Definition live_pre (a : action) (c : Ct) (r : rw) : Prop :=
  match a with
  | AInsert news ip => ip_ok c (real_ip r ip) /\ ins_ok c news /\ okp (PInsert news (real_ip r ip))
  | AErase o => In o (alive M c) /\ owners_alive c o /\ okp (PErase o) /\ erase_ok c o
  | ARauw _ _ => okp_rauw
  | ARauwIf from to p => okp (PRauwIf from to p)
  | AReplace o news res =>
      ip_ok c (IPBefore o) /\ ins_ok c news /\ okp (PInsert news (IPBefore o)) /\ okp_rauw /\
      In o (alive M c) /\ owners_alive (replace_mid o news res c r) o /\
      okp (PErase o) /\ erase_ok (replace_mid o news res c r) o
  | ANotify o => In o (alive M c)
  | ARetype v ty => (forall p, def_parent M c v = Some p -> In p (alive M c)) /\ okp (PRetype v ty)
  | AInsertArg b i ty => okp (PInsertArg b i ty)
  | AEraseArg v => okp_rauw /\ okp (PEraseArg v)
  | AInlineBlock b ip args => okp (PInlineBlock b (real_ip r ip) args)
  | AMoveRegion o k => okp (PMoveRegion o k)
  | AInlineRegion o k bp => okp (PInlineRegion o k bp)
  | ACreateBlock id bp tys => okp (PCreateBlock id bp tys)
  end.

Definition sub (w : wl) (c : Ct) : Prop := forall x, In x w -> In x (alive M c).

Lemma handle_trace_app recur t1 t2 w :
  handle_trace M recur (t1 ++ t2) w = handle_trace M recur t2 (handle_trace M recur t1 w).
Proof. unfold handle_trace. apply fold_left_app. Qed.

Lemma handle_trace_cons recur e t w :
  handle_trace M recur (e :: t) w = handle_trace M recur t (handle M recur (fst e) (snd e) w).
Proof. reflexivity. Qed.

Lemma sub_push w c o : sub w c -> In o (alive M c) -> sub (wl_push o w) c.
Proof. intros Hs Ho x Hx. apply wl_push_in in Hx. destruct Hx as [->|Hx]; auto. Qed.

Lemma sub_survive (L : LiveLaws) p w c : kills p c = [] -> sub w c -> sub w (run_prim p c).
Proof. intros Hk Hs x Hx. apply (ll_survive L). auto. rewrite Hk. intros []. Qed.

Lemma fold_remove_in l : forall w x,
  In x (fold_left (fun w s => wl_remove s w) l w) <-> In x w /\ ~ In x l.
Proof.
  induction l as [|s l IH]; simpl; intros w x.
  - tauto.
  - rewrite IH. rewrite wl_remove_in. intuition.
Qed.

Lemma sub_modify_events recur (m : list op) c w :
  sub w c -> (forall o, In o m -> In o (alive M c)) ->
  sub (handle_trace M recur (map (fun o => (EModify o, c)) m) w) c.
Proof.
  revert w. induction m as [|o m IH]; simpl; intros w Hs Hm; auto.
  unfold handle_trace in *. simpl. apply IH; auto.
  destruct recur; auto. apply sub_push; auto.
Qed.

Lemma sub_add_operands c o w : forall opers,
  (forall x, In x opers -> In x (operands M c o)) -> owners_alive c o -> sub w c ->
  sub (add_operands M c opers w) c.
Proof.
  unfold add_operands. intros opers. revert w.
  induction opers as [|x opers IH]; simpl; intros w Hin Ho Hs; auto.
  apply IH; auto. destruct x as [v|]; auto.
  destruct (one_use M c v); auto. destruct (owner_op M c v) as [d|] eqn:Ed; auto.
  apply sub_push; auto. eapply Ho; eauto.
Qed.

Lemma x_insert_live (L : LiveLaws) recur news ip c r c1 r1 t :
  x_insert M news ip c r = (c1, r1, t) -> wf c -> ip_ok c (real_ip r ip) -> ins_ok c news ->
  okp (PInsert news (real_ip r ip)) ->
  wf c1 /\ forall w, sub w c -> sub (handle_trace M recur t w) c1.
Proof.
  unfold x_insert. intros H Hwf Hip Hins Hok. destruct news as [|n news].
  - inversion H; subst. split; auto.
  - inversion H; subst. clear H. set (l := n :: news) in *.
    split; [apply (ll_wf_prim L (PInsert l (real_ip r ip))); [auto | split; [exact Hok | exact Hins]]|].
    intros w Hs.
    assert (Hs1 : sub w (p_insert M l (real_ip r ip) c)).
    { apply (sub_survive L (PInsert l (real_ip r ip))); auto. }
    assert (G : forall l' w, (forall n', In n' l' -> In n' l) -> sub w (p_insert M l (real_ip r ip) c) ->
                sub (handle_trace M recur (map (fun n' => (EInsert (no_id n'), p_insert M l (real_ip r ip) c)) l') w)
                    (p_insert M l (real_ip r ip) c)).
    { induction l' as [|n' l' IH]; simpl; intros w' Hin Hs'; auto.
      unfold handle_trace in *. simpl. apply IH.
      - intros n0 Hn0. apply Hin. right. exact Hn0.
      - destruct recur; auto. apply sub_push; [exact Hs'|]. apply (ll_inserted L); [exact Hip|]. apply Hin. left. reflexivity. }
    apply (G l w); [intros n0 Hn0; exact Hn0 | exact Hs1].
Qed.

Lemma x_erase_live (L : LiveLaws) recur o c r c1 r1 t :
  x_erase M o c r = (c1, r1, t) -> wf c -> In o (alive M c) -> owners_alive c o ->
  okp (PErase o) -> erase_ok c o ->
  wf c1 /\ forall w, sub w c -> sub (handle_trace M recur t w) c1.
Proof.
  unfold x_erase. intros H Hwf Ho Hd Hok Heok. inversion H; subst. clear H.
  split; [apply (ll_wf_prim L (PErase o)); [auto | split; assumption]|].
  intros w Hs x Hx. unfold handle_trace in Hx. simpl in Hx.
  set (w1 := if recur then add_operands M c (operands M c o) w else w) in *.
  assert (Hs1 : sub w1 c).
  { unfold w1. destruct recur; auto. apply sub_add_operands with (o := o); auto. }
  apply (ll_survive L (PErase o)); simpl.
  - destruct (has_regions M c o).
    + apply fold_remove_in in Hx. apply Hs1. tauto.
    + apply wl_remove_in in Hx. apply Hs1. tauto.
  - destruct (has_regions M c o) eqn:Hr.
    + apply fold_remove_in in Hx. tauto.
    + apply wl_remove_in in Hx. intros Hin. apply (ll_leaf L) in Hin; auto. tauto.
Qed.

Lemma x_rauw_live (L : LiveLaws) recur from to c r c1 r1 t :
  x_rauw M from to c r = (c1, r1, t) -> wf c -> okp_rauw ->
  wf c1 /\ forall w, sub w c -> sub (handle_trace M recur t w) c1.
Proof.
  unfold x_rauw. intros H Hwf [Hok1 Hok2].
  destruct (match to with Some t0 => Nat.eqb from t0 | None => false end).
  - inversion H; subst. split; auto.
  - set (p := match to with None => PEraseValue from | Some t0 => PRauw from t0 end).
    assert (Hc1 : c1 = run_prim p c /\ t = map (fun o => (EModify o, run_prim p c)) (map fst (uses M c from))).
    { unfold p. destruct to; destruct (map fst (uses M c from)); inversion H; subst; auto. }
    destruct Hc1 as [-> ->].
    assert (Hk : kills p c = []) by (unfold p; destruct to; reflexivity).
    split; [apply (ll_wf_prim L); [auto | unfold p; destruct to; split; auto; exact I]|].
    intros w Hs. apply sub_modify_events.
    + apply (sub_survive L); auto.
    + intros o Ho. apply in_map_iff in Ho. destruct Ho as (u & <- & Hu).
      apply (ll_survive L); [eapply (ll_users L); eauto | rewrite Hk; intros []].
Qed.

Lemma x_rauw_all_live (L : LiveLaws) recur prs : forall c r c1 r1 t,
  x_rauw_all M prs c r = (c1, r1, t) -> wf c -> okp_rauw ->
  wf c1 /\ forall w, sub w c -> sub (handle_trace M recur t w) c1.
Proof.
  induction prs as [|[old new] rest IH]; simpl; intros c r c1 r1 t H Hwf Hok.
  - inversion H; subst. split; auto.
  - destruct (x_rauw M old new c r) as [[c' r'] t'] eqn:E1.
    destruct (x_rauw_all M rest c' r') as [[c'' r''] t''] eqn:E2.
    inversion H; subst. clear H.
    destruct (x_rauw_live L recur _ _ _ _ _ _ _ E1 Hwf Hok) as [Hwf' Hs'].
    destruct (IH _ _ _ _ _ E2 Hwf' Hok) as [Hwf'' Hs''].
    split; auto. intros w Hs. rewrite handle_trace_app. auto.
Qed.

Lemma alive_survive_rauw_all (L : LiveLaws) prs : forall c r x,
  In x (alive M c) -> In x (alive M (fst (fst (x_rauw_all M prs c r)))).
Proof.
  induction prs as [|[old new] rest IH]; simpl; intros c r x Hx; auto.
  destruct (x_rauw M old new c r) as [[c' r'] t'] eqn:E1.
  destruct (x_rauw_all M rest c' r') as [[c'' r''] t''] eqn:E2. simpl.
  specialize (IH c' r' x). rewrite E2 in IH. simpl in IH. apply IH.
  unfold x_rauw in E1.
  destruct (match new with Some t0 => Nat.eqb old t0 | None => false end).
  - inversion E1; subst; auto.
  - destruct new; destruct (map fst (uses M c old)); inversion E1; subst;
      first [apply (ll_survive L (PRauw old v)) | apply (ll_survive L (PEraseValue old))]; auto.
Qed.

Lemma exec_live (L : LiveLaws) recur a c r c1 r1 t :
  exec M true a c r = (c1, r1, t) -> wf c -> live_pre a c r ->
  wf c1 /\ forall w, sub w c -> sub (handle_trace M recur t w) c1.
Proof.
  intros H Hwf Hp. destruct a; simpl in H.
  - destruct Hp as [Hip [Hins Hok]]. eapply x_insert_live; eauto.
  - destruct Hp as (Ha & Hd & Hok & Heok). eapply x_erase_live; eauto.
  - eapply x_rauw_live; eauto.
  - unfold x_rauw_if in H. destruct (Nat.eqb from to) eqn:Eft.
    + inversion H; subst. split; auto.
    + assert (Hc1 : c1 = run_prim (PRauwIf from to p) c /\
                    t = map (fun o => (EModify o, run_prim (PRauwIf from to p) c))
                            (map fst (filter (eval_upred p) (uses M c from)))).
      { destruct (map fst (filter (eval_upred p) (uses M c from))); inversion H; subst; auto. }
      destruct Hc1 as [-> ->].
      split; [apply (ll_wf_prim L); [auto | split; [exact Hp | simpl; apply Nat.eqb_neq; exact Eft]]|].
      intros w Hs. apply sub_modify_events.
      * apply (sub_survive L); auto.
      * intros o Ho. apply in_map_iff in Ho. destruct Ho as (u & <- & Hu). apply filter_In in Hu. destruct Hu as [Hu _].
        apply (ll_survive L); [eapply (ll_users L); eauto | intros []].
  - destruct Hp as (Hip & Hins & Hoki & Hokr & Ho & Hd & Hoke & Heok).
    unfold replace_mid in Hd, Heok. unfold x_replace in H.
    destruct (x_insert M news (IPBefore o) c (set_flag r)) as [[c' r'] t'] eqn:E1.
    destruct (x_rauw_all M _ c' r') as [[c'' r''] t''] eqn:E2. simpl in Hd, Heok.
    destruct (x_erase M o c'' r'') as [[c3 r3] t4] eqn:E3. inversion H; subst. clear H.
    destruct (x_insert_live L recur _ _ _ _ _ _ _ E1 Hwf Hip Hins Hoki) as [Hwf1 Hs1].
    destruct (x_rauw_all_live L recur _ _ _ _ _ _ E2 Hwf1 Hokr) as [Hwf2 Hs2].
    assert (Ho1 : In o (alive M c')).
    { unfold x_insert in E1. destruct news; inversion E1; subst; auto.
      apply (ll_survive L (PInsert (n :: news) (real_ip (set_flag r) (IPBefore o)))); auto. }
    assert (Ho2 : In o (alive M c'')).
    { match type of E2 with x_rauw_all M ?prs _ _ = _ =>
        pose proof (alive_survive_rauw_all L prs c' r' o Ho1) as G end.
      rewrite E2 in G. exact G. }
    destruct (x_erase_live L recur _ _ _ _ _ _ E3 Hwf2 Ho2 Hd Hoke Heok) as [Hwf3 Hs3].
    split; auto. intros w Hs.
    rewrite handle_trace_app. simpl app. rewrite handle_trace_cons, handle_trace_app.
    apply Hs3. apply Hs2.
    assert (Hr : sub (handle_trace M recur t' w) c') by auto.
    simpl. destruct recur; auto.
    (* replacement event: users of the results *)
    generalize (results M c' o) as rs. intros rs. revert Hr.
    generalize (handle_trace M true t' w) as w0.
    induction rs as [|v rs IHr]; simpl; intros w0 Hr; auto.
    apply IHr.
    assert (G : forall us w1, (forall u, In u us -> In u (uses M c' v)) -> sub w1 c' ->
                sub (fold_left (fun w u => wl_push (fst u) w) us w1) c').
    { induction us as [|u us IHu]; simpl; intros w1 Hin Hw1; auto.
      apply IHu; auto. apply sub_push; auto. eapply (ll_users L); eauto. }
    apply G; auto.
  - unfold x_retype in H. inversion H; subst. clear H. simpl in Hp. destruct Hp as [Hp Hok].
    split; [apply (ll_wf_prim L (PRetype v ty)); [auto | split; [exact Hok | exact I]]|].
    intros w Hs. apply (sub_survive L (PRetype v ty)); auto.
    destruct (def_parent M c v) as [p|] eqn:Ep; auto.
    unfold handle_trace. simpl. destruct recur; auto. apply sub_push; auto.
  - unfold x_insert_arg in H. inversion H; subst.
    split; [apply (ll_wf_prim L (PInsertArg b idx ty)); [auto | split; [exact Hp | exact I]]|].
    intros w Hs. apply (sub_survive L (PInsertArg b idx ty)); auto.
  - unfold x_erase_arg in H. destruct (x_rauw M v None c (set_flag r)) as [[c' r'] t'] eqn:E.
    inversion H; subst. clear H.
    destruct Hp as [Hokr Hoka].
    destruct (x_rauw_live L recur _ _ _ _ _ _ _ E Hwf Hokr) as [Hwf' Hs'].
    split; [apply (ll_wf_prim L (PEraseArg v)); [auto | split; [exact Hoka | exact I]]|].
    intros w Hs. apply (sub_survive L (PEraseArg v)); auto.
  - unfold x_inline_block in H. inversion H; subst.
    split; [apply (ll_wf_prim L (PInlineBlock b (real_ip r ip) args)); [auto | split; [exact Hp | exact I]]|].
    intros w Hs. apply (sub_survive L (PInlineBlock b (real_ip r ip) args)); auto.
  - unfold x_move_region in H. inversion H; subst.
    split; [apply (ll_wf_prim L (PMoveRegion o r0)); [auto | split; [exact Hp | exact I]]|].
    intros w Hs. apply (sub_survive L (PMoveRegion o r0)); auto.
  - unfold x_inline_region in H. inversion H; subst.
    split; [apply (ll_wf_prim L (PInlineRegion o r0 bp)); [auto | split; [exact Hp | exact I]]|].
    intros w Hs. apply (sub_survive L (PInlineRegion o r0 bp)); auto.
  - unfold x_notify in H. inversion H; subst. simpl in Hp. split; auto.
    intros w Hs. unfold handle_trace. simpl. destruct recur; auto. apply sub_push; auto.
  - unfold x_create_block in H. inversion H; subst.
    split; [apply (ll_wf_prim L (PCreateBlock id bp tys)); [auto | split; [exact Hp | exact I]]|].
    intros w Hs. apply (sub_survive L (PCreateBlock id bp tys)); auto.
Qed.

(* pattern obligations *)
Definition steps_pre (steps : list (pstep M)) : Prop :=
  (forall f, In (PAct M f) steps -> forall c r a, wf c -> f c r = Some a -> live_pre a c r) /\
  (forall o, In (PBumpIfFlag M o) steps -> okp (PBump o)).
Definition pat_pre (p : pattern M) : Prop := forall c o, steps_pre (p c o).
Definition matcher_pre (m : matcher M) : Prop :=
  match m with
  | MSingle _ p => pat_pre p
  | MGreedy _ dce ps =>
      (forall p, In p ps -> pat_pre p) /\
      (dce = true -> forall c o, wf c -> In o (alive M c) -> trivially_dead M c o = true ->
                     owners_alive c o /\ okp (PErase o) /\ erase_ok c o)
  end.

Lemma run_steps_live (L : LiveLaws) recur steps : forall c r w ev c1 r1 w1 ev1,
  steps_pre steps -> run_steps M true recur steps c r w ev = (c1, r1, w1, ev1) ->
  wf c -> sub w c -> wf c1 /\ sub w1 c1.
Proof.
  induction steps as [|s rest IH]; simpl; intros c r w ev c1 r1 w1 ev1 Hp H Hwf Hs.
  - inversion H; subst; auto.
  - assert (Hp' : steps_pre rest).
    { destruct Hp as [Hp1 Hp2]. split; [intros f Hin; apply Hp1; right; exact Hin | intros o' Hin; apply Hp2; right; exact Hin]. }
    destruct s as [f|o].
    + destruct (f c r) as [a|] eqn:Ef.
      * destruct (exec M true a c r) as [[c' r'] t] eqn:E.
        assert (Hpre : live_pre a c r) by (eapply (proj1 Hp); eauto; left; reflexivity).
        destruct (exec_live L recur _ _ _ _ _ _ E Hwf Hpre) as [Hwf' Hs'].
        eapply IH; eauto.
      * eapply IH; eauto.
    + eapply IH; eauto.
      * destruct (flag r); auto. apply (ll_wf_prim L (PBump o)); [auto | split; [apply (proj2 Hp); left; reflexivity | exact I]].
      * destruct (flag r); auto. apply (sub_survive L (PBump o)); auto.
Qed.

Lemma run_pats_live (L : LiveLaws) recur ps o : forall c r w ev c1 r1 w1 ev1,
  (forall p, In p ps -> pat_pre p) -> run_pats M true recur ps o c r w ev = (c1, r1, w1, ev1) ->
  wf c -> sub w c -> wf c1 /\ sub w1 c1.
Proof.
  induction ps as [|p rest IH]; simpl; intros c r w ev c1 r1 w1 ev1 Hp H Hwf Hs.
  - inversion H; subst; auto.
  - destruct (run_steps M true recur (p c o) c r w ev) as [[[c' r'] w'] ev'] eqn:E.
    assert (Hpp : steps_pre (p c o)) by (apply Hp; left; reflexivity).
    destruct (run_steps_live L _ _ _ _ _ _ _ _ _ _ Hpp E Hwf Hs) as [Hwf' Hs'].
    destruct (flag r').
    + inversion H; subst; auto.
    + eapply IH; eauto.
Qed.

Lemma run_match_live (L : LiveLaws) recur m o c w c1 r1 w1 ev1 :
  matcher_pre m -> run_match M true recur m o c w = (c1, r1, w1, ev1) ->
  wf c -> In o (alive M c) -> sub w c -> wf c1 /\ sub w1 c1.
Proof.
  intros Hp H Hwf Ho Hs. unfold run_match in H. destruct m as [p|dce ps]; simpl in Hp.
  - eapply run_steps_live; eauto.
  - destruct Hp as [Hp Hd]. destruct dce; simpl in H.
    + destruct (trivially_dead M c o) eqn:Ed.
      * destruct (x_erase M o c {| flag := false; dip := IPBefore o |}) as [[c' r'] t] eqn:E.
        inversion H; subst. clear H.
        destruct (Hd eq_refl c o Hwf Ho Ed) as (Hd1 & Hd2 & Hd3).
        destruct (x_erase_live L recur _ _ _ _ _ _ E Hwf Ho Hd1 Hd2 Hd3) as [Hwf' Hs'].
        unfold x_erase in E. inversion E; subst. split; [exact Hwf' | exact (Hs' w Hs)].
      * eapply run_pats_live; eauto.
    + eapply run_pats_live; eauto.
Qed.

Definition inv_ok (s : wstate M) : Prop := forall o c, In (o, c) (ws_inv s) -> In o (alive M c).

Lemma process_live (L : LiveLaws) recur m pick (Hp : matcher_pre m) fuel : forall w s s',
  process M true fuel recur m pick w s = Some s' ->
  wf (ws_c s) -> sub w (ws_c s) -> inv_ok s -> wf (ws_c s') /\ inv_ok s'.
Proof.
  induction fuel as [|f IH]; simpl; intros w s s' H Hwf Hs Hi; [discriminate|].
  destruct w as [|x w0].
  - inversion H; subst; auto.
  - set (w := x :: w0) in *.
    set (o := popped pick (ws_k s) w) in *.
    assert (Ho : In o w) by (apply popped_in; discriminate).
    destruct (run_match M true recur m o (ws_c s) (wl_remove o w)) as [[[c1 r1] w1] ev1] eqn:E.
    assert (Hs0 : sub (wl_remove o w) (ws_c s)).
    { intros y Hy. apply wl_remove_in in Hy. apply Hs. tauto. }
    destruct (run_match_live L _ _ _ _ _ _ _ _ _ Hp E Hwf (Hs o Ho) Hs0) as [Hwf1 Hs1].
    eapply IH; eauto. simpl.
    intros o' c' Hin. apply in_app_or in Hin. destruct Hin as [Hin|[Hin|[]]]; auto.
    inversion Hin; subst. auto.
Qed.

Lemma populate_sub (L : LiveLaws) cf c : wf c -> sub (populate M cf c []) c.
Proof.
  intros Hwf. unfold populate.
  assert (G : forall l w, (forall o, In o l -> In o (alive M c)) -> sub w c ->
              sub (fold_left (fun w o => wl_push o w) l w) c).
  { induction l as [|o l IHl]; simpl; intros w Hl Hw; auto.
    apply IHl; auto. apply sub_push; auto. }
  apply G.
  - intros o Ho. eapply (ll_walk L); eauto.
  - intros x [].
Qed.

Lemma one_pass_live (L : LiveLaws) fuel cf m pick (Hp : matcher_pre m) s s' :
  one_pass M true fuel cf m pick s = Some s' -> wf (ws_c s) -> inv_ok s -> wf (ws_c s') /\ inv_ok s'.
Proof.
  unfold one_pass. intros H Hwf Hi.
  eapply process_live in H; eauto; simpl; auto. apply populate_sub; auto.
Qed.

Lemma outer_live (L : LiveLaws) fuel cf m pick (Hp : matcher_pre m) n : forall s s',
  outer M true n fuel cf m pick s = Some s' -> wf (ws_c s) -> inv_ok s -> wf (ws_c s') /\ inv_ok s'.
Proof.
  induction n as [|n IH]; simpl; intros s s' H Hwf Hi; [discriminate|].
  destruct (one_pass M true fuel cf m pick s) as [s1|] eqn:E; [|discriminate].
  destruct (one_pass_live L _ _ _ _ Hp _ _ E Hwf Hi) as [Hwf1 Hi1].
  destruct (ws_flag s1).
  - eapply IH; eauto.
  - inversion H; subst; auto.
Qed.

(* C11_no_stale *)
Theorem no_stale (L : LiveLaws) n fuel cf m pick c s ret :
  matcher_pre m -> wf c ->
  rewrite_region M true n fuel cf m pick c = Some (s, ret) ->
  forall o c', In (o, c') (ws_inv s) -> In o (alive M c').
Proof.
  intros Hp Hwf H. unfold rewrite_region in H.
  destruct (one_pass M true fuel cf m pick _) as [s1|] eqn:E1; [|discriminate].
  assert (Hi0 : inv_ok {| ws_c := c; ws_flag := false; ws_k := 0; ws_ev := []; ws_inv := [] |})
    by (intros o c' []).
  destruct (one_pass_live L _ _ _ _ Hp _ _ E1 Hwf Hi0) as [Hwf1 Hi1].
  destruct (negb (apply_recursively cf)).
  - inversion H; subst. exact Hi1.
  - destruct (ws_flag s1).
    + destruct (outer M true n fuel cf m pick s1) as [s2|] eqn:E2; [|discriminate].
      inversion H; subst. eapply outer_live; eauto.
    + inversion H; subst. exact Hi1.
Qed.

End Live.

(* ================================================================== *)
(* Every change to an operation is reported to the listeners.                                  *)
Section Events.
Variable M : Sem.
Notation Ct := (C M).

(* the operations created together with an inserted op: itself and the ops of its new regions *)
Definition newop_ids (n : newop) : list op :=
  no_id n :: flat_map (fun g => match g with
                                | NRFresh bs => flat_map (fun b => map lf_id (nb_body b)) bs
                                | NRLimbo _ => []
                                end) (no_regions n).
Definition action_news (a : action) : list newop :=
  match a with AInsert news _ => news | AReplace _ news _ => news | _ => [] end.

(* the operations a primitive may create, kill, or whose operands it may rewrite *)
Definition touched (p : prim) (c : Ct) (o : op) : Prop :=
  match p with
  | PInsert news ip => exists n, In n news /\ In o (newop_ids n)
  | PErase o1 => In o (subops M c o1)
  | PRauw v _ | PEraseValue v | PEraseArg v => In o (map fst (uses M c v))
  | PRauwIf v _ q => In o (map fst (filter (eval_upred q) (uses M c v)))
  | PInlineBlock _ _ args => args <> []
  | _ => False
  end.

(* o was created, erased, or had its operand list changed between c and c' *)
Definition changed (c c' : Ct) (o : op) : Prop :=
  operands M c' o <> operands M c o \/
  (In o (alive M c) /\ ~ In o (alive M c')) \/
  (~ In o (alive M c) /\ In o (alive M c')).

Record EvLaws : Prop := {
  ev_touched : forall p c o, changed c (run_prim M p c) o -> touched p c o;
  ev_erased_uses : forall v c, uses M (p_erase_value M v c) v = []
}.

(* an event reports o if it is a modification of o, the removal of an operation whose walk()
   contains o at that moment, or the insertion of a new operation that o is (part of);
   `news` are the new operations handed to the call *)
Definition covers (news : list newop) (e : event) (cs : Ct) (o : op) : Prop :=
  match e with
  | EModify o' => o' = o
  | ERemove o' => In o (subops M cs o')
  | EInsert o' => exists n, In n news /\ no_id n = o' /\ In o (newop_ids n)
  | _ => False
  end.
Definition covered (news : list newop) (t : trace M) (o : op) : Prop :=
  exists e cs, In (e, cs) t /\ covers news e cs o.

Definition no_silent_rewrite (a : action) : Prop :=
  match a with AInlineBlock _ _ args => args = [] | _ => True end.

Lemma operand_eq_dec (x y : operand) : {x = y} + {x <> y}.
Proof. decide equality. apply Nat.eq_dec. Qed.

Lemma changed_refl c o : ~ changed c c o.
Proof. unfold changed. intros [H|[[H1 H2]|[H1 H2]]]; auto. Qed.

Lemma changed_chain c c1 c2 o : changed c c2 o -> changed c c1 o \/ changed c1 c2 o.
Proof.
  unfold changed. intros [H|[[H1 H2]|[H1 H2]]].
  - destruct (list_eq_dec operand_eq_dec (operands M c1 o) (operands M c o)) as [E|E].
    + right. left. rewrite E. exact H.
    + left. left. exact E.
  - destruct (in_dec Nat.eq_dec o (alive M c1)) as [E|E].
    + right. right. left. auto.
    + left. right. left. auto.
  - destruct (in_dec Nat.eq_dec o (alive M c1)) as [E|E].
    + left. right. right. auto.
    + right. right. right. auto.
Qed.

Lemma covered_app_l ns t1 t2 o : covered ns t1 o -> covered ns (t1 ++ t2) o.
Proof. intros (e & cs & Hin & Hc). exists e, cs. split; auto. apply in_or_app. auto. Qed.
Lemma covered_app_r ns t1 t2 o : covered ns t2 o -> covered ns (t1 ++ t2) o.
Proof. intros (e & cs & Hin & Hc). exists e, cs. split; auto. apply in_or_app. auto. Qed.

Lemma covered_cons ns e t o : covered ns t o -> covered ns (e :: t) o.
Proof. intros (e' & cs & Hin & Hc). exists e', cs. split; auto. right. exact Hin. Qed.

Lemma x_insert_events (L : EvLaws) news ip c r c1 r1 t o :
  x_insert M news ip c r = (c1, r1, t) -> changed c c1 o -> covered news t o.
Proof.
  unfold x_insert. intros H Hc. destruct news as [|n news].
  - inversion H; subst. destruct (changed_refl _ _ Hc).
  - inversion H; subst. clear H.
    apply (ev_touched L (PInsert (n :: news) (real_ip r ip))) in Hc. simpl in Hc.
    destruct Hc as (n' & Hn' & Ho).
    exists (EInsert (no_id n')), (p_insert M (n :: news) (real_ip r ip) c). split; [|exists n'; auto].
    exact (in_map (fun n0 => (EInsert (no_id n0), p_insert M (n :: news) (real_ip r ip) c)) (n :: news) n' Hn').
Qed.

Lemma x_erase_events (L : EvLaws) ns o1 c r c1 r1 t o :
  x_erase M o1 c r = (c1, r1, t) -> changed c c1 o -> covered ns t o.
Proof.
  unfold x_erase. intros H Hc. inversion H; subst.
  apply (ev_touched L (PErase o1)) in Hc. simpl in Hc.
  exists (ERemove o1), c. split; simpl; auto.
Qed.

Lemma modify_events_cover ns (m : list op) (c1 : Ct) o :
  In o m -> covered ns (map (fun o' => (EModify o', c1)) m) o.
Proof.
  intros Hin. exists (EModify o), c1. split; simpl; auto.
  apply in_map_iff. exists o. auto.
Qed.

Lemma x_rauw_events (L : EvLaws) ns from to c r c1 r1 t o :
  x_rauw M from to c r = (c1, r1, t) -> changed c c1 o -> covered ns t o.
Proof.
  unfold x_rauw. intros H Hc.
  destruct (match to with Some t0 => Nat.eqb from t0 | None => false end).
  - inversion H; subst. destruct (changed_refl _ _ Hc).
  - destruct to as [t0|].
    + assert (E : c1 = run_prim M (PRauw from t0) c /\
                  t = map (fun o' => (EModify o', c1)) (map fst (uses M c from))).
      { destruct (map fst (uses M c from)); inversion H; subst; auto. }
      destruct E as [E1 E2]. rewrite E1 in Hc. apply (ev_touched L) in Hc. simpl in Hc.
      rewrite E2. apply modify_events_cover. exact Hc.
    + assert (E : c1 = run_prim M (PEraseValue from) c /\
                  t = map (fun o' => (EModify o', c1)) (map fst (uses M c from))).
      { destruct (map fst (uses M c from)); inversion H; subst; auto. }
      destruct E as [E1 E2]. rewrite E1 in Hc. apply (ev_touched L) in Hc. simpl in Hc.
      rewrite E2. apply modify_events_cover. exact Hc.
Qed.

Lemma x_rauw_all_events (L : EvLaws) ns prs : forall c r c1 r1 t o,
  x_rauw_all M prs c r = (c1, r1, t) -> changed c c1 o -> covered ns t o.
Proof.
  induction prs as [|[old new] rest IH]; simpl; intros c r c1 r1 t o H Hc.
  - inversion H; subst. destruct (changed_refl _ _ Hc).
  - destruct (x_rauw M old new c r) as [[c' r'] t'] eqn:E1.
    destruct (x_rauw_all M rest c' r') as [[c'' r''] t''] eqn:E2.
    inversion H; subst. clear H.
    destruct (changed_chain c c' c1 o Hc) as [Hc1|Hc2].
    + apply covered_app_l. eapply x_rauw_events; eauto.
    + apply covered_app_r. eapply IH; eauto.
Qed.

(* C11_events_complete *)
Theorem events_complete (L : EvLaws) a c r c1 r1 t o :
  no_silent_rewrite a -> exec M true a c r = (c1, r1, t) -> changed c c1 o -> covered (action_news a) t o.
Proof.
  intros Hns H Hc. destruct a; simpl in H.
  - eapply x_insert_events; eauto.
  - eapply x_erase_events; eauto.
  - eapply x_rauw_events; eauto.
  - unfold x_rauw_if in H. destruct (Nat.eqb from to).
    + inversion H; subst. destruct (changed_refl _ _ Hc).
    + assert (E : c1 = run_prim M (PRauwIf from to p) c /\
                  t = map (fun o' => (EModify o', c1)) (map fst (filter (eval_upred p) (uses M c from)))).
      { destruct (map fst (filter (eval_upred p) (uses M c from))); inversion H; subst; auto. }
      destruct E as [E1 E2]. rewrite E1 in Hc. apply (ev_touched L) in Hc. simpl in Hc.
      rewrite E2. apply modify_events_cover. exact Hc.
  - unfold x_replace in H.
    destruct (x_insert M news (IPBefore o0) c (set_flag r)) as [[c' r'] t'] eqn:E1.
    destruct (x_rauw_all M _ c' r') as [[c'' r''] t''] eqn:E2.
    destruct (x_erase M o0 c'' r'') as [[c3 r3] t4] eqn:E3. inversion H; subst. clear H.
    destruct (changed_chain c c' c1 o Hc) as [Hc1|Hc1].
    + apply covered_app_l. eapply x_insert_events; eauto.
    + apply covered_app_r. apply covered_cons.
      destruct (changed_chain c' c'' c1 o Hc1) as [Hc2|Hc2].
      * apply covered_app_l. eapply x_rauw_all_events; eauto.
      * apply covered_app_r. eapply x_erase_events; eauto.
  - unfold x_retype in H. inversion H; subst.
    apply (ev_touched L (PRetype v ty)) in Hc. destruct Hc.
  - unfold x_insert_arg in H. inversion H; subst.
    apply (ev_touched L (PInsertArg b idx ty)) in Hc. destruct Hc.
  - unfold x_erase_arg in H. destruct (x_rauw M v None c (set_flag r)) as [[c' r'] t'] eqn:E.
    inversion H; subst. clear H.
    destruct (changed_chain c c' _ o Hc) as [Hc1|Hc1].
    + eapply x_rauw_events; eauto.
    + apply (ev_touched L (PEraseArg v)) in Hc1. simpl in Hc1.
      unfold x_rauw in E. destruct (map fst (uses M c v)); inversion E; subst;
        rewrite (ev_erased_uses L) in Hc1; destruct Hc1.
  - unfold x_inline_block in H. inversion H; subst. simpl in Hns. subst args.
    apply (ev_touched L (PInlineBlock b (real_ip r ip) [])) in Hc. simpl in Hc. congruence.
  - unfold x_move_region in H. inversion H; subst.
    apply (ev_touched L (PMoveRegion o0 r0)) in Hc. destruct Hc.
  - unfold x_inline_region in H. inversion H; subst.
    apply (ev_touched L (PInlineRegion o0 r0 bp)) in Hc. destruct Hc.
  - unfold x_notify in H. inversion H; subst. destruct (changed_refl _ _ Hc).
  - unfold x_create_block in H. inversion H; subst.
    apply (ev_touched L (PCreateBlock id bp tys)) in Hc. destruct Hc.
Qed.

End Events.
