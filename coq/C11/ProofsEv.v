(* C11/ProofsEv.v -- the heap model `cir_sem` (C11/IR.v) satisfies Proofs.EvLaws: which operations
   each primitive mutation can create, kill, or change the operand list of. *)
From Coq Require Import List Arith Bool ZArith Lia.
From XV Require Import C11.Model C11.IR C11.Proofs.
Import ListNotations.

(* ---------- association maps ---------- *)
Lemma aget_aset {A} (m : amap A) k (v : A) k' :
  aget (aset m k v) k' = if Nat.eqb k' k then Some v else aget m k'.
Proof.
  induction m as [|[k0 v0] r IH]; simpl.
  - destruct (Nat.eqb k' k); reflexivity.
  - destruct (Nat.eqb k k0) eqn:E; simpl.
    + apply Nat.eqb_eq in E. subst k0. destruct (Nat.eqb k' k); reflexivity.
    + rewrite IH. destruct (Nat.eqb k' k0) eqn:E0; auto.
      apply Nat.eqb_eq in E0. subst k0.
      destruct (Nat.eqb k' k) eqn:E1; auto. apply Nat.eqb_eq in E1. subst. rewrite Nat.eqb_refl in E. discriminate.
Qed.

Lemma aget_in_keys {A} (m : amap A) k v : aget m k = Some v -> In k (map fst m).
Proof.
  induction m as [|[k0 v0] r IH]; simpl; [discriminate|].
  destruct (Nat.eqb k k0) eqn:E; intros H.
  - apply Nat.eqb_eq in E. auto.
  - right. auto.
Qed.

(* ---------- what `changed` looks at: the operand list and the dead flag of an op ---------- *)
Definition info (c : cir) (o : op) : option (list operand * bool) :=
  option_map (fun r => (o_operands r, o_dead r)) (aget (c_ops c) o).

Lemma operands_info c o :
  g_operands c o = match info c o with Some (l, _) => l | None => [] end.
Proof. unfold g_operands, info. destruct (aget (c_ops c) o); reflexivity. Qed.

Lemma alive_info c o : In o (g_alive c) <-> exists l, info c o = Some (l, false).
Proof.
  unfold g_alive, op_alive, info. rewrite filter_In. split.
  - intros [_ H]. destruct (aget (c_ops c) o) as [r|]; [|discriminate].
    exists (o_operands r). simpl. destruct (o_dead r); [discriminate|reflexivity].
  - intros [l H]. destruct (aget (c_ops c) o) as [r|] eqn:E; [|discriminate].
    simpl in H. inversion H. split; [eapply aget_in_keys; eauto|].
    rewrite H2. reflexivity.
Qed.

Lemma same_info_not_changed c c' o : info c' o = info c o -> ~ changed cir_sem c c' o.
Proof.
  intros E [H|[[H1 H2]|[H1 H2]]]; simpl in *.
  - apply H. rewrite !operands_info, E. reflexivity.
  - apply H2. apply alive_info. apply alive_info in H1. rewrite E. exact H1.
  - apply H1. apply alive_info. apply alive_info in H2. rewrite <- E. exact H2.
Qed.

(* `keeps S c c'`: outside S, no op changes its operand list or dead flag *)
Definition keeps (S : list op) (c c' : cir) : Prop := forall o, ~ In o S -> info c' o = info c o.

Lemma keeps_refl S c : keeps S c c.
Proof. intros o _. reflexivity. Qed.
Lemma keeps_trans S c c1 c2 : keeps S c c1 -> keeps S c1 c2 -> keeps S c c2.
Proof. intros H1 H2 o Ho. rewrite H2, H1; auto. Qed.
Lemma keeps_weaken S S' c c' : (forall o, In o S -> In o S') -> keeps S c c' -> keeps S' c c'.
Proof. intros Hs H o Ho. apply H. intro. apply Ho. auto. Qed.
Lemma keeps_ops_eq S c c' : c_ops c' = c_ops c -> keeps S c c'.
Proof. intros E o _. unfold info. rewrite E. reflexivity. Qed.

Lemma keeps_fold {A} S (step : cir -> A -> cir) (l : list A) :
  (forall c x, In x l -> keeps S c (step c x)) -> forall c, keeps S c (fold_left step l c).
Proof.
  induction l as [|x l IH]; simpl; intros H c.
  - apply keeps_refl.
  - eapply keeps_trans; [apply H; auto|]. apply IH. intros; apply H; auto.
Qed.

(* ---------- updates that leave c_ops alone ---------- *)
Lemma ops_upd_val c v f : c_ops (upd_val c v f) = c_ops c.
Proof. unfold upd_val. destruct (aget (c_vals c) v); reflexivity. Qed.
Lemma ops_upd_blk c b f : c_ops (upd_blk c b f) = c_ops c.
Proof. unfold upd_blk. destruct (aget (c_blks c) b); reflexivity. Qed.
Lemma ops_upd_reg c g f : c_ops (upd_reg c g f) = c_ops c.
Proof. unfold upd_reg. destruct (aget (c_regs c) g); reflexivity. Qed.
Lemma ops_add_use c v u : c_ops (add_use c v u) = c_ops c.
Proof. apply ops_upd_val. Qed.
Lemma ops_remove_use c v u : c_ops (remove_use c v u) = c_ops c.
Proof. apply ops_upd_val. Qed.

Lemma ops_fold {A} (step : cir -> A -> cir) (l : list A) :
  (forall c x, c_ops (step c x) = c_ops c) -> forall c, c_ops (fold_left step l c) = c_ops c.
Proof. induction l as [|x l IH]; simpl; intros H c; auto. rewrite IH; auto. Qed.

Lemma ops_alloc_vals tys : forall c ow, c_ops (fst (alloc_vals c ow tys)) = c_ops c.
Proof.
  induction tys as [|t r IH]; simpl; intros c ow; auto.
  destruct (alloc_vals _ ow r) as [c2 vs] eqn:E. simpl.
  specialize (IH (with_next (with_vals c (aset (c_vals c) (c_next c) {| v_type := t; v_owner := ow; v_uses := [] |})) (S (c_next c))) ow).
  rewrite E in IH. simpl in IH. exact IH.
Qed.
Lemma ops_mk_block c id tys : c_ops (mk_block c id tys) = c_ops c.
Proof.
  unfold mk_block. pose proof (ops_alloc_vals tys c (VOBlock id)) as H.
  destruct (alloc_vals c (VOBlock id) tys) as [c1 vs]. simpl in *. exact H.
Qed.
Lemma ops_mk_region c p : c_ops (fst (mk_region c p)) = c_ops c.
Proof. reflexivity. Qed.
Lemma ops_append_block c g b : c_ops (append_block c g b) = c_ops c.
Proof. unfold append_block. rewrite ops_upd_blk, ops_upd_reg. reflexivity. Qed.
Lemma ops_place_blocks c bs tgt : c_ops (place_blocks c bs tgt) = c_ops c.
Proof.
  unfold place_blocks. destruct tgt as [g before].
  rewrite ops_fold; [apply ops_upd_reg|]. intros; apply ops_upd_blk.
Qed.
Lemma ops_add_uses_from vs : forall c o i, c_ops (add_uses_from c o i vs) = c_ops c.
Proof. induction vs as [|v r IH]; simpl; intros; auto. rewrite IH. apply ops_add_use. Qed.

(* ---------- updates of one operation record ---------- *)
Lemma info_upd_op c k f o :
  info (upd_op c k f) o =
  if Nat.eqb o k then option_map (fun r => (o_operands (f r), o_dead (f r))) (aget (c_ops c) k)
  else info c o.
Proof.
  unfold upd_op, info. destruct (aget (c_ops c) k) as [r|] eqn:E; simpl.
  - rewrite aget_aset. destruct (Nat.eqb o k); reflexivity.
  - destruct (Nat.eqb o k) eqn:Eo; auto. apply Nat.eqb_eq in Eo. subst. rewrite E. reflexivity.
Qed.

Lemma keeps_upd_op S c k f : In k S -> keeps S c (upd_op c k f).
Proof.
  intros Hk o Ho. rewrite info_upd_op. destruct (Nat.eqb o k) eqn:E; auto.
  apply Nat.eqb_eq in E. subst. contradiction.
Qed.

Lemma keeps_upd_op_pres S c k f :
  (forall r, o_operands (f r) = o_operands r /\ o_dead (f r) = o_dead r) -> keeps S c (upd_op c k f).
Proof.
  intros Hf o _. rewrite info_upd_op. destruct (Nat.eqb o k) eqn:E; auto.
  apply Nat.eqb_eq in E. subst. unfold info. destruct (aget (c_ops c) k) as [r|]; simpl; auto.
  destruct (Hf r) as [-> ->]. reflexivity.
Qed.

Lemma keeps_place_ops S c os tgt : keeps S c (place_ops c os tgt).
Proof.
  unfold place_ops. destruct tgt as [b before].
  eapply keeps_trans; [apply keeps_ops_eq, ops_upd_blk|].
  apply keeps_fold. intros c0 x _. apply keeps_upd_op_pres. intros r; split; reflexivity.
Qed.

(* ---------- the use-replacing primitives ---------- *)
Lemma keeps_set_operand S c u x : In (fst u) S -> keeps S c (set_operand c u x).
Proof. intros H. unfold set_operand. apply keeps_upd_op. exact H. Qed.

Lemma keeps_move_use S v t c u : In (fst u) S -> keeps S c (move_use v t c u).
Proof.
  intros H. unfold move_use.
  eapply keeps_trans; [apply keeps_set_operand; exact H|].
  eapply keeps_trans; [apply keeps_ops_eq, ops_remove_use|]. apply keeps_ops_eq, ops_add_use.
Qed.

Lemma keeps_rauw v t c : keeps (map fst (g_uses c v)) c (cp_rauw v t c).
Proof.
  unfold cp_rauw. destruct (Nat.eqb v t); [apply keeps_refl|].
  apply keeps_fold. intros c0 u Hu. apply keeps_move_use. apply in_map. exact Hu.
Qed.

Lemma keeps_erase_value v c : keeps (map fst (g_uses c v)) c (cp_erase_value v c).
Proof.
  unfold cp_erase_value. apply keeps_fold. intros c0 u Hu.
  eapply keeps_trans; [apply keeps_set_operand; apply in_map; exact Hu|].
  apply keeps_ops_eq, ops_remove_use.
Qed.

Lemma keeps_rauw_if v t p c :
  keeps (map fst (filter (eval_upred p) (g_uses c v))) c (cp_rauw_if v t p c).
Proof.
  unfold cp_rauw_if. apply keeps_fold. intros c0 u Hu.
  destruct (eval_upred p u) eqn:E; [|apply keeps_refl].
  apply keeps_move_use. apply in_map. apply filter_In. auto.
Qed.

(* ---------- erase ---------- *)
Lemma ops_drop_operand_uses c s : c_ops (drop_operand_uses c s) = c_ops c.
Proof.
  unfold drop_operand_uses. generalize (g_operands c s) as l. generalize 0 as i.
  assert (G : forall l i c0, c_ops (fst (fold_left
              (fun (acc : cir * nat) (x : operand) =>
                 let '(c, i) := acc in
                 (match x with OVal v => remove_use c v (s, i) | OErased => c end, S i)) l (c0, i))) = c_ops c0).
  { induction l as [|x l IH]; simpl; intros i c0; auto.
    rewrite IH. destruct x; auto. apply ops_remove_use. }
  intros i l. apply G.
Qed.

Lemma keeps_erase o1 c : keeps (g_subops c o1) c (cp_erase o1 c).
Proof.
  unfold cp_erase. set (subs := g_subops c o1).
  eapply keeps_trans.
  { apply keeps_ops_eq. instantiate (1 := fold_left drop_operand_uses subs
        (match g_parent c o1 with
         | Some b => upd_blk c b (fun r => set_bops (remove1 o1 (b_ops r)) r)
         | None => c end)).
    rewrite ops_fold; [|apply ops_drop_operand_uses].
    destruct (g_parent c o1); [apply ops_upd_blk | reflexivity]. }
  apply keeps_fold. intros c0 s Hs. apply keeps_upd_op. exact Hs.
Qed.

(* ---------- insert ---------- *)
Lemma keeps_mk_op S c id pure st opers restys : In id S -> keeps S c (mk_op c id pure st opers restys).
Proof.
  intros Hid o Ho. unfold mk_op.
  pose proof (ops_alloc_vals restys (add_uses_from c id 0 opers) (VOOp id)) as H.
  destruct (alloc_vals (add_uses_from c id 0 opers) (VOOp id) restys) as [c2 rs]. simpl in H.
  unfold info. simpl. rewrite aget_aset.
  destruct (Nat.eqb o id) eqn:E.
  - apply Nat.eqb_eq in E. subst. contradiction.
  - rewrite H, ops_add_uses_from. reflexivity.
Qed.

Lemma keeps_append_op S c b o : keeps S c (append_op c b o).
Proof.
  unfold append_op. eapply keeps_trans; [apply keeps_ops_eq, ops_upd_blk|].
  apply keeps_upd_op_pres. intros r; split; reflexivity.
Qed.

Lemma keeps_attach_regions S c o gs : keeps S c (attach_regions c o gs).
Proof.
  unfold attach_regions.
  apply keeps_trans with (c1 := upd_op c o (fun r => set_regions (o_regions r ++ gs) r)).
  - apply keeps_upd_op_pres. intros r; split; reflexivity.
  - apply keeps_ops_eq. apply ops_fold. intros; apply ops_upd_reg.
Qed.

Lemma keeps_create_leaf S c b l : In (lf_id l) S -> keeps S c (create_leaf c b l).
Proof.
  intros H. unfold create_leaf. eapply keeps_trans; [apply keeps_mk_op; exact H|]. apply keeps_append_op.
Qed.

Lemma keeps_create_blk S c g nb :
  (forall l, In l (nb_body nb) -> In (lf_id l) S) -> keeps S c (create_blk c g nb).
Proof.
  intros H. unfold create_blk.
  set (c1 := mk_block c (nb_id nb) (nb_argtys nb)).
  apply keeps_trans with (c1 := c1); [apply keeps_ops_eq, ops_mk_block|].
  apply keeps_trans with (c1 := fold_left (fun c l => create_leaf c (nb_id nb) l) (nb_body nb) c1).
  - apply keeps_fold. intros c0 l Hl. apply keeps_create_leaf. auto.
  - apply keeps_ops_eq, ops_append_block.
Qed.

Lemma keeps_create_new limbo0 c n : keeps (newop_ids n) c (create_new limbo0 c n).
Proof.
  unfold create_new.
  set (step := fun (acc : cir * list nat) (nr : newreg) =>
                 let '(c, gs) := acc in
                 match nr with
                 | NRFresh bs => let '(c1, g) := mk_region c None in
                                 (fold_left (fun c nb => create_blk c g nb) bs c1, gs ++ [g])
                 | NRLimbo k => (c, gs ++ [nth k limbo0 0])
                 end).
  assert (G : forall rs acc, (forall g, In g rs -> In g (no_regions n)) ->
                keeps (newop_ids n) (fst acc) (fst (fold_left step rs acc))).
  { induction rs as [|nr rs IH]; simpl; intros acc Hin; [apply keeps_refl|].
    eapply keeps_trans; [|apply IH; intros; apply Hin; auto].
    destruct acc as [c0 gs]. simpl. destruct nr as [bs|k]; simpl; [|apply keeps_refl].
    match goal with |- keeps _ _ (fold_left _ _ ?cc) =>
      apply keeps_trans with (c1 := cc); [apply keeps_ops_eq; reflexivity|] end.
    apply keeps_fold. intros c1 nb Hnb. apply keeps_create_blk. intros l Hl.
    unfold newop_ids. right. apply in_flat_map. exists (NRFresh bs). split; [apply Hin; auto|].
    apply in_flat_map. exists nb. split; auto. apply in_map. exact Hl. }
  specialize (G (no_regions n) (c, []) (fun g H => H)).
  destruct (fold_left step (no_regions n) (c, [])) as [c1 gs]. simpl in G.
  eapply keeps_trans; [exact G|].
  eapply keeps_trans; [apply keeps_mk_op; left; reflexivity|]. apply keeps_attach_regions.
Qed.

Lemma keeps_insert news ip c : keeps (flat_map newop_ids news) c (cp_insert news ip c).
Proof.
  unfold cp_insert. destruct (ip_target c ip) as [tgt|]; [|apply keeps_refl].
  eapply keeps_trans; [|apply keeps_place_ops].
  eapply keeps_trans; [|apply keeps_ops_eq; reflexivity].
  apply keeps_fold. intros c0 n Hn. eapply keeps_weaken; [|apply keeps_create_new].
  intros o Ho. apply in_flat_map. exists n. auto.
Qed.

(* ---------- the rest ---------- *)
Lemma keeps_inline_block_noargs b ip c : keeps [] c (cp_inline_block b ip [] c).
Proof.
  unfold cp_inline_block. destruct (ip_target c ip) as [tgt|]; [|apply keeps_refl].
  rewrite combine_nil. simpl.
  set (c3 := place_ops _ _ tgt).
  assert (H3 : keeps [] c c3).
  { unfold c3. eapply keeps_trans; [apply keeps_ops_eq, ops_upd_blk|]. apply keeps_place_ops. }
  destruct (g_bparent c3 b); auto.
  eapply keeps_trans; [exact H3|]. apply keeps_ops_eq. rewrite ops_upd_blk, ops_upd_reg. reflexivity.
Qed.

Lemma ops_move_region o k c : c_ops (cp_move_region o k c) = c_ops c.
Proof.
  unfold cp_move_region. destruct (nth_error (g_regions c o) k); auto.
  simpl. rewrite ops_fold; [|intros; apply ops_upd_blk]. rewrite !ops_upd_reg. reflexivity.
Qed.
Lemma ops_inline_region o k bp c : c_ops (cp_inline_region o k bp c) = c_ops c.
Proof.
  unfold cp_inline_region. destruct (nth_error (g_regions c o) k); auto.
  destruct (bp_target c bp); auto. rewrite ops_place_blocks, ops_upd_reg. reflexivity.
Qed.
Lemma ops_create_block id bp tys c : c_ops (cp_create_block id bp tys c) = c_ops c.
Proof.
  unfold cp_create_block. destruct (bp_target c bp); auto. rewrite ops_place_blocks, ops_mk_block. reflexivity.
Qed.
Lemma ops_insert_arg b idx ty c : c_ops (cp_insert_arg b idx ty c) = c_ops c.
Proof.
  unfold cp_insert_arg. pose proof (ops_alloc_vals [ty] c (VOBlock b)) as H.
  destruct (alloc_vals c (VOBlock b) [ty]) as [c1 vs]. simpl in H. rewrite ops_upd_blk. exact H.
Qed.
Lemma keeps_bump o c : keeps [] c (cp_bump o c).
Proof.
  unfold cp_bump. destruct (aget (c_ops c) o) as [r|]; [|apply keeps_refl].
  destruct (o_dead r); [apply keeps_refl|]. apply keeps_upd_op_pres. intros; split; reflexivity.
Qed.

Lemma uses_upd_blk c b f v : g_uses (upd_blk c b f) v = g_uses c v.
Proof. unfold upd_blk, g_uses. destruct (aget (c_blks c) b); reflexivity. Qed.

Lemma keeps_erase_arg v c : keeps (map fst (g_uses c v)) c (cp_erase_arg v c).
Proof.
  unfold cp_erase_arg. destruct (aget (c_vals c) v) as [r|]; [|apply keeps_refl].
  destruct (v_owner r) as [o|b]; [apply keeps_refl|].
  eapply keeps_trans; [apply keeps_ops_eq, ops_upd_blk|].
  rewrite <- (uses_upd_blk c b (fun r0 => set_bargs (remove1 v (b_args r0)) r0) v).
  apply keeps_erase_value.
Qed.

(* ---------- ev_erased_uses ---------- *)
Lemma uses_set_operand c u x v : g_uses (set_operand c u x) v = g_uses c v.
Proof. unfold set_operand, upd_op, g_uses. destruct (aget (c_ops c) (fst u)); reflexivity. Qed.

Lemma uses_remove_use_same c v u : g_uses (remove_use c v u) v = remove_use_l u (g_uses c v).
Proof.
  unfold remove_use, upd_val, g_uses. destruct (aget (c_vals c) v) as [r|] eqn:E; simpl.
  - rewrite aget_aset, Nat.eqb_refl. reflexivity.
  - rewrite E. reflexivity.
Qed.

Lemma use_eqb_refl u : use_eqb u u = true.
Proof. unfold use_eqb. rewrite !Nat.eqb_refl. reflexivity. Qed.

Lemma erase_value_uses v c : g_uses (cp_erase_value v c) v = [].
Proof.
  unfold cp_erase_value.
  assert (G : forall l c0, g_uses c0 v = l ->
              g_uses (fold_left (fun c u => remove_use (set_operand c u OErased) v u) l c0) v = []).
  { induction l as [|u l IH]; simpl; intros c0 H; auto.
    apply IH. rewrite uses_remove_use_same, uses_set_operand, H. simpl. rewrite use_eqb_refl. reflexivity. }
  apply G. reflexivity.
Qed.

(* ---------- EvLaws ---------- *)
Theorem cir_ev_laws : EvLaws cir_sem.
Proof.
  split; [|exact erase_value_uses].
  intros p c o Hc.
  assert (K : forall S, keeps S c (run_prim cir_sem p c) -> In o S).
  { intros S HS. destruct (in_dec Nat.eq_dec o S) as [Hi|Hn]; auto.
    exfalso. eapply same_info_not_changed; [apply HS; exact Hn | exact Hc]. }
  destruct p; simpl in *.
  - specialize (K _ (keeps_insert news ip c)). apply in_flat_map in K. destruct K as (n & Hn & Ho). eauto.
  - exact (K _ (keeps_erase o0 c)).
  - exact (K _ (keeps_rauw v t c)).
  - exact (K _ (keeps_erase_value v c)).
  - exact (K _ (keeps_rauw_if v t p c)).
  - destruct (K [] (keeps_ops_eq _ _ _ (ops_upd_val _ _ _))).
  - destruct (K [] (keeps_ops_eq _ _ _ (ops_insert_arg _ _ _ _))).
  - exact (K _ (keeps_erase_arg v c)).
  - intros ->. destruct (K [] (keeps_inline_block_noargs b ip c)).
  - destruct (K [] (keeps_ops_eq _ _ _ (ops_move_region _ _ _))).
  - destruct (K [] (keeps_ops_eq _ _ _ (ops_inline_region _ _ _ _))).
  - destruct (K [] (keeps_ops_eq _ _ _ (ops_create_block _ _ _ _))).
  - destruct (K [] (keeps_bump o0 c)).
Qed.
