(* C11/Enc.v -- encoders of the concrete model's results into Base/Show.v `sx`, and the two
   case runners evaluated by the correspondence check (definitions only). *)
From Coq Require Import List Arith Bool ZArith.
From XV Require Import Base.Show C11.Model C11.IR.
Import ListNotations.

(* a value is named by its defining site, as the harness names the real SSAValue objects *)
Definition canon_v (c : cir) (v : value) : sx :=
  match aget (c_vals c) v with
  | None => L [I 3%Z]
  | Some r =>
      match v_owner r with
      | VOOp o => match index_of v (g_results c o) with
                  | Some i => L [I 0%Z; sN o; sN i] | None => L [I 3%Z] end
      | VOBlock b => match index_of v (g_bargs c b) with
                     | Some i => L [I 1%Z; sN b; sN i] | None => L [I 3%Z] end
      end
  end.
Definition enc_operand (c : cir) (x : operand) : sx :=
  match x with OErased => L [I 2%Z] | OVal v => canon_v c v end.
Definition vtype (c : cir) (v : value) : sx :=
  match aget (c_vals c) v with Some r => I (v_type r) | None => I (-1)%Z end.

Fixpoint dump_op (f : nat) (c : cir) (o : op) : sx :=
  match f with
  | O => L []
  | S f' =>
      match aget (c_ops c) o with
      | None => L []
      | Some r =>
          L [sN o; sN (o_stage r); sB (o_pure r); L (map (enc_operand c) (o_operands r));
             L (map (vtype c) (o_results r));
             L (map (fun g => L (map (fun b => L [sN b; L (map (vtype c) (g_bargs c b));
                                                  L (map (dump_op f' c) (g_bops c b))])
                                     (g_blocks c g)))
                    (o_regions r))]
      end
  end.
Definition dump (c : cir) : sx := dump_op (fuel_of c) c root.

Definition enc_event (ec : event * cir) : sx :=
  let '(e, c) := ec in
  match e with
  | EInsert o => L [I 0%Z; sN o]
  | ERemove o => L [I 1%Z; sN o]
  | EModify o => L [I 2%Z; sN o]
  | EReplace o news =>
      L [I 3%Z; sN o; L (map (fun x => match x with Some v => canon_v c v | None => L [I 4%Z] end) news)]
  | EBlock b => L [I 4%Z; sN b]
  end.

(* scripted walk: build the IR, run rewrite_region, report
   [returned bool, invocation log, listener log, final IR] (-2 = out of fuel) *)
Definition c11_case (ks : list bcmd) (rev rf recur : bool) (greedy dce : bool) (tbs : list table)
           (sq : list nat) (n fuel : nat) : sx :=
  let cf := {| walk_reverse := rev; walk_regions_first := rf; apply_recursively := recur |} in
  let m := if greedy then MGreedy cir_sem dce (map script tbs)
           else MSingle cir_sem (script (hd [] tbs)) in
  match rewrite_region cir_sem true n fuel cf m (pick_seq sq) (build ks) with
  | None => I (-2)%Z
  | Some (s, ret) =>
      L [sB ret; L (map (fun oc => sN (fst oc)) (ws_inv cir_sem s));
         L (map enc_event (ws_ev cir_sem s)); dump (ws_c cir_sem s)]
  end.

(* action-table row: a PatternRewriter constructed directly on `cur`, the calls made one after
   the other; report [which calls were made, has_done_action, listener log, final IR] *)
Fixpoint direct_run (tms : list tmpl) (c : cir) (r : rw) (ev : list (event * cir)) (bits : list bool)
  : cir * rw * list (event * cir) * list bool :=
  match tms with
  | [] => (c, r, ev, bits)
  | tm :: rest =>
      match resolve c r tm with
      | None => direct_run rest c r ev (bits ++ [false])
      | Some a => let '(c1, r1, t) := exec cir_sem true a c r in direct_run rest c1 r1 (ev ++ t) (bits ++ [true])
      end
  end.
Definition c11_direct (ks : list bcmd) (cur : op) (tms : list tmpl) : sx :=
  let '(c1, r1, ev, bits) := direct_run tms (build ks) {| flag := false; dip := IPBefore cur |} [] [] in
  L [sLB bits; sB (flag r1); L (map enc_event ev); dump c1].
