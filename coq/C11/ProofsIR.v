(* C11/ProofsIR.v -- facts about the concrete heap instance `cir_sem` (C11/IR.v): the laws the
   flag/fixpoint theorems depend on, and the refutation witnesses (evaluated by vm_compute) for the
   statements that the unchanged code does not satisfy. *)
From Coq Require Import List Arith Bool ZArith Lia.
From XV Require Import Base.Show C11.Model C11.IR C11.Enc C11.Proofs.
Import ListNotations.


(* ---- the two laws of Proofs.FlagLaws hold for the heap model ---- *)
Lemma cp_rauw_nouse c v t : g_uses c v = [] -> cp_rauw v t c = c.
Proof. intros H. unfold cp_rauw. rewrite H. destruct (Nat.eqb v t); reflexivity. Qed.

Lemma cp_rauw_if_nouse c v t p : filter (eval_upred p) (g_uses c v) = [] -> cp_rauw_if v t p c = c.
Proof.
  unfold cp_rauw_if. generalize (g_uses c v) as l. intros l. revert c.
  induction l as [|u l IH]; simpl; intros c H; auto.
  destruct (eval_upred p u); [discriminate|]. apply IH. exact H.
Qed.

Theorem cir_flag_laws : FlagLaws cir_sem.
Proof. split; [exact cp_rauw_nouse | exact cp_rauw_if_nouse]. Qed.

(* ------------------------------------------------------------------ *)
(* Witness 1: create_block.  Block 1 sits in the region of op 1; the call adds block 100 next to it. *)
Definition w_ir : list bcmd :=
  [KOp 1 false 0 0 [] [] 1; KBlk 1 1 0 []; KOp 2 false 0 0 [] [] 0].
Definition w_r0 : rw := {| flag := false; dip := IPBefore 2 |}.

(* recorded refutation of the code before commit 5d0c2dd (cbflag = false) ... *)
Lemma flag_sound_old_refuted :
  exists a, resolve (build w_ir) w_r0 (TCreateBlock 100 (BPAfter 1) []) = Some a /\
            dump (apply cir_sem false a (build w_ir) w_r0) <> dump (build w_ir) /\
            sets_flag cir_sem false a (build w_ir) w_r0 = false.
Proof.
  eexists. split; [vm_compute; reflexivity|]. split; [|vm_compute; reflexivity].
  intro H. vm_compute in H. discriminate H.
Qed.
(* ... and the same call under the current code sets the flag *)
Lemma flag_sound_witness_now :
  exists a, resolve (build w_ir) w_r0 (TCreateBlock 100 (BPAfter 1) []) = Some a /\
            sets_flag cir_sem true a (build w_ir) w_r0 = true.
Proof. eexists. split; [vm_compute; reflexivity|]. vm_compute. reflexivity. Qed.

(* Witness 2: the same call inside a walk.  Op 1 acts once its region has two blocks; op 2 creates
   that block.  The walk visits 1 then 2, no flag is ever set: it returns False although the IR
   changed, and op 1 is not at a fixpoint. *)
Definition w_tb_cb : table :=
  [ {| e_tag := 1; e_stage := 0; e_guards := [GNumBlocks 1 0 2]; e_steps := [TNotify 1] |};
    {| e_tag := 2; e_stage := 0; e_guards := []; e_steps := [TCreateBlock 100 (BPEnd 1 0) []] |} ].
Definition w_cf : config := {| walk_reverse := false; walk_regions_first := false; apply_recursively := true |}.

Definition st0 (c : cir) : wstate cir_sem :=
  Build_wstate cir_sem c false 0 [] [].
Definition final_of (o : option (wstate cir_sem * bool)) (c : cir) : wstate cir_sem :=
  match o with Some (s, _) => s | None => st0 c end.
(* (vm_compute is only ever applied to goals whose type is plain data -- bool, lists of numbers, sx --
   never to a goal mentioning `wstate cir_sem`, whose normal form contains the whole model) *)
Lemma final_of_spec o c b : option_map snd o = Some b -> o = Some (final_of o c, b).
Proof. destruct o as [[s b']|]; simpl; intros H; inversion H; reflexivity. Qed.
Definition is_some {A} (o : option A) : bool := match o with Some _ => true | None => false end.
Lemma some_spec {A} (o : option A) d : is_some o = true -> o = Some (match o with Some s => s | None => d end).
Proof. destruct o; simpl; intros H; [reflexivity | discriminate]. Qed.

Definition quiescent_old (recur : bool) (m : matcher cir_sem) (c : cir) (o : op) : Prop :=
  forall w, fst (fst (fst (run_match cir_sem false recur m o c w))) = c /\
            flag (snd (fst (fst (run_match cir_sem false recur m o c w)))) = false.
Definition w_s1 : wstate cir_sem :=
  final_of (rewrite_region cir_sem false 5 50 w_cf (MSingle cir_sem (script w_tb_cb)) lifo (build w_ir)) (build w_ir).

Lemma walk_create_block_old_refuted :
  let c := build w_ir in
  let m := MSingle cir_sem (script w_tb_cb) in
  exists s, rewrite_region cir_sem false 5 50 w_cf m lifo c = Some (s, false) /\
            dump (ws_c s) <> dump c /\
            In 1 (walk cir_sem true true (ws_c s)) /\
            ~ quiescent_old true m (ws_c s) 1.
Proof.
  cbv zeta. exists w_s1. split; [apply final_of_spec; vm_compute; reflexivity|]. split; [|split].
  - intro H. vm_compute in H. discriminate H.
  - vm_compute. auto.
  - intro Q. specialize (Q []). destruct Q as [_ Q]. vm_compute in Q. discriminate Q.
Qed.

(* Witness 3 (no defect involved): one populate + _process_worklist pass is not enough.  Op 1 acts
   once op 2 has reached stage 1; op 2 modifies itself.  The pass visits 1 (nothing to do), then 2
   (acts, re-enqueued, nothing more to do) and ends; op 1 would now act.  The listener callbacks
   re-enqueue only the modified op, not the ops whose match depends on it: the fixpoint is reached
   by the outer `while` loop of rewrite_region. *)
Definition w_ir2 : list bcmd := [KOp 1 false 0 0 [] [] 0; KOp 2 false 0 0 [] [] 0].
Definition w_tb2 : table :=
  [ {| e_tag := 1; e_stage := 0; e_guards := [GStageGe 2 1]; e_steps := [TNotify 1] |};
    {| e_tag := 2; e_stage := 0; e_guards := []; e_steps := [TNotify 2] |} ].

Definition w_s2 : wstate cir_sem :=
  match one_pass cir_sem true 50 w_cf (MSingle cir_sem (script w_tb2)) lifo (st0 (build w_ir2)) with
  | Some s => s | None => st0 (build w_ir2) end.
Definition w_s3 : wstate cir_sem :=
  final_of (rewrite_region cir_sem true 5 50 w_cf (MSingle cir_sem (script w_tb2)) lifo (build w_ir2)) (build w_ir2).

Lemma single_pass_refuted :
  let c := build w_ir2 in
  let m := MSingle cir_sem (script w_tb2) in
  exists s, one_pass cir_sem true 50 w_cf m lifo (st0 c) = Some s /\
            map fst (ws_inv s) = [1; 2; 2] /\
            In 1 (walk cir_sem true true (ws_c s)) /\
            ~ quiescent cir_sem true m (ws_c s) 1.
Proof.
  cbv zeta.
  exists w_s2. split; [apply some_spec; vm_compute; reflexivity|]. split; [vm_compute; reflexivity|]. split.
  - vm_compute. auto.
  - intro Q. specialize (Q []). destruct Q as [_ Q]. vm_compute in Q. discriminate Q.
Qed.

(* ... and the complete driver does reach the fixpoint on that example (instance of Proofs.fixpoint,
   shown here by evaluation: 1, 2, 2 | 1, 1, 2 | 1, 2) *)
Lemma single_pass_example_full_run :
  exists s, rewrite_region cir_sem true 5 50 w_cf (MSingle cir_sem (script w_tb2)) lifo (build w_ir2) = Some (s, true) /\
            map fst (ws_inv s) = [1; 2; 2; 1; 1; 2; 1; 2].
Proof. exists w_s3. split; [apply final_of_spec|]; vm_compute; reflexivity. Qed.

(* ------------------------------------------------------------------ *)
(* Witness 4: inline_block with arg_values.  Op 1 owns block 1 (one argument) holding op 2, which
   uses that argument.  inline_block(block 1, before op 1, [result of op 3]) rewrites the operand
   of op 2 and calls no listener. *)
Definition w_ir3 : list bcmd :=
  [KOp 3 false 0 0 [] [1%Z] 0; KOp 1 false 0 0 [] [] 1; KBlk 1 1 0 [1%Z]; KOp 2 false 0 1 [VArg 1 0] [] 0].
Definition w_r1 : rw := {| flag := false; dip := IPBefore 1 |}.

Lemma events_complete_refuted :
  exists a, resolve (build w_ir3) w_r1 (TInlineBlock 1 (IPBefore 1) [VRes 3 0]) = Some a /\
            changed cir_sem (build w_ir3) (apply cir_sem true a (build w_ir3) w_r1) 2 /\
            In 2 (alive cir_sem (build w_ir3)) /\
            ~ covered cir_sem [] (snd (exec cir_sem true a (build w_ir3) w_r1)) 2 /\
            sets_flag cir_sem true a (build w_ir3) w_r1 = true.
Proof.
  eexists. split; [vm_compute; reflexivity|]. split; [|split; [|split]].
  - left. intro H. vm_compute in H. discriminate H.
  - vm_compute. auto.
  - intros (e & cs & Hin & _). vm_compute in Hin. exact Hin.
  - vm_compute. reflexivity.
Qed.

(* ------------------------------------------------------------------ *)
(* The law records of Proofs.v are satisfiable: a minimal IR model (a set of region-less,
   operand-less operations; insert adds, erase removes, everything else is the identity). *)
Definition toy_sem : Sem :=
  {| C := list op; uses := fun _ _ => []; operands := fun _ _ => []; results := fun _ _ => [];
     owner_op := fun _ _ => None; def_parent := fun _ _ => None; has_regions := fun _ _ => false;
     subops := fun _ o => [o]; walk := fun _ _ c => c; alive := fun c => c; attached := fun c => c;
     trivially_dead := fun _ _ => false;
     p_insert := fun news _ c => c ++ map no_id news;
     p_erase := fun o c => filter (fun y => negb (Nat.eqb o y)) c;
     p_rauw := fun _ _ c => c; p_erase_value := fun _ c => c; p_rauw_if := fun _ _ _ c => c;
     p_retype := fun _ _ c => c; p_insert_arg := fun _ _ _ c => c; p_erase_arg := fun _ c => c;
     p_inline_block := fun _ _ _ c => c; p_move_region := fun _ _ c => c;
     p_inline_region := fun _ _ _ c => c; p_create_block := fun _ _ _ c => c; p_bump := fun _ c => c |}.

Lemma toy_flag_laws : FlagLaws toy_sem.
Proof. split; reflexivity. Qed.

Lemma toy_live_laws : LiveLaws toy_sem (fun _ => True) (fun _ _ => True) (fun _ _ => True) (fun _ => True) (fun _ _ => True).
Proof.
  split; simpl; auto.
  - intros c v u _ [].
  - intros p c x Hx Hk. destruct p; simpl in *; auto.
    + apply in_or_app. auto.
    + apply filter_In. split; auto. apply negb_true_iff. apply Nat.eqb_neq. intros ->. apply Hk. auto.
  - intros c o x _ [<-|[]]. reflexivity.
  - intros news ip c n _ Hn. apply in_or_app. right. apply in_map. exact Hn.
Qed.

Lemma toy_ev_laws : EvLaws toy_sem.
Proof.
  split; [|reflexivity].
  intros p c o Hc.
  assert (Hid : ~ changed toy_sem c c o) by apply changed_refl.
  destruct p; simpl in *; try contradiction.
  - destruct Hc as [H|[[H1 H2]|[H1 H2]]].
    + exfalso. apply H. reflexivity.
    + exfalso. apply H2. apply in_or_app. auto.
    + apply in_app_or in H2. destruct H2 as [H2|H2]; [contradiction|].
      apply in_map_iff in H2. destruct H2 as (n & <- & Hn). exists n. split; [exact Hn | left; reflexivity].
  - destruct Hc as [H|[[H1 H2]|[H1 H2]]].
    + exfalso. apply H. reflexivity.
    + left. destruct (Nat.eq_dec o0 o) as [E|E]; auto.
      exfalso. apply H2. apply filter_In. split; auto. apply negb_true_iff. apply Nat.eqb_neq. exact E.
    + apply filter_In in H2. tauto.
Qed.

(* a non-trivial run of the driver over the toy model: the pattern erases op 2 when invoked on op 1 *)
Example toy_run :
  let p : pattern toy_sem := fun c o => if Nat.eqb o 1 then [PAct toy_sem (fun c _ => if existsb (Nat.eqb 2) c then Some (AErase 2) else None)] else [] in
  match rewrite_region toy_sem true 5 50 w_cf (MSingle toy_sem p) lifo [1; 2; 3] with
  | Some (s, ret) => (ws_c s, ret, map fst (ws_inv s)) = ([1; 3], true, [3; 2; 1; 3; 1])
  | None => False
  end.
Proof. vm_compute. reflexivity. Qed.

(* the create_block walk of Witness 2 under the current code: the flag is set, op 1 is re-visited by
   the next pass, acts, and the walk returns True (visits 1, 2 | 1, 1, 2 | 1, 2) *)
Definition w_s4 : wstate cir_sem :=
  final_of (rewrite_region cir_sem true 5 50 w_cf (MSingle cir_sem (script w_tb_cb)) lifo (build w_ir)) (build w_ir).
Lemma walk_create_block_now :
  exists s, rewrite_region cir_sem true 5 50 w_cf (MSingle cir_sem (script w_tb_cb)) lifo (build w_ir) = Some (s, true) /\
            map fst (ws_inv s) = [1; 2; 1; 1; 2; 1; 2].
Proof. exists w_s4. split; [apply final_of_spec|]; vm_compute; reflexivity. Qed.
