(* C11/ProofsWL.v -- the walker's worklist (C11/Model.v `wl_push`/`wl_remove`/`popped lifo`) is
   C12's abstract set-stack `aw`, which the real tombstone Worklist refines (C12_worklist_refines). *)
From Coq Require Import List Arith Bool Lia.
Require XV.C11.Model XV.C12.Model.
Import ListNotations.
Module M11 := XV.C11.Model.
Module M12 := XV.C12.Model.

Lemma popped_lifo l x k : M11.popped M11.lifo k (l ++ [x]) = x.
Proof.
  unfold M11.popped, M11.lifo. rewrite app_length. simpl.
  replace (length l + 1 - 1) with (length l) by lia.
  rewrite Nat.mod_small by lia.
  rewrite app_nth2 by lia. rewrite Nat.sub_diag. reflexivity.
Qed.

Lemma worklist_is_c12_set_stack (w : list nat) (x : nat) :
  M11.wl_push x w = fst (M12.aw_step w (M12.WPush x)) /\
  M11.wl_remove x w = fst (M12.aw_step w (M12.WRemove x)) /\
  (forall l k, w = l ++ [x] -> M12.aw_step w M12.WPop = (l, M12.OItem (M11.popped M11.lifo k w))).
Proof.
  split; [reflexivity|]. split; [reflexivity|].
  intros l k ->. rewrite popped_lifo. unfold M12.aw_step. rewrite rev_app_distr. simpl.
  rewrite removelast_last. reflexivity.
Qed.
