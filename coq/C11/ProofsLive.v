(* C11/ProofsLive.v -- the heap model `cir_sem` satisfies Proofs.StructLaws: only erase kills
   operations (and only those of op.walk()), a region-less op's walk is itself, inserted ops are alive. *)
From Coq Require Import List Arith Bool ZArith Lia.
From XV Require Import C11.Model C11.IR C11.Proofs C11.ProofsEv.
Import ListNotations.

(* InsertPoint validity as the model sees it *)
Definition cir_ip_ok (c : cir) (ip : ipoint) : Prop := ip_target c ip <> None.

(* `nokill c c'`: every op alive in c is alive in c' *)
Definition nokill (c c' : cir) : Prop := forall o, In o (g_alive c) -> In o (g_alive c').

Lemma nokill_refl c : nokill c c.
Proof. intros o H; exact H. Qed.
Lemma nokill_trans c c1 c2 : nokill c c1 -> nokill c1 c2 -> nokill c c2.
Proof. intros H1 H2 o H. auto. Qed.
Lemma nokill_fold {A} (step : cir -> A -> cir) (l : list A) :
  (forall c x, In x l -> nokill c (step c x)) -> forall c, nokill c (fold_left step l c).
Proof.
  induction l as [|x l IH]; simpl; intros H c.
  - apply nokill_refl.
  - eapply nokill_trans; [apply H; auto|]. apply IH. intros; apply H; auto.
Qed.
Lemma nokill_ops_eq c c' : c_ops c' = c_ops c -> nokill c c'.
Proof.
  intros E o H. apply alive_info. apply alive_info in H. destruct H as [l H]. exists l.
  unfold info in *. rewrite E. exact H.
Qed.
Lemma nokill_upd_op c k f : (forall r, o_dead (f r) = o_dead r) -> nokill c (upd_op c k f).
Proof.
  intros Hf o H. apply alive_info. apply alive_info in H. destruct H as [l H].
  rewrite info_upd_op. destruct (Nat.eqb o k) eqn:E; [|eauto].
  apply Nat.eqb_eq in E. subst. unfold info in H. destruct (aget (c_ops c) k) as [r|]; [|discriminate].
  simpl in *. inversion H. rewrite Hf. rewrite H2. eauto.
Qed.

Lemma info_mk_op c id pure st opers restys o :
  info (mk_op c id pure st opers restys) o =
  if Nat.eqb o id then Some (map OVal opers, false) else info c o.
Proof.
  unfold mk_op.
  pose proof (ops_alloc_vals restys (add_uses_from c id 0 opers) (VOOp id)) as H.
  destruct (alloc_vals (add_uses_from c id 0 opers) (VOOp id) restys) as [c2 rs]. simpl in H.
  unfold info. simpl. rewrite aget_aset. destruct (Nat.eqb o id); [reflexivity|].
  rewrite H, ops_add_uses_from. reflexivity.
Qed.
Lemma nokill_mk_op c id pure st opers restys : nokill c (mk_op c id pure st opers restys).
Proof.
  intros o H. apply alive_info. apply alive_info in H. destruct H as [l H].
  rewrite info_mk_op. destruct (Nat.eqb o id); eauto.
Qed.
Lemma alive_mk_op c id pure st opers restys : In id (g_alive (mk_op c id pure st opers restys)).
Proof. apply alive_info. rewrite info_mk_op, Nat.eqb_refl. eauto. Qed.

Lemma nokill_place_ops c os tgt : nokill c (place_ops c os tgt).
Proof.
  unfold place_ops. destruct tgt as [b before].
  eapply nokill_trans; [apply nokill_ops_eq, ops_upd_blk|].
  apply nokill_fold. intros c0 x _. apply nokill_upd_op. reflexivity.
Qed.
Lemma nokill_append_op c b o : nokill c (append_op c b o).
Proof.
  unfold append_op. eapply nokill_trans; [apply nokill_ops_eq, ops_upd_blk|].
  apply nokill_upd_op. reflexivity.
Qed.
Lemma nokill_attach_regions c o gs : nokill c (attach_regions c o gs).
Proof.
  unfold attach_regions.
  apply nokill_trans with (c1 := upd_op c o (fun r => set_regions (o_regions r ++ gs) r)).
  - apply nokill_upd_op. reflexivity.
  - apply nokill_ops_eq. apply ops_fold. intros; apply ops_upd_reg.
Qed.
Lemma nokill_create_leaf c b l : nokill c (create_leaf c b l).
Proof. unfold create_leaf. eapply nokill_trans; [apply nokill_mk_op|]. apply nokill_append_op. Qed.
Lemma nokill_create_blk c g nb : nokill c (create_blk c g nb).
Proof.
  unfold create_blk. set (c1 := mk_block c (nb_id nb) (nb_argtys nb)).
  apply nokill_trans with (c1 := c1); [apply nokill_ops_eq, ops_mk_block|].
  apply nokill_trans with (c1 := fold_left (fun c l => create_leaf c (nb_id nb) l) (nb_body nb) c1).
  - apply nokill_fold. intros. apply nokill_create_leaf.
  - apply nokill_ops_eq, ops_append_block.
Qed.

(* creating a new op: nothing dies, and the op itself is alive afterwards *)
Lemma create_new_alive limbo0 c n :
  nokill c (create_new limbo0 c n) /\ In (no_id n) (g_alive (create_new limbo0 c n)).
Proof.
  unfold create_new.
  set (step := fun (acc : cir * list nat) (nr : newreg) =>
                 let '(c, gs) := acc in
                 match nr with
                 | NRFresh bs => let '(c1, g) := mk_region c None in
                                 (fold_left (fun c nb => create_blk c g nb) bs c1, gs ++ [g])
                 | NRLimbo k => (c, gs ++ [nth k limbo0 0])
                 end).
  assert (G : forall rs acc, nokill (fst acc) (fst (fold_left step rs acc))).
  { induction rs as [|nr rs IH]; simpl; intros acc; [apply nokill_refl|].
    eapply nokill_trans; [|apply IH].
    destruct acc as [c0 gs]. simpl. destruct nr as [bs|k]; simpl; [|apply nokill_refl].
    match goal with |- nokill _ (fold_left _ _ ?cc) =>
      apply nokill_trans with (c1 := cc); [apply nokill_ops_eq; reflexivity|] end.
    apply nokill_fold. intros. apply nokill_create_blk. }
  specialize (G (no_regions n) (c, [])).
  destruct (fold_left step (no_regions n) (c, [])) as [c1 gs]. simpl in G.
  split.
  - eapply nokill_trans; [exact G|]. eapply nokill_trans; [apply nokill_mk_op|]. apply nokill_attach_regions.
  - apply nokill_attach_regions. apply alive_mk_op.
Qed.

Lemma insert_alive news ip c :
  nokill c (cp_insert news ip c) /\
  (cir_ip_ok c ip -> forall n, In n news -> In (no_id n) (g_alive (cp_insert news ip c))).
Proof.
  unfold cp_insert, cir_ip_ok. destruct (ip_target c ip) as [tgt|]; [|split; [apply nokill_refl | congruence]].
  set (limbo0 := c_limbo c).
  assert (G : forall l c0, nokill c0 (fold_left (create_new limbo0) l c0) /\
                           forall n, In n l -> In (no_id n) (g_alive (fold_left (create_new limbo0) l c0))).
  { induction l as [|n l IH]; simpl; intros c0; [split; [apply nokill_refl | intros n []]|].
    destruct (create_new_alive limbo0 c0 n) as [Hk Ha]. destruct (IH (create_new limbo0 c0 n)) as [Hk' Ha'].
    split; [eapply nokill_trans; eauto|].
    intros n' [<-|Hn]; [apply Hk'; exact Ha | apply Ha'; exact Hn]. }
  destruct (G news c) as [Hk Ha].
  assert (Hfin : forall x, In x (g_alive (fold_left (create_new limbo0) news c)) ->
                 In x (g_alive (place_ops (with_limbo (fold_left (create_new limbo0) news c)
                                                       (drop_limbo limbo0 (limbo_used news))) (map no_id news) tgt))).
  { intros x Hx. apply nokill_place_ops. apply (nokill_ops_eq (fold_left (create_new limbo0) news c)); [reflexivity | exact Hx]. }
  split.
  - intros o Ho. apply Hfin. apply Hk. exact Ho.
  - intros _ n Hn. apply Hfin. apply Ha. exact Hn.
Qed.

(* the use-replacing primitives *)
Lemma nokill_set_operand c u x : nokill c (set_operand c u x).
Proof. unfold set_operand. apply nokill_upd_op. reflexivity. Qed.
Lemma nokill_move_use v t c u : nokill c (move_use v t c u).
Proof.
  unfold move_use. eapply nokill_trans; [apply nokill_set_operand|].
  eapply nokill_trans; [apply nokill_ops_eq, ops_remove_use|]. apply nokill_ops_eq, ops_add_use.
Qed.
Lemma nokill_rauw v t c : nokill c (cp_rauw v t c).
Proof.
  unfold cp_rauw. destruct (Nat.eqb v t); [apply nokill_refl|].
  apply nokill_fold. intros. apply nokill_move_use.
Qed.
Lemma nokill_erase_value v c : nokill c (cp_erase_value v c).
Proof.
  unfold cp_erase_value. apply nokill_fold. intros c0 u _.
  eapply nokill_trans; [apply nokill_set_operand|]. apply nokill_ops_eq, ops_remove_use.
Qed.
Lemma nokill_rauw_if v t p c : nokill c (cp_rauw_if v t p c).
Proof.
  unfold cp_rauw_if. apply nokill_fold. intros c0 u _.
  destruct (eval_upred p u); [apply nokill_move_use | apply nokill_refl].
Qed.
Lemma nokill_erase_arg v c : nokill c (cp_erase_arg v c).
Proof.
  unfold cp_erase_arg. destruct (aget (c_vals c) v) as [r|]; [|apply nokill_refl].
  destruct (v_owner r) as [o|b]; [apply nokill_refl|].
  eapply nokill_trans; [apply nokill_ops_eq, ops_upd_blk|]. apply nokill_erase_value.
Qed.
Lemma nokill_inline_block b ip args c : nokill c (cp_inline_block b ip args c).
Proof.
  unfold cp_inline_block. destruct (ip_target c ip) as [tgt|]; [|apply nokill_refl].
  set (c1 := fold_left (fun c av => cp_rauw (fst av) (snd av) c) (combine (g_bargs c b) args) c).
  assert (H1 : nokill c c1) by (apply nokill_fold; intros; apply nokill_rauw).
  set (c3 := place_ops (upd_blk c1 b (set_bops [])) (g_bops c1 b) tgt).
  assert (H3 : nokill c c3).
  { eapply nokill_trans; [exact H1|]. unfold c3.
    eapply nokill_trans; [apply nokill_ops_eq, ops_upd_blk|]. apply nokill_place_ops. }
  destruct (g_bparent c3 b); auto.
  eapply nokill_trans; [exact H3|]. apply nokill_ops_eq. rewrite ops_upd_blk, ops_upd_reg. reflexivity.
Qed.
Lemma nokill_bump o c : nokill c (cp_bump o c).
Proof.
  unfold cp_bump. destruct (aget (c_ops c) o) as [r|]; [|apply nokill_refl].
  destruct (o_dead r); [apply nokill_refl|]. apply nokill_upd_op. reflexivity.
Qed.

(* erase kills only op.walk() *)
Lemma erase_survive o1 c x :
  In x (g_alive c) -> ~ In x (g_subops c o1) -> In x (g_alive (cp_erase o1 c)).
Proof.
  intros Hx Hn. apply alive_info. apply alive_info in Hx. destruct Hx as [l Hx].
  exists l. rewrite (keeps_erase o1 c x Hn). exact Hx.
Qed.

Lemma leaf_walk c o x : g_has_regions c o = false -> In x (g_subops c o) -> x = o.
Proof.
  unfold g_has_regions, g_subops, fuel_of. intros H. simpl.
  destruct (g_regions c o); [|discriminate]. simpl. intros [E|[]]. auto.
Qed.

Theorem cir_struct_laws : StructLaws cir_sem cir_ip_ok.
Proof.
  split.
  - intros p c x Hx Hk. destruct p; simpl in *.
    + apply (proj1 (insert_alive news ip c)). exact Hx.
    + apply erase_survive; assumption.
    + apply nokill_rauw. exact Hx.
    + apply nokill_erase_value. exact Hx.
    + apply nokill_rauw_if. exact Hx.
    + apply (nokill_ops_eq c); [apply ops_upd_val | exact Hx].
    + apply (nokill_ops_eq c); [apply ops_insert_arg | exact Hx].
    + apply nokill_erase_arg. exact Hx.
    + apply nokill_inline_block. exact Hx.
    + apply (nokill_ops_eq c); [apply ops_move_region | exact Hx].
    + apply (nokill_ops_eq c); [apply ops_inline_region | exact Hx].
    + apply (nokill_ops_eq c); [apply ops_create_block | exact Hx].
    + apply nokill_bump. exact Hx.
  - exact leaf_walk.
  - intros news ip c n Hip Hn. apply (proj2 (insert_alive news ip c)); assumption.
Qed.
