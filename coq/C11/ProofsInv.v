(* C11/ProofsInv.v -- use-def consistency of the heap model: the invariant
     U  every use names a live user,   K  a use (s,i) of v means operand i of s is v,   N  use lists have no duplicates
   is preserved by the primitives of C11/IR.v (the users half of Proofs.InvLaws). *)
From Coq Require Import List Arith Bool ZArith Lia.
From XV Require Import C11.Model C11.IR C11.Proofs C11.ProofsEv C11.ProofsLive.
Import ListNotations.

Record UInv (c : cir) : Prop := {
  ui_U : forall v u, In u (g_uses c v) -> In (fst u) (g_alive c);
  ui_K : forall v s i, In (s, i) (g_uses c v) -> nth_error (g_operands c s) i = Some (OVal v);
  ui_N : forall v, NoDup (g_uses c v)
}.

(* ---------- steps that change neither operands nor liveness, and only shrink / permute use lists ---------- *)
Definition uses_shrink (c c' : cir) : Prop :=
  forall v, (forall u, In u (g_uses c' v) -> In u (g_uses c v)) /\ (NoDup (g_uses c v) -> NoDup (g_uses c' v)).

Lemma uinv_shrink c c' :
  (forall o, g_operands c' o = g_operands c o) -> nokill c c' -> uses_shrink c c' -> UInv c -> UInv c'.
Proof.
  intros Ho Hk Hs [U K N]. split.
  - intros v u Hu. apply Hk. apply (U v). apply (Hs v). exact Hu.
  - intros v s i Hu. rewrite Ho. apply K. apply (Hs v). exact Hu.
  - intros v. apply (Hs v). apply N.
Qed.

Lemma operands_ops_eq c c' : c_ops c' = c_ops c -> forall o, g_operands c' o = g_operands c o.
Proof. intros E o. unfold g_operands. rewrite E. reflexivity. Qed.
Lemma uses_vals_eq c c' : c_vals c' = c_vals c -> uses_shrink c c'.
Proof. intros E v. unfold g_uses. rewrite E. split; auto. Qed.

Lemma vals_upd_blk c b f : c_vals (upd_blk c b f) = c_vals c.
Proof. unfold upd_blk. destruct (aget (c_blks c) b); reflexivity. Qed.
Lemma vals_upd_reg c g f : c_vals (upd_reg c g f) = c_vals c.
Proof. unfold upd_reg. destruct (aget (c_regs c) g); reflexivity. Qed.
Lemma vals_upd_op c o f : c_vals (upd_op c o f) = c_vals c.
Proof. unfold upd_op. destruct (aget (c_ops c) o); reflexivity. Qed.
Lemma vals_fold {A} (step : cir -> A -> cir) (l : list A) :
  (forall c x, c_vals (step c x) = c_vals c) -> forall c, c_vals (fold_left step l c) = c_vals c.
Proof. induction l as [|x l IH]; simpl; intros H c; auto. rewrite IH; auto. Qed.
Lemma vals_place_blocks c bs tgt : c_vals (place_blocks c bs tgt) = c_vals c.
Proof.
  unfold place_blocks. destruct tgt as [g before].
  rewrite vals_fold; [apply vals_upd_reg|]. intros; apply vals_upd_blk.
Qed.

Lemma uses_shrink_refl c : uses_shrink c c.
Proof. intros v; split; auto. Qed.
Lemma uses_shrink_trans c c1 c2 : uses_shrink c c1 -> uses_shrink c1 c2 -> uses_shrink c c2.
Proof.
  intros H1 H2 v. destruct (H1 v) as [A1 B1]. destruct (H2 v) as [A2 B2]. split; auto.
Qed.

(* allocating values: a (possibly overwritten) value record starts with no uses *)
Lemma uses_alloc_vals tys : forall c ow, uses_shrink c (fst (alloc_vals c ow tys)).
Proof.
  induction tys as [|t r IH]; simpl; intros c ow; [apply uses_shrink_refl|].
  set (c1 := with_next (with_vals c (aset (c_vals c) (c_next c) {| v_type := t; v_owner := ow; v_uses := [] |})) (S (c_next c))).
  specialize (IH c1 ow). destruct (alloc_vals c1 ow r) as [c2 vs]. simpl in *.
  eapply uses_shrink_trans; [|exact IH].
  intros v. unfold g_uses, c1. simpl. rewrite aget_aset.
  destruct (Nat.eqb v (c_next c)); simpl; split; auto; try (intros u []); intros; constructor.
Qed.

(* ---------- the primitives that touch neither operands nor use lists (beyond allocation) ---------- *)
Lemma uinv_move_region o k c : UInv c -> UInv (cp_move_region o k c).
Proof.
  apply uinv_shrink.
  - apply operands_ops_eq, ops_move_region.
  - apply nokill_ops_eq, ops_move_region.
  - apply uses_vals_eq. unfold cp_move_region. destruct (nth_error (g_regions c o) k); auto.
    simpl. rewrite vals_fold; [|intros; apply vals_upd_blk]. rewrite !vals_upd_reg. reflexivity.
Qed.
Lemma uinv_inline_region o k bp c : UInv c -> UInv (cp_inline_region o k bp c).
Proof.
  apply uinv_shrink.
  - apply operands_ops_eq, ops_inline_region.
  - apply nokill_ops_eq, ops_inline_region.
  - apply uses_vals_eq. unfold cp_inline_region. destruct (nth_error (g_regions c o) k); auto.
    destruct (bp_target c bp); auto. rewrite vals_place_blocks, vals_upd_reg. reflexivity.
Qed.
Lemma uses_mk_block c id tys : uses_shrink c (mk_block c id tys).
Proof.
  unfold mk_block. pose proof (uses_alloc_vals tys c (VOBlock id)) as H.
  destruct (alloc_vals c (VOBlock id) tys) as [c1 vs]. simpl in H.
  eapply uses_shrink_trans; [exact H|]. apply uses_vals_eq. reflexivity.
Qed.
Lemma uinv_create_block id bp tys c : UInv c -> UInv (cp_create_block id bp tys c).
Proof.
  apply uinv_shrink.
  - apply operands_ops_eq, ops_create_block.
  - apply nokill_ops_eq, ops_create_block.
  - unfold cp_create_block. destruct (bp_target c bp); [|apply uses_shrink_refl].
    eapply uses_shrink_trans; [apply uses_mk_block|]. apply uses_vals_eq, vals_place_blocks.
Qed.
Lemma uinv_insert_arg b idx ty c : UInv c -> UInv (cp_insert_arg b idx ty c).
Proof.
  apply uinv_shrink.
  - apply operands_ops_eq, ops_insert_arg.
  - apply nokill_ops_eq, ops_insert_arg.
  - unfold cp_insert_arg. pose proof (uses_alloc_vals [ty] c (VOBlock b)) as H.
    destruct (alloc_vals c (VOBlock b) [ty]) as [c1 vs]. simpl in H.
    eapply uses_shrink_trans; [exact H|]. apply uses_vals_eq, vals_upd_blk.
Qed.
Lemma operands_upd_op_pres c k f :
  (forall r, o_operands (f r) = o_operands r) -> forall o, g_operands (upd_op c k f) o = g_operands c o.
Proof.
  intros Hf o. unfold g_operands, upd_op. destruct (aget (c_ops c) k) as [r|] eqn:E; auto.
  simpl. rewrite aget_aset. destruct (Nat.eqb o k) eqn:Eo; auto.
  apply Nat.eqb_eq in Eo. subst. rewrite E, Hf. reflexivity.
Qed.
Lemma uinv_bump o c : UInv c -> UInv (cp_bump o c).
Proof.
  apply uinv_shrink.
  - intros x. unfold cp_bump. destruct (aget (c_ops c) o) as [r|]; auto. destruct (o_dead r); auto.
    apply operands_upd_op_pres. reflexivity.
  - apply nokill_bump.
  - apply uses_vals_eq. unfold cp_bump. destruct (aget (c_ops c) o) as [r|]; auto. destruct (o_dead r); auto.
    apply vals_upd_op.
Qed.
Lemma uinv_retype v ty c : UInv c -> UInv (cp_retype v ty c).
Proof.
  apply uinv_shrink.
  - apply operands_ops_eq, ops_upd_val.
  - apply nokill_ops_eq, ops_upd_val.
  - intros w. unfold cp_retype, upd_val, g_uses. destruct (aget (c_vals c) v) as [r|] eqn:E; [|split; auto].
    simpl. rewrite aget_aset. destruct (Nat.eqb w v) eqn:Ew; [|split; auto].
    apply Nat.eqb_eq in Ew. subst. rewrite E. simpl. split.
    + intros u Hu. apply in_rev. exact Hu.
    + apply NoDup_rev.
Qed.

(* ---------- use lists and operand lists under the elementary updates ---------- *)
Lemma use_eqb_eq a b : use_eqb a b = true <-> a = b.
Proof.
  unfold use_eqb. rewrite andb_true_iff, !Nat.eqb_eq. destruct a, b; simpl. split.
  - intros [-> ->]. reflexivity.
  - intros H. inversion H. auto.
Qed.
Lemma remove_use_l_in u l x : In x (remove_use_l u l) -> In x l.
Proof.
  induction l as [|y l IH]; simpl; auto. destruct (use_eqb u y); simpl; auto.
  intros [H|H]; auto.
Qed.
Lemma remove_use_l_keep u l x : In x l -> x <> u -> In x (remove_use_l u l).
Proof.
  induction l as [|y l IH]; simpl; auto. intros [->|H] Hne.
  - destruct (use_eqb u x) eqn:E; [apply use_eqb_eq in E; congruence | left; reflexivity].
  - destruct (use_eqb u y); [exact H | right; auto].
Qed.
Lemma remove_use_l_nodup u l : NoDup l -> NoDup (remove_use_l u l) /\ ~ In u (remove_use_l u l).
Proof.
  induction l as [|y l IH]; simpl; intros H; [split; [constructor | intros []]|].
  inversion H; subst. destruct (IH H3) as [A B].
  destruct (use_eqb u y) eqn:E.
  - apply use_eqb_eq in E. subst. auto.
  - split.
    + constructor; auto. intro Hy. apply H2. eapply remove_use_l_in; eauto.
    + intros [Hy|Hy]; [subst; rewrite (proj2 (use_eqb_eq u u) eq_refl) in E; discriminate | auto].
Qed.

Lemma uses_upd_val c v f w :
  g_uses (upd_val c v f) w =
  if Nat.eqb w v then match aget (c_vals c) v with Some r => v_uses (f r) | None => [] end else g_uses c w.
Proof.
  unfold upd_val, g_uses. destruct (aget (c_vals c) v) as [r|] eqn:E; simpl.
  - rewrite aget_aset. destruct (Nat.eqb w v); reflexivity.
  - destruct (Nat.eqb w v) eqn:Ew; auto. apply Nat.eqb_eq in Ew. subst. rewrite E. reflexivity.
Qed.
Lemma uses_remove_use c v u w :
  g_uses (remove_use c v u) w = if Nat.eqb w v then remove_use_l u (g_uses c v) else g_uses c w.
Proof.
  unfold remove_use. rewrite uses_upd_val. unfold g_uses.
  destruct (Nat.eqb w v); auto. destruct (aget (c_vals c) v); reflexivity.
Qed.
Lemma uses_add_use_in c t u w x :
  In x (g_uses (add_use c t u) w) -> (w = t /\ x = u) \/ In x (g_uses c w).
Proof.
  unfold add_use. rewrite uses_upd_val. destruct (Nat.eqb w t) eqn:E; auto.
  apply Nat.eqb_eq in E. subst. unfold g_uses. destruct (aget (c_vals c) t); simpl; [|intros []].
  intros [<-|H]; auto.
Qed.
Lemma uses_add_use_nodup c t u w :
  NoDup (g_uses c w) -> (w = t -> ~ In u (g_uses c t)) -> NoDup (g_uses (add_use c t u) w).
Proof.
  intros Hn Hu. unfold add_use. rewrite uses_upd_val. destruct (Nat.eqb w t) eqn:E; auto.
  apply Nat.eqb_eq in E. subst. unfold g_uses in *. destruct (aget (c_vals c) t); simpl; [|constructor].
  constructor; auto.
Qed.
Lemma uses_set_operand' c u x w : g_uses (set_operand c u x) w = g_uses c w.
Proof. apply uses_set_operand. Qed.

Lemma operands_set_operand c u x o :
  g_operands (set_operand c u x) o =
  if Nat.eqb o (fst u) then set_nth (snd u) x (g_operands c (fst u)) else g_operands c o.
Proof.
  unfold set_operand, upd_op, g_operands. destruct (aget (c_ops c) (fst u)) as [r|] eqn:E; simpl.
  - rewrite aget_aset. destruct (Nat.eqb o (fst u)); reflexivity.
  - destruct (Nat.eqb o (fst u)) eqn:Eo; auto. apply Nat.eqb_eq in Eo. subst. rewrite E.
    destruct (snd u); reflexivity.
Qed.
Lemma nth_error_set_nth {A} (l : list A) : forall i x j,
  nth_error (set_nth i x l) j =
  if Nat.eqb j i then (match nth_error l i with Some _ => Some x | None => None end) else nth_error l j.
Proof.
  induction l as [|y l IH]; intros i x j.
  - simpl. destruct i, j; simpl; auto; try (destruct (Nat.eqb j i); reflexivity).
  - destruct i, j; simpl; auto.
Qed.
Lemma operands_remove_use c v u o : g_operands (remove_use c v u) o = g_operands c o.
Proof. apply operands_ops_eq, ops_remove_use. Qed.
Lemma operands_add_use c v u o : g_operands (add_use c v u) o = g_operands c o.
Proof. apply operands_ops_eq, ops_add_use. Qed.

(* ---------- one `use.operation.operands[use.index] = t` ---------- *)
Lemma uinv_move_use v t c u :
  v <> t -> In u (g_uses c v) -> UInv c ->
  UInv (move_use v t c u) /\
  (forall w, w <> t -> g_uses (move_use v t c u) w = if Nat.eqb w v then remove_use_l u (g_uses c v) else g_uses c w).
Proof.
  intros Hvt Hu [U K N]. destruct u as [s0 i0].
  pose proof (K v s0 i0 Hu) as Ku.
  assert (Huses : forall w x, In x (g_uses (move_use v t c (s0, i0)) w) ->
                  (w = t /\ x = (s0, i0)) \/
                  (w = v /\ In x (g_uses c v) /\ x <> (s0, i0)) \/
                  (w <> v /\ In x (g_uses c w))).
  { intros w x Hx. unfold move_use in Hx. apply uses_add_use_in in Hx. destruct Hx as [Hx|Hx]; [left; exact Hx|].
    rewrite uses_remove_use, !uses_set_operand in Hx. destruct (Nat.eqb w v) eqn:E.
    - apply Nat.eqb_eq in E. subst. right. left. split; auto. split; [eapply remove_use_l_in; eauto|].
      intros ->. apply (proj2 (remove_use_l_nodup (s0, i0) _ (N v))). exact Hx.
    - apply Nat.eqb_neq in E. right. right. split; assumption. }
  assert (Hops : forall s i, (s, i) <> (s0, i0) ->
                 nth_error (g_operands (move_use v t c (s0, i0)) s) i = nth_error (g_operands c s) i).
  { intros s i Hne. unfold move_use. rewrite operands_add_use, operands_remove_use, operands_set_operand. simpl.
    destruct (Nat.eqb s s0) eqn:E; auto. apply Nat.eqb_eq in E. subst.
    rewrite nth_error_set_nth. destruct (Nat.eqb i i0) eqn:Ei; auto.
    apply Nat.eqb_eq in Ei. subst. congruence. }
  split; [split|].
  - intros w x Hx. apply nokill_move_use. destruct (Huses w x Hx) as [[_ ->]|[(_ & H & _)|[_ H]]].
    + apply (U v). exact Hu.
    + apply (U v). exact H.
    + apply (U w). exact H.
  - intros w s i Hx. destruct (Huses w (s, i) Hx) as [[-> E]|[(-> & H & Hne)|[Hne H]]].
    + inversion E; subst. unfold move_use. rewrite operands_add_use, operands_remove_use, operands_set_operand.
      simpl. rewrite Nat.eqb_refl, nth_error_set_nth, Nat.eqb_refl, Ku. reflexivity.
    + rewrite Hops; auto.
    + rewrite Hops; [apply K; exact H|]. intros E. inversion E; subst.
      rewrite (K w s0 i0 H) in Ku. inversion Ku. congruence.
  - intros w. unfold move_use. apply uses_add_use_nodup.
    + rewrite uses_remove_use, !uses_set_operand. destruct (Nat.eqb w v); [apply remove_use_l_nodup|]; apply N.
    + intros ->. rewrite uses_remove_use, !uses_set_operand.
      destruct (Nat.eqb t v) eqn:E; [apply Nat.eqb_eq in E; congruence|].
      intros H. rewrite (K t s0 i0 H) in Ku. inversion Ku. congruence.
  - intros w Hw. unfold move_use, add_use. rewrite uses_upd_val.
    destruct (Nat.eqb w t) eqn:E; [apply Nat.eqb_eq in E; congruence|].
    rewrite uses_remove_use, !uses_set_operand. reflexivity.
Qed.

(* the loops `for use in tuple(self.uses)` *)
Lemma uinv_move_fold v t (sel : op * nat -> bool) : v <> t -> forall l c,
  NoDup l -> (forall u, In u l -> In u (g_uses c v)) -> UInv c ->
  UInv (fold_left (fun c u => if sel u then move_use v t c u else c) l c).
Proof.
  intros Hvt. induction l as [|u l IH]; simpl; intros c Hn Hl Hi; auto.
  inversion Hn; subst. destruct (sel u).
  - destruct (uinv_move_use v t c u Hvt (Hl u (or_introl eq_refl)) Hi) as [Hi' Hu'].
    apply IH; auto. intros x Hx. rewrite Hu'; auto. rewrite Nat.eqb_refl.
    apply remove_use_l_keep; auto. intros ->. contradiction.
  - apply IH; auto.
Qed.

Lemma uinv_rauw v t c : UInv c -> UInv (cp_rauw v t c).
Proof.
  intros Hi. unfold cp_rauw. destruct (Nat.eqb v t) eqn:E; auto. apply Nat.eqb_neq in E.
  apply (uinv_move_fold v t (fun _ => true) E); auto. apply (ui_N c Hi).
Qed.
Lemma uinv_rauw_if v t p c : v <> t -> UInv c -> UInv (cp_rauw_if v t p c).
Proof.
  intros E Hi. unfold cp_rauw_if. apply (uinv_move_fold v t (eval_upred p) E); auto. apply (ui_N c Hi).
Qed.

(* ---------- SSAValue.erase: uses := ErasedSSAValue ---------- *)
Lemma uinv_erase_step v c u :
  In u (g_uses c v) -> UInv c ->
  UInv (remove_use (set_operand c u OErased) v u) /\
  (forall w, g_uses (remove_use (set_operand c u OErased) v u) w =
             if Nat.eqb w v then remove_use_l u (g_uses c v) else g_uses c w).
Proof.
  intros Hu [U K N]. destruct u as [s0 i0].
  assert (Huses : forall w, g_uses (remove_use (set_operand c (s0, i0) OErased) v (s0, i0)) w =
                            if Nat.eqb w v then remove_use_l (s0, i0) (g_uses c v) else g_uses c w).
  { intros w. rewrite uses_remove_use, !uses_set_operand. reflexivity. }
  split; [split|exact Huses].
  - intros w x Hx. rewrite Huses in Hx.
    eapply nokill_trans; [apply nokill_set_operand | apply nokill_ops_eq, ops_remove_use|].
    destruct (Nat.eqb w v) eqn:E.
    + apply Nat.eqb_eq in E. subst. apply (U v). eapply remove_use_l_in; eauto.
    + apply (U w). exact Hx.
  - intros w s i Hx. rewrite Huses in Hx.
    assert (Hne : (s, i) <> (s0, i0)).
    { intros E. inversion E; subst. destruct (Nat.eqb w v) eqn:Ew.
      - apply Nat.eqb_eq in Ew. subst. apply (proj2 (remove_use_l_nodup (s0, i0) _ (N v))). exact Hx.
      - apply Nat.eqb_neq in Ew. pose proof (K w s0 i0 Hx) as A. pose proof (K v s0 i0 Hu) as B.
        rewrite A in B. inversion B. congruence. }
    rewrite operands_remove_use, operands_set_operand. simpl.
    assert (Hold : nth_error (g_operands c s) i = Some (OVal w)).
    { destruct (Nat.eqb w v) eqn:Ew; [apply Nat.eqb_eq in Ew; subst; apply K; eapply remove_use_l_in; eauto | apply K; exact Hx]. }
    destruct (Nat.eqb s s0) eqn:Es; auto. apply Nat.eqb_eq in Es. subst.
    rewrite nth_error_set_nth. destruct (Nat.eqb i i0) eqn:Ei; auto.
    apply Nat.eqb_eq in Ei. subst. congruence.
  - intros w. rewrite Huses. destruct (Nat.eqb w v); [apply remove_use_l_nodup|]; apply N.
Qed.

Lemma uinv_erase_value v c : UInv c -> UInv (cp_erase_value v c).
Proof.
  intros Hi. unfold cp_erase_value.
  assert (G : forall l c0, NoDup l -> (forall u, In u l -> In u (g_uses c0 v)) -> UInv c0 ->
              UInv (fold_left (fun c u => remove_use (set_operand c u OErased) v u) l c0)).
  { induction l as [|u l IH]; simpl; intros c0 Hn Hl Hi0; auto.
    inversion Hn; subst.
    destruct (uinv_erase_step v c0 u (Hl u (or_introl eq_refl)) Hi0) as [Hi' Hu'].
    apply IH; auto. intros x Hx. rewrite Hu', Nat.eqb_refl.
    apply remove_use_l_keep; auto. intros ->. contradiction. }
  apply G; auto. apply (ui_N c Hi).
Qed.

(* ---------- steps that leave operands and use lists alone ---------- *)
Lemma uinv_neutral c c' :
  (forall o, g_operands c' o = g_operands c o) -> nokill c c' -> c_vals c' = c_vals c -> UInv c -> UInv c'.
Proof. intros Ho Hk Hv. apply uinv_shrink; auto. apply uses_vals_eq. exact Hv. Qed.

Lemma uinv_upd_blk c b f : UInv c -> UInv (upd_blk c b f).
Proof.
  apply uinv_neutral; [apply operands_ops_eq, ops_upd_blk | apply nokill_ops_eq, ops_upd_blk | apply vals_upd_blk].
Qed.
Lemma uinv_upd_reg c g f : UInv c -> UInv (upd_reg c g f).
Proof.
  apply uinv_neutral; [apply operands_ops_eq, ops_upd_reg | apply nokill_ops_eq, ops_upd_reg | apply vals_upd_reg].
Qed.
Lemma uinv_upd_op_pres c k f :
  (forall r, o_operands (f r) = o_operands r) -> (forall r, o_dead (f r) = o_dead r) -> UInv c -> UInv (upd_op c k f).
Proof.
  intros H1 H2. apply uinv_neutral; [apply operands_upd_op_pres; auto | apply nokill_upd_op; auto | apply vals_upd_op].
Qed.
Lemma uinv_fold {A} (step : cir -> A -> cir) (l : list A) :
  (forall c x, UInv c -> UInv (step c x)) -> forall c, UInv c -> UInv (fold_left step l c).
Proof. induction l as [|x l IH]; simpl; intros H c Hc; auto. Qed.
Lemma uinv_place_ops c os tgt : UInv c -> UInv (place_ops c os tgt).
Proof.
  intros Hi. unfold place_ops. destruct tgt as [b before].
  apply uinv_fold; [|apply uinv_upd_blk; exact Hi].
  intros c0 x H0. apply uinv_upd_op_pres; auto.
Qed.

Lemma uinv_erase_arg v c : UInv c -> UInv (cp_erase_arg v c).
Proof.
  intros Hi. unfold cp_erase_arg. destruct (aget (c_vals c) v) as [r|]; auto.
  destruct (v_owner r) as [o|b]; auto. apply uinv_erase_value. apply uinv_upd_blk. exact Hi.
Qed.

Lemma uinv_inline_block b ip args c : UInv c -> UInv (cp_inline_block b ip args c).
Proof.
  intros Hi. unfold cp_inline_block. destruct (ip_target c ip) as [tgt|]; auto.
  set (c1 := fold_left (fun c av => cp_rauw (fst av) (snd av) c) (combine (g_bargs c b) args) c).
  assert (H1 : UInv c1) by (apply uinv_fold; auto; intros; apply uinv_rauw; auto).
  set (c3 := place_ops (upd_blk c1 b (set_bops [])) (g_bops c1 b) tgt).
  assert (H3 : UInv c3) by (apply uinv_place_ops, uinv_upd_blk; exact H1).
  destruct (g_bparent c3 b); auto. apply uinv_upd_blk, uinv_upd_reg. exact H3.
Qed.

(* ---------- erase: drop_all_references removes every use held by the erased operations ---------- *)
Definition KN (c : cir) : Prop :=
  (forall v s i, In (s, i) (g_uses c v) -> nth_error (g_operands c s) i = Some (OVal v)) /\
  (forall v, NoDup (g_uses c v)).

Lemma kn_shrink c c' :
  (forall o, g_operands c' o = g_operands c o) -> uses_shrink c c' -> KN c -> KN c'.
Proof.
  intros Ho Hs [K N]. split.
  - intros v s i H. rewrite Ho. apply K. apply (Hs v). exact H.
  - intros v. apply (Hs v). apply N.
Qed.

Lemma uses_shrink_remove_use c v u : uses_shrink c (remove_use c v u).
Proof.
  intros w. rewrite uses_remove_use. destruct (Nat.eqb w v) eqn:E; [|split; auto].
  apply Nat.eqb_eq in E. subst. split.
  - intros x. apply remove_use_l_in.
  - intros H. apply remove_use_l_nodup. exact H.
Qed.

(* the inner loop over the operands of s, starting at index k *)
Definition drop_from (s : op) (l : list operand) (k : nat) (c : cir) : cir :=
  fst (fold_left (fun (acc : cir * nat) (x : operand) =>
                    let '(c, i) := acc in
                    (match x with OVal v => remove_use c v (s, i) | OErased => c end, S i)) l (c, k)).

Lemma drop_from_cons s x l k c :
  drop_from s (x :: l) k c =
  drop_from s l (S k) (match x with OVal v => remove_use c v (s, k) | OErased => c end).
Proof. reflexivity. Qed.

Lemma drop_from_shrink s l : forall k c,
  uses_shrink c (drop_from s l k c) /\ c_ops (drop_from s l k c) = c_ops c.
Proof.
  induction l as [|x l IH]; intros k c.
  - split; [apply uses_shrink_refl | reflexivity].
  - rewrite drop_from_cons. destruct (IH (S k) (match x with OVal v => remove_use c v (s, k) | OErased => c end)) as [A B].
    split.
    + eapply uses_shrink_trans; [|exact A]. destruct x; [apply uses_shrink_remove_use | apply uses_shrink_refl].
    + rewrite B. destruct x; [apply ops_remove_use | reflexivity].
Qed.

Lemma drop_from_removes s l : forall k c j w,
  (forall v, NoDup (g_uses c v)) -> nth_error l j = Some (OVal w) ->
  ~ In (s, k + j) (g_uses (drop_from s l k c) w).
Proof.
  induction l as [|x l IH]; intros k c j w Hn Hj; [destruct j; discriminate|].
  rewrite drop_from_cons. destruct j as [|j]; simpl in Hj.
  - inversion Hj; subst. rewrite Nat.add_0_r. intros H.
    apply (proj1 (proj1 (drop_from_shrink s l (S k) (remove_use c w (s, k))) w)) in H.
    rewrite uses_remove_use, Nat.eqb_refl in H.
    apply (proj2 (remove_use_l_nodup (s, k) _ (Hn w))). exact H.
  - replace (k + S j) with (S k + j) by lia. apply IH; auto.
    intros v. destruct x; [|apply Hn]. apply (uses_shrink_remove_use c v0 (s, k) v). apply Hn.
Qed.

Lemma drop_operand_uses_eq c s : drop_operand_uses c s = drop_from s (g_operands c s) 0 c.
Proof. reflexivity. Qed.

Lemma drop_fold subs : forall c, KN c ->
  let cf := fold_left drop_operand_uses subs c in
  uses_shrink c cf /\ c_ops cf = c_ops c /\
  forall s w i, In s subs -> ~ In (s, i) (g_uses cf w).
Proof.
  induction subs as [|s subs IH]; simpl; intros c Hkn.
  - split; [apply uses_shrink_refl|]. split; [reflexivity|]. intros s w i [].
  - rewrite drop_operand_uses_eq.
    destruct (drop_from_shrink s (g_operands c s) 0 c) as [A B].
    assert (Hkn' : KN (drop_from s (g_operands c s) 0 c)).
    { eapply kn_shrink; [apply operands_ops_eq; exact B | exact A | exact Hkn]. }
    destruct (IH _ Hkn') as (A' & B' & C').
    split; [eapply uses_shrink_trans; eauto|]. split; [congruence|].
    intros s' w i [<-|Hs'] Hin; [|eapply C'; eauto].
    apply (proj1 (A' w)) in Hin.
    pose proof (proj1 (A w) _ Hin) as Hc. apply (proj1 Hkn) in Hc.
    apply (drop_from_removes s (g_operands c s) 0 c i w (proj2 Hkn) Hc). exact Hin.
Qed.

Lemma operands_fold_set_dead l : forall c o,
  g_operands (fold_left (fun c s => upd_op c s set_dead) l c) o = g_operands c o.
Proof.
  induction l as [|s l IH]; simpl; intros c o; auto.
  rewrite IH. apply operands_upd_op_pres. intros r; reflexivity.
Qed.

Lemma uinv_erase o1 c : UInv c -> UInv (cp_erase o1 c).
Proof.
  intros [U K N]. unfold cp_erase. set (subs := g_subops c o1).
  set (c1 := match g_parent c o1 with
             | Some b => upd_blk c b (fun r => set_bops (remove1 o1 (b_ops r)) r)
             | None => c end).
  assert (Hc1 : c_ops c1 = c_ops c /\ c_vals c1 = c_vals c).
  { unfold c1. destruct (g_parent c o1); [split; [apply ops_upd_blk | apply vals_upd_blk] | auto]. }
  destruct Hc1 as [Ho1 Hv1].
  assert (Hkn1 : KN c1).
  { eapply kn_shrink; [apply operands_ops_eq; exact Ho1 | apply uses_vals_eq; exact Hv1 | split; assumption]. }
  destruct (drop_fold subs c1 Hkn1) as (A & B & Cc). simpl in A, B, Cc.
  set (c2 := fold_left drop_operand_uses subs c1) in *.
  set (c3 := fold_left (fun c s => upd_op c s set_dead) subs c2).
  assert (Hv3 : c_vals c3 = c_vals c2) by (apply vals_fold; intros; apply vals_upd_op).
  assert (Ho3 : forall o, g_operands c3 o = g_operands c2 o) by (intros o; apply operands_fold_set_dead).
  assert (Huses : forall w x, In x (g_uses c3 w) -> In x (g_uses c w) /\ ~ In (fst x) subs).
  { intros w x Hx. unfold g_uses in Hx. rewrite Hv3 in Hx. fold (g_uses c2 w) in Hx. split.
    - apply (proj1 (A w)) in Hx. unfold g_uses in *. rewrite Hv1 in Hx. exact Hx.
    - destruct x as [s i]. simpl. intros Hs. exact (Cc s w i Hs Hx). }
  split.
  - intros w x Hx. destruct (Huses w x Hx) as [Hold Hns].
    apply (erase_survive o1 c); [apply (U w); exact Hold | exact Hns].
  - intros w s i Hx. destruct (Huses w (s, i) Hx) as [Hold _].
    rewrite Ho3. rewrite (operands_ops_eq c1 c2 B), (operands_ops_eq c c1 Ho1). apply K. exact Hold.
  - intros w. unfold g_uses. rewrite Hv3. fold (g_uses c2 w). apply (proj2 (A w)).
    unfold g_uses. rewrite Hv1. apply N.
Qed.

(* ---------- insert: creating operations with identifiers no use list mentions yet ---------- *)
Definition unmentioned (c : cir) (id : op) : Prop := forall v u, In u (g_uses c v) -> fst u <> id.
(* UF c ids: the invariant holds and the identifiers still to be created are unmentioned *)
Definition UF (c : cir) (ids : list op) : Prop := UInv c /\ forall id, In id ids -> unmentioned c id.

Lemma uf_neutral c c' ids :
  (forall o, g_operands c' o = g_operands c o) -> nokill c c' -> uses_shrink c c' -> UF c ids -> UF c' ids.
Proof.
  intros Ho Hk Hs [Hi Hf]. split; [eapply uinv_shrink; eauto|].
  intros id Hid v u Hu. apply (Hf id Hid v). apply (Hs v). exact Hu.
Qed.

Lemma uses_add_uses_from vs : forall c id k w u,
  In u (g_uses (add_uses_from c id k vs) w) ->
  In u (g_uses c w) \/ exists j, u = (id, k + j) /\ nth_error vs j = Some w.
Proof.
  induction vs as [|v r IH]; simpl; intros c id k w u H; auto.
  apply IH in H. destruct H as [H|(j & -> & Hj)].
  - apply uses_add_use_in in H. destruct H as [[-> ->]|H]; auto.
    right. exists 0. rewrite Nat.add_0_r. auto.
  - right. exists (S j). split; [f_equal; lia | exact Hj].
Qed.

Lemma nodup_add_uses_from vs : forall c id k,
  (forall w, NoDup (g_uses c w)) -> (forall w u, In u (g_uses c w) -> fst u = id -> snd u < k) ->
  forall w, NoDup (g_uses (add_uses_from c id k vs) w).
Proof.
  induction vs as [|v r IH]; simpl; intros c id k Hn Hlt; auto.
  apply IH.
  - intros w. apply uses_add_use_nodup; auto. intros -> Hin. apply Hlt in Hin; simpl in *; auto. lia.
  - intros w u Hu Hfu. apply uses_add_use_in in Hu. destruct Hu as [[_ ->]|Hu]; simpl; [lia|].
    specialize (Hlt w u Hu Hfu). lia.
Qed.

Lemma operands_mk_op c id pure st opers restys o :
  g_operands (mk_op c id pure st opers restys) o = if Nat.eqb o id then map OVal opers else g_operands c o.
Proof.
  rewrite !operands_info, info_mk_op. destruct (Nat.eqb o id); reflexivity.
Qed.

Lemma uses_mk_op c id pure st opers restys w u :
  In u (g_uses (mk_op c id pure st opers restys) w) -> In u (g_uses (add_uses_from c id 0 opers) w).
Proof.
  unfold mk_op. pose proof (uses_alloc_vals restys (add_uses_from c id 0 opers) (VOOp id)) as H.
  destruct (alloc_vals (add_uses_from c id 0 opers) (VOOp id) restys) as [c2 rs]. simpl in H.
  intros Hu. apply (proj1 (H w)). exact Hu.
Qed.
Lemma nodup_mk_op c id pure st opers restys w :
  NoDup (g_uses (add_uses_from c id 0 opers) w) -> NoDup (g_uses (mk_op c id pure st opers restys) w).
Proof.
  unfold mk_op. pose proof (uses_alloc_vals restys (add_uses_from c id 0 opers) (VOOp id)) as H.
  destruct (alloc_vals (add_uses_from c id 0 opers) (VOOp id) restys) as [c2 rs]. simpl in H.
  intros Hn. apply (proj2 (H w)). exact Hn.
Qed.

Lemma uf_mk_op c id pure st opers restys rest :
  ~ In id rest -> UF c (id :: rest) -> UF (mk_op c id pure st opers restys) rest.
Proof.
  intros Hnin [[U K N] Hf].
  assert (Hid : unmentioned c id) by (apply Hf; left; reflexivity).
  assert (Huses : forall w u, In u (g_uses (mk_op c id pure st opers restys) w) ->
                  In u (g_uses c w) \/ exists j, u = (id, j) /\ nth_error opers j = Some w).
  { intros w u Hu. apply uses_mk_op, uses_add_uses_from in Hu. exact Hu. }
  split; [split|].
  - intros w u Hu. destruct (Huses w u Hu) as [H|(j & -> & _)].
    + apply nokill_mk_op. apply (U w). exact H.
    + apply alive_mk_op.
  - intros w s i Hu. rewrite operands_mk_op. destruct (Huses w (s, i) Hu) as [H|(j & E & Hj)].
    + destruct (Nat.eqb s id) eqn:Es; [|apply K; exact H].
      apply Nat.eqb_eq in Es. subst. exfalso. exact (Hid w (id, i) H eq_refl).
    + inversion E; subst. rewrite Nat.eqb_refl. rewrite nth_error_map, Hj. reflexivity.
  - intros w. apply nodup_mk_op. apply nodup_add_uses_from; auto.
    intros w' u Hu Hfu. exfalso. exact (Hid w' u Hu Hfu).
  - intros id' Hid' w u Hu. destruct (Huses w u Hu) as [H|(j & -> & _)].
    + apply (Hf id' (or_intror Hid') w). exact H.
    + simpl. intros ->. contradiction.
Qed.

Lemma uf_upd_blk c b f ids : UF c ids -> UF (upd_blk c b f) ids.
Proof.
  apply uf_neutral; [apply operands_ops_eq, ops_upd_blk | apply nokill_ops_eq, ops_upd_blk |
                     apply uses_vals_eq, vals_upd_blk].
Qed.
Lemma uf_upd_reg c g f ids : UF c ids -> UF (upd_reg c g f) ids.
Proof.
  apply uf_neutral; [apply operands_ops_eq, ops_upd_reg | apply nokill_ops_eq, ops_upd_reg |
                     apply uses_vals_eq, vals_upd_reg].
Qed.
Lemma uf_upd_op_pres c k f ids :
  (forall r, o_operands (f r) = o_operands r) -> (forall r, o_dead (f r) = o_dead r) -> UF c ids -> UF (upd_op c k f) ids.
Proof.
  intros H1 H2. apply uf_neutral; [apply operands_upd_op_pres; auto | apply nokill_upd_op; auto |
                                   apply uses_vals_eq, vals_upd_op].
Qed.
Lemma uf_fold {A} ids (step : cir -> A -> cir) (l : list A) :
  (forall c x, UF c ids -> UF (step c x) ids) -> forall c, UF c ids -> UF (fold_left step l c) ids.
Proof. induction l as [|x l IH]; simpl; intros H c Hc; auto. Qed.

Lemma uf_create_leaf c b l rest :
  ~ In (lf_id l) rest -> UF c (lf_id l :: rest) -> UF (create_leaf c b l) rest.
Proof.
  intros Hn H. unfold create_leaf, append_op.
  apply uf_upd_op_pres; auto. apply uf_upd_blk. apply uf_mk_op; auto.
Qed.

Lemma uf_leaves b body : forall c rest,
  NoDup (map lf_id body ++ rest) -> UF c (map lf_id body ++ rest) ->
  UF (fold_left (fun c l => create_leaf c b l) body c) rest.
Proof.
  induction body as [|l body IH]; simpl; intros c rest Hn H; auto.
  inversion Hn; subst. apply IH; auto. apply uf_create_leaf; auto.
Qed.

Lemma nodup_app_r {A} (a b : list A) : NoDup (a ++ b) -> NoDup b.
Proof. induction a as [|x a IH]; simpl; auto. intros H. inversion H; auto. Qed.

Definition blk_ids (nb : newblk) : list op := map lf_id (nb_body nb).
Lemma uf_create_blk c g nb rest :
  NoDup (blk_ids nb ++ rest) -> UF c (blk_ids nb ++ rest) -> UF (create_blk c g nb) rest.
Proof.
  intros Hn H. unfold create_blk, append_block.
  apply uf_upd_blk, uf_upd_reg. apply uf_leaves; auto.
  revert H. apply uf_neutral; [apply operands_ops_eq, ops_mk_block | apply nokill_ops_eq, ops_mk_block |
                               apply uses_mk_block].
Qed.
Lemma uf_blks g bs : forall c rest,
  NoDup (flat_map blk_ids bs ++ rest) -> UF c (flat_map blk_ids bs ++ rest) ->
  UF (fold_left (fun c nb => create_blk c g nb) bs c) rest.
Proof.
  induction bs as [|nb bs IH]; simpl; intros c rest Hn H; auto.
  rewrite <- app_assoc in Hn, H. apply IH.
  - apply nodup_app_r in Hn. exact Hn.
  - apply uf_create_blk; auto.
Qed.

Definition reg_ids (nr : newreg) : list op :=
  match nr with NRFresh bs => flat_map blk_ids bs | NRLimbo _ => [] end.
(* creation order: the ops of the new regions first, the op itself last *)
Definition create_ids (n : newop) : list op := flat_map reg_ids (no_regions n) ++ [no_id n].

Lemma uf_create_new limbo0 c n rest :
  NoDup (create_ids n ++ rest) -> UF c (create_ids n ++ rest) -> UF (create_new limbo0 c n) rest.
Proof.
  unfold create_new, create_ids.
  set (step := fun (acc : cir * list nat) (nr : newreg) =>
                 let '(c, gs) := acc in
                 match nr with
                 | NRFresh bs => let '(c1, g) := mk_region c None in
                                 (fold_left (fun c nb => create_blk c g nb) bs c1, gs ++ [g])
                 | NRLimbo k => (c, gs ++ [nth k limbo0 0])
                 end).
  assert (G : forall rs acc rest', NoDup (flat_map reg_ids rs ++ rest') ->
                UF (fst acc) (flat_map reg_ids rs ++ rest') -> UF (fst (fold_left step rs acc)) rest').
  { induction rs as [|nr rs IH]; simpl; intros acc rest' Hn H; auto.
    rewrite <- app_assoc in Hn, H. apply IH; [apply nodup_app_r in Hn; exact Hn|].
    destruct acc as [c0 gs]. simpl in *. destruct nr as [bs|k]; simpl in *; auto.
    apply uf_blks; auto. revert H. apply uf_neutral; auto using nokill_refl.
    - apply nokill_ops_eq. reflexivity.
    - apply uses_vals_eq. reflexivity. }
  intros Hn H. rewrite <- app_assoc in Hn, H. simpl in Hn, H.
  specialize (G (no_regions n) (c, []) (no_id n :: rest) Hn H).
  destruct (fold_left step (no_regions n) (c, [])) as [c1 gs]. simpl in G.
  unfold attach_regions. apply uf_fold; [intros; apply uf_upd_reg; auto|].
  apply uf_upd_op_pres; auto. apply uf_mk_op; auto.
  apply nodup_app_r in Hn. inversion Hn; auto.
Qed.

(* precondition of insert as far as use lists are concerned: the identifiers of the operations to be
   created are pairwise distinct and no use list mentions them (they are new) *)
Definition cir_ins_ok (c : cir) (news : list newop) : Prop :=
  NoDup (flat_map create_ids news) /\ forall id, In id (flat_map create_ids news) -> unmentioned c id.

Lemma uinv_insert news ip c : cir_ins_ok c news -> UInv c -> UInv (cp_insert news ip c).
Proof.
  intros [Hn Hf] Hi. unfold cp_insert. destruct (ip_target c ip) as [tgt|]; auto.
  set (limbo0 := c_limbo c).
  assert (G : forall l c0 rest, NoDup (flat_map create_ids l ++ rest) ->
                UF c0 (flat_map create_ids l ++ rest) -> UF (fold_left (create_new limbo0) l c0) rest).
  { induction l as [|n l IH]; simpl; intros c0 rest Hn0 H0; auto.
    rewrite <- app_assoc in Hn0, H0. apply IH; [apply nodup_app_r in Hn0; exact Hn0|].
    apply uf_create_new; auto. }
  assert (H0 : UF (fold_left (create_new limbo0) news c) []).
  { apply G; rewrite app_nil_r; [exact Hn | split; assumption]. }
  apply uinv_place_ops. destruct H0 as [H0 _]. revert H0.
  apply uinv_neutral; auto using nokill_refl. apply nokill_ops_eq. reflexivity.
Qed.

(* ---------- the users half of InvLaws, for all thirteen primitives ---------- *)
Lemma uinv_prim okp erase_ok p c :
  UInv c -> prim_side cir_sem cir_ins_ok okp erase_ok p c -> UInv (run_prim cir_sem p c).
Proof.
  intros Hi [_ Hs]. destruct p; simpl in *.
  - apply uinv_insert; assumption.
  - apply uinv_erase; assumption.
  - apply uinv_rauw; assumption.
  - apply uinv_erase_value; assumption.
  - apply uinv_rauw_if; assumption.
  - apply uinv_retype; assumption.
  - apply uinv_insert_arg; assumption.
  - apply uinv_erase_arg; assumption.
  - apply uinv_inline_block; assumption.
  - apply uinv_move_region; assumption.
  - apply uinv_inline_region; assumption.
  - apply uinv_create_block; assumption.
  - apply uinv_bump; assumption.
Qed.

(* InvLaws for the heap model, given any invariant `wfW` that takes care of the tree half
   (the region walk yields only live ops) for the primitives allowed by `okp` *)
Theorem cir_inv_laws okp erase_ok (wfW : cir -> Prop) :
  (forall p c, wfW c -> prim_side cir_sem cir_ins_ok okp erase_ok p c -> wfW (run_prim cir_sem p c)) ->
  (forall c rev rf o, wfW c -> In o (g_walk rev rf c) -> In o (g_alive c)) ->
  InvLaws cir_sem (fun c => UInv c /\ wfW c) cir_ins_ok okp erase_ok.
Proof.
  intros Hp Hw. split.
  - intros p c [Hi Hc] Hs. split; [eapply uinv_prim; eassumption | apply Hp; assumption].
  - intros c v u [Hi _] Hu. apply (ui_U c Hi v). exact Hu.
  - intros c rev rf o [_ Hc] Ho. apply (Hw c rev rf o Hc Ho).
Qed.
