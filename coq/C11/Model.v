(* C11/Model.v -- executable model of xdsl/pattern_rewriter.py:
     PatternRewriter (every rewriting method, has_done_action, listener events),
     PatternRewriteWalker (_populate_worklist, _process_worklist, rewrite_region, the four
     _handle_operation_* listener callbacks) and GreedyRewritePatternApplier.
   The IR itself is ABSTRACT here: a record `Sem` packs an IR content type `C`, the observers the
   driver reads (use lists, operands, results, nested operations, walk orders) and the primitive
   mutations of xdsl/rewriter.py / xdsl/ir/core.py.  The concrete instance that is run against the
   real code lives in C11/IR.v.  Definitions only; proofs are in C11/Proofs*.v. *)
From Coq Require Import List Arith Bool ZArith.
Import ListNotations.

(* ------------------------------------------------------------------ *)
(* Identifiers and the vocabulary of rewriter calls.                   *)
Definition op := nat.
Definition value := nat.
Definition block := nat.

Inductive operand := OVal (v : value) | OErased.      (* ErasedSSAValue *)

(* InsertPoint: IPDefault = the rewriter's own `insertion_point` field (argument None) *)
Inductive ipoint :=
  IPDefault | IPBefore (o : op) | IPAfter (o : op) | IPStart (b : block) | IPEnd (b : block).
(* BlockInsertPoint; regions are named (owner operation, index) *)
Inductive bpoint :=
  BPBefore (b : block) | BPAfter (b : block) | BPStart (o : op) (r : nat) | BPEnd (o : op) (r : nat).

(* operations created by a pattern: a new op may own new regions whose blocks hold new
   region-less operations, or adopt a region returned by move_region_contents_to_new_regions *)
Record leafop := { lf_id : op; lf_pure : bool; lf_operands : list value; lf_restys : list Z }.
Record newblk := { nb_id : block; nb_argtys : list Z; nb_body : list leafop }.
Inductive newreg := NRFresh (bs : list newblk) | NRLimbo (k : nat).
Record newop := { no_id : op; no_pure : bool; no_operands : list value; no_restys : list Z;
                  no_regions : list newreg }.

(* predicate argument of replace_uses_with_if (a function of the Use = (user, operand index)) *)
Inductive upred := UPUserIn (l : list op) | UPIndex (k : nat).
Definition eval_upred (p : upred) (u : op * nat) : bool :=
  match p with
  | UPUserIn l => existsb (Nat.eqb (fst u)) l
  | UPIndex k => Nat.eqb (snd u) k
  end.

(* One constructor per PatternRewriter method (deprecated aliases erase_op / replace_op /
   replace_matched_op / insert_op delegate to these). *)
Inductive action :=
| AInsert (news : list newop) (ip : ipoint)                       (* insert *)
| AErase (o : op)                                                 (* erase (safe_erase=True) *)
| ARauw (from : value) (to : option value)                        (* replace_all_uses_with *)
| ARauwIf (from to : value) (p : upred)                           (* replace_uses_with_if *)
| AReplace (o : op) (news : list newop) (res : option (list (option value)))   (* replace *)
| ARetype (v : value) (ty : Z)                                    (* replace_value_with_new_type *)
| AInsertArg (b : block) (idx : nat) (ty : Z)                     (* insert_block_argument *)
| AEraseArg (v : value)                                           (* erase_block_argument *)
| AInlineBlock (b : block) (ip : ipoint) (args : list value)      (* inline_block *)
| AMoveRegion (o : op) (r : nat)                                  (* move_region_contents_to_new_regions *)
| AInlineRegion (o : op) (r : nat) (bp : bpoint)                  (* inline_region *)
| ANotify (o : op)                                                (* notify_op_modified *)
| ACreateBlock (id : block) (bp : bpoint) (tys : list Z).         (* create_block *)

(* PatternRewriterListener / BuilderListener callbacks *)
Inductive event :=
| EInsert (o : op)                                  (* handle_operation_insertion *)
| ERemove (o : op)                                  (* handle_operation_removal *)
| EModify (o : op)                                  (* handle_operation_modification *)
| EReplace (o : op) (news : list (option value))    (* handle_operation_replacement *)
| EBlock (b : block).                               (* handle_block_creation *)

(* ------------------------------------------------------------------ *)
(* The IR as seen by the rewriter and the walker.                      *)
Record Sem := {
  C : Type;
  (* observers *)
  uses : C -> value -> list (op * nat);        (* value.uses, first_use first *)
  operands : C -> op -> list operand;          (* op.operands *)
  results : C -> op -> list value;             (* op.results *)
  owner_op : C -> value -> option op;          (* Some o iff the value is an OpResult of o *)
  def_parent : C -> value -> option op;        (* val.op, or val.block.parent_op() *)
  has_regions : C -> op -> bool;               (* bool(op.regions) *)
  subops : C -> op -> list op;                 (* list(op.walk()) *)
  walk : bool -> bool -> C -> list op;         (* region.walk(reverse=, region_first=) of the rewritten region *)
  alive : C -> list op;                        (* operations that have not been erased *)
  attached : C -> list op;                     (* operations reachable from the rewritten region's owner *)
  trivially_dead : C -> op -> bool;            (* dead_code_elimination.is_trivially_dead *)
  (* primitive mutations (xdsl/rewriter.py Rewriter.*, xdsl/ir/core.py) *)
  p_insert : list newop -> ipoint -> C -> C;   (* create the ops, Rewriter.insert_op *)
  p_erase : op -> C -> C;                      (* Rewriter.erase_op *)
  p_rauw : value -> value -> C -> C;           (* SSAValue.replace_all_uses_with *)
  p_erase_value : value -> C -> C;             (* SSAValue.erase: uses := ErasedSSAValue *)
  p_rauw_if : value -> value -> upred -> C -> C;   (* SSAValue.replace_uses_with_if *)
  p_retype : value -> Z -> C -> C;             (* Rewriter.replace_value_with_new_type *)
  p_insert_arg : block -> nat -> Z -> C -> C;  (* Block.insert_arg *)
  p_erase_arg : value -> C -> C;               (* Block.erase_arg *)
  p_inline_block : block -> ipoint -> list value -> C -> C;   (* Rewriter.inline_block *)
  p_move_region : op -> nat -> C -> C;         (* Rewriter.move_region_contents_to_new_regions *)
  p_inline_region : op -> nat -> bpoint -> C -> C;            (* Rewriter.inline_region *)
  p_create_block : block -> bpoint -> list Z -> C -> C;       (* Block(arg_types) + Rewriter.insert_block *)
  p_bump : op -> C -> C                        (* in-place attribute update done by a pattern itself *)
}.

(* rewriter fields that matter: has_done_action and the default insertion point *)
Record rw := { flag : bool; dip : ipoint }.
Definition set_flag (r : rw) : rw := {| flag := true; dip := dip r |}.
Definition real_ip (r : rw) (ip : ipoint) : ipoint :=
  match ip with IPDefault => dip r | _ => ip end.

Definition last_opt {A} (l : list A) : option A :=
  match rev l with [] => None | x :: _ => Some x end.

Section Driver.
Variable M : Sem.
Notation Ct := (C M).

(* a listener callback is invoked in some intermediate IR state: the trace keeps that state *)
Definition trace := list (event * Ct).
Definition xres := (Ct * rw * trace)%type.

(* ---- PatternRewriter methods, statement by statement ---- *)

(* insert: has_done_action = True; Builder.insert: `if not ops: return`; Rewriter.insert_op;
   then handle_operation_insertion per op *)
Definition x_insert (news : list newop) (ip : ipoint) (c : Ct) (r : rw) : xres :=
  let r1 := set_flag r in
  match news with
  | [] => (c, r1, [])
  | _ => let c1 := p_insert M news (real_ip r ip) c in
         (c1, r1, map (fun n => (EInsert (no_id n), c1)) news)
  end.

(* erase: flag; handle_operation_removal(op) BEFORE Rewriter.erase_op *)
Definition x_erase (o : op) (c : Ct) (r : rw) : xres :=
  (p_erase M o c, set_flag r, [(ERemove o, c)]).

(* replace_all_uses_with *)
Definition x_rauw (from : value) (to : option value) (c : Ct) (r : rw) : xres :=
  if match to with Some t => Nat.eqb from t | None => false end then (c, r, [])
  else
    let m := map fst (uses M c from) in
    let '(c1, r1) := match to with
                     | None => (p_erase_value M from c, set_flag r)
                     | Some t => (p_rauw M from t c, r)
                     end in
    let r2 := match m with [] => r1 | _ => set_flag r1 end in
    (c1, r2, map (fun o => (EModify o, c1)) m).

(* replace_uses_with_if (with the _TrackingPredicate) *)
Definition x_rauw_if (from to : value) (p : upred) (c : Ct) (r : rw) : xres :=
  if Nat.eqb from to then (c, r, [])
  else
    let m := map fst (filter (eval_upred p) (uses M c from)) in
    let c1 := p_rauw_if M from to p c in
    let r1 := match m with [] => r | _ => set_flag r end in
    (c1, r1, map (fun o => (EModify o, c1)) m).

Fixpoint x_rauw_all (prs : list (value * option value)) (c : Ct) (r : rw) : xres :=
  match prs with
  | [] => (c, r, [])
  | (old, new) :: rest =>
      let '(c1, r1, t1) := x_rauw old new c r in
      let '(c2, r2, t2) := x_rauw_all rest c1 r1 in
      (c2, r2, t1 ++ t2)
  end.

(* replace *)
Definition x_replace (o : op) (news : list newop) (res : option (list (option value)))
           (c : Ct) (r : rw) : xres :=
  let r0 := set_flag r in
  let '(c1, r1, t1) := x_insert news (IPBefore o) c r0 in
  let nres := match res with
              | Some l => l
              | None => match last_opt news with
                        | Some n => map Some (results M c1 (no_id n))
                        | None => []
                        end
              end in
  let '(c2, r2, t3) := x_rauw_all (combine (results M c1 o) nres) c1 r1 in
  let '(c3, r3, t4) := x_erase o c2 r2 in
  (c3, r3, t1 ++ [(EReplace o nres, c1)] ++ t3 ++ t4).

(* replace_value_with_new_type: flag; modification(val.op / parent op of the block) BEFORE the change *)
Definition x_retype (v : value) (ty : Z) (c : Ct) (r : rw) : xres :=
  (p_retype M v ty c, set_flag r,
   match def_parent M c v with Some p => [(EModify p, c)] | None => [] end).

Definition x_insert_arg (b : block) (idx : nat) (ty : Z) (c : Ct) (r : rw) : xres :=
  (p_insert_arg M b idx ty c, set_flag r, []).

(* erase_block_argument: flag; replace_all_uses_with(arg, None); block.erase_arg *)
Definition x_erase_arg (v : value) (c : Ct) (r : rw) : xres :=
  let '(c1, r1, t1) := x_rauw v None c (set_flag r) in
  (p_erase_arg M v c1, r1, t1).

(* inline_block / move_region_contents_to_new_regions / inline_region: flag, no listener call *)
Definition x_inline_block (b : block) (ip : ipoint) (args : list value) (c : Ct) (r : rw) : xres :=
  (p_inline_block M b (real_ip r ip) args c, set_flag r, []).
Definition x_move_region (o : op) (k : nat) (c : Ct) (r : rw) : xres :=
  (p_move_region M o k c, set_flag r, []).
Definition x_inline_region (o : op) (k : nat) (bp : bpoint) (c : Ct) (r : rw) : xres :=
  (p_inline_region M o k bp c, set_flag r, []).

Definition x_notify (o : op) (c : Ct) (r : rw) : xres := (c, set_flag r, [(EModify o, c)]).

(* Everything from here on is parameterised by `cbflag`: true = the current code, where
   PatternRewriter.create_block sets has_done_action before delegating to Builder.create_block
   (commit 5d0c2dd); false = the code before that commit (create_block inherited unchanged), kept
   for the recorded refutations. *)
Section Exec.
Variable cbflag : bool.

(* create_block: [has_done_action = True;] Builder.create_block: insert the block, move the default
   insertion point to its end, handle_block_creation *)
Definition x_create_block (id : block) (bp : bpoint) (tys : list Z) (c : Ct) (r : rw) : xres :=
  let c1 := p_create_block M id bp tys c in
  (c1, {| flag := cbflag || flag r; dip := IPEnd id |}, [(EBlock id, c1)]).

Definition exec (a : action) (c : Ct) (r : rw) : xres :=
  match a with
  | AInsert news ip => x_insert news ip c r
  | AErase o => x_erase o c r
  | ARauw from to => x_rauw from to c r
  | ARauwIf from to p => x_rauw_if from to p c r
  | AReplace o news res => x_replace o news res c r
  | ARetype v ty => x_retype v ty c r
  | AInsertArg b i ty => x_insert_arg b i ty c r
  | AEraseArg v => x_erase_arg v c r
  | AInlineBlock b ip args => x_inline_block b ip args c r
  | AMoveRegion o k => x_move_region o k c r
  | AInlineRegion o k bp => x_inline_region o k bp c r
  | ANotify o => x_notify o c r
  | ACreateBlock id bp tys => x_create_block id bp tys c r
  end.

(* `apply` and the rows of the action table *)
Definition apply (a : action) (c : Ct) (r : rw) : Ct := fst (fst (exec a c r)).
Definition sets_flag (a : action) (c : Ct) (r : rw) : bool := flag (snd (fst (exec a c r))).
Definition events_of (a : action) (c : Ct) (r : rw) : list event := map fst (snd (exec a c r)).

(* ------------------------------------------------------------------ *)
(* The worklist seen as a set-stack (this is C12's abstract worklist `aw`:
   C12_worklist_refines shows the real tombstone Worklist behaves like it).      *)
Definition wl := list op.
Definition wl_push (x : op) (w : wl) : wl := if existsb (Nat.eqb x) w then w else w ++ [x].
Definition wl_remove (x : op) (w : wl) : wl := filter (fun y => negb (Nat.eqb x y)) w.

(* ---- PatternRewriteWalker listener callbacks ---- *)
Definition one_use (c : Ct) (v : value) : bool :=
  match uses M c v with [_] => true | _ => false end.

(* _add_operands_to_worklist *)
Definition add_operands (c : Ct) (opers : list operand) (w : wl) : wl :=
  fold_left (fun w x => match x with
                        | OVal v => if one_use c v
                                    then match owner_op M c v with Some d => wl_push d w | None => w end
                                    else w
                        | OErased => w
                        end) opers w.

Definition handle (recur : bool) (e : event) (c : Ct) (w : wl) : wl :=
  match e with
  | EInsert o => if recur then wl_push o w else w
  | ERemove o =>
      let w1 := if recur then add_operands c (operands M c o) w else w in
      if has_regions M c o then fold_left (fun w s => wl_remove s w) (subops M c o) w1
      else wl_remove o w1
  | EModify o => if recur then wl_push o w else w
  | EReplace o _ =>
      if recur
      then fold_left (fun w v => fold_left (fun w u => wl_push (fst u) w) (uses M c v) w)
                     (results M c o) w
      else w
  | EBlock _ => w
  end.

Definition handle_trace (recur : bool) (t : trace) (w : wl) : wl :=
  fold_left (fun w ec => handle recur (fst ec) (snd ec) w) t w.

(* ------------------------------------------------------------------ *)
(* Patterns: the body of match_and_rewrite is a sequence of rewriter calls, each computed from
   the IR and the rewriter at that moment (None = no call), optionally followed by an in-place
   update of the matched operation that the pattern performs only when has_done_action is set. *)
Inductive pstep := PAct (f : Ct -> rw -> option action) | PBumpIfFlag (o : op).
Definition pattern := Ct -> op -> list pstep.

Fixpoint run_steps (recur : bool) (steps : list pstep) (c : Ct) (r : rw) (w : wl) (ev : trace)
  : Ct * rw * wl * trace :=
  match steps with
  | [] => (c, r, w, ev)
  | PAct f :: rest =>
      match f c r with
      | None => run_steps recur rest c r w ev
      | Some a => let '(c1, r1, t) := exec a c r in
                  run_steps recur rest c1 r1 (handle_trace recur t w) (ev ++ t)
      end
  | PBumpIfFlag o :: rest =>
      run_steps recur rest (if flag r then p_bump M o c else c) r w ev
  end.

(* GreedyRewritePatternApplier (folding_enabled=False): DCE short-circuit, then the first
   pattern after which has_done_action is set wins *)
Inductive matcher := MSingle (p : pattern) | MGreedy (dce : bool) (ps : list pattern).

Fixpoint run_pats (recur : bool) (ps : list pattern) (o : op) (c : Ct) (r : rw) (w : wl)
         (ev : trace) : Ct * rw * wl * trace :=
  match ps with
  | [] => (c, r, w, ev)
  | p :: rest =>
      let '(c1, r1, w1, ev1) := run_steps recur (p c o) c r w ev in
      if flag r1 then (c1, r1, w1, ev1) else run_pats recur rest o c1 r1 w1 ev1
  end.

(* one iteration of the do/while loop of _process_worklist: reset the rewriter on `o`, apply *)
Definition run_match (recur : bool) (m : matcher) (o : op) (c : Ct) (w : wl)
  : Ct * rw * wl * trace :=
  let r0 := {| flag := false; dip := IPBefore o |} in
  match m with
  | MSingle p => run_steps recur (p c o) c r0 w []
  | MGreedy dce ps =>
      if dce && trivially_dead M c o
      then let '(c1, r1, t) := x_erase o c r0 in (c1, r1, handle_trace recur t w, t)
      else run_pats recur ps o c r0 w []
  end.

(* ------------------------------------------------------------------ *)
Record config := { walk_reverse : bool; walk_regions_first : bool; apply_recursively : bool }.

(* _populate_worklist: push every op of region.walk(reverse=not walk_reverse,
   region_first=not walk_regions_first) *)
Definition populate (cf : config) (c : Ct) (w : wl) : wl :=
  fold_left (fun w o => wl_push o w)
            (walk M (negb (walk_reverse cf)) (negb (walk_regions_first cf)) c) w.

(* result of a run: IR, worklist, flag, pop counter, listener log, invocation log *)
Record wstate := { ws_c : Ct; ws_flag : bool; ws_k : nat; ws_ev : trace;
                   ws_inv : list (op * Ct) }.

(* pop policy: any function of (pop counter, current contents); the popped element is
   nth (pick k w mod length w) w, hence always a member.  LIFO is length w - 1. *)
Definition pick_t := nat -> wl -> nat.
Definition lifo : pick_t := fun _ w => length w - 1.
Definition popped (pick : pick_t) (k : nat) (w : wl) : op := nth (pick k w mod length w) w 0.

(* _process_worklist *)
Fixpoint process (fuel : nat) (recur : bool) (m : matcher) (pick : pick_t) (w : wl) (s : wstate)
  : option wstate :=
  match fuel with
  | O => None
  | S f =>
      match w with
      | [] => Some s
      | _ =>
          let o := popped pick (ws_k s) w in
          let '(c1, r1, w1, ev1) := run_match recur m o (ws_c s) (wl_remove o w) in
          process f recur m pick w1
                  {| ws_c := c1; ws_flag := ws_flag s || flag r1; ws_k := S (ws_k s);
                     ws_ev := ws_ev s ++ ev1; ws_inv := ws_inv s ++ [(o, ws_c s)] |}
      end
  end.

Definition one_pass (fuel : nat) (cf : config) (m : matcher) (pick : pick_t) (s : wstate)
  : option wstate :=
  process fuel (apply_recursively cf) m pick (populate cf (ws_c s) [])
          {| ws_c := ws_c s; ws_flag := false; ws_k := ws_k s; ws_ev := ws_ev s; ws_inv := ws_inv s |}.

(* the `while op_was_modified:` loop of rewrite_region *)
Fixpoint outer (n fuel : nat) (cf : config) (m : matcher) (pick : pick_t) (s : wstate)
  : option wstate :=
  match n with
  | O => None
  | S n' =>
      match one_pass fuel cf m pick s with
      | None => None
      | Some s1 => if ws_flag s1 then outer n' fuel cf m pick s1 else Some s1
      end
  end.

(* rewrite_region (post_walk_func = None): returns (final state, returned bool) *)
Definition rewrite_region (n fuel : nat) (cf : config) (m : matcher) (pick : pick_t) (c : Ct)
  : option (wstate * bool) :=
  match one_pass fuel cf m pick {| ws_c := c; ws_flag := false; ws_k := 0; ws_ev := []; ws_inv := [] |} with
  | None => None
  | Some s1 =>
      if negb (apply_recursively cf) then Some (s1, ws_flag s1)
      else if ws_flag s1
           then match outer n fuel cf m pick s1 with
                | None => None
                | Some s2 => Some (s2, true)
                end
           else Some (s1, false)
  end.

End Exec.
End Driver.
