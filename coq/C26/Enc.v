(* C26/Enc.v -- construction programs (the calls the harness makes on the real API) and
   encoders of model results into Base/Show.v `sx`.  No proofs. *)
From Coq Require Import ZArith List Bool Arith.
From XV Require Import Base.Show C26.Model.
Import ListNotations.
Local Open Scope Z_scope.

(* A construction program: how an expression is obtained through the Python API.
   POp k l r    = l <op> r  /  AffineExpr.binary(k, l, r)   (smart constructors)
   PRaw k l r   = AffineBinaryOpExpr(k, l, r)                (raw dataclass constructor)
   PNeg x = -x ;  PSub l r = l - r.
   `e + 3`, `3 + e`, `3 * e` reach __add__/__mul__ with AffineConstantExpr(3) on the right
   (isinstance(other,int) branch, __radd__/__rmul__) and are sent as POp k e (PConst 3). *)
Inductive prog :=
| PDim (p : nat) | PSym (p : nat) | PConst (v : Z)
| PRaw (k : kind) (l r : prog)
| POp (k : kind) (l r : prog)
| PNeg (x : prog)
| PSub (l r : prog).

Fixpoint run_prog (p : prog) : res expr :=
  match p with
  | PDim n => Ok (Dim n) | PSym n => Ok (Sym n) | PConst v => Ok (Const v)
  | PRaw k l r => do a <- run_prog l; do b <- run_prog r; Ok (Bin k a b)
  | POp k l r => do a <- run_prog l; do b <- run_prog r; binary k a b
  | PNeg x => do a <- run_prog x; Ok (neg a)
  | PSub l r => do a <- run_prog l; do b <- run_prog r; Ok (sub a b)
  end.

Definition enc_kind (k : kind) : sx :=
  I (match k with Add => 0 | Mul => 1 | Mod => 2 | FloorDiv => 3 | CeilDiv => 4 end).
Fixpoint enc_expr (e : expr) : sx :=
  match e with
  | Dim p => L [I 0; sN p]
  | Sym p => L [I 1; sN p]
  | Const v => L [I 2; I v]
  | Bin k l r => L [I 3; enc_kind k; enc_expr l; enc_expr r]
  end.
Definition enc_err (e : err) : sx :=
  I (match e with
     | ZeroDiv => 21 | IndexErr => 5 | NotImpl => 8 | ValueErr => 3
     | AssertErr => 6 | ParseErr => 1 | OutOfFuel => 99 end).
Definition enc_res {A} (f : A -> sx) (r : res A) : sx :=
  match r with Ok a => L [I 0; f a] | Raise e => L [I (-1); enc_err e] end.
Definition enc_map (m : amap) : sx :=
  L [sN (num_dims m); sN (num_syms m); L (map enc_expr (results m))].
Definition enc_tok (t : tok) : sx :=
  match t with
  | TLParen => I 0 | TRParen => I 1 | TPlus => I 2 | TMinus => I 3 | TStar => I 4
  | TInt v => L [I 5; I v]
  | TId (IdDim p) => L [I 6; sN p] | TId (IdSym p) => L [I 7; sN p]
  | TId IdMod => I 8 | TId IdFloorDiv => I 9 | TId IdCeilDiv => I 10 | TId IdOther => I 11
  | TOther => I 12
  end.

Definition run_map (nd ns : nat) (rs : list prog) : res amap :=
  do es <- mapM run_prog rs; Ok {| num_dims := nd; num_syms := ns; results := es |}.

(* families *)
Definition c26_build (p : prog) : sx := enc_res enc_expr (run_prog p).

Definition c26_eval (p : prog) (pts : list (list Z * list Z)) : sx :=
  match run_prog p with
  | Raise _ => L []
  | Ok e => L (map (fun '(d, s) => enc_res I (eval e d s)) pts)
  end.

Definition c26_replace (p : prog) (nds nss : list prog) : sx :=
  enc_res enc_expr
    (do e <- run_prog p; do nd <- mapM run_prog nds; do ns <- mapM run_prog nss; replace e nd ns).

Definition c26_compose_expr (p : prog) (nd ns : nat) (rs : list prog) : sx :=
  enc_res enc_expr (do e <- run_prog p; do m <- run_map nd ns rs; compose_expr e m).

Definition c26_compose_map (nd1 ns1 : nat) (rs1 : list prog) (nd2 ns2 : nat) (rs2 : list prog) : sx :=
  enc_res enc_map (do m1 <- run_map nd1 ns1 rs1; do m2 <- run_map nd2 ns2 rs2; map_compose m1 m2).

Definition c26_simplify (p : prog) (nd ns : nat) : sx :=
  enc_res enc_expr (do e <- run_prog p; simplify nd ns e).

(* str(AffineMap(nd, ns, (e,))) lexed, and re-parsed: tokens of str(e), then the parse of
   `e )` -- the closing parenthesis of the map's result list must be what is left over *)
Definition enc_parsed (r : res (expr * list tok)) : sx :=
  enc_res (fun '(e, rest) => L [enc_expr e; sN (length rest)]) r.
Definition c26_print_parse (p : prog) (nd ns : nat) : sx :=
  match run_prog p with
  | Raise e => L [I (-1); enc_err e]
  | Ok e => L [L (map enc_tok (str_toks e)); enc_parsed (parse_expr nd ns (str_toks e ++ [TRParen]))]
  end.

Definition c26_parse (nd ns : nat) (ts : list tok) : sx := enc_parsed (parse_expr nd ns ts).
