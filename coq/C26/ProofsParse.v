(* C26/ProofsParse.v -- printing then parsing preserves the value.
   `str_toks e` is the token sequence of str(e); the parser model is the fuelled
   precedence-climbing parser of Model.v.  Spec: `rebuild` below (re-apply the smart
   constructors bottom-up, looking identifiers up in the space) and `eval`. *)
From Coq Require Import ZArith List Bool Arith Lia.
From XV Require Import C26.Model C26.ProofsAlg.
Import ListNotations.
Local Open Scope Z_scope.

Section PP.
  Variables (nd ns : nat).

  (* what parsing the printed form amounts to *)
  Fixpoint rebuild (e : expr) : res expr :=
    match e with
    | Dim p => if (p <? nd)%nat then Ok (Dim p) else Raise ParseErr
    | Sym p => if (p <? ns)%nat then Ok (Sym p) else Raise ParseErr
    | Const v => Ok (Const v)
    | Bin k l r => do l' <- rebuild l; do r' <- rebuild r; binary k l' r'
    end.

  Lemma rebuild_eval e e' d s : rebuild e = Ok e' -> eval e' d s = eval e d s.
  Proof.
    revert e'. induction e as [p|p|v|k l IHl r IHr]; intros e' H; simpl in H.
    - destruct (p <? nd)%nat; inversion H; subst; reflexivity.
    - destruct (p <? ns)%nat; inversion H; subst; reflexivity.
    - inversion H; subst; reflexivity.
    - apply bind_ok in H. destruct H as [l' [Hl H]].
      apply bind_ok in H. destruct H as [r' [Hr H]].
      rewrite (binary_eval _ _ _ _ d s H). simpl.
      rewrite (IHl _ Hl), (IHr _ Hr). reflexivity.
  Qed.

  (* unfolding equations of the mutual fixpoint *)
  Lemma parse_primary_S f ts :
    parse_primary nd ns (S f) ts =
    match ts with
    | TId i :: ts' =>
        match i with
        | IdDim p => if (p <? nd)%nat then Ok (Dim p, ts') else Raise ParseErr
        | IdSym p => if (p <? ns)%nat then Ok (Sym p, ts') else Raise ParseErr
        | _ => Raise ParseErr
        end
    | TLParen :: ts' =>
        do '(e, ts2) <- parse_affine_expr nd ns f ts';
        match ts2 with
        | TRParen :: ts3 => Ok (e, ts3)
        | _ => Raise ParseErr
        end
    | TInt v :: ts' => Ok (Const v, ts')
    | TMinus :: ts' =>
        do '(e, ts2) <- parse_primary nd ns f ts';
        Ok (neg e, ts2)
    | _ => Raise ParseErr
    end.
  Proof. reflexivity. Qed.

  Lemma parse_binop_rhs_S f lhs prec ts :
    parse_binop_rhs nd ns (S f) lhs prec ts =
    let tp := tok_prec (hd_error ts) in
    if tp <? prec then Ok (lhs, ts)
    else match ts with
         | [] => Raise ParseErr
         | binop :: ts1 =>
             do '(rhs, ts2) <- parse_primary nd ns f ts1;
             let np := tok_prec (hd_error ts2) in
             do '(rhs', ts3) <- (if tp <? np then parse_binop_rhs nd ns f rhs (tp + 1) ts2 else Ok (rhs, ts2));
             do lhs' <- create_binop lhs rhs' binop;
             parse_binop_rhs nd ns f lhs' prec ts3
         end.
  Proof. reflexivity. Qed.

  Lemma parse_affine_expr_S f ts :
    parse_affine_expr nd ns (S f) ts =
    (do '(lhs, ts1) <- parse_primary nd ns f ts; parse_binop_rhs nd ns f lhs 0 ts1).
  Proof. reflexivity. Qed.

  Lemma create_binop_kind l r k : create_binop l r (kind_tok k) = binary k l r.
  Proof. destruct k; reflexivity. Qed.

  Lemma kind_tok_prec k : (tok_prec (Some (kind_tok k)) <? 0) = false /\
                          (tok_prec (Some (kind_tok k)) <? -1) = false.
  Proof. destruct k; split; reflexivity. Qed.

  (* fuel that suffices for the printed form of e *)
  Fixpoint pfuel (e : expr) : nat :=
    match e with
    | Bin _ l r => 3 + Nat.max (pfuel l) (pfuel r)
    | _ => 2
    end.

  Lemma pfuel_ge2 e : (2 <= pfuel e)%nat.
  Proof. destruct e; simpl; lia. Qed.

  Lemma parse_primary_printed e : forall fuel rest,
    (pfuel e <= fuel)%nat ->
    parse_primary nd ns fuel (str_toks e ++ rest) = (do e' <- rebuild e; Ok (e', rest)).
  Proof.
    induction e as [p|p|v|k l IHl r IHr]; intros fuel rest Hf.
    - destruct fuel as [|f]; [simpl in Hf; lia|]. rewrite parse_primary_S. simpl.
      destruct (p <? nd)%nat; reflexivity.
    - destruct fuel as [|f]; [simpl in Hf; lia|]. rewrite parse_primary_S. simpl.
      destruct (p <? ns)%nat; reflexivity.
    - simpl in Hf. destruct fuel as [|[|f]]; try lia. simpl str_toks.
      destruct (v <? 0) eqn:Hv.
      + rewrite parse_primary_S. cbn [app]. rewrite parse_primary_S. simpl.
        do 3 f_equal. lia.
      + rewrite parse_primary_S. reflexivity.
    - simpl in Hf. destruct fuel as [|[|[|f]]]; try lia.
      assert (Hl : (pfuel l <= S f)%nat) by lia.
      assert (Hr : (pfuel r <= f)%nat) by lia.
      assert (Hf2 : exists f', f = S f') by (pose proof (pfuel_ge2 r); destruct f; [lia|eauto]).
      destruct Hf2 as [f' ->].
      simpl str_toks. cbn [app]. rewrite parse_primary_S.
      rewrite parse_affine_expr_S.
      rewrite <- app_assoc. rewrite (IHl _ _ Hl). simpl rebuild.
      destruct (rebuild l) as [l'|err]; [|reflexivity]. cbn [bind].
      rewrite parse_binop_rhs_S. cbn [hd_error app].
      destruct (kind_tok_prec k) as [Hp0 Hp1]. cbv zeta. rewrite Hp0.
      rewrite <- app_assoc. rewrite (IHr _ _ Hr).
      destruct (rebuild r) as [r'|err]; [|reflexivity]. cbn [bind app hd_error].
      change (tok_prec (Some TRParen)) with (-1). rewrite Hp1. cbn [bind].
      rewrite create_binop_kind.
      destruct (binary k l' r') as [b|err]; [|reflexivity]. cbn [bind].
      rewrite parse_binop_rhs_S. reflexivity.
  Qed.

  Lemma str_toks_length_fuel e : (pfuel e <= 2 * length (str_toks e) + 1)%nat.
  Proof.
    induction e as [p|p|v|k l IHl r IHr]; simpl; try lia.
    - destruct (v <? 0); simpl; lia.
    - rewrite !app_length. simpl. rewrite app_length. simpl. lia.
  Qed.

  (* parsing str(e), followed by any tokens that do not start with a binary operator,
     re-applies the smart constructors and leaves those tokens untouched *)
  Lemma parse_printed e rest :
    tok_prec (hd_error rest) = -1 ->
    parse_expr nd ns (str_toks e ++ rest) = (do e' <- rebuild e; Ok (e', rest)).
  Proof.
    intros Hrest. unfold parse_expr, default_fuel.
    replace (2 * length (str_toks e ++ rest) + 3)%nat
      with (S (S (2 * length (str_toks e ++ rest) + 1)))%nat by lia.
    rewrite parse_affine_expr_S.
    rewrite parse_primary_printed.
    - destruct (rebuild e) as [e'|err]; [|reflexivity]. cbn [bind].
      rewrite parse_binop_rhs_S. cbv zeta. rewrite Hrest. reflexivity.
    - pose proof (str_toks_length_fuel e). rewrite app_length. lia.
  Qed.

  Theorem print_parse e rest e' rest' :
    tok_prec (hd_error rest) = -1 ->
    parse_expr nd ns (str_toks e ++ rest) = Ok (e', rest') ->
    rest' = rest /\ forall d s, eval e' d s = eval e d s.
  Proof.
    intros Hrest H. rewrite (parse_printed e rest Hrest) in H.
    apply bind_ok in H. destruct H as [x [Hx H]]. inversion H; subst.
    split; auto. intros d s. apply rebuild_eval; auto.
  Qed.

  (* non-vacuity: expressions in the space that are pure affine with non-zero constant
     divisors always parse back *)
  Fixpoint parseable (e : expr) : Prop :=
    match e with
    | Dim p => (p < nd)%nat
    | Sym p => (p < ns)%nat
    | Const _ => True
    | Bin Add l r => parseable l /\ parseable r
    | Bin Mul l r => (is_const l = true \/ is_const r = true) /\ parseable l /\ parseable r
    | Bin _ l r => (exists c, r = Const c /\ c <> 0) /\ parseable l
    end.

  Lemma rebuild_const_stays e : is_const e = true -> rebuild e = Ok e.
  Proof. destruct e; simpl; try discriminate; auto. Qed.

  Lemma rebuild_total e : parseable e -> exists e', rebuild e = Ok e'.
  Proof.
    induction e as [p|p|v|k l IHl r IHr]; simpl; intros H.
    - apply Nat.ltb_lt in H. rewrite H. eauto.
    - apply Nat.ltb_lt in H. rewrite H. eauto.
    - eauto.
    - destruct k.
      + destruct H as [Hl Hr]. destruct (IHl Hl) as [l' ->]. destruct (IHr Hr) as [r' ->]. simpl. eauto.
      + destruct H as [Hc [Hl Hr]]. destruct (IHl Hl) as [l' El]. destruct (IHr Hr) as [r' Er].
        rewrite El, Er. cbn [bind binary]. apply mul_raises_iff.
        destruct Hc as [Hc|Hc]; [left|right].
        * rewrite (rebuild_const_stays _ Hc) in El. inversion El; subst; auto.
        * rewrite (rebuild_const_stays _ Hc) in Er. inversion Er; subst; auto.
      + destruct H as [[c [-> Hc]] Hl]. destruct (IHl Hl) as [l' ->]. simpl.
        apply (divlike_pos_total Mod); auto.
      + destruct H as [[c [-> Hc]] Hl]. destruct (IHl Hl) as [l' ->]. simpl.
        apply (divlike_pos_total FloorDiv); auto.
      + destruct H as [[c [-> Hc]] Hl]. destruct (IHl Hl) as [l' ->]. simpl.
        apply (divlike_pos_total CeilDiv); auto.
  Qed.

  Theorem print_parse_total e rest :
    parseable e -> tok_prec (hd_error rest) = -1 ->
    exists e', parse_expr nd ns (str_toks e ++ rest) = Ok (e', rest) /\
               forall d s, eval e' d s = eval e d s.
  Proof.
    intros Hp Hrest. destruct (rebuild_total e Hp) as [e' He].
    exists e'. rewrite (parse_printed e rest Hrest), He. split; [reflexivity|].
    intros d s. apply rebuild_eval; auto.
  Qed.
End PP.
