(* C26/ProofsAlg.v -- value preservation of the smart constructors, of
   replace_dims_and_symbols and of compose.  The specification every theorem is stated
   against is `eval` / `eval_kind` of Model.v (the five arithmetic arms; Python `//`, `%`
   are Z.div, Z.modulo): a result `Ok v`, or the exception evaluation raises. *)
From Coq Require Import ZArith List Bool Arith Lia.
From XV Require Import C26.Model.
Import ListNotations.
Local Open Scope Z_scope.

(* ------------------------------------------------------------------ small monad facts *)
Lemma bind_ok {A B} (r : res A) (f : A -> res B) b :
  bind r f = Ok b -> exists a, r = Ok a /\ f a = Ok b.
Proof. destruct r as [a|e]; simpl; intros H; [eauto | discriminate]. Qed.

Lemma Ok_inj {A} (a b : A) : Ok a = Ok b -> a = b.
Proof. intros H. inversion H. reflexivity. Qed.

Lemma mapM_Forall2 {A B} (f : A -> res B) l l' :
  mapM f l = Ok l' -> Forall2 (fun x y => f x = Ok y) l l'.
Proof.
  revert l'. induction l as [|x r IH]; simpl; intros l' H.
  - inversion H. constructor.
  - apply bind_ok in H. destruct H as [y [Hy H]].
    apply bind_ok in H. destruct H as [ys [Hys H]]. inversion H; subst.
    constructor; auto.
Qed.

(* ------------------------------------------------------------------ addition *)
Lemma add_const_eval e c d s :
  eval (add_const e c) d s = (do a <- eval e d s; Ok (a + c)).
Proof.
  revert c. induction e as [p|p|v|k l IHl r IHr]; intros c.
  - simpl. destruct (c =? 0) eqn:Hc.
    + apply Z.eqb_eq in Hc. subst. simpl. destruct (nth_error d p); simpl; auto. f_equal. lia.
    + simpl. destruct (nth_error d p); simpl; auto.
  - simpl. destruct (c =? 0) eqn:Hc.
    + apply Z.eqb_eq in Hc. subst. simpl. destruct (nth_error s p); simpl; auto. f_equal. lia.
    + simpl. destruct (nth_error s p); simpl; auto.
  - simpl. f_equal. lia.
  - cbn [add_const]. destruct (c =? 0) eqn:Hc.
    + apply Z.eqb_eq in Hc. subst.
      destruct (eval (Bin k l r) d s); simpl; auto. f_equal. lia.
    + destruct k; try reflexivity.
      destruct r as [p|p|v|k' l' r']; try reflexivity.
      rewrite IHl. simpl. destruct (eval l d s); simpl; auto. f_equal. lia.
Qed.

Lemma add_eval a b d s :
  eval (add a b) d s = (do x <- eval a d s; do y <- eval b d s; Ok (x + y)).
Proof.
  destruct a as [p|p|v|k l r].
  - destruct b as [q|q|w|k' l' r']; try reflexivity.
    unfold add. rewrite add_const_eval. reflexivity.
  - destruct b as [q|q|w|k' l' r']; try reflexivity.
    unfold add. rewrite add_const_eval. reflexivity.
  - unfold add. rewrite add_const_eval. simpl.
    destruct (eval b d s); simpl; auto. f_equal. lia.
  - destruct b as [q|q|w|k' l' r']; try reflexivity.
    unfold add. rewrite add_const_eval.
    destruct (eval (Bin k l r) d s); reflexivity.
Qed.

(* ------------------------------------------------------------------ multiplication *)
Lemma mul_const_eval e c d s :
  eval (mul_const e c) d s = (do a <- eval e d s; Ok (a * c)).
Proof.
  revert c. induction e as [p|p|v|k l IHl r IHr]; intros c.
  - simpl. destruct (c =? 1) eqn:Hc.
    + apply Z.eqb_eq in Hc. subst. simpl. destruct (nth_error d p); simpl; auto. f_equal. lia.
    + simpl. destruct (nth_error d p); simpl; auto.
  - simpl. destruct (c =? 1) eqn:Hc.
    + apply Z.eqb_eq in Hc. subst. simpl. destruct (nth_error s p); simpl; auto. f_equal. lia.
    + simpl. destruct (nth_error s p); simpl; auto.
  - simpl. f_equal. lia.
  - cbn [mul_const]. destruct (c =? 1) eqn:Hc.
    + apply Z.eqb_eq in Hc. subst.
      destruct (eval (Bin k l r) d s); simpl; auto. f_equal. lia.
    + destruct k; try reflexivity.
      * (* Add: distribute *)
        rewrite add_eval, IHl, IHr. simpl.
        destruct (eval l d s); simpl; auto.
        destruct (eval r d s); simpl; auto. f_equal. lia.
      * (* Mul *)
        destruct r as [p|p|v|k' l' r']; try reflexivity.
        rewrite IHl. simpl. destruct (eval l d s); simpl; auto. f_equal. lia.
Qed.

Lemma mul_eval a b e d s :
  mul a b = Ok e ->
  eval e d s = (do x <- eval a d s; do y <- eval b d s; Ok (x * y)).
Proof.
  unfold mul. intros H.
  destruct a as [p|p|v|k l r].
  - destruct b as [q|q|w|k' l' r']; try discriminate.
    apply Ok_inj in H. subst e. rewrite mul_const_eval. reflexivity.
  - destruct b as [q|q|w|k' l' r']; try discriminate.
    apply Ok_inj in H. subst e. rewrite mul_const_eval. reflexivity.
  - apply Ok_inj in H. subst e. rewrite mul_const_eval. simpl.
    destruct (eval b d s); simpl; auto. f_equal. lia.
  - destruct b as [q|q|w|k' l' r']; try discriminate.
    apply Ok_inj in H. subst e. rewrite mul_const_eval.
    destruct (eval (Bin k l r) d s); reflexivity.
Qed.

Lemma mul_raises_iff a b : (exists e, mul a b = Ok e) <-> (is_const a = true \/ is_const b = true).
Proof.
  unfold mul. split.
  - intros [e H]. destruct a; destruct b; simpl; auto; discriminate.
  - intros [H|H]; destruct a; destruct b; simpl in *; try discriminate; eauto.
Qed.

(* ------------------------------------------------------------------ floordiv / ceildiv / mod *)
Lemma fold_kind_is_eval_kind k a b : fold_kind k a b = eval_kind k a b.
Proof. destruct k; reflexivity. Qed.

Lemma divlike_eval k a b e d s :
  divlike k a b = Ok e ->
  eval e d s = (do x <- eval a d s; do y <- eval b d s; eval_kind k x y).
Proof.
  unfold divlike, try_fold_constant. intros H.
  destruct a as [p|p|v|k1 l r]; destruct b as [q|q|w|k2 l2 r2]; simpl in H; try discriminate;
    try (inversion H; subst; reflexivity).
  rewrite fold_kind_is_eval_kind in H. simpl.
  destruct (eval_kind k v w); simpl in H; inversion H; subst. reflexivity.
Qed.

Lemma divlike_pos_total k a c : c <> 0 -> exists e, divlike k a (Const c) = Ok e.
Proof.
  intros Hc. unfold divlike, try_fold_constant.
  destruct a as [p|p|v|k1 l r]; simpl; eauto.
  assert (Hz : (c =? 0) = false) by (apply Z.eqb_neq; auto).
  destruct k; simpl; rewrite ?Hz; simpl; eauto.
Qed.

(* ------------------------------------------------------------------ AffineExpr.binary *)
Lemma binary_eval k a b e d s :
  binary k a b = Ok e ->
  eval e d s = (do x <- eval a d s; do y <- eval b d s; eval_kind k x y).
Proof.
  destruct k; simpl; intros H.
  - inversion H; subst. apply add_eval.
  - rewrite (mul_eval _ _ _ d s H). reflexivity.
  - apply (divlike_eval Mod); auto.
  - apply (divlike_eval FloorDiv); auto.
  - apply (divlike_eval CeilDiv); auto.
Qed.

Corollary binary_eval_bin k a b e d s :
  binary k a b = Ok e -> eval e d s = eval (Bin k a b) d s.
Proof. intros H. rewrite (binary_eval _ _ _ _ d s H). reflexivity. Qed.

(* ------------------------------------------------------------------ negation, subtraction *)
Lemma neg_eval e d s : eval (neg e) d s = (do a <- eval e d s; Ok (- a)).
Proof.
  destruct e as [p|p|v|k l r]; unfold neg; try rewrite mul_const_eval; simpl; auto.
  - destruct (nth_error d p); simpl; auto. f_equal. lia.
  - destruct (nth_error s p); simpl; auto. f_equal. lia.
  - destruct (eval l d s); simpl; auto. destruct (eval r d s); simpl; auto.
    destruct (eval_kind k a a0); simpl; auto. f_equal. lia.
Qed.

Lemma sub_eval a b d s :
  eval (sub a b) d s = (do x <- eval a d s; do y <- eval b d s; Ok (x - y)).
Proof.
  unfold sub. rewrite add_eval, mul_const_eval.
  destruct (eval a d s); simpl; auto. destruct (eval b d s); simpl; auto. f_equal. lia.
Qed.

(* `c - e` as coded returns e - c; the repaired form is correct *)
Lemma rsub_as_coded_eval e c d s :
  eval (rsub_as_coded e c) d s = (do a <- eval e d s; Ok (a - c)).
Proof.
  unfold rsub_as_coded. rewrite sub_eval. simpl. destruct (eval e d s); reflexivity.
Qed.

Lemma rsub_as_coded_refuted :
  exists e c d s v, eval e d s = Ok v /\ eval (rsub_as_coded e c) d s <> Ok (c - v).
Proof.
  exists (Dim 0), 3, [10], [], 10. split; [reflexivity|]. vm_compute. intros H. discriminate H.
Qed.

Lemma rsub_fixed_eval e c d s :
  eval (rsub_fixed e c) d s = (do a <- eval e d s; Ok (c - a)).
Proof.
  unfold rsub_fixed. rewrite add_eval, neg_eval. simpl.
  destruct (eval e d s); simpl; auto. f_equal. lia.
Qed.

(* ------------------------------------------------------------------ substitution lemma *)
(* the assignment seen by the original expression: replaced positions take the values of
   the replacement expressions, positions beyond the replacement list keep theirs *)
Definition subst_env (vals env : list Z) : list Z := vals ++ skipn (length vals) env.

Lemma nth_error_subst_env_hit vals env p v :
  nth_error vals p = Some v -> nth_error (subst_env vals env) p = Some v.
Proof.
  intros H. unfold subst_env. rewrite nth_error_app1; auto.
  apply nth_error_Some. congruence.
Qed.

Lemma nth_error_skipn_add {A} (l : list A) k p : nth_error (skipn k l) p = nth_error l (k + p).
Proof.
  revert l. induction k as [|k IH]; intros l; simpl; auto.
  destruct l; simpl; auto. destruct p; reflexivity.
Qed.

Lemma nth_error_subst_env_miss vals env p :
  (length vals <= p)%nat -> nth_error (subst_env vals env) p = nth_error env p.
Proof.
  intros H. unfold subst_env. rewrite nth_error_app2; auto.
  rewrite nth_error_skipn_add. f_equal. lia.
Qed.

Lemma Forall2_nth_error_l {A B} (R : A -> B -> Prop) l l' p x :
  Forall2 R l l' -> nth_error l p = Some x -> exists y, nth_error l' p = Some y /\ R x y.
Proof.
  intros H. revert p. induction H as [|a b l l' Hab H IH]; intros p Hp.
  - destruct p; discriminate.
  - destruct p; simpl in *.
    + inversion Hp; subst. eauto.
    + eauto.
Qed.

Lemma Forall2_length' {A B} (R : A -> B -> Prop) l l' : Forall2 R l l' -> length l = length l'.
Proof. induction 1; simpl; auto. Qed.

Lemma replace_eval e nd ns e' d s vd vs :
  replace e nd ns = Ok e' ->
  Forall2 (fun x v => eval x d s = Ok v) nd vd ->
  Forall2 (fun x v => eval x d s = Ok v) ns vs ->
  eval e' d s = eval e (subst_env vd d) (subst_env vs s).
Proof.
  intros H Hd Hs. revert e' H.
  induction e as [p|p|v|k l IHl r IHr]; intros e' H; simpl in H.
  - destruct (nth_error nd p) as [x|] eqn:Hp; inversion H; subst.
    + destruct (Forall2_nth_error_l _ _ _ _ _ Hd Hp) as [v [Hv Hx]].
      simpl. rewrite (nth_error_subst_env_hit _ _ _ _ Hv). auto.
    + simpl. rewrite nth_error_subst_env_miss; auto.
      apply nth_error_None in Hp. rewrite <- (Forall2_length' _ _ _ Hd). auto.
  - destruct (nth_error ns p) as [x|] eqn:Hp; inversion H; subst.
    + destruct (Forall2_nth_error_l _ _ _ _ _ Hs Hp) as [v [Hv Hx]].
      simpl. rewrite (nth_error_subst_env_hit _ _ _ _ Hv). auto.
    + simpl. rewrite nth_error_subst_env_miss; auto.
      apply nth_error_None in Hp. rewrite <- (Forall2_length' _ _ _ Hs). auto.
  - inversion H; subst. reflexivity.
  - apply bind_ok in H. destruct H as [l' [Hl H]].
    apply bind_ok in H. destruct H as [r' [Hr H]].
    rewrite (binary_eval _ _ _ _ d s H). simpl.
    rewrite (IHl _ Hl), (IHr _ Hr). reflexivity.
Qed.

(* AffineExpr.compose(map): dimensions become the map's results, symbols are kept *)
Lemma compose_expr_eval e m e' d s vals :
  compose_expr e m = Ok e' ->
  Forall2 (fun r v => eval r d s = Ok v) (results m) vals ->
  eval e' d s = eval e (subst_env vals d) s.
Proof.
  unfold compose_expr. intros H Hv.
  rewrite (replace_eval _ _ _ _ d s vals [] H Hv (Forall2_nil _)). reflexivity.
Qed.

(* ------------------------------------------------------------------ AffineMap.compose *)
Fixpoint syms_below (n : nat) (e : expr) : Prop :=
  match e with
  | Sym p => (p < n)%nat
  | Bin _ l r => syms_below n l /\ syms_below n r
  | _ => True
  end.

Lemma nth_error_map_seq {A} (f : nat -> A) a n p :
  nth_error (map f (seq a n)) p = if (p <? n)%nat then Some (f (a + p)%nat) else None.
Proof.
  revert a p. induction n as [|n IH]; intros a p; simpl.
  - destruct p; reflexivity.
  - destruct p; simpl.
    + f_equal. f_equal. lia.
    + rewrite IH. change (S p <? S n)%nat with (p <? n)%nat.
      destruct (p <? n)%nat; auto. f_equal. f_equal. lia.
Qed.

(* the renaming used by AffineMap.compose on `other`: dims stay, symbol q becomes symbol k+q *)
Lemma replace_rename_eval e n k n2 e' d s :
  replace e (map Dim (seq 0 n)) (map Sym (seq k n2)) = Ok e' ->
  syms_below n2 e ->
  eval e' d s = eval e d (skipn k s).
Proof.
  revert e'. induction e as [p|p|v|kd l IHl r IHr]; intros e' H Hw; simpl in H.
  - rewrite nth_error_map_seq in H. destruct (p <? n)%nat; inversion H; subst; reflexivity.
  - rewrite nth_error_map_seq in H. simpl in Hw.
    apply Nat.ltb_lt in Hw. rewrite Hw in H. inversion H; subst. simpl.
    rewrite nth_error_skipn_add. reflexivity.
  - inversion H; subst. reflexivity.
  - apply bind_ok in H. destruct H as [l' [Hl H]].
    apply bind_ok in H. destruct H as [r' [Hr H]].
    destruct Hw as [Hwl Hwr].
    rewrite (binary_eval _ _ _ _ d s H). simpl.
    rewrite (IHl _ Hl Hwl), (IHr _ Hr Hwr). reflexivity.
Qed.

Lemma map_compose_eval m1 m2 m d s vals :
  map_compose m1 m2 = Ok m ->
  Forall (syms_below (num_syms m2)) (results m2) ->
  Forall2 (fun r v => eval r d (skipn (num_syms m1) s) = Ok v) (results m2) vals ->
  num_dims m = num_dims m2 /\ num_syms m = (num_syms m1 + num_syms m2)%nat /\
  Forall2 (fun r' r => eval r' d s = eval r (subst_env vals d) s) (results m) (results m1).
Proof.
  unfold map_compose. intros H Hw Hv.
  destruct (negb (num_dims m1 =? length (results m2))%nat); [discriminate|].
  apply bind_ok in H. destruct H as [nm [Hnm H]].
  apply bind_ok in H. destruct H as [rs [Hrs H]]. inversion H; subst; clear H. simpl.
  split; [reflexivity|]. split; [reflexivity|].
  unfold map_replace in Hnm. apply bind_ok in Hnm. destruct Hnm as [rs2 [Hrs2 Hnm]].
  inversion Hnm; subst; clear Hnm.
  apply mapM_Forall2 in Hrs2. apply mapM_Forall2 in Hrs. simpl in Hrs.
  (* the renamed results of m2 evaluate, under (d, s), like m2's results under its own symbols *)
  assert (Hvals : Forall2 (fun r v => eval r d s = Ok v) rs2 vals).
  { clear Hrs. revert vals Hv Hw. induction Hrs2 as [|x y l l' Hxy Hll IH]; intros vals Hv Hw.
    - inversion Hv. constructor.
    - inversion Hv; subst. inversion Hw; subst. constructor; auto.
      rewrite (replace_rename_eval _ _ _ _ _ d s Hxy); auto. }
  clear Hrs2 Hv Hw.
  induction Hrs as [|x y l l' Hxy Hll IH]; constructor; auto.
  apply (compose_expr_eval _ _ _ d s vals Hxy). simpl. exact Hvals.
Qed.
