(* C26/ProofsGen.v -- the arithmetic arms translated from the working-tree source
   (coq/Gen/C26_Arith.v, regenerated on every run by harness/translate/c26_arith.py)
   are the arms of the hand model.  An edit of `AffineExpr.eval` or `_try_fold_constant`
   that changes an arm makes this file fail to compile. *)
From Coq Require Import ZArith.
From XV Require Import C26.Model Gen.C26_Arith.
Local Open Scope Z_scope.

Lemma gen_arms_are_model : forall k a b,
  gen_eval_kind k a b = eval_kind k a b /\ gen_fold_kind k a b = fold_kind k a b.
Proof. intros k a b. destruct k; split; reflexivity. Qed.
