(* C26/ProofsSimplify.v -- AffineExpr.simplify (SimpleAffineExprFlattener) preserves the value.
   Stack invariant: every row on operand_expr_stack, read as
       sum_i row[i]*dims[i] + sum_j row[nd+j]*syms[j] + sum_k row[nd+ns+k]*value(local_exprs[k]) + row[-1],
   equals the value of the sub-expression it stands for; every local expression evaluates. *)
From Coq Require Import ZArith List Bool Arith Lia Znumtheory.
From XV Require Import C26.Model C26.ProofsAlg.
Import ListNotations.
Local Open Scope Z_scope.

(* ------------------------------------------------------------------ dot products *)
Fixpoint dot (r v : list Z) : Z :=
  match r, v with
  | x :: r', y :: v' => x * y + dot r' v'
  | _, _ => 0
  end.

Lemma dot_nil_r r : dot r [] = 0.
Proof. destruct r; reflexivity. Qed.

Lemma dot_repeat0 k v : dot (repeat 0 k) v = 0.
Proof. revert v. induction k as [|k IH]; intros [|y v]; simpl; auto. Qed.

Lemma dot_app a a' b b' : length a = length b -> dot (a ++ a') (b ++ b') = dot a b + dot a' b'.
Proof.
  revert b. induction a as [|x a IH]; intros [|y b] H; simpl in *; try discriminate; auto.
  rewrite IH by lia. lia.
Qed.

Lemma dot_unit n i x vec y :
  nth_error vec i = Some y -> dot (unit_row n i x) vec = x * y.
Proof.
  intros H. apply nth_error_split in H. destruct H as [l1 [l2 [-> Hl]]].
  unfold unit_row. rewrite dot_app by (rewrite repeat_length; auto).
  simpl. rewrite !dot_repeat0. lia.
Qed.

Lemma unit_row_length n i x : (i < n)%nat -> length (unit_row n i x) = n.
Proof. intros H. unfold unit_row. rewrite app_length, repeat_length. simpl. rewrite repeat_length. lia. Qed.

Lemma dot_add a b v : length a = length b ->
  dot (map (fun lr => fst lr + snd lr) (combine a b)) v = dot a v + dot b v.
Proof.
  revert b v. induction a as [|x a IH]; intros [|y b] v H; simpl in *; try discriminate; auto.
  destruct v as [|z v]; simpl; auto. rewrite IH by lia. lia.
Qed.

Lemma dot_scale a c v : dot (map (fun l => l * c) a) v = dot a v * c.
Proof.
  revert v. induction a as [|x a IH]; intros [|z v]; simpl; auto. rewrite IH. lia.
Qed.

Lemma dot_zero a v : dot (map (fun _ : Z => 0) a) v = 0.
Proof. revert v. induction a as [|x a IH]; intros [|z v]; simpl; auto. Qed.

Lemma dot_div g a v : 0 < g -> Forall (fun l => (g | l)) a ->
  dot a v = g * dot (map (fun l => l / g) a) v.
Proof.
  intros Hg H. revert v. induction H as [|x a Hx Ha IH]; intros [|z v]; simpl; try lia.
  rewrite IH. rewrite (Zdivide_Zdiv_eq g x) at 1 by auto. lia.
Qed.

Lemma dot_divides c a v : Forall (fun l => (c | l)) a -> (c | dot a v).
Proof.
  intros H. revert v. induction H as [|x a Hx Ha IH]; intros [|z v]; simpl;
    try apply Z.divide_0_r.
  apply Z.divide_add_r; auto. apply Z.divide_mul_l; auto.
Qed.

Lemma dot_sub_at i c row v y :
  nth_error v i = Some y -> (i < length row)%nat ->
  dot (sub_at i c row) v = dot row v - c * y.
Proof.
  revert row v. induction i as [|i IH]; intros [|x row] [|z v] Hy Hl; simpl in *; try discriminate; try lia.
  - inversion Hy; subst. lia.
  - rewrite (IH row v Hy) by lia. lia.
Qed.

Lemma sub_at_length i c row : length (sub_at i c row) = length row.
Proof. revert i. induction row as [|x row IH]; intros [|i]; simpl; auto. Qed.

Lemma insert_at_length i x row : length (insert_at i x row) = S (length row).
Proof.
  unfold insert_at. rewrite <- (firstn_skipn i row) at 3. rewrite !app_length. simpl. lia.
Qed.

(* ------------------------------------------------------------------ gcd of a row *)
Lemma gcd_row_spec row c : 0 < c ->
  0 < gcd_row row c /\ (gcd_row row c | c) /\ Forall (fun l => (gcd_row row c | l)) row.
Proof.
  intros Hc. induction row as [|x row IH]; simpl.
  - split; auto. split; [apply Z.divide_refl | constructor].
  - destruct IH as [Hp [Hdc Hall]]. set (g := gcd_row row c) in *.
    assert (Hg : 0 < Z.gcd (Z.abs x) g).
    { pose proof (Z.gcd_nonneg (Z.abs x) g).
      destruct (Z.eq_dec (Z.gcd (Z.abs x) g) 0) as [E|E]; [|lia].
      apply Z.gcd_eq_0_r in E. lia. }
    split; auto. split.
    + eapply Z.divide_trans; [apply Z.gcd_divide_r | exact Hdc].
    + constructor.
      * apply Z.divide_abs_r. apply Z.gcd_divide_l.
      * eapply Forall_impl; [|exact Hall]. intros a Ha.
        eapply Z.divide_trans; [apply Z.gcd_divide_r | exact Ha].
Qed.

Lemma div_by_gcd_norm g (row : list Z) :
  (if negb (g =? 1) then map (fun l => l / g) row else row) = map (fun l => l / g) row.
Proof.
  destruct (g =? 1) eqn:E; simpl; auto. apply Z.eqb_eq in E. subst.
  induction row as [|x row IH]; simpl; auto. rewrite Z.div_1_r. f_equal. exact IH.
Qed.

(* ------------------------------------------------------------------ structural equality *)
Lemma kind_eqb_eq a b : kind_eqb a b = true -> a = b.
Proof. destruct a, b; simpl; intros; try discriminate; auto. Qed.

Lemma expr_eqb_eq a b : expr_eqb a b = true -> a = b.
Proof.
  revert b. induction a as [p|p|v|k l IHl r IHr]; intros [q|q|w|k' l' r'] H; simpl in H; try discriminate.
  - apply Nat.eqb_eq in H. congruence.
  - apply Nat.eqb_eq in H. congruence.
  - apply Z.eqb_eq in H. congruence.
  - apply andb_true_iff in H. destruct H as [H Hr]. apply andb_true_iff in H. destruct H as [Hk Hl].
    apply kind_eqb_eq in Hk. apply IHl in Hl. apply IHr in Hr. congruence.
Qed.

Lemma find_local_id_spec ls e i : find_local_id ls e = Some i -> nth_error ls i = Some e.
Proof.
  revert i. induction ls as [|x ls IH]; simpl; intros i H; try discriminate.
  destruct (expr_eqb x e) eqn:E.
  - inversion H; subst. apply expr_eqb_eq in E. subst. reflexivity.
  - destruct (find_local_id ls e); inversion H; subst. simpl. auto.
Qed.

(* ------------------------------------------------------------------ the invariant *)
Section Simp.
  Variables (nd ns : nat) (d s : list Z).
  Hypothesis Hd : length d = nd.
  Hypothesis Hs : length s = ns.

  Definition pre (lv : list Z) : list Z := d ++ s ++ lv.
  Definition rowval (row lv : list Z) : Z := dot row (pre lv ++ [1]).
  Definition lvals (ls : list expr) (lv : list Z) : Prop :=
    Forall2 (fun le v => eval le d s = Ok v) ls lv.
  Definition row_ok (lv : list Z) (row : list Z) (e : expr) : Prop :=
    length row = (nd + ns + length lv + 1)%nat /\ eval e d s = Ok (rowval row lv).
  Definition Inv (st : flat_state) (es : list expr) (lv : list Z) : Prop :=
    lvals (locals st) lv /\ Forall2 (row_ok lv) (stack st) es.

  Lemma pre_length lv : length (pre lv) = (nd + ns + length lv)%nat.
  Proof. unfold pre. rewrite !app_length. lia. Qed.

  Lemma pre_snoc lv q : pre (lv ++ [q]) = pre lv ++ [q].
  Proof. unfold pre. rewrite !app_assoc. reflexivity. Qed.

  Lemma nth_pre_dim lv p v : nth_error d p = Some v -> nth_error (pre lv ++ [1]) p = Some v.
  Proof.
    intros H. assert (p < length d)%nat by (apply nth_error_Some; congruence).
    unfold pre. rewrite <- app_assoc. rewrite nth_error_app1; auto.
  Qed.

  Lemma nth_pre_sym lv p v : nth_error s p = Some v -> nth_error (pre lv ++ [1]) (nd + p) = Some v.
  Proof.
    intros H. assert (p < length s)%nat by (apply nth_error_Some; congruence).
    unfold pre. rewrite <- app_assoc. rewrite nth_error_app2 by lia.
    replace (nd + p - length d)%nat with p by lia.
    rewrite <- app_assoc. rewrite nth_error_app1; auto.
  Qed.

  Lemma nth_pre_local lv i v : nth_error lv i = Some v -> nth_error (pre lv ++ [1]) (nd + ns + i) = Some v.
  Proof.
    intros H. assert (i < length lv)%nat by (apply nth_error_Some; congruence).
    unfold pre. rewrite <- app_assoc. rewrite nth_error_app2 by lia.
    replace (nd + ns + i - length d)%nat with (ns + i)%nat by lia.
    rewrite <- app_assoc. rewrite nth_error_app2 by lia.
    replace (ns + i - length s)%nat with i by lia.
    rewrite nth_error_app1; auto.
  Qed.

  Lemma nth_pre_const lv : nth_error (pre lv ++ [1]) (nd + ns + length lv) = Some 1.
  Proof.
    rewrite nth_error_app2 by (rewrite pre_length; lia).
    rewrite pre_length. replace (nd + ns + length lv - (nd + ns + length lv))%nat with O by lia.
    reflexivity.
  Qed.

  (* inserting a column for a new local variable *)
  Lemma rowval_insert row lv x q :
    (nd + ns + length lv <= length row)%nat ->
    rowval (insert_at (nd + ns + length lv) x row) (lv ++ [q]) = rowval row lv + x * q.
  Proof.
    intros Hl. unfold rowval, insert_at. rewrite pre_snoc. rewrite <- app_assoc. simpl.
    rewrite dot_app by (rewrite firstn_length, pre_length; lia).
    rewrite <- (firstn_skipn (nd + ns + length lv) row) at 3.
    rewrite dot_app by (rewrite firstn_length, pre_length; lia).
    simpl. lia.
  Qed.

  Lemma row_ok_extend lv row e q :
    row_ok lv row e -> row_ok (lv ++ [q]) (insert_at (nd + ns + length lv) 0 row) e.
  Proof.
    intros [Hl He]. split.
    - rewrite insert_at_length, app_length. simpl. lia.
    - rewrite rowval_insert by lia. rewrite He. f_equal. lia.
  Qed.

  Lemma lvals_length ls lv : lvals ls lv -> length ls = length lv.
  Proof. apply Forall2_length'. Qed.

  Lemma lvals_snoc ls lv le v : lvals ls lv -> eval le d s = Ok v -> lvals (ls ++ [le]) (lv ++ [v]).
  Proof. intros H He. apply Forall2_app; auto. Qed.

  (* ------------------------------------------------------------------ from_flat_form *)
  Lemma ids_dims d1 d2 : d = d1 ++ d2 ->
    Forall2 (fun id v => eval id d s = Ok v) (map Dim (seq (length d1) (length d2))) d2.
  Proof.
    revert d1. induction d2 as [|x d2 IH]; intros d1 E; simpl; constructor.
    - simpl. rewrite E. rewrite nth_error_app2 by lia. rewrite Nat.sub_diag. reflexivity.
    - specialize (IH (d1 ++ [x])). rewrite app_length in IH. simpl in IH.
      rewrite Nat.add_1_r in IH. apply IH. rewrite <- app_assoc. exact E.
  Qed.

  Lemma ids_syms s1 s2 : s = s1 ++ s2 ->
    Forall2 (fun id v => eval id d s = Ok v) (map Sym (seq (length s1) (length s2))) s2.
  Proof.
    revert s1. induction s2 as [|x s2 IH]; intros s1 E; simpl; constructor.
    - simpl. rewrite E. rewrite nth_error_app2 by lia. rewrite Nat.sub_diag. reflexivity.
    - specialize (IH (s1 ++ [x])). rewrite app_length in IH. simpl in IH.
      rewrite Nat.add_1_r in IH. apply IH. rewrite <- app_assoc. exact E.
  Qed.

  Lemma fold_terms_eval ids vals :
    Forall2 (fun id v => eval id d s = Ok v) ids vals ->
    forall coeffs acc accv, eval acc d s = Ok accv -> length coeffs = length ids ->
    eval (fold_left (fun acc ef => if snd ef =? 0 then acc else add acc (mul_const (fst ef) (snd ef)))
                    (combine ids coeffs) acc) d s = Ok (accv + dot coeffs vals).
  Proof.
    induction 1 as [|id v ids vals Hid H IH]; intros coeffs acc accv Hacc Hlen.
    - simpl. rewrite dot_nil_r. rewrite Hacc. f_equal. lia.
    - destruct coeffs as [|f coeffs]; [discriminate|]. simpl in Hlen. simpl.
      destruct (f =? 0) eqn:Ef.
      + apply Z.eqb_eq in Ef. subst. rewrite (IH coeffs acc accv Hacc) by lia. try (f_equal; lia).
      + rewrite (IH coeffs _ (accv + v * f)) by (try lia; rewrite add_eval, mul_const_eval, Hacc, Hid; reflexivity).
        f_equal. lia.
  Qed.

  Lemma from_flat_form_eval row ls lv e :
    lvals ls lv ->
    from_flat_form row nd ns ls = Ok e ->
    eval e d s = Ok (rowval row lv).
  Proof.
    intros Hlv H. unfold from_flat_form in H.
    destruct (negb (length row =? nd + ns + length ls + 1)%nat) eqn:Hlen; [discriminate|].
    apply negb_false_iff, Nat.eqb_eq in Hlen.
    assert (Hne : row <> []) by (destruct row; simpl in Hlen; [lia|discriminate]).
    apply Ok_inj in H. subst e.
    pose proof (app_removelast_last 0 Hne) as Hrow.
    set (body := removelast row) in *. set (ct := last row 0) in *.
    assert (Hbl : length body = (nd + ns + length ls)%nat).
    { assert (length row = length body + 1)%nat by (rewrite Hrow at 1; rewrite app_length; reflexivity). lia. }
    assert (Hids : Forall2 (fun id v => eval id d s = Ok v)
                     (map Dim (seq 0 nd) ++ map Sym (seq 0 ns) ++ ls) (pre lv)).
    { unfold pre. apply Forall2_app; [|apply Forall2_app; auto].
      - rewrite <- Hd. apply (ids_dims [] d). reflexivity.
      - rewrite <- Hs. apply (ids_syms [] s). reflexivity. }
    assert (Hv : rowval row lv = dot body (pre lv) + ct).
    { unfold rowval. rewrite Hrow. rewrite dot_app by (rewrite pre_length, <- (lvals_length _ _ Hlv); lia).
      simpl. lia. }
    assert (Hfold := fold_terms_eval _ _ Hids body (Const 0) 0 eq_refl).
    rewrite Hv.
    match goal with |- eval (if _ then ?E else _) _ _ = _ => set (folded := E) in * end.
    assert (Hf : eval folded d s = Ok (dot body (pre lv))).
    { subst folded. rewrite Hfold; [f_equal; lia|].
      rewrite !app_length, !map_length, !seq_length. lia. }
    destruct (ct =? 0) eqn:Ect.
    - apply Z.eqb_eq in Ect. rewrite Hf. f_equal. lia.
    - rewrite add_eval, Hf. reflexivity.
  Qed.

  (* ------------------------------------------------------------------ one new local *)
  Lemma Inv_add_local st es lv divisor le v st' :
    Inv st es lv -> eval le d s = Ok v ->
    add_local_floordiv_id nd ns divisor le st = Ok st' ->
    Inv st' es (lv ++ [v]) /\ locals st' = locals st ++ [le] /\
    stack st' = map (insert_at (nd + ns + length lv) 0) (stack st).
  Proof.
    intros [Hl Hrows] He H. unfold add_local_floordiv_id in H.
    destruct (divisor <=? 0); [discriminate|]. apply Ok_inj in H. subst st'. simpl.
    unfold local_start. rewrite (lvals_length _ _ Hl).
    split; [|split; reflexivity]. split; simpl.
    - apply lvals_snoc; auto.
    - clear Hl. induction Hrows as [|row e rows es' Hre Hr IH]; simpl; constructor; auto.
      apply row_ok_extend; auto.
  Qed.

  (* ------------------------------------------------------------------ leaves *)
  Lemma Inv_push st es lv row e :
    Inv st es lv -> row_ok lv row e -> Inv (push row st) (e :: es) lv.
  Proof. intros [Hl Hr] Hrow. split; simpl; auto. Qed.

  Lemma num_cols_lv st es lv : Inv st es lv -> num_cols nd ns st = (nd + ns + length lv + 1)%nat.
  Proof. intros [Hl _]. unfold num_cols. rewrite (lvals_length _ _ Hl). reflexivity. Qed.

  Lemma const_row_ok st es lv c :
    Inv st es lv ->
    row_ok lv (unit_row (num_cols nd ns st) (constant_index nd ns st) c) (Const c).
  Proof.
    intros HI. unfold constant_index. rewrite (num_cols_lv _ _ _ HI). split.
    - apply unit_row_length. lia.
    - unfold rowval. simpl.
      replace (nd + ns + length lv + 1 - 1)%nat with (nd + ns + length lv)%nat by lia.
      rewrite (dot_unit _ _ _ _ _ (nth_pre_const lv)). f_equal. lia.
  Qed.

  Lemma const_row_const st es lv c :
    Inv st es lv ->
    nth_error (unit_row (num_cols nd ns st) (constant_index nd ns st) c) (constant_index nd ns st) = Some c.
  Proof.
    intros HI. unfold unit_row. rewrite nth_error_app2 by (rewrite repeat_length; lia).
    rewrite repeat_length, Nat.sub_diag. reflexivity.
  Qed.

  (* ------------------------------------------------------------------ binary visits *)
  Lemma visit_add_inv st es lv l r st' :
    Inv st (r :: l :: es) lv -> visit_add st = Ok st' -> Inv st' (Bin Add l r :: es) lv.
  Proof.
    intros [Hl Hrows] H. unfold visit_add, pop2 in H.
    inversion Hrows as [|rhs er rows1 es1 Hrhs Hrows1 E1 E2]; subst.
    inversion Hrows1 as [|lhs el rows2 es2 Hlhs Hrows2 E3 E4]; subst.
    rewrite <- E1 in H. cbn [bind] in H.
    destruct (negb (length lhs =? length rhs)%nat) eqn:Hlen; [discriminate|].
    apply negb_false_iff, Nat.eqb_eq in Hlen. apply Ok_inj in H. subst st'.
    apply Inv_push; [split; auto|].
    destruct Hrhs as [Lr Er], Hlhs as [Ll El]. split.
    - rewrite map_length, combine_length. lia.
    - simpl. rewrite El, Er. simpl. unfold rowval. rewrite dot_add by auto. reflexivity.
  Qed.

  (* the state after the right operand `Const c` has been visited *)
  Definition with_const (st1 : flat_state) (c : Z) : flat_state :=
    push (unit_row (num_cols nd ns st1) (constant_index nd ns st1) c) st1.

  Lemma pop2_with_const st1 es lv l c :
    Inv st1 (l :: es) lv ->
    exists lhs rest,
      stack st1 = lhs :: rest /\ row_ok lv lhs l /\ Forall2 (row_ok lv) rest es /\
      pop2 (with_const st1 c) =
        Ok (unit_row (num_cols nd ns st1) (constant_index nd ns st1) c, lhs,
            {| stack := rest; locals := locals st1 |}).
  Proof.
    intros [Hl Hrows]. inversion Hrows as [|lhs el rest es1 Hlhs Hrest E1 E2]; subst.
    exists lhs, rest. repeat split; auto; try apply Hlhs.
    unfold pop2, with_const. simpl. rewrite <- E1. reflexivity.
  Qed.

  Lemma row_const_with_const st1 es lv c rest :
    Inv st1 es lv ->
    row_const nd ns {| stack := rest; locals := locals st1 |}
      (unit_row (num_cols nd ns st1) (constant_index nd ns st1) c) = Ok c.
  Proof.
    intros HI. unfold row_const.
    change (constant_index nd ns {| stack := rest; locals := locals st1 |}) with (constant_index nd ns st1).
    rewrite (const_row_const _ _ _ c HI). reflexivity.
  Qed.

  Lemma visit_mul_inv st1 es lv l c st' :
    Inv st1 (l :: es) lv -> visit_mul nd ns (Const c) (with_const st1 c) = Ok st' ->
    Inv st' (Bin Mul l (Const c) :: es) lv.
  Proof.
    intros HI H. destruct (pop2_with_const _ _ _ _ c HI) as [lhs [rest [Est [[Ll El] [Hrest Hpop]]]]].
    unfold visit_mul in H. rewrite Hpop in H. cbn [bind is_const negb] in H.
    rewrite (row_const_with_const _ _ _ c rest HI) in H. cbn [bind] in H.
    apply Ok_inj in H. subst st'. destruct HI as [Hl _].
    apply Inv_push; [split; auto|]. split.
    - rewrite map_length. auto.
    - simpl. rewrite El. simpl. unfold rowval. rewrite dot_scale. reflexivity.
  Qed.

  (* value of the stored local expression, floordiv and ceildiv *)
  Lemma floor_cancel g X c : 0 < g -> 0 < c -> (g * X) / (g * c) = X / c.
  Proof. intros. apply Z.div_mul_cancel_l; lia. Qed.

  Lemma ceil_cancel g X c : 0 < g -> 0 < c -> - (- (g * X) / (g * c)) = - (- X / c).
  Proof.
    intros. replace (- (g * X)) with (g * - X) by lia. rewrite Z.div_mul_cancel_l by lia. reflexivity.
  Qed.

  Lemma visit_div_inv st1 es lv l c is_ceil st' :
    Inv st1 (l :: es) lv ->
    visit_div nd ns (Const c) is_ceil (with_const st1 c) = Ok st' ->
    exists lv', Inv st' (Bin (if is_ceil then CeilDiv else FloorDiv) l (Const c) :: es) lv'.
  Proof.
    intros HI H. destruct (pop2_with_const _ _ _ _ c HI) as [lhs [rest [Est [[Ll El] [Hrest Hpop]]]]].
    unfold visit_div in H. rewrite Hpop in H. cbn [bind is_const negb] in H.
    rewrite (row_const_with_const _ _ _ c rest HI) in H. cbn [bind] in H.
    destruct (c <=? 0) eqn:Hc; [discriminate|]. apply Z.leb_gt in Hc.
    destruct (gcd_row_spec lhs c Hc) as [Hg [Hgc Hgl]].
    set (g := gcd_row lhs c) in *.
    rewrite div_by_gcd_norm in H.
    set (lhs' := map (fun l0 => l0 / g) lhs) in *.
    set (st0 := {| stack := rest; locals := locals st1 |}) in *.
    assert (HI0 : Inv st0 es lv) by (destruct HI as [Hl _]; split; auto).
    assert (Hc' : c = g * (c / g)) by (apply Zdivide_Zdiv_eq; auto).
    assert (Hdv : 0 < c / g) by (apply Z.div_str_pos; split; auto; apply Z.divide_pos_le; auto).
    set (dv := c / g) in *.
    assert (HX : rowval lhs lv = g * rowval lhs' lv) by (unfold rowval; apply dot_div; auto).
    assert (Ll' : length lhs' = (nd + ns + length lv + 1)%nat) by (unfold lhs'; rewrite map_length; auto).
    (* the value of the division *)
    assert (Hval : eval (Bin (if is_ceil then CeilDiv else FloorDiv) l (Const c)) d s =
                   Ok (if is_ceil then - (- rowval lhs' lv / dv) else rowval lhs' lv / dv)).
    { assert ((c =? 0) = false) as Hz by (apply Z.eqb_neq; lia).
      destruct is_ceil; simpl; rewrite El; cbn [bind]; rewrite HX; simpl; rewrite Hz; f_equal.
      - rewrite Hc' at 1. apply ceil_cancel; auto.
      - rewrite Hc' at 1. apply floor_cancel; auto. }
    destruct (dv =? 1) eqn:Hd1.
    - (* divisor 1: the division disappears *)
      apply Z.eqb_eq in Hd1. apply Ok_inj in H. subst st'. exists lv.
      apply Inv_push; auto. split; auto. rewrite Hval. rewrite Hd1.
      destruct is_ceil; f_equal; rewrite ?Z.div_1_r; lia.
    - apply bind_ok in H. destruct H as [a [Ha H]].
      apply bind_ok in H. destruct H as [div_expr [Hde H]].
      assert (Ea : eval a d s = Ok (rowval lhs' lv)) by (eapply from_flat_form_eval; [apply HI0|exact Ha]).
      assert (Ede : eval div_expr d s = Ok (if is_ceil then - (- rowval lhs' lv / dv) else rowval lhs' lv / dv)).
      { assert ((dv =? 0) = false) as Hz by (apply Z.eqb_neq; lia).
        destruct is_ceil.
        - rewrite (divlike_eval CeilDiv _ _ _ d s Hde), Ea. simpl. rewrite Hz. reflexivity.
        - rewrite (divlike_eval FloorDiv _ _ _ d s Hde), Ea. simpl. rewrite Hz. reflexivity. }
      destruct (find_local_id (locals st0) div_expr) as [loc|] eqn:Hfind.
      + (* reuse an existing local *)
        cbn [bind] in H. apply Ok_inj in H. subst st'. exists lv.
        apply find_local_id_spec in Hfind.
        destruct HI0 as [Hl0 Hr0].
        destruct (Forall2_nth_error_l _ _ _ _ _ Hl0 Hfind) as [v [Hv Hev]].
        apply Inv_push; [split; auto|]. split.
        * rewrite (num_cols_lv st0 es lv) by (split; auto). apply unit_row_length.
          assert (loc < length lv)%nat by (apply nth_error_Some; congruence). unfold local_start. lia.
        * rewrite Hval. rewrite Ede in Hev. apply Ok_inj in Hev. rewrite Hev.
          unfold rowval, local_start. rewrite (dot_unit _ _ _ _ _ (nth_pre_local lv loc v Hv)). f_equal. lia.
      + (* a new local *)
        apply bind_ok in H. destruct H as [[loc st2] [Hadd H]].
        apply bind_ok in Hadd. destruct Hadd as [st2' [Hadd Hloc]]. apply Ok_inj in Hloc.
        inversion Hloc; subst loc st2'; clear Hloc. apply Ok_inj in H. subst st'.
        destruct (Inv_add_local _ _ _ _ _ _ _ HI0 Ede Hadd) as [HI2 [Hlocs Hstack]].
        eexists. apply Inv_push; [exact HI2|].
        assert (Hlen2 : length (locals st2) = S (length lv)).
        { destruct HI0 as [Hl0 _]. rewrite Hlocs, app_length, (lvals_length _ _ Hl0). simpl. lia. }
        split.
        * rewrite app_length. simpl. unfold num_cols. rewrite Hlen2.
          replace (nd + ns + (length lv + 1) + 1)%nat with (nd + ns + S (length lv) + 1)%nat by lia.
          apply unit_row_length. unfold local_start. lia.
        * rewrite Hval. unfold rowval, local_start, num_cols. rewrite Hlen2.
          replace (nd + ns + (S (length lv) - 1))%nat with (nd + ns + length lv)%nat by lia.
          assert (Hn : nth_error (pre (lv ++ [if is_ceil then - (- rowval lhs' lv / dv) else rowval lhs' lv / dv]) ++ [1])
                         (nd + ns + length lv) =
                       Some (if is_ceil then - (- rowval lhs' lv / dv) else rowval lhs' lv / dv)).
          { apply nth_pre_local. rewrite nth_error_app2 by lia. rewrite Nat.sub_diag. reflexivity. }
          rewrite (dot_unit _ _ _ _ _ Hn). rewrite Z.mul_1_l. reflexivity.
  Qed.

  Lemma forallb_mod_divides c row :
    forallb (fun l => l mod c =? 0) row = true -> c <> 0 -> Forall (fun l => (c | l)) row.
  Proof.
    intros H Hc. apply Forall_forall. intros x Hx.
    rewrite forallb_forall in H. specialize (H x Hx). apply Z.eqb_eq in H.
    apply Z.mod_divide; auto.
  Qed.

  Lemma visit_mod_inv st1 es lv l c st' :
    Inv st1 (l :: es) lv ->
    visit_mod nd ns (Const c) (with_const st1 c) = Ok st' ->
    exists lv', Inv st' (Bin Mod l (Const c) :: es) lv'.
  Proof.
    intros HI H. destruct (pop2_with_const _ _ _ _ c HI) as [lhs [rest [Est [[Ll El] [Hrest Hpop]]]]].
    unfold visit_mod in H. rewrite Hpop in H. cbn [bind is_const negb] in H.
    rewrite (row_const_with_const _ _ _ c rest HI) in H. cbn [bind] in H.
    destruct (negb (0 <? c)) eqn:Hc; [discriminate|].
    apply negb_false_iff, Z.ltb_lt in Hc.
    set (st0 := {| stack := rest; locals := locals st1 |}) in *.
    assert (HI0 : Inv st0 es lv) by (destruct HI as [Hl _]; split; auto).
    assert (Hz : (c =? 0) = false) by (apply Z.eqb_neq; lia).
    assert (Hval : eval (Bin Mod l (Const c)) d s = Ok (rowval lhs lv mod c)).
    { simpl. rewrite El. simpl. rewrite Hz. reflexivity. }
    destruct (forallb (fun l0 => l0 mod c =? 0) lhs) eqn:Hall.
    - (* every coefficient is a multiple of c *)
      apply Ok_inj in H. subst st'. exists lv. apply Inv_push; auto. split.
      + rewrite map_length. auto.
      + rewrite Hval. unfold rowval at 2. rewrite dot_zero. f_equal.
        apply Z.mod_divide; [lia|]. unfold rowval. apply dot_divides.
        apply forallb_mod_divides; auto. lia.
    - destruct (gcd_row_spec lhs c Hc) as [Hg [Hgc Hgl]].
      set (g := gcd_row lhs c) in *.
      rewrite div_by_gcd_norm in H.
      set (lhs' := map (fun l0 => l0 / g) lhs) in *.
      assert (Hc' : c = g * (c / g)) by (apply Zdivide_Zdiv_eq; auto).
      assert (Hdv : 0 < c / g) by (apply Z.div_str_pos; split; auto; apply Z.divide_pos_le; auto).
      set (dv := c / g) in *.
      assert (HX : rowval lhs lv = g * rowval lhs' lv) by (unfold rowval; apply dot_div; auto).
      apply bind_ok in H. destruct H as [a [Ha H]].
      apply bind_ok in H. destruct H as [fde [Hde H]].
      assert (Ea : eval a d s = Ok (rowval lhs' lv)) by (eapply from_flat_form_eval; [apply HI0|exact Ha]).
      assert (Ede : eval fde d s = Ok (rowval lhs lv / c)).
      { assert ((dv =? 0) = false) as Hz' by (apply Z.eqb_neq; lia).
        rewrite (divlike_eval FloorDiv _ _ _ d s Hde), Ea. simpl. rewrite Hz'. f_equal.
        rewrite HX. rewrite Hc' at 1. symmetry. apply floor_cancel; auto. }
      destruct (find_local_id (locals st0) fde) as [loc|] eqn:Hfind.
      + apply Ok_inj in H. subst st'. exists lv.
        apply find_local_id_spec in Hfind. destruct HI0 as [Hl0 Hr0].
        destruct (Forall2_nth_error_l _ _ _ _ _ Hl0 Hfind) as [v [Hv Hev]].
        rewrite Ede in Hev. apply Ok_inj in Hev.
        assert (loc < length lv)%nat by (apply nth_error_Some; congruence).
        apply Inv_push; [split; auto|]. split.
        * rewrite sub_at_length. auto.
        * rewrite Hval. unfold rowval, local_start.
          rewrite (dot_sub_at _ _ _ _ _ (nth_pre_local lv loc v Hv)) by lia.
          f_equal. rewrite <- Hev. fold (rowval lhs lv). rewrite Z.mod_eq by lia. lia.
      + apply bind_ok in H. destruct H as [st2 [Hadd H]]. apply Ok_inj in H. subst st'.
        destruct (Inv_add_local _ _ _ _ _ _ _ HI0 Ede Hadd) as [HI2 [Hlocs Hstack]].
        eexists. apply Inv_push; [exact HI2|]. split.
        * rewrite insert_at_length, app_length. simpl. lia.
        * rewrite Hval. replace (length lhs - 1)%nat with (nd + ns + length lv)%nat by lia.
          rewrite rowval_insert by lia. f_equal. rewrite Z.mod_eq by lia. lia.
  Qed.

  (* ------------------------------------------------------------------ the walk *)
  Lemma visit_nonconst_raises_mul r st : is_const r = false -> forall st', visit_mul nd ns r st <> Ok st'.
  Proof.
    intros Hr st' H. unfold visit_mul in H. destruct (pop2 st) as [[[a b] c]|]; simpl in H; [|discriminate].
    rewrite Hr in H. discriminate.
  Qed.
  Lemma visit_nonconst_raises_div r b st : is_const r = false -> forall st', visit_div nd ns r b st <> Ok st'.
  Proof.
    intros Hr st' H. unfold visit_div in H. destruct (pop2 st) as [[[a b'] c]|]; simpl in H; [|discriminate].
    rewrite Hr in H. discriminate.
  Qed.
  Lemma visit_nonconst_raises_mod r st : is_const r = false -> forall st', visit_mod nd ns r st <> Ok st'.
  Proof.
    intros Hr st' H. unfold visit_mod in H. destruct (pop2 st) as [[[a b] c]|]; simpl in H; [|discriminate].
    rewrite Hr in H. discriminate.
  Qed.

  Lemma walk_inv e : forall st st' es lv,
    walk nd ns e st = Ok st' -> Inv st es lv -> exists lv', Inv st' (e :: es) lv'.
  Proof.
    induction e as [p|p|v|k l IHl r IHr]; intros st st' es lv H HI.
    - simpl in H. unfold visit_dim in H. destruct (negb (p <? nd)%nat) eqn:Hp; [discriminate|].
      apply negb_false_iff, Nat.ltb_lt in Hp. apply Ok_inj in H. subst st'. exists lv.
      apply Inv_push; auto.
      assert (Hn : exists x, nth_error d p = Some x).
      { destruct (nth_error d p) eqn:E; eauto. apply nth_error_None in E. lia. }
      destruct Hn as [x Hx]. split.
      + rewrite (num_cols_lv _ _ _ HI). apply unit_row_length. lia.
      + simpl. rewrite Hx. unfold rowval. rewrite (dot_unit _ _ _ _ _ (nth_pre_dim lv p x Hx)). f_equal. lia.
    - simpl in H. unfold visit_sym in H. destruct (negb (p <? ns)%nat) eqn:Hp; [discriminate|].
      apply negb_false_iff, Nat.ltb_lt in Hp. apply Ok_inj in H. subst st'. exists lv.
      apply Inv_push; auto.
      assert (Hn : exists x, nth_error s p = Some x).
      { destruct (nth_error s p) eqn:E; eauto. apply nth_error_None in E. lia. }
      destruct Hn as [x Hx]. split.
      + rewrite (num_cols_lv _ _ _ HI). apply unit_row_length. lia.
      + simpl. rewrite Hx. unfold rowval. rewrite (dot_unit _ _ _ _ _ (nth_pre_sym lv p x Hx)). f_equal. lia.
    - simpl in H. unfold visit_const in H. apply Ok_inj in H. subst st'. exists lv.
      apply Inv_push; auto. eapply const_row_ok; eauto.
    - cbn [walk] in H. apply bind_ok in H. destruct H as [st1 [H1 H]].
      apply bind_ok in H. destruct H as [st2 [H2 H]].
      destruct (IHl _ _ _ _ H1 HI) as [lv1 HI1].
      destruct k.
      + destruct (IHr _ _ _ _ H2 HI1) as [lv2 HI2]. exists lv2. eapply visit_add_inv; eauto.
      + destruct r as [q|q|c|k' l' r']; try (exfalso; eapply visit_nonconst_raises_mul; [|exact H]; reflexivity).
        simpl in H2. unfold visit_const in H2. apply Ok_inj in H2. subst st2.
        exists lv1. eapply visit_mul_inv; eauto.
      + destruct r as [q|q|c|k' l' r']; try (exfalso; eapply visit_nonconst_raises_mod; [|exact H]; reflexivity).
        simpl in H2. unfold visit_const in H2. apply Ok_inj in H2. subst st2.
        eapply visit_mod_inv; eauto.
      + destruct r as [q|q|c|k' l' r']; try (exfalso; eapply visit_nonconst_raises_div; [|exact H]; reflexivity).
        simpl in H2. unfold visit_const in H2. apply Ok_inj in H2. subst st2.
        apply (visit_div_inv _ _ _ _ _ false _ HI1 H).
      + destruct r as [q|q|c|k' l' r']; try (exfalso; eapply visit_nonconst_raises_div; [|exact H]; reflexivity).
        simpl in H2. unfold visit_const in H2. apply Ok_inj in H2. subst st2.
        apply (visit_div_inv _ _ _ _ _ true _ HI1 H).
  Qed.

  Theorem simplify_eval e e' : simplify nd ns e = Ok e' -> eval e' d s = eval e d s.
  Proof.
    unfold simplify, flattener_simplify. intros H.
    destruct (negb (is_pure_affine e)); [discriminate|].
    apply bind_ok in H. destruct H as [st [Hw H]].
    assert (HI0 : Inv {| stack := []; locals := [] |} [] []) by (split; constructor).
    destruct (walk_inv e _ _ _ _ Hw HI0) as [lv [Hl Hrows]].
    inversion Hrows as [|top e0 rest es0 [Ltop Etop] Hrest E1 E2]; subst.
    rewrite <- E1 in H. rewrite Etop. eapply from_flat_form_eval; eauto.
  Qed.
End Simp.
