(* C26/ProofsSimplifyTotal.v -- non-vacuity of the simplifier theorem: `simplify` returns
   (raises nothing) on every pure affine expression whose dimensions/symbols are in range,
   whose products have the constant on the right and whose divisors are positive constants. *)
From Coq Require Import ZArith List Bool Arith Lia.
From XV Require Import C26.Model C26.ProofsAlg C26.ProofsSimplify.
Import ListNotations.
Local Open Scope Z_scope.

Section Total.
  Variables (nd ns : nat).

  Fixpoint flattenable (e : expr) : Prop :=
    match e with
    | Dim p => (p < nd)%nat
    | Sym p => (p < ns)%nat
    | Const _ => True
    | Bin Add l r => flattenable l /\ flattenable r
    | Bin Mul l r => (exists c, r = Const c) /\ flattenable l
    | Bin _ l r => (exists c, r = Const c /\ 0 < c) /\ flattenable l
    end.

  Lemma flattenable_pure e : flattenable e -> is_pure_affine e = true.
  Proof.
    induction e as [p|p|v|k l IHl r IHr]; simpl; auto. intros H. destruct k.
    - destruct H as [Hl Hr]. rewrite IHl, IHr; auto.
    - destruct H as [[c ->] Hl]. simpl. rewrite IHl; auto. rewrite orb_true_r. reflexivity.
    - destruct H as [[c [-> _]] Hl]. simpl. auto.
    - destruct H as [[c [-> _]] Hl]. simpl. auto.
    - destruct H as [[c [-> _]] Hl]. simpl. auto.
  Qed.

  (* every row has the current number of columns *)
  Definition WF (st : flat_state) : Prop :=
    Forall (fun row => length row = num_cols nd ns st) (stack st).

  Lemma WF_push st row : WF st -> length row = num_cols nd ns st -> WF (push row st).
  Proof. intros H Hr. unfold WF, push. simpl. constructor; auto. Qed.

  Lemma from_flat_form_total row ls :
    length row = (nd + ns + length ls + 1)%nat -> exists e, from_flat_form row nd ns ls = Ok e.
  Proof.
    intros H. unfold from_flat_form. rewrite H, Nat.eqb_refl. simpl. eauto.
  Qed.

  Lemma unit_row_nth n i x : (i < n)%nat -> nth_error (unit_row n i x) i = Some x.
  Proof.
    intros H. unfold unit_row. rewrite nth_error_app2 by (rewrite repeat_length; lia).
    rewrite repeat_length, Nat.sub_diag. reflexivity.
  Qed.

  (* a step: succeeds, keeps WF, grows the stack by exactly one row *)
  Definition step_ok (st : flat_state) (r : res flat_state) : Prop :=
    exists st', r = Ok st' /\ WF st' /\ length (stack st') = S (length (stack st)).

  Lemma add_local_total divisor le st :
    0 < divisor -> WF st ->
    exists st', add_local_floordiv_id nd ns divisor le st = Ok st' /\ WF st' /\
                length (stack st') = length (stack st) /\ locals st' = locals st ++ [le].
  Proof.
    intros Hdv HW. unfold add_local_floordiv_id.
    assert ((divisor <=? 0) = false) as -> by (apply Z.leb_gt; auto).
    eexists. split; [reflexivity|]. simpl. split; [|split; [apply map_length|reflexivity]].
    unfold WF, num_cols in *. simpl. rewrite app_length. simpl.
    apply Forall_forall. intros row Hin. apply in_map_iff in Hin. destruct Hin as [row0 [<- Hin0]].
    rewrite insert_at_length. rewrite Forall_forall in HW. rewrite (HW _ Hin0). lia.
  Qed.

  Lemma walk_total e : flattenable e -> forall st, WF st -> step_ok st (walk nd ns e st).
  Proof.
    induction e as [p|p|v|k l IHl r IHr]; intros He st HW.
    - simpl in *. unfold visit_dim. apply Nat.ltb_lt in He. rewrite He. simpl.
      eexists. split; [reflexivity|]. split; [|reflexivity].
      apply WF_push; auto. apply unit_row_length. apply Nat.ltb_lt in He. unfold num_cols. lia.
    - simpl in *. unfold visit_sym. apply Nat.ltb_lt in He. rewrite He. simpl.
      eexists. split; [reflexivity|]. split; [|reflexivity].
      apply WF_push; auto. apply unit_row_length. apply Nat.ltb_lt in He. unfold num_cols. lia.
    - simpl. unfold visit_const. eexists. split; [reflexivity|]. split; [|reflexivity].
      apply WF_push; auto. apply unit_row_length. unfold constant_index, num_cols. lia.
    - assert (Hl : flattenable l) by (destruct k; simpl in He; tauto).
      destruct (IHl Hl st HW) as [st1 [E1 [W1 L1]]].
      cbn [walk]. rewrite E1. cbn [bind].
      assert (Hr : flattenable r).
      { destruct k; simpl in He.
        - tauto.
        - destruct He as [[c ->] _]. exact I.
        - destruct He as [[c [-> _]] _]. exact I.
        - destruct He as [[c [-> _]] _]. exact I.
        - destruct He as [[c [-> _]] _]. exact I. }
      destruct (IHr Hr st1 W1) as [st2 [E2 [W2 L2]]].
      rewrite E2. cbn [bind].
      (* the two operand rows *)
      destruct (stack st2) as [|rhs [|lhs rest]] eqn:Est2; simpl in L2; try lia.
      assert (Hrhs : length rhs = num_cols nd ns st2) by (unfold WF in W2; rewrite Est2 in W2; inversion W2; auto).
      assert (Hlhs : length lhs = num_cols nd ns st2)
        by (unfold WF in W2; rewrite Est2 in W2; inversion W2 as [|? ? ? W3]; inversion W3; auto).
      assert (Hrest : Forall (fun row => length row = num_cols nd ns st2) rest)
        by (unfold WF in W2; rewrite Est2 in W2; inversion W2 as [|? ? ? W3]; inversion W3; auto).
      set (st0 := {| stack := rest; locals := locals st2 |}).
      assert (W0 : WF st0) by exact Hrest.
      assert (Hlen0 : S (length (stack st0)) = S (length (stack st))) by (simpl; lia).
      assert (Hpop : pop2 st2 = Ok (rhs, lhs, st0)) by (unfold pop2; rewrite Est2; reflexivity).
      destruct k.
      + (* Add *)
        unfold visit_add. rewrite Hpop. cbn [bind].
        rewrite Hlhs, Hrhs, Nat.eqb_refl. simpl.
        eexists. split; [reflexivity|]. split; [|simpl; lia].
        apply WF_push; auto. rewrite map_length, combine_length. unfold num_cols in *. simpl. lia.
      + (* Mul *)
        destruct He as [[c ->] _]. unfold visit_mul. rewrite Hpop. cbn [bind is_const negb].
        unfold row_const.
        destruct (nth_error rhs (constant_index nd ns st0)) as [rc|] eqn:Erc.
        2:{ apply nth_error_None in Erc. unfold constant_index, num_cols in *. simpl in Erc. lia. }
        cbn [bind]. eexists. split; [reflexivity|]. split; [|simpl; lia].
        apply WF_push; auto. rewrite map_length. exact Hlhs.
      + (* Mod *)
        destruct He as [[c [-> Hc]] _].
        simpl in E2. unfold visit_const in E2. apply Ok_inj in E2.
        assert (Erhs : rhs = unit_row (num_cols nd ns st1) (constant_index nd ns st1) c)
          by (rewrite <- E2 in Est2; simpl in Est2; inversion Est2; auto).
        assert (Eloc : locals st2 = locals st1) by (rewrite <- E2; reflexivity).
        unfold visit_mod. rewrite Hpop. cbn [bind is_const negb].
        unfold row_const.
        replace (constant_index nd ns st0) with (constant_index nd ns st1)
          by (unfold constant_index, num_cols; simpl; rewrite Eloc; reflexivity).
        rewrite Erhs, unit_row_nth by (unfold constant_index, num_cols; lia).
        cbn [bind]. assert ((0 <? c) = true) as -> by (apply Z.ltb_lt; auto). simpl.
        destruct (forallb (fun l0 => l0 mod c =? 0) lhs).
        * eexists. split; [reflexivity|]. split; [|simpl; lia].
          apply WF_push; auto. rewrite map_length. exact Hlhs.
        * rewrite div_by_gcd_norm.
          destruct (gcd_row_spec lhs c Hc) as [Hg [Hgc _]].
          assert (Hdv : 0 < c / gcd_row lhs c)
            by (apply Z.div_str_pos; split; auto; apply Z.divide_pos_le; auto).
          change (locals st2) with (locals st0).
          destruct (from_flat_form_total (map (fun l0 => l0 / gcd_row lhs c) lhs) (locals st0)) as [a Ha].
          { rewrite map_length, Hlhs. reflexivity. }
          rewrite Ha. cbn [bind].
          destruct (divlike_pos_total FloorDiv a (c / gcd_row lhs c)) as [fde Hde]; [lia|].
          unfold floordiv. rewrite Hde. cbn [bind].
          destruct (find_local_id (locals st0) fde).
          -- eexists. split; [reflexivity|]. split; [|simpl; lia].
             apply WF_push; auto. rewrite sub_at_length. exact Hlhs.
          -- destruct (add_local_total (c / gcd_row lhs c) fde st0 Hdv W0) as [st3 [E3 [W3 [L3 Loc3]]]].
             rewrite E3. cbn [bind]. eexists. split; [reflexivity|]. split; [|simpl; lia].
             apply WF_push; auto. rewrite insert_at_length, Hlhs.
             unfold num_cols. rewrite Loc3, app_length. simpl. lia.
      + (* FloorDiv *)
        destruct He as [[c [-> Hc]] _].
        simpl in E2. unfold visit_const in E2. apply Ok_inj in E2.
        assert (Erhs : rhs = unit_row (num_cols nd ns st1) (constant_index nd ns st1) c)
          by (rewrite <- E2 in Est2; simpl in Est2; inversion Est2; auto).
        assert (Eloc : locals st2 = locals st1) by (rewrite <- E2; reflexivity).
        unfold visit_div. rewrite Hpop. cbn [bind is_const negb].
        unfold row_const.
        replace (constant_index nd ns st0) with (constant_index nd ns st1)
          by (unfold constant_index, num_cols; simpl; rewrite Eloc; reflexivity).
        rewrite Erhs, unit_row_nth by (unfold constant_index, num_cols; lia).
        cbn [bind]. assert ((c <=? 0) = false) as -> by (apply Z.leb_gt; auto).
        rewrite div_by_gcd_norm.
        destruct (gcd_row_spec lhs c Hc) as [Hg [Hgc _]].
        assert (Hdv : 0 < c / gcd_row lhs c)
          by (apply Z.div_str_pos; split; auto; apply Z.divide_pos_le; auto).
        destruct (c / gcd_row lhs c =? 1).
        * eexists. split; [reflexivity|]. split; [|simpl; lia].
          apply WF_push; auto. rewrite map_length. exact Hlhs.
        * change (locals st2) with (locals st0).
          destruct (from_flat_form_total (map (fun l0 => l0 / gcd_row lhs c) lhs) (locals st0)) as [a Ha].
          { rewrite map_length, Hlhs. reflexivity. }
          rewrite Ha. cbn [bind].
          destruct (divlike_pos_total FloorDiv a (c / gcd_row lhs c)) as [de Hde]; [lia|].
          unfold floordiv. rewrite Hde. cbn [bind].
          destruct (find_local_id (locals st0) de) as [loc|] eqn:Hf.
          -- cbn [bind]. eexists. split; [reflexivity|]. split; [|simpl; lia].
             apply WF_push; auto. apply unit_row_length.
             apply find_local_id_spec in Hf.
             assert (loc < length (locals st0))%nat by (apply nth_error_Some; congruence).
             unfold num_cols, local_start. lia.
          -- destruct (add_local_total (c / gcd_row lhs c) de st0 Hdv W0) as [st3 [E3 [W3 [L3 Loc3]]]].
             rewrite E3. cbn [bind]. eexists. split; [reflexivity|]. split; [|simpl; lia].
             apply WF_push; auto. apply unit_row_length.
             unfold num_cols, local_start. rewrite Loc3, app_length. simpl. lia.
      + (* CeilDiv *)
        destruct He as [[c [-> Hc]] _].
        simpl in E2. unfold visit_const in E2. apply Ok_inj in E2.
        assert (Erhs : rhs = unit_row (num_cols nd ns st1) (constant_index nd ns st1) c)
          by (rewrite <- E2 in Est2; simpl in Est2; inversion Est2; auto).
        assert (Eloc : locals st2 = locals st1) by (rewrite <- E2; reflexivity).
        unfold visit_div. rewrite Hpop. cbn [bind is_const negb].
        unfold row_const.
        replace (constant_index nd ns st0) with (constant_index nd ns st1)
          by (unfold constant_index, num_cols; simpl; rewrite Eloc; reflexivity).
        rewrite Erhs, unit_row_nth by (unfold constant_index, num_cols; lia).
        cbn [bind]. assert ((c <=? 0) = false) as -> by (apply Z.leb_gt; auto).
        rewrite div_by_gcd_norm.
        destruct (gcd_row_spec lhs c Hc) as [Hg [Hgc _]].
        assert (Hdv : 0 < c / gcd_row lhs c)
          by (apply Z.div_str_pos; split; auto; apply Z.divide_pos_le; auto).
        destruct (c / gcd_row lhs c =? 1).
        * eexists. split; [reflexivity|]. split; [|simpl; lia].
          apply WF_push; auto. rewrite map_length. exact Hlhs.
        * change (locals st2) with (locals st0).
          destruct (from_flat_form_total (map (fun l0 => l0 / gcd_row lhs c) lhs) (locals st0)) as [a Ha].
          { rewrite map_length, Hlhs. reflexivity. }
          rewrite Ha. cbn [bind].
          destruct (divlike_pos_total CeilDiv a (c / gcd_row lhs c)) as [de Hde]; [lia|].
          unfold ceildiv. rewrite Hde. cbn [bind].
          destruct (find_local_id (locals st0) de) as [loc|] eqn:Hf.
          -- cbn [bind]. eexists. split; [reflexivity|]. split; [|simpl; lia].
             apply WF_push; auto. apply unit_row_length.
             apply find_local_id_spec in Hf.
             assert (loc < length (locals st0))%nat by (apply nth_error_Some; congruence).
             unfold num_cols, local_start. lia.
          -- destruct (add_local_total (c / gcd_row lhs c) de st0 Hdv W0) as [st3 [E3 [W3 [L3 Loc3]]]].
             rewrite E3. cbn [bind]. eexists. split; [reflexivity|]. split; [|simpl; lia].
             apply WF_push; auto. apply unit_row_length.
             unfold num_cols, local_start. rewrite Loc3, app_length. simpl. lia.
  Qed.

  Theorem simplify_total e : flattenable e -> exists e', simplify nd ns e = Ok e'.
  Proof.
    intros He. unfold simplify, flattener_simplify. rewrite (flattenable_pure e He). simpl.
    destruct (walk_total e He {| stack := []; locals := [] |}) as [st [E [W L]]]; [constructor|].
    rewrite E. cbn [bind]. destruct (stack st) as [|top rest] eqn:Est; simpl in L; [lia|].
    apply from_flat_form_total. unfold WF in W. rewrite Est in W. inversion W; auto.
  Qed.
End Total.
