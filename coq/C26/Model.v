(* C26/Model.v -- executable model of xdsl/ir/affine/affine_expr.py, affine_map.py
   (replace_dims_and_symbols, compose) and the expression part of
   xdsl/parser/affine_parser.py.  Definitions only, no proofs.

   Conventions: Python int = Z, `//` = Z.div, `%` = Z.modulo (agree with CPython on
   negatives).  Dimension/symbol positions are `nat` (negative positions, which Python
   would index from the end of the sequence, are outside the model).  Every `raise`
   is an explicit `Raise` result; nothing is totalised.

   Recursion scheme of `__add__`/`__mul__`: the only recursive calls in the Python are
   `self.lhs + fold`, `self.lhs * fold` and `self.lhs * other + self.rhs * other`, all
   with a *constant* right operand.  The model therefore has `add_const e c`
   (= `e.__add__(AffineConstantExpr(c))`) and `mul_const e c` by structural recursion on
   `e`, and `add`/`mul` dispatch to them after the "constant goes right" swap; each arm
   is annotated with the Python line it mirrors (line numbers of affine_expr.py). *)
From Coq Require Import ZArith List Bool Arith.
Import ListNotations.
Local Open Scope Z_scope.

(* ------------------------------------------------------------------ results *)
Inductive err :=
| ZeroDiv        (* ZeroDivisionError *)
| IndexErr       (* IndexError *)
| NotImpl        (* NotImplementedError *)
| ValueErr       (* ValueError *)
| AssertErr      (* AssertionError *)
| ParseErr       (* xdsl ParseError *)
| OutOfFuel.     (* model artefact; theorems show it does not occur *)

Inductive res (A : Type) := Ok (a : A) | Raise (e : err).
Arguments Ok {A} a.
Arguments Raise {A} e.

Definition bind {A B} (r : res A) (f : A -> res B) : res B :=
  match r with Ok a => f a | Raise e => Raise e end.
Notation "'do' x <- r ; k" := (bind r (fun x => k)) (at level 200, x name, r at level 100, k at level 200).
Notation "'do' ' p <- r ; k" := (bind r (fun p => k)) (at level 200, p pattern, r at level 100, k at level 200).

Fixpoint mapM {A B} (f : A -> res B) (l : list A) : res (list B) :=
  match l with
  | [] => Ok []
  | x :: r => do y <- f x; do ys <- mapM f r; Ok (y :: ys)
  end.

(* ------------------------------------------------------------------ trees *)
Inductive kind := Add | Mul | Mod | FloorDiv | CeilDiv.

Inductive expr :=
| Dim (p : nat)                     (* AffineDimExpr(position) *)
| Sym (p : nat)                     (* AffineSymExpr(position) *)
| Const (v : Z)                     (* AffineConstantExpr(value) *)
| Bin (k : kind) (l r : expr).      (* AffineBinaryOpExpr(kind, lhs, rhs) -- raw constructor *)

Definition kind_eqb (a b : kind) : bool :=
  match a, b with
  | Add, Add | Mul, Mul | Mod, Mod | FloorDiv, FloorDiv | CeilDiv, CeilDiv => true
  | _, _ => false
  end.

(* dataclass __eq__: same class and equal fields *)
Fixpoint expr_eqb (a b : expr) : bool :=
  match a, b with
  | Dim p, Dim q => Nat.eqb p q
  | Sym p, Sym q => Nat.eqb p q
  | Const v, Const w => Z.eqb v w
  | Bin k l r, Bin k' l' r' => kind_eqb k k' && expr_eqb l l' && expr_eqb r r'
  | _, _ => false
  end.

Definition is_const (e : expr) : bool := match e with Const _ => true | _ => false end.

(* ------------------------------------------------------------------ eval (l.182-207) *)
(* the five arithmetic arms of AffineExpr.eval *)
Definition eval_kind (k : kind) (lhs rhs : Z) : res Z :=
  match k with
  | Add => Ok (lhs + rhs)
  | Mul => Ok (lhs * rhs)
  | Mod => if rhs =? 0 then Raise ZeroDiv else Ok (lhs mod rhs)
  | FloorDiv => if rhs =? 0 then Raise ZeroDiv else Ok (lhs / rhs)
  | CeilDiv => if rhs =? 0 then Raise ZeroDiv else Ok (- ((- lhs) / rhs))
  end.

Fixpoint eval (e : expr) (dims syms : list Z) : res Z :=
  match e with
  | Const v => Ok v
  | Dim p => match nth_error dims p with Some v => Ok v | None => Raise IndexErr end
  | Sym p => match nth_error syms p with Some v => Ok v | None => Raise IndexErr end
  | Bin k l r =>
      do a <- eval l dims syms;
      do b <- eval r dims syms;
      eval_kind k a b
  end.

(* ------------------------------------------------------------------ _try_fold_constant (l.209-227) *)
Definition fold_kind (k : kind) (a b : Z) : res Z :=
  match k with
  | Add => Ok (a + b)
  | Mul => Ok (a * b)
  | Mod => if b =? 0 then Raise ZeroDiv else Ok (a mod b)
  | FloorDiv => if b =? 0 then Raise ZeroDiv else Ok (a / b)
  | CeilDiv => if b =? 0 then Raise ZeroDiv else Ok (- ((- a) / b))
  end.

Definition try_fold_constant (self other : expr) (k : kind) : res (option expr) :=
  match self, other with
  | Const a, Const b => do v <- fold_kind k a b; Ok (Some (Const v))
  | _, _ => Ok None
  end.

(* ------------------------------------------------------------------ __add__ / _simplify_add (l.229-254) *)
(* e.__add__(AffineConstantExpr c) *)
Fixpoint add_const (e : expr) (c : Z) : expr :=
  match e with
  | Const v => Const (c + v)                 (* l.247 swap (self:=Const c, other:=Const v); l.232 fold *)
  | _ =>
      if c =? 0 then e                       (* l.235 *)
      else match e with
           | Bin Add l (Const r) => add_const l (r + c)   (* l.238-240: self.lhs + Const(self.rhs.value + other.value) *)
           | _ => Bin Add e (Const c)        (* l.241, l.251 *)
           end
  end.

Definition add (a b : expr) : expr :=
  match a, b with
  | Const x, _ => add_const b x              (* l.247: constant goes to the right *)
  | _, Const y => add_const a y
  | _, _ => Bin Add a b                      (* no arm of _simplify_add applies to a non-constant rhs *)
  end.

(* ------------------------------------------------------------------ __mul__ / _simplify_mul (l.267-305) *)
(* e.__mul__(AffineConstantExpr c) -- never raises *)
Fixpoint mul_const (e : expr) (c : Z) : expr :=
  match e with
  | Const v => Const (c * v)                 (* l.292 swap; l.270 fold *)
  | _ =>
      if c =? 1 then e                       (* l.273 *)
      else match e with
           | Bin Mul l (Const r) => mul_const l (r * c)                 (* l.276-278 *)
           | Bin Add l r => add (mul_const l c) (mul_const r c)         (* l.280-285 *)
           | _ => Bin Mul e (Const c)        (* l.302 *)
           end
  end.

Definition mul (a b : expr) : res expr :=
  match a, b with
  | Const x, _ => Ok (mul_const b x)
  | _, Const y => Ok (mul_const a y)
  | _, _ => Raise NotImpl                    (* l.296-301 *)
  end.

(* ------------------------------------------------------------------ __floordiv__, ceil_div, __mod__ (l.307-356) *)
Definition divlike (k : kind) (self other : expr) : res expr :=
  do f <- try_fold_constant self other k;    (* fold constants; may raise ZeroDivisionError *)
  match f with
  | Some c => Ok c
  | None => if is_const other then Ok (Bin k self other) else Raise NotImpl
  end.
Definition floordiv := divlike FloorDiv.
Definition ceildiv := divlike CeilDiv.
Definition mod_ := divlike Mod.

(* AffineExpr.binary (l.45-74) *)
Definition binary (k : kind) (lhs rhs : expr) : res expr :=
  match k with
  | Add => Ok (add lhs rhs)
  | Mul => mul lhs rhs
  | Mod => mod_ lhs rhs
  | FloorDiv => floordiv lhs rhs
  | CeilDiv => ceildiv lhs rhs
  end.

(* __neg__ (l.256-259), __sub__ (l.261-262: self + (-1 * other), -1 * other = other.__rmul__(-1)) *)
Definition neg (e : expr) : expr :=
  match e with Const v => Const (- v) | _ => mul_const e (-1) end.
Definition sub (a b : expr) : expr := add a (mul_const b (-1)).
(* __rsub__ (l.264-265) as coded: `c - e` evaluates e.__rsub__(c) = e.__sub__(c) *)
Definition rsub_as_coded (self : expr) (c : Z) : expr := sub self (Const c).
(* the proposed repair: (-self) + other *)
Definition rsub_fixed (self : expr) (c : Z) : expr := add (neg self) (Const c).

(* ------------------------------------------------------------------ replace_dims_and_symbols / compose (l.133-180) *)
Fixpoint replace (e : expr) (new_dims new_syms : list expr) : res expr :=
  match e with
  | Const _ => Ok e
  | Dim p => match nth_error new_dims p with None => Ok e | Some x => Ok x end
  | Sym p => match nth_error new_syms p with None => Ok e | Some x => Ok x end
  | Bin k l r =>
      do l' <- replace l new_dims new_syms;
      do r' <- replace r new_dims new_syms;
      binary k l' r'
  end.

Record amap := { num_dims : nat; num_syms : nat; results : list expr }.

Definition compose_expr (e : expr) (m : amap) : res expr := replace e (results m) [].

(* AffineMap.replace_dims_and_symbols (affine_map.py l.134-157) *)
Definition map_replace (m : amap) (nd ns : list expr) (rd rs : nat) : res amap :=
  do rs' <- mapM (fun e => replace e nd ns) (results m);
  Ok {| num_dims := rd; num_syms := rs; results := rs' |}.

(* AffineMap.compose (affine_map.py l.159-201) *)
Definition map_compose (self other : amap) : res amap :=
  if negb (Nat.eqb (num_dims self) (length (results other))) then Raise ValueErr
  else
    let nd := num_dims other in
    let ns := (num_syms self + num_syms other)%nat in
    let new_dims := map Dim (seq 0 nd) in
    let new_syms := map Sym (seq (num_syms self) (num_syms other)) in
    do new_map <- map_replace other new_dims new_syms nd ns;
    do rs <- mapM (fun e => compose_expr e new_map) (results self);
    Ok {| num_dims := nd; num_syms := ns; results := rs |}.

(* AffineMap.eval (l.269-273) *)
Definition map_eval (m : amap) (dims syms : list Z) : res (list Z) :=
  if negb (Nat.eqb (length dims) (num_dims m)) then Raise AssertErr
  else if negb (Nat.eqb (length syms) (num_syms m)) then Raise AssertErr
  else mapM (fun e => eval e dims syms) (results m).

(* ------------------------------------------------------------------ is_pure_affine (l.427-452) *)
Fixpoint is_pure_affine (e : expr) : bool :=
  match e with
  | Bin Add l r => is_pure_affine l && is_pure_affine r
  | Bin Mul l r => (is_const l || is_const r) && is_pure_affine l && is_pure_affine r
  | Bin _ l r => is_const r && is_pure_affine l
  | _ => true
  end.

(* ------------------------------------------------------------------ from_flat_form (l.76-118) *)
Definition from_flat_form (flat : list Z) (nd ns : nat) (locals : list expr) : res expr :=
  if negb (Nat.eqb (length flat) (nd + ns + length locals + 1)) then Raise AssertErr
  else
    let ids := map Dim (seq 0 nd) ++ map Sym (seq 0 ns) ++ locals in
    let e := fold_left
               (fun acc ef => if snd ef =? 0 then acc else add acc (mul_const (fst ef) (snd ef)))
               (combine ids (removelast flat)) (Const 0) in
    let const_term := last flat 0 in
    Ok (if const_term =? 0 then e else add e (Const const_term)).

(* ------------------------------------------------------------------ SimpleAffineExprFlattener (l.497-833) *)
(* operand_expr_stack: head of the list = top of the Python stack (its last element) *)
Record flat_state := { stack : list (list Z); locals : list expr }.

Section Flattener.
  Variables (nd ns : nat).

  Definition num_cols (st : flat_state) : nat := (nd + ns + length (locals st) + 1)%nat.
  Definition constant_index (st : flat_state) : nat := (num_cols st - 1)%nat.
  Definition local_start : nat := (nd + ns)%nat.

  (* [0]*n with row[i] = v *)
  Definition unit_row (n i : nat) (v : Z) : list Z :=
    repeat 0 i ++ v :: repeat 0 (n - i - 1).
  (* list.insert(i, x) for 0 <= i *)
  Definition insert_at (i : nat) (x : Z) (row : list Z) : list Z :=
    firstn i row ++ x :: skipn i row.
  (* row[i] -= c *)
  Fixpoint sub_at (i : nat) (c : Z) (row : list Z) : list Z :=
    match row, i with
    | [], _ => []
    | x :: r, O => (x - c) :: r
    | x :: r, S i' => x :: sub_at i' c r
    end.
  Definition push (row : list Z) (st : flat_state) : flat_state :=
    {| stack := row :: stack st; locals := locals st |}.

  (* rhs = stack.pop(); lhs = stack.pop()  after `assert len(stack) >= 2` *)
  Definition pop2 (st : flat_state) : res (list Z * list Z * flat_state) :=
    match stack st with
    | rhs :: lhs :: rest => Ok (rhs, lhs, {| stack := rest; locals := locals st |})
    | _ => Raise AssertErr
    end.

  (* math.gcd of abs(l) for l in lhs, and rhs_const *)
  Definition gcd_row (lhs : list Z) (c : Z) : Z := fold_right (fun l g => Z.gcd (Z.abs l) g) c lhs.

  (* find_local_id (l.811-818): list.index or -1 *)
  Fixpoint find_local_id (ls : list expr) (e : expr) : option nat :=
    match ls with
    | [] => None
    | x :: r => if expr_eqb x e then Some O
                else match find_local_id r e with Some i => Some (S i) | None => None end
    end.

  (* add_local_floordiv_id (l.793-809); `dividend` is not used by the Python body.
     divisor > 0 is asserted. *)
  Definition add_local_floordiv_id (divisor : Z) (local_expr : expr) (st : flat_state) : res flat_state :=
    if divisor <=? 0 then Raise AssertErr
    else Ok {| stack := map (insert_at (local_start + length (locals st)) 0) (stack st);
               locals := locals st ++ [local_expr] |}.

  Definition visit_dim (p : nat) (st : flat_state) : res flat_state :=
    if negb (p <? nd)%nat then Raise AssertErr
    else Ok (push (unit_row (num_cols st) (0 + p) 1) st).
  Definition visit_sym (p : nat) (st : flat_state) : res flat_state :=
    if negb (p <? ns)%nat then Raise AssertErr
    else Ok (push (unit_row (num_cols st) (nd + p) 1) st).
  Definition visit_const (v : Z) (st : flat_state) : res flat_state :=
    Ok (push (unit_row (num_cols st) (constant_index st) v) st).

  Definition visit_add (st : flat_state) : res flat_state :=
    do '(rhs, lhs, st1) <- pop2 st;
    if negb (Nat.eqb (length lhs) (length rhs)) then Raise AssertErr
    else Ok (push (map (fun lr => fst lr + snd lr) (combine lhs rhs)) st1).

  Definition row_const (st : flat_state) (row : list Z) : res Z :=
    match nth_error row (constant_index st) with Some v => Ok v | None => Raise IndexErr end.

  Definition visit_mul (e_rhs : expr) (st : flat_state) : res flat_state :=
    do '(rhs, lhs, st1) <- pop2 st;
    if negb (is_const e_rhs) then Raise NotImpl
    else do rhs_const <- row_const st1 rhs;
         Ok (push (map (fun l => l * rhs_const) lhs) st1).

  Definition visit_div (e_rhs : expr) (is_ceil : bool) (st : flat_state) : res flat_state :=
    do '(rhs, lhs, st1) <- pop2 st;
    if negb (is_const e_rhs) then Raise NotImpl
    else do rhs_const <- row_const st1 rhs;
    if rhs_const <=? 0 then Raise ValueErr
    else
      let g := gcd_row lhs rhs_const in
      let lhs := if negb (g =? 1) then map (fun l => l / g) lhs else lhs in
      let divisor := rhs_const / g in
      if divisor =? 1 then Ok (push lhs st1)
      else
        do a <- from_flat_form lhs nd ns (locals st1);
        let b := Const divisor in
        do div_expr <- (if is_ceil then ceildiv a b else floordiv a b);
        do '(loc, st2) <-
           match find_local_id (locals st1) div_expr with
           | Some loc => Ok (loc, st1)
           | None => do st2 <- add_local_floordiv_id divisor div_expr st1;
                     Ok ((length (locals st2) - 1)%nat, st2)
           end;
        Ok (push (unit_row (num_cols st2) (local_start + loc) 1) st2).

  Definition visit_mod (e_rhs : expr) (st : flat_state) : res flat_state :=
    do '(rhs, lhs, st1) <- pop2 st;
    if negb (is_const e_rhs) then Raise NotImpl
    else do rhs_const <- row_const st1 rhs;
    if negb (0 <? rhs_const) then Raise AssertErr
    else if forallb (fun l => l mod rhs_const =? 0) lhs
    then Ok (push (map (fun _ => 0) lhs) st1)
    else
      let g := gcd_row lhs rhs_const in
      let floor_dividend := if negb (g =? 1) then map (fun l => l / g) lhs else lhs in
      let floor_divisor := rhs_const / g in
      do dividend_expr <- from_flat_form floor_dividend nd ns (locals st1);
      do floor_div_expr <- floordiv dividend_expr (Const floor_divisor);
      match find_local_id (locals st1) floor_div_expr with
      | None =>
          do st2 <- add_local_floordiv_id floor_divisor floor_div_expr st1;
          (* lhs.insert(-1, -rhs_const) *)
          Ok (push (insert_at (length lhs - 1) (- rhs_const) lhs) st2)
      | Some loc =>
          Ok (push (sub_at (local_start + loc) rhs_const lhs) st1)
      end.

  (* the post-order walk of `simplify` (l.762-784) *)
  Fixpoint walk (e : expr) (st : flat_state) : res flat_state :=
    match e with
    | Dim p => visit_dim p st
    | Sym p => visit_sym p st
    | Const v => visit_const v st
    | Bin k l r =>
        do st1 <- walk l st;
        do st2 <- walk r st1;
        match k with
        | Mul => visit_mul r st2
        | Add => visit_add st2
        | Mod => visit_mod r st2
        | FloorDiv => visit_div r false st2
        | CeilDiv => visit_div r true st2
        end
    end.

  (* SimpleAffineExprFlattener.simplify on a fresh flattener *)
  Definition flattener_simplify (e : expr) : res expr :=
    do st <- walk e {| stack := []; locals := [] |};
    match stack st with
    | top :: _ => from_flat_form top nd ns (locals st)
    | [] => Raise IndexErr
    end.

  (* AffineExpr.simplify (l.120-131) *)
  Definition simplify (e : expr) : res expr :=
    if negb (is_pure_affine e) then Raise NotImpl else flattener_simplify e.
End Flattener.

(* ------------------------------------------------------------------ __str__ at token level *)
Inductive ident := IdDim (p : nat) | IdSym (p : nat) | IdMod | IdFloorDiv | IdCeilDiv | IdOther.
Inductive tok :=
| TLParen | TRParen | TPlus | TMinus | TStar
| TInt (v : Z)          (* INTEGER_LIT, value >= 0 *)
| TId (i : ident)       (* BARE_IDENT: d<p>, s<p>, mod, floordiv, ceildiv, anything else *)
| TOther.               (* any other token (`,` `->` `[` ...) *)

Definition kind_tok (k : kind) : tok :=     (* AffineBinaryOpKind.get_token, lexed *)
  match k with
  | Add => TPlus | Mul => TStar | Mod => TId IdMod
  | FloorDiv => TId IdFloorDiv | CeilDiv => TId IdCeilDiv
  end.

(* the token sequence the MLIR lexer produces for str(e) *)
Fixpoint str_toks (e : expr) : list tok :=
  match e with
  | Dim p => [TId (IdDim p)]
  | Sym p => [TId (IdSym p)]
  | Const v => if v <? 0 then [TMinus; TInt (- v)] else [TInt v]
  | Bin k l r => TLParen :: str_toks l ++ kind_tok k :: str_toks r ++ [TRParen]
  end.

(* ------------------------------------------------------------------ AffineParser (expression part) *)
(* _get_token_precedence: _BINOP_PRECEDENCE.get(current_token.text, -1) *)
Definition tok_prec (t : option tok) : Z :=
  match t with
  | Some TPlus | Some TMinus => 10
  | Some TStar | Some (TId IdMod) | Some (TId IdFloorDiv) | Some (TId IdCeilDiv) => 20
  | _ => -1
  end.

(* _create_binop_expr; only called on tokens of precedence >= 0 *)
Definition create_binop (lhs rhs : expr) (t : tok) : res expr :=
  match t with
  | TPlus => Ok (add lhs rhs)
  | TMinus => Ok (sub lhs rhs)
  | TStar => mul lhs rhs
  | TId IdCeilDiv => ceildiv lhs rhs
  | TId IdFloorDiv => floordiv lhs rhs
  | TId IdMod => mod_ lhs rhs
  | _ => Raise ParseErr
  end.

Section Parser.
  Variables (nd ns : nat).   (* the space is (d0..d{nd-1})[s0..s{ns-1}] *)

  Fixpoint parse_primary (fuel : nat) (ts : list tok) : res (expr * list tok) :=
    match fuel with
    | O => Raise OutOfFuel
    | S f =>
        match ts with
        | TId i :: ts' =>                                (* parse_optional_bare_id *)
            match i with
            | IdDim p => if (p <? nd)%nat then Ok (Dim p, ts') else Raise ParseErr
            | IdSym p => if (p <? ns)%nat then Ok (Sym p, ts') else Raise ParseErr
            | _ => Raise ParseErr                        (* "Identifier not in space" *)
            end
        | TLParen :: ts' =>
            do '(e, ts2) <- parse_affine_expr f ts';
            match ts2 with
            | TRParen :: ts3 => Ok (e, ts3)
            | _ => Raise ParseErr                        (* "Expected closing parenthesis" *)
            end
        | TInt v :: ts' => Ok (Const v, ts')
        | TMinus :: ts' =>
            do '(e, ts2) <- parse_primary f ts';
            Ok (neg e, ts2)
        | _ => Raise ParseErr                            (* "Expected primary expression" (also at EOF) *)
        end
    end
  with parse_binop_rhs (fuel : nat) (lhs : expr) (prec : Z) (ts : list tok) : res (expr * list tok) :=
    match fuel with
    | O => Raise OutOfFuel
    | S f =>
        let tp := tok_prec (hd_error ts) in
        if tp <? prec then Ok (lhs, ts)
        else match ts with
             | [] => Raise ParseErr                      (* only if prec < 0 (never passed): EOF consumed as binop, then "Expected primary expression" *)
             | binop :: ts1 =>
                 do '(rhs, ts2) <- parse_primary f ts1;
                 let np := tok_prec (hd_error ts2) in
                 do '(rhs', ts3) <- (if tp <? np then parse_binop_rhs f rhs (tp + 1) ts2 else Ok (rhs, ts2));
                 do lhs' <- create_binop lhs rhs' binop;
                 parse_binop_rhs f lhs' prec ts3
             end
    end
  with parse_affine_expr (fuel : nat) (ts : list tok) : res (expr * list tok) :=
    match fuel with
    | O => Raise OutOfFuel
    | S f =>
        do '(lhs, ts1) <- parse_primary f ts;
        parse_binop_rhs f lhs 0 ts1
    end.

  Definition default_fuel (ts : list tok) : nat := (2 * length ts + 3)%nat.
  Definition parse_expr (ts : list tok) : res (expr * list tok) :=
    parse_affine_expr (default_fuel ts) ts.
End Parser.
