(* C10/Model.v -- executable model of IRDL operation verification, the generated
   accessors and the generated constructor (xdsl/irdl/operations.py).  The record `version`
   selects between the pinned tree and the tree with the proposed repairs C10-1 / C10-2 applied
   (two `if`s; everything else is common).
   Definitions ONLY (no proofs).  Mirrors, statement by statement:
     verify_variadic_same_size, verify_variadic_attr_size, verify_variadic_size,
     the nine accessor classes' `index` methods and BaseAttrAccessor.__get__,
     irdl_op_arg_definition (which accessor object each definition gets),
     irdl_op_verify_arg_list, irdl_op_verify_regions, OpDef.verify (order of checks),
     irdl_build_arg_list, irdl_build_operations_arg / irdl_build_regions_arg (None -> []),
     irdl_op_init (segment-size attribute, same-size check),
     and of xdsl/irdl/constraints.py: VarConstraint.verify / IntVarConstraint.verify over a
     variable-free base constraint, RangeOf.verify, SingleOf.verify, RangeLengthConstraint.verify
     (`.of_length`), IntAttrConstraint.verify (builtin.py), ConstraintContext (attribute and
     integer variables).
   Python ints are Z; exceptions are the explicit constructor `Raise`. *)
From Coq Require Import ZArith List Bool.
Import ListNotations.
Local Open Scope Z_scope.

Inductive exn :=
| VerifyException | IndexError | ZeroDivisionError | ValueError | KeyError
| AttributeError | PyRDLOpDefinitionError.
Inductive res (T : Type) := Ok (t : T) | Raise (e : exn).
Arguments Ok {T} t.
Arguments Raise {T} e.
Definition bind {T U} (r : res T) (f : T -> res U) : res U :=
  match r with Ok t => f t | Raise e => Raise e end.
Notation "'do' x <- a ; b" := (bind a (fun x => b))
  (at level 200, x name, a at level 100, b at level 200).

Definition len {T} (l : list T) : Z := Z.of_nat (length l).
Fixpoint zsum (l : list Z) : Z := match l with [] => 0 | x :: r => x + zsum r end.

(* ---------------------------------------------------------------- definitions *)
(* Single = plain def; Variadic = VariadicDef but not OptionalDef; Optional = OptionalDef
   (a subclass of VariadicDef: isinstance(d, VariadicDef) is true for both). *)
Inductive kind := Single | Optional | Variadic.
Definition is_variadic (k : kind) : bool := match k with Single => false | _ => true end.
Definition is_optional (k : kind) : bool := match k with Optional => true | _ => false end.

(* the option of one construct (operand/result/region/successor):
   SameVariadic<X>Size, AttrSized<X>Segments, or neither *)
Inductive sizeopt := NoOption | SameSize | AttrSized.

(* the segment-size attribute/property as found in `option.container(op)`:
   absent; present but not a DenseArrayBase; a DenseArrayBase (elt_type == i32 ?) with values *)
Inductive seg_attr := Missing | NotDense | Dense (is_i32 : bool) (values : list Z).

(* Which of the two proposed repairs the code under test contains (both false = the pinned tree).
   The harness determines the flags by running the real code on the two known-finding witnesses;
   the correspondence check then validates the selected variant on every generated case.
     fix_attr_sum   : verify_variadic_attr_size rejects negative sizes and compares
                      sum(def_sizes) with the number of arguments           (C10-1.diff)
     fix_same_novar : irdl_op_arg_definition uses the same-size accessors only when a
                      variadic definition exists                              (C10-2.diff) *)
Record version := { fix_attr_sum : bool; fix_same_novar : bool }.

(* ---------------------------------------------------------------- size verification *)
Definition num_variadics (defs : list kind) : Z := len (filter is_variadic defs).

Definition verify_variadic_same_size (length : Z) (defs : list kind) : res unit :=
  let variadic_defs := filter is_variadic defs in
  let has_optional := existsb is_optional variadic_defs in
  if len variadic_defs =? 0 then
    if negb (length =? len defs) then Raise VerifyException else Ok tt
  else if has_optional then
    if negb ((length =? len defs) || (length =? len defs - len variadic_defs))
    then Raise VerifyException else Ok tt
  else
    if length <? len defs - len variadic_defs then Raise VerifyException
    else if negb ((length - len defs) mod (len variadic_defs) =? 0) then Raise VerifyException
    else Ok tt.

(* for l, (name, d) in zip(def_sizes, defs): ... *)
(* `fx` = fix_attr_sum: the `if l < 0` check exists only in the repaired code *)
Fixpoint attr_size_loop (fx : bool) (def_sizes : list Z) (defs : list kind) : res unit :=
  match def_sizes, defs with
  | l :: ss, d :: ds =>
      if fx && (l <? 0) then Raise VerifyException
      else if is_optional d && negb ((l =? 0) || (l =? 1)) then Raise VerifyException
      else if negb (is_variadic d) && negb (l =? 1) then Raise VerifyException
      else attr_size_loop fx ss ds
  | _, _ => Ok tt
  end.

Definition verify_variadic_attr_size (fx : bool) (attr : seg_attr) (defs : list kind) (length : Z)
  : res unit :=
  match attr with
  | Missing => Raise VerifyException                 (* attribute_name not in container *)
  | NotDense => Raise VerifyException                (* not isinstance(attribute, DenseArrayBase) *)
  | Dense false _ => Raise VerifyException           (* attribute.elt_type != i32 *)
  | Dense true def_sizes =>
      if negb (len def_sizes =? len defs) then Raise VerifyException
      else
        do _ <- attr_size_loop fx def_sizes defs;
        (* repaired code only: sum(def_sizes) != len(get_op_constructs(op, construct)) *)
        if fx && negb (zsum def_sizes =? length) then Raise VerifyException else Ok tt
  end.

Definition verify_variadic_size (v : version) (opt : sizeopt) (defs : list kind) (length : Z)
  (attr : seg_attr) : res unit :=
  match opt with
  | AttrSized => verify_variadic_attr_size (fix_attr_sum v) attr defs length
  | _ => verify_variadic_same_size length defs
  end.

(* ---------------------------------------------------------------- python sequence primitives *)
Definition py_index {T} (args : list T) (i : Z) : res T :=
  let j := if i <? 0 then i + len args else i in
  if (j <? 0) || (len args <=? j) then Raise IndexError
  else match nth_error args (Z.to_nat j) with Some x => Ok x | None => Raise IndexError end.

Definition py_clamp (n x : Z) : Z := if x <? 0 then Z.max (x + n) 0 else Z.min x n.
Definition py_slice {T} (args : list T) (start stop : Z) : list T :=
  let s := py_clamp (len args) start in
  let e := py_clamp (len args) stop in
  firstn (Z.to_nat (e - s)) (skipn (Z.to_nat s) args).

(* a // b *)
Definition py_floordiv (a b : Z) : res Z :=
  if b =? 0 then Raise ZeroDivisionError else Ok (a / b).

(* ---------------------------------------------------------------- accessors *)
Inductive accessor :=
| BeforeVariadicSingle (idx : Z)
| AfterVariadicSingle (idx num_defs : Z)
| SameOptional (idx num_defs : Z)
| UniqueVariadic (idx num_defs : Z)
| SameVariadic (idx num_defs num_variadics variadics_encountered : Z)
| SameVariadicSingle (idx num_defs num_variadics variadics_encountered : Z)
| SingleAttr (idx : Z)
| VariadicAttr (idx : Z)
| OptionalAttr (idx : Z).

(* what `getattr(op, name)` returns: one element, None, or a sequence *)
Inductive accres (T : Type) := AOne (x : T) | ANone | AMany (l : list T).
Arguments AOne {T} x.
Arguments ANone {T}.
Arguments AMany {T} l.
Definition accres_list {T} (r : accres T) : list T :=
  match r with AOne x => [x] | ANone => [] | AMany l => l end.

(* BaseAttrAccessor.__get__: container[attribute_name] then attr.get_values() *)
Definition attr_values (attr : seg_attr) : res (list Z) :=
  match attr with
  | Missing => Raise KeyError
  | NotDense => Raise AttributeError
  | Dense _ values => Ok values
  end.

(* values[: idx] for idx >= 0 *)
Definition prefix_sum (values : list Z) (idx : Z) : Z := zsum (firstn (Z.to_nat idx) values).

Definition acc_index {T} (a : accessor) (attr : seg_attr) (args : list T) : res (accres T) :=
  match a with
  | BeforeVariadicSingle idx => do x <- py_index args idx; Ok (AOne x)
  | AfterVariadicSingle idx num_defs => do x <- py_index args (- num_defs + idx); Ok (AOne x)
  | SameOptional idx num_defs =>
      if len args =? num_defs then do x <- py_index args idx; Ok (AOne x) else Ok ANone
  | UniqueVariadic idx num_defs =>
      Ok (AMany (py_slice args idx (idx + len args - num_defs + 1)))
  | SameVariadic idx num_defs nv ve =>
      do variadic_diff <- py_floordiv (len args - num_defs) nv;
      let start := idx + ve * variadic_diff in
      let stop := start + 1 + variadic_diff in
      Ok (AMany (py_slice args start stop))
  | SameVariadicSingle idx num_defs nv ve =>
      do variadic_diff <- py_floordiv (len args - num_defs) nv;
      let start := idx + ve * variadic_diff in
      do x <- py_index args start; Ok (AOne x)
  | SingleAttr idx =>
      do values <- attr_values attr;
      do x <- py_index args (prefix_sum values idx); Ok (AOne x)
  | VariadicAttr idx =>
      do values <- attr_values attr;
      let start := prefix_sum values idx in
      do size <- py_index values idx;
      Ok (AMany (py_slice args start (start + size)))
  | OptionalAttr idx =>
      do values <- attr_values attr;
      do size <- py_index values idx;
      if negb (size =? 0) then do x <- py_index args (prefix_sum values idx); Ok (AOne x)
      else Ok ANone
  end.

(* irdl_op_arg_definition: which accessor each definition gets *)
Fixpoint same_accessors (defs : list kind) (arg_idx variadics_encountered num_defs nv : Z)
  : list accessor :=
  match defs with
  | [] => []
  | d :: r =>
      if is_variadic d then
        (if is_optional d then SameOptional arg_idx num_defs
         else SameVariadic arg_idx num_defs nv variadics_encountered)
        :: same_accessors r (arg_idx + 1) (variadics_encountered + 1) num_defs nv
      else SameVariadicSingle arg_idx num_defs nv variadics_encountered
           :: same_accessors r (arg_idx + 1) variadics_encountered num_defs nv
  end.

Fixpoint attr_accessors (defs : list kind) (arg_idx : Z) : list accessor :=
  match defs with
  | [] => []
  | d :: r =>
      (if is_optional d then OptionalAttr arg_idx
       else if is_variadic d then VariadicAttr arg_idx else SingleAttr arg_idx)
      :: attr_accessors r (arg_idx + 1)
  end.

Fixpoint default_accessors (defs : list kind) (arg_idx num_defs : Z) (before_variadic : bool)
  : res (list accessor) :=
  match defs with
  | [] => Ok []
  | d :: r =>
      if before_variadic then
        if is_variadic d then
          do rest <- default_accessors r (arg_idx + 1) num_defs false;
          Ok ((if is_optional d then SameOptional arg_idx num_defs
               else UniqueVariadic arg_idx num_defs) :: rest)
        else
          do rest <- default_accessors r (arg_idx + 1) num_defs true;
          Ok (BeforeVariadicSingle arg_idx :: rest)
      else
        if is_variadic d then Raise PyRDLOpDefinitionError   (* second variadic, no option *)
        else
          do rest <- default_accessors r (arg_idx + 1) num_defs false;
          Ok (AfterVariadicSingle arg_idx num_defs :: rest)
  end.

Definition irdl_op_arg_definition (v : version) (opt : sizeopt) (defs : list kind)
  : res (list accessor) :=
  match opt with
  | SameSize =>
      (* repaired code only: `and any(isinstance(d, VariadicDef) for _, d in defs)` *)
      if fix_same_novar v && negb (existsb is_variadic defs)
      then default_accessors defs 0 (len defs) true
      else Ok (same_accessors defs 0 0 (len defs) (num_variadics defs))
  | AttrSized => Ok (attr_accessors defs 0)
  | NoOption => default_accessors defs 0 (len defs) true
  end.

(* ---------------------------------------------------------------- constructor *)
(* one constructor argument: None, a single value, or a Sequence of values *)
Inductive barg (T : Type) := BNone | BOne (x : T) | BSeq (l : list T).
Arguments BNone {T}.
Arguments BOne {T} x.
Arguments BSeq {T} l.

Fixpoint build_loop {T} (arg_defs : list kind) (args : list (barg T)) : res (list T * list Z) :=
  match arg_defs, args with
  | d :: ds, a :: r =>
      match a with
      | BNone =>
          if negb (is_optional d) then Raise ValueError
          else do rest <- build_loop ds r; Ok (fst rest, 0 :: snd rest)
      | BSeq l =>
          if negb (is_variadic d) && negb (len l =? 1) then Raise ValueError
          else if is_optional d && (1 <? len l) then Raise ValueError
          else do rest <- build_loop ds r; Ok (l ++ fst rest, len l :: snd rest)
      | BOne x => do rest <- build_loop ds r; Ok (x :: fst rest, 1 :: snd rest)
      end
  | _, _ => Ok ([], [])
  end.

Definition irdl_build_arg_list {T} (arg_defs : list kind) (args : list (barg T))
  : res (list T * list Z) :=
  if negb (len args =? len arg_defs) then Raise ValueError else build_loop arg_defs args.

(* irdl_build_operations_arg / irdl_build_regions_arg: None becomes [] (operands, regions only) *)
Definition none_to_empty {T} (a : barg T) : barg T :=
  match a with BNone => BSeq [] | _ => a end.

(* `variadic_sizes` of the SameVariadicSize case of irdl_op_init *)
Fixpoint variadic_sizes (sizes : list Z) (defs : list kind) : list Z :=
  match sizes, defs with
  | s :: ss, d :: ds => if is_variadic d then s :: variadic_sizes ss ds else variadic_sizes ss ds
  | _, _ => []
  end.
Definition all_same (l : list Z) : bool :=
  match l with [] => true | x :: r => forallb (Z.eqb x) r end.

(* the option handling of irdl_op_init for one construct; `given` is the segment-size
   attribute passed by the caller in `attributes=`/`properties=` (overwritten when AttrSized) *)
Definition init_option (opt : sizeopt) (defs : list kind) (sizes : list Z) (given : seg_attr)
  : res seg_attr :=
  match opt with
  | AttrSized => Ok (Dense true sizes)
  | SameSize => if all_same (variadic_sizes sizes defs) then Ok given else Raise ValueError
  | NoOption => Ok given
  end.

(* ---------------------------------------------------------------- constraints, OpDef.verify *)
Section Verify.
Variable A : Type.                 (* attributes / types *)
Variable A_eqb : A -> A -> bool.   (* attribute equality *)
Variable ver : version.            (* which repairs the code contains *)

(* The value universe A holds attributes AND Python ints (segment lengths, IntAttr payloads):
   `of_int k` is the int k as a value; `as_int a = Some k` iff a is the attribute IntAttr(k). *)
Variable of_int : Z -> A.
Variable as_int : A -> option Z.

(* VarConstraint(name, base) / IntVarConstraint(name, base) when cvar = Some name, else base; base
   is variable-free and is only observed through `verifies`, i.e. as a predicate on values.
   Both classes have the same `verify`: if the name is bound (`name in ..._variables`, whatever the
   bound value, 0 included) compare with the bound value, else check base and bind. *)
Record constr := { cpred : A -> bool; cvar : option nat }.
(* ConstraintContext._variables and ._int_variables as ONE map: attribute-variable names and
   integer-variable names are given disjoint keys (the two Python dicts never interact) *)
Definition cctx := list (nat * A).
Fixpoint ctx_get (v : nat) (ctx : cctx) : option A :=
  match ctx with
  | [] => None
  | (w, a) :: r => if Nat.eqb v w then Some a else ctx_get v r
  end.

Definition verify_attr (c : constr) (a : A) (ctx : cctx) : res cctx :=
  match cvar c with
  | Some v =>
      match ctx_get v ctx with
      | Some b => if A_eqb a b then Ok ctx else Raise VerifyException
      | None => if cpred c a then Ok ((v, a) :: ctx) else Raise VerifyException
      end
  | None => if cpred c a then Ok ctx else Raise VerifyException
  end.

(* RangeOf(c).verify *)
Fixpoint verify_range_of (c : constr) (attrs : list A) (ctx : cctx) : res cctx :=
  match attrs with
  | [] => Ok ctx
  | a :: r => do ctx' <- verify_attr c a ctx; verify_range_of c r ctx'
  end.
(* SingleOf(c).verify *)
Definition verify_single_of (c : constr) (attrs : list A) (ctx : cctx) : res cctx :=
  match attrs with
  | [a] => verify_attr c a ctx
  | _ => Raise VerifyException
  end.

(* RangeLengthConstraint(RangeOf(c), length).verify when a length constraint is given
   (`RangeOf(c).of_length(IntVarConstraint("N", ...))`): the length first, then the elements *)
Definition verify_range (c : constr) (length : option constr) (attrs : list A) (ctx : cctx)
  : res cctx :=
  match length with
  | Some lc => do ctx' <- verify_attr lc (of_int (len attrs)) ctx; verify_range_of c attrs ctx'
  | None => verify_range_of c attrs ctx
  end.

(* alen: the optional length constraint of a variadic/optional definition (a plain definition
   cannot carry one: from_pyrdl rejects a RangeConstraint in operand_def/result_def) *)
Record argdef := { akind : kind; aconstr : constr; alen : option constr }.
(* OperandDef/ResultDef.constr: SingleOf for plain defs, RangeOf[.of_length] for variadic/optional *)
Definition verify_arg_constr (d : argdef) (attrs : list A) (ctx : cctx) : res cctx :=
  match akind d with
  | Single => verify_single_of (aconstr d) attrs ctx
  | _ => verify_range (aconstr d) (alen d) attrs ctx
  end.

(* the loop of irdl_op_verify_arg_list: getattr(op, arg_name) then arg_def.constr.verify *)
Fixpoint verify_args_loop (accs : list accessor) (defs : list argdef) (attr : seg_attr)
  (args : list A) (ctx : cctx) : res cctx :=
  match accs, defs with
  | acc :: accs', d :: defs' =>
      do r <- acc_index acc attr args;
      do ctx' <- verify_arg_constr d (accres_list r) ctx;
      verify_args_loop accs' defs' attr args ctx'
  | _, _ => Ok ctx
  end.

Definition irdl_op_verify_arg_list (opt : sizeopt) (accs : list accessor) (defs : list argdef)
  (attr : seg_attr) (args : list A) (ctx : cctx) : res cctx :=
  do _ <- verify_variadic_size ver opt (map akind defs) (len args) attr;
  verify_args_loop accs defs attr args ctx.

(* a region = its blocks, each block = its argument types *)
Definition region := list (list A).
(* entry_args = RangeOf(rentry)[.of_length(rlen)] *)
Record regiondef := { rkind : kind; rsingle : bool; rentry : constr; rlen : option constr }.

Fixpoint verify_entry_args (c : constr) (lc : option constr) (rs : list region) (ctx : cctx)
  : res cctx :=
  match rs with
  | [] => Ok ctx
  | [] :: r => verify_entry_args c lc r ctx              (* no first block: nothing to check *)
  | (b :: _) :: r => do ctx' <- verify_range c lc b ctx; verify_entry_args c lc r ctx'
  end.

Fixpoint verify_regions_loop (accs : list accessor) (defs : list regiondef) (attr : seg_attr)
  (regions : list region) (ctx : cctx) : res cctx :=
  match accs, defs with
  | acc :: accs', d :: defs' =>
      do r <- acc_index acc attr regions;
      let rs := accres_list r in
      if rsingle d && negb (forallb (fun rg => len rg =? 1) rs) then Raise VerifyException
      else
        do ctx' <- verify_entry_args (rentry d) (rlen d) rs ctx;
        verify_regions_loop accs' defs' attr regions ctx'
  | _, _ => Ok ctx
  end.

(* the constraint of a property/attribute definition: an attribute constraint, or
   IntAttrConstraint(int_constraint): the value must be an IntAttr and its integer payload must
   satisfy the (possibly IntVarConstraint) int constraint *)
Inductive nconstr := NAttr (c : constr) | NIntAttr (ic : constr).
Definition verify_nconstr (nc : nconstr) (a : A) (ctx : cctx) : res cctx :=
  match nc with
  | NAttr c => verify_attr c a ctx
  | NIntAttr ic =>
      match as_int a with
      | Some k => verify_attr ic (of_int k) ctx
      | None => Raise VerifyException                  (* not isa(attr, IntAttr) *)
      end
  end.

(* properties / attributes: definition = (is Opt*Def, constraint); value = present or not *)
Fixpoint verify_named (defs : list (bool * nconstr)) (vals : list (option A)) (ctx : cctx)
  : res cctx :=
  match defs, vals with
  | (optional, c) :: ds, v :: vs =>
      match v with
      | None => if optional then verify_named ds vs ctx else Raise VerifyException
      | Some a => do ctx' <- verify_nconstr c a ctx; verify_named ds vs ctx'
      end
  | _, _ => Ok ctx
  end.

Record opdef := {
  d_operands : list argdef;   d_opopt : sizeopt;
  d_results : list argdef;    d_resopt : sizeopt;
  d_regions : list regiondef; d_regopt : sizeopt;
  d_succs : list kind;        d_sucopt : sizeopt;
  d_props : list (bool * nconstr);
  d_attrs : list (bool * nconstr) }.

Record opinst := {
  o_operands : list A;  o_opseg : seg_attr;       (* operand types, operandSegmentSizes *)
  o_results : list A;   o_resseg : seg_attr;
  o_regions : list region; o_regseg : seg_attr;
  o_succs : list A;     o_sucseg : seg_attr;      (* only the number of successors matters *)
  o_props : list (option A);                      (* aligned with d_props *)
  o_extra_prop : bool;                            (* a property not declared by the definition *)
  o_attrs : list (option A) }.                    (* aligned with d_attrs *)

(* accessors generated at class-definition time (get_accessors_from_op_def) *)
Record accessors := {
  x_operands : list accessor; x_results : list accessor;
  x_regions : list accessor; x_succs : list accessor }.
Definition get_accessors (d : opdef) : res accessors :=
  do a <- irdl_op_arg_definition ver (d_opopt d) (map akind (d_operands d));
  do b <- irdl_op_arg_definition ver (d_resopt d) (map akind (d_results d));
  do c <- irdl_op_arg_definition ver (d_regopt d) (map rkind (d_regions d));
  do e <- irdl_op_arg_definition ver (d_sucopt d) (d_succs d);
  Ok {| x_operands := a; x_results := b; x_regions := c; x_succs := e |}.

(* OpDef.verify *)
Definition opdef_verify (d : opdef) (x : accessors) (o : opinst) : res unit :=
  let ctx := [] in
  do ctx <- irdl_op_verify_arg_list (d_opopt d) (x_operands x) (d_operands d) (o_opseg o)
              (o_operands o) ctx;
  do ctx <- irdl_op_verify_arg_list (d_resopt d) (x_results x) (d_results d) (o_resseg o)
              (o_results o) ctx;
  do _ <- verify_variadic_size ver (d_regopt d) (map rkind (d_regions d)) (len (o_regions o)) (o_regseg o);
  do ctx <- verify_regions_loop (x_regions x) (d_regions d) (o_regseg o) (o_regions o) ctx;
  do _ <- verify_variadic_size ver (d_sucopt d) (d_succs d) (len (o_succs o)) (o_sucseg o);
  do ctx <- verify_named (d_props d) (o_props o) ctx;
  if o_extra_prop o then Raise VerifyException
  else
    do _ <- verify_named (d_attrs d) (o_attrs o) ctx;
    Ok tt.

(* class definition followed by verification of an instance *)
Definition define_and_verify (d : opdef) (o : opinst) : res unit :=
  do x <- get_accessors d; opdef_verify d x o.

(* irdl_op_init (the generated constructor) *)
Record buildargs := {
  b_operands : list (barg A); b_results : list (barg A);
  b_regions : list (barg region); b_succs : list (barg A);
  b_props : list (option A); b_extra_prop : bool; b_attrs : list (option A);
  (* segment-size attributes supplied by the caller (kept unless the AttrSized option overwrites) *)
  b_opseg : seg_attr; b_resseg : seg_attr; b_regseg : seg_attr; b_sucseg : seg_attr }.

Definition irdl_op_init (d : opdef) (b : buildargs) : res opinst :=
  do ops <- irdl_build_arg_list (map akind (d_operands d)) (map none_to_empty (b_operands b));
  do rs <- irdl_build_arg_list (map akind (d_results d)) (b_results b);
  do rgs <- irdl_build_arg_list (map rkind (d_regions d)) (map none_to_empty (b_regions b));
  do scs <- irdl_build_arg_list (d_succs d) (b_succs b);
  do opseg <- init_option (d_opopt d) (map akind (d_operands d)) (snd ops) (b_opseg b);
  do resseg <- init_option (d_resopt d) (map akind (d_results d)) (snd rs) (b_resseg b);
  do regseg <- init_option (d_regopt d) (map rkind (d_regions d)) (snd rgs) (b_regseg b);
  do sucseg <- init_option (d_sucopt d) (d_succs d) (snd scs) (b_sucseg b);
  Ok {| o_operands := fst ops; o_opseg := opseg;
        o_results := fst rs; o_resseg := resseg;
        o_regions := fst rgs; o_regseg := regseg;
        o_succs := fst scs; o_sucseg := sucseg;
        o_props := b_props b; o_extra_prop := b_extra_prop b; o_attrs := b_attrs b |}.

End Verify.

(* the concrete value universe of the correspondence harness and of the examples (A := Z):
   type ids are < 1000; 1000 + k is the attribute IntAttr(k) (0 <= k < 1000); 2000 + k is the
   Python int k (segment lengths, IntAttr payloads) *)
Definition zof_int (k : Z) : Z := 2000 + k.
Definition zas_int (a : Z) : option Z :=
  if (1000 <=? a) && (a <? 2000) then Some (a - 1000) else None.
