(* C10/Enc.v -- encoders of model results into Base/Show.v `sx`, literal helpers used by the
   generated case files, and the enumerators of the exhaustive sweeps.  No proofs.
   Every entry point takes the `version` (which repairs the code under test contains) that the
   harness determined by running the real code on the two known-finding witnesses. *)
From Coq Require Import List Arith ZArith Bool.
From XV Require Import Base.Show C10.Model.
Import ListNotations.
Local Open Scope Z_scope.

(* exception codes: the same table as harness/props/c10.py::XC *)
Definition exn_code (e : exn) : Z :=
  match e with
  | VerifyException => 2 | ValueError => 3 | KeyError => 4 | IndexError => 5
  | PyRDLOpDefinitionError => 12 | ZeroDivisionError => 21 | AttributeError => 22
  end.
Definition enc_exn (e : exn) : sx := L [I (-1); I (exn_code e)].
Definition enc_res {T} (f : T -> sx) (r : res T) : sx :=
  match r with Ok t => f t | Raise e => enc_exn e end.
Definition enc_unit (_ : unit) : sx := I 0.

Definition enc_accres {T} (f : T -> sx) (r : accres T) : sx :=
  match r with
  | AOne x => L [I 1; f x]
  | ANone => L [I 0]
  | AMany l => L [I 2; L (map f l)]
  end.

(* all accessors of one construct evaluated on the position list 0..n-1 *)
Definition enc_accessors (accs : list accessor) (attr : seg_attr) (n : nat) : sx :=
  L (map (fun a => enc_res (enc_accres I) (acc_index a attr (map Z.of_nat (seq 0 n)))) accs).

Definition enc_seg (a : seg_attr) : sx :=
  match a with
  | Missing => L [I 0]
  | NotDense => L [I 1]
  | Dense b v => L [I 2; sB b; sLZ v]
  end.

Definition mkver (fix_attr fix_same : bool) : version :=
  {| fix_attr_sum := fix_attr; fix_same_novar := fix_same |}.

(* ------------------------------------------------ one construct (family "sizes") *)
Definition c10_sizes (v : version) (opt : sizeopt) (defs : list kind) (n : nat) (attr : seg_attr)
  : sx :=
  match irdl_op_arg_definition v opt defs with
  | Raise e => enc_exn e
  | Ok accs =>
      L [enc_res enc_unit (verify_variadic_size v opt defs (Z.of_nat n) attr);
         enc_accessors accs attr n]
  end.

Fixpoint seqs {T} (ops : list T) (n : nat) : list (list T) :=
  match n with
  | O => [[]]
  | S k => flat_map (fun o => map (cons o) (seqs ops k)) ops
  end.

(* exhaustive sweep for one definition list: n = 0..nmax; for AttrSized every size vector over
   `vals` (itertools.product order), otherwise the attribute is absent *)
Definition c10_sweep (v : version) (opt : sizeopt) (defs : list kind) (nmax : nat) (vals : list Z)
  : list sx :=
  flat_map (fun n =>
       match opt with
       | AttrSized => map (fun s => c10_sizes v opt defs n (Dense true s)) (seqs vals (length defs))
       | _ => [c10_sizes v opt defs n Missing]
       end) (seq 0 (S nmax)).

(* several definition lists, all three options each (one shard of the sweep) *)
Definition c10_sweep_all (v : version) (defss : list (list kind)) (nmax : nat) (vals : list Z) : sx :=
  L (flat_map (fun defs =>
       flat_map (fun opt => c10_sweep v opt defs nmax vals) [NoOption; SameSize; AttrSized]) defss).

(* ------------------------------------------------ whole operations *)
Definition mkc (allowed : option (list Z)) (var : option nat) : constr Z :=
  {| cpred := match allowed with
              | None => fun _ => true
              | Some l => fun a => existsb (Z.eqb a) l
              end;
     cvar := var |}.
(* an int constraint: IntVarConstraint(var, base) / base, as a constraint on int VALUES (zof_int k):
   allowed = None is AnyInt, Some l is membership of k in l; variable keys of int variables are
   chosen disjoint from those of attribute variables by the harness (10 + i) *)
Definition mkic (allowed : option (list Z)) (var : option nat) : constr Z :=
  {| cpred := match allowed with
              | None => fun _ => true
              | Some l => fun a => existsb (Z.eqb a) (map zof_int l)
              end;
     cvar := var |}.
Definition mkarg (k : kind) (allowed : option (list Z)) (var : option nat) (length : option (constr Z))
  : argdef Z := {| akind := k; aconstr := mkc allowed var; alen := length |}.
Definition mkreg (k : kind) (single : bool) (allowed : option (list Z)) (var : option nat)
  (length : option (constr Z)) : regiondef Z :=
  {| rkind := k; rsingle := single; rentry := mkc allowed var; rlen := length |}.
Definition mknamed (optional : bool) (allowed : option (list Z)) (var : option nat)
  : bool * nconstr Z := (optional, NAttr Z (mkc allowed var)).
(* prop_def(IntAttr.constr(<int constraint>)) *)
Definition mknamed_int (optional : bool) (ic : constr Z) : bool * nconstr Z := (optional, NIntAttr Z ic).

Definition enc_obs (v : version) (d : opdef Z) (x : accessors) (o : opinst Z) : sx :=
  L [enc_res enc_unit (opdef_verify Z Z.eqb v zof_int zas_int d x o);
     enc_accessors (x_operands x) (o_opseg Z o) (length (o_operands Z o));
     enc_accessors (x_results x) (o_resseg Z o) (length (o_results Z o));
     enc_accessors (x_regions x) (o_regseg Z o) (length (o_regions Z o));
     enc_accessors (x_succs x) (o_sucseg Z o) (length (o_succs Z o))].

(* family "verify": class definition, OpDef.verify outcome, every accessor *)
Definition c10_verify (v : version) (d : opdef Z) (o : opinst Z) : sx :=
  match get_accessors Z v d with
  | Raise e => enc_exn e
  | Ok x => enc_obs v d x o
  end.

Definition enc_op (o : opinst Z) : sx :=
  L [sLZ (o_operands Z o); enc_seg (o_opseg Z o);
     sLZ (o_results Z o); enc_seg (o_resseg Z o);
     L (map (fun r => L (map sLZ r)) (o_regions Z o)); enc_seg (o_regseg Z o);
     sLZ (o_succs Z o); enc_seg (o_sucseg Z o)].

(* family "build": the generated constructor, then what verification and accessors see *)
Definition c10_build (v : version) (d : opdef Z) (b : buildargs Z) : sx :=
  match get_accessors Z v d with
  | Raise e => enc_exn e
  | Ok x =>
      match irdl_op_init Z d b with
      | Raise e => L [enc_exn e]
      | Ok o => L [enc_op o; enc_obs v d x o]
      end
  end.
