(* C10/ProofsAcc.v -- the generated accessors return exactly the declared segments; the
   generated constructor produces operations whose sizes verify and whose accessors give back
   the constructor's arguments.  (One construct; whole operations are in ProofsVerify.v.) *)
From Coq Require Import ZArith List Bool Lia.
From XV Require Import C10.Model C10.Proofs.
Import ListNotations.
Local Open Scope Z_scope.

(* ================================================================ list / python-sequence lemmas *)
Lemma to_nat_len : forall T (l : list T), Z.to_nat (len l) = length l.
Proof. intros. unfold len. apply Nat2Z.id. Qed.

Lemma skipn_plus : forall T n m (l : list T), skipn m (skipn n l) = skipn (n + m) l.
Proof.
  induction n as [|n IH]; intros m l; [reflexivity|]. destruct l; cbn [skipn Nat.add].
  - apply skipn_nil.
  - apply IH.
Qed.
Lemma skipn_add : forall T a b (l : list T), 0 <= a -> 0 <= b ->
  skipn (Z.to_nat b) (skipn (Z.to_nat a) l) = skipn (Z.to_nat (a + b)) l.
Proof. intros. rewrite skipn_plus, Z2Nat.inj_add by lia. reflexivity. Qed.

Definition seg_at {T} (start s : Z) (args : list T) : list T :=
  firstn (Z.to_nat s) (skipn (Z.to_nat start) args).

Lemma split_step : forall T (args : list T) start s r, 0 <= start -> 0 <= s ->
  split_sizes (s :: r) (skipn (Z.to_nat start) args)
  = seg_at start s args :: split_sizes r (skipn (Z.to_nat (start + s)) args).
Proof. intros. cbn [split_sizes]. rewrite skipn_add by lia. reflexivity. Qed.

Lemma py_slice_seg : forall T (args : list T) start s,
  0 <= start -> 0 <= s -> start + s <= len args ->
  py_slice args start (start + s) = seg_at start s args.
Proof.
  intros T args start s H1 H2 H3. unfold py_slice, py_clamp, seg_at.
  destruct (Z.ltb_spec start 0); [lia|]. destruct (Z.ltb_spec (start + s) 0); [lia|].
  rewrite !Z.min_l by lia. replace (start + s - start) with s by lia. reflexivity.
Qed.

Lemma skipn_cons_nth : forall T n (l : list T) x r, skipn n l = x :: r -> nth_error l n = Some x.
Proof.
  induction n as [|n IH]; intros l x r H; destruct l; cbn in *; try discriminate.
  - injection H as -> _. reflexivity.
  - eauto.
Qed.

Lemma seg_one_nth : forall T (args : list T) start x,
  seg_at start 1 args = [x] -> nth_error args (Z.to_nat start) = Some x.
Proof.
  intros T args start x H. unfold seg_at in H. change (Z.to_nat 1) with 1%nat in H.
  destruct (skipn (Z.to_nat start) args) as [|y r] eqn:E; cbn in H; [discriminate|].
  injection H as ->. eapply skipn_cons_nth; eauto.
Qed.

Lemma py_index_seg : forall T (args : list T) start x, 0 <= start ->
  seg_at start 1 args = [x] -> py_index args start = Ok x.
Proof.
  intros T args start x H0 H. apply seg_one_nth in H. unfold py_index.
  destruct (Z.ltb_spec start 0); [lia|].
  assert (Hlt : (Z.to_nat start < length args)%nat) by (apply nth_error_Some; congruence).
  assert (start < len args) by (unfold len; lia).
  destruct (Z.ltb_spec start 0); [lia|]. destruct (Z.leb_spec (len args) start); [lia|].
  cbn [orb]. rewrite H. reflexivity.
Qed.

Lemma py_index_neg : forall T (args : list T) i x, i < 0 -> 0 <= i + len args ->
  seg_at (i + len args) 1 args = [x] -> py_index args i = Ok x.
Proof.
  intros T args i x H0 H1 H. apply seg_one_nth in H. unfold py_index.
  destruct (Z.ltb_spec i 0); [|lia].
  assert (Hlt : (Z.to_nat (i + len args) < length args)%nat) by (apply nth_error_Some; congruence).
  destruct (Z.ltb_spec (i + len args) 0); [lia|]. destruct (Z.leb_spec (len args) (i + len args)); [lia|].
  cbn [orb]. rewrite H. reflexivity.
Qed.

Lemma seg_one_exists : forall T (args : list T) start, 0 <= start -> start + 1 <= len args ->
  exists x, seg_at start 1 args = [x].
Proof.
  intros T args start H0 H1. unfold seg_at. change (Z.to_nat 1) with 1%nat.
  destruct (skipn (Z.to_nat start) args) as [|y r] eqn:E.
  - exfalso. assert (L : length (skipn (Z.to_nat start) args) = 0%nat) by (rewrite E; reflexivity).
    rewrite skipn_length in L. unfold len in H1. lia.
  - exists y. reflexivity.
Qed.
Lemma seg_zero : forall T (args : list T) start, seg_at start 0 args = [].
Proof. reflexivity. Qed.

(* ================================================================ accessor results vs segments *)
Definition run {T} (accs : list accessor) (attr : seg_attr) (args : list T) : list (res (accres T)) :=
  map (fun a => acc_index a attr args) accs.
Definition expected {T} (defs : list kind) (segs : list (list T)) : list (res (accres T)) :=
  map (fun p => Ok (shape (fst p) (snd p))) (combine defs segs).

Lemma run_cons : forall T a accs attr (args : list T),
  run (a :: accs) attr args = acc_index a attr args :: run accs attr args.
Proof. reflexivity. Qed.
Lemma expected_cons : forall T d ds seg (segs : list (list T)),
  expected (d :: ds) (seg :: segs) = Ok (shape d seg) :: expected ds segs.
Proof. reflexivity. Qed.

Lemma all_single_sizes : forall ds ss, Forall (fun d => d = Single) ds -> Forall2 size_ok ds ss ->
  ss = map (fun _ => 1) ds.
Proof.
  intros ds ss Hs H. induction H as [|d s ds ss Hd _ IH]; [reflexivity|].
  inversion Hs; subst. cbn in Hd. subst. cbn. f_equal; auto.
Qed.
Lemma zsum_ones : forall T (ds : list T), zsum (map (fun _ => 1) ds) = len ds.
Proof. induction ds; [reflexivity|]. cbn [map zsum]. rewrite IHds, len_cons. reflexivity. Qed.

(* ---------------------------------------------------------------- attr-sized accessors *)
Lemma attr_prefix : forall pre l, prefix_sum (pre ++ l) (len pre) = zsum pre.
Proof.
  intros. unfold prefix_sum. rewrite to_nat_len, firstn_app, Nat.sub_diag, firstn_all. cbn [firstn].
  rewrite app_nil_r. reflexivity.
Qed.
Lemma attr_index : forall pre s (l : list Z), py_index (pre ++ s :: l) (len pre) = Ok s.
Proof.
  intros. unfold py_index. pose proof (len_nonneg _ pre).
  destruct (Z.ltb_spec (len pre) 0); [lia|]. rewrite len_app, len_cons. pose proof (len_nonneg _ l).
  destruct (Z.ltb_spec (len pre) 0); [lia|].
  destruct (Z.leb_spec (len pre + (1 + len l)) (len pre)); [lia|]. cbn [orb].
  rewrite to_nat_len, nth_error_app2, Nat.sub_diag by lia. reflexivity.
Qed.

Lemma attr_accessors_spec : forall T (args : list T) b values ds ss,
  Forall2 size_ok ds ss -> forall pre,
  values = pre ++ ss -> Forall (fun s => 0 <= s) pre ->
  zsum pre + zsum ss = len args ->
  run (attr_accessors ds (len pre)) (Dense b values) args
  = expected ds (split_sizes ss (skipn (Z.to_nat (zsum pre)) args)).
Proof.
  intros T args b values ds ss H. induction H as [|d s ds ss Hd Hr IH]; intros pre Hv Hp Hsum.
  - reflexivity.
  - pose proof (zsum_nonneg _ Hp) as Hstart.
    pose proof (zsum_nonneg _ (sizes_nonneg _ _ Hr)) as Hrest.
    pose proof (size_ok_nonneg _ _ Hd) as Hs0.
    cbn [zsum] in Hsum.
    rewrite split_step by lia. cbn [attr_accessors]. rewrite run_cons, expected_cons. f_equal.
    + subst values. destruct d; cbn [is_optional is_variadic acc_index attr_values bind].
      * (* Single *) cbn in Hd. subst s. rewrite attr_prefix.
        destruct (seg_one_exists _ args (zsum pre)) as [x Hx]; [lia|lia|].
        rewrite (py_index_seg _ _ _ _ Hstart Hx), Hx. reflexivity.
      * (* Optional *) rewrite attr_index. cbn [bind]. cbn in Hd. destruct Hd; subst s.
        -- cbn [Z.eqb negb]. rewrite seg_zero. reflexivity.
        -- cbn [Z.eqb negb]. rewrite attr_prefix.
           destruct (seg_one_exists _ args (zsum pre)) as [x Hx]; [lia|lia|].
           rewrite (py_index_seg _ _ _ _ Hstart Hx), Hx. reflexivity.
      * (* Variadic *) rewrite attr_index, attr_prefix. cbn [bind].
        rewrite py_slice_seg by lia. reflexivity.
    + specialize (IH (pre ++ [s])). rewrite len_app, zsum_app in IH. cbn [zsum] in IH.
      change (len [s]) with 1 in IH. rewrite Z.add_0_r in IH. apply IH.
      * subst values. rewrite <- app_assoc. reflexivity.
      * apply Forall_app. split; auto.
      * lia.
Qed.

(* ---------------------------------------------------------------- same-size accessors *)
Lemma floordiv_same : forall n nd nv k, 0 < nv -> n = nd - nv + nv * k ->
  py_floordiv (n - nd) nv = Ok (k - 1).
Proof.
  intros n nd nv k Hnv Hn. unfold py_floordiv. destruct (Z.eqb_spec nv 0); [lia|].
  replace (n - nd) with ((k - 1) * nv) by lia. rewrite Z.div_mul by lia. reflexivity.
Qed.

Lemma same_accessors_spec : forall T (args : list T) attr k nd nv,
  0 < nv -> 0 <= k -> len args = nd - nv + nv * k ->
  forall ds idx ve, 0 <= ve -> ve <= idx ->
  Forall2 size_ok ds (const_sizes k ds) ->
  idx + ve * (k - 1) + zsum (const_sizes k ds) = len args ->
  run (same_accessors ds idx ve nd nv) attr args
  = expected ds (split_sizes (const_sizes k ds) (skipn (Z.to_nat (idx + ve * (k - 1))) args)).
Proof.
  intros T args attr k nd nv Hnv Hk Hlen. induction ds as [|d ds IH]; intros idx ve Hve Hidx Hok Hsum.
  - reflexivity.
  - cbn [const_sizes map] in *. fold (const_sizes k ds) in *. inversion Hok as [|? ? ? ? Hd Hr]; subst.
    pose proof (zsum_nonneg _ (sizes_nonneg _ _ Hr)) as Hrest.
    cbn [zsum] in Hsum. set (start := idx + ve * (k - 1)) in *.
    assert (Hstart : 0 <= start) by (unfold start; nia).
    pose proof (floordiv_same _ _ _ _ Hnv Hlen) as Hdiv.
    destruct d; cbn [is_variadic is_optional] in *.
    + (* Single *) rewrite split_step by lia. cbn [same_accessors is_variadic]. rewrite run_cons, expected_cons. f_equal.
      * cbn [acc_index]. rewrite Hdiv. cbn [bind]. fold start.
        destruct (seg_one_exists _ args start) as [x Hx]; [lia|lia|].
        rewrite (py_index_seg _ _ _ _ Hstart Hx), Hx. reflexivity.
      * replace (start + 1) with ((idx + 1) + ve * (k - 1)) by (unfold start; lia).
        apply IH; auto; try (unfold start in *; lia).
    + (* Optional *) rewrite split_step by lia. cbn [same_accessors is_variadic is_optional].
      rewrite run_cons, expected_cons. f_equal.
      * cbn [acc_index]. cbn in Hd. destruct Hd as [Hd|Hd]; subst k.
        -- destruct (Z.eqb_spec (len args) nd); [lia|]. rewrite seg_zero. reflexivity.
        -- destruct (Z.eqb_spec (len args) nd); [|lia].
           assert (start = idx) by (unfold start; lia).
           destruct (seg_one_exists _ args start) as [x Hx]; [lia|lia|].
           rewrite Hx. rewrite H in Hx, Hstart. rewrite (py_index_seg _ _ _ _ Hstart Hx). reflexivity.
      * replace (start + k) with ((idx + 1) + (ve + 1) * (k - 1)) by (unfold start; lia).
        apply IH; auto; try (unfold start in *; lia).
    + (* Variadic *) rewrite split_step by lia. cbn [same_accessors is_variadic is_optional].
      rewrite run_cons, expected_cons. f_equal.
      * cbn [acc_index]. rewrite Hdiv. cbn [bind]. fold start.
        replace (start + 1 + (k - 1)) with (start + k) by lia.
        rewrite py_slice_seg by lia. reflexivity.
      * replace (start + k) with ((idx + 1) + (ve + 1) * (k - 1)) by (unfold start; lia).
        apply IH; auto; try (unfold start in *; lia).
Qed.

(* ---------------------------------------------------------------- default accessors *)
Lemma default_after_spec : forall T (args : list T) attr nd ds idx accs,
  default_accessors ds idx nd false = Ok accs ->
  0 <= idx -> idx + len ds = nd -> 0 <= len args - nd + idx ->
  run accs attr args
  = expected ds (split_sizes (map (fun _ => 1) ds) (skipn (Z.to_nat (len args - nd + idx)) args)).
Proof.
  intros T args attr nd. induction ds as [|d ds IH]; intros idx accs Hacc Hidx Hnd Hst.
  - cbn in Hacc. injection Hacc as <-. reflexivity.
  - cbn [default_accessors] in Hacc. destruct d; cbn [is_variadic] in Hacc; try discriminate.
    destruct (default_accessors ds (idx + 1) nd false) as [rest|] eqn:E; [|discriminate].
    cbn [bind] in Hacc. injection Hacc as <-.
    rewrite len_cons in Hnd. pose proof (len_nonneg _ ds).
    cbn [map]. rewrite split_step by lia. rewrite run_cons, expected_cons. f_equal.
    + cbn [acc_index].
      destruct (seg_one_exists _ args (len args - nd + idx)) as [x Hx]; [lia|lia|].
      rewrite Hx. replace (len args - nd + idx) with (- nd + idx + len args) in Hx by lia.
      rewrite (py_index_neg _ args (- nd + idx) x); [reflexivity|lia|lia|exact Hx].
    + replace (len args - nd + idx + 1) with (len args - nd + (idx + 1)) by lia.
      apply IH; auto; lia.
Qed.

Lemma default_before_spec : forall T (args : list T) attr nd ds ss,
  Forall2 size_ok ds ss -> forall idx accs,
  default_accessors ds idx nd true = Ok accs ->
  0 <= idx -> idx + len ds = nd -> idx + zsum ss = len args ->
  run accs attr args = expected ds (split_sizes ss (skipn (Z.to_nat idx) args)).
Proof.
  intros T args attr nd ds ss H. induction H as [|d s ds ss Hd Hr IH]; intros idx accs Hacc Hidx Hnd Hsum.
  - cbn in Hacc. injection Hacc as <-. reflexivity.
  - pose proof (zsum_nonneg _ (sizes_nonneg _ _ Hr)) as Hrest.
    pose proof (size_ok_nonneg _ _ Hd) as Hs0. pose proof (len_nonneg _ ds).
    cbn [zsum] in Hsum. rewrite len_cons in Hnd.
    cbn [default_accessors] in Hacc. rewrite split_step by lia.
    destruct (is_variadic d) eqn:Ev.
    + destruct (default_accessors ds (idx + 1) nd false) as [rest|] eqn:E; [|discriminate].
      cbn [bind] in Hacc. injection Hacc as <-.
      pose proof (default_after_all_single _ _ _ _ E) as Hall.
      pose proof (all_single_sizes _ _ Hall Hr) as Hss. subst ss. rewrite zsum_ones in *.
      rewrite run_cons, expected_cons. f_equal.
      * destruct d; cbn [is_variadic is_optional] in *; try discriminate; cbn [acc_index].
        -- (* Optional *) cbn in Hd. destruct Hd; subst s.
           ++ destruct (Z.eqb_spec (len args) nd); [lia|]. rewrite seg_zero. reflexivity.
           ++ destruct (Z.eqb_spec (len args) nd); [|lia].
              destruct (seg_one_exists _ args idx) as [x Hx]; [lia|lia|].
              rewrite (py_index_seg _ _ _ _ Hidx Hx), Hx. reflexivity.
        -- (* Variadic *) replace (idx + len args - nd + 1) with (idx + s) by lia.
           rewrite py_slice_seg by lia. reflexivity.
      * replace (idx + s) with (len args - nd + (idx + 1)) by lia.
        eapply default_after_spec; eauto; lia.
    + destruct (default_accessors ds (idx + 1) nd true) as [rest|] eqn:E; [|discriminate].
      cbn [bind] in Hacc. injection Hacc as <-.
      destruct d; cbn [is_variadic] in Ev; try discriminate. cbn in Hd. subst s.
      rewrite run_cons, expected_cons. f_equal.
      * cbn [acc_index]. destruct (seg_one_exists _ args idx) as [x Hx]; [lia|lia|].
        rewrite (py_index_seg _ _ _ _ Hidx Hx), Hx. reflexivity.
      * apply IH; auto; lia.
Qed.

(* ================================================================ the accessor theorem *)
Lemma existsb_variadic_nv : forall defs,
  (existsb is_variadic defs = true -> 0 < num_variadics defs) /\
  (existsb is_variadic defs = false -> num_variadics defs = 0).
Proof.
  induction defs as [|d r [IH1 IH2]]; [split; [discriminate|reflexivity]|].
  cbn [existsb]. rewrite nv_cons. pose proof (nv_nonneg r) as Hr.
  destruct (is_variadic d); cbn [orb]; split; intros Hx; try discriminate; try lia.
  - specialize (IH1 Hx). lia.
  - rewrite (IH2 Hx). reflexivity.
Qed.

(* the side condition on SameVariadic*Size is needed for the pinned code only *)
Definition same_nonvacuous (v : version) (opt : sizeopt) (kinds : list kind) : Prop :=
  opt = SameSize -> fix_same_novar v = false -> 0 < num_variadics kinds.

Theorem accessors_spec : forall T v opt defs accs attr (args : list T) sizes,
  irdl_op_arg_definition v opt defs = Ok accs ->
  segmentation opt defs (len args) sizes ->
  (opt = AttrSized -> exists b, attr = Dense b sizes) ->
  same_nonvacuous v opt defs ->
  run accs attr args = expected defs (split_sizes sizes args).
Proof.
  intros T v opt defs accs attr args sizes Hacc (Hok & Hsum & Hsame) Hattr Hnv.
  destruct opt; cbn [irdl_op_arg_definition] in Hacc.
  - (* NoOption *)
    change args with (skipn (Z.to_nat 0) args) at 2.
    eapply default_before_spec; eauto; try lia.
  - (* SameSize *)
    destruct (fix_same_novar v && negb (existsb is_variadic defs)) eqn:Eg.
    { (* repaired code, no variadic definition: the plain accessors *)
      change args with (skipn (Z.to_nat 0) args) at 2.
      eapply default_before_spec; eauto; try lia. }
    assert (Hnv' : 0 < num_variadics defs).
    { destruct (fix_same_novar v) eqn:Ef; [|apply Hnv; auto].
      cbn [andb] in Eg. apply negb_false_iff in Eg. apply existsb_variadic_nv. exact Eg. }
    clear Hnv. rename Hnv' into Hnv.
    injection Hacc as <-. destruct (Hsame eq_refl) as [k Hk].
    pose proof (canon _ _ _ Hok Hk) as ->. rewrite zsum_const in Hsum.
    assert (Hk0 : 0 <= k) by (eapply variadic_common; eauto).
    change args with (skipn (Z.to_nat (0 + 0 * (k - 1))) args) at 2.
    apply same_accessors_spec with (k := k); auto; try lia.
    rewrite zsum_const. lia.
  - (* AttrSized *)
    injection Hacc as <-. destruct (Hattr eq_refl) as [b ->].
    change 0 with (len (@nil Z)). change args with (skipn (Z.to_nat (zsum [])) args) at 2.
    apply attr_accessors_spec; auto; cbn [zsum]; lia.
Qed.

(* the segments partition the argument list and have the declared sizes *)
Lemma split_concat : forall T sizes (args : list T),
  Forall (fun s => 0 <= s) sizes -> zsum sizes = len args -> concat (split_sizes sizes args) = args.
Proof.
  intros T sizes. induction sizes as [|s r IH]; intros args Hn Hs.
  - cbn in *. destruct args; [reflexivity|]. rewrite len_cons in Hs. pose proof (len_nonneg _ args). lia.
  - inversion Hn; subst. cbn [split_sizes concat zsum] in *.
    pose proof (zsum_nonneg _ H2). rewrite IH; auto.
    + apply firstn_skipn.
    + unfold len in *. rewrite skipn_length. lia.
Qed.
Lemma split_lengths : forall T sizes (args : list T),
  Forall (fun s => 0 <= s) sizes -> zsum sizes = len args -> map len (split_sizes sizes args) = sizes.
Proof.
  intros T sizes. induction sizes as [|s r IH]; intros args Hn Hs; [reflexivity|].
  inversion Hn; subst. cbn [split_sizes map zsum] in *. pose proof (zsum_nonneg _ H2). f_equal.
  - unfold len in *. rewrite firstn_length_le by lia. lia.
  - apply IH; auto. unfold len in *. rewrite skipn_length. lia.
Qed.
Lemma accres_list_shape : forall T k (seg : list T), accres_list (shape k seg) = seg.
Proof. intros T k seg. destruct k; cbn; auto; destruct seg as [|x [|y r]]; reflexivity. Qed.

Theorem accessors_partition : forall T opt defs (args : list T) sizes,
  segmentation opt defs (len args) sizes ->
  concat (split_sizes sizes args) = args /\ map len (split_sizes sizes args) = sizes.
Proof.
  intros T opt defs args sizes (Hok & Hsum & _). pose proof (sizes_nonneg _ _ Hok).
  split; [apply split_concat|apply split_lengths]; auto.
Qed.

(* the two defects, on the accessors: *)
(* (1) an attr-sized operation that VERIFIES but whose accessors overlap / drop arguments *)
Theorem attr_accessors_refuted : forall v, fix_attr_sum v = false ->
  exists defs sizes accs (args : list Z),
  irdl_op_arg_definition v AttrSized defs = Ok accs /\
  verify_variadic_size v AttrSized defs (len args) (Dense true sizes) = Ok tt /\
  concat (map (fun r => match r with Ok a => accres_list a | Raise _ => [] end)
              (run accs (Dense true sizes) args)) <> args.
Proof.
  intros v Hv.
  exists [Variadic; Single], [1; 1], (attr_accessors [Variadic; Single] 0), [10; 20; 30].
  split; [reflexivity|]. split; [cbn [verify_variadic_size]; rewrite Hv; reflexivity|].
  vm_compute. discriminate.
Qed.
(* (2) SameVariadic*Size without any variadic definition: every accessor divides by zero *)
Theorem same_size_no_variadic_refuted : forall v, fix_same_novar v = false ->
  exists defs accs (args : list Z) sizes,
  irdl_op_arg_definition v SameSize defs = Ok accs /\
  segmentation SameSize defs (len args) sizes /\
  run accs Missing args = [Raise ZeroDivisionError; Raise ZeroDivisionError].
Proof.
  intros v Hv.
  exists [Single; Single], (same_accessors [Single; Single] 0 0 2 0), [10; 20], [1; 1].
  split; [cbn [irdl_op_arg_definition]; rewrite Hv; reflexivity|]. split; [|reflexivity].
  split; [repeat constructor|]. split; [reflexivity|]. intros _. exists 0. repeat constructor; discriminate.
Qed.
(* repaired code: a same-size definition without variadics is definable and uses the plain accessors *)
Lemma default_all_single : forall defs idx nd, Forall (fun d => d = Single) defs ->
  exists accs, default_accessors defs idx nd true = Ok accs.
Proof.
  induction defs as [|d r IH]; intros idx nd H; [eexists; reflexivity|].
  inversion H; subst. cbn [default_accessors is_variadic].
  destruct (IH (idx + 1) nd H3) as [accs ->]. eexists; reflexivity.
Qed.
Theorem same_size_well_defined : forall v defs, well_defined v SameSize defs.
Proof.
  intros v defs. unfold well_defined. cbn [irdl_op_arg_definition].
  destruct (fix_same_novar v && negb (existsb is_variadic defs)) eqn:E; [|eexists; reflexivity].
  apply andb_true_iff in E. destruct E as [_ E]. apply negb_true_iff in E.
  apply default_all_single. apply nv0_all_single. apply existsb_variadic_nv. exact E.
Qed.

(* ================================================================ the generated constructor *)
Lemma build_loop_spec : forall T defs (args : list (barg T)) flat sizes,
  length args = length defs ->
  build_loop defs args = Ok (flat, sizes) ->
  Forall2 size_ok defs sizes /\ zsum sizes = len flat /\ split_sizes sizes flat = map norm args.
Proof.
  intros T defs. induction defs as [|d ds IH]; intros args flat sizes Hl Hb; destruct args as [|a r]; try discriminate.
  - cbn in Hb. injection Hb as <- <-. repeat split; constructor.
  - injection Hl as Hl. cbn [build_loop] in Hb. destruct a as [|x|l].
    + destruct (is_optional d) eqn:Eo; cbn [negb] in Hb; [|discriminate].
      destruct (build_loop ds r) as [[f s]|] eqn:E; [|discriminate]. cbn [bind fst snd] in Hb.
      injection Hb as <- <-. destruct (IH _ _ _ Hl E) as (A & B & C).
      split; [|split].
      * constructor; auto. destruct d; try discriminate. cbn. auto.
      * cbn [zsum]. lia.
      * cbn [split_sizes map norm]. change (Z.to_nat 0) with 0%nat. cbn [firstn skipn]. f_equal; auto.
    + destruct (build_loop ds r) as [[f s]|] eqn:E; [|discriminate]. cbn [bind fst snd] in Hb.
      injection Hb as <- <-. destruct (IH _ _ _ Hl E) as (A & B & C).
      split; [|split].
      * constructor; auto. destruct d; cbn; lia.
      * cbn [zsum]. rewrite len_cons. lia.
      * cbn [split_sizes map norm]. change (Z.to_nat 1) with 1%nat. cbn [firstn skipn]. f_equal; auto.
    + destruct (negb (is_variadic d) && negb (len l =? 1)) eqn:E1; [discriminate|].
      destruct (is_optional d && (1 <? len l)) eqn:E2; [discriminate|].
      destruct (build_loop ds r) as [[f s]|] eqn:E; [|discriminate]. cbn [bind fst snd] in Hb.
      injection Hb as <- <-. destruct (IH _ _ _ Hl E) as (A & B & C).
      pose proof (len_nonneg _ l).
      split; [|split].
      * constructor; auto. destruct d; cbn [is_variadic is_optional negb andb] in *; cbn.
        -- destruct (Z.eqb_spec (len l) 1); [auto|discriminate].
        -- destruct (Z.ltb_spec 1 (len l)); [discriminate|lia].
        -- lia.
      * cbn [zsum]. rewrite len_app. lia.
      * cbn [split_sizes map norm]. rewrite to_nat_len.
        rewrite firstn_app, Nat.sub_diag, firstn_all. cbn [firstn]. rewrite app_nil_r.
        rewrite skipn_app, Nat.sub_diag, skipn_all. cbn [skipn app]. f_equal; auto.
Qed.

Theorem build_arg_list_spec : forall T defs (args : list (barg T)) flat sizes,
  irdl_build_arg_list defs args = Ok (flat, sizes) ->
  length args = length defs /\
  Forall2 size_ok defs sizes /\ zsum sizes = len flat /\ split_sizes sizes flat = map norm args.
Proof.
  intros T defs args flat sizes H. unfold irdl_build_arg_list in H.
  destruct (Z.eqb_spec (len args) (len defs)) as [E|E]; cbn [negb] in H; [|discriminate].
  assert (length args = length defs) by (unfold len in E; lia).
  split; auto. eapply build_loop_spec; eauto.
Qed.

Lemma all_same_spec : forall l, all_same l = true -> exists k, Forall (fun s => s = k) l.
Proof.
  intros [|x r] H; [exists 0; constructor|]. exists x. constructor; auto.
  cbn in H. rewrite forallb_forall in H. apply Forall_forall. intros y Hy. specialize (H _ Hy).
  apply Z.eqb_eq in H. auto.
Qed.
Lemma variadic_sizes_same : forall k defs sizes, length sizes = length defs ->
  Forall (fun s => s = k) (variadic_sizes sizes defs) ->
  Forall2 (fun d s => is_variadic d = true -> s = k) defs sizes.
Proof.
  intros k defs. induction defs as [|d ds IH]; intros sizes Hl H; destruct sizes as [|s ss]; try discriminate; constructor.
  - cbn [variadic_sizes] in H. intros Hv. rewrite Hv in H. inversion H; auto.
  - injection Hl as Hl. apply IH; auto. cbn [variadic_sizes] in H.
    destruct (is_variadic d); [inversion H|]; auto.
Qed.

(* constructor output: sizes verify, accessors give back the (normalised) arguments *)
Theorem built_construct_verifies :
  forall T v opt defs (args : list (barg T)) flat sizes given attr accs,
  irdl_build_arg_list defs args = Ok (flat, sizes) ->
  init_option opt defs sizes given = Ok attr ->
  irdl_op_arg_definition v opt defs = Ok accs ->
  same_nonvacuous v opt defs ->
  segmentation opt defs (len flat) sizes /\
  (opt = AttrSized -> attr = Dense true sizes) /\
  verify_variadic_size v opt defs (len flat) attr = Ok tt /\
  run accs attr flat = expected defs (map norm args).
Proof.
  intros T v opt defs args flat sizes given attr accs Hb Hi Hacc Hnv.
  destruct (build_arg_list_spec _ _ _ _ _ Hb) as (Hl & Hok & Hsum & Hsplit).
  assert (Hseg : segmentation opt defs (len flat) sizes).
  { split; [|split]; auto. intros ->. cbn in Hi.
    destruct (all_same (variadic_sizes sizes defs)) eqn:E; [|discriminate].
    destruct (all_same_spec _ E) as [k Hk]. exists k. apply variadic_sizes_same; auto.
    apply F2_length in Hok. auto. }
  assert (Hat : opt = AttrSized -> attr = Dense true sizes).
  { intros ->. cbn in Hi. congruence. }
  split; [auto|]. split; [auto|]. split.
  - destruct opt.
    + apply (verify_sizes_iff v NoOption); [discriminate|eexists; eauto|eauto].
    + apply (verify_sizes_iff v SameSize); [discriminate|eexists; eauto|eauto].
    + rewrite (Hat eq_refl). apply attr_size_complete. auto.
  - rewrite <- Hsplit. eapply accessors_spec; eauto; intros E; rewrite (Hat E); eauto.
Qed.
