(* C10/Proofs.v -- Spec (segmentation) and proofs about one construct (operand, result,
   region or successor list): size verification, accessors, constructor. *)
From Coq Require Import ZArith List Bool Lia.
From XV Require Import C10.Model.
Import ListNotations.
Local Open Scope Z_scope.

(* ================================================================ Spec *)
(* the size a definition allows for its segment *)
Definition size_ok (k : kind) (s : Z) : Prop :=
  match k with Single => s = 1 | Optional => s = 0 \/ s = 1 | Variadic => 0 <= s end.
(* SameVariadic*Size: one common size for every variadic and optional definition *)
Definition same_sizes (defs : list kind) (sizes : list Z) : Prop :=
  exists k, Forall2 (fun d s => is_variadic d = true -> s = k) defs sizes.
(* `sizes` splits a list of `n` arguments into the declared segments *)
Definition segmentation (opt : sizeopt) (defs : list kind) (n : Z) (sizes : list Z) : Prop :=
  Forall2 size_ok defs sizes /\ zsum sizes = n /\ (opt = SameSize -> same_sizes defs sizes).

(* the segments themselves *)
Fixpoint split_sizes {T} (sizes : list Z) (args : list T) : list (list T) :=
  match sizes with
  | [] => []
  | s :: r => firstn (Z.to_nat s) args :: split_sizes r (skipn (Z.to_nat s) args)
  end.
(* what the accessor of a definition of kind k must return for its segment *)
Definition shape {T} (k : kind) (seg : list T) : accres T :=
  match k with
  | Single => match seg with [x] => AOne x | _ => AMany seg end
  | Optional => match seg with [] => ANone | [x] => AOne x | _ => AMany seg end
  | Variadic => AMany seg
  end.
(* a constructor argument as a segment *)
Definition norm {T} (a : barg T) : list T :=
  match a with BNone => [] | BOne x => [x] | BSeq l => l end.

(* ================================================================ basics *)
Lemma len_nonneg : forall T (l : list T), 0 <= len l.
Proof. intros. unfold len. lia. Qed.
Lemma len_cons : forall T (x : T) l, len (x :: l) = 1 + len l.
Proof. intros. unfold len. cbn [length]. lia. Qed.
Lemma len_nil : forall T, len (@nil T) = 0.
Proof. reflexivity. Qed.
Lemma len_app : forall T (a b : list T), len (a ++ b) = len a + len b.
Proof. intros. unfold len. rewrite app_length. lia. Qed.

Lemma F2_length : forall A B (P : A -> B -> Prop) l1 l2, Forall2 P l1 l2 -> length l1 = length l2.
Proof. induction 1; cbn; auto. Qed.

Lemma nv_nonneg : forall defs, 0 <= num_variadics defs.
Proof. intros. apply len_nonneg. Qed.
Lemma nv_cons : forall d defs,
  num_variadics (d :: defs) = (if is_variadic d then 1 else 0) + num_variadics defs.
Proof.
  intros. unfold num_variadics. cbn [filter]. destruct (is_variadic d); [rewrite len_cons|]; lia.
Qed.
Lemma nv_le_len : forall defs, num_variadics defs <= len defs.
Proof.
  induction defs as [|d r IH]; [cbn; lia|]. rewrite nv_cons, len_cons. destruct (is_variadic d); lia.
Qed.

Lemma size_ok_nonneg : forall k s, size_ok k s -> 0 <= s.
Proof. destruct k; cbn; lia. Qed.
Lemma sizes_nonneg : forall defs sizes, Forall2 size_ok defs sizes -> Forall (fun s => 0 <= s) sizes.
Proof. induction 1; constructor; eauto using size_ok_nonneg. Qed.
Lemma zsum_nonneg : forall l, Forall (fun s => 0 <= s) l -> 0 <= zsum l.
Proof. induction 1; cbn [zsum]; lia. Qed.
Lemma zsum_app : forall a b, zsum (a ++ b) = zsum a + zsum b.
Proof. induction a; intros; cbn [zsum app]; [lia|]. rewrite IHa. lia. Qed.

(* canonical size vector with common variadic size k *)
Definition const_sizes (k : Z) (defs : list kind) : list Z :=
  map (fun d => if is_variadic d then k else 1) defs.

Lemma zsum_const : forall k defs,
  zsum (const_sizes k defs) = len defs - num_variadics defs + num_variadics defs * k.
Proof.
  induction defs as [|d r IH]; [reflexivity|].
  cbn [const_sizes map zsum]. fold (const_sizes k r). rewrite IH, nv_cons, len_cons.
  destruct (is_variadic d); lia.
Qed.

Lemma canon : forall k defs sizes,
  Forall2 size_ok defs sizes -> Forall2 (fun d s => is_variadic d = true -> s = k) defs sizes ->
  sizes = const_sizes k defs.
Proof.
  intros k defs sizes H. induction H as [|d s ds ss Hd _ IH]; intros Hk; [reflexivity|].
  inversion Hk; subst. cbn [const_sizes map]. fold (const_sizes k ds). f_equal; [|auto].
  destruct d; cbn in *; auto.
Qed.

Lemma const_same : forall k defs, Forall2 (fun d s => is_variadic d = true -> s = k) defs (const_sizes k defs).
Proof. induction defs; cbn; constructor; auto. intros H; rewrite H; reflexivity. Qed.

Lemma nv0_all_single : forall defs, num_variadics defs = 0 -> Forall (fun d => d = Single) defs.
Proof.
  induction defs as [|d r IH]; intros H; [constructor|]. rewrite nv_cons in H.
  pose proof (nv_nonneg r). destruct d; cbn [is_variadic] in H; try lia. constructor; [reflexivity|apply IH; lia].
Qed.
Lemma all_single_const : forall k defs, Forall (fun d => d = Single) defs -> const_sizes k defs = map (fun _ => 1) defs.
Proof. induction 1; cbn; [reflexivity|]. subst; cbn. f_equal; auto. Qed.

(* ================================================================ same-size verification *)
Lemma has_optional_spec : forall defs,
  existsb is_optional (filter is_variadic defs) = true <-> In Optional defs.
Proof.
  induction defs as [|d r IH]; cbn; [split; [discriminate|tauto]|].
  destruct d; cbn; rewrite ?IH; intuition congruence.
Qed.

Lemma const_size_ok : forall k defs,
  0 <= k -> (In Optional defs -> k = 0 \/ k = 1) -> Forall2 size_ok defs (const_sizes k defs).
Proof.
  induction defs as [|d r IH]; intros Hk Ho; cbn; constructor.
  - destruct d; cbn; auto. apply Ho; left; reflexivity.
  - apply IH; auto. intros; apply Ho; right; auto.
Qed.

Lemma optional_common : forall k defs sizes,
  Forall2 size_ok defs sizes -> Forall2 (fun d s => is_variadic d = true -> s = k) defs sizes ->
  In Optional defs -> k = 0 \/ k = 1.
Proof.
  intros k defs sizes H. induction H as [|d s ds ss Hd _ IH]; intros Hk Hin; [destruct Hin|].
  inversion Hk; subst. destruct Hin as [->|Hin]; [|auto].
  cbn in Hd. rewrite <- H2 by reflexivity. auto.
Qed.
Lemma variadic_common : forall k defs sizes,
  Forall2 size_ok defs sizes -> Forall2 (fun d s => is_variadic d = true -> s = k) defs sizes ->
  0 < num_variadics defs -> 0 <= k.
Proof.
  intros k defs sizes H. induction H as [|d s ds ss Hd _ IH]; intros Hk Hnv; [cbn in Hnv; lia|].
  inversion Hk; subst. rewrite nv_cons in Hnv.
  destruct d; cbn in *; try (rewrite <- H2 by reflexivity; lia). apply IH; auto.
Qed.

Theorem same_size_iff : forall n defs,
  verify_variadic_same_size n defs = Ok tt <->
  exists sizes, Forall2 size_ok defs sizes /\ zsum sizes = n /\ same_sizes defs sizes.
Proof.
  intros n defs. unfold verify_variadic_same_size. fold (num_variadics defs).
  pose proof (nv_nonneg defs) as Hnn. pose proof (nv_le_len defs) as Hle.
  destruct (num_variadics defs =? 0) eqn:E0.
  - apply Z.eqb_eq in E0. destruct (n =? len defs) eqn:En; cbn [negb].
    + apply Z.eqb_eq in En. split; [intros _|reflexivity].
      exists (const_sizes 0 defs). split; [|split].
      * apply const_size_ok; [lia|]. intros Hin. apply has_optional_spec in Hin.
        pose proof (nv0_all_single defs E0) as Hs.
        exfalso. apply has_optional_spec in Hin. rewrite Forall_forall in Hs. specialize (Hs _ Hin). discriminate.
      * rewrite zsum_const. lia.
      * exists 0. apply const_same.
    + apply Z.eqb_neq in En. split; [discriminate|]. intros (sizes & Hok & Hs & k & Hk).
      rewrite (canon _ _ _ Hok Hk), zsum_const in Hs. lia.
  - apply Z.eqb_neq in E0.
    destruct (existsb is_optional (filter is_variadic defs)) eqn:Eo.
    + apply has_optional_spec in Eo.
      destruct ((n =? len defs) || (n =? len defs - num_variadics defs)) eqn:En; cbn [negb].
      * split; [intros _|reflexivity]. apply orb_true_iff in En. destruct En as [En|En]; apply Z.eqb_eq in En.
        -- exists (const_sizes 1 defs). split; [|split].
           ++ apply const_size_ok; [lia|auto].
           ++ rewrite zsum_const. lia.
           ++ exists 1. apply const_same.
        -- exists (const_sizes 0 defs). split; [|split].
           ++ apply const_size_ok; [lia|auto].
           ++ rewrite zsum_const. lia.
           ++ exists 0. apply const_same.
      * split; [discriminate|]. intros (sizes & Hok & Hs & k & Hk).
        apply orb_false_iff in En. destruct En as [E1 E2]. apply Z.eqb_neq in E1, E2.
        rewrite (canon _ _ _ Hok Hk), zsum_const in Hs.
        destruct (optional_common _ _ _ Hok Hk Eo); subst k; lia.
    + assert (Hno : ~ In Optional defs).
      { intros Hin. apply has_optional_spec in Hin. congruence. }
      destruct (n <? len defs - num_variadics defs) eqn:E1.
      * apply Z.ltb_lt in E1. split; [discriminate|]. intros (sizes & Hok & Hs & k & Hk).
        rewrite (canon _ _ _ Hok Hk), zsum_const in Hs.
        assert (0 <= k) by (eapply variadic_common; eauto; lia). nia.
      * apply Z.ltb_ge in E1.
        destruct ((n - len defs) mod num_variadics defs =? 0) eqn:E2; cbn [negb].
        -- apply Z.eqb_eq in E2. split; [intros _|reflexivity].
           pose proof (Z.div_mod (n - len defs) (num_variadics defs) E0) as Hdm. rewrite E2 in Hdm.
           set (q := (n - len defs) / num_variadics defs) in *.
           assert (-1 <= q) by nia.
           exists (const_sizes (q + 1) defs). split; [|split].
           ++ apply const_size_ok; [lia|]. intros; contradiction.
           ++ rewrite zsum_const. lia.
           ++ exists (q + 1). apply const_same.
        -- apply Z.eqb_neq in E2. split; [discriminate|]. intros (sizes & Hok & Hs & k & Hk).
           rewrite (canon _ _ _ Hok Hk), zsum_const in Hs. exfalso. apply E2.
           replace (n - len defs) with ((k - 1) * num_variadics defs) by lia.
           apply Z.mod_mul. lia.
Qed.

(* ---------------------------------------------------------------- no option: at most one variadic *)
Lemma default_after_all_single : forall defs idx nd accs,
  default_accessors defs idx nd false = Ok accs -> Forall (fun d => d = Single) defs.
Proof.
  induction defs as [|d r IH]; intros idx nd accs H; [constructor|].
  cbn [default_accessors] in H. destruct d; cbn [is_variadic] in H; try discriminate.
  destruct (default_accessors r (idx + 1) nd false) eqn:E; [|discriminate].
  constructor; eauto.
Qed.
Lemma all_single_nv : forall defs, Forall (fun d => d = Single) defs -> num_variadics defs = 0.
Proof. induction 1; [reflexivity|]. subst. rewrite nv_cons. cbn. lia. Qed.

Lemma default_nv_le_1 : forall defs idx nd accs,
  default_accessors defs idx nd true = Ok accs -> num_variadics defs <= 1.
Proof.
  induction defs as [|d r IH]; intros idx nd accs H; [cbn; lia|].
  cbn [default_accessors] in H. rewrite nv_cons. destruct (is_variadic d) eqn:Ev.
  - destruct (default_accessors r (idx + 1) nd false) eqn:E; [|discriminate].
    apply default_after_all_single in E. rewrite (all_single_nv _ E). lia.
  - destruct (default_accessors r (idx + 1) nd true) eqn:E; [|discriminate].
    apply IH in E. lia.
Qed.

Lemma all_single_same : forall (k : Z) defs sizes,
  Forall (fun d => d = Single) defs -> length defs = length sizes ->
  Forall2 (fun d s => is_variadic d = true -> s = k) defs sizes.
Proof.
  intros k defs. induction defs as [|d r IH]; intros sizes Hs Hl; destruct sizes; try discriminate; constructor.
  - inversion Hs; subst. discriminate.
  - inversion Hs; subst. apply IH; auto.
Qed.

Lemma nv_le_1_same : forall defs sizes,
  num_variadics defs <= 1 -> Forall2 size_ok defs sizes -> same_sizes defs sizes.
Proof.
  intros defs sizes Hnv H. induction H as [|d s ds ss Hd Hr IH].
  - exists 0. constructor.
  - rewrite nv_cons in Hnv. pose proof (nv_nonneg ds). destruct (is_variadic d) eqn:Ev.
    + exists s. constructor; [auto|]. apply all_single_same; [|eapply F2_length; eauto].
      apply nv0_all_single. lia.
    + destruct IH as [k Hk]; [lia|]. exists k. constructor; auto. congruence.
Qed.

(* well-definedness of the class: the accessors could be generated *)
Definition well_defined (v : version) (opt : sizeopt) (defs : list kind) : Prop :=
  exists accs, irdl_op_arg_definition v opt defs = Ok accs.

Theorem verify_sizes_iff : forall v opt defs n attr,
  opt <> AttrSized -> well_defined v opt defs ->
  (verify_variadic_size v opt defs n attr = Ok tt <-> exists sizes, segmentation opt defs n sizes).
Proof.
  intros v opt defs n attr Hopt [accs Hwd]. unfold segmentation.
  destruct opt; [| |congruence]; cbn [verify_variadic_size]; rewrite same_size_iff.
  - cbn in Hwd. apply default_nv_le_1 in Hwd.
    split; intros (sizes & H1 & H2 & H3); exists sizes; repeat split; auto; try discriminate.
    apply nv_le_1_same; auto.
  - split; intros (sizes & H1 & H2 & H3); exists sizes; repeat split; auto.
Qed.

Theorem segmentation_unique : forall v opt defs n s1 s2,
  opt <> AttrSized -> well_defined v opt defs ->
  segmentation opt defs n s1 -> segmentation opt defs n s2 -> s1 = s2.
Proof.
  intros v opt defs n s1 s2 Hopt [accs Hwd] (A1 & A2 & A3) (B1 & B2 & B3).
  assert (HS : forall s, Forall2 size_ok defs s -> (opt = SameSize -> same_sizes defs s) -> same_sizes defs s).
  { intros s Hs Hsame. destruct opt; [|auto|congruence].
    cbn in Hwd. apply default_nv_le_1 in Hwd. apply nv_le_1_same; auto. }
  destruct (HS _ A1 A3) as [k1 K1]. destruct (HS _ B1 B3) as [k2 K2].
  rewrite (canon _ _ _ A1 K1) in *. rewrite (canon _ _ _ B1 K2) in *.
  rewrite zsum_const in A2, B2. pose proof (nv_nonneg defs).
  destruct (Z.eq_dec (num_variadics defs) 0) as [E|E].
  - rewrite !all_single_const by (apply nv0_all_single; auto). reflexivity.
  - assert (k1 = k2) by nia. subst; reflexivity.
Qed.

(* ================================================================ attr-sized verification *)
(* what the pinned verify_variadic_attr_size checks per definition: nothing for a variadic one *)
Definition size_ok_weak (k : kind) (s : Z) : Prop :=
  match k with Single => s = 1 | Optional => s = 0 \/ s = 1 | Variadic => True end.
(* per-definition check of the code: pinned (fx = false) or repaired (fx = true) *)
Definition size_chk (fx : bool) : kind -> Z -> Prop := if fx then size_ok else size_ok_weak.

Lemma attr_loop_iff : forall fx sizes defs, length sizes = length defs ->
  (attr_size_loop fx sizes defs = Ok tt <-> Forall2 (size_chk fx) defs sizes).
Proof.
  intros fx. induction sizes as [|s ss IH]; intros defs Hl; destruct defs as [|d ds]; try discriminate.
  - cbn. split; [constructor|reflexivity].
  - cbn [attr_size_loop]. injection Hl as Hl. specialize (IH ds Hl).
    assert (Hneg : fx && (s <? 0) = true -> ~ size_chk fx d s).
    { intros E. apply andb_true_iff in E. destruct E as [-> E]. apply Z.ltb_lt in E.
      cbn [size_chk]. intros H. apply size_ok_nonneg in H. lia. }
    assert (Hvar : fx && (s <? 0) = false -> size_chk fx Variadic s).
    { intros E. destruct fx; cbn [size_chk andb] in *; cbn; auto. apply Z.ltb_ge in E. exact E. }
    assert (Hsame : forall k, k <> Variadic -> (size_chk fx k s <-> size_ok_weak k s)).
    { intros k Hk. destruct fx; cbn [size_chk]; [|tauto]. destruct k; cbn; tauto || congruence. }
    destruct (fx && (s <? 0)) eqn:En.
    + split; [discriminate|]. intros H; inversion H; subst. exfalso. apply (Hneg eq_refl). auto.
    + destruct d; cbn [is_optional is_variadic andb negb].
      * destruct (s =? 1) eqn:E; cbn [negb].
        -- apply Z.eqb_eq in E. rewrite IH. split; intros H; [constructor; auto|inversion H; auto].
           apply Hsame; [discriminate|exact E].
        -- apply Z.eqb_neq in E. split; [discriminate|]. intros H; inversion H; subst.
           apply Hsame in H3; [|discriminate]. cbn in H3. lia.
      * destruct ((s =? 0) || (s =? 1)) eqn:E; cbn [negb].
        -- apply orb_true_iff in E. rewrite !Z.eqb_eq in E. rewrite IH.
           split; intros H; [constructor; auto|inversion H; auto]. apply Hsame; [discriminate|exact E].
        -- apply orb_false_iff in E. rewrite !Z.eqb_neq in E. split; [discriminate|].
           intros H; inversion H; subst. apply Hsame in H3; [|discriminate]. cbn in H3. lia.
      * rewrite IH. split; intros H; [constructor; auto|inversion H; auto].
Qed.

(* exactly what the attr-sized path checks, for both variants of the code *)
Theorem attr_size_exact : forall fx defs attr n,
  verify_variadic_attr_size fx attr defs n = Ok tt <->
  exists sizes, attr = Dense true sizes /\ Forall2 (size_chk fx) defs sizes /\
                (fx = true -> zsum sizes = n).
Proof.
  intros fx defs attr n. destruct attr as [| |b sizes]; cbn [verify_variadic_attr_size];
    try (split; [discriminate|intros (s & H & _); discriminate]).
  destruct b; [|split; [discriminate|intros (s & H & _); discriminate]].
  destruct (Z.eqb_spec (len sizes) (len defs)) as [E|E]; cbn [negb].
  - assert (Hl : length sizes = length defs) by (unfold len in E; lia).
    destruct (attr_size_loop fx sizes defs) as [[]|e] eqn:El; cbn [bind].
    + apply attr_loop_iff in El; auto.
      destruct (fx && negb (zsum sizes =? n)) eqn:Es.
      * split; [discriminate|]. intros (s & H1 & _ & H2). injection H1 as <-.
        apply andb_true_iff in Es. destruct Es as [-> Es]. specialize (H2 eq_refl).
        apply negb_true_iff, Z.eqb_neq in Es. contradiction.
      * split; [intros _|reflexivity]. exists sizes. repeat split; auto. intros ->.
        cbn [andb] in Es. apply negb_false_iff, Z.eqb_eq in Es. exact Es.
    + split; [discriminate|]. intros (s & H1 & H2 & _). injection H1 as <-.
      apply attr_loop_iff in H2; auto. congruence.
  - split; [discriminate|]. intros (s & H1 & H2 & _). injection H1 as <-.
    apply F2_length in H2. unfold len in E. lia.
Qed.

Lemma ok_weak : forall defs sizes, Forall2 size_ok defs sizes -> Forall2 size_ok_weak defs sizes.
Proof. induction 1; constructor; auto. destruct x; cbn in *; auto. Qed.
Lemma weak_ok : forall defs sizes, Forall2 size_ok_weak defs sizes -> Forall (fun s => 0 <= s) sizes ->
  Forall2 size_ok defs sizes.
Proof.
  induction 1; intros Hn; constructor; inversion Hn; subst; auto. destruct x; cbn in *; auto.
Qed.
Lemma ok_chk : forall fx defs sizes, Forall2 size_ok defs sizes -> Forall2 (size_chk fx) defs sizes.
Proof. intros [] defs sizes H; cbn [size_chk]; auto using ok_weak. Qed.
Lemma chk_ok : forall fx defs sizes, Forall2 (size_chk fx) defs sizes ->
  Forall (fun s => 0 <= s) sizes -> Forall2 size_ok defs sizes.
Proof. intros [] defs sizes H Hn; cbn [size_chk] in H; auto using weak_ok. Qed.

(* pinned code: only the weak check *)
Theorem attr_size_iff_weak : forall defs attr n,
  verify_variadic_attr_size false attr defs n = Ok tt <->
  exists sizes, attr = Dense true sizes /\ Forall2 size_ok_weak defs sizes.
Proof.
  intros. rewrite attr_size_exact. cbn [size_chk].
  split; intros (s & H1 & H2); exists s; [tauto|]. repeat split; try tauto. discriminate.
Qed.

(* repaired code: exactly the segmentations (the FULL statement) *)
Theorem attr_size_repaired_iff : forall defs attr n,
  verify_variadic_attr_size true attr defs n = Ok tt <->
  exists sizes, attr = Dense true sizes /\ segmentation AttrSized defs n sizes.
Proof.
  intros. rewrite attr_size_exact. cbn [size_chk]. unfold segmentation.
  split.
  - intros (s & H1 & H2 & H3). exists s. repeat split; auto. discriminate.
  - intros (s & H1 & H2 & H3 & _). exists s. repeat split; auto.
Qed.

(* every valid attr-sized operation is accepted (both variants) *)
Theorem attr_size_complete : forall v defs n sizes,
  segmentation AttrSized defs n sizes ->
  verify_variadic_size v AttrSized defs n (Dense true sizes) = Ok tt.
Proof.
  intros v defs n sizes (H & Hs & _). cbn [verify_variadic_size]. apply attr_size_exact.
  exists sizes. repeat split; auto using ok_chk.
Qed.
(* accepted => valid under the two conditions the PINNED code never checks (both variants) *)
Theorem attr_size_sound_partial : forall v defs n sizes,
  Forall (fun s => 0 <= s) sizes -> zsum sizes = n ->
  verify_variadic_size v AttrSized defs n (Dense true sizes) = Ok tt ->
  segmentation AttrSized defs n sizes.
Proof.
  intros v defs n sizes Hn Hs H. cbn [verify_variadic_size] in H. apply attr_size_exact in H.
  destruct H as (s & E & Hw & _). injection E as <-.
  split; [|split]; eauto using chk_ok. discriminate.
Qed.
Theorem attr_size_iff_partial : forall v defs n sizes,
  Forall (fun s => 0 <= s) sizes -> zsum sizes = n ->
  (verify_variadic_size v AttrSized defs n (Dense true sizes) = Ok tt <->
   segmentation AttrSized defs n sizes).
Proof. split; eauto using attr_size_sound_partial, attr_size_complete. Qed.
(* repaired code: accepted => valid, unconditionally *)
Theorem attr_size_sound_repaired : forall v defs n attr,
  fix_attr_sum v = true -> verify_variadic_size v AttrSized defs n attr = Ok tt ->
  exists sizes, attr = Dense true sizes /\ segmentation AttrSized defs n sizes.
Proof.
  intros v defs n attr Hv H. cbn [verify_variadic_size] in H. rewrite Hv in H.
  apply attr_size_repaired_iff. exact H.
Qed.

(* pinned code: the full statement fails: sum never compared with the argument count;
   negative sizes accepted *)
Theorem attr_size_refuted_sum : forall v, fix_attr_sum v = false -> exists defs n sizes,
  verify_variadic_size v AttrSized defs n (Dense true sizes) = Ok tt /\
  ~ segmentation AttrSized defs n sizes.
Proof.
  intros v Hv. exists [Variadic; Single], 3, [1; 1]. split.
  - cbn [verify_variadic_size]. rewrite Hv. reflexivity.
  - intros (_ & H & _). cbn in H. lia.
Qed.
Theorem attr_size_refuted_negative : forall v, fix_attr_sum v = false -> exists defs n sizes,
  verify_variadic_size v AttrSized defs n (Dense true sizes) = Ok tt /\ zsum sizes = n /\
  ~ segmentation AttrSized defs n sizes.
Proof.
  intros v Hv. exists [Variadic; Variadic], 3, [-1; 4]. split; [|split; [reflexivity|]].
  - cbn [verify_variadic_size]. rewrite Hv. reflexivity.
  - intros (H & _ & _). inversion H; subst. cbn in *. lia.
Qed.
