(* C10/ProofsVerify.v -- OpDef.verify as a whole: it accepts exactly when the four lists split
   into the declared segments and every piece / property / attribute satisfies its constraint
   under ONE assignment of the constraint variables; constructor output verifies. *)
From Coq Require Import ZArith List Bool Lia.
From XV Require Import C10.Model C10.Proofs C10.ProofsAcc.
Import ListNotations.
Local Open Scope Z_scope.

Lemma bind_ok : forall T U (r : res T) (f : T -> res U) y,
  bind r f = Ok y <-> exists x, r = Ok x /\ f x = Ok y.
Proof.
  intros. destruct r; cbn; split.
  - intros H; eauto.
  - intros (x & E & H). injection E as <-. auto.
  - discriminate.
  - intros (x & E & _). discriminate.
Qed.

Section Whole.
Variable A : Type.
Variable A_eqb : A -> A -> bool.
Hypothesis A_eqb_spec : forall a b, A_eqb a b = true <-> a = b.
Variable ver : version.     (* which of the two repairs the modelled code contains *)

Notation irdl_op_arg_definition := (Model.irdl_op_arg_definition ver).
Notation verify_variadic_size := (Model.verify_variadic_size ver).
Notation well_defined := (Proofs.well_defined ver).
Notation same_nonvacuous := (ProofsAcc.same_nonvacuous ver).
(* the value universe A holds attributes and ints: see Model.v *)
Variable of_int : Z -> A.
Variable as_int : A -> option Z.
Notation constr := (constr A).
Notation cctx := (cctx A).
Notation verify_attr := (verify_attr A A_eqb).
Notation verify_range := (Model.verify_range A A_eqb of_int).
Notation verify_arg_constr := (Model.verify_arg_constr A A_eqb of_int).
Notation verify_args_loop := (Model.verify_args_loop A A_eqb of_int).
Notation verify_entry_args := (Model.verify_entry_args A A_eqb of_int).
Notation verify_regions_loop := (Model.verify_regions_loop A A_eqb of_int).
Notation verify_nconstr := (Model.verify_nconstr A A_eqb of_int as_int).
Notation verify_named := (Model.verify_named A A_eqb of_int as_int).
Notation irdl_op_verify_arg_list := (Model.irdl_op_verify_arg_list A A_eqb ver of_int).
Notation opdef_verify := (Model.opdef_verify A A_eqb ver of_int as_int).

(* ================================================================ Spec of the constraint clause *)
(* an assignment of the constraint variables *)
Definition assignment := nat -> option A.
(* value a satisfies constraint c under assignment sg *)
Definition sat (sg : assignment) (c : constr) (a : A) : Prop :=
  cpred A c a = true /\ forall v, cvar A c = Some v -> sg v = Some a.
Definition all_sat (sg : assignment) (ps : list (constr * A)) : Prop :=
  Forall (fun p => sat sg (fst p) (snd p)) ps.

(* (constraint, value) pairs of an operation, given its segments *)
(* a range with an optional length constraint: the LENGTH (as an int value) must satisfy the
   length constraint -- this is where integer variables shared between segments are compared *)
Definition range_pairs (c : constr) (lc : option constr) (seg : list A) : list (constr * A) :=
  match lc with Some l => [(l, of_int (len seg))] | None => [] end ++ map (pair c) seg.
Definition piece_pairs (d : argdef A) (seg : list A) : list (constr * A) :=
  match akind A d with
  | Single => map (pair (aconstr A d)) seg
  | _ => range_pairs (aconstr A d) (alen A d) seg
  end.
Definition arg_pairs (defs : list (argdef A)) (segs : list (list A)) : list (constr * A) :=
  flat_map (fun p => piece_pairs (fst p) (snd p)) (combine defs segs).
(* a region contributes the argument types of its first block (nothing if it has no block) *)
Definition entry_pairs (c : constr) (lc : option constr) (r : region A) : list (constr * A) :=
  match r with [] => [] | b :: _ => range_pairs c lc b end.
Definition region_pairs (defs : list (regiondef A)) (segs : list (list (region A))) : list (constr * A) :=
  flat_map (fun p => flat_map (entry_pairs (rentry A (fst p)) (rlen A (fst p))) (snd p))
           (combine defs segs).
(* a property/attribute: the value itself, or the integer payload of an IntAttr *)
Definition nconstr_of (nc : nconstr A) : constr := match nc with NAttr _ c => c | NIntAttr _ ic => ic end.
Definition nvalue (nc : nconstr A) (a : A) : option A :=
  match nc with
  | NAttr _ _ => Some a
  | NIntAttr _ _ => match as_int a with Some k => Some (of_int k) | None => None end
  end.
Definition named_pairs (defs : list (bool * nconstr A)) (vals : list (option A)) : list (constr * A) :=
  flat_map (fun p => match snd p with
                     | Some a => match nvalue (snd (fst p)) a with
                                 | Some x => [(nconstr_of (snd (fst p)), x)]
                                 | None => []
                                 end
                     | None => []
                     end) (combine defs vals).
(* structural side conditions *)
Definition single_ok (defs : list (regiondef A)) (segs : list (list (region A))) : Prop :=
  Forall (fun p => rsingle A (fst p) = true -> Forall (fun r => len r = 1) (snd p)) (combine defs segs).
(* absent only if optional; an IntAttr-constrained value is an IntAttr *)
Definition present_ok (defs : list (bool * nconstr A)) (vals : list (option A)) : Prop :=
  Forall (fun p => match snd p with
                   | None => fst (fst p) = true
                   | Some a => nvalue (snd (fst p)) a <> None
                   end) (combine defs vals).

(* ================================================================ threading = one assignment *)
Fixpoint verify_pairs (ps : list (constr * A)) (ctx : cctx) : res cctx :=
  match ps with
  | [] => Ok ctx
  | (c, a) :: r => do ctx' <- verify_attr c a ctx; verify_pairs r ctx'
  end.

Lemma verify_pairs_app : forall p q ctx,
  verify_pairs (p ++ q) ctx = (do ctx' <- verify_pairs p ctx; verify_pairs q ctx').
Proof.
  induction p as [|[c a] r IH]; intros q ctx; [reflexivity|]. cbn [app verify_pairs].
  destruct (verify_attr c a ctx); cbn [bind]; auto.
Qed.

Lemma range_of_pairs : forall c l ctx,
  verify_range_of A A_eqb c l ctx = verify_pairs (map (pair c) l) ctx.
Proof.
  induction l as [|a r IH]; intros ctx; [reflexivity|]. cbn [verify_range_of map verify_pairs].
  destruct (verify_attr c a ctx); cbn [bind]; auto.
Qed.

Lemma range_pairs_ok : forall c lc l ctx,
  verify_range c lc l ctx = verify_pairs (range_pairs c lc l) ctx.
Proof.
  intros c [l0|] l ctx; unfold Model.verify_range, range_pairs; cbn [app verify_pairs].
  - destruct (verify_attr l0 (of_int (len l)) ctx); cbn [bind]; auto using range_of_pairs.
  - apply range_of_pairs.
Qed.

Definition extends (ctx ctx' : cctx) : Prop :=
  forall v a, ctx_get A v ctx = Some a -> ctx_get A v ctx' = Some a.
Definition ctx_wf (base : nat -> A -> bool) (ctx : cctx) : Prop :=
  forall v a, ctx_get A v ctx = Some a -> base v a = true.
Definition consistent (base : nat -> A -> bool) (cs : list constr) : Prop :=
  forall c, In c cs -> forall v, cvar A c = Some v -> forall a, cpred A c a = base v a.

Lemma verify_pairs_sound : forall base ps ctx ctx',
  consistent base (map fst ps) -> ctx_wf base ctx ->
  verify_pairs ps ctx = Ok ctx' ->
  extends ctx ctx' /\ ctx_wf base ctx' /\ all_sat (fun v => ctx_get A v ctx') ps.
Proof.
  intros base. induction ps as [|[c a] r IH]; intros ctx ctx' Hc Hwf H.
  - cbn in H. injection H as <-. split; [intros v a0 E; exact E|]. split; [auto|constructor].
  - cbn [verify_pairs] in H. apply bind_ok in H. destruct H as (ctx1 & H1 & H2).
    assert (Hc' : consistent base (map fst r)).
    { intros c0 Hin. apply Hc. right. exact Hin. }
    assert (Hhead : forall v, cvar A c = Some v -> forall x, cpred A c x = base v x).
    { apply Hc. left. reflexivity. }
    assert (Hstep : extends ctx ctx1 /\ ctx_wf base ctx1 /\
                    cpred A c a = true /\ forall v, cvar A c = Some v -> ctx_get A v ctx1 = Some a).
    { unfold Model.verify_attr in H1. destruct (cvar A c) as [v|] eqn:Ev.
      - destruct (ctx_get A v ctx) as [b|] eqn:Eg.
        + destruct (A_eqb a b) eqn:Eab; [|discriminate]. injection H1 as <-.
          apply A_eqb_spec in Eab. subst b.
          split; [intros w x E; exact E|]. split; [auto|]. split.
          * rewrite (Hhead v eq_refl). eapply Hwf; eauto.
          * intros w Ew. injection Ew as <-. exact Eg.
        + destruct (cpred A c a) eqn:Ep; [|discriminate]. injection H1 as <-.
          split; [|split; [|split]].
          * intros w x E. cbn [ctx_get]. destruct (Nat.eqb_spec w v); [subst; congruence|exact E].
          * intros w x E. cbn [ctx_get] in E. destruct (Nat.eqb_spec w v).
            -- subst. injection E as <-. rewrite <- (Hhead v eq_refl). exact Ep.
            -- eapply Hwf; eauto.
          * reflexivity.
          * intros w Ew. injection Ew as <-. cbn [ctx_get]. rewrite Nat.eqb_refl. reflexivity.
      - destruct (cpred A c a) eqn:Ep; [|discriminate]. injection H1 as <-.
        split; [intros w x E; exact E|]. split; [auto|]. split; [reflexivity|discriminate]. }
    destruct Hstep as (Hext1 & Hwf1 & Hp & Hv).
    destruct (IH _ _ Hc' Hwf1 H2) as (Hext2 & Hwf2 & Hall).
    split; [intros v x E; apply Hext2, Hext1, E|]. split; [exact Hwf2|].
    constructor; [|exact Hall]. split; [exact Hp|]. intros v Ev. cbn [fst snd]. apply Hext2, Hv, Ev.
Qed.

Lemma verify_pairs_complete : forall (sg : assignment) ps ctx,
  (forall v a, ctx_get A v ctx = Some a -> sg v = Some a) ->
  all_sat sg ps -> exists ctx', verify_pairs ps ctx = Ok ctx'.
Proof.
  intros sg. induction ps as [|[c a] r IH]; intros ctx Hag Hall; [eexists; reflexivity|].
  inversion Hall as [|? ? [Hp Hv] Hr]; subst. cbn [fst snd] in *. cbn [verify_pairs].
  unfold Model.verify_attr. destruct (cvar A c) as [v|] eqn:Ev.
  - destruct (ctx_get A v ctx) as [b|] eqn:Eg.
    + assert (a = b) by (specialize (Hag _ _ Eg); specialize (Hv _ eq_refl); congruence). subst b.
      assert (E : A_eqb a a = true) by (apply A_eqb_spec; reflexivity). rewrite E. cbn [bind]. apply IH; auto.
    + rewrite Hp. cbn [bind]. apply IH; auto. intros w x E. cbn [ctx_get] in E.
      destruct (Nat.eqb_spec w v); [subst; injection E as <-; auto|auto].
  - rewrite Hp. cbn [bind]. apply IH; auto.
Qed.

(* threading the ConstraintContext through all checks = existence of ONE assignment *)
Theorem verify_pairs_iff : forall base ps,
  consistent base (map fst ps) ->
  ((exists ctx', verify_pairs ps [] = Ok ctx') <-> exists sg, all_sat sg ps).
Proof.
  intros base ps Hc. split.
  - intros [ctx' H]. eapply verify_pairs_sound in H; eauto.
    + destruct H as (_ & _ & H). eauto.
    + intros v a E. discriminate.
  - intros [sg H]. eapply verify_pairs_complete; eauto. intros v a E. discriminate.
Qed.

(* ================================================================ the loops, given the segments *)
Lemma args_loop_pairs : forall accs defs attr args segs ctx,
  run accs attr args = expected (map (akind A) defs) segs ->
  Forall2 (fun d seg => size_ok (akind A d) (len seg)) defs segs ->
  verify_args_loop accs defs attr args ctx = verify_pairs (arg_pairs defs segs) ctx.
Proof.
  intros accs defs attr args segs ctx Hrun H. revert accs ctx Hrun.
  induction H as [|d seg defs segs Hd Hr IH]; intros accs ctx Hrun.
  - destruct accs; reflexivity.
  - destruct accs as [|acc accs]; [discriminate|].
    cbn [map] in Hrun. rewrite run_cons, expected_cons in Hrun. injection Hrun as Hacc Hrun.
    cbn [Model.verify_args_loop]. rewrite Hacc. cbn [bind]. rewrite accres_list_shape.
    unfold arg_pairs. cbn [combine flat_map fst snd]. rewrite verify_pairs_app.
    fold (arg_pairs defs segs).
    assert (E : verify_arg_constr d seg ctx = verify_pairs (piece_pairs d seg) ctx).
    { unfold Model.verify_arg_constr, piece_pairs.
      destruct (akind A d) eqn:Ek; try apply range_pairs_ok.
      cbn [size_ok] in Hd. destruct seg as [|x0 [|y0 r0]].
      - exfalso. rewrite len_nil in Hd. lia.
      - cbn. destruct (verify_attr (aconstr A d) x0 ctx); reflexivity.
      - exfalso. rewrite !len_cons in Hd. pose proof (len_nonneg _ r0). lia. }
    rewrite E. destruct (verify_pairs (piece_pairs d seg) ctx); cbn [bind]; auto.
Qed.

Lemma entry_args_pairs : forall c lc rs ctx,
  verify_entry_args c lc rs ctx = verify_pairs (flat_map (entry_pairs c lc) rs) ctx.
Proof.
  induction rs as [|r rs IH]; intros ctx; [reflexivity|]. cbn [Model.verify_entry_args flat_map].
  destruct r as [|b bs]; cbn [entry_pairs app]; [apply IH|].
  rewrite verify_pairs_app, range_pairs_ok.
  destruct (verify_pairs (range_pairs c lc b) ctx); cbn [bind]; auto.
Qed.

Lemma forallb_len1 : forall (rs : list (region A)),
  forallb (fun rg => len rg =? 1) rs = true <-> Forall (fun r => len r = 1) rs.
Proof.
  intros. rewrite forallb_forall, Forall_forall. split; intros H r Hr; specialize (H r Hr);
    [apply Z.eqb_eq|apply Z.eqb_eq]; auto.
Qed.

Lemma regions_loop_pairs : forall accs defs attr regions segs ctx ctx',
  run accs attr regions = expected (map (rkind A) defs) segs ->
  length defs = length segs ->
  (verify_regions_loop accs defs attr regions ctx = Ok ctx' <->
   single_ok defs segs /\ verify_pairs (region_pairs defs segs) ctx = Ok ctx').
Proof.
  intros accs defs attr regions segs. revert accs segs.
  induction defs as [|d defs IH]; intros accs segs ctx ctx' Hrun Hl.
  - destruct segs; [|discriminate]. destruct accs; cbn; (split; [intros H; split; [constructor|exact H]|tauto]).
  - destruct segs as [|seg segs]; [discriminate|]. injection Hl as Hl.
    destruct accs as [|acc accs]; [discriminate|].
    cbn [map] in Hrun. rewrite run_cons, expected_cons in Hrun. injection Hrun as Hacc Hrun.
    cbn [Model.verify_regions_loop]. rewrite Hacc. cbn [bind]. rewrite accres_list_shape.
    unfold single_ok, region_pairs. cbn [combine flat_map fst snd]. rewrite verify_pairs_app.
    fold (region_pairs defs segs). rewrite Forall_cons_iff. cbn [fst snd]. fold (single_ok defs segs).
    rewrite entry_args_pairs.
    destruct (rsingle A d) eqn:Es; cbn [andb].
    + destruct (forallb (fun rg => len rg =? 1) seg) eqn:Ef; cbn [negb].
      * apply forallb_len1 in Ef. rewrite bind_ok. split.
        -- intros (c1 & H1 & H2). apply (IH accs segs c1 ctx' Hrun Hl) in H2. destruct H2 as [S P].
           split; [split; auto|]. rewrite H1. cbn [bind]. exact P.
        -- intros ((_ & S) & P). apply bind_ok in P. destruct P as (c1 & H1 & H2).
           exists c1. split; auto. apply (IH accs segs c1 ctx' Hrun Hl); auto.
      * split; [discriminate|]. intros ((S1 & _) & _). specialize (S1 eq_refl).
        apply forallb_len1 in S1. congruence.
    + rewrite bind_ok. split.
      * intros (c1 & H1 & H2). apply (IH accs segs c1 ctx' Hrun Hl) in H2. destruct H2 as [S P].
        split; [split; [discriminate|auto]|]. rewrite H1. cbn [bind]. exact P.
      * intros ((_ & S) & P). apply bind_ok in P. destruct P as (c1 & H1 & H2).
        exists c1. split; auto. apply (IH accs segs c1 ctx' Hrun Hl); auto.
Qed.

Lemma named_pairs_iff : forall defs vals ctx ctx',
  verify_named defs vals ctx = Ok ctx' <->
  present_ok defs vals /\ verify_pairs (named_pairs defs vals) ctx = Ok ctx'.
Proof.
  induction defs as [|[opt c] defs IH]; intros vals ctx ctx'.
  - cbn. split; [intros H; split; [constructor|exact H]|tauto].
  - destruct vals as [|v vals].
    + cbn. split; [intros H; split; [constructor|exact H]|tauto].
    + cbn [Model.verify_named]. unfold present_ok, named_pairs. cbn [combine flat_map fst snd].
      fold (named_pairs defs vals). rewrite Forall_cons_iff. cbn [fst snd]. fold (present_ok defs vals).
      destruct v as [a|].
      * assert (Hn : verify_nconstr c a ctx
                     = match nvalue c a with
                       | Some x => verify_attr (nconstr_of c) x ctx
                       | None => Raise VerifyException
                       end).
        { unfold Model.verify_nconstr, nvalue, nconstr_of. destruct c; [reflexivity|].
          destruct (as_int a); reflexivity. }
        rewrite Hn. destruct (nvalue c a) as [x|] eqn:En.
        -- cbn [app verify_pairs]. rewrite !bind_ok. split.
           ++ intros (c1 & H1 & H2). apply IH in H2. destruct H2 as [S P].
              split; [split; [discriminate|auto]|]. eauto.
           ++ intros ((_ & S) & (c1 & H1 & H2)). exists c1. split; auto. apply IH; auto.
        -- cbn [bind]. split; [discriminate|]. intros ((S & _) & _). congruence.
      * cbn [app]. destruct opt.
        -- rewrite IH. intuition.
        -- split; [discriminate|]. intros ((S & _) & _). discriminate S.
Qed.

(* ================================================================ per-construct: sizes + constraints *)
(* the sizes split `args` as declared; for attr-sized they are the recorded ones *)
Definition seg_for {T} (opt : sizeopt) (kinds : list kind) (args : list T) (attr : seg_attr)
  (sizes : list Z) : Prop :=
  segmentation opt kinds (len args) sizes /\ (opt = AttrSized -> attr = Dense true sizes).

(* the two preconditions under which the PINNED code is right (see the refutations in
   Props/C10.v); each becomes vacuous once the corresponding repair is in the code
   (same_nonvacuous is defined in ProofsAcc.v) *)
Definition attr_disciplined (opt : sizeopt) (attr : seg_attr) (n : Z) : Prop :=
  opt = AttrSized -> fix_attr_sum ver = false ->
  forall vs, attr = Dense true vs -> Forall (fun s => 0 <= s) vs /\ zsum vs = n.

Lemma verify_size_seg_for : forall T opt kinds (args : list T) attr,
  well_defined opt kinds -> attr_disciplined opt attr (len args) ->
  (verify_variadic_size opt kinds (len args) attr = Ok tt <-> exists sizes, seg_for opt kinds args attr sizes).
Proof.
  intros T opt kinds args attr Hwd Hd. unfold seg_for. destruct opt.
  - rewrite verify_sizes_iff by (auto; discriminate). split; intros (s & H); exists s; [split; [auto|discriminate]|tauto].
  - rewrite verify_sizes_iff by (auto; discriminate). split; intros (s & H); exists s; [split; [auto|discriminate]|tauto].
  - split.
    + intros H. destruct (fix_attr_sum ver) eqn:Ef.
      * apply attr_size_sound_repaired in H; auto. destruct H as (sizes & -> & Hseg).
        exists sizes. split; auto.
      * pose proof H as H'. cbn [Model.verify_variadic_size] in H'. rewrite Ef in H'.
        apply attr_size_iff_weak in H'. destruct H' as (sizes & -> & Hw).
        destruct (Hd eq_refl Ef _ eq_refl) as [Hn Hs]. exists sizes. split; auto.
        apply (attr_size_sound_partial ver); auto.
    + intros (sizes & Hseg & Ha). rewrite (Ha eq_refl). apply (attr_size_complete ver _ _ _ Hseg).
Qed.

Lemma seg_for_segs : forall T opt kinds (args : list T) attr sizes,
  seg_for opt kinds args attr sizes ->
  Forall2 (fun k seg => size_ok k (len seg)) kinds (split_sizes sizes args).
Proof.
  intros T opt kinds args attr sizes ((Hok & Hsum & _) & _).
  pose proof (split_lengths _ _ args (sizes_nonneg _ _ Hok) Hsum) as Hl.
  revert Hl. generalize (split_sizes sizes args). clear Hsum. induction Hok as [|k s ks ss Hk _ IH]; intros segs Hl.
  - destruct segs; [constructor|discriminate].
  - destruct segs as [|seg segs]; [discriminate|]. cbn [map] in Hl. injection Hl as <- Hl. constructor; auto.
Qed.

Lemma F2_map_l : forall X Y Z (f : X -> Y) (P : Y -> Z -> Prop) l1 l2,
  Forall2 P (map f l1) l2 -> Forall2 (fun x z => P (f x) z) l1 l2.
Proof.
  intros X Y Z0 f P l1. induction l1 as [|x r IH]; intros l2 H; inversion H; subst; constructor; auto.
Qed.

Lemma arg_list_iff : forall opt accs defs attr args ctx ctx',
  irdl_op_arg_definition opt (map (akind A) defs) = Ok accs ->
  attr_disciplined opt attr (len args) -> same_nonvacuous opt (map (akind A) defs) ->
  (irdl_op_verify_arg_list opt accs defs attr args ctx = Ok ctx' <->
   exists sizes, seg_for opt (map (akind A) defs) args attr sizes /\
                 verify_pairs (arg_pairs defs (split_sizes sizes args)) ctx = Ok ctx').
Proof.
  intros opt accs defs attr args ctx ctx' Hacc Hd Hnv. unfold Model.irdl_op_verify_arg_list.
  assert (Hwd : well_defined opt (map (akind A) defs)) by (eexists; eauto).
  assert (Hloop : forall sizes, seg_for opt (map (akind A) defs) args attr sizes ->
            verify_args_loop accs defs attr args ctx
            = verify_pairs (arg_pairs defs (split_sizes sizes args)) ctx).
  { intros sizes Hs. apply args_loop_pairs.
    - destruct Hs as [Hseg Ha]. eapply accessors_spec; eauto; intros E; rewrite (Ha E); eauto.
    - apply (F2_map_l _ _ _ (akind A) (fun k (seg : list A) => size_ok k (len seg))).
      eapply seg_for_segs; eauto. }
  rewrite bind_ok. split.
  - intros ([] & Hv & Hl). apply verify_size_seg_for in Hv; auto. destruct Hv as [sizes Hs].
    exists sizes. split; auto. rewrite <- Hloop; auto.
  - intros (sizes & Hs & Hp). exists tt. split.
    + apply verify_size_seg_for; eauto.
    + rewrite (Hloop _ Hs). exact Hp.
Qed.

Lemma regions_iff : forall opt accs defs attr (regions : list (region A)) ctx ctx',
  irdl_op_arg_definition opt (map (rkind A) defs) = Ok accs ->
  attr_disciplined opt attr (len regions) -> same_nonvacuous opt (map (rkind A) defs) ->
  ((do _ <- verify_variadic_size opt (map (rkind A) defs) (len regions) attr;
    verify_regions_loop accs defs attr regions ctx) = Ok ctx' <->
   exists sizes, seg_for opt (map (rkind A) defs) regions attr sizes /\
                 single_ok defs (split_sizes sizes regions) /\
                 verify_pairs (region_pairs defs (split_sizes sizes regions)) ctx = Ok ctx').
Proof.
  intros opt accs defs attr regions ctx ctx' Hacc Hd Hnv.
  assert (Hwd : well_defined opt (map (rkind A) defs)) by (eexists; eauto).
  assert (Hloop : forall sizes, seg_for opt (map (rkind A) defs) regions attr sizes ->
            (verify_regions_loop accs defs attr regions ctx = Ok ctx' <->
             single_ok defs (split_sizes sizes regions) /\
             verify_pairs (region_pairs defs (split_sizes sizes regions)) ctx = Ok ctx')).
  { intros sizes Hs. apply regions_loop_pairs.
    - destruct Hs as [Hseg Ha]. eapply accessors_spec; eauto; intros E; rewrite (Ha E); eauto.
    - pose proof (seg_for_segs _ _ _ _ _ _ Hs) as H. apply F2_length in H. rewrite map_length in H. exact H. }
  rewrite bind_ok. split.
  - intros ([] & Hv & Hl). apply verify_size_seg_for in Hv; auto. destruct Hv as [sizes Hs].
    exists sizes. split; auto. apply Hloop; auto.
  - intros (sizes & Hs & Hp). exists tt. split.
    + apply verify_size_seg_for; eauto.
    + apply (Hloop _ Hs). exact Hp.
Qed.

(* ================================================================ OpDef.verify *)
Notation opdef := (opdef A).
Notation opinst := (opinst A).

Definition opt_list {T} (o : option T) : list T := match o with Some x => [x] | None => [] end.
Definition arg_constrs (d : argdef A) : list constr := aconstr A d :: opt_list (alen A d).
Definition reg_constrs (d : regiondef A) : list constr := rentry A d :: opt_list (rlen A d).
Definition named_constr (p : bool * nconstr A) : constr := nconstr_of (snd p).
(* every attribute / length / integer constraint of the definition *)
Definition all_constrs (d : opdef) : list constr :=
  flat_map arg_constrs (d_operands A d) ++ flat_map arg_constrs (d_results A d)
  ++ flat_map reg_constrs (d_regions A d)
  ++ map named_constr (d_props A d) ++ map named_constr (d_attrs A d).

(* all (constraint, value) pairs of an operation whose lists are split by s1 s2 s3 *)
Definition op_pairs (d : opdef) (o : opinst) (s1 s2 s3 : list Z) : list (constr * A) :=
  arg_pairs (d_operands A d) (split_sizes s1 (o_operands A o))
  ++ arg_pairs (d_results A d) (split_sizes s2 (o_results A o))
  ++ region_pairs (d_regions A d) (split_sizes s3 (o_regions A o))
  ++ named_pairs (d_props A d) (o_props A o)
  ++ named_pairs (d_attrs A d) (o_attrs A o).

(* the property's statement for one operation *)
Definition op_valid (d : opdef) (o : opinst) : Prop :=
  exists s1 s2 s3 s4,
    seg_for (d_opopt A d) (map (akind A) (d_operands A d)) (o_operands A o) (o_opseg A o) s1 /\
    seg_for (d_resopt A d) (map (akind A) (d_results A d)) (o_results A o) (o_resseg A o) s2 /\
    seg_for (d_regopt A d) (map (rkind A) (d_regions A d)) (o_regions A o) (o_regseg A o) s3 /\
    seg_for (d_sucopt A d) (d_succs A d) (o_succs A o) (o_sucseg A o) s4 /\
    single_ok (d_regions A d) (split_sizes s3 (o_regions A o)) /\
    present_ok (d_props A d) (o_props A o) /\ o_extra_prop A o = false /\
    present_ok (d_attrs A d) (o_attrs A o) /\
    exists sg, all_sat sg (op_pairs d o s1 s2 s3).

(* preconditions: the two known defects excluded, variables used with one base constraint *)
Definition op_disciplined (d : opdef) (o : opinst) : Prop :=
  attr_disciplined (d_opopt A d) (o_opseg A o) (len (o_operands A o)) /\
  attr_disciplined (d_resopt A d) (o_resseg A o) (len (o_results A o)) /\
  attr_disciplined (d_regopt A d) (o_regseg A o) (len (o_regions A o)) /\
  attr_disciplined (d_sucopt A d) (o_sucseg A o) (len (o_succs A o)).
Definition def_nonvacuous (d : opdef) : Prop :=
  same_nonvacuous (d_opopt A d) (map (akind A) (d_operands A d)) /\
  same_nonvacuous (d_resopt A d) (map (akind A) (d_results A d)) /\
  same_nonvacuous (d_regopt A d) (map (rkind A) (d_regions A d)).
Definition def_consistent (d : opdef) : Prop := exists base, consistent base (all_constrs d).

Lemma in_range_pairs : forall c lc seg p, In p (range_pairs c lc seg) -> In (fst p) (c :: opt_list lc).
Proof.
  intros c lc seg p H. unfold range_pairs in H. apply in_app_iff in H. destruct H as [H|H].
  - destruct lc as [l|]; [|destruct H]. destruct H as [<-|[]]. right. left. reflexivity.
  - apply in_map_iff in H. destruct H as (a & <- & _). left. reflexivity.
Qed.
Lemma in_arg_pairs : forall defs segs p,
  In p (arg_pairs defs segs) -> In (fst p) (flat_map arg_constrs defs).
Proof.
  intros defs segs p H. unfold arg_pairs in H. apply in_flat_map in H. destruct H as ([d seg] & Hin & Hp).
  cbn [fst snd] in Hp. apply in_flat_map. exists d. split; [eapply in_combine_l; eauto|].
  unfold piece_pairs in Hp. unfold arg_constrs.
  destruct (akind A d); [|eapply in_range_pairs; exact Hp|eapply in_range_pairs; exact Hp].
  apply in_map_iff in Hp. destruct Hp as (a & <- & _). left. reflexivity.
Qed.
Lemma in_region_pairs : forall defs segs p,
  In p (region_pairs defs segs) -> In (fst p) (flat_map reg_constrs defs).
Proof.
  intros defs segs p H. unfold region_pairs in H. apply in_flat_map in H. destruct H as ([d seg] & Hin & Hp).
  cbn [fst snd] in Hp. apply in_flat_map in Hp. destruct Hp as (r & _ & Hp).
  apply in_flat_map. exists d. split; [eapply in_combine_l; eauto|].
  unfold entry_pairs in Hp. destruct r; [destruct Hp|]. eapply in_range_pairs; eauto.
Qed.
Lemma in_named_pairs : forall defs vals p,
  In p (named_pairs defs vals) -> In (fst p) (map named_constr defs).
Proof.
  intros defs vals p H. unfold named_pairs in H. apply in_flat_map in H. destruct H as ([[b c] v] & Hin & Hp).
  cbn [fst snd] in Hp. destruct v as [a|]; [|destruct Hp]. destruct (nvalue c a); [|destruct Hp].
  destruct Hp as [<-|[]]. cbn [fst].
  apply in_combine_l in Hin. change (nconstr_of c) with (named_constr (b, c)). apply in_map. exact Hin.
Qed.

Lemma op_pairs_consistent : forall base d o s1 s2 s3,
  consistent base (all_constrs d) -> consistent base (map fst (op_pairs d o s1 s2 s3)).
Proof.
  intros base d o s1 s2 s3 H c Hin. apply H. apply in_map_iff in Hin. destruct Hin as (p & <- & Hp).
  unfold op_pairs in Hp. unfold all_constrs. rewrite !in_app_iff in *.
  destruct Hp as [Hp|[Hp|[Hp|[Hp|Hp]]]].
  - left. eapply in_arg_pairs; eauto.
  - right; left. eapply in_arg_pairs; eauto.
  - right; right; left. eapply in_region_pairs; eauto.
  - right; right; right; left. eapply in_named_pairs; eauto.
  - right; right; right; right. eapply in_named_pairs; eauto.
Qed.

Lemma get_accessors_ok : forall d x, get_accessors A ver d = Ok x ->
  irdl_op_arg_definition (d_opopt A d) (map (akind A) (d_operands A d)) = Ok (x_operands x) /\
  irdl_op_arg_definition (d_resopt A d) (map (akind A) (d_results A d)) = Ok (x_results x) /\
  irdl_op_arg_definition (d_regopt A d) (map (rkind A) (d_regions A d)) = Ok (x_regions x) /\
  irdl_op_arg_definition (d_sucopt A d) (d_succs A d) = Ok (x_succs x).
Proof.
  intros d x H. unfold get_accessors in H.
  apply bind_ok in H. destruct H as (a & Ha & H). apply bind_ok in H. destruct H as (b & Hb & H).
  apply bind_ok in H. destruct H as (c & Hc & H). apply bind_ok in H. destruct H as (e & He & H).
  injection H as <-. cbn. auto.
Qed.

(* threaded form: one pass over all pairs *)
Lemma opdef_verify_threaded : forall d x o,
  get_accessors A ver d = Ok x -> op_disciplined d o -> def_nonvacuous d ->
  (opdef_verify d x o = Ok tt <->
   exists s1 s2 s3 s4,
    seg_for (d_opopt A d) (map (akind A) (d_operands A d)) (o_operands A o) (o_opseg A o) s1 /\
    seg_for (d_resopt A d) (map (akind A) (d_results A d)) (o_results A o) (o_resseg A o) s2 /\
    seg_for (d_regopt A d) (map (rkind A) (d_regions A d)) (o_regions A o) (o_regseg A o) s3 /\
    seg_for (d_sucopt A d) (d_succs A d) (o_succs A o) (o_sucseg A o) s4 /\
    single_ok (d_regions A d) (split_sizes s3 (o_regions A o)) /\
    present_ok (d_props A d) (o_props A o) /\ o_extra_prop A o = false /\
    present_ok (d_attrs A d) (o_attrs A o) /\
    exists ctx', verify_pairs (op_pairs d o s1 s2 s3) [] = Ok ctx').
Proof.
  intros d x o Hx (D1 & D2 & D3 & D4) (N1 & N2 & N3).
  destruct (get_accessors_ok _ _ Hx) as (X1 & X2 & X3 & X4).
  assert (W4 : well_defined (d_sucopt A d) (d_succs A d)) by (eexists; eauto).
  unfold Model.opdef_verify, op_pairs. split.
  - intros H.
    apply bind_ok in H. destruct H as (c1 & H1 & H).
    apply bind_ok in H. destruct H as (c2 & H2 & H).
    apply bind_ok in H. destruct H as ([] & H3 & H).
    apply bind_ok in H. destruct H as (c3 & H3' & H).
    apply bind_ok in H. destruct H as ([] & H4 & H).
    apply bind_ok in H. destruct H as (c4 & H5 & H).
    destruct (o_extra_prop A o) eqn:Ex; [discriminate|].
    apply bind_ok in H. destruct H as (c5 & H6 & _).
    apply (arg_list_iff _ _ _ _ _ _ _ X1 D1 N1) in H1. destruct H1 as (s1 & S1 & P1).
    apply (arg_list_iff _ _ _ _ _ _ _ X2 D2 N2) in H2. destruct H2 as (s2 & S2 & P2).
    assert (H3'' : (do _ <- verify_variadic_size (d_regopt A d) (map (rkind A) (d_regions A d))
                              (len (o_regions A o)) (o_regseg A o);
                    verify_regions_loop (x_regions x) (d_regions A d) (o_regseg A o)
                              (o_regions A o) c2) = Ok c3).
    { rewrite H3. exact H3'. }
    apply (regions_iff _ _ _ _ _ _ _ X3 D3 N3) in H3''. destruct H3'' as (s3 & S3 & G3 & P3).
    apply verify_size_seg_for in H4; auto. destruct H4 as (s4 & S4).
    apply named_pairs_iff in H5. destruct H5 as (G5 & P5).
    apply named_pairs_iff in H6. destruct H6 as (G6 & P6).
    exists s1, s2, s3, s4. repeat (split; [assumption|]). split; [reflexivity|]. split; [assumption|].
    exists c5. rewrite verify_pairs_app, P1. cbn [bind]. rewrite verify_pairs_app, P2. cbn [bind].
    rewrite verify_pairs_app, P3. cbn [bind]. rewrite verify_pairs_app, P5. cbn [bind]. exact P6.
  - intros (s1 & s2 & s3 & s4 & S1 & S2 & S3 & S4 & G3 & G5 & Ex & G6 & c5 & P).
    rewrite verify_pairs_app in P. apply bind_ok in P. destruct P as (c1 & P1 & P).
    rewrite verify_pairs_app in P. apply bind_ok in P. destruct P as (c2 & P2 & P).
    rewrite verify_pairs_app in P. apply bind_ok in P. destruct P as (c3 & P3 & P).
    rewrite verify_pairs_app in P. apply bind_ok in P. destruct P as (c4 & P5 & P6).
    apply bind_ok. exists c1. split; [apply (arg_list_iff _ _ _ _ _ _ _ X1 D1 N1); eauto|].
    apply bind_ok. exists c2. split; [apply (arg_list_iff _ _ _ _ _ _ _ X2 D2 N2); eauto|].
    assert (H3 : (do _ <- verify_variadic_size (d_regopt A d) (map (rkind A) (d_regions A d))
                              (len (o_regions A o)) (o_regseg A o);
                    verify_regions_loop (x_regions x) (d_regions A d) (o_regseg A o)
                              (o_regions A o) c2) = Ok c3).
    { apply (regions_iff _ _ _ _ _ _ _ X3 D3 N3). eauto. }
    apply bind_ok in H3. destruct H3 as ([] & H3 & H3').
    apply bind_ok. exists tt. split; [exact H3|].
    apply bind_ok. exists c3. split; [exact H3'|].
    apply bind_ok. exists tt. split; [apply verify_size_seg_for; eauto|].
    apply bind_ok. exists c4. split; [apply named_pairs_iff; auto|].
    rewrite Ex. apply bind_ok. exists c5. split; [apply named_pairs_iff; auto|reflexivity].
Qed.

(* OpDef.verify accepts exactly the valid operations *)
Theorem opdef_verify_iff : forall d x o,
  get_accessors A ver d = Ok x -> op_disciplined d o -> def_nonvacuous d -> def_consistent d ->
  (opdef_verify d x o = Ok tt <-> op_valid d o).
Proof.
  intros d x o Hx Hd Hn [base Hc]. rewrite (opdef_verify_threaded _ _ _ Hx Hd Hn). unfold op_valid.
  split; intros (s1 & s2 & s3 & s4 & S1 & S2 & S3 & S4 & G3 & G5 & Ex & G6 & P);
    exists s1, s2, s3, s4; repeat (split; [assumption|]);
    apply (verify_pairs_iff base _ (op_pairs_consistent _ _ o s1 s2 s3 Hc)); exact P.
Qed.

(* completeness needs no precondition at all: every valid operation is accepted
   (valid = the segment-size attributes, when used, are true segmentations) *)

(* ================================================================ constructor output *)
Lemma norm_none_to_empty : forall T (l : list (barg T)), map norm (map none_to_empty l) = map norm l.
Proof. intros. rewrite map_map. apply map_ext. intros []; reflexivity. Qed.

(* the pieces the constructor was given *)
Definition built_pairs (d : opdef) (b : buildargs A) : list (constr * A) :=
  arg_pairs (d_operands A d) (map norm (b_operands A b))
  ++ arg_pairs (d_results A d) (map norm (b_results A b))
  ++ region_pairs (d_regions A d) (map norm (b_regions A b))
  ++ named_pairs (d_props A d) (b_props A b)
  ++ named_pairs (d_attrs A d) (b_attrs A b).

Lemma seg_for_unique : forall T opt kinds (args : list T) attr s s',
  well_defined opt kinds -> seg_for opt kinds args attr s -> seg_for opt kinds args attr s' -> s = s'.
Proof.
  intros T opt kinds args attr s s' Hwd [H1 A1] [H2 A2]. destruct opt.
  - eapply segmentation_unique; eauto. discriminate.
  - eapply segmentation_unique; eauto. discriminate.
  - specialize (A1 eq_refl). specialize (A2 eq_refl). congruence.
Qed.

Lemma built_disciplined : forall T opt kinds (f : list T) z a,
  segmentation opt kinds (len f) z -> (opt = AttrSized -> a = Dense true z) ->
  attr_disciplined opt a (len f).
Proof.
  intros T opt kinds f z a (K & L & _) Ha E _ vs Ev. rewrite (Ha E) in Ev. injection Ev as <-.
  split; eauto using sizes_nonneg.
Qed.

Theorem built_op_verifies : forall d x b o,
  get_accessors A ver d = Ok x -> irdl_op_init A d b = Ok o ->
  def_nonvacuous d -> same_nonvacuous (d_sucopt A d) (d_succs A d) -> def_consistent d ->
  (* accessors give back the constructor's arguments *)
  run (x_operands x) (o_opseg A o) (o_operands A o)
    = expected (map (akind A) (d_operands A d)) (map norm (b_operands A b)) /\
  run (x_results x) (o_resseg A o) (o_results A o)
    = expected (map (akind A) (d_results A d)) (map norm (b_results A b)) /\
  run (x_regions x) (o_regseg A o) (o_regions A o)
    = expected (map (rkind A) (d_regions A d)) (map norm (b_regions A b)) /\
  run (x_succs x) (o_sucseg A o) (o_succs A o) = expected (d_succs A d) (map norm (b_succs A b)) /\
  (* and verification reduces to the constraints on those arguments *)
  (opdef_verify d x o = Ok tt <->
   single_ok (d_regions A d) (map norm (b_regions A b)) /\
   present_ok (d_props A d) (b_props A b) /\ b_extra_prop A b = false /\
   present_ok (d_attrs A d) (b_attrs A b) /\
   exists sg, all_sat sg (built_pairs d b)).
Proof.
  intros d x b o Hx Hi (N1 & N2 & N3) N4 Hc.
  destruct (get_accessors_ok _ _ Hx) as (X1 & X2 & X3 & X4).
  unfold irdl_op_init in Hi.
  apply bind_ok in Hi. destruct Hi as ([f1 z1] & B1 & Hi).
  apply bind_ok in Hi. destruct Hi as ([f2 z2] & B2 & Hi).
  apply bind_ok in Hi. destruct Hi as ([f3 z3] & B3 & Hi).
  apply bind_ok in Hi. destruct Hi as ([f4 z4] & B4 & Hi).
  apply bind_ok in Hi. destruct Hi as (a1 & I1 & Hi).
  apply bind_ok in Hi. destruct Hi as (a2 & I2 & Hi).
  apply bind_ok in Hi. destruct Hi as (a3 & I3 & Hi).
  apply bind_ok in Hi. destruct Hi as (a4 & I4 & Hi).
  injection Hi as <-. cbn [fst snd] in *.
  destruct (built_construct_verifies _ _ _ _ _ _ _ _ _ _ B1 I1 X1 N1) as (S1 & A1 & V1 & R1).
  destruct (built_construct_verifies _ _ _ _ _ _ _ _ _ _ B2 I2 X2 N2) as (S2 & A2 & V2 & R2).
  destruct (built_construct_verifies _ _ _ _ _ _ _ _ _ _ B3 I3 X3 N3) as (S3 & A3 & V3 & R3).
  destruct (built_construct_verifies _ _ _ _ _ _ _ _ _ _ B4 I4 X4 N4) as (S4 & A4 & V4 & R4).
  rewrite norm_none_to_empty in R1, R3.
  cbn [o_operands o_opseg o_results o_resseg o_regions o_regseg o_succs o_sucseg].
  repeat (split; [assumption|]).
  destruct (build_arg_list_spec _ _ _ _ _ B1) as (_ & _ & _ & E1).
  destruct (build_arg_list_spec _ _ _ _ _ B2) as (_ & _ & _ & E2).
  destruct (build_arg_list_spec _ _ _ _ _ B3) as (_ & _ & _ & E3).
  rewrite norm_none_to_empty in E1, E3.
  set (o := {| o_operands := f1; o_opseg := a1; o_results := f2; o_resseg := a2;
               o_regions := f3; o_regseg := a3; o_succs := f4; o_sucseg := a4;
               o_props := b_props A b; o_extra_prop := b_extra_prop A b; o_attrs := b_attrs A b |}).
  assert (Hd : op_disciplined d o).
  { unfold op_disciplined. cbn [o o_operands o_opseg o_results o_resseg o_regions o_regseg o_succs o_sucseg].
    split; [|split; [|split]]; eapply built_disciplined; eauto. }
  rewrite (opdef_verify_iff d x o Hx Hd (conj N1 (conj N2 N3)) Hc).
  assert (F1 : seg_for (d_opopt A d) (map (akind A) (d_operands A d)) f1 a1 z1) by (split; auto).
  assert (F2 : seg_for (d_resopt A d) (map (akind A) (d_results A d)) f2 a2 z2) by (split; auto).
  assert (F3 : seg_for (d_regopt A d) (map (rkind A) (d_regions A d)) f3 a3 z3) by (split; auto).
  assert (F4 : seg_for (d_sucopt A d) (d_succs A d) f4 a4 z4) by (split; auto).
  unfold op_valid, op_pairs, built_pairs. cbn [o o_operands o_opseg o_results o_resseg o_regions o_regseg
    o_succs o_sucseg o_props o_extra_prop o_attrs]. split.
  - intros (s1 & s2 & s3 & s4 & T1 & T2 & T3 & T4 & G3 & G5 & Ex & G6 & P).
    assert (s1 = z1) by (eapply seg_for_unique; eauto; eexists; eauto).
    assert (s2 = z2) by (eapply seg_for_unique; eauto; eexists; eauto).
    assert (s3 = z3) by (eapply seg_for_unique; eauto; eexists; eauto).
    subst s1 s2 s3. rewrite E1, E2, E3 in *. auto.
  - intros (G3 & G5 & Ex & G6 & P). exists z1, z2, z3, z4. rewrite E1, E2, E3. auto 12.
Qed.

End Whole.

(* ================================================================ a concrete definition (non-vacuity) *)
(* value universe Z with Model.zof_int / zas_int: type ids < 1000; 1000 + k = IntAttr(k); 2000 + k = int k *)
Definition ex_c (allowed : list Z) (v : option nat) : constr Z :=
  {| cpred := fun a => existsb (Z.eqb a) allowed; cvar := v |}.
Definition ex_any (v : option nat) : constr Z := {| cpred := fun _ => true; cvar := v |}.
(* operands: variadic V0 in {1,2} of length N (int variable, key 1) + single V0 in {1,2}, attr-sized;
   optional result V0; two same-size variadic successors; one required IntAttr property equal to N *)
Definition ex_def : opdef Z :=
  {| d_operands := [ {| akind := Variadic; aconstr := ex_c [1; 2] (Some 0%nat);
                        alen := Some (ex_any (Some 1%nat)) |};
                     {| akind := Single; aconstr := ex_c [1; 2] (Some 0%nat); alen := None |} ];
     d_opopt := AttrSized;
     d_results := [ {| akind := Optional; aconstr := ex_c [1; 2] (Some 0%nat); alen := None |} ];
     d_resopt := NoOption;
     d_regions := []; d_regopt := NoOption; d_succs := [Variadic; Variadic]; d_sucopt := SameSize;
     d_props := [(false, NIntAttr Z (ex_any (Some 1%nat)))]; d_attrs := [] |}.
Definition ex_op_p (seg : list Z) (res : list Z) (p : Z) : opinst Z :=
  {| o_operands := [2; 2; 2]; o_opseg := Dense true seg; o_results := res; o_resseg := Missing;
     o_regions := []; o_regseg := Missing; o_succs := [0; 0; 0; 0]; o_sucseg := Missing;
     o_props := [Some p]; o_extra_prop := false; o_attrs := [] |}.
Definition ex_op (seg : list Z) (res : list Z) : opinst Z := ex_op_p seg res 1002.   (* IntAttr(2) *)

Lemma ex_hypotheses : forall ver,
  op_disciplined Z ver ex_def (ex_op [2; 1] [2]) /\ def_nonvacuous Z ver ex_def /\
  def_consistent Z ex_def /\ same_nonvacuous ver (d_sucopt Z ex_def) (d_succs Z ex_def).
Proof.
  intros ver. split; [|split; [|split]].
  - unfold op_disciplined, attr_disciplined.
    split; [|split; [|split]]; intros E _ vs Ev; try discriminate E.
    injection Ev as <-. split; [repeat constructor; lia|reflexivity].
  - unfold def_nonvacuous, same_nonvacuous. split; [|split]; intros E; discriminate E.
  - exists (fun v a => if Nat.eqb v 0 then existsb (Z.eqb a) [1; 2] else true).
    intros c Hin v Hv a. cbn in Hin.
    destruct Hin as [<-|[<-|[<-|[<-|[<-|[]]]]]]; cbn in *; injection Hv as <-; reflexivity.
  - intros _ _. reflexivity.
Qed.

(* three attr-sized variadic operand segments sharing one length variable N (the omp.* pattern
   `var_operand_def(RangeOf(AnyAttr()).of_length(IntVarConstraint("N", AnyInt())))`) *)
Definition ex_len_def : opdef Z :=
  let seg := {| akind := Variadic; aconstr := ex_any None; alen := Some (ex_any (Some 1%nat)) |} in
  {| d_operands := [seg; seg; seg]; d_opopt := AttrSized;
     d_results := []; d_resopt := NoOption; d_regions := []; d_regopt := NoOption;
     d_succs := []; d_sucopt := NoOption; d_props := []; d_attrs := [] |}.
Definition ex_len_op (sizes : list Z) : opinst Z :=
  {| o_operands := map (fun _ => 1) (seq 0 (Z.to_nat (zsum sizes))); o_opseg := Dense true sizes;
     o_results := []; o_resseg := Missing; o_regions := []; o_regseg := Missing;
     o_succs := []; o_sucseg := Missing; o_props := []; o_extra_prop := false; o_attrs := [] |}.

(* ================================================================ the repaired code: full statements *)
Definition v_pinned : version := {| fix_attr_sum := false; fix_same_novar := false |}.
Definition v_repaired : version := {| fix_attr_sum := true; fix_same_novar := true |}.

(* with both repairs in the code, OpDef.verify accepts exactly the valid operations; the only
   remaining hypothesis is that a constraint variable is always used with one base constraint *)
Theorem opdef_verify_iff_repaired :
  forall A A_eqb, (forall a b : A, A_eqb a b = true <-> a = b) ->
  forall of_int as_int d x o,
  get_accessors A v_repaired d = Ok x -> def_consistent A d ->
  (opdef_verify A A_eqb v_repaired of_int as_int d x o = Ok tt <-> op_valid A of_int as_int d o).
Proof.
  intros A A_eqb Hspec of_int as_int d x o Hx Hc. apply opdef_verify_iff; auto.
  - unfold op_disciplined, attr_disciplined. split; [|split; [|split]]; intros _ E; discriminate E.
  - unfold def_nonvacuous, same_nonvacuous. split; [|split]; intros _ E; discriminate E.
Qed.
