(* C01/ProofsBlockLists.v -- WF is preserved by the multi-block mutators Region.add_block,
   Region.insert_block_before, Region.insert_block_after, Region.insert_block and
   Rewriter.insert_block, for an arbitrary list of blocks.

   The loop `link_blocks r prev blocks` shared by add_block and insert_block_before links every
   new block after the previous one.  Between two iterations the region is not a well-formed
   doubly linked list of the heap (the `last` pointer of the region, resp. the `next` pointer of
   the cursor and the `prev` pointer of the target, are written after the loop).  The loop
   invariant `LInv` states that the region IS well formed in the view `OV` where those pointers
   are overridden with the values the code writes after the loop; every iteration is then one
   `dll_insert_after` step (ProofsDll.v) between two overridden views, and the final writes make
   the real view equal to the overridden one. *)
From Coq Require Import ZArith List Bool PArith FMapPositive Lia.
From XV Require Import C01.Model C01.Spec C01.ProofsBase C01.ProofsFrame C01.ProofsUses C01.ProofsOperands
  C01.ProofsDll C01.ProofsOps C01.ProofsBlocks C01.ProofsOpLists.
Import ListNotations.

(* ------------------------------------------------------------------ pointwise equal views *)

Definition veq (V V' : dview) : Prop :=
  (forall z, dN V' z = dN V z) /\ (forall z, dP V' z = dP V z) /\ (forall z, dPar V' z = dPar V z) /\
  (forall z, dLive V' z = dLive V z) /\ (forall z, dFL V' z = dFL V z).

Lemma dll_at_veq : forall V V' c f la l, veq V V' -> dll_at V c f la l -> dll_at V' c f la l.
Proof.
  intros V V' c f la l (EN & EP & EPar & EL & EF) (C1 & C2 & ND & M1 & M2).
  split; [eapply chain_ext; [|exact C1]; intros; apply EN|].
  split; [eapply chain_ext; [|exact C2]; intros; apply EP|].
  split; [exact ND|]. split.
  - intros x Ix. rewrite EPar. apply M1. exact Ix.
  - intros x Lx Px. rewrite EL in Lx. rewrite EPar in Px. apply M2; assumption.
Qed.

Lemma Dabs_veq : forall V V', veq V V' -> Dabs V -> Dabs V'.
Proof.
  intros V V' E D c f la H. pose proof E as (_ & _ & _ & _ & EF). rewrite EF in H.
  destruct (D c f la H) as (l & DL). exists l. eapply dll_at_veq; eauto.
Qed.

(* ------------------------------------------------------------------ the overridden view *)

(* the view of the loop `link_blocks r prev ...` of add_block (tgt = None) or of
   insert_block_before (tgt = Some target) when the cursor is `prev` *)
Definition OV (V : dview) (r prev : positive) (tgt : option positive) : dview :=
  mkView (fupd (dN V) prev (Some tgt))
         (match tgt with Some t => fupd (dP V) t (Some (Some prev)) | None => dP V end)
         (dPar V) (dLive V)
         (match tgt with Some _ => dFL V | None => fupd (dFL V) r (set_snd (Some prev) (dFL V r)) end).

Definition LInv (r : rid) (tgt : option bid) (s : state) (prev : bid) : Prop :=
  Dabs (OV (viewT2 s) r prev tgt) /\ Ddet (viewT2 s) /\
  (forall f la l, dFL (OV (viewT2 s) r prev tgt) r = Some (f, la) ->
                  dll_at (OV (viewT2 s) r prev tgt) r f la l -> In prev l) /\
  (exists f la, dFL (viewT2 s) r = Some (f, la)) /\
  (tgt = None -> dN (viewT2 s) prev = Some None).

Ltac ovs := cbn [OV dN dP dPar dLive dFL].
Ltac ovs_in H := cbn [OV dN dP dPar dLive dFL] in H.

Lemma blk_live_view : forall s b, blk_live s b -> dLive (viewT2 s) b = true.
Proof. intros s b (x & F & E). eapply blive_view; eauto. Qed.

(* one iteration of link_blocks *)
Lemma link_step_inv : forall r tgt s prev nb s1 s2 s3 u1 u2 u3,
  LInv r tgt s prev -> blk_live s nb ->
  attach_block r nb s = (s1, Ok u1) ->
  updB nb (set_b_prev (Some prev)) s1 = (s2, Ok u2) ->
  updB prev (set_b_next (Some nb)) s2 = (s3, Ok u3) ->
  LInv r tgt s3 nb.
Proof.
  intros r tgt s prev nb s1 s2 s3 u1 u2 u3 (D & DD & InL & (f0 & la0 & FLr) & NN) BL Hat H2 H3.
  destruct (attach_block_eff _ _ _ _ _ Hat) as (xb & Fb & Pb & Hat').
  destruct (updB_parent_view2 _ _ _ _ _ Hat') as (N1 & P1 & R1 & L1 & F1).
  destruct (updB_prev_view2 _ _ _ _ _ H2) as (N2 & P2 & R2 & L2 & F2).
  destruct (updB_next_view2 _ _ _ _ _ H3) as (N3 & P3 & R3 & L3 & F3).
  destruct (getB_view2 _ _ _ Fb) as (_ & _ & Vpar). rewrite Pb in Vpar.
  pose proof (blk_live_view _ _ BL) as Lnb.
  destruct (DD nb Lnb Vpar) as [Nnb Pnb].
  destruct tgt as [t|].
  - (* insert_block_before: the cursor is followed by the target *)
    assert (FLV : dFL (OV (viewT2 s) r prev (Some t)) r = Some (f0, la0)) by (ovs; exact FLr).
    destruct (D r f0 la0 FLV) as (l & DL). pose proof DL as (C1 & C2 & ND & M1 & M2).
    pose proof (InL _ _ _ FLV DL) as Ip.
    destruct (in_split _ _ Ip) as (l1 & l2 & ->).
    pose proof (dll_next_of _ _ _ _ _ _ _ DL) as Nx. ovs_in Nx. rewrite fupd_same in Nx.
    destruct l2 as [|t' l2']; [discriminate|]. cbn [hd_error] in Nx. injection Nx as <-.
    assert (It : In t (l1 ++ prev :: t :: l2')) by (apply in_or_app; right; right; left; reflexivity).
    pose proof (M1 t It) as Vpart. pose proof (M1 prev Ip) as Vparp. ovs_in Vpart. ovs_in Vparp.
    assert (Nnp : nb <> prev) by (intro; subst; rewrite Vparp in Vpar; discriminate).
    assert (Nnt : nb <> t) by (intro; subst; rewrite Vpart in Vpar; discriminate).
    assert (Npt : prev <> t).
    { intro; subst. apply NoDup_remove_2 in ND. apply ND. apply in_or_app. right. left. reflexivity. }
    assert (DLb : dll_at (OV (viewT2 s3) r nb (Some t)) r f0 la0 (l1 ++ prev :: nb :: t :: l2')).
    { eapply (dll_insert_after (OV (viewT2 s) r prev (Some t)) (OV (viewT2 s3) r nb (Some t))
                r f0 la0 l1 prev (t :: l2') nb DL Vpar).
      - intros y Ny1 Ny2. ovs. vrew2. fupd_solve.
      - ovs. vrew2. fupd_solve.
      - ovs. vrew2. fupd_solve.
      - intros y Ny Nh. cbn [hd_error] in Nh. assert (y <> t) by congruence. ovs. vrew2. fupd_solve.
      - ovs. vrew2. fupd_solve.
      - intros n0 E. cbn [hd_error] in E. injection E as <-. ovs. vrew2. fupd_solve.
      - intros y Ny. ovs. vrew2. fupd_solve.
      - ovs. vrew2. fupd_solve.
      - intro y. ovs. vrew2. reflexivity. }
    split; [|split; [|split; [|split]]].
    + intros c f' la' Hc. destruct (Pos.eq_dec c r) as [->|Nc].
      * ovs_in Hc. vrew2_in Hc. rewrite FLr in Hc. injection Hc as <- <-. eauto.
      * refine (Dabs_other (OV (viewT2 s) r prev (Some t)) (OV (viewT2 s3) r nb (Some t)) r D _ _ _ _ c f' la' Nc Hc).
        -- intros c0 N0. ovs. vrew2. reflexivity.
        -- intros z Q1 Q2. ovs_in Q1. ovs_in Q2.
           assert (z <> nb) by (intro; subst; contradiction).
           assert (z <> prev) by (intro; subst; contradiction).
           assert (z <> t) by (intro; subst; contradiction).
           repeat split; ovs; vrew2; fupd_solve.
        -- intro z. ovs. vrew2. reflexivity.
        -- intros z c0 N0 Q. ovs_in Q. ovs. vrew2_in Q. revert Q.
           destruct (Pos.eqb_spec z nb); intro Q; [injection Q as Q; congruence|exact Q].
    + apply (Ddet_other (viewT2 s) (viewT2 s3) DD). intros z Lz Pz. vrew2_in Lz. vrew2_in Pz. revert Pz.
      destruct (Pos.eqb_spec z nb); intro Pz; [discriminate|].
      assert (z <> prev) by (intro; subst; rewrite Vparp in Pz; discriminate).
      repeat split; try assumption; vrew2; fupd_solve.
    + intros f la l _ (_ & _ & _ & _ & M2'). apply M2'; ovs; vrew2; fupd_solve.
    + exists f0, la0. vrew2. exact FLr.
    + discriminate.
  - (* add_block: the cursor is the last block *)
    assert (FLV : dFL (OV (viewT2 s) r prev None) r = Some (f0, Some prev)).
    { ovs. rewrite fupd_same, FLr. reflexivity. }
    destruct (D r f0 (Some prev) FLV) as (l & DL). pose proof DL as (C1 & C2 & ND & M1 & M2).
    pose proof (InL _ _ _ FLV DL) as Ip.
    destruct (in_split _ _ Ip) as (l1 & l2 & ->).
    pose proof (dll_next_of _ _ _ _ _ _ _ DL) as Nx. ovs_in Nx. rewrite fupd_same in Nx.
    destruct l2 as [|t' l2']; [|discriminate]. clear Nx.
    pose proof (M1 prev Ip) as Vparp. ovs_in Vparp.
    assert (Nnp : nb <> prev) by (intro; subst; rewrite Vparp in Vpar; discriminate).
    assert (DLb : dll_at (OV (viewT2 s3) r nb None) r f0 (Some nb) (l1 ++ prev :: nb :: [])).
    { eapply (dll_insert_after (OV (viewT2 s) r prev None) (OV (viewT2 s3) r nb None)
                r f0 (Some prev) l1 prev [] nb DL Vpar).
      - intros y Ny1 Ny2. ovs. vrew2. fupd_solve.
      - ovs. vrew2. fupd_solve.
      - ovs. vrew2. fupd_solve.
      - intros y Ny _. ovs. vrew2. fupd_solve.
      - ovs. vrew2. fupd_solve.
      - intros n0 E. discriminate.
      - intros y Ny. ovs. vrew2. fupd_solve.
      - ovs. vrew2. fupd_solve.
      - intro y. ovs. vrew2. reflexivity. }
    split; [|split; [|split; [|split]]].
    + intros c f' la' Hc. destruct (Pos.eq_dec c r) as [->|Nc].
      * ovs_in Hc. rewrite fupd_same in Hc. vrew2_in Hc. rewrite FLr in Hc. cbn [set_snd] in Hc.
        injection Hc as <- <-. eauto.
      * refine (Dabs_other (OV (viewT2 s) r prev None) (OV (viewT2 s3) r nb None) r D _ _ _ _ c f' la' Nc Hc).
        -- intros c0 N0. ovs. rewrite !fupd_other by exact N0. vrew2. reflexivity.
        -- intros z Q1 Q2. ovs_in Q1. ovs_in Q2.
           assert (z <> nb) by (intro; subst; contradiction).
           assert (z <> prev) by (intro; subst; contradiction).
           repeat split; ovs; vrew2; fupd_solve.
        -- intro z. ovs. vrew2. reflexivity.
        -- intros z c0 N0 Q. ovs_in Q. ovs. vrew2_in Q. revert Q.
           destruct (Pos.eqb_spec z nb); intro Q; [injection Q as Q; congruence|exact Q].
    + apply (Ddet_other (viewT2 s) (viewT2 s3) DD). intros z Lz Pz. vrew2_in Lz. vrew2_in Pz. revert Pz.
      destruct (Pos.eqb_spec z nb); intro Pz; [discriminate|].
      assert (z <> prev) by (intro; subst; rewrite Vparp in Pz; discriminate).
      repeat split; try assumption; vrew2; fupd_solve.
    + intros f la l _ (_ & _ & _ & _ & M2'). apply M2'; ovs; vrew2; fupd_solve.
    + exists f0, la0. vrew2. exact FLr.
    + intros _. vrew2. rewrite Nnb. fupd_solve.
Qed.

(* ------------------------------------------------------------------ the loop *)

Lemma attach_block_live : forall r b, preserves same_live (attach_block r b).
Proof. intros. unfold attach_block. pres fr_live. Qed.

Lemma link_blocks_inv : forall r tgt blocks s prev s' last,
  LInv r tgt s prev -> (forall b, In b blocks -> blk_live s b) ->
  link_blocks r prev blocks s = (s', Ok last) -> LInv r tgt s' last.
Proof.
  intros r tgt. induction blocks as [|nb tl IH]; intros s prev s' last I0 BLs H; simpl in H.
  - apply ret_ok in H as [-> ->]. exact I0.
  - apply bind_ok in H as (s1 & u1 & Hat & H). apply bind_ok in H as (s2 & u2 & H2 & H).
    apply bind_ok in H as (s3 & u3 & H3 & H).
    eapply (IH s3 nb s' last); [| |exact H].
    + eapply link_step_inv; eauto. apply BLs. left. reflexivity.
    + intros b Ib.
      destruct (attach_block_live r nb s s1 _ Hat) as (_ & B1 & _).
      destruct (updB_same_live nb (set_b_prev (Some prev)) (fun _ => eq_refl) _ _ _ H2) as (_ & B2 & _).
      destruct (updB_same_live prev (set_b_next (Some nb)) (fun _ => eq_refl) _ _ _ H3) as (_ & B3 & _).
      apply B3, B2, B1, BLs. right. exact Ib.
Qed.

(* frame of the multi-block programs for the other groups *)
Ltac pres_link FR :=
  let r := fresh "r" in let p := fresh "p" in let bs := fresh "bs" in
  let b := fresh "b" in let tl := fresh "tl" in let IH := fresh "IH" in
  intros r p bs; revert p; induction bs as [|b tl IH]; intros p; simpl;
  [pres FR|unfold attach_block; pres FR].
Lemma link_blocks_T1 : forall r p bs, preserves same_T1 (link_blocks r p bs). Proof. pres_link fr_T1. Qed.
Lemma link_blocks_T3 : forall r p bs, preserves same_T3 (link_blocks r p bs). Proof. pres_link fr_T3. Qed.
Lemma link_blocks_U : forall r p bs, preserves same_U (link_blocks r p bs). Proof. pres_link fr_U. Qed.
Lemma link_blocks_I : forall r p bs, preserves same_I (link_blocks r p bs). Proof. pres_link fr_I. Qed.
Lemma link_blocks_A : forall r p bs, preserves same_A (link_blocks r p bs). Proof. pres_link fr_A. Qed.
Lemma link_blocks_live : forall r p bs, preserves same_live (link_blocks r p bs). Proof. pres_link fr_live. Qed.
#[export] Hint Resolve link_blocks_T1 link_blocks_T3 link_blocks_U link_blocks_I link_blocks_A link_blocks_live : pres.

Ltac pres_blk3 FR := unfold add_block, insert_block_before, attach_block; pres FR.
Lemma add_block_T1 : forall r bs, preserves same_T1 (add_block r bs). Proof. intros. pres_blk3 fr_T1. Qed.
Lemma add_block_T3 : forall r bs, preserves same_T3 (add_block r bs). Proof. intros. pres_blk3 fr_T3. Qed.
Lemma add_block_U : forall r bs, preserves same_U (add_block r bs). Proof. intros. pres_blk3 fr_U. Qed.
Lemma add_block_I : forall r bs, preserves same_I (add_block r bs). Proof. intros. pres_blk3 fr_I. Qed.
Lemma add_block_A : forall r bs, preserves same_A (add_block r bs). Proof. intros. pres_blk3 fr_A. Qed.
Lemma add_block_live : forall r bs, preserves same_live (add_block r bs). Proof. intros. pres_blk3 fr_live. Qed.
Lemma insert_block_before_T1 : forall r bs t, preserves same_T1 (insert_block_before r bs t). Proof. intros. pres_blk3 fr_T1. Qed.
Lemma insert_block_before_T3 : forall r bs t, preserves same_T3 (insert_block_before r bs t). Proof. intros. pres_blk3 fr_T3. Qed.
Lemma insert_block_before_U : forall r bs t, preserves same_U (insert_block_before r bs t). Proof. intros. pres_blk3 fr_U. Qed.
Lemma insert_block_before_I : forall r bs t, preserves same_I (insert_block_before r bs t). Proof. intros. pres_blk3 fr_I. Qed.
Lemma insert_block_before_A : forall r bs t, preserves same_A (insert_block_before r bs t). Proof. intros. pres_blk3 fr_A. Qed.
Lemma insert_block_before_live : forall r bs t, preserves same_live (insert_block_before r bs t). Proof. intros. pres_blk3 fr_live. Qed.

(* ------------------------------------------------------------------ after the loop *)

Lemma veq_sym : forall V V', veq V V' -> veq V' V.
Proof. intros V V' (A & B & C & D & E). split; [|split; [|split; [|split]]]; intro z; symmetry; auto. Qed.

(* Region.add_block: `self._last_block = last` *)
Lemma add_block_finish : forall r s1 last s' u,
  LInv r None s1 last -> updR r (set_r_last (Some last)) s1 = (s', Ok u) ->
  Dabs (viewT2 s') /\ Ddet (viewT2 s').
Proof.
  intros r s1 last s' u (D1 & DD1 & InL1 & (f1 & la1 & FL1) & NN1) H4.
  destruct (updR_last_view2 _ _ _ _ _ H4) as (N4 & P4 & R4 & L4 & F4).
  assert (E : veq (OV (viewT2 s1) r last None) (viewT2 s')).
  { split; [|split; [|split; [|split]]]; intro z; ovs; vrew2; try reflexivity.
    destruct (Pos.eqb_spec z last) as [->|]; [apply NN1; reflexivity|reflexivity]. }
  split; [eapply Dabs_veq; [exact E|exact D1]|].
  apply (Ddet_other (viewT2 s1) (viewT2 s') DD1). intros z Lz Pz. vrew2_in Lz. vrew2_in Pz.
  repeat split; try assumption; vrew2; reflexivity.
Qed.

(* Region.insert_block_before: `last.next = target; target.prev = last` *)
Lemma insert_before_finish : forall r t s1 last s2 s' u1 u2,
  LInv r (Some t) s1 last ->
  updB last (set_b_next (Some t)) s1 = (s2, Ok u1) ->
  updB t (set_b_prev (Some last)) s2 = (s', Ok u2) ->
  Dabs (viewT2 s') /\ Ddet (viewT2 s').
Proof.
  intros r t s1 last s2 s' u1 u2 (D1 & DD1 & InL1 & (f1 & la1 & FL1) & NN1) H4 H5.
  destruct (updB_next_view2 _ _ _ _ _ H4) as (N4 & P4 & R4 & L4 & F4).
  destruct (updB_prev_view2 _ _ _ _ _ H5) as (N5 & P5 & R5 & L5 & F5).
  assert (E : veq (OV (viewT2 s1) r last (Some t)) (viewT2 s')).
  { split; [|split; [|split; [|split]]]; intro z; ovs; vrew2; reflexivity. }
  split; [eapply Dabs_veq; [exact E|exact D1]|].
  assert (FLV : dFL (OV (viewT2 s1) r last (Some t)) r = Some (f1, la1)) by (ovs; exact FL1).
  destruct (D1 r f1 la1 FLV) as (l & DL). pose proof DL as (C1 & C2 & ND & M1 & M2).
  pose proof (InL1 _ _ _ FLV DL) as Ip.
  destruct (in_split _ _ Ip) as (l1 & l2 & ->).
  pose proof (dll_next_of _ _ _ _ _ _ _ DL) as Nx. ovs_in Nx. rewrite fupd_same in Nx.
  destruct l2 as [|t' l2']; [discriminate|]. cbn [hd_error] in Nx. injection Nx as <-.
  assert (It : In t (l1 ++ last :: t :: l2')) by (apply in_or_app; right; right; left; reflexivity).
  pose proof (M1 t It) as Vpart. pose proof (M1 last Ip) as Vparp. ovs_in Vpart. ovs_in Vparp.
  apply (Ddet_other (viewT2 s1) (viewT2 s') DD1). intros z Lz Pz. vrew2_in Lz. vrew2_in Pz.
  assert (z <> last) by (intro; subst; rewrite Vparp in Pz; discriminate).
  assert (z <> t) by (intro; subst; rewrite Vpart in Pz; discriminate).
  repeat split; try assumption; vrew2; fupd_solve.
Qed.

(* ------------------------------------------------------------------ Region.add_block *)

Theorem add_block_WF : forall blocks s s' r res,
  WF s -> reg_live s r -> (forall b, In b blocks -> blk_live s b) ->
  add_block r blocks s = (s', Ok res) -> WF s'.
Proof.
  intros blocks s s' r res W RL BLs H.
  eapply (WF_groups_T2 s s' W); [eapply add_block_T1|eapply add_block_T3|eapply add_block_U|
                                 eapply add_block_I|eapply add_block_A|]; try exact H.
  pose proof (proj1 (detached_blocks_Ddet s) (proj2 (wf_detached s W))) as DD.
  rewrite WF_region_Dabs. pose proof (proj1 (WF_region_Dabs s) (wf_region s W)) as D.
  unfold add_block in H.
  apply bind_ok in H as (s0 & rr & Hg & H). apply getR_ok in Hg as [-> Fr].
  destruct RL as (rr0 & Fr0 & Er0). rewrite Fr in Fr0. injection Fr0 as <-.
  assert (FLr : dFL (viewT2 s) r = Some (r_first rr, r_last rr)).
  { simpl. unfold rFL. rewrite Fr, Er0. reflexivity. }
  destruct (D r _ _ FLr) as (l & DL). pose proof DL as (C1 & C2 & ND & M1 & M2).
  destruct (r_last rr) as [prev|] eqn:Last.
  - (* non-empty region *)
    apply bind_ok in H as (s1 & last & Hl & H4).
    assert (I0 : LInv r None s prev).
    { pose proof C2 as C2'. apply chain_some_in in C2'. apply in_rev in C2'.
      destruct (list_snoc_cases l) as [->|(l1 & xl & ->)]; [destruct C2'|].
      assert (xl = prev).
      { rewrite rev_app_distr in C2. simpl in C2. apply chain_head in C2. simpl in C2. injection C2 as ->. reflexivity. }
      subst xl.
      pose proof (dll_next_of _ _ _ _ _ _ _ DL) as Nprev. cbn [hd_error] in Nprev.
      assert (E : veq (viewT2 s) (OV (viewT2 s) r prev None)).
      { split; [|split; [|split; [|split]]]; intro z; ovs; try reflexivity; unfold fupd.
        - destruct (Pos.eqb_spec z prev) as [->|]; [symmetry; exact Nprev|reflexivity].
        - destruct (Pos.eqb_spec z r) as [->|]; [rewrite FLr; reflexivity|reflexivity]. }
      split; [eapply Dabs_veq; [exact E|exact D]|]. split; [exact DD|]. split; [|split].
      - intros f' la' l' FL' (_ & C2'' & _). ovs_in FL'. rewrite fupd_same, FLr in FL'. cbn [set_snd] in FL'.
        injection FL' as <- <-. apply chain_some_in in C2''. apply in_rev. exact C2''.
      - eauto.
      - intros _. exact Nprev. }
    pose proof (link_blocks_inv _ _ _ _ _ _ _ I0 BLs Hl) as I1.
    exact (add_block_finish _ _ _ _ _ I1 H4).
  - (* empty region *)
    destruct blocks as [|first rest].
    { apply ret_ok in H as [-> _]. split; [exact D|exact DD]. }
    apply bind_ok in H as (s1 & ? & Hat & H).
    destruct (attach_block_eff _ _ _ _ _ Hat) as (xb & Fb & Pb & Hat').
    destruct (updB_parent_view2 _ _ _ _ _ Hat') as (N1 & P1 & R1 & L1 & F1).
    apply bind_ok in H as (s2 & ? & H2 & H).
    destruct (updR_first_view2 _ _ _ _ _ H2) as (N2 & P2 & R2 & L2 & F2).
    apply bind_ok in H as (s3 & last & Hl & H4).
    assert (BLf : blk_live s first) by (apply BLs; left; reflexivity).
    assert (I0 : LInv r None s2 first).
    { apply chain_none_nil in C2.
      assert (l = []) by (destruct l; [reflexivity|]; simpl in C2; apply app_eq_nil in C2; destruct C2; discriminate).
      subst l. apply chain_head in C1. simpl in C1. rewrite C1 in *.
      destruct (getB_view2 _ _ _ Fb) as (_ & _ & Vpar). rewrite Pb in Vpar.
      destruct (DD first (blk_live_view _ _ BLf) Vpar) as [Nb Pb0].
      assert (DLb : dll_at (OV (viewT2 s2) r first None) r (Some first) (Some first) [first]).
      { eapply (dll_insert_empty (viewT2 s) (OV (viewT2 s2) r first None) r first DL Vpar).
        - intros y Ny. ovs. vrew2. fupd_solve.
        - ovs. vrew2. fupd_solve.
        - intro y. ovs. vrew2. reflexivity.
        - ovs. rewrite fupd_same. reflexivity.
        - ovs. vrew2. exact Pb0. }
      split; [|split; [|split; [|split]]].
      - intros c f' la' Hc. destruct (Pos.eq_dec c r) as [->|Nc].
        + ovs_in Hc. rewrite fupd_same in Hc. vrew2_in Hc. rewrite !Pos.eqb_refl, FLr in Hc. simpl in Hc.
          injection Hc as <- <-. eauto.
        + refine (Dabs_other (viewT2 s) (OV (viewT2 s2) r first None) r D _ _ _ _ c f' la' Nc Hc).
          * intros c0 N0. ovs. rewrite fupd_other by exact N0. vrew2. fupd_solve.
          * intros z Q1 Q2. assert (z <> first) by (intro; subst; contradiction).
            repeat split; ovs; vrew2; fupd_solve.
          * intro z. ovs. vrew2. reflexivity.
          * intros z c0 N0 Q. ovs_in Q. vrew2_in Q. revert Q.
            destruct (Pos.eqb_spec z first); intro Q; [injection Q as Q; congruence|exact Q].
      - apply (Ddet_other (viewT2 s) (viewT2 s2) DD). intros z Lz Pz. vrew2_in Lz. vrew2_in Pz. revert Pz.
        destruct (Pos.eqb_spec z first); intro Pz; [discriminate|].
        repeat split; try assumption; vrew2; fupd_solve.
      - intros f la l _ (_ & _ & _ & _ & M2'). apply M2'; ovs; vrew2; [apply blk_live_view; exact BLf|fupd_solve].
      - eexists. eexists. vrew2. rewrite Pos.eqb_refl, FLr. reflexivity.
      - intros _. vrew2. exact Nb. }
    assert (BLs' : forall b, In b rest -> blk_live s2 b).
    { intros b Ib.
      destruct (attach_block_live r first s s1 _ Hat) as (_ & B1 & _).
      destruct (updR_same_live r (set_r_first (Some first)) (fun _ => eq_refl) _ _ _ H2) as (_ & B2 & _).
      apply B2, B1, BLs. right. exact Ib. }
    pose proof (link_blocks_inv _ _ _ _ _ _ _ I0 BLs' Hl) as I1.
    exact (add_block_finish _ _ _ _ _ I1 H4).
Qed.

(* ------------------------------------------------------------------ Region.insert_block_before *)

Lemma insert_block_before_WF_gen : forall blocks s s' r target res,
  WF s -> reg_live s r -> (forall b, In b blocks -> blk_live s b) ->
  (forall f la l, dFL (viewT2 s) r = Some (f, la) -> dll_at (viewT2 s) r f la l -> In target l) ->
  insert_block_before r blocks target s = (s', Ok res) -> WF s'.
Proof.
  intros blocks s s' r target res W RL BLs HIn H.
  eapply (WF_groups_T2 s s' W); [eapply insert_block_before_T1|eapply insert_block_before_T3|eapply insert_block_before_U|
                                 eapply insert_block_before_I|eapply insert_block_before_A|]; try exact H.
  pose proof (proj1 (detached_blocks_Ddet s) (proj2 (wf_detached s W))) as DD.
  rewrite WF_region_Dabs. pose proof (proj1 (WF_region_Dabs s) (wf_region s W)) as D.
  unfold insert_block_before in H.
  apply bind_ok in H as (s0 & tx & Hg & H). apply getB_ok in Hg as [-> Ftx].
  destruct (opt_eqb (b_parent tx) (Some r)) eqn:Pt; simpl in H; [|exfalso; eapply raise_ok; eauto].
  apply opt_eqb_eq in Pt.
  destruct (reg_live_FL s r RL) as (f & la & FLr).
  destruct (D r f la FLr) as (l & DL). pose proof DL as (C1 & C2 & ND & M1 & M2).
  destruct (getB_view2 _ _ _ Ftx) as (Vnt & Vpt & Vpart). rewrite Pt in Vpart.
  assert (It : In target l) by (eapply HIn; eauto).
  destruct (in_split _ _ It) as (l1 & l2 & ->).
  pose proof (dll_prev_of _ _ _ _ _ _ _ DL) as Px. rewrite Px in Vpt. injection Vpt as Eprev.
  destruct (b_prev tx) as [prev|] eqn:Op.
  - (* target has a predecessor *)
    apply bind_ok in H as (s1 & last & Hl & H).
    apply bind_ok in H as (s2 & ? & H4 & H5).
    assert (I0 : LInv r (Some target) s prev).
    { destruct (list_snoc_cases l1) as [->|(l1' & p & ->)]; [discriminate|].
      rewrite last_or_app in Eprev, Px. injection Eprev as ->.
      pose proof DL as DL'. rewrite <- app_assoc in DL'. cbn [app] in DL'.
      pose proof (dll_next_of _ _ _ _ _ _ _ DL') as Nprev. cbn [hd_error] in Nprev.
      assert (E : veq (viewT2 s) (OV (viewT2 s) r prev (Some target))).
      { split; [|split; [|split; [|split]]]; intro z; ovs; try reflexivity; unfold fupd.
        - destruct (Pos.eqb_spec z prev) as [->|]; [symmetry; exact Nprev|reflexivity].
        - destruct (Pos.eqb_spec z target) as [->|]; [symmetry; exact Px|reflexivity]. }
      split; [eapply Dabs_veq; [exact E|exact D]|]. split; [exact DD|]. split; [|split].
      - intros f' la' l' FL' DL''. ovs_in FL'. rewrite FLr in FL'. injection FL' as <- <-.
        apply (dll_at_veq _ _ _ _ _ _ (veq_sym _ _ E)) in DL''. destruct DL'' as (C1'' & _).
        rewrite <- (chain_fun _ _ _ _ C1 C1''). apply in_or_app. left. apply in_or_app. right. left. reflexivity.
      - eauto.
      - discriminate. }
    pose proof (link_blocks_inv _ _ _ _ _ _ _ I0 BLs Hl) as I1.
    exact (insert_before_finish _ _ _ _ _ _ _ _ I1 H4 H5).
  - (* target is the first block *)
    destruct blocks as [|nf rest].
    { apply ret_ok in H as [-> _]. split; [exact D|exact DD]. }
    apply bind_ok in H as (s1 & ? & Hat & H).
    destruct (attach_block_eff _ _ _ _ _ Hat) as (xb & Fb & Pb & Hat').
    destruct (updB_parent_view2 _ _ _ _ _ Hat') as (N1 & P1 & R1 & L1 & F1).
    apply bind_ok in H as (s2 & ? & H2 & H).
    destruct (updR_first_view2 _ _ _ _ _ H2) as (N2 & P2 & R2 & L2 & F2).
    apply bind_ok in H as (s3 & ? & H3 & H).
    destruct (updB_next_view2 _ _ _ _ _ H3) as (N3 & P3 & R3 & L3 & F3).
    apply bind_ok in H as (s4 & last & Hl & H).
    apply bind_ok in H as (s5 & ? & H4 & H5).
    assert (BLf : blk_live s nf) by (apply BLs; left; reflexivity).
    assert (I0 : LInv r (Some target) s3 nf).
    { pose proof (last_or_none_nil l1 Eprev) as ->. cbn [last_or] in Px. cbn [app] in *.
      destruct (getB_view2 _ _ _ Fb) as (_ & _ & Vpar). rewrite Pb in Vpar.
      destruct (DD nf (blk_live_view _ _ BLf) Vpar) as [Nb Pb0].
      assert (Nbt : nf <> target) by (intro; subst; rewrite Vpart in Vpar; discriminate).
      assert (DLb : dll_at (OV (viewT2 s3) r nf (Some target)) r (Some nf) la ([] ++ nf :: target :: l2)).
      { eapply (dll_insert_before (viewT2 s) (OV (viewT2 s3) r nf (Some target)) r f la [] target l2 nf DL Vpar).
        - intros y Ny1 Ny2. ovs. vrew2. fupd_solve.
        - ovs. vrew2. fupd_solve.
        - ovs. vrew2. rewrite Px, Pb0. fupd_solve.
        - intros y Ny _. ovs. vrew2. fupd_solve.
        - ovs. vrew2. fupd_solve.
        - intros p0 E. discriminate.
        - intros y Ny. ovs. vrew2. fupd_solve.
        - ovs. vrew2. fupd_solve.
        - intro y. ovs. vrew2. reflexivity. }
      cbn [app] in DLb.
      split; [|split; [|split; [|split]]].
      - intros c f' la' Hc. destruct (Pos.eq_dec c r) as [->|Nc].
        + ovs_in Hc. vrew2_in Hc. rewrite !Pos.eqb_refl, FLr in Hc. simpl in Hc.
          injection Hc as <- <-. eauto.
        + refine (Dabs_other (viewT2 s) (OV (viewT2 s3) r nf (Some target)) r D _ _ _ _ c f' la' Nc Hc).
          * intros c0 N0. ovs. vrew2. fupd_solve.
          * intros z Q1 Q2. assert (z <> nf) by (intro; subst; contradiction).
            assert (z <> target) by (intro; subst; contradiction).
            repeat split; ovs; vrew2; fupd_solve.
          * intro z. ovs. vrew2. reflexivity.
          * intros z c0 N0 Q. ovs_in Q. vrew2_in Q. revert Q.
            destruct (Pos.eqb_spec z nf); intro Q; [injection Q as Q; congruence|exact Q].
      - apply (Ddet_other (viewT2 s) (viewT2 s3) DD). intros z Lz Pz. vrew2_in Lz. vrew2_in Pz. revert Pz.
        destruct (Pos.eqb_spec z nf); intro Pz; [discriminate|].
        repeat split; try assumption; vrew2; fupd_solve.
      - intros f0 la0 l0 _ (_ & _ & _ & _ & M2'). apply M2'; ovs; vrew2; [apply blk_live_view; exact BLf|fupd_solve].
      - eexists. eexists. vrew2. rewrite Pos.eqb_refl, FLr. reflexivity.
      - discriminate. }
    assert (BLs' : forall b, In b rest -> blk_live s3 b).
    { intros b Ib.
      destruct (attach_block_live r nf s s1 _ Hat) as (_ & B1 & _).
      destruct (updR_same_live r (set_r_first (Some nf)) (fun _ => eq_refl) _ _ _ H2) as (_ & B2 & _).
      destruct (updB_same_live nf (set_b_next (Some target)) (fun _ => eq_refl) _ _ _ H3) as (_ & B3 & _).
      apply B3, B2, B1, BLs. right. exact Ib. }
    pose proof (link_blocks_inv _ _ _ _ _ _ _ I0 BLs' Hl) as I1.
    exact (insert_before_finish _ _ _ _ _ _ _ _ I1 H4 H5).
Qed.

Theorem insert_block_before_WF : forall blocks s s' r target res,
  WF s -> reg_live s r -> blk_live s target -> (forall b, In b blocks -> blk_live s b) ->
  insert_block_before r blocks target s = (s', Ok res) -> WF s'.
Proof.
  intros blocks s s' r target res W RL (tx & Ftx & Etx) BLs H.
  eapply insert_block_before_WF_gen; eauto.
  pose proof H as H0. unfold insert_block_before in H0.
  apply bind_ok in H0 as (s0 & tr & Hg & H0). apply getB_ok in Hg as [-> Ft].
  rewrite Ftx in Ft. injection Ft as <-.
  destruct (opt_eqb (b_parent tx) (Some r)) eqn:Pt; simpl in H0; [|exfalso; eapply raise_ok; eauto].
  apply opt_eqb_eq in Pt.
  intros f la l _ (_ & _ & _ & _ & M2). apply M2.
  - eapply blive_view; eauto.
  - simpl. unfold link. rewrite Ftx. simpl. rewrite Pt. reflexivity.
Qed.

(* ------------------------------------------------------------------ Region.insert_block_after *)

(* the extra hypothesis (as for Operation.detach in ProofsHistory.args_live): the region that
   contains the target, if any, has not been erased.  Python does not check that the target is a
   block of `r`; insert_block_before checks it for the successor of the target only. *)
Theorem insert_block_after_WF : forall blocks s s' r target res,
  WF s -> reg_live s r -> blk_live s target ->
  (forall tr r', PM.find target (s_blocks s) = Some tr -> b_parent tr = Some r' -> reg_live s r') ->
  (forall b, In b blocks -> blk_live s b) ->
  insert_block_after r blocks target s = (s', Ok res) -> WF s'.
Proof.
  intros blocks s s' r target res W RL (tx & Ftx & Etx) PL BLs H. unfold insert_block_after in H.
  apply bind_ok in H as (s0 & tr & Hg & H). apply getB_ok in Hg as [-> Ft].
  rewrite Ftx in Ft. injection Ft as <-.
  destruct (b_next tx) as [nb|] eqn:Nx; [|eapply add_block_WF; eauto].
  eapply insert_block_before_WF_gen; eauto.
  pose proof (proj1 (detached_blocks_Ddet s) (proj2 (wf_detached s W))) as DD.
  pose proof (proj1 (WF_region_Dabs s) (wf_region s W)) as D.
  pose proof H as H0. unfold insert_block_before in H0.
  apply bind_ok in H0 as (s0 & nx & Hg & H0). apply getB_ok in Hg as [-> Fnx].
  destruct (opt_eqb (b_parent nx) (Some r)) eqn:Pn; simpl in H0; [|exfalso; eapply raise_ok; eauto].
  apply opt_eqb_eq in Pn. clear H0.
  destruct (getB_view2 _ _ _ Ftx) as (Vnt & _ & Vpart). rewrite Nx in Vnt.
  destruct (getB_view2 _ _ _ Fnx) as (_ & _ & Vparn). rewrite Pn in Vparn.
  pose proof (blive_view _ _ _ Ftx Etx) as Lt.
  destruct (b_parent tx) as [r'|] eqn:Ptx.
  - destruct (reg_live_FL s r' (PL tx r' Ftx Ptx)) as (f' & la' & FL').
    destruct (D r' f' la' FL') as (l' & DL'). pose proof DL' as (C1' & C2' & ND' & M1' & M2').
    pose proof (M2' target Lt Vpart) as It.
    destruct (in_split _ _ It) as (l1 & l2 & ->).
    pose proof (dll_next_of _ _ _ _ _ _ _ DL') as Nt. rewrite Vnt in Nt.
    destruct l2 as [|n2 l2']; [discriminate|]. cbn [hd_error] in Nt. injection Nt as <-.
    assert (Inb : In nb (l1 ++ target :: nb :: l2')) by (apply in_or_app; right; right; left; reflexivity).
    pose proof (M1' nb Inb) as Q. rewrite Vparn in Q. injection Q as <-.
    intros f la l FL (C1 & _). rewrite FL' in FL. injection FL as <- <-.
    rewrite <- (chain_fun _ _ _ _ C1' C1). exact Inb.
  - destruct (DD target Lt Vpart) as [Q _]. rewrite Vnt in Q. discriminate.
Qed.

(* ------------------------------------------------------------------ Region.insert_block (by index) *)

Lemma insert_block_loop_WF : forall fuel s s' r blocks index cur i res,
  WF s -> reg_live s r -> (forall b, In b blocks -> blk_live s b) ->
  (forall f la l, dFL (viewT2 s) r = Some (f, la) -> dll_at (viewT2 s) r f la l ->
                  exists l1 l2, l = l1 ++ l2 /\ chain (dN (viewT2 s)) cur l2) ->
  insert_block_loop fuel r blocks index cur i s = (s', Ok res) -> WF s'.
Proof.
  induction fuel as [|fl IH]; intros s s' r blocks index cur i res W RL BLs HC H; simpl in H.
  - exfalso. eapply raise_ok; eauto.
  - destruct cur as [b|].
    + destruct (i =? index)%Z.
      * eapply insert_block_before_WF_gen; eauto.
        intros f la l FL DL. destruct (HC _ _ _ FL DL) as (l1 & l2 & -> & C).
        apply in_or_app. right. eapply chain_some_in; eauto.
      * apply bind_ok in H as (s0 & br & Hg & H). apply getB_ok in Hg as [-> Fb].
        eapply (IH s s' r blocks index (b_next br) (i + 1)%Z res); eauto.
        intros f la l FL DL. destruct (HC _ _ _ FL DL) as (l1 & l2 & -> & C).
        destruct (chain_cons_inv _ _ _ C) as (n & t & -> & Nb & Ct).
        destruct (getB_view2 _ _ _ Fb) as (Vn & _ & _). rewrite Vn in Nb. injection Nb as <-.
        exists (l1 ++ [b]), t. split; [rewrite <- app_assoc; reflexivity|exact Ct].
    + destruct (i =? index)%Z.
      * eapply add_block_WF; eauto.
      * apply ret_ok in H as [-> _]. exact W.
Qed.

Theorem insert_block_WF : forall blocks s s' r index res,
  WF s -> reg_live s r -> (forall b, In b blocks -> blk_live s b) ->
  insert_block r blocks index s = (s', Ok res) -> WF s'.
Proof.
  intros blocks s s' r index res W RL BLs H. unfold insert_block in H.
  apply bind_ok in H as (s0 & fl & Hf & H). unfold get_fuel in Hf. apply gets_ok in Hf as [-> ->].
  apply bind_ok in H as (s0 & rr & Hg & H). apply getR_ok in Hg as [-> Fr].
  eapply insert_block_loop_WF; eauto.
  intros f la l FL (C1 & _). destruct RL as (rr0 & Fr0 & Er0). rewrite Fr in Fr0. injection Fr0 as <-.
  simpl in FL. unfold rFL in FL. rewrite Fr, Er0 in FL. injection FL as <- <-.
  exists [], l. split; [reflexivity|exact C1].
Qed.

(* ------------------------------------------------------------------ Rewriter.insert_block *)

Lemma check_block_insert_point_state : forall r ib s s' u, check_block_insert_point r ib s = (s', Ok u) -> s' = s.
Proof.
  intros r ib s s' u H. unfold check_block_insert_point in H. destruct ib as [t|].
  - apply bind_ok in H as (s1 & br & Hg & H). apply getB_ok in Hg as [-> _].
    destruct (negb (opt_eqb (b_parent br) (Some r))); [exfalso; eapply raise_ok; eauto|].
    apply ret_ok in H as [-> _]. reflexivity.
  - apply ret_ok in H as [-> _]. reflexivity.
Qed.

Theorem rw_insert_block_WF : forall blocks s s' r ib res,
  WF s -> reg_live s r -> (forall b, In b blocks -> blk_live s b) ->
  (forall t, ib = Some t -> blk_live s t) ->
  rw_insert_block blocks r ib s = (s', Ok res) -> WF s'.
Proof.
  intros blocks s s' r ib res W RL BLs TL H. unfold rw_insert_block in H.
  apply bind_ok in H as (s0 & u & Hc & H). apply check_block_insert_point_state in Hc. subst s0.
  destruct ib as [t|].
  - eapply insert_block_before_WF; eauto.
  - eapply add_block_WF; eauto.
Qed.

(* ------------------------------------------------------------------ Builder.create_block *)

(* relative to the post-condition of `Block(arg_types)` (block_new [] nargs), which is proved
   with the allocation lemmas (not in this file): the new state is well formed, the new block is
   live, and no live object is erased *)
Theorem create_block_WF : forall s s' r ib nargs b,
  WF s -> reg_live s r -> (forall t, ib = Some t -> blk_live s t) ->
  (forall s1 b1, block_new [] nargs s = (s1, Ok b1) -> WF s1 /\ blk_live s1 b1 /\ same_live s s1) ->
  create_block r ib nargs s = (s', Ok b) -> WF s'.
Proof.
  intros s s' r ib nargs b W RL TL BN H. unfold create_block in H.
  apply bind_ok in H as (s0 & u & Hc & H). apply check_block_insert_point_state in Hc. subst s0.
  apply bind_ok in H as (s1 & b1 & Hn & H).
  destruct (BN s1 b1 Hn) as (W1 & BL1 & (_ & LB & LR)).
  apply bind_ok in H as (s2 & u2 & Hi & H). apply ret_ok in H as [-> _].
  eapply (rw_insert_block_WF [b1] s1 s2 r ib u2 W1); [apply LR; exact RL| | |exact Hi].
  - intros b0 [<-|[]]. exact BL1.
  - intros t E. apply LB. apply TL. exact E.
Qed.
