(* C01/ProofsSetOperands.v -- WF is preserved by the Operation.operands setter
   (fresh Use objects, removal of every old operand use, insertion of every new one). *)
From Coq Require Import ZArith List Bool PArith FMapPositive Lia.
From XV Require Import C01.Model C01.Spec C01.ProofsBase C01.ProofsFrame C01.ProofsUses C01.ProofsOperands
  C01.ProofsRauw.
Import ListNotations.
Local Open Scope Z_scope.

(* ------------------------------------------------------------------ frame: allocU *)

Lemma allocU_T1 : forall x, preserves same_T1 (allocU x).
Proof. intros x s s' r H. unfold allocU in H. injection H as <- _. split; apply agree_refl. Qed.
Lemma allocU_T2 : forall x, preserves same_T2 (allocU x).
Proof. intros x s s' r H. unfold allocU in H. injection H as <- _. split; apply agree_refl. Qed.
Lemma allocU_T3 : forall x, preserves same_T3 (allocU x).
Proof. intros x s s' r H. unfold allocU in H. injection H as <- _. split; apply agree_refl. Qed.
Lemma allocU_I : forall x, preserves same_I (allocU x).
Proof. intros x s s' r H. unfold allocU in H. injection H as <- _. split; [|split]; apply agree_refl. Qed.
#[export] Hint Resolve allocU_T1 allocU_T2 allocU_T3 allocU_I : pres.

Lemma alloc_uses_pres : forall R, frame_rel R -> (forall x, preserves R (allocU x)) ->
  forall o idxs, preserves R (alloc_uses o idxs).
Proof.
  intros R FR HA o idxs. induction idxs as [|i r IH]; simpl.
  - apply (pres_ret _ FR).
  - apply (pres_bind _ FR); [apply HA|intro u]. apply (pres_bind _ FR); [exact IH|intro us]. apply (pres_ret _ FR).
Qed.

Lemma set_operands_T1 : forall o new, preserves same_T1 (set_operands o new).
Proof. intros. unfold set_operands. pres fr_T1. apply alloc_uses_pres; auto with pres. Qed.
Lemma set_operands_T2 : forall o new, preserves same_T2 (set_operands o new).
Proof. intros. unfold set_operands. pres fr_T2. apply alloc_uses_pres; auto with pres. Qed.
Lemma set_operands_T3 : forall o new, preserves same_T3 (set_operands o new).
Proof. intros. unfold set_operands. pres fr_T3. apply alloc_uses_pres; auto with pres. Qed.
Lemma set_operands_I : forall o new, preserves same_I (set_operands o new).
Proof. intros. unfold set_operands. pres fr_I. apply alloc_uses_pres; auto with pres. Qed.

(* ------------------------------------------------------------------ allocation of fresh uses *)

(* what the rest of the proof needs to know about the state after alloc_uses *)
Record alloc_post (s s1 : state) (o : oid) (start : Z) (us : list uid) : Prop := {
  ap_ops : s_ops s1 = s_ops s;
  ap_values : s_values s1 = s_values s;
  ap_blocks : s_blocks s1 = s_blocks s;
  ap_regions : s_regions s1 = s_regions s;
  ap_counters : n_op s1 = n_op s /\ n_block s1 = n_block s /\ n_region s1 = n_region s /\ n_value s1 = n_value s;
  ap_old : forall u x, PM.find u (s_uses s) = Some x -> PM.find u (s_uses s1) = Some x;
  ap_new : forall k u, nth_error us k = Some u ->
             PM.find u (s_uses s) = None /\ PM.find u (s_uses s1) = Some (mkUse o (start + Z.of_nat k) None None);
  ap_only : forall u x, PM.find u (s_uses s1) = Some x -> PM.find u (s_uses s) = Some x \/ In u us;
  ap_nodup : NoDup us;
  ap_below : below (s_uses s1) (n_use s1) }.

Lemma alloc_uses_post : forall o n start s s1 us,
  below (s_uses s) (n_use s) ->
  alloc_uses o (range_from start n) s = (s1, Ok us) ->
  alloc_post s s1 o start us /\ length us = n.
Proof.
  intros o n. induction n as [|n IH]; intros start s s1 us B H; simpl in H.
  - apply ret_ok in H as [-> ->]. split; [|reflexivity].
    constructor; try reflexivity; auto.
    + intros k u N. destruct k; discriminate.
    + constructor.
  - apply bind_ok in H as (s0 & u & Ha & H). unfold allocU in Ha. injection Ha as <- <-.
    apply bind_ok in H as (s2 & us' & Hr & H). apply ret_ok in H as [<- ->].
    set (u := n_use s) in *.
    assert (Fu : PM.find u (s_uses s) = None).
    { destruct (PM.find u (s_uses s)) as [x|] eqn:F; [|reflexivity]. specialize (B _ _ F). unfold u in B. lia. }
    match type of Hr with alloc_uses _ _ ?sx = _ => set (s0 := sx) in * end.
    assert (B0 : below (s_uses s0) (n_use s0)).
    { intros i x F. simpl in F. rewrite find_add in F. simpl. destruct (Pos.eqb_spec i u) as [->|N]; [lia|].
      specialize (B _ _ F). fold u in B. lia. }
    destruct (IH (start + 1) s0 s1 us' B0 Hr) as [AP L]. destruct AP. split; [|simpl; lia].
    constructor; try (etransitivity; [eassumption|reflexivity]).
    + destruct ap_counters0 as (C1 & C2 & C3 & C4). repeat split; assumption.
    + intros v x F. apply ap_old0. simpl. rewrite find_add. destruct (Pos.eqb_spec v u); [subst; congruence|exact F].
    + intros k v N. destruct k as [|k]; simpl in N.
      * injection N as <-. split; [exact Fu|]. replace (start + Z.of_nat 0) with start by lia.
        apply ap_old0. simpl. rewrite find_add_same. reflexivity.
      * destruct (ap_new0 k v N) as [Q1 Q2]. split.
        -- simpl in Q1. rewrite find_add in Q1. destruct (Pos.eqb_spec v u); [discriminate|exact Q1].
        -- rewrite Q2. f_equal. f_equal. lia.
    + intros v x F. destruct (ap_only0 v x F) as [Q|Q]; [|right; right; exact Q].
      simpl in Q. rewrite find_add in Q. destruct (Pos.eqb_spec v u) as [->|N]; [right; left; reflexivity|left; exact Q].
    + constructor; [|exact ap_nodup0]. intro I. destruct (In_nth_error _ _ I) as (k & N).
      destruct (ap_new0 k u N) as [Q _]. simpl in Q. rewrite find_add_same in Q. discriminate.
    + exact ap_below0.
Qed.

(* the use-list invariant is untouched by the allocation (the fresh uses float) *)
Lemma Uabs_alloc_uses : forall s s1 o start us S,
  Uabs s S -> alloc_post s s1 o start us -> Uabs s1 S.
Proof.
  intros s s1 o start us S [UC US U1] AP. destruct AP.
  assert (EN : forall l, (forall x, In x l -> exists r, PM.find x (s_uses s) = Some r) ->
                 forall x, In x l -> use_next s1 x = use_next s x).
  { intros l E x Ix. destruct (E x Ix) as (r & F). unfold use_next, link. rewrite F, (ap_old0 _ _ F). reflexivity. }
  assert (HF : forall h, hfirst s1 h = hfirst s h).
  { intros [v|b]; simpl; [rewrite ap_values0|rewrite ap_blocks0]; reflexivity. }
  assert (EX : forall h fu l, hfirst s h = Some fu -> chain (use_next s) fu l ->
                 forall x, In x l -> exists r, PM.find x (s_uses s) = Some r).
  { intros h fu l Hf C x Ix. destruct (UC h fu Hf) as (l' & C' & _ & _ & M).
    assert (l' = l) by (eapply chain_fun; eauto). subst l'.
    destruct (M x Ix) as (o' & i' & Q). destruct (US _ _ _ _ Q) as [Inf _].
    destruct (use_info_some _ _ _ _ Inf) as (ur & F & _). eauto. }
  constructor.
  - intros h fu Hf. rewrite HF in Hf. destruct (UC h fu Hf) as (l & C & ND & P & M).
    exists l. split; [eapply chain_ext; [|exact C]; apply EN; eapply EX; eauto|]. split; [exact ND|]. split; [|exact M].
    apply prevs_ok_v. apply prevs_ok_v in P. eapply prevs_v_ext; [|exact P].
    intros x Ix. destruct (EX h fu l Hf C x Ix) as (r & F). unfold use_prev, link. rewrite F, (ap_old0 _ _ F). reflexivity.
  - intros h o' i' u Q. destruct (US _ _ _ _ Q) as [Inf (fu & l & Hf & C & Iu)]. split.
    + destruct (use_info_some _ _ _ _ Inf) as (ur & F & E1 & E2). unfold use_info. rewrite (ap_old0 _ _ F). simpl. congruence.
    + exists fu, l. rewrite HF. split; [exact Hf|]. split; [|exact Iu].
      eapply chain_ext; [|exact C]. apply EN. eapply EX; eauto.
  - exact U1.
Qed.

(* ------------------------------------------------------------------ the two loops *)

Definition minus_uses (Sl : slotrel) (us : list uid) : slotrel := fun h o i u => Sl h o i u /\ ~ In u us.

Lemma remove_loop : forall (pairs : list (vid * uid)) s s' Sl o k0 r,
  Uabs s Sl ->
  (forall k v u, nth_error pairs k = Some (v, u) -> Sl (HV v) o (k0 + Z.of_nat k) u) ->
  forM pairs (fun p => remove_use (HV (fst p)) (snd p)) s = (s', Ok r) ->
  Uabs s' (minus_uses Sl (map snd pairs)) /\ s_ops s' = s_ops s /\ (forall x, use_info s' x = use_info s x) /\
  s_regions s' = s_regions s.
Proof.
  induction pairs as [|[v u] rest IH]; intros s s' Sl o k0 r UA INV H; simpl in H.
  - apply ret_ok in H as [-> _]. split; [|auto]. destruct UA as [UC US U1]. constructor.
    + intros h fu Hf. destruct (UC h fu Hf) as (l & C & ND & P & M). exists l. repeat split; try assumption.
      intros q Iq. destruct (M q Iq) as (o' & i' & Q). exists o', i'. split; [exact Q|intros []].
    + intros h o' i' q [Q _]. apply US. exact Q.
    + intros h h' o1 o2 i1 i2 q [Q1 _] [Q2 _]. eapply U1; eauto.
  - apply bind_ok in H as (s1 & ? & H1 & H2). simpl in H1.
    pose proof (INV 0%nat v u eq_refl) as S0. replace (k0 + Z.of_nat 0) with k0 in S0 by lia.
    destruct (remove_use_Uabs _ _ _ _ _ _ _ _ UA S0 H1) as (UA1 & Ops1 & Inf1).
    assert (Reg1 : s_regions s1 = s_regions s).
    { pose proof (remove_use_T3 (HV v) u s s1 _ H1) as _. pose proof (remove_use_T2 (HV v) u s s1 _ H1) as _.
      unfold remove_use in H1. clear -H1.
      apply bind_ok in H1 as (s0 & a & Hg & H1). apply getU_ok in Hg as [-> _].
      apply bind_ok in H1 as (sa & ? & Ha & H1). apply bind_ok in H1 as (sb & ? & Hb & Hc).
      assert (s_regions sa = s_regions s) by (destruct (u_prev a); [apply updU_ok in Ha as (? & _ & ->); reflexivity|apply ret_ok in Ha as [-> _]; reflexivity]).
      assert (s_regions sb = s_regions sa) by (destruct (u_next a); [apply updU_ok in Hb as (? & _ & ->); reflexivity|apply ret_ok in Hb as [-> _]; reflexivity]).
      assert (s_regions s1 = s_regions sb).
      { destruct (u_prev a); [apply ret_ok in Hc as [-> _]; reflexivity|].
        unfold set_first_use in Hc. apply updV_ok in Hc as (? & _ & ->). reflexivity. }
      congruence. }
    assert (INV1 : forall k v' u', nth_error rest k = Some (v', u') -> minus_use Sl u (HV v') o (k0 + 1 + Z.of_nat k) u').
    { intros k v' u' N. pose proof (INV (Datatypes.S k) v' u' N) as Q. replace (k0 + Z.of_nat (Datatypes.S k)) with (k0 + 1 + Z.of_nat k) in Q by lia.
      split; [exact Q|]. intro E. subst u'.
      destruct (ua_slot _ _ UA _ _ _ _ Q) as [I1 _]. destruct (ua_slot _ _ UA _ _ _ _ S0) as [I2 _].
      rewrite I1 in I2. injection I2 as E. lia. }
    destruct (IH s1 s' (minus_use Sl u) o (k0 + 1) r UA1 INV1 H2) as (UA' & Ops' & Inf' & Reg').
    split; [|split; [congruence|split; [intro q; rewrite Inf', Inf1; reflexivity|congruence]]].
    destruct UA' as [UC US U1]. constructor.
    + intros h fu Hf. destruct (UC h fu Hf) as (l & C & ND & P & M). exists l. repeat split; try assumption.
      intros q Iq. destruct (M q Iq) as (o' & i' & [[Q N1] N2]). exists o', i'. split; [exact Q|].
      simpl. intros [E|I]; [congruence|contradiction].
    + intros h o' i' q [Q N]. apply US. split; [split; [exact Q|]|]; intro; apply N; simpl; auto.
    + intros h h' o1 o2 i1 i2 q [Q1 N1] [Q2 N2]. eapply U1; (split; [split; [eassumption|]|]); intro; (apply N1 || apply N2); simpl; auto.
Qed.

Definition plus_uses (Sl : slotrel) (o : oid) (k0 : Z) (pairs : list (vid * uid)) : slotrel :=
  fun h o' i u => Sl h o' i u \/ exists k v, nth_error pairs k = Some (v, u) /\ h = HV v /\ o' = o /\ i = k0 + Z.of_nat k.

Lemma add_loop : forall (pairs : list (vid * uid)) s s' Sl o k0 r,
  Uabs s Sl -> NoDup (map snd pairs) ->
  (forall k v u, nth_error pairs k = Some (v, u) ->
     use_info s u = Some (o, k0 + Z.of_nat k) /\ forall h' o' i', ~ Sl h' o' i' u) ->
  forM pairs (fun p => add_use (HV (fst p)) (snd p)) s = (s', Ok r) ->
  Uabs s' (plus_uses Sl o k0 pairs) /\ s_ops s' = s_ops s /\ (forall x, use_info s' x = use_info s x).
Proof.
  induction pairs as [|[v u] rest IH]; intros s s' Sl o k0 r UA ND INV H; simpl in H.
  - apply ret_ok in H as [-> _]. split; [|auto]. destruct UA as [UC US U1]. constructor.
    + intros h fu Hf. destruct (UC h fu Hf) as (l & C & ND' & P & M). exists l. repeat split; try assumption.
      intros q Iq. destruct (M q Iq) as (o' & i' & Q). exists o', i'. left. exact Q.
    + intros h o' i' q [Q|(k & v & N & _)]; [apply US; exact Q|destruct k; discriminate].
    + intros h h' o1 o2 i1 i2 q [Q1|(k & v & N & _)] [Q2|(k' & v' & N' & _)];
        try (destruct k; discriminate); try (destruct k'; discriminate). eapply U1; eauto.
  - apply bind_ok in H as (s1 & ? & H1 & H2). simpl in H1. simpl in ND. inversion ND as [|? ? NI ND']; subst.
    destruct (INV 0%nat v u eq_refl) as [Inf Fl]. replace (k0 + Z.of_nat 0) with k0 in Inf by lia.
    destruct (add_use_Uabs _ _ _ _ _ _ _ _ UA Fl Inf H1) as (UA1 & Ops1 & Inf1).
    assert (INV1 : forall k v' u', nth_error rest k = Some (v', u') ->
              use_info s1 u' = Some (o, k0 + 1 + Z.of_nat k) /\ forall h' o' i', ~ plus_use Sl (HV v) o k0 u h' o' i' u').
    { intros k v' u' N. destruct (INV (Datatypes.S k) v' u' N) as [I2 F2]. split.
      - rewrite Inf1, I2. f_equal. f_equal. lia.
      - intros h' o' i' [Q|(_ & _ & _ & E)]; [eapply F2; eauto|]. subst u'. apply NI.
        apply nth_error_In in N. apply (in_map snd) in N. exact N. }
    assert (INV1' : forall k v' u', nth_error rest k = Some (v', u') ->
              use_info s1 u' = Some (o, k0 + 1 + Z.of_nat k) /\ forall h' o' i', ~ plus_use Sl (HV v) o k0 u h' o' i' u').
    { exact INV1. }
    destruct (IH s1 s' (plus_use Sl (HV v) o k0 u) o (k0 + 1) r UA1 ND' INV1 H2) as (UA' & Ops' & Inf').
    split; [|split; [congruence|intro q; rewrite Inf', Inf1; reflexivity]].
    assert (EQ : forall h o' i q, plus_uses (plus_use Sl (HV v) o k0 u) o (k0 + 1) rest h o' i q <->
                                  plus_uses Sl o k0 ((v, u) :: rest) h o' i q).
    { intros h o' i q. unfold plus_uses, plus_use. split.
      - intros [[Q|(-> & -> & -> & ->)]|(k & v' & N & -> & -> & ->)].
        + left. exact Q.
        + right. exists 0%nat, v. simpl. repeat split; try reflexivity. lia.
        + right. exists (Datatypes.S k), v'. simpl. repeat split; try assumption; try reflexivity. lia.
      - intros [Q|(k & v' & N & -> & -> & ->)].
        + left. left. exact Q.
        + destruct k as [|k]; simpl in N.
          * injection N as <- <-. left. right. repeat split; try reflexivity. lia.
          * right. exists k, v'. repeat split; try assumption; try reflexivity. lia. }
    destruct UA' as [UC US U1]. constructor.
    + intros h fu Hf. destruct (UC h fu Hf) as (l & C & ND2 & P & M). exists l. repeat split; try assumption.
      intros q Iq. destruct (M q Iq) as (o' & i' & Q). exists o', i'. apply EQ. exact Q.
    + intros h o' i' q Q. apply EQ in Q. apply US. exact Q.
    + intros h h' o1 o2 i1 i2 q Q1 Q2. apply EQ in Q1. apply EQ in Q2. eapply U1; eauto.
Qed.

(* ------------------------------------------------------------------ the setter *)

Lemma nth_error_zip : forall {A B} (l : list A) (l' : list B) k a b,
  nth_error (zip l l') k = Some (a, b) <-> nth_error l k = Some a /\ nth_error l' k = Some b.
Proof.
  intros A B l. induction l as [|x r IH]; intros l' k a b.
  - simpl. destruct k; split; intro H; try discriminate; destruct H; discriminate.
  - destruct l' as [|y r']; simpl.
    + destruct k; split; intro H; try discriminate; destruct H; discriminate.
    + destruct k as [|k]; simpl.
      * split; [intro H; injection H as <- <-; auto|intros [H1 H2]; congruence].
      * apply IH.
Qed.

Lemma map_snd_zip_incl : forall {A B} (l : list A) (l' : list B) x, In x (map snd (zip l l')) -> In x l'.
Proof.
  intros A B l. induction l as [|a r IH]; intros l' x H; simpl in H; [destruct H|].
  destruct l' as [|b r']; simpl in H; [destruct H|]. destruct H as [<-|H]; [left; reflexivity|right; eapply IH; eauto].
Qed.

Lemma NoDup_map_snd_zip : forall {A B} (l : list A) (l' : list B), NoDup l' -> NoDup (map snd (zip l l')).
Proof.
  intros A B l. induction l as [|a r IH]; intros l' ND; simpl; [constructor|].
  destruct l' as [|b r']; simpl; [constructor|]. inversion ND; subst. constructor; [|apply IH; assumption].
  intro I. apply map_snd_zip_incl in I. contradiction.
Qed.

Lemma forM_pres : forall R, frame_rel R -> forall {A} (l : list A) (f : A -> M unit),
  (forall a, preserves R (f a)) -> preserves R (forM l f).
Proof. intros R FR A l f H. apply pres_forM; assumption. Qed.

Theorem set_operands_WF : forall s s' o new r,
  WF s -> op_live s o -> set_operands o new s = (s', Ok r) -> WF s'.
Proof.
  intros s s' o new r W (x0 & Fx0 & Ex0) H.
  pose proof (set_operands_T1 o new s s' _ H) as T1. pose proof (set_operands_T2 o new s s' _ H) as T2.
  pose proof (set_operands_T3 o new s s' _ H) as T3. pose proof (set_operands_I o new s s' _ H) as SI.
  destruct (UWF_Uabs s (WF_UWF s W)) as [UA LN].
  unfold set_operands in H.
  apply bind_ok in H as (s1 & new_uses & Hal & H).
  destruct (alloc_uses_post o (length new) 0 s s1 new_uses (proj2 (proj2 (proj2 (proj2 (wf_alloc s W))))) Hal) as [AP Lnew].
  pose proof (Uabs_alloc_uses s s1 o 0 new_uses (real_slot s) UA AP) as UA1.
  destruct AP.
  apply bind_ok in H as (s1' & orec & Hg & H). apply getO_ok in Hg as [-> Fo1].
  rewrite ap_ops0, Fx0 in Fo1. injection Fo1 as <-.
  apply bind_ok in H as (s2 & ? & Hrm & H).
  apply bind_ok in H as (s3 & ? & Had & H).
  apply bind_ok in H as (s4 & ? & Hu1 & Hu2).
  destruct (LN o x0 Fx0 Ex0) as [Len _].
  (* removal of the old uses *)
  assert (INVr : forall k v u, nth_error (zip (o_operands x0) (o_operand_uses x0)) k = Some (v, u) ->
                   real_slot s (HV v) o (0 + Z.of_nat k) u).
  { intros k v u N. apply nth_error_zip in N. destruct N as [N1 N2]. exists x0. simpl.
    rewrite !znth_of_nat. auto. }
  destruct (remove_loop _ s1 s2 (real_slot s) o 0 _ UA1 INVr Hrm) as (UA2 & Ops2 & Inf2 & Reg2).
  assert (OLD : map snd (zip (o_operands x0) (o_operand_uses x0)) = o_operand_uses x0).
  { clear -Len. revert Len. generalize (o_operands x0) (o_operand_uses x0). induction l as [|a t IH]; intros [|b t'] L; simpl in *; try discriminate; try reflexivity.
    f_equal. apply IH. lia. }
  rewrite OLD in UA2.
  (* insertion of the new uses *)
  assert (INVa : forall k v u, nth_error (zip new new_uses) k = Some (v, u) ->
                   use_info s2 u = Some (o, 0 + Z.of_nat k) /\
                   forall h' o' i', ~ minus_uses (real_slot s) (o_operand_uses x0) h' o' i' u).
  { intros k v u N. apply nth_error_zip in N. destruct N as [N1 N2]. destruct (ap_new0 k u N2) as [Q1 Q2]. split.
    - rewrite Inf2. unfold use_info. rewrite Q2. reflexivity.
    - intros h' o' i' [Q _]. destruct (ua_slot _ _ UA _ _ _ _ Q) as [Inf _].
      destruct (use_info_some _ _ _ _ Inf) as (ur & F & _). congruence. }
  destruct (add_loop _ s2 s3 _ o 0 _ UA2 (NoDup_map_snd_zip new new_uses ap_nodup0) INVa Had) as (UA3 & Ops3 & Inf3).
  apply updO_ok in Hu1 as (xa & Fa & ->). apply updO_ok in Hu2 as (xb & Fb & ->).
  rewrite Ops3, Ops2, ap_ops0, Fx0 in Fa. injection Fa as <-.
  simpl in Fb. rewrite find_add_same in Fb. injection Fb as <-.
  set (xf := set_o_operand_uses new_uses (set_o_operands new x0)).
  (* the slot relation of the final state *)
  assert (OPS : forall o', PM.find o' (PM.add o xf (PM.add o (set_o_operands new x0) (s_ops s3))) =
                           if Pos.eqb o' o then Some xf else PM.find o' (s_ops s)).
  { intro o'. rewrite !find_add. destruct (Pos.eqb_spec o' o); [reflexivity|]. rewrite Ops3, Ops2, ap_ops0. reflexivity. }
  assert (SL : forall h o' i' u',
     real_slot (with_ops (PM.add o xf (s_ops (with_ops (PM.add o (set_o_operands new x0) (s_ops s3)) s3)))
                         (with_ops (PM.add o (set_o_operands new x0) (s_ops s3)) s3)) h o' i' u' <->
     plus_uses (minus_uses (real_slot s) (o_operand_uses x0)) o 0 (zip new new_uses) h o' i' u').
  { intros h o' i' u'. unfold real_slot. simpl. split.
    - intros (x' & F' & E' & Z1 & Z2). rewrite OPS in F'. destruct (Pos.eqb_spec o' o) as [->|No].
      + injection F' as <-. destruct h as [w|b]; simpl in Z1, Z2.
        * right. destruct (znth_some _ _ _ Z1) as (k & -> & N1). rewrite znth_of_nat in Z2.
          exists k, w. split; [apply nth_error_zip; auto|]. repeat split.
        * left. split; [exists x0; simpl; auto|]. intro I. destruct (In_nth_error _ _ I) as (j & Nj).
          assert (exists v, nth_error (o_operands x0) j = Some v) as (v & Nv).
          { destruct (nth_error (o_operands x0) j) eqn:Q; [eauto|]. apply nth_error_None in Q.
            assert (j < length (o_operand_uses x0))%nat by (apply nth_error_Some; congruence). lia. }
          assert (R1 : real_slot s (HV v) o (Z.of_nat j) u') by (exists x0; simpl; rewrite !znth_of_nat; auto).
          assert (R2 : real_slot s (HB b) o i' u') by (exists x0; simpl; auto).
          pose proof (ua_one _ _ UA _ _ _ _ _ _ _ R1 R2). discriminate.
      + left. split; [exists x'; auto|]. intro I. destruct (In_nth_error _ _ I) as (j & Nj).
        assert (exists v, nth_error (o_operands x0) j = Some v) as (v & Nv).
        { destruct (nth_error (o_operands x0) j) eqn:Q; [eauto|]. apply nth_error_None in Q.
          assert (j < length (o_operand_uses x0))%nat by (apply nth_error_Some; congruence). lia. }
        assert (R1 : real_slot s (HV v) o (Z.of_nat j) u') by (exists x0; simpl; rewrite !znth_of_nat; auto).
        assert (R2 : real_slot s h o' i' u') by (exists x'; auto).
        destruct (ua_slot _ _ UA _ _ _ _ R1) as [I1 _]. destruct (ua_slot _ _ UA _ _ _ _ R2) as [I2 _].
        rewrite I1 in I2. injection I2 as E _. congruence.
    - intros [[(x' & F' & E' & Z1 & Z2) NI]|(k & v & N & -> & -> & ->)].
      + rewrite OPS. destruct (Pos.eqb_spec o' o) as [->|No]; [|exists x'; auto].
        rewrite Fx0 in F'. injection F' as <-. exists xf. split; [reflexivity|]. split; [exact Ex0|].
        destruct h as [w|b]; simpl in *; [|auto]. exfalso. apply NI. eapply znth_In; eauto.
      + rewrite OPS, Pos.eqb_refl. exists xf. split; [reflexivity|]. split; [exact Ex0|].
        apply nth_error_zip in N. destruct N as [N1 N2]. simpl. rewrite !znth_of_nat. auto. }
  (* assemble *)
  assert (UW : UWF (with_ops (PM.add o xf (s_ops (with_ops (PM.add o (set_o_operands new x0) (s_ops s3)) s3)))
                             (with_ops (PM.add o (set_o_operands new x0) (s_ops s3)) s3))).
  { apply Uabs_UWF.
    - eapply Uabs_ext; [| |exact SL|exact UA3].
      + intro y. reflexivity.
      + intros [v|b]; reflexivity.
    - intros o' x' F' E'. simpl in F'. rewrite OPS in F'. destruct (Pos.eqb_spec o' o) as [->|No].
      + injection F' as <-. simpl. destruct (LN o x0 Fx0 Ex0) as [_ L2]. split; [congruence|exact L2].
      + apply (LN o' x' F' E'). }
  destruct UW as (U1 & U2 & U3 & U4 & U5). destruct W.
  destruct (WF_index_same _ _ SI (conj wf_results (conj wf_args wf_owner))) as (I1 & I2 & I3).
  constructor; try assumption.
  - eapply WF_block_same; eauto.
  - eapply WF_region_same; eauto.
  - eapply WF_opregs_same; eauto.
  - eapply WF_detached_same; eauto.
  - (* allocation bookkeeping *)
    assert (A12 : same_A s1 s2).
    { eapply (forM_pres same_A fr_A); [|exact Hrm]. intros [v u]. apply remove_use_A. }
    assert (A23 : same_A s2 s3).
    { eapply (forM_pres same_A fr_A); [|exact Had]. intros [v u]. apply add_use_A. }
    destruct wf_alloc as (B1 & B2 & B3 & B4 & B5). destruct ap_counters0 as (C1 & C2 & C3 & C4).
    assert (WA1 : WF_alloc s1).
    { unfold WF_alloc. rewrite ap_ops0, ap_blocks0, ap_regions0, ap_values0, C1, C2, C3, C4. repeat split; assumption. }
    pose proof (WF_alloc_same _ _ A23 (WF_alloc_same _ _ A12 WA1)) as (D1 & D2 & D3 & D4 & D5).
    unfold WF_alloc. simpl. repeat split; try assumption.
    intros i xi F. rewrite !find_add in F. destruct (Pos.eqb_spec i o) as [->|N].
    + apply (D1 o x0). rewrite Ops3, Ops2, ap_ops0. exact Fx0.
    + eapply D1; eauto.
Qed.
