(* C01/ProofsWfb.v -- soundness of the boolean checker: wf_b s = true -> WF s. *)
From Coq Require Import ZArith List Bool PArith FMapPositive Lia.
From XV Require Import C01.Model C01.Spec C01.ProofsBase.
Import ListNotations.
Local Open Scope Z_scope.

Lemma wfb_block_sound : forall s fl,
  forallb (fun p => wfb_block s fl (fst p) (snd p)) (PM.elements (s_blocks s)) = true -> WF_block s.
Proof.
  intros s fl H b br F E.
  pose proof (forallb_elements _ _ H b br F) as Hb. simpl in Hb.
  unfold wfb_block in Hb. rewrite E in Hb.
  destruct (chain_b (op_next s) fl (b_first_op br)) as [l|] eqn:C1; [|discriminate].
  destruct (chain_b (op_prev s) fl (b_last_op br)) as [l'|] eqn:C2; [|discriminate].
  repeat (apply andb_true_iff in Hb; destruct Hb as [Hb ?]).
  apply list_eqb_eq in Hb. subst l'.
  exists l. split; [eapply chain_b_sound; eauto|]. split; [eapply chain_b_sound; eauto|].
  split; [apply nodup_b_NoDup; assumption|]. split.
  - intros o Io. rewrite forallb_forall in H1. specialize (H1 o Io).
    destruct (PM.find o (s_ops s)) as [x|]; [|discriminate].
    exists x. split; [reflexivity|]. apply opt_eqb_eq. exact H1.
  - intros o x Fo Eo Po.
    pose proof (forallb_elements _ _ H0 o x Fo) as Ho. simpl in Ho.
    rewrite Eo, Po in Ho. simpl in Ho.
    rewrite ?Pos.eqb_refl in Ho. simpl in Ho. apply mem_In. exact Ho.
Qed.

Lemma wfb_region_sound : forall s fl,
  forallb (fun p => wfb_region s fl (fst p) (snd p)) (PM.elements (s_regions s)) = true -> WF_region s.
Proof.
  intros s fl H r rr F E.
  pose proof (forallb_elements _ _ H r rr F) as Hb. simpl in Hb.
  unfold wfb_region in Hb. rewrite E in Hb.
  destruct (chain_b (blk_next s) fl (r_first rr)) as [l|] eqn:C1; [|discriminate].
  destruct (chain_b (blk_prev s) fl (r_last rr)) as [l'|] eqn:C2; [|discriminate].
  repeat (apply andb_true_iff in Hb; destruct Hb as [Hb ?]).
  apply list_eqb_eq in Hb. subst l'.
  exists l. split; [eapply chain_b_sound; eauto|]. split; [eapply chain_b_sound; eauto|].
  split; [apply nodup_b_NoDup; assumption|]. split.
  - intros o Io. rewrite forallb_forall in H1. specialize (H1 o Io).
    destruct (PM.find o (s_blocks s)) as [x|]; [|discriminate].
    exists x. split; [reflexivity|]. apply opt_eqb_eq. exact H1.
  - intros o x Fo Eo Po.
    pose proof (forallb_elements _ _ H0 o x Fo) as Ho. simpl in Ho.
    rewrite Eo, Po in Ho. simpl in Ho.
    rewrite ?Pos.eqb_refl in Ho. simpl in Ho. apply mem_In. exact Ho.
Qed.

Lemma wfb_opregs_sound : forall s,
  forallb (fun p => wfb_opregs s (fst p) (snd p)) (PM.elements (s_ops s)) = true -> WF_opregs s.
Proof.
  intros s H o x F E.
  pose proof (forallb_elements _ _ H o x F) as Hb. simpl in Hb.
  unfold wfb_opregs in Hb. rewrite E in Hb.
  repeat (apply andb_true_iff in Hb; destruct Hb as [Hb ?]).
  split; [apply nodup_b_NoDup; assumption|]. split.
  - intros r Ir. rewrite forallb_forall in H1. specialize (H1 r Ir).
    destruct (PM.find r (s_regions s)) as [rr|]; [|discriminate].
    exists rr. split; [reflexivity|]. apply opt_eqb_eq. exact H1.
  - intros r rr Fr Er Pr.
    pose proof (forallb_elements _ _ H0 r rr Fr) as Ho. simpl in Ho.
    rewrite Er, Pr in Ho. simpl in Ho.
    rewrite ?Pos.eqb_refl in Ho. simpl in Ho. apply mem_In. exact Ho.
Qed.

Lemma prevs_b_sound : forall s l prev, prevs_b s prev l = true -> prevs_ok s prev l.
Proof.
  intros s l. induction l as [|u r IH]; intros prev H; simpl in *.
  - exact I.
  - apply andb_true_iff in H. destruct H as [H1 H2].
    destruct (PM.find u (s_uses s)) as [ur|] eqn:F; [|discriminate].
    split; [exists ur; split; [reflexivity|apply opt_eqb_eq; exact H1]|apply IH; exact H2].
Qed.

Lemma znth_is_sound : forall l i x, znth_is l i x = true -> znth l i = Some x.
Proof.
  intros l i x H. unfold znth_is in H. destruct (znth l i) as [y|]; [|discriminate].
  apply Pos.eqb_eq in H. congruence.
Qed.

Lemma use_chain_b_sound : forall s fl si su self fu,
  use_chain_b s fl si su self fu = true -> use_chain_ok s si su self fu.
Proof.
  intros s fl si su self fu H. unfold use_chain_b in H.
  destruct (chain_b (use_next s) fl fu) as [l|] eqn:C; [|discriminate].
  repeat (apply andb_true_iff in H; destruct H as [H ?]).
  exists l. split; [eapply chain_b_sound; eauto|]. split; [apply nodup_b_NoDup; assumption|].
  split; [apply prevs_b_sound; assumption|].
  intros u Iu. rewrite forallb_forall in H0. specialize (H0 u Iu).
  destruct (PM.find u (s_uses s)) as [ur|] eqn:Fu; [|discriminate].
  destruct (PM.find (u_op ur) (s_ops s)) as [x|] eqn:Fx; [|discriminate].
  repeat (apply andb_true_iff in H0; destruct H0 as [H0 ?]).
  exists ur, x. split; [reflexivity|]. split; [exact Fx|].
  split; [apply negb_true_iff; exact H0|]. split; apply znth_is_sound; assumption.
Qed.

Lemma slots_b_sound : forall s fl o fuo items uses i,
  slots_b s fl o i items uses fuo = true ->
  length items = length uses /\
  forall k item u, nth_error items k = Some item -> nth_error uses k = Some u ->
    (exists ur, PM.find u (s_uses s) = Some ur /\ u_op ur = o /\ u_idx ur = i + Z.of_nat k) /\
    (exists fu l, fuo item = Some fu /\ chain (use_next s) fu l /\ In u l).
Proof.
  intros s fl o fuo items. induction items as [|item ri IH]; intros uses i H; destruct uses as [|u ru]; simpl in H; try discriminate.
  - split; [reflexivity|]. intros k item u Hk. destruct k; discriminate.
  - repeat (apply andb_true_iff in H; destruct H as [H ?]).
    destruct (IH _ _ H0) as [L R]. split; [simpl; congruence|].
    intros k item' u' Hk Hu. destruct k as [|k]; simpl in Hk, Hu.
    + inversion Hk; inversion Hu; subst. split.
      * destruct (PM.find u' (s_uses s)) as [ur|]; [|discriminate].
        apply andb_true_iff in H. destruct H as [Ha Hb].
        exists ur. split; [reflexivity|]. split; [apply Pos.eqb_eq; exact Ha|]. apply Z.eqb_eq in Hb. lia.
      * destruct (fuo item') as [fu|]; [|discriminate].
        destruct (chain_b (use_next s) fl fu) as [l|] eqn:C; [|discriminate].
        exists fu, l. split; [reflexivity|]. split; [eapply chain_b_sound; eauto|apply mem_In; assumption].
    + destruct (R k item' u' Hk Hu) as [(ur & F1 & F2 & F3) R2]. split; [|exact R2].
      exists ur. repeat split; try assumption. lia.
Qed.

Lemma kind_eqb_eq : forall a b, kind_eqb a b = true -> a = b.
Proof.
  intros [o i|b i|v] [o' i'|b' i'|v']; simpl; intro H; try discriminate.
  - apply andb_true_iff in H. destruct H as [H1 H2]. apply Pos.eqb_eq in H1. apply Z.eqb_eq in H2. congruence.
  - apply andb_true_iff in H. destruct H as [H1 H2]. apply Pos.eqb_eq in H1. apply Z.eqb_eq in H2. congruence.
  - apply Pos.eqb_eq in H. congruence.
Qed.

Lemma indexed_b_sound : forall s mk l i, indexed_b s mk i l = true ->
  forall k v, nth_error l k = Some v -> exists vr, PM.find v (s_values s) = Some vr /\ v_kind vr = mk (i + Z.of_nat k).
Proof.
  intros s mk l. induction l as [|v r IH]; intros i H k v' Hk; simpl in H.
  - destruct k; discriminate.
  - apply andb_true_iff in H. destruct H as [H1 H2]. destruct k as [|k]; simpl in Hk.
    + inversion Hk; subst. destruct (PM.find v' (s_values s)) as [vr|]; [|discriminate].
      exists vr. split; [reflexivity|]. apply kind_eqb_eq in H1. rewrite H1. f_equal. lia.
    + destruct (IH _ H2 k v' Hk) as (vr & F & K). exists vr. split; [exact F|]. rewrite K. f_equal. lia.
Qed.

Lemma below_b_sound : forall {R} (tbl : PM.t R) n, below_b tbl n = true -> below tbl n.
Proof.
  intros R tbl n H i x F. pose proof (forallb_elements _ _ H i x F) as Hb. simpl in Hb.
  apply Pos.ltb_lt. exact Hb.
Qed.

Theorem wf_b_sound : forall s, wf_b s = true -> WF s.
Proof.
  intros s H. unfold wf_b in H.
  apply andb_true_iff in H; destruct H as [H Hbu].
  apply andb_true_iff in H; destruct H as [H Hbv].
  apply andb_true_iff in H; destruct H as [H Hbr].
  apply andb_true_iff in H; destruct H as [H Hbb].
  apply andb_true_iff in H; destruct H as [H Hbo].
  apply andb_true_iff in H; destruct H as [H Hdetb].
  apply andb_true_iff in H; destruct H as [H Hdeto].
  apply andb_true_iff in H; destruct H as [H Hdisj].
  apply andb_true_iff in H; destruct H as [H Hown].
  apply andb_true_iff in H; destruct H as [H Hargs].
  apply andb_true_iff in H; destruct H as [H Hops].
  apply andb_true_iff in H; destruct H as [H Hbuses].
  apply andb_true_iff in H; destruct H as [H Hvuses].
  apply andb_true_iff in H; destruct H as [H Hopregs].
  apply andb_true_iff in H; destruct H as [Hblk Hreg].
  constructor.
  - eapply wfb_block_sound; eauto.
  - eapply wfb_region_sound; eauto.
  - eapply wfb_opregs_sound; eauto.
  - intros v vr F. pose proof (forallb_elements _ _ Hvuses v vr F) as Hb. simpl in Hb.
    eapply use_chain_b_sound; eauto.
  - intros b br F. pose proof (forallb_elements _ _ Hbuses b br F) as Hb. simpl in Hb.
    eapply use_chain_b_sound; eauto.
  - intros o x F E. pose proof (forallb_elements _ _ Hops o x F) as Hb. simpl in Hb.
    rewrite E in Hb. simpl in Hb.
    apply andb_true_iff in Hb; destruct Hb as [Hb Hres].
    apply andb_true_iff in Hb; destruct Hb as [Hopnd Hsucc].
    destruct (slots_b_sound _ _ _ _ _ _ _ Hopnd) as [L R]. split; [exact L|].
    intros i item u Hi Hu. destruct (R i item u Hi Hu) as [(ur & F1 & F2 & F3) R2].
    split; [exists ur; repeat split; try assumption; lia|exact R2].
  - intros o x F E. pose proof (forallb_elements _ _ Hops o x F) as Hb. simpl in Hb.
    rewrite E in Hb. simpl in Hb.
    apply andb_true_iff in Hb; destruct Hb as [Hb Hres].
    apply andb_true_iff in Hb; destruct Hb as [Hopnd Hsucc].
    destruct (slots_b_sound _ _ _ _ _ _ _ Hsucc) as [L R]. split; [exact L|].
    intros i item u Hi Hu. destruct (R i item u Hi Hu) as [(ur & F1 & F2 & F3) R2].
    split; [exists ur; repeat split; try assumption; lia|exact R2].
  - intros o x F E u I1 I2. pose proof (forallb_elements _ _ Hdisj o x F) as Hb. simpl in Hb.
    rewrite E in Hb. simpl in Hb. rewrite forallb_forall in Hb. specialize (Hb u I1).
    apply negb_true_iff in Hb. apply mem_false in Hb. contradiction.
  - intros o x F E i v Hi. pose proof (forallb_elements _ _ Hops o x F) as Hb. simpl in Hb.
    rewrite E in Hb. simpl in Hb.
    apply andb_true_iff in Hb; destruct Hb as [Hb Hres].
    destruct (indexed_b_sound _ _ _ _ Hres i v Hi) as (vr & Fv & K). exists vr. split; [exact Fv|]. rewrite K. f_equal.
  - intros b br F E i v Hi. pose proof (forallb_elements _ _ Hargs b br F) as Hb. simpl in Hb.
    rewrite E in Hb. simpl in Hb.
    destruct (indexed_b_sound _ _ _ _ Hb i v Hi) as (vr & Fv & K). exists vr. split; [exact Fv|]. rewrite K. f_equal.
  - intros v vr F D. pose proof (forallb_elements _ _ Hown v vr F) as Hb. simpl in Hb.
    unfold wfb_owner in Hb. rewrite D in Hb.
    destruct (v_kind vr) as [o i|b i|old].
    + destruct (PM.find o (s_ops s)) as [x|]; [|discriminate]. exists x. split; [reflexivity|apply znth_is_sound; exact Hb].
    + destruct (PM.find b (s_blocks s)) as [x|]; [|discriminate]. exists x. split; [reflexivity|apply znth_is_sound; exact Hb].
    + exact I.
  - split.
    + intros o x F E P. pose proof (forallb_elements _ _ Hdeto o x F) as Hb. simpl in Hb.
      rewrite E, P in Hb. simpl in Hb. apply andb_true_iff in Hb. destruct Hb as [B1 B2].
      apply negb_true_iff in B1, B2. apply is_some_false in B1, B2. auto.
    + intros b x F E P. pose proof (forallb_elements _ _ Hdetb b x F) as Hb. simpl in Hb.
      rewrite E, P in Hb. simpl in Hb. apply andb_true_iff in Hb. destruct Hb as [B1 B2].
      apply negb_true_iff in B1, B2. apply is_some_false in B1, B2. auto.
  - repeat split; apply below_b_sound; assumption.
Qed.
