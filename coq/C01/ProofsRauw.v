(* C01/ProofsRauw.v -- WF is preserved by SSAValue.replace_all_uses_with and
   SSAValue.replace_uses_with_if (loops of OpOperands.__setitem__ over a snapshot of the use list). *)
From Coq Require Import ZArith List Bool PArith FMapPositive Lia.
From XV Require Import C01.Model C01.Spec C01.ProofsBase C01.ProofsFrame C01.ProofsUses C01.ProofsOperands.
Import ListNotations.
Local Open Scope Z_scope.

(* tuple(self.uses) *)
Lemma uses_from_chain : forall fl cur s s' us, uses_from fl cur s = (s', Ok us) ->
  s' = s /\ chain (use_next s) cur us.
Proof.
  induction fl as [|f IH]; intros cur s s' us H; simpl in H.
  - exfalso. eapply raise_ok; eauto.
  - destruct cur as [u|].
    + apply bind_ok in H as (s0 & ur & Hg & H). apply getU_ok in Hg as [-> F].
      apply bind_ok in H as (s1 & rest & Hr & H). apply ret_ok in H as [-> ->].
      destruct (IH _ _ _ _ Hr) as [-> C]. split; [reflexivity|].
      econstructor; [|exact C]. unfold use_next, link. rewrite F. reflexivity.
    + apply ret_ok in H as [-> ->]. split; [reflexivity|constructor].
Qed.

Lemma uses_of_spec : forall h s s' us, uses_of h s = (s', Ok us) ->
  s' = s /\ exists fu, hfirst s h = Some fu /\ chain (use_next s) fu us.
Proof.
  intros h s s' us H. unfold uses_of in H.
  apply bind_ok in H as (s0 & fl & Hf & H). unfold get_fuel in Hf. apply gets_ok in Hf as [-> ->].
  apply bind_ok in H as (s1 & fu & Hg & H). apply get_first_use_eff in Hg as [-> Hf].
  destruct (uses_from_chain _ _ _ _ _ H) as [-> C]. split; [reflexivity|eauto].
Qed.

(* the snapshot of the use list of a value in a WF state: distinct uses, each a real slot *)
Lemma snapshot_slots : forall s self us fu, WF s ->
  hfirst s (HV self) = Some fu -> chain (use_next s) fu us ->
  NoDup us /\ forall u, In u us -> exists o i, real_slot s (HV self) o i u.
Proof.
  intros s self us fu W Hf C.
  destruct (UWF_Uabs s (WF_UWF s W)) as [UA _].
  destruct (ua_chain _ _ UA (HV self) fu Hf) as (l & C0 & ND & _ & M).
  assert (l = us) by (eapply chain_fun; eauto). subst l. auto.
Qed.

Lemma norm_index_nonneg : forall len i, 0 <= i -> norm_index len i = i.
Proof. intros len i H. unfold norm_index. destruct (Z.ltb_spec i 0); [lia|reflexivity]. Qed.

(* one iteration: use.operation.operands[use.index] = value *)
Lemma rauw_step : forall s s1 self value u r (rest : list uid),
  WF s -> ~ In u rest ->
  (exists o i, real_slot s (HV self) o i u) ->
  (forall u', In u' rest -> exists o i, real_slot s (HV self) o i u') ->
  (ur <- getU u ;; operands_setitem (u_op ur) (u_idx ur) value) s = (s1, Ok r) ->
  WF s1 /\ (forall u', In u' rest -> exists o i, real_slot s1 (HV self) o i u').
Proof.
  intros s s1 self value u r rest W NI (o & i & R) INV H.
  destruct (UWF_Uabs s (WF_UWF s W)) as [UA _].
  destruct (ua_slot _ _ UA _ _ _ _ R) as [Inf _].
  apply bind_ok in H as (s0 & ur & Hg & H). apply getU_ok in Hg as [-> Fu].
  unfold use_info in Inf. rewrite Fu in Inf. simpl in Inf. injection Inf as E1 E2. rewrite E1, E2 in H.
  pose proof R as (x0 & Fx0 & Ex0 & Z1 & Z2). simpl in Z1, Z2.
  destruct (operands_setitem_core s s1 o x0 i value r W Fx0 Ex0 H) as (_ & _ & u0 & Zu0 & SL).
  pose proof (znth_lt _ _ _ Z1) as Ri.
  rewrite norm_index_nonneg in Zu0, SL by lia. rewrite Z2 in Zu0. injection Zu0 as <-.
  split.
  - eapply operands_setitem_WF; eauto. exists x0. auto.
  - intros u' Iu'. destruct (INV u' Iu') as (o' & i' & R'). exists o', i'. apply SL. left. split; [exact R'|].
    intro E. subst u'. contradiction.
Qed.

Lemma rauw_loop_WF : forall us s s' self value r,
  WF s -> NoDup us -> (forall u, In u us -> exists o i, real_slot s (HV self) o i u) ->
  forM us (fun u => ur <- getU u ;; operands_setitem (u_op ur) (u_idx ur) value) s = (s', Ok r) -> WF s'.
Proof.
  induction us as [|u rest IH]; intros s s' self value r W ND INV H; simpl in H.
  - apply ret_ok in H as [-> _]. exact W.
  - apply bind_ok in H as (s1 & ? & H1 & H2). inversion ND; subst.
    destruct (rauw_step s s1 self value u _ rest W H3 (INV u (or_introl eq_refl))
               (fun u' I => INV u' (or_intror I)) H1) as [W1 INV1].
    eapply IH; eauto.
Qed.

Theorem replace_all_uses_with_WF : forall s s' self value r,
  WF s -> replace_all_uses_with self value s = (s', Ok r) -> WF s'.
Proof.
  intros s s' self value r W H. unfold replace_all_uses_with in H.
  destruct (Pos.eqb value self); [apply ret_ok in H as [-> _]; exact W|].
  apply bind_ok in H as (s0 & us & Hu & H). destruct (uses_of_spec _ _ _ _ Hu) as [-> (fu & Hf & C)].
  apply bind_ok in H as (s1 & ? & Hl & H).
  apply bind_ok in H as (s2 & fu' & Hg & H). apply get_first_use_eff in Hg as [-> _].
  apply assert_ok in H as [-> _].
  destruct (snapshot_slots s self us fu W Hf C) as [ND INV].
  eapply rauw_loop_WF; eauto.
Qed.

Lemma rauw_if_loop_WF : forall us sel s s' self value r,
  WF s -> NoDup us -> (forall u, In u us -> exists o i, real_slot s (HV self) o i u) ->
  rauw_if_loop us sel value s = (s', Ok r) -> WF s'.
Proof.
  induction us as [|u rest IH]; intros sel s s' self value r W ND INV H; simpl in H.
  - apply ret_ok in H as [-> _]. exact W.
  - apply bind_ok in H as (s1 & ? & H1 & H2). inversion ND; subst.
    apply when_true_ok in H1. destruct H1 as [[_ H1]|[_ ->]].
    + destruct (rauw_step s s1 self value u _ rest W H3 (INV u (or_introl eq_refl))
                 (fun u' I => INV u' (or_intror I)) H1) as [W1 INV1].
      eapply IH; eauto.
    + eapply IH; eauto. intros u' I. apply INV. right. exact I.
Qed.

Theorem replace_uses_with_if_WF : forall s s' self value sel r,
  WF s -> replace_uses_with_if self value sel s = (s', Ok r) -> WF s'.
Proof.
  intros s s' self value sel r W H. unfold replace_uses_with_if in H.
  apply bind_ok in H as (s0 & us & Hu & H). destruct (uses_of_spec _ _ _ _ Hu) as [-> (fu & Hf & C)].
  destruct (snapshot_slots s self us fu W Hf C) as [ND INV].
  eapply rauw_if_loop_WF; eauto.
Qed.

(* ------------------------------------------------------------------ allocation of a fresh value *)

Lemma fresh_value : forall s, WF s -> PM.find (n_value s) (s_values s) = None.
Proof.
  intros s W. destruct (wf_alloc s W) as (_ & _ & _ & B & _).
  destruct (PM.find (n_value s) (s_values s)) as [x|] eqn:F; [|reflexivity].
  specialize (B _ _ F). lia.
Qed.

Lemma prevs_ok_uses_eq : forall s s' l p, s_uses s' = s_uses s -> prevs_ok s p l -> prevs_ok s' p l.
Proof.
  intros s s' l. induction l as [|u r IH]; intros p E H; simpl in *; [exact I|].
  destruct H as [(ur & F & Q) H2]. split; [exists ur; rewrite E; auto|apply IH; assumption].
Qed.

(* a new value without uses whose record makes WF_owner trivially true (erased placeholder, or dead) *)
Lemma allocV_WF : forall s s' rec e,
  WF s -> v_first_use rec = None ->
  (v_dead rec = true \/ exists old, v_kind rec = KErased old) ->
  allocV rec s = (s', Ok e) -> WF s' /\ e = n_value s.
Proof.
  intros s s' rec e W FU OWN H. unfold allocV in H. injection H as <- <-. split; [|reflexivity].
  pose proof (fresh_value s W) as FR. set (e := n_value s) in *.
  assert (FO : forall v x, PM.find v (s_values s) = Some x -> PM.find v (PM.add e rec (s_values s)) = Some x).
  { intros v x F. rewrite find_add. destruct (Pos.eqb_spec v e); [subst; congruence|exact F]. }
  destruct W. constructor.
  - exact wf_block.
  - exact wf_region.
  - exact wf_opregs.
  - intros v vr F. simpl in F. rewrite find_add in F. destruct (Pos.eqb_spec v e) as [->|N].
    + injection F as <-. rewrite FU. exists []. repeat split; try constructor. intros u [].
    + destruct (wf_vuses v vr F) as (l & C & ND & P & M). exists l.
      split; [exact C|]. split; [exact ND|]. split; [|exact M].
      eapply prevs_ok_uses_eq; [|exact P]. reflexivity.
  - intros b br F. destruct (wf_buses b br F) as (l & C & ND & P & M). exists l.
    split; [exact C|]. split; [exact ND|]. split; [|exact M].
    eapply prevs_ok_uses_eq; [|exact P]. reflexivity.
  - intros o x F E. destruct (wf_operands o x F E) as [L R]. split; [exact L|].
    intros i item u N1 N2. destruct (R i item u N1 N2) as [A (fu & l & Hf & C & I)]. split; [exact A|].
    exists fu, l. split; [|auto]. unfold link in *. simpl.
    destruct (PM.find item (s_values s)) as [vr|] eqn:Fv; [|discriminate]. rewrite (FO _ _ Fv). exact Hf.
  - exact wf_successors.
  - exact wf_disjoint.
  - intros o x F E i v N. destruct (wf_results o x F E i v N) as (vr & Fv & K). exists vr. split; [apply FO; exact Fv|exact K].
  - intros b x F E i v N. destruct (wf_args b x F E i v N) as (vr & Fv & K). exists vr. split; [apply FO; exact Fv|exact K].
  - intros v vr F D. simpl in F. rewrite find_add in F. destruct (Pos.eqb_spec v e) as [->|N].
    + injection F as <-. destruct OWN as [OD|(old & K)]; [congruence|rewrite K; exact I].
    + exact (wf_owner v vr F D).
  - exact wf_detached.
  - destruct wf_alloc as (B1 & B2 & B3 & B4 & B5). repeat split; try assumption.
    intros i x F. simpl in F. rewrite find_add in F. simpl. destruct (Pos.eqb_spec i e) as [->|N]; [lia|].
    specialize (B4 _ _ F). fold e in B4. lia.
Qed.

(* SSAValue.erase *)
Theorem value_erase_WF : forall s s' self safe r,
  WF s -> value_erase self safe s = (s', Ok r) -> WF s'.
Proof.
  intros s s' self safe r W H. unfold value_erase in H.
  apply bind_ok in H as (s0 & fu & Hg & H). apply get_first_use_eff in Hg as [-> _].
  destruct (safe && is_some fu); [exfalso; eapply raise_ok; eauto|].
  apply bind_ok in H as (s1 & e & Ha & H).
  destruct (allocV_WF s s1 (mkValue (KErased self) None false) e W eq_refl (or_intror (ex_intro _ self eq_refl)) Ha) as [W1 _].
  eapply replace_all_uses_with_WF; eauto.
Qed.

(* PatternRewriter.replace_all_uses_with / replace_uses_with_if *)
Theorem pr_replace_all_uses_with_WF : forall s s' v w safe r,
  WF s -> pr_replace_all_uses_with v w safe s = (s', Ok r) -> WF s'.
Proof.
  intros s s' v w safe r W H. unfold pr_replace_all_uses_with in H. destruct w as [t|].
  - destruct (Pos.eqb v t); [apply ret_ok in H as [-> _]; exact W|eapply replace_all_uses_with_WF; eauto].
  - eapply value_erase_WF; eauto.
Qed.

Theorem pr_replace_uses_with_if_WF : forall s s' v w sel r,
  WF s -> pr_replace_uses_with_if v w sel s = (s', Ok r) -> WF s'.
Proof.
  intros s s' v w sel r W H. unfold pr_replace_uses_with_if in H.
  destruct (Pos.eqb v w); [apply ret_ok in H as [-> _]; exact W|eapply replace_uses_with_if_WF; eauto].
Qed.
