(* C01/Model.v -- executable model of the mutable IR core of xDSL
   (xdsl/ir/core.py, xdsl/rewriter.py, xdsl/pattern_rewriter.py, Builder.create_block).

   Definitions ONLY (no proofs).  The heap mirrors core.py field by field:

     Operation : _operands _operand_uses results _successors _successor_uses regions
                 parent _next_op _prev_op
     Block     : _args _first_op _last_op _next_block _prev_block parent first_use
     Region    : _first_block _last_block parent
     SSAValue  : OpResult(op,index) | BlockArgument(block,index) | ErasedSSAValue(old_value)
                 + first_use
     Use       : _operation _index _prev_use _next_use

   Object identity = `positive` ids, one counter per class, allocated in the order in
   which the Python code creates the objects.  Every mutator is written statement by
   statement, in the order of the Python source; a raising call returns the state as
   the Python code leaves it (the state monad below keeps the state on `Raise`).

   NOT modelled (opaque, irrelevant to the property): name hints, types, attributes,
   properties, locations, listener notifications / has_done_action of PatternRewriter.

   Ghost fields (no Python counterpart): `o_erased/b_erased/r_erased/v_dead`.  They are set
   by the erase functions when they complete successfully (`kill`), for the sub-tree
   walked at entry of the erase function; the harness keeps the same marks by wrapping
   the same methods.  No mutator ever reads them. *)
From Coq Require Import ZArith List Bool PArith FMapPositive.
Import ListNotations.
Local Open Scope Z_scope.

Module PM := PositiveMap.

Definition oid := positive.
Definition bid := positive.
Definition rid := positive.
Definition vid := positive.
Definition uid := positive.

(* ------------------------------------------------------------------ records *)

Inductive vkind :=
| KRes (o : oid) (i : Z)        (* OpResult(op, index) *)
| KArg (b : bid) (i : Z)        (* BlockArgument(block, index) *)
| KErased (old : vid).          (* ErasedSSAValue(old_value) *)

Record op_rec := mkOp {
  o_operands : list vid;
  o_operand_uses : list uid;
  o_results : list vid;
  o_successors : list bid;
  o_successor_uses : list uid;
  o_regions : list rid;
  o_parent : option bid;
  o_next : option oid;
  o_prev : option oid;
  o_erased : bool }.

Record block_rec := mkBlock {
  b_args : list vid;
  b_first_op : option oid;
  b_last_op : option oid;
  b_next : option bid;
  b_prev : option bid;
  b_parent : option rid;
  b_first_use : option uid;
  b_erased : bool }.

Record region_rec := mkRegion {
  r_first : option bid;
  r_last : option bid;
  r_parent : option oid;
  r_erased : bool }.

Record value_rec := mkValue {
  v_kind : vkind;
  v_first_use : option uid;
  v_dead : bool }.

Record use_rec := mkUse {
  u_op : oid;
  u_idx : Z;
  u_prev : option uid;
  u_next : option uid }.

Record state := mkState {
  s_ops : PM.t op_rec;
  s_blocks : PM.t block_rec;
  s_regions : PM.t region_rec;
  s_values : PM.t value_rec;
  s_uses : PM.t use_rec;
  n_op : positive;
  n_block : positive;
  n_region : positive;
  n_value : positive;
  n_use : positive }.

Definition empty_state : state :=
  mkState (PM.empty _) (PM.empty _) (PM.empty _) (PM.empty _) (PM.empty _) 1 1 1 1 1.

(* field setters *)
Definition set_o_operands x r := mkOp x (o_operand_uses r) (o_results r) (o_successors r) (o_successor_uses r) (o_regions r) (o_parent r) (o_next r) (o_prev r) (o_erased r).
Definition set_o_operand_uses x r := mkOp (o_operands r) x (o_results r) (o_successors r) (o_successor_uses r) (o_regions r) (o_parent r) (o_next r) (o_prev r) (o_erased r).
Definition set_o_results x r := mkOp (o_operands r) (o_operand_uses r) x (o_successors r) (o_successor_uses r) (o_regions r) (o_parent r) (o_next r) (o_prev r) (o_erased r).
Definition set_o_successors x r := mkOp (o_operands r) (o_operand_uses r) (o_results r) x (o_successor_uses r) (o_regions r) (o_parent r) (o_next r) (o_prev r) (o_erased r).
Definition set_o_successor_uses x r := mkOp (o_operands r) (o_operand_uses r) (o_results r) (o_successors r) x (o_regions r) (o_parent r) (o_next r) (o_prev r) (o_erased r).
Definition set_o_regions x r := mkOp (o_operands r) (o_operand_uses r) (o_results r) (o_successors r) (o_successor_uses r) x (o_parent r) (o_next r) (o_prev r) (o_erased r).
Definition set_o_parent x r := mkOp (o_operands r) (o_operand_uses r) (o_results r) (o_successors r) (o_successor_uses r) (o_regions r) x (o_next r) (o_prev r) (o_erased r).
Definition set_o_next x r := mkOp (o_operands r) (o_operand_uses r) (o_results r) (o_successors r) (o_successor_uses r) (o_regions r) (o_parent r) x (o_prev r) (o_erased r).
Definition set_o_prev x r := mkOp (o_operands r) (o_operand_uses r) (o_results r) (o_successors r) (o_successor_uses r) (o_regions r) (o_parent r) (o_next r) x (o_erased r).
Definition set_o_erased x r := mkOp (o_operands r) (o_operand_uses r) (o_results r) (o_successors r) (o_successor_uses r) (o_regions r) (o_parent r) (o_next r) (o_prev r) x.

Definition set_b_args x r := mkBlock x (b_first_op r) (b_last_op r) (b_next r) (b_prev r) (b_parent r) (b_first_use r) (b_erased r).
Definition set_b_first_op x r := mkBlock (b_args r) x (b_last_op r) (b_next r) (b_prev r) (b_parent r) (b_first_use r) (b_erased r).
Definition set_b_last_op x r := mkBlock (b_args r) (b_first_op r) x (b_next r) (b_prev r) (b_parent r) (b_first_use r) (b_erased r).
Definition set_b_next x r := mkBlock (b_args r) (b_first_op r) (b_last_op r) x (b_prev r) (b_parent r) (b_first_use r) (b_erased r).
Definition set_b_prev x r := mkBlock (b_args r) (b_first_op r) (b_last_op r) (b_next r) x (b_parent r) (b_first_use r) (b_erased r).
Definition set_b_parent x r := mkBlock (b_args r) (b_first_op r) (b_last_op r) (b_next r) (b_prev r) x (b_first_use r) (b_erased r).
Definition set_b_first_use x r := mkBlock (b_args r) (b_first_op r) (b_last_op r) (b_next r) (b_prev r) (b_parent r) x (b_erased r).
Definition set_b_erased x r := mkBlock (b_args r) (b_first_op r) (b_last_op r) (b_next r) (b_prev r) (b_parent r) (b_first_use r) x.

Definition set_r_first x r := mkRegion x (r_last r) (r_parent r) (r_erased r).
Definition set_r_last x r := mkRegion (r_first r) x (r_parent r) (r_erased r).
Definition set_r_parent x r := mkRegion (r_first r) (r_last r) x (r_erased r).
Definition set_r_erased x r := mkRegion (r_first r) (r_last r) (r_parent r) x.

Definition set_v_kind x r := mkValue x (v_first_use r) (v_dead r).
Definition set_v_first_use x r := mkValue (v_kind r) x (v_dead r).
Definition set_v_dead x r := mkValue (v_kind r) (v_first_use r) x.

Definition set_u_prev x r := mkUse (u_op r) (u_idx r) x (u_next r).
Definition set_u_next x r := mkUse (u_op r) (u_idx r) (u_prev r) x.

Definition with_ops x s := mkState x (s_blocks s) (s_regions s) (s_values s) (s_uses s) (n_op s) (n_block s) (n_region s) (n_value s) (n_use s).
Definition with_blocks x s := mkState (s_ops s) x (s_regions s) (s_values s) (s_uses s) (n_op s) (n_block s) (n_region s) (n_value s) (n_use s).
Definition with_regions x s := mkState (s_ops s) (s_blocks s) x (s_values s) (s_uses s) (n_op s) (n_block s) (n_region s) (n_value s) (n_use s).
Definition with_values x s := mkState (s_ops s) (s_blocks s) (s_regions s) x (s_uses s) (n_op s) (n_block s) (n_region s) (n_value s) (n_use s).
Definition with_uses x s := mkState (s_ops s) (s_blocks s) (s_regions s) (s_values s) x (n_op s) (n_block s) (n_region s) (n_value s) (n_use s).

(* ------------------------------------------------------------------ monad *)

Inductive exn :=
| ValueError | IndexError | AssertionError | StopIteration
| BadCall      (* an id that names no object / an argument of the wrong class: no Python counterpart *)
| OutOfFuel.   (* a modelled loop exhausted its fuel (Python would not terminate) *)

Inductive res (A : Type) := Ok (a : A) | Raise (e : exn).
Arguments Ok {A} a.
Arguments Raise {A} e.

Definition M (A : Type) := state -> state * res A.
Definition ret {A} (a : A) : M A := fun s => (s, Ok a).
Definition raise {A} (e : exn) : M A := fun s => (s, Raise e).
Definition bind {A B} (m : M A) (f : A -> M B) : M B :=
  fun s => match m s with
           | (s', Ok a) => f a s'
           | (s', Raise e) => (s', Raise e)
           end.
Notation "x <- m ;; f" := (bind m (fun x => f)) (at level 61, m at next level, right associativity).
Notation "m ;;; f" := (bind m (fun _ => f)) (at level 61, right associativity).
Definition gets {A} (f : state -> A) : M A := fun s => (s, Ok (f s)).
Definition when (b : bool) (m : M unit) : M unit := if b then m else ret tt.
Definition assert_ (b : bool) : M unit := if b then ret tt else raise AssertionError.

Fixpoint forM {A} (l : list A) (f : A -> M unit) : M unit :=
  match l with
  | [] => ret tt
  | x :: r => f x ;;; forM r f
  end.

(* Python zip: stops at the shorter list *)
Fixpoint zip {A B} (l : list A) (l' : list B) : list (A * B) :=
  match l, l' with
  | x :: r, y :: r' => (x, y) :: zip r r'
  | _, _ => []
  end.

(* ------------------------------------------------------------------ table access *)

Definition getO (o : oid) : M op_rec :=
  fun s => match PM.find o (s_ops s) with Some r => (s, Ok r) | None => (s, Raise BadCall) end.
Definition getB (b : bid) : M block_rec :=
  fun s => match PM.find b (s_blocks s) with Some r => (s, Ok r) | None => (s, Raise BadCall) end.
Definition getR (r : rid) : M region_rec :=
  fun s => match PM.find r (s_regions s) with Some x => (s, Ok x) | None => (s, Raise BadCall) end.
Definition getV (v : vid) : M value_rec :=
  fun s => match PM.find v (s_values s) with Some x => (s, Ok x) | None => (s, Raise BadCall) end.
Definition getU (u : uid) : M use_rec :=
  fun s => match PM.find u (s_uses s) with Some x => (s, Ok x) | None => (s, Raise BadCall) end.

Definition updO (o : oid) (f : op_rec -> op_rec) : M unit :=
  fun s => match PM.find o (s_ops s) with
           | Some r => (with_ops (PM.add o (f r) (s_ops s)) s, Ok tt)
           | None => (s, Raise BadCall) end.
Definition updB (b : bid) (f : block_rec -> block_rec) : M unit :=
  fun s => match PM.find b (s_blocks s) with
           | Some r => (with_blocks (PM.add b (f r) (s_blocks s)) s, Ok tt)
           | None => (s, Raise BadCall) end.
Definition updR (r : rid) (f : region_rec -> region_rec) : M unit :=
  fun s => match PM.find r (s_regions s) with
           | Some x => (with_regions (PM.add r (f x) (s_regions s)) s, Ok tt)
           | None => (s, Raise BadCall) end.
Definition updV (v : vid) (f : value_rec -> value_rec) : M unit :=
  fun s => match PM.find v (s_values s) with
           | Some x => (with_values (PM.add v (f x) (s_values s)) s, Ok tt)
           | None => (s, Raise BadCall) end.
Definition updU (u : uid) (f : use_rec -> use_rec) : M unit :=
  fun s => match PM.find u (s_uses s) with
           | Some x => (with_uses (PM.add u (f x) (s_uses s)) s, Ok tt)
           | None => (s, Raise BadCall) end.

Definition allocO (r : op_rec) : M oid :=
  fun s => let o := n_op s in
           (mkState (PM.add o r (s_ops s)) (s_blocks s) (s_regions s) (s_values s) (s_uses s)
                    (Pos.succ o) (n_block s) (n_region s) (n_value s) (n_use s), Ok o).
Definition allocB (r : block_rec) : M bid :=
  fun s => let b := n_block s in
           (mkState (s_ops s) (PM.add b r (s_blocks s)) (s_regions s) (s_values s) (s_uses s)
                    (n_op s) (Pos.succ b) (n_region s) (n_value s) (n_use s), Ok b).
Definition allocR (x : region_rec) : M rid :=
  fun s => let r := n_region s in
           (mkState (s_ops s) (s_blocks s) (PM.add r x (s_regions s)) (s_values s) (s_uses s)
                    (n_op s) (n_block s) (Pos.succ r) (n_value s) (n_use s), Ok r).
Definition allocV (x : value_rec) : M vid :=
  fun s => let v := n_value s in
           (mkState (s_ops s) (s_blocks s) (s_regions s) (PM.add v x (s_values s)) (s_uses s)
                    (n_op s) (n_block s) (n_region s) (Pos.succ v) (n_use s), Ok v).
Definition allocU (x : use_rec) : M uid :=
  fun s => let u := n_use s in
           (mkState (s_ops s) (s_blocks s) (s_regions s) (s_values s) (PM.add u x (s_uses s))
                    (n_op s) (n_block s) (n_region s) (n_value s) (Pos.succ u), Ok u).

(* fuel for every modelled loop over a linked structure: more than the number of allocated
   objects (times two, for the tree walks that alternate chain and nesting steps) *)
Definition fuel_of (s : state) : nat :=
  2 * (Pos.to_nat (n_op s) + Pos.to_nat (n_block s) + Pos.to_nat (n_region s)
       + Pos.to_nat (n_value s) + Pos.to_nat (n_use s)) + 8.
Definition get_fuel : M nat := gets fuel_of.

(* ------------------------------------------------------------------ Python sequence semantics *)

Definition zlen {A} (l : list A) : Z := Z.of_nat (length l).

(* tuple/list indexing with an int: negative indices count from the end; IndexError outside *)
Definition py_norm (len i : Z) : option Z :=
  if i <? 0 then (if i + len <? 0 then None else Some (i + len))
  else if i <? len then Some i else None.
Definition py_index {A} (l : list A) (i : Z) : option A :=
  match py_norm (zlen l) i with
  | Some k => nth_error l (Z.to_nat k)
  | None => None
  end.
(* slice bounds: l[:i] and l[i:] (negative bound counts from the end, then clamped) *)
Definition py_clamp (len i : Z) : Z :=
  if i <? 0 then Z.max 0 (i + len) else Z.min i len.
Definition py_slice_to {A} (l : list A) (i : Z) : list A := firstn (Z.to_nat (py_clamp (zlen l) i)) l.
Definition py_slice_from {A} (l : list A) (i : Z) : list A := skipn (Z.to_nat (py_clamp (zlen l) i)) l.

Definition index_or_raise {A} (l : list A) (i : Z) : M A :=
  match py_index l i with Some x => ret x | None => raise IndexError end.

Fixpoint range_from (start : Z) (n : nat) : list Z :=
  match n with O => [] | S k => start :: range_from (start + 1) k end.

Definition opt_eqb (a b : option positive) : bool :=
  match a, b with
  | None, None => true
  | Some x, Some y => Pos.eqb x y
  | _, _ => false
  end.
Definition is_some {A} (o : option A) : bool := match o with Some _ => true | None => false end.

(* ------------------------------------------------------------------ IRWithUses (SSAValue and Block) *)

Inductive holder := HV (v : vid) | HB (b : bid).

Definition get_first_use (h : holder) : M (option uid) :=
  match h with
  | HV v => x <- getV v ;; ret (v_first_use x)
  | HB b => x <- getB b ;; ret (b_first_use x)
  end.
Definition set_first_use (h : holder) (u : option uid) : M unit :=
  match h with
  | HV v => updV v (set_v_first_use u)
  | HB b => updB b (set_b_first_use u)
  end.

(* IRWithUses.add_use *)
Definition add_use (h : holder) (u : uid) : M unit :=
  first_use <- get_first_use h ;;
  updU u (set_u_next first_use) ;;;
  updU u (set_u_prev None) ;;;
  match first_use with
  | Some f => updU f (set_u_prev (Some u))
  | None => ret tt
  end ;;;
  set_first_use h (Some u).

(* IRWithUses.remove_use *)
Definition remove_use (h : holder) (u : uid) : M unit :=
  ur <- getU u ;;
  let prev_use := u_prev ur in
  let next_use := u_next ur in
  match prev_use with
  | Some p => updU p (set_u_next next_use)
  | None => ret tt
  end ;;;
  match next_use with
  | Some n => updU n (set_u_prev prev_use)
  | None => ret tt
  end ;;;
  match prev_use with
  | None => set_first_use h next_use
  | Some _ => ret tt
  end.

(* tuple(self.uses): snapshot of the use chain *)
Fixpoint uses_from (fuel : nat) (cur : option uid) : M (list uid) :=
  match fuel with
  | O => raise OutOfFuel
  | S f =>
      match cur with
      | None => ret []
      | Some u => ur <- getU u ;; rest <- uses_from f (u_next ur) ;; ret (u :: rest)
      end
  end.
Definition uses_of (h : holder) : M (list uid) :=
  fl <- get_fuel ;; fu <- get_first_use h ;; uses_from fl fu.

(* ------------------------------------------------------------------ OpOperands / OpSuccessors *)

(* OpOperands.__setitem__(idx, operand)   [core.py after fix f198beb: the index is normalised,
   IndexError when it is out of range, as tuple indexing does] *)
Definition norm_index (len idx : Z) : Z := if idx <? 0 then idx + len else idx.
Definition operands_setitem (o : oid) (idx : Z) (operand : vid) : M unit :=
  orec <- getO o ;;
  let operands := o_operands orec in
  let operand_uses := o_operand_uses orec in
  let idx := norm_index (zlen operands) idx in
  if negb ((0 <=? idx) && (idx <? zlen operands)) then raise IndexError else
  old <- index_or_raise operands idx ;;
  u <- index_or_raise operand_uses idx ;;
  remove_use (HV old) u ;;;
  add_use (HV operand) u ;;;
  updO o (set_o_operands (py_slice_to operands idx ++ operand :: py_slice_from operands (idx + 1))).

(* OpSuccessors.__setitem__(idx, successor) *)
Definition successors_setitem (o : oid) (idx : Z) (successor : bid) : M unit :=
  orec <- getO o ;;
  let successors := o_successors orec in
  let successor_uses := o_successor_uses orec in
  let idx := norm_index (zlen successors) idx in
  if negb ((0 <=? idx) && (idx <? zlen successors)) then raise IndexError else
  old <- index_or_raise successors idx ;;
  u <- index_or_raise successor_uses idx ;;
  remove_use (HB old) u ;;;
  add_use (HB successor) u ;;;
  updO o (set_o_successors (py_slice_to successors idx ++ successor :: py_slice_from successors (idx + 1))).

(* the code BEFORE fix f198beb (kept only for the recorded refutation): the slices are taken with the
   raw idx, so a negative idx builds ops[:idx] ++ [operand] ++ ops[idx+1:] with Python slice bounds *)
Definition operands_setitem_old (o : oid) (idx : Z) (operand : vid) : M unit :=
  orec <- getO o ;;
  let operands := o_operands orec in
  let operand_uses := o_operand_uses orec in
  old <- index_or_raise operands idx ;;
  u <- index_or_raise operand_uses idx ;;
  remove_use (HV old) u ;;;
  add_use (HV operand) u ;;;
  updO o (set_o_operands (py_slice_to operands idx ++ operand :: py_slice_from operands (idx + 1))).
Definition successors_setitem_old (o : oid) (idx : Z) (successor : bid) : M unit :=
  orec <- getO o ;;
  let successors := o_successors orec in
  let successor_uses := o_successor_uses orec in
  old <- index_or_raise successors idx ;;
  u <- index_or_raise successor_uses idx ;;
  remove_use (HB old) u ;;;
  add_use (HB successor) u ;;;
  updO o (set_o_successors (py_slice_to successors idx ++ successor :: py_slice_from successors (idx + 1))).

(* tuple(Use(self, idx) for idx in range(len(new))) *)
Fixpoint alloc_uses (o : oid) (idxs : list Z) : M (list uid) :=
  match idxs with
  | [] => ret []
  | i :: r => u <- allocU (mkUse o i None None) ;; us <- alloc_uses o r ;; ret (u :: us)
  end.

(* Operation.operands setter *)
Definition set_operands (o : oid) (new : list vid) : M unit :=
  new_uses <- alloc_uses o (range_from 0 (length new)) ;;
  orec <- getO o ;;
  forM (zip (o_operands orec) (o_operand_uses orec)) (fun p => remove_use (HV (fst p)) (snd p)) ;;;
  forM (zip new new_uses) (fun p => add_use (HV (fst p)) (snd p)) ;;;
  updO o (set_o_operands new) ;;;
  updO o (set_o_operand_uses new_uses).

(* Operation.successors setter *)
Definition set_successors (o : oid) (new : list bid) : M unit :=
  new_uses <- alloc_uses o (range_from 0 (length new)) ;;
  orec <- getO o ;;
  forM (zip (o_successors orec) (o_successor_uses orec)) (fun p => remove_use (HB (fst p)) (snd p)) ;;;
  forM (zip new new_uses) (fun p => add_use (HB (fst p)) (snd p)) ;;;
  updO o (set_o_successors new) ;;;
  updO o (set_o_successor_uses new_uses).

(* ------------------------------------------------------------------ SSAValue *)

(* SSAValue.replace_all_uses_with *)
Definition replace_all_uses_with (self value : vid) : M unit :=
  if Pos.eqb value self then ret tt else
  us <- uses_of (HV self) ;;
  forM us (fun u => ur <- getU u ;; operands_setitem (u_op ur) (u_idx ur) value) ;;;
  fu <- get_first_use (HV self) ;;
  assert_ (negb (is_some fu)).

(* SSAValue.replace_uses_with_if; the predicate is given extensionally as the list of its
   answers, in the order in which it is asked (missing answers are False) *)
Fixpoint rauw_if_loop (us : list uid) (sel : list bool) (value : vid) : M unit :=
  match us with
  | [] => ret tt
  | u :: r =>
      let b := match sel with b :: _ => b | [] => false end in
      when b (ur <- getU u ;; operands_setitem (u_op ur) (u_idx ur) value) ;;;
      rauw_if_loop r (tl sel) value
  end.
Definition replace_uses_with_if (self value : vid) (sel : list bool) : M unit :=
  us <- uses_of (HV self) ;;
  rauw_if_loop us sel value.

(* SSAValue.erase *)
Definition value_erase (self : vid) (safe_erase : bool) : M unit :=
  fu <- get_first_use (HV self) ;;
  if safe_erase && is_some fu then raise ValueError else
  e <- allocV (mkValue (KErased self) None false) ;;
  replace_all_uses_with self e.

(* ------------------------------------------------------------------ _IRNode.is_ancestor *)

Inductive node := NOp (o : oid) | NBlock (b : bid) | NRegion (r : rid).
Definition node_eqb (a b : node) : bool :=
  match a, b with
  | NOp x, NOp y | NBlock x, NBlock y | NRegion x, NRegion y => Pos.eqb x y
  | _, _ => false
  end.
Definition parent_node (n : node) : M (option node) :=
  match n with
  | NOp o => x <- getO o ;; ret (option_map NBlock (o_parent x))
  | NBlock b => x <- getB b ;; ret (option_map NRegion (b_parent x))
  | NRegion r => x <- getR r ;; ret (option_map NOp (r_parent x))
  end.
Fixpoint is_ancestor_loop (fuel : nat) (self : node) (curr : option node) : M bool :=
  match fuel with
  | O => raise OutOfFuel
  | S f =>
      match curr with
      | None => ret false
      | Some c => if node_eqb c self then ret true
                  else p <- parent_node c ;; is_ancestor_loop f self p
      end
  end.
Definition is_ancestor (self op : node) : M bool :=
  fl <- get_fuel ;; is_ancestor_loop fl self (Some op).

(* ------------------------------------------------------------------ ghost: erased marks *)

Inductive gnode := GOp (o : oid) | GBlock (b : bid) | GRegion (r : rid) | GValue (v : vid).

Fixpoint collect_op (fuel : nat) (s : state) (o : oid) : list gnode :=
  match fuel with
  | O => []
  | S f =>
      match PM.find o (s_ops s) with
      | None => []
      | Some x => GOp o :: map GValue (o_results x) ++ flat_map (collect_region f s) (o_regions x)
      end
  end
with collect_region (fuel : nat) (s : state) (r : rid) : list gnode :=
  match fuel with
  | O => []
  | S f =>
      match PM.find r (s_regions s) with
      | None => []
      | Some x => GRegion r :: collect_blocks_from f s (r_first x)
      end
  end
with collect_blocks_from (fuel : nat) (s : state) (cur : option bid) : list gnode :=
  match fuel with
  | O => []
  | S f =>
      match cur with
      | None => []
      | Some b =>
          match PM.find b (s_blocks s) with
          | None => []
          | Some x => collect_block f s b ++ collect_blocks_from f s (b_next x)
          end
      end
  end
with collect_block (fuel : nat) (s : state) (b : bid) : list gnode :=
  match fuel with
  | O => []
  | S f =>
      match PM.find b (s_blocks s) with
      | None => []
      | Some x => GBlock b :: map GValue (b_args x) ++ collect_ops_from f s (b_first_op x)
      end
  end
with collect_ops_from (fuel : nat) (s : state) (cur : option oid) : list gnode :=
  match fuel with
  | O => []
  | S f =>
      match cur with
      | None => []
      | Some o =>
          match PM.find o (s_ops s) with
          | None => []
          | Some x => collect_op f s o ++ collect_ops_from f s (o_next x)
          end
      end
  end.

Definition kill1 (g : gnode) : M unit :=
  match g with
  | GOp o => updO o (set_o_erased true)
  | GBlock b => updB b (set_b_erased true)
  | GRegion r => updR r (set_r_erased true)
  | GValue v => updV v (set_v_dead true)
  end.
Definition kill (l : list gnode) : M unit := forM l kill1.

(* ------------------------------------------------------------------ Operation *)

(* Operation.add_region *)
Definition add_region (o : oid) (r : rid) : M unit :=
  rr <- getR r ;;
  if is_some (r_parent rr) then raise ValueError else
  orec <- getO o ;;
  updO o (set_o_regions (o_regions orec ++ [r])) ;;;
  updR r (set_r_parent (Some o)).

(* position of the first element equal to x (next(idx for ... if curr is x)) *)
Fixpoint find_index (l : list positive) (x : positive) (i : Z) : option Z :=
  match l with
  | [] => None
  | y :: r => if Pos.eqb y x then Some i else find_index r x (i + 1)
  end.

(* Operation.get_region_index *)
Definition get_region_index (o : oid) (r : rid) : M Z :=
  rr <- getR r ;;
  if negb (opt_eqb (r_parent rr) (Some o)) then raise ValueError else
  orec <- getO o ;;
  match find_index (o_regions orec) r 0 with
  | Some i => ret i
  | None => raise StopIteration
  end.

(* Operation.detach_region(region: int | Region) *)
Definition detach_region_at (o : oid) (region_idx : Z) (r : rid) : M rid :=
  updR r (set_r_parent None) ;;;
  orec <- getO o ;;
  updO o (set_o_regions (py_slice_to (o_regions orec) region_idx
                         ++ py_slice_from (o_regions orec) (region_idx + 1))) ;;;
  ret r.
Definition detach_region (o : oid) (r : rid) : M rid :=
  i <- get_region_index o r ;; detach_region_at o i r.
Definition detach_region_idx (o : oid) (idx : Z) : M rid :=
  orec <- getO o ;;
  r <- index_or_raise (o_regions orec) idx ;;
  detach_region_at o (norm_index (zlen (o_regions orec)) idx) r.      (* after fix 9351131 *)
(* the code BEFORE fix 9351131 (kept only for the recorded refutation) *)
Definition detach_region_idx_old (o : oid) (idx : Z) : M rid :=
  orec <- getO o ;;
  r <- index_or_raise (o_regions orec) idx ;;
  detach_region_at o idx r.

(* drop_all_references of Operation / Region / Block (mutually recursive tree walk).
   The block and op iterators read the `next` pointer BEFORE the body runs. *)
Fixpoint op_drop_all_references (fuel : nat) (o : oid) : M unit :=
  match fuel with
  | O => raise OutOfFuel
  | S f =>
      updO o (set_o_parent None) ;;;
      orec <- getO o ;;
      forM (zip (o_operands orec) (o_operand_uses orec)) (fun p => remove_use (HV (fst p)) (snd p)) ;;;
      updO o (set_o_operand_uses []) ;;;
      forM (zip (o_successors orec) (o_successor_uses orec)) (fun p => remove_use (HB (fst p)) (snd p)) ;;;
      updO o (set_o_successor_uses []) ;;;
      updO o (set_o_successors []) ;;;
      forM (o_regions orec) (fun r => region_drop_all_references f r)
  end
with region_drop_all_references (fuel : nat) (r : rid) : M unit :=
  match fuel with
  | O => raise OutOfFuel
  | S f =>
      updR r (set_r_parent None) ;;;
      rr <- getR r ;;
      blocks_drop_from f (r_first rr)
  end
with blocks_drop_from (fuel : nat) (cur : option bid) : M unit :=
  match fuel with
  | O => raise OutOfFuel
  | S f =>
      match cur with
      | None => ret tt
      | Some b =>
          br <- getB b ;;
          let nxt := b_next br in
          block_drop_all_references f b ;;;
          blocks_drop_from f nxt
      end
  end
with block_drop_all_references (fuel : nat) (b : bid) : M unit :=
  match fuel with
  | O => raise OutOfFuel
  | S f =>
      updB b (set_b_parent None) ;;;
      updB b (set_b_next None) ;;;
      updB b (set_b_prev None) ;;;
      br <- getB b ;;
      ops_drop_from f (b_first_op br)
  end
with ops_drop_from (fuel : nat) (cur : option oid) : M unit :=
  match fuel with
  | O => raise OutOfFuel
  | S f =>
      match cur with
      | None => ret tt
      | Some o =>
          orec <- getO o ;;
          let nxt := o_next orec in
          op_drop_all_references f o ;;;
          ops_drop_from f nxt
      end
  end.

(* Operation.erase(safe_erase, drop_references) *)
Definition op_erase (o : oid) (safe_erase drop_references : bool) : M unit :=
  orec <- getO o ;;
  assert_ (negb (is_some (o_parent orec))) ;;;
  dead <- gets (fun s => collect_op (fuel_of s) s o) ;;
  fl <- get_fuel ;;
  when drop_references (op_drop_all_references fl o) ;;;
  orec' <- getO o ;;
  forM (o_results orec') (fun v => value_erase v safe_erase) ;;;
  kill dead.

(* ------------------------------------------------------------------ Block *)

(* Block(arg_types) : the arguments are created in order *)
Fixpoint alloc_args (b : bid) (idxs : list Z) : M (list vid) :=
  match idxs with
  | [] => ret []
  | i :: r => v <- allocV (mkValue (KArg b i) None false) ;; vs <- alloc_args b r ;; ret (v :: vs)
  end.

Definition add_index (d : Z) (v : vid) : M unit :=
  updV v (fun x => match v_kind x with
                   | KArg b i => set_v_kind (KArg b (i + d)) x
                   | KRes o i => set_v_kind (KRes o (i + d)) x
                   | KErased _ => x
                   end).

(* Block.insert_arg(arg_type, index) *)
Definition insert_arg (b : bid) (index : Z) : M vid :=
  br <- getB b ;;
  if (index <? 0) || (zlen (b_args br) <? index) then raise ValueError else
  new_arg <- allocV (mkValue (KArg b index) None false) ;;
  forM (py_slice_from (b_args br) index) (add_index 1) ;;;
  updB b (set_b_args (py_slice_to (b_args br) index ++ new_arg :: py_slice_from (b_args br) index)) ;;;
  ret new_arg.

(* Block.erase_arg(arg, safe_erase) *)
Definition erase_arg (b : bid) (arg : vid) (safe_erase : bool) : M unit :=
  ar <- getV arg ;;
  match v_kind ar with
  | KArg ab aidx =>
      if negb (Pos.eqb ab b) then raise ValueError else
      br <- getB b ;;
      forM (py_slice_from (b_args br) (aidx + 1)) (add_index (-1)) ;;;
      updB b (set_b_args (py_slice_to (b_args br) aidx ++ py_slice_from (b_args br) (aidx + 1))) ;;;
      value_erase arg safe_erase ;;;
      kill [GValue arg]
  | _ => raise BadCall
  end.

(* Block._attach_op *)
Definition attach_op (b : bid) (o : oid) : M unit :=
  orec <- getO o ;;
  if is_some (o_parent orec) then raise ValueError else
  anc <- is_ancestor (NOp o) (NBlock b) ;;
  if anc then raise ValueError else
  updO o (set_o_parent (Some b)).

(* Operation._insert_next_op *)
Definition insert_next_op (self new_op : oid) : M unit :=
  sr <- getO self ;;
  match o_next sr with
  | Some n => updO n (set_o_prev (Some new_op))
  | None => ret tt
  end ;;;
  updO new_op (set_o_prev (Some self)) ;;;
  sr' <- getO self ;;
  updO new_op (set_o_next (o_next sr')) ;;;
  updO self (set_o_next (Some new_op)).

(* Operation._insert_prev_op *)
Definition insert_prev_op (self new_op : oid) : M unit :=
  sr <- getO self ;;
  match o_prev sr with
  | Some p => updO p (set_o_next (Some new_op))
  | None => ret tt
  end ;;;
  sr' <- getO self ;;
  updO new_op (set_o_prev (o_prev sr')) ;;;
  updO new_op (set_o_next (Some self)) ;;;
  updO self (set_o_prev (Some new_op)).

(* Block.insert_op_after *)
Definition insert_op_after (b : bid) (new_op existing_op : oid) : M unit :=
  er <- getO existing_op ;;
  if negb (opt_eqb (o_parent er) (Some b)) then raise ValueError else
  attach_op b new_op ;;;
  er' <- getO existing_op ;;
  let next_op := o_next er' in
  insert_next_op existing_op new_op ;;;
  match next_op with
  | None => updB b (set_b_last_op (Some new_op))
  | Some _ => ret tt
  end.

(* Block.insert_op_before *)
Definition insert_op_before (b : bid) (new_op existing_op : oid) : M unit :=
  er <- getO existing_op ;;
  if negb (opt_eqb (o_parent er) (Some b)) then raise ValueError else
  attach_op b new_op ;;;
  er' <- getO existing_op ;;
  let prev_op := o_prev er' in
  insert_prev_op existing_op new_op ;;;
  match prev_op with
  | None => updB b (set_b_first_op (Some new_op))
  | Some _ => ret tt
  end.

(* Block.add_op *)
Definition add_op (b : bid) (o : oid) : M unit :=
  br <- getB b ;;
  match b_last_op br with
  | None =>
      attach_op b o ;;;
      updB b (set_b_first_op (Some o)) ;;;
      updB b (set_b_last_op (Some o))
  | Some l => insert_op_after b o l
  end.

(* Block.add_ops *)
Definition add_ops (b : bid) (ops : list oid) : M unit := forM ops (add_op b).

(* Block.insert_ops_before *)
Definition insert_ops_before (b : bid) (ops : list oid) (existing_op : oid) : M unit :=
  forM ops (fun o => insert_op_before b o existing_op).

(* Block.insert_ops_after *)
Fixpoint insert_ops_after (b : bid) (ops : list oid) (existing_op : oid) : M unit :=
  match ops with
  | [] => ret tt
  | o :: r => insert_op_after b o existing_op ;;; insert_ops_after b r o
  end.

(* Block(ops, arg_types=...) *)
Definition block_new (ops : list oid) (nargs : nat) : M bid :=
  b <- allocB (mkBlock [] None None None None None None false) ;;
  args <- alloc_args b (range_from 0 nargs) ;;
  updB b (set_b_args args) ;;;
  updB b (set_b_first_op None) ;;;
  updB b (set_b_last_op None) ;;;
  add_ops b ops ;;;
  ret b.

(* Block.detach_op *)
Definition detach_op (b : bid) (o : oid) : M oid :=
  orec <- getO o ;;
  if negb (opt_eqb (o_parent orec) (Some b)) then raise ValueError else
  updO o (set_o_parent None) ;;;
  let prev_op := o_prev orec in
  let next_op := o_next orec in
  match prev_op with
  | Some p =>
      updO p (set_o_next next_op) ;;;
      updO o (set_o_prev None)
  | None =>
      br <- getB b ;;
      assert_ (opt_eqb (b_first_op br) (Some o)) ;;;
      updB b (set_b_first_op next_op)
  end ;;;
  match next_op with
  | Some n =>
      updO n (set_o_prev prev_op) ;;;
      updO o (set_o_next None)
  | None =>
      br <- getB b ;;
      assert_ (opt_eqb (b_last_op br) (Some o)) ;;;
      updB b (set_b_last_op prev_op)
  end ;;;
  ret o.

(* Block.erase_op *)
Definition erase_op (b : bid) (o : oid) (safe_erase : bool) : M unit :=
  o' <- detach_op b o ;;
  op_erase o' safe_erase true.

(* Operation.detach *)
Definition op_detach (o : oid) : M unit :=
  orec <- getO o ;;
  match o_parent orec with
  | None => raise ValueError
  | Some b => detach_op b o ;;; ret tt
  end.

(* for op in self.ops: op.erase(safe_erase, drop_references=False) *)
Fixpoint ops_erase_from (fuel : nat) (cur : option oid) (safe_erase : bool) : M unit :=
  match fuel with
  | O => raise OutOfFuel
  | S f =>
      match cur with
      | None => ret tt
      | Some o =>
          orec <- getO o ;;
          let nxt := o_next orec in
          op_erase o safe_erase false ;;;
          ops_erase_from f nxt safe_erase
      end
  end.

(* Block.erase(safe_erase) *)
Definition block_erase (b : bid) (safe_erase : bool) : M unit :=
  br <- getB b ;;
  assert_ (negb (is_some (b_parent br))) ;;;
  dead <- gets (fun s => collect_block (fuel_of s) s b) ;;
  fl <- get_fuel ;;
  block_drop_all_references fl b ;;;
  br' <- getB b ;;
  ops_erase_from fl (b_first_op br') safe_erase ;;;
  kill dead.

(* ------------------------------------------------------------------ Region *)

(* Region._attach_block *)
Definition attach_block (r : rid) (b : bid) : M unit :=
  br <- getB b ;;
  if is_some (b_parent br) then raise ValueError else
  anc <- is_ancestor (NBlock b) (NRegion r) ;;
  if anc then raise ValueError else
  updB b (set_b_parent (Some r)).

(* the `while True: next_block = next(blocks_iter) ...` loop shared by add_block and
   insert_block_before; returns the final prev_block *)
Fixpoint link_blocks (r : rid) (prev_block : bid) (rest : list bid) : M bid :=
  match rest with
  | [] => ret prev_block
  | next_block :: tl =>
      attach_block r next_block ;;;
      updB next_block (set_b_prev (Some prev_block)) ;;;
      updB prev_block (set_b_next (Some next_block)) ;;;
      link_blocks r next_block tl
  end.

(* Region.add_block(block | iterable) *)
Definition add_block (r : rid) (blocks : list bid) : M unit :=
  rr <- getR r ;;
  match r_last rr with
  | None =>
      match blocks with
      | [] => ret tt
      | first :: rest =>
          attach_block r first ;;;
          updR r (set_r_first (Some first)) ;;;
          last <- link_blocks r first rest ;;
          updR r (set_r_last (Some last))
      end
  | Some prev_block =>
      last <- link_blocks r prev_block blocks ;;
      updR r (set_r_last (Some last))
  end.

(* Region.insert_block_before(block | iterable, target) *)
Definition insert_block_before (r : rid) (blocks : list bid) (target : bid) : M unit :=
  tr <- getB target ;;
  if negb (opt_eqb (b_parent tr) (Some r)) then raise ValueError else
  match b_prev tr with
  | None =>
      match blocks with
      | [] => ret tt
      | new_first :: rest =>
          attach_block r new_first ;;;
          updR r (set_r_first (Some new_first)) ;;;
          updB new_first (set_b_next (Some target)) ;;;
          last <- link_blocks r new_first rest ;;
          updB last (set_b_next (Some target)) ;;;
          updB target (set_b_prev (Some last))
      end
  | Some prev_block =>
      last <- link_blocks r prev_block blocks ;;
      updB last (set_b_next (Some target)) ;;;
      updB target (set_b_prev (Some last))
  end.

(* Region.insert_block_after *)
Definition insert_block_after (r : rid) (blocks : list bid) (target : bid) : M unit :=
  tr <- getB target ;;
  match b_next tr with
  | None => add_block r blocks
  | Some nb => insert_block_before r blocks nb
  end.

(* Region.insert_block(blocks, index): enumerate(self.blocks) *)
Fixpoint insert_block_loop (fuel : nat) (r : rid) (blocks : list bid) (index : Z)
         (cur : option bid) (i : Z) : M unit :=
  match fuel with
  | O => raise OutOfFuel
  | S f =>
      match cur with
      | None =>     (* loop finished; `i` here is (last enumerate index) + 1 *)
          if i =? index then add_block r blocks else ret tt
      | Some b =>
          if i =? index then insert_block_before r blocks b
          else br <- getB b ;; insert_block_loop f r blocks index (b_next br) (i + 1)
      end
  end.
Definition insert_block (r : rid) (blocks : list bid) (index : Z) : M unit :=
  fl <- get_fuel ;;
  rr <- getR r ;;
  insert_block_loop fl r blocks index (r_first rr) 0.

(* Region.get_block_index *)
Fixpoint block_index_loop (fuel : nat) (cur : option bid) (b : bid) (i : Z) : M Z :=
  match fuel with
  | O => raise OutOfFuel
  | S f =>
      match cur with
      | None => raise StopIteration
      | Some c => if Pos.eqb c b then ret i
                  else cr <- getB c ;; block_index_loop f (b_next cr) b (i + 1)
      end
  end.
Definition get_block_index (r : rid) (b : bid) : M Z :=
  br <- getB b ;;
  if negb (opt_eqb (b_parent br) (Some r)) then raise ValueError else
  fl <- get_fuel ;;
  rr <- getR r ;;
  block_index_loop fl (r_first rr) b 0.

(* RegionBlocks.__getitem__(int) *)
Fixpoint nth_block_fwd (fuel : nat) (cur : option bid) (k : Z) : M bid :=
  match fuel with
  | O => raise OutOfFuel
  | S f =>
      match cur with
      | None => raise IndexError
      | Some c => if k =? 0 then ret c else cr <- getB c ;; nth_block_fwd f (b_next cr) (k - 1)
      end
  end.
Fixpoint nth_block_bwd (fuel : nat) (cur : option bid) (k : Z) : M bid :=
  match fuel with
  | O => raise OutOfFuel
  | S f =>
      match cur with
      | None => raise IndexError
      | Some c => if k =? 0 then ret c else cr <- getB c ;; nth_block_bwd f (b_prev cr) (k - 1)
      end
  end.
Definition region_blocks_getitem (r : rid) (idx : Z) : M bid :=
  fl <- get_fuel ;;
  rr <- getR r ;;
  if 0 <=? idx then nth_block_fwd fl (r_first rr) idx
  else nth_block_bwd fl (r_last rr) (- 1 - idx).

(* Region.detach_block, after the block has been resolved and checked *)
Definition detach_block_core (r : rid) (b : bid) : M bid :=
  updB b (set_b_parent None) ;;;
  br <- getB b ;;
  match b_prev br with
  | None => updR r (set_r_first (b_next br))
  | Some p => updB p (set_b_next (b_next br))
  end ;;;
  br' <- getB b ;;
  match b_next br' with
  | None => updR r (set_r_last (b_prev br'))
  | Some n => updB n (set_b_prev (b_prev br'))
  end ;;;
  updB b (set_b_prev None) ;;;
  updB b (set_b_next None) ;;;
  ret b.
Definition detach_block (r : rid) (b : bid) : M bid :=
  br <- getB b ;;
  if negb (opt_eqb (b_parent br) (Some r)) then raise ValueError else
  detach_block_core r b.
Definition detach_block_idx (r : rid) (idx : Z) : M bid :=
  b <- region_blocks_getitem r idx ;;
  detach_block_core r b.

(* Region.erase_block *)
Definition erase_block (r : rid) (b : bid) (safe_erase : bool) : M unit :=
  b' <- detach_block r b ;; block_erase b' safe_erase.
Definition erase_block_idx (r : rid) (idx : Z) (safe_erase : bool) : M unit :=
  b' <- detach_block_idx r idx ;; block_erase b' safe_erase.

(* Region(blocks) *)
Definition region_new (blocks : list bid) : M rid :=
  r <- allocR (mkRegion None None None false) ;;
  add_block r blocks ;;;
  ret r.

(* Region.erase *)
Definition region_erase (r : rid) : M unit :=
  rr <- getR r ;;
  assert_ (negb (is_some (r_parent rr))) ;;;
  dead <- gets (fun s => collect_region (fuel_of s) s r) ;;
  fl <- get_fuel ;;
  region_drop_all_references fl r ;;;
  kill dead.

(* `for block in self.blocks: block.parent = region` *)
Fixpoint set_parent_blocks_from (fuel : nat) (cur : option bid) (region : rid) : M unit :=
  match fuel with
  | O => raise OutOfFuel
  | S f =>
      match cur with
      | None => ret tt
      | Some b =>
          br <- getB b ;;
          let nxt := b_next br in
          updB b (set_b_parent (Some region)) ;;;
          set_parent_blocks_from f nxt region
      end
  end.

(* Region.move_blocks(region) *)
Definition move_blocks (self region : rid) : M unit :=
  if Pos.eqb region self then raise ValueError else
  sr <- getR self ;;
  match r_first sr with
  | None => ret tt
  | Some self_first_block =>
      match r_last sr with
      | None => raise AssertionError
      | Some self_last_block =>
          rr <- getR region ;;
          match r_last rr with
          | None => updR region (set_r_first (r_first sr))
          | Some other_last_block =>
              updB self_first_block (set_b_prev (Some other_last_block)) ;;;
              updB other_last_block (set_b_next (Some self_first_block))
          end ;;;
          updR region (set_r_last (Some self_last_block)) ;;;
          fl <- get_fuel ;;
          sr' <- getR self ;;
          set_parent_blocks_from fl (r_first sr') region ;;;
          updR self (set_r_first None) ;;;
          updR self (set_r_last None)
      end
  end.

(* Region.move_blocks_before(target) *)
Definition move_blocks_before (self : rid) (target : bid) : M unit :=
  tr <- getB target ;;
  let region := b_parent tr in
  if opt_eqb region (Some self) then raise ValueError else
  match region with
  | None => raise ValueError
  | Some region =>
      sr <- getR self ;;
      match r_first sr with
      | None => ret tt
      | Some first_block =>
          match r_last sr with
          | None => raise AssertionError
          | Some last_block =>
              match b_prev tr with
              | None => updR region (set_r_first (Some first_block))
              | Some tp =>
                  updB tp (set_b_next (Some first_block)) ;;;
                  tr' <- getB target ;;
                  updB first_block (set_b_prev (b_prev tr'))
              end ;;;
              fl <- get_fuel ;;
              sr' <- getR self ;;
              set_parent_blocks_from fl (r_first sr') region ;;;
              updB last_block (set_b_next (Some target)) ;;;
              updB target (set_b_prev (Some last_block)) ;;;
              updR self (set_r_first None) ;;;
              updR self (set_r_last None)
          end
      end
  end.

(* ------------------------------------------------------------------ Operation.create *)

Fixpoint alloc_results (o : oid) (idxs : list Z) : M (list vid) :=
  match idxs with
  | [] => ret []
  | i :: r => v <- allocV (mkValue (KRes o i) None false) ;; vs <- alloc_results o r ;; ret (v :: vs)
  end.

(* Operation.create(operands, result_types, successors, regions) = Operation.__init__ *)
Definition op_create (operands : list vid) (nres : nat) (successors : list bid) (regions : list rid) : M oid :=
  o <- allocO (mkOp [] [] [] [] [] [] None None None false) ;;
  set_operands o operands ;;;
  results <- alloc_results o (range_from 0 nres) ;;
  updO o (set_o_results results) ;;;
  set_successors o successors ;;;
  updO o (set_o_regions []) ;;;
  forM regions (add_region o) ;;;
  ret o.

(* ------------------------------------------------------------------ Block.split_before *)

Fixpoint set_parent_ops_from (fuel : nat) (cur : option oid) (b : bid) : M unit :=
  match fuel with
  | O => raise OutOfFuel
  | S f =>
      match cur with
      | None => ret tt
      | Some o =>
          updO o (set_o_parent (Some b)) ;;;
          orec <- getO o ;;
          set_parent_ops_from f (o_next orec) b
      end
  end.

Definition split_before (self : bid) (b_first : oid) (nargs : nat) : M bid :=
  fr <- getO b_first ;;
  if negb (opt_eqb (o_parent fr) (Some self)) then raise ValueError else
  sr <- getB self ;;
  match b_parent sr with
  | None => raise ValueError
  | Some parent =>
      match b_first_op sr with
      | None => raise AssertionError
      | Some first_of_self =>
          match b_last_op sr with
          | None => raise AssertionError
          | Some last_of_self =>
              let a_last := o_prev fr in
              let b_last := last_of_self in
              let a_first := match a_last with None => None | Some _ => Some first_of_self end in
              updB self (set_b_first_op a_first) ;;;
              updB self (set_b_last_op a_last) ;;;
              b <- block_new [] nargs ;;
              a_index <- get_block_index parent self ;;
              insert_block parent [b] (a_index + 1) ;;;
              updB b (set_b_first_op (Some b_first)) ;;;
              updB b (set_b_last_op (Some b_last)) ;;;
              fl <- get_fuel ;;
              set_parent_ops_from fl (Some b_first) b ;;;
              match a_last with
              | Some al => updO al (set_o_next None)
              | None => ret tt
              end ;;;
              updO b_first (set_o_prev None) ;;;
              ret b
          end
      end
  end.

(* ------------------------------------------------------------------ Rewriter *)

(* InsertPoint(block, insert_before).__post_init__ *)
Definition check_insert_point (block : bid) (insert_before : option oid) : M unit :=
  match insert_before with
  | None => ret tt
  | Some o => orec <- getO o ;;
              if negb (opt_eqb (o_parent orec) (Some block)) then raise ValueError else ret tt
  end.
(* BlockInsertPoint(region, insert_before).__post_init__ *)
Definition check_block_insert_point (region : rid) (insert_before : option bid) : M unit :=
  match insert_before with
  | None => ret tt
  | Some b => br <- getB b ;;
              if negb (opt_eqb (b_parent br) (Some region)) then raise ValueError else ret tt
  end.

(* Rewriter.erase_op *)
Definition rw_erase_op (o : oid) (safe_erase : bool) : M unit :=
  orec <- getO o ;;
  match o_parent orec with
  | Some block => erase_op block o safe_erase
  | None => op_erase o safe_erase true
  end.

Fixpoint last_opt {A} (l : list A) : option A :=
  match l with [] => None | [x] => Some x | _ :: r => last_opt r end.

(* Rewriter.replace_op(op, new_ops, new_results, safe_erase) *)
Definition rw_replace_op (o : oid) (new_ops : list oid) (new_results : option (list (option vid)))
           (safe_erase : bool) : M unit :=
  orec <- getO o ;;
  match o_parent orec with
  | None => raise ValueError
  | Some block =>
      new_results' <- match new_results with
                      | Some l => ret l
                      | None => match last_opt new_ops with
                                | None => ret []
                                | Some lo => lr <- getO lo ;; ret (map Some (o_results lr))
                                end
                      end ;;
      if negb (Nat.eqb (length (o_results orec)) (length new_results')) then raise ValueError else
      forM (zip (o_results orec) new_results')
           (fun p => match snd p with
                     | None => value_erase (fst p) safe_erase
                     | Some nr => replace_all_uses_with (fst p) nr
                     end) ;;;
      insert_ops_after block new_ops o ;;;
      erase_op block o safe_erase
  end.

(* Rewriter.replace_value_with_new_type *)
Definition rw_replace_value_with_new_type (val : vid) : M vid :=
  vr <- getV val ;;
  match v_kind vr with
  | KRes operation index =>
      new_value <- allocV (mkValue (KRes operation index) None false) ;;
      orec <- getO operation ;;
      let results := o_results orec in
      updO operation (set_o_results (py_slice_to results index ++ new_value :: py_slice_from results (index + 1))) ;;;
      replace_all_uses_with val new_value ;;;
      kill [GValue val] ;;;
      ret new_value
  | KArg block index =>
      new_value <- allocV (mkValue (KArg block index) None false) ;;
      br <- getB block ;;
      let args := b_args br in
      updB block (set_b_args (py_slice_to args index ++ new_value :: py_slice_from args (index + 1))) ;;;
      replace_all_uses_with val new_value ;;;
      kill [GValue val] ;;;
      ret new_value
  | KErased _ => raise ValueError
  end.

(* list(source.ops) *)
Fixpoint ops_from (fuel : nat) (cur : option oid) : M (list oid) :=
  match fuel with
  | O => raise OutOfFuel
  | S f =>
      match cur with
      | None => ret []
      | Some o => orec <- getO o ;; rest <- ops_from f (o_next orec) ;; ret (o :: rest)
      end
  end.

(* Rewriter.inline_block(source, InsertPoint(dest, insert_before), arg_values) *)
Definition rw_inline_block (source dest : bid) (insert_before : option oid) (arg_values : list vid) : M unit :=
  check_insert_point dest insert_before ;;;
  sr <- getB source ;;
  assert_ (match arg_values with [] => true | _ => Nat.eqb (length arg_values) (length (b_args sr)) end) ;;;
  match arg_values with
  | [] => ret tt
  | _ => forM (zip (b_args sr) arg_values) (fun p => replace_all_uses_with (fst p) (snd p))
  end ;;;
  fl <- get_fuel ;;
  sr' <- getB source ;;
  ops <- ops_from fl (b_first_op sr') ;;
  forM ops op_detach ;;;
  match insert_before with
  | Some ib => insert_ops_before dest ops ib
  | None => add_ops dest ops
  end ;;;
  sr'' <- getB source ;;
  match b_parent sr'' with
  | Some parent_region => detach_block parent_region source ;;; ret tt
  | None => ret tt
  end ;;;
  block_erase source true.

(* Rewriter.insert_block(block | iterable, BlockInsertPoint(region, insert_before)) *)
Definition rw_insert_block (blocks : list bid) (region : rid) (insert_before : option bid) : M unit :=
  check_block_insert_point region insert_before ;;;
  match insert_before with
  | Some ib => insert_block_before region blocks ib
  | None => add_block region blocks
  end.

(* Rewriter.insert_op(op | ops, InsertPoint(block, insert_before)) *)
Definition rw_insert_op (ops : list oid) (block : bid) (insert_before : option oid) : M unit :=
  check_insert_point block insert_before ;;;
  match insert_before with
  | Some ib => insert_ops_before block ops ib
  | None => add_ops block ops
  end.

(* Rewriter.move_region_contents_to_new_regions *)
Definition rw_move_region_contents_to_new_regions (region : rid) : M rid :=
  new_region <- region_new [] ;;
  move_blocks region new_region ;;;
  ret new_region.

(* Rewriter.inline_region(region, BlockInsertPoint(dest, insert_before)) *)
Definition rw_inline_region (region dest : rid) (insert_before : option bid) : M unit :=
  check_block_insert_point dest insert_before ;;;
  match insert_before with
  | Some ib => move_blocks_before region ib
  | None => move_blocks region dest
  end.

(* ------------------------------------------------------------------ PatternRewriter / Builder
   Only the IR effect is modelled (no has_done_action flag, no listener notification). *)

(* PatternRewriter.replace_all_uses_with(from_value, to_value | None, safe_erase) *)
Definition pr_replace_all_uses_with (from_value : vid) (to_value : option vid) (safe_erase : bool) : M unit :=
  match to_value with
  | Some t => if Pos.eqb from_value t then ret tt else replace_all_uses_with from_value t
  | None => value_erase from_value safe_erase
  end.

(* PatternRewriter.replace_uses_with_if *)
Definition pr_replace_uses_with_if (from_value to_value : vid) (sel : list bool) : M unit :=
  if Pos.eqb from_value to_value then ret tt else replace_uses_with_if from_value to_value sel.

(* PatternRewriter.replace(op, new_ops, new_results, safe_erase) *)
Definition pr_replace (o : oid) (new_ops : list oid) (new_results : option (list (option vid)))
           (safe_erase : bool) : M unit :=
  (* self.insert(new_ops, InsertPoint.before(op)) *)
  orec <- getO o ;;
  match o_parent orec with
  | None => raise ValueError
  | Some block =>
      match new_ops with
      | [] => ret tt
      | _ => insert_ops_before block new_ops o
      end ;;;
      new_results' <- match new_results with
                      | Some l => ret l
                      | None => match last_opt new_ops with
                                | None => ret []
                                | Some lo => lr <- getO lo ;; ret (map Some (o_results lr))
                                end
                      end ;;
      orec' <- getO o ;;
      if negb (Nat.eqb (length (o_results orec')) (length new_results')) then raise ValueError else
      forM (zip (o_results orec') new_results')
           (fun p => pr_replace_all_uses_with (fst p) (snd p) safe_erase) ;;;
      rw_erase_op o safe_erase
  end.

(* PatternRewriter.erase_block_argument(arg, safe_erase) *)
Definition pr_erase_block_argument (arg : vid) (safe_erase : bool) : M unit :=
  pr_replace_all_uses_with arg None safe_erase ;;;
  ar <- getV arg ;;
  match v_kind ar with
  | KArg b _ => erase_arg b arg safe_erase
  | _ => raise BadCall
  end.

(* Builder.create_block(BlockInsertPoint(region, insert_before), arg_types) *)
Definition create_block (region : rid) (insert_before : option bid) (nargs : nat) : M bid :=
  check_block_insert_point region insert_before ;;;
  b <- block_new [] nargs ;;
  rw_insert_block [b] region insert_before ;;;
  ret b.

(* ------------------------------------------------------------------ public drop_all_references
   (documented as "called prior to deleting": the dropped sub-tree is marked erased) *)
Definition op_drop_public (o : oid) : M unit :=
  dead <- gets (fun s => collect_op (fuel_of s) s o) ;;
  fl <- get_fuel ;; op_drop_all_references fl o ;;; kill dead.
Definition block_drop_public (b : bid) : M unit :=
  dead <- gets (fun s => collect_block (fuel_of s) s b) ;;
  fl <- get_fuel ;; block_drop_all_references fl b ;;; kill dead.
Definition region_drop_public (r : rid) : M unit :=
  dead <- gets (fun s => collect_region (fuel_of s) s r) ;;
  fl <- get_fuel ;; region_drop_all_references fl r ;;; kill dead.

(* ------------------------------------------------------------------ calls *)

Inductive call :=
(* creation *)
| COpCreate (operands : list vid) (nres : nat) (successors : list bid) (regions : list rid)
| CBlockNew (ops : list oid) (nargs : nat)
| CRegionNew (blocks : list bid)
(* Operation *)
| CSetOperands (o : oid) (new : list vid)
| CSetSuccessors (o : oid) (new : list bid)
| COperandSetItem (o : oid) (idx : Z) (v : vid)
| CSuccessorSetItem (o : oid) (idx : Z) (b : bid)
| CAddRegion (o : oid) (r : rid)
| CDetachRegion (o : oid) (r : rid)
| CDetachRegionIdx (o : oid) (idx : Z)
| COpDropAllReferences (o : oid)
| COpErase (o : oid) (safe_erase : bool)
| COpDetach (o : oid)
(* SSAValue *)
| CReplaceAllUsesWith (v w : vid)
| CReplaceUsesWithIf (v w : vid) (sel : list bool)
| CValueErase (v : vid) (safe_erase : bool)
(* Block *)
| CInsertArg (b : bid) (index : Z)
| CEraseArg (b : bid) (v : vid) (safe_erase : bool)
| CInsertOpAfter (b : bid) (new_op existing_op : oid)
| CInsertOpBefore (b : bid) (new_op existing_op : oid)
| CAddOp (b : bid) (o : oid)
| CAddOps (b : bid) (ops : list oid)
| CInsertOpsBefore (b : bid) (ops : list oid) (existing_op : oid)
| CInsertOpsAfter (b : bid) (ops : list oid) (existing_op : oid)
| CSplitBefore (b : bid) (o : oid) (nargs : nat)
| CDetachOp (b : bid) (o : oid)
| CEraseOp (b : bid) (o : oid) (safe_erase : bool)
| CBlockDropAllReferences (b : bid)
| CBlockErase (b : bid) (safe_erase : bool)
(* Region *)
| CAddBlock (r : rid) (blocks : list bid)
| CInsertBlockBefore (r : rid) (blocks : list bid) (target : bid)
| CInsertBlockAfter (r : rid) (blocks : list bid) (target : bid)
| CInsertBlock (r : rid) (blocks : list bid) (index : Z)
| CDetachBlock (r : rid) (b : bid)
| CDetachBlockIdx (r : rid) (idx : Z)
| CEraseBlock (r : rid) (b : bid) (safe_erase : bool)
| CEraseBlockIdx (r : rid) (idx : Z) (safe_erase : bool)
| CRegionDropAllReferences (r : rid)
| CRegionErase (r : rid)
| CMoveBlocks (r dest : rid)
| CMoveBlocksBefore (r : rid) (target : bid)
(* Rewriter; `pr = true` : the call goes through the PatternRewriter wrapper of the same name,
   which adds only flag/notification bookkeeping (not modelled) *)
| CRwEraseOp (pr : bool) (o : oid) (safe_erase : bool)
| CRwReplaceOp (o : oid) (new_ops : list oid) (new_results : option (list (option vid))) (safe_erase : bool)
| CRwReplaceValueWithNewType (pr : bool) (v : vid)
| CRwInlineBlock (pr : bool) (source dest : bid) (insert_before : option oid) (arg_values : list vid)
| CRwInsertBlock (blocks : list bid) (region : rid) (insert_before : option bid)
| CRwInsertOp (pr : bool) (ops : list oid) (block : bid) (insert_before : option oid)
| CRwMoveRegionContents (pr : bool) (r : rid)
| CRwInlineRegion (pr : bool) (r dest : rid) (insert_before : option bid)
(* PatternRewriter methods whose IR effect differs from the Rewriter function of the same name *)
| CPrReplaceAllUsesWith (v : vid) (w : option vid) (safe_erase : bool)
| CPrReplaceUsesWithIf (v w : vid) (sel : list bool)
| CPrReplace (o : oid) (new_ops : list oid) (new_results : option (list (option vid))) (safe_erase : bool)
| CPrInsertBlockArgument (b : bid) (index : Z)
| CPrEraseBlockArgument (v : vid) (safe_erase : bool)
| CCreateBlock (region : rid) (insert_before : option bid) (nargs : nat).

Inductive payload := PNone | POp (o : oid) | PBlock (b : bid) | PRegion (r : rid) | PValue (v : vid).

Definition lift {A} (f : A -> payload) (m : M A) : M payload := x <- m ;; ret (f x).
Definition unit_ (m : M unit) : M payload := m ;;; ret PNone.

Definition do_call (c : call) : M payload :=
  match c with
  | COpCreate operands nres succs regions => lift POp (op_create operands nres succs regions)
  | CBlockNew ops nargs => lift PBlock (block_new ops nargs)
  | CRegionNew blocks => lift PRegion (region_new blocks)
  | CSetOperands o new => unit_ (set_operands o new)
  | CSetSuccessors o new => unit_ (set_successors o new)
  | COperandSetItem o idx v => unit_ (operands_setitem o idx v)
  | CSuccessorSetItem o idx b => unit_ (successors_setitem o idx b)
  | CAddRegion o r => unit_ (add_region o r)
  | CDetachRegion o r => lift PRegion (detach_region o r)
  | CDetachRegionIdx o idx => lift PRegion (detach_region_idx o idx)
  | COpDropAllReferences o => unit_ (op_drop_public o)
  | COpErase o safe => unit_ (op_erase o safe true)
  | COpDetach o => unit_ (op_detach o)
  | CReplaceAllUsesWith v w => unit_ (replace_all_uses_with v w)
  | CReplaceUsesWithIf v w sel => unit_ (replace_uses_with_if v w sel)
  | CValueErase v safe => unit_ (value_erase v safe)
  | CInsertArg b index => lift PValue (insert_arg b index)
  | CEraseArg b v safe => unit_ (erase_arg b v safe)
  | CInsertOpAfter b n e => unit_ (insert_op_after b n e)
  | CInsertOpBefore b n e => unit_ (insert_op_before b n e)
  | CAddOp b o => unit_ (add_op b o)
  | CAddOps b ops => unit_ (add_ops b ops)
  | CInsertOpsBefore b ops e => unit_ (insert_ops_before b ops e)
  | CInsertOpsAfter b ops e => unit_ (insert_ops_after b ops e)
  | CSplitBefore b o nargs => lift PBlock (split_before b o nargs)
  | CDetachOp b o => lift POp (detach_op b o)
  | CEraseOp b o safe => unit_ (erase_op b o safe)
  | CBlockDropAllReferences b => unit_ (block_drop_public b)
  | CBlockErase b safe => unit_ (block_erase b safe)
  | CAddBlock r blocks => unit_ (add_block r blocks)
  | CInsertBlockBefore r blocks t => unit_ (insert_block_before r blocks t)
  | CInsertBlockAfter r blocks t => unit_ (insert_block_after r blocks t)
  | CInsertBlock r blocks index => unit_ (insert_block r blocks index)
  | CDetachBlock r b => lift PBlock (detach_block r b)
  | CDetachBlockIdx r idx => lift PBlock (detach_block_idx r idx)
  | CEraseBlock r b safe => unit_ (erase_block r b safe)
  | CEraseBlockIdx r idx safe => unit_ (erase_block_idx r idx safe)
  | CRegionDropAllReferences r => unit_ (region_drop_public r)
  | CRegionErase r => unit_ (region_erase r)
  | CMoveBlocks r dest => unit_ (move_blocks r dest)
  | CMoveBlocksBefore r t => unit_ (move_blocks_before r t)
  | CRwEraseOp _ o safe => unit_ (rw_erase_op o safe)
  | CRwReplaceOp o news nres safe => unit_ (rw_replace_op o news nres safe)
  | CRwReplaceValueWithNewType _ v => lift PValue (rw_replace_value_with_new_type v)
  | CRwInlineBlock _ src dest ib args => unit_ (rw_inline_block src dest ib args)
  | CRwInsertBlock blocks region ib => unit_ (rw_insert_block blocks region ib)
  | CRwInsertOp _ ops block ib => unit_ (rw_insert_op ops block ib)
  | CRwMoveRegionContents _ r => lift PRegion (rw_move_region_contents_to_new_regions r)
  | CRwInlineRegion _ r dest ib => unit_ (rw_inline_region r dest ib)
  | CPrReplaceAllUsesWith v w safe => unit_ (pr_replace_all_uses_with v w safe)
  | CPrReplaceUsesWithIf v w sel => unit_ (pr_replace_uses_with_if v w sel)
  | CPrReplace o news nres safe => unit_ (pr_replace o news nres safe)
  | CPrInsertBlockArgument b index => lift PValue (insert_arg b index)
  | CPrEraseBlockArgument v safe => unit_ (pr_erase_block_argument v safe)
  | CCreateBlock region ib nargs => lift PBlock (create_block region ib nargs)
  end.

Definition step (s : state) (c : call) : state * res payload := do_call c s.

Definition is_ok {A} (r : res A) : bool := match r with Ok _ => true | Raise _ => false end.

(* the state after a history; a raising call contributes the state it leaves behind *)
Fixpoint run (cs : list call) (s : state) : state :=
  match cs with
  | [] => s
  | c :: r => run r (fst (step s c))
  end.
