(* C01/ProofsArgs.v -- WF is preserved by Block.insert_arg, Block.erase_arg and
   PatternRewriter.erase_block_argument (re-indexing of the arguments of a live block). *)
From Coq Require Import ZArith List Bool PArith FMapPositive Lia.
From XV Require Import C01.Model C01.Spec C01.ProofsBase C01.ProofsFrame C01.ProofsUses C01.ProofsOperands
  C01.ProofsRauw C01.ProofsSetOperands C01.ProofsOps C01.ProofsBlocks.
Import ListNotations.
Local Open Scope Z_scope.

(* a value that has not been erased / replaced by a successful erase call *)
Definition val_live (s : state) (v : vid) : Prop :=
  exists vr, PM.find v (s_values s) = Some vr /\ v_dead vr = false.

(* ------------------------------------------------------------------ frame lemmas *)

Lemma allocV_T1 : forall x, preserves same_T1 (allocV x).
Proof. intros x s s' r H. unfold allocV in H. injection H as <- _. split; apply agree_refl. Qed.
Lemma allocV_T2 : forall x, preserves same_T2 (allocV x).
Proof. intros x s s' r H. unfold allocV in H. injection H as <- _. split; apply agree_refl. Qed.
Lemma allocV_T3 : forall x, preserves same_T3 (allocV x).
Proof. intros x s s' r H. unfold allocV in H. injection H as <- _. split; apply agree_refl. Qed.
#[export] Hint Resolve allocV_T1 allocV_T2 allocV_T3 : pres.

Lemma add_index_T1 : forall d v, preserves same_T1 (add_index d v).
Proof. intros. unfold add_index. pres fr_T1. Qed.
Lemma add_index_T2 : forall d v, preserves same_T2 (add_index d v).
Proof. intros. unfold add_index. pres fr_T2. Qed.
Lemma add_index_T3 : forall d v, preserves same_T3 (add_index d v).
Proof. intros. unfold add_index. pres fr_T3. Qed.
Lemma add_index_U : forall d v, preserves same_U (add_index d v).
Proof. intros. unfold add_index. apply updV_same_U. intro x. destruct (v_kind x); reflexivity. Qed.
Lemma add_index_A : forall d v, preserves same_A (add_index d v).
Proof. intros. unfold add_index. pres fr_A. Qed.
#[export] Hint Resolve add_index_T1 add_index_T2 add_index_T3 add_index_U add_index_A : pres.

Lemma uses_from_pres : forall R, frame_rel R -> forall fl cur, preserves R (uses_from fl cur).
Proof.
  intros R FR fl. induction fl as [|f IH]; intro cur; simpl.
  - apply (pres_raise _ FR).
  - destruct cur as [u|]; [|apply (pres_ret _ FR)].
    apply (pres_bind _ FR); [apply (pres_getU _ FR)|intro ur].
    apply (pres_bind _ FR); [apply IH|intro rest]. apply (pres_ret _ FR).
Qed.

Lemma uses_of_pres : forall R, frame_rel R -> forall h, preserves R (uses_of h).
Proof.
  intros R FR h. unfold uses_of.
  apply (pres_bind _ FR); [apply (pres_get_fuel _ FR)|intro fl].
  apply (pres_bind _ FR); [apply get_first_use_pres; exact FR|intro fu]. apply uses_from_pres. exact FR.
Qed.

Lemma rauw_pres : forall R, frame_rel R -> (forall o i w, preserves R (operands_setitem o i w)) ->
  forall a b, preserves R (replace_all_uses_with a b).
Proof.
  intros R FR HS a b. unfold replace_all_uses_with.
  apply (pres_if _). { apply (pres_ret _ FR). }
  apply (pres_bind _ FR); [apply uses_of_pres; exact FR|intro us].
  apply (pres_bind _ FR).
  { apply (pres_forM _ FR). intro u. apply (pres_bind _ FR); [apply (pres_getU _ FR)|intro ur]. apply HS. }
  intros _. apply (pres_bind _ FR); [apply get_first_use_pres; exact FR|intro fu]. apply (pres_assert _ FR).
Qed.

Lemma rauw_T1 : forall a b, preserves same_T1 (replace_all_uses_with a b).
Proof. apply rauw_pres; [apply fr_T1|apply operands_setitem_T1]. Qed.
Lemma rauw_T2 : forall a b, preserves same_T2 (replace_all_uses_with a b).
Proof. apply rauw_pres; [apply fr_T2|apply operands_setitem_T2]. Qed.
Lemma rauw_T3 : forall a b, preserves same_T3 (replace_all_uses_with a b).
Proof. apply rauw_pres; [apply fr_T3|apply operands_setitem_T3]. Qed.
Lemma rauw_I : forall a b, preserves same_I (replace_all_uses_with a b).
Proof. apply rauw_pres; [apply fr_I|apply operands_setitem_I]. Qed.
Lemma rauw_A : forall a b, preserves same_A (replace_all_uses_with a b).
Proof. apply rauw_pres; [apply fr_A|apply operands_setitem_A]. Qed.
#[export] Hint Resolve rauw_T1 rauw_T2 rauw_T3 rauw_I rauw_A : pres.

Lemma value_erase_T1 : forall v safe, preserves same_T1 (value_erase v safe).
Proof. intros. unfold value_erase. pres fr_T1. Qed.
Lemma value_erase_T2 : forall v safe, preserves same_T2 (value_erase v safe).
Proof. intros. unfold value_erase. pres fr_T2. Qed.
Lemma value_erase_T3 : forall v safe, preserves same_T3 (value_erase v safe).
Proof. intros. unfold value_erase. pres fr_T3. Qed.
#[export] Hint Resolve value_erase_T1 value_erase_T2 value_erase_T3 : pres.

Lemma kill_value_T1 : forall v, preserves same_T1 (kill [GValue v]).
Proof. intros. unfold kill. simpl. pres fr_T1. Qed.
Lemma kill_value_T2 : forall v, preserves same_T2 (kill [GValue v]).
Proof. intros. unfold kill. simpl. pres fr_T2. Qed.
Lemma kill_value_T3 : forall v, preserves same_T3 (kill [GValue v]).
Proof. intros. unfold kill. simpl. pres fr_T3. Qed.
Lemma kill_value_U : forall v, preserves same_U (kill [GValue v]).
Proof. intros. unfold kill. simpl. pres fr_U. Qed.
Lemma kill_value_A : forall v, preserves same_A (kill [GValue v]).
Proof. intros. unfold kill. simpl. pres fr_A. Qed.
#[export] Hint Resolve kill_value_T1 kill_value_T2 kill_value_T3 kill_value_U kill_value_A : pres.

Lemma insert_arg_T1 : forall b i, preserves same_T1 (insert_arg b i).
Proof. intros. unfold insert_arg. pres fr_T1. Qed.
Lemma insert_arg_T2 : forall b i, preserves same_T2 (insert_arg b i).
Proof. intros. unfold insert_arg. pres fr_T2. Qed.
Lemma insert_arg_T3 : forall b i, preserves same_T3 (insert_arg b i).
Proof. intros. unfold insert_arg. pres fr_T3. Qed.

Lemma erase_arg_T1 : forall b a safe, preserves same_T1 (erase_arg b a safe).
Proof.
  intros. unfold erase_arg. apply (pres_bind _ fr_T1); [apply (pres_getV _ fr_T1)|intro ar].
  destruct (v_kind ar); pres fr_T1.
Qed.
Lemma erase_arg_T2 : forall b a safe, preserves same_T2 (erase_arg b a safe).
Proof.
  intros. unfold erase_arg. apply (pres_bind _ fr_T2); [apply (pres_getV _ fr_T2)|intro ar].
  destruct (v_kind ar); pres fr_T2.
Qed.
Lemma erase_arg_T3 : forall b a safe, preserves same_T3 (erase_arg b a safe).
Proof.
  intros. unfold erase_arg. apply (pres_bind _ fr_T3); [apply (pres_getV _ fr_T3)|intro ar].
  destruct (v_kind ar); pres fr_T3.
Qed.

(* ------------------------------------------------------------------ slices *)

Lemma slice_to_eq : forall {A} (l : list A) i, 0 <= i <= zlen l -> py_slice_to l i = firstn (Z.to_nat i) l.
Proof.
  intros A l i R. unfold py_slice_to, py_clamp. destruct (Z.ltb_spec i 0); [lia|].
  rewrite Z.min_l by lia. reflexivity.
Qed.
Lemma slice_from_eq : forall {A} (l : list A) i, 0 <= i <= zlen l -> py_slice_from l i = skipn (Z.to_nat i) l.
Proof.
  intros A l i R. unfold py_slice_from, py_clamp. destruct (Z.ltb_spec i 0); [lia|].
  rewrite Z.min_l by lia. reflexivity.
Qed.

Lemma nth_error_skipn : forall {A} (l : list A) n k, nth_error (skipn n l) k = nth_error l (n + k).
Proof.
  intros A l n. revert l. induction n as [|n IH]; intros l k; [reflexivity|].
  destruct l as [|x r]; simpl; [destruct k; reflexivity|apply IH].
Qed.
Lemma nth_error_firstn : forall {A} (l : list A) n k, (k < n)%nat -> nth_error (firstn n l) k = nth_error l k.
Proof.
  intros A l n. revert l. induction n as [|n IH]; intros l k H; [lia|].
  destruct l as [|x r]; simpl; [destruct k; reflexivity|]. destruct k; [reflexivity|]. simpl. apply IH. lia.
Qed.

Lemma In_skipn : forall {A} (l : list A) n x, In x (skipn n l) -> exists k, (n <= k)%nat /\ nth_error l k = Some x.
Proof.
  intros A l n x H. destruct (In_nth_error _ _ H) as (k & N). rewrite nth_error_skipn in N.
  exists (n + k)%nat. split; [lia|exact N].
Qed.
Lemma In_firstn : forall {A} (l : list A) n x, In x (firstn n l) -> exists k, (k < n)%nat /\ nth_error l k = Some x.
Proof.
  intros A l n x H. destruct (In_nth_error _ _ H) as (k & N).
  assert (k < length (firstn n l))%nat by (apply nth_error_Some; congruence).
  rewrite firstn_length in H0. exists k. split; [lia|]. rewrite nth_error_firstn in N by lia. exact N.
Qed.

(* ------------------------------------------------------------------ the re-indexing loop *)

Definition shift (d : Z) (x : value_rec) : value_rec :=
  match v_kind x with
  | KArg b i => set_v_kind (KArg b (i + d)) x
  | KRes o i => set_v_kind (KRes o (i + d)) x
  | KErased _ => x
  end.

Lemma shift_loop : forall d l s s' r, NoDup l ->
  forM l (add_index d) s = (s', Ok r) ->
  s_ops s' = s_ops s /\ s_blocks s' = s_blocks s /\
  forall v, PM.find v (s_values s') =
            if mem v l then option_map (shift d) (PM.find v (s_values s)) else PM.find v (s_values s).
Proof.
  intros d l. induction l as [|a t IH]; intros s s' r ND H; simpl in H.
  - apply ret_ok in H as [-> _]. auto.
  - apply bind_ok in H as (s1 & ? & H1 & H2). inversion ND as [|? ? NI ND']; subst.
    unfold add_index in H1. apply updV_ok in H1 as (xr & F & ->).
    destruct (IH _ _ _ ND' H2) as (E1 & E2 & E3). simpl in E1, E2, E3.
    split; [exact E1|]. split; [exact E2|]. intro v. rewrite E3. simpl. rewrite find_add.
    destruct (Pos.eqb_spec v a) as [->|N]; simpl.
    + apply mem_false in NI. rewrite NI, F. reflexivity.
    + reflexivity.
Qed.

Lemma nth_insert : forall {A} (l : list A) n x i, (n <= length l)%nat ->
  nth_error (firstn n l ++ x :: skipn n l) i =
  if (i <? n)%nat then nth_error l i else if (i =? n)%nat then Some x else nth_error l (i - 1).
Proof.
  intros A l n x i L. destruct (Nat.ltb_spec i n).
  - rewrite nth_error_app1 by (rewrite firstn_length; lia). apply nth_error_firstn. lia.
  - rewrite nth_error_app2 by (rewrite firstn_length; lia). rewrite firstn_length, Nat.min_l by lia.
    destruct (Nat.eqb_spec i n) as [->|N]; [rewrite Nat.sub_diag; reflexivity|].
    destruct (i - n)%nat as [|k] eqn:E; [lia|]. simpl. rewrite nth_error_skipn. f_equal. lia.
Qed.

Lemma nth_delete : forall {A} (l : list A) n i, (n < length l)%nat ->
  nth_error (firstn n l ++ skipn (S n) l) i = if (i <? n)%nat then nth_error l i else nth_error l (S i).
Proof.
  intros A l n i L. destruct (Nat.ltb_spec i n).
  - rewrite nth_error_app1 by (rewrite firstn_length; lia). apply nth_error_firstn. lia.
  - rewrite nth_error_app2 by (rewrite firstn_length; lia). rewrite firstn_length, Nat.min_l by lia.
    rewrite nth_error_skipn. f_equal. lia.
Qed.

Lemma NoDup_skipn : forall {A} (l : list A) n, NoDup l -> NoDup (skipn n l).
Proof.
  intros A l n H. rewrite <- (firstn_skipn n l) in H. apply NoDup_app_inv in H. tauto.
Qed.

Lemma NoDup_nth_eq : forall {A} (l : list A) i j x, NoDup l -> nth_error l i = Some x -> nth_error l j = Some x -> i = j.
Proof.
  intros A l i j x ND Hi Hj. rewrite NoDup_nth_error in ND. apply ND; [|congruence].
  apply nth_error_Some. congruence.
Qed.

(* ------------------------------------------------------------------ assembling WF; the index group *)

Lemma WF_parts : forall s s', WF s -> same_T1 s s' -> same_T2 s s' -> same_T3 s s' -> UWF s' -> WF_alloc s' ->
  WF_results s' /\ WF_args s' /\ WF_owner s' -> WF s'.
Proof.
  intros s s' W T1 T2 T3 (U1 & U2 & U3 & U4 & U5) A (I1 & I2 & I3). destruct W.
  constructor; try assumption.
  - eapply WF_block_same; eauto.
  - eapply WF_region_same; eauto.
  - eapply WF_opregs_same; eauto.
  - eapply WF_detached_same; eauto.
Qed.

Lemma args_NoDup : forall s b br, WF_args s -> PM.find b (s_blocks s) = Some br -> b_erased br = false ->
  NoDup (b_args br).
Proof.
  intros s b br W F E. apply NoDup_nth_error. intros i j Hi Eq.
  destruct (nth_error (b_args br) i) as [v|] eqn:Ni; [|apply nth_error_None in Ni; lia].
  symmetry in Eq. destruct (W b br F E i v Ni) as (vr & Fv & K). destruct (W b br F E j v Eq) as (vr' & Fv' & K').
  rewrite Fv in Fv'. injection Fv' as <-. rewrite K in K'. injection K' as K'. lia.
Qed.

(* the arguments of one live block b are re-indexed: new argument list args', every member of
   which says (b, its position); every other live value keeps its kind and is not an old argument of b *)
Lemma reindex_I : forall s s' b br br',
  WF_results s -> WF_args s -> WF_owner s ->
  PM.find b (s_blocks s) = Some br -> b_erased br = false ->
  s_ops s' = s_ops s ->
  (forall b', b' <> b -> PM.find b' (s_blocks s') = PM.find b' (s_blocks s)) ->
  PM.find b (s_blocks s') = Some br' ->
  (forall i v, nth_error (b_args br') i = Some v ->
     exists vr', PM.find v (s_values s') = Some vr' /\ v_kind vr' = KArg b (Z.of_nat i)) ->
  (forall v vr', ~ In v (b_args br') -> PM.find v (s_values s') = Some vr' -> v_dead vr' = false ->
     (exists old, v_kind vr' = KErased old) \/
     (exists vr, PM.find v (s_values s) = Some vr /\ v_kind vr = v_kind vr' /\ v_dead vr = false /\ ~ In v (b_args br))) ->
  (forall v vr, PM.find v (s_values s) = Some vr -> ~ In v (b_args br) ->
     exists vr', PM.find v (s_values s') = Some vr' /\ v_kind vr' = v_kind vr) ->
  WF_results s' /\ WF_args s' /\ WF_owner s'.
Proof.
  intros s s' b br br' W1 W2 W3 Fb Eb Eops Oth Fb' HA HB HC.
  assert (ArgK : forall v j, nth_error (b_args br) j = Some v ->
            exists vr, PM.find v (s_values s) = Some vr /\ v_kind vr = KArg b (Z.of_nat j)).
  { intros v j N. exact (W2 b br Fb Eb j v N). }
  split; [|split].
  - intros o x F E i v N. rewrite Eops in F. destruct (W1 o x F E i v N) as (vr & Fv & K).
    assert (NI : ~ In v (b_args br)).
    { intro I. destruct (In_nth_error _ _ I) as (j & Nj). destruct (ArgK v j Nj) as (vr2 & Fv2 & K2).
      rewrite Fv in Fv2. injection Fv2 as <-. rewrite K in K2. discriminate. }
    destruct (HC v vr Fv NI) as (vr' & Fv' & K'). exists vr'. split; [exact Fv'|]. rewrite K'. exact K.
  - intros b' x F E i v N. destruct (Pos.eq_dec b' b) as [->|Nb].
    + rewrite Fb' in F. injection F as <-. apply HA. exact N.
    + rewrite (Oth b' Nb) in F. destruct (W2 b' x F E i v N) as (vr & Fv & K).
      assert (NI : ~ In v (b_args br)).
      { intro I. destruct (In_nth_error _ _ I) as (j & Nj). destruct (ArgK v j Nj) as (vr2 & Fv2 & K2).
        rewrite Fv in Fv2. injection Fv2 as <-. rewrite K in K2. injection K2 as K2 _. apply Nb. exact K2. }
      destruct (HC v vr Fv NI) as (vr' & Fv' & K'). exists vr'. split; [exact Fv'|]. rewrite K'. exact K.
  - intros v vr' F D. destruct (in_dec Pos.eq_dec v (b_args br')) as [I|NI].
    + destruct (In_nth_error _ _ I) as (i & N). destruct (HA i v N) as (vr2 & F2 & K2).
      rewrite F in F2. injection F2 as <-. rewrite K2. exists br'. split; [exact Fb'|].
      rewrite znth_of_nat. exact N.
    + destruct (HB v vr' NI F D) as [(old & K)|(vr & Fv & K & Dv & NIa)]; [rewrite K; exact I|].
      rewrite <- K. specialize (W3 v vr Fv Dv). destruct (v_kind vr) as [o i|b' i|old].
      * destruct W3 as (x & Fx & Z). exists x. rewrite Eops. auto.
      * destruct W3 as (x & Fx & Z). destruct (Pos.eq_dec b' b) as [->|Nb].
        -- exfalso. rewrite Fb in Fx. injection Fx as <-. apply NIa. eapply znth_In; eauto.
        -- exists x. rewrite (Oth b' Nb). auto.
      * exact I.
Qed.

(* ------------------------------------------------------------------ allocation of a value *)

Lemma allocV_eff : forall rec s s' e, allocV rec s = (s', Ok e) ->
  e = n_value s /\ s_ops s' = s_ops s /\ s_blocks s' = s_blocks s /\
  s_values s' = PM.add (n_value s) rec (s_values s).
Proof. intros rec s s' e H. unfold allocV in H. injection H as <- <-. simpl. auto. Qed.

Lemma fresh_of_alloc : forall s, WF_alloc s -> PM.find (n_value s) (s_values s) = None.
Proof.
  intros s (_ & _ & _ & B & _). destruct (PM.find (n_value s) (s_values s)) as [x|] eqn:F; [|reflexivity].
  specialize (B _ _ F). lia.
Qed.

Lemma allocV_alloc : forall rec s s' e, WF_alloc s -> allocV rec s = (s', Ok e) -> WF_alloc s'.
Proof.
  intros rec s s' e (B1 & B2 & B3 & B4 & B5) H. unfold allocV in H. injection H as <- _.
  repeat split; try assumption.
  intros i x F. simpl in F. rewrite find_add in F. simpl.
  destruct (Pos.eqb_spec i (n_value s)) as [->|N]; [lia|]. specialize (B4 _ _ F). lia.
Qed.

Lemma allocV_UWF : forall rec s s' e, UWF s -> PM.find (n_value s) (s_values s) = None ->
  v_first_use rec = None -> allocV rec s = (s', Ok e) -> UWF s'.
Proof.
  intros rec s s' e0 (Wv & Wb & Wo & Ws & Wd) FR FU H. unfold allocV in H. injection H as <- _.
  set (e := n_value s) in *.
  assert (FO : forall v x, PM.find v (s_values s) = Some x -> PM.find v (PM.add e rec (s_values s)) = Some x).
  { intros v x F. rewrite find_add. destruct (Pos.eqb_spec v e); [subst; congruence|exact F]. }
  split; [|split; [|split; [|split]]].
  - intros v vr F. simpl in F. rewrite find_add in F. destruct (Pos.eqb_spec v e) as [->|N].
    + injection F as <-. rewrite FU. exists []. repeat split; try constructor. intros u [].
    + destruct (Wv v vr F) as (l & C & ND & P & M). exists l.
      split; [exact C|]. split; [exact ND|]. split; [|exact M].
      eapply prevs_ok_uses_eq; [|exact P]. reflexivity.
  - intros b br F. destruct (Wb b br F) as (l & C & ND & P & M). exists l.
    split; [exact C|]. split; [exact ND|]. split; [|exact M].
    eapply prevs_ok_uses_eq; [|exact P]. reflexivity.
  - intros o x F E. destruct (Wo o x F E) as [L R]. split; [exact L|].
    intros i item u N1 N2. destruct (R i item u N1 N2) as [A (fu & l & Hf & C & I)]. split; [exact A|].
    exists fu, l. split; [|auto]. unfold link in *. simpl.
    destruct (PM.find item (s_values s)) as [vr|] eqn:Fv; [|discriminate]. rewrite (FO _ _ Fv). exact Hf.
  - exact Ws.
  - exact Wd.
Qed.

(* ------------------------------------------------------------------ Block.insert_arg *)

Theorem insert_arg_WF : forall s s' b index v,
  WF s -> blk_live s b -> insert_arg b index s = (s', Ok v) -> WF s'.
Proof.
  intros s s' b index v W (br & Fb & Eb) H.
  pose proof (insert_arg_T1 b index s s' _ H) as T1.
  pose proof (insert_arg_T2 b index s s' _ H) as T2.
  pose proof (insert_arg_T3 b index s s' _ H) as T3.
  unfold insert_arg in H.
  apply bind_ok in H as (s0 & br0 & Hg & H). apply getB_ok in Hg as [-> Fb0].
  rewrite Fb in Fb0. injection Fb0 as <-.
  destruct ((index <? 0) || (zlen (b_args br) <? index)) eqn:Rg; [exfalso; eapply raise_ok; eauto|].
  apply orb_false_iff in Rg as [R1 R2]. apply Z.ltb_ge in R1, R2.
  apply bind_ok in H as (s1 & new & Ha & H).
  apply bind_ok in H as (s2 & r2 & Hl & H).
  apply bind_ok in H as (s3 & r3 & Hu & H). apply ret_ok in H as [-> ->].
  rewrite slice_from_eq in Hl, Hu by lia. rewrite slice_to_eq in Hu by lia.
  set (n := Z.to_nat index) in *. set (args := b_args br) in *.
  assert (Ln : (n <= length args)%nat) by (unfold zlen in R2; lia).
  set (rec := mkValue (KArg b index) None false) in *.
  pose proof (fresh_value s W) as FR.
  pose proof (args_NoDup s b br (wf_args s W) Fb Eb) as NDa. fold args in NDa.
  assert (ArgK : forall v j, nth_error args j = Some v ->
            exists vr, PM.find v (s_values s) = Some vr /\ v_kind vr = KArg b (Z.of_nat j)).
  { intros w j N. exact (wf_args s W b br Fb Eb j w N). }
  destruct (allocV_eff _ _ _ _ Ha) as (En & Eo1 & Eb1 & Ev1).
  destruct (shift_loop 1 _ _ _ _ (NoDup_skipn args n NDa) Hl) as (Eo2 & Eb2 & Ev2).
  apply WF_parts with (s := s); try assumption.
  - (* use lists *)
    eapply UWF_same; [eapply UWF_same; [apply (allocV_UWF rec s s1 new (WF_UWF s W) FR eq_refl Ha)|]|].
    + eapply (pres_forM _ fr_U); [|exact Hl]. apply add_index_U.
    + eapply updB_same_U; [|exact Hu]. intro x. reflexivity.
  - (* allocation *)
    eapply WF_alloc_same; [eapply updB_same_A; exact Hu|].
    eapply WF_alloc_same; [eapply (pres_forM _ fr_A); [|exact Hl]; apply add_index_A|].
    eapply allocV_alloc; [apply (wf_alloc s W)|exact Ha].
  - (* indices *)
    apply updB_ok in Hu as (xb & Fx & ->). rewrite Eb2, Eb1, Fb in Fx. injection Fx as <-.
    assert (FV : forall w, PM.find w (s_values s2) =
              if mem w (skipn n args) then option_map (shift 1) (PM.find w (s_values s))
              else if Pos.eqb w new then Some rec else PM.find w (s_values s)).
    { intro w. rewrite Ev2, Ev1, find_add, <- En.
      destruct (mem w (skipn n args)) eqn:M; [|reflexivity].
      destruct (Pos.eqb_spec w new) as [->|_]; [|reflexivity].
      exfalso. apply mem_In in M. destruct (In_skipn _ _ _ M) as (k & _ & Nk).
      destruct (ArgK _ _ Nk) as (vr & Fv & _). rewrite En in Fv. congruence. }
    assert (NewNI : ~ In new args).
    { intro I. destruct (In_nth_error _ _ I) as (k & Nk). destruct (ArgK _ _ Nk) as (vr & Fv & _).
      rewrite En in Fv. congruence. }
    eapply (reindex_I s _ b br (set_b_args (firstn n args ++ new :: skipn n args) br));
      [apply (wf_results s W)|apply (wf_args s W)|apply (wf_owner s W)|exact Fb|exact Eb| | | | | | ]; simpl.
    + rewrite Eo2, Eo1. reflexivity.
    + intros b' Nb. rewrite find_add_other by exact Nb. rewrite Eb2, Eb1. reflexivity.
    + apply find_add_same.
    + (* members of the new list *)
      intros i w N. rewrite nth_insert in N by exact Ln. rewrite FV.
      destruct (Nat.ltb_spec i n) as [Lt|Ge].
      * destruct (ArgK _ _ N) as (vr & Fv & K).
        assert (M : mem w (skipn n args) = false).
        { apply mem_false. intro I. destruct (In_skipn _ _ _ I) as (k & Lk & Nk).
          pose proof (NoDup_nth_eq _ _ _ _ NDa N Nk). lia. }
        rewrite M. destruct (Pos.eqb_spec w new) as [->|_].
        -- exfalso. apply NewNI. eapply nth_error_In; eauto.
        -- exists vr. auto.
      * destruct (Nat.eqb_spec i n) as [->|Ne].
        -- injection N as <-.
           assert (M : mem new (skipn n args) = false).
           { apply mem_false. intro I. destruct (In_skipn _ _ _ I) as (k & _ & Nk). apply NewNI. eapply nth_error_In; eauto. }
           rewrite M, Pos.eqb_refl. exists rec. split; [reflexivity|]. simpl. f_equal. unfold n. lia.
        -- destruct (ArgK _ _ N) as (vr & Fv & K).
           assert (M : mem w (skipn n args) = true).
           { apply mem_In. apply nth_error_In with (n := (i - 1 - n)%nat). rewrite nth_error_skipn.
             replace (n + (i - 1 - n))%nat with (i - 1)%nat by lia. exact N. }
           rewrite M, Fv. simpl. exists (shift 1 vr). split; [reflexivity|].
           unfold shift. rewrite K. simpl. f_equal. lia.
    + (* the other values *)
      intros w vr' NI Fw D. rewrite FV in Fw.
      assert (NIa : ~ In w args).
      { intro I. apply NI. rewrite <- (firstn_skipn n args) in I. apply in_app_or in I.
        apply in_or_app. destruct I as [I|I]; [left; exact I|right; right; exact I]. }
      assert (M : mem w (skipn n args) = false).
      { apply mem_false. intro I. apply NI. apply in_or_app. right. right. exact I. }
      rewrite M in Fw. destruct (Pos.eqb_spec w new) as [->|_].
      * exfalso. apply NI. apply in_or_app. right. left. reflexivity.
      * right. exists vr'. auto.
    + intros w vr Fw NIa. rewrite FV.
      assert (M : mem w (skipn n args) = false).
      { apply mem_false. intro I. apply NIa. change (In w args). rewrite <- (firstn_skipn n args). apply in_or_app. right. exact I. }
      rewrite M. destruct (Pos.eqb_spec w new) as [->|_]; [rewrite En in Fw; congruence|].
      exists vr. auto.
Qed.

(* ------------------------------------------------------------------ replace_all_uses_with on the use group alone *)

(* ProofsOperands.operands_setitem_core / ProofsRauw.rauw_step only use the use-list half of WF;
   restated here with `UWF s` because Block.erase_arg calls SSAValue.erase in a state whose index
   group is temporarily broken (the erased argument is no longer in `args` and not yet dead) *)
Lemma operands_setitem_coreU : forall s s' o x0 idx w r,
  UWF s -> PM.find o (s_ops s) = Some x0 -> o_erased x0 = false ->
  operands_setitem o idx w s = (s', Ok r) ->
  let i := norm_index (zlen (o_operands x0)) idx in
  UWF s' /\ (forall y, use_info s' y = use_info s y) /\
  exists u, znth (o_operand_uses x0) i = Some u /\
    forall h o' i' u', real_slot s' h o' i' u' <-> plus_use (minus_use (real_slot s) u) (HV w) o i u h o' i' u'.
Proof.
  intros s s' o x0 idx w r W Fx0 Ex0 H i.
  destruct (UWF_Uabs s W) as [UA LN].
  unfold operands_setitem in H.
  apply bind_ok in H as (s0 & x & Hg & H). apply getO_ok in Hg as [-> Fx].
  rewrite Fx0 in Fx. injection Fx as <-.
  fold i in H.
  destruct ((0 <=? i) && (i <? zlen (o_operands x0))) eqn:Rg; simpl in H; [|exfalso; eapply raise_ok; eauto].
  apply norm_index_ok in Rg. fold i in Rg.
  apply bind_ok in H as (s1 & old & Ho & H). apply index_or_raise_ok in Ho as [-> Ho].
  apply bind_ok in H as (s2 & u & Hu & H). apply index_or_raise_ok in Hu as [-> Hu].
  rewrite py_index_znth in Ho by exact Rg.
  assert (Ru : 0 <= i < zlen (o_operand_uses x0)).
  { destruct (LN o x0 Fx0 Ex0) as [L1 _]. unfold zlen in *. lia. }
  rewrite py_index_znth in Hu by exact Ru.
  apply bind_ok in H as (s3 & ? & Hrm & H).
  apply bind_ok in H as (s4 & ? & Had & Hup).
  assert (R0 : real_slot s (HV old) o i u) by (exists x0; simpl; auto).
  destruct (remove_use_Uabs _ _ _ _ _ _ _ _ UA R0 Hrm) as (UA3 & Ops3 & Inf3).
  assert (Fl : forall h' o' i', ~ minus_use (real_slot s) u h' o' i' u) by (intros h' o' i' [_ N]; apply N; reflexivity).
  assert (Inf : use_info s3 u = Some (o, i)).
  { rewrite Inf3. apply (ua_slot _ _ UA _ _ _ _ R0). }
  destruct (add_use_Uabs _ _ _ _ _ _ _ _ UA3 Fl Inf Had) as (UA4 & Ops4 & Inf4).
  apply updO_ok in Hup as (x4 & Fx4 & ->).
  rewrite Ops4, Ops3, Fx0 in Fx4. injection Fx4 as <-.
  assert (SL : forall h o' i' u',
     real_slot (with_ops (PM.add o (set_o_operands (py_slice_to (o_operands x0) i ++ w :: py_slice_from (o_operands x0) (i + 1)) x0) (s_ops s4)) s4) h o' i' u' <->
     plus_use (minus_use (real_slot s) u) (HV w) o i u h o' i' u').
  { intros h o' i' u'.
    apply (setitem_slots HV set_o_operands) with (x := x0) (old := old); simpl; auto.
    * intros a b E. injection E as E. exact E.
    * intros [v|b] l y N; [exfalso; eapply N; reflexivity|split; reflexivity].
    * intros [v|b]; [left; eauto|right; intros a E; discriminate].
    * rewrite Ops4, Ops3. reflexivity. }
  split; [|split].
  - apply Uabs_UWF.
    + eapply Uabs_ext; [| | exact SL |exact UA4].
      * intro y. reflexivity.
      * intros [v|b]; reflexivity.
    + intros o' x' F' E'. simpl in F'. rewrite find_add in F'. rewrite Ops4, Ops3 in F'.
      destruct (Pos.eqb_spec o' o) as [->|N].
      * injection F' as <-. simpl. destruct (LN o x0 Fx0 Ex0) as [L1 L2]. split; [|exact L2].
        fold (replace_at (o_operands x0) i w). rewrite length_replace_at by exact Rg. exact L1.
      * apply (LN o' x' F' E').
  - intro y. unfold use_info. simpl. fold (use_info s4 y). rewrite Inf4, Inf3. reflexivity.
  - exists u. split; [exact Hu|exact SL].
Qed.

Lemma rauw_stepU : forall s s1 self value u r (rest : list uid),
  UWF s -> ~ In u rest ->
  (exists o i, real_slot s (HV self) o i u) ->
  (forall u', In u' rest -> exists o i, real_slot s (HV self) o i u') ->
  (ur <- getU u ;; operands_setitem (u_op ur) (u_idx ur) value) s = (s1, Ok r) ->
  UWF s1 /\ (forall u', In u' rest -> exists o i, real_slot s1 (HV self) o i u').
Proof.
  intros s s1 self value u r rest W NI (o & i & R) INV H.
  destruct (UWF_Uabs s W) as [UA _].
  destruct (ua_slot _ _ UA _ _ _ _ R) as [Inf _].
  apply bind_ok in H as (s0 & ur & Hg & H). apply getU_ok in Hg as [-> Fu].
  unfold use_info in Inf. rewrite Fu in Inf. simpl in Inf. injection Inf as E1 E2. rewrite E1, E2 in H.
  pose proof R as (x0 & Fx0 & Ex0 & Z1 & Z2). simpl in Z1, Z2.
  destruct (operands_setitem_coreU s s1 o x0 i value r W Fx0 Ex0 H) as (W1 & _ & u0 & Zu0 & SL).
  pose proof (znth_lt _ _ _ Z1) as Ri.
  rewrite norm_index_nonneg in Zu0, SL by lia. rewrite Z2 in Zu0. injection Zu0 as <-.
  split; [exact W1|].
  intros u' Iu'. destruct (INV u' Iu') as (o' & i' & R'). exists o', i'. apply SL. left. split; [exact R'|].
  intro E. subst u'. contradiction.
Qed.

Lemma rauw_loop_UWF : forall us s s' self value r,
  UWF s -> NoDup us -> (forall u, In u us -> exists o i, real_slot s (HV self) o i u) ->
  forM us (fun u => ur <- getU u ;; operands_setitem (u_op ur) (u_idx ur) value) s = (s', Ok r) -> UWF s'.
Proof.
  induction us as [|u rest IH]; intros s s' self value r W ND INV H; simpl in H.
  - apply ret_ok in H as [-> _]. exact W.
  - apply bind_ok in H as (s1 & r1 & H1 & H2). inversion ND as [|? ? NI ND']; subst.
    destruct (rauw_stepU s s1 self value u _ rest W NI (INV u (or_introl eq_refl))
               (fun u' I => INV u' (or_intror I)) H1) as [W1 INV1].
    eapply IH; eauto.
Qed.

Lemma rauw_UWF : forall s s' self value r,
  UWF s -> replace_all_uses_with self value s = (s', Ok r) -> UWF s'.
Proof.
  intros s s' self value r W H. unfold replace_all_uses_with in H.
  destruct (Pos.eqb value self); [apply ret_ok in H as [-> _]; exact W|].
  apply bind_ok in H as (s0 & us & Hu & H). destruct (uses_of_spec _ _ _ _ Hu) as [-> (fu & Hf & C)].
  apply bind_ok in H as (s1 & r1 & Hl & H).
  apply bind_ok in H as (s2 & fu' & Hg & H). apply get_first_use_eff in Hg as [-> _].
  apply assert_ok in H as [-> _].
  destruct (UWF_Uabs s W) as [UA _].
  destruct (ua_chain _ _ UA (HV self) fu Hf) as (l & C0 & ND & _ & M).
  assert (l = us) by (eapply chain_fun; eauto). subst l.
  eapply rauw_loop_UWF; eauto.
Qed.

(* ------------------------------------------------------------------ Block.erase_arg *)

Lemma kill_shadow : forall s4 s5 s6 arg x4 r,
  same_I s4 s5 -> PM.find arg (s_values s4) = Some x4 -> kill [GValue arg] s5 = (s6, Ok r) ->
  same_I (with_values (PM.add arg (set_v_dead true x4) (s_values s4)) s4) s6.
Proof.
  intros s4 s5 s6 arg x4 r (Ao & Ab & Av) F4 H. unfold kill in H. simpl in H.
  apply bind_ok in H as (s & r0 & Hk & Hr). apply ret_ok in Hr as [-> _]. apply updV_ok in Hk as (x5 & F5 & ->).
  split; [|split]; simpl.
  - exact Ao.
  - exact Ab.
  - intro i. rewrite !find_add. destruct (Pos.eqb_spec i arg) as [->|N].
    + specialize (Av arg). rewrite F4, F5 in Av. simpl in Av. unfold pI_val in Av. injection Av as K D.
      simpl. unfold pI_val. simpl. rewrite K. reflexivity.
    + apply Av.
Qed.

Lemma In_split3 : forall {A} (l : list A) n a x, nth_error l n = Some a -> In x l ->
  In x (firstn n l) \/ x = a \/ In x (skipn (S n) l).
Proof.
  intros A l n a x Nn I. destruct (In_nth_error _ _ I) as (k & Nk).
  destruct (Nat.lt_trichotomy k n) as [Lt|[->|Gt]].
  - left. apply nth_error_In with (n := k). rewrite nth_error_firstn by lia. exact Nk.
  - right. left. congruence.
  - right. right. apply nth_error_In with (n := (k - S n)%nat). rewrite nth_error_skipn.
    replace (S n + (k - S n))%nat with k by lia. exact Nk.
Qed.

(* `val_live s arg` is needed: an argument that was already erased keeps its (stale) index, and erasing
   it a second time would remove whatever argument now sits at that position *)
Theorem erase_arg_WF : forall s s' b arg safe r,
  WF s -> blk_live s b -> val_live s arg -> erase_arg b arg safe s = (s', Ok r) -> WF s'.
Proof.
  intros s s' b arg safe r W (br & Fb & Eb) (ar & Fa & Da) H.
  pose proof (erase_arg_T1 b arg safe s s' _ H) as T1.
  pose proof (erase_arg_T2 b arg safe s s' _ H) as T2.
  pose proof (erase_arg_T3 b arg safe s s' _ H) as T3.
  unfold erase_arg in H.
  apply bind_ok in H as (s0 & ar0 & Hg & H). apply getV_ok in Hg as [-> Fa0].
  rewrite Fa in Fa0. injection Fa0 as <-.
  pose proof (wf_owner s W arg ar Fa Da) as Ow.
  revert H Ow. destruct (v_kind ar) as [o i|ab aidx|old] eqn:Ka; intros H Ow;
    try (exfalso; eapply raise_ok; eauto; fail).
  revert H. destruct (Pos.eqb_spec ab b) as [->|Nb]; simpl; intro H; [|exfalso; eapply raise_ok; eauto].
  apply bind_ok in H as (s0 & br0 & Hg & H). apply getB_ok in Hg as [-> Fb0].
  rewrite Fb in Fb0. injection Fb0 as <-.
  destruct Ow as (br1 & Fb1 & Zarg). rewrite Fb in Fb1. injection Fb1 as <-.
  pose proof (znth_lt _ _ _ Zarg) as Ri.
  destruct (znth_some _ _ _ Zarg) as (n & -> & Nn).
  apply bind_ok in H as (s2 & r2 & Hl & H).
  apply bind_ok in H as (s3 & r3 & Hu & H).
  apply bind_ok in H as (s5 & r5 & Hv & Hk).
  rewrite slice_from_eq in Hl, Hu by lia. rewrite slice_to_eq in Hu by lia.
  replace (Z.to_nat (Z.of_nat n + 1)) with (S n) in Hl, Hu by lia. rewrite Nat2Z.id in Hu.
  set (args := b_args br) in *.
  assert (Ln : (n < length args)%nat) by (unfold zlen in Ri; lia).
  pose proof (fresh_value s W) as FR.
  pose proof (args_NoDup s b br (wf_args s W) Fb Eb) as NDa. fold args in NDa.
  assert (ArgK : forall v j, nth_error args j = Some v ->
            exists vr, PM.find v (s_values s) = Some vr /\ v_kind vr = KArg b (Z.of_nat j)).
  { intros w j N. exact (wf_args s W b br Fb Eb j w N). }
  destruct (shift_loop (-1) _ _ _ _ (NoDup_skipn args (S n) NDa) Hl) as (Eo2 & Eb2 & Ev2).
  (* SSAValue.erase *)
  unfold value_erase in Hv.
  apply bind_ok in Hv as (s3' & fu & Hf & Hv). apply get_first_use_eff in Hf as [-> _].
  destruct (safe && is_some fu); [exfalso; eapply raise_ok; eauto|].
  apply bind_ok in Hv as (s4 & e & Ha & Hr).
  set (rec := mkValue (KErased arg) None false) in *.
  (* the groups U and A step by step *)
  assert (SU2 : same_U s s2) by (eapply (pres_forM _ fr_U); [|exact Hl]; apply add_index_U).
  assert (SU3 : same_U s2 s3) by (eapply updB_same_U; [|exact Hu]; intro x; reflexivity).
  assert (SA2 : same_A s s2) by (eapply (pres_forM _ fr_A); [|exact Hl]; apply add_index_A).
  assert (SA3 : same_A s2 s3) by (eapply updB_same_A; exact Hu).
  assert (U3 : UWF s3) by (eapply UWF_same; [eapply UWF_same; [apply WF_UWF; exact W|exact SU2]|exact SU3]).
  assert (A3 : WF_alloc s3) by (eapply WF_alloc_same; [exact SA3|eapply WF_alloc_same; [exact SA2|apply (wf_alloc s W)]]).
  pose proof (fresh_of_alloc s3 A3) as FR3.
  assert (N3 : n_value s3 = n_value s).
  { destruct SA2 as (_ & _ & _ & _ & _ & _ & _ & _ & Q2 & _). destruct SA3 as (_ & _ & _ & _ & _ & _ & _ & _ & Q3 & _). congruence. }
  pose proof (allocV_UWF rec s3 s4 e U3 FR3 eq_refl Ha) as U4.
  pose proof (rauw_UWF _ _ _ _ _ U4 Hr) as U5.
  pose proof (allocV_alloc _ _ _ _ A3 Ha) as A4.
  pose proof (WF_alloc_same _ _ (rauw_A _ _ _ _ _ Hr) A4) as A5.
  pose proof (rauw_I _ _ _ _ _ Hr) as SI45.
  destruct (allocV_eff _ _ _ _ Ha) as (En & Eo4 & Eb4 & Ev4).
  apply WF_parts with (s := s); try assumption.
  - eapply UWF_same; [exact U5|]. eapply kill_value_U. exact Hk.
  - eapply WF_alloc_same; [|exact A5]. eapply kill_value_A. exact Hk.
  - (* indices *)
    apply updB_ok in Hu as (xb & Fx & ->). rewrite Eb2, Fb in Fx. injection Fx as <-.
    cbn [b_args set_b_args s_ops s_blocks s_values n_value with_values with_blocks] in Eo4, Eb4, Ev4, En, FR3, N3.
    assert (Fe : PM.find e (s_values s) = None) by (rewrite En, N3; exact FR).
    assert (ArgNI : mem arg (skipn (S n) args) = false).
    { apply mem_false. intro I. destruct (In_skipn _ _ _ I) as (k & Lk & Nk).
      pose proof (NoDup_nth_eq _ _ _ _ NDa Nn Nk). lia. }
    assert (Ne : arg <> e) by (intro E; rewrite E in Fa; congruence).
    assert (F4 : PM.find arg (s_values s4) = Some ar).
    { rewrite Ev4, find_add, <- En. destruct (Pos.eqb_spec arg e); [contradiction|].
      rewrite Ev2, ArgNI. exact Fa. }
    pose proof (kill_shadow _ _ _ _ _ _ SI45 F4 Hk) as SI.
    apply (WF_index_same _ _ SI).
    assert (FV : forall w, PM.find w (PM.add arg (set_v_dead true ar) (s_values s4)) =
              if Pos.eqb w arg then Some (set_v_dead true ar)
              else if Pos.eqb w e then Some rec
              else if mem w (skipn (S n) args) then option_map (shift (-1)) (PM.find w (s_values s))
              else PM.find w (s_values s)).
    { intro w. rewrite find_add. destruct (Pos.eqb w arg); [reflexivity|].
      rewrite Ev4, find_add, <- En. destruct (Pos.eqb w e); [reflexivity|]. apply Ev2. }
    eapply (reindex_I s _ b br (set_b_args (firstn n args ++ skipn (S n) args) br));
      [apply (wf_results s W)|apply (wf_args s W)|apply (wf_owner s W)|exact Fb|exact Eb| | | | | | ];
      cbn [b_args set_b_args s_ops s_blocks s_values n_value with_values with_blocks].
    + rewrite Eo4, Eo2. reflexivity.
    + intros b' Nb. rewrite Eb4. rewrite find_add_other by exact Nb. rewrite Eb2. reflexivity.
    + rewrite Eb4. apply find_add_same.
    + (* members of the new list *)
      intros i w N. rewrite nth_delete in N by exact Ln. rewrite FV.
      destruct (Nat.ltb_spec i n) as [Lt|Ge].
      * destruct (ArgK _ _ N) as (vr & Fv & K).
        destruct (Pos.eqb_spec w arg) as [->|_]; [pose proof (NoDup_nth_eq _ _ _ _ NDa N Nn); lia|].
        destruct (Pos.eqb_spec w e) as [->|_]; [congruence|].
        assert (M : mem w (skipn (S n) args) = false).
        { apply mem_false. intro I. destruct (In_skipn _ _ _ I) as (k & Lk & Nk).
          pose proof (NoDup_nth_eq _ _ _ _ NDa N Nk). lia. }
        rewrite M. exists vr. auto.
      * destruct (ArgK _ _ N) as (vr & Fv & K).
        destruct (Pos.eqb_spec w arg) as [->|_]; [pose proof (NoDup_nth_eq _ _ _ _ NDa N Nn); lia|].
        destruct (Pos.eqb_spec w e) as [->|_]; [congruence|].
        assert (M : mem w (skipn (S n) args) = true).
        { apply mem_In. apply nth_error_In with (n := (i - n)%nat). rewrite nth_error_skipn.
          replace (S n + (i - n))%nat with (S i) by lia. exact N. }
        rewrite M, Fv. simpl. exists (shift (-1) vr). split; [reflexivity|].
        unfold shift. rewrite K. cbn [v_kind set_v_kind]. f_equal. lia.
    + (* the other values *)
      intros w vr' NI Fw D. rewrite FV in Fw.
      destruct (Pos.eqb_spec w arg) as [->|Na]; [injection Fw as <-; simpl in D; discriminate|].
      destruct (Pos.eqb_spec w e) as [->|Nwe]; [injection Fw as <-; left; exists arg; reflexivity|].
      assert (M : mem w (skipn (S n) args) = false).
      { apply mem_false. intro I. apply NI. apply in_or_app. right. exact I. }
      rewrite M in Fw. right. exists vr'. split; [exact Fw|]. split; [reflexivity|]. split; [exact D|].
      intro I. change (In w args) in I. destruct (In_split3 _ _ _ _ Nn I) as [I1|[I1|I1]].
      * apply NI. apply in_or_app. left. exact I1.
      * contradiction.
      * apply NI. apply in_or_app. right. exact I1.
    + intros w vr Fw NIa. rewrite FV.
      destruct (Pos.eqb_spec w arg) as [->|_]; [exfalso; apply NIa; eapply nth_error_In; exact Nn|].
      destruct (Pos.eqb_spec w e) as [->|_]; [congruence|].
      assert (M : mem w (skipn (S n) args) = false).
      { apply mem_false. intro I. apply NIa. destruct (In_skipn _ _ _ I) as (k & _ & Nk). eapply nth_error_In; exact Nk. }
      rewrite M. exists vr. auto.
Qed.

(* ------------------------------------------------------------------ PatternRewriter.erase_block_argument *)

(* SSAValue.erase keeps the kind and the dead mark of every existing value *)
Lemma value_erase_keeps : forall s s' v safe r, WF s -> value_erase v safe s = (s', Ok r) ->
  forall w x, PM.find w (s_values s) = Some x ->
    exists x', PM.find w (s_values s') = Some x' /\ v_kind x' = v_kind x /\ v_dead x' = v_dead x.
Proof.
  intros s s' v safe r W H w x Fw. unfold value_erase in H.
  apply bind_ok in H as (s0 & fu & Hf & H). apply get_first_use_eff in Hf as [-> _].
  destruct (safe && is_some fu); [exfalso; eapply raise_ok; eauto|].
  apply bind_ok in H as (s4 & e & Ha & Hr).
  destruct (allocV_eff _ _ _ _ Ha) as (En & _ & _ & Ev4).
  pose proof (fresh_value s W) as FR.
  assert (F4 : PM.find w (s_values s4) = Some x).
  { rewrite Ev4, find_add. destruct (Pos.eqb_spec w (n_value s)) as [->|_]; [congruence|exact Fw]. }
  destruct (rauw_I _ _ _ _ _ Hr) as (_ & _ & Av).
  destruct (agree_find_rev _ _ _ _ _ Av F4) as (x' & F' & P). unfold pI_val in P. injection P as P1 P2.
  exists x'. auto.
Qed.

Theorem pr_erase_block_argument_WF : forall s s' arg safe r,
  WF s -> val_live s arg ->
  (forall vr b i, PM.find arg (s_values s) = Some vr -> v_kind vr = KArg b i -> blk_live s b) ->
  pr_erase_block_argument arg safe s = (s', Ok r) -> WF s'.
Proof.
  intros s s' arg safe r W (ar & Fa & Da) BL H. unfold pr_erase_block_argument in H.
  apply bind_ok in H as (s1 & r1 & Hv & H). unfold pr_replace_all_uses_with in Hv.
  pose proof (value_erase_WF _ _ _ _ _ W Hv) as W1.
  destruct (value_erase_keeps _ _ _ _ _ W Hv arg ar Fa) as (ar1 & Fa1 & K1 & D1).
  destruct (value_erase_T1 _ _ _ _ _ Hv) as [_ Ab].
  apply bind_ok in H as (s2 & ar2 & Hg & H). apply getV_ok in Hg as [-> Fa2].
  rewrite Fa1 in Fa2. injection Fa2 as <-.
  revert H. rewrite K1. destruct (v_kind ar) as [o i|b i|old] eqn:Ka; intro H;
    try (exfalso; eapply raise_ok; eauto; fail).
  destruct (BL ar b i Fa Ka) as (br & Fb & Eb).
  destruct (agree_find_rev _ _ _ _ _ Ab Fb) as (br1 & Fb1 & P). unfold pT1_blk in P. injection P as _ _ P3.
  eapply (erase_arg_WF s1 s' b arg safe r W1); [| |exact H].
  - exists br1. split; [exact Fb1|congruence].
  - exists ar1. split; [exact Fa1|congruence].
Qed.
