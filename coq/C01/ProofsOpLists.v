(* C01/ProofsOpLists.v -- WF is preserved by the op-list mutators Block.add_ops,
   Block.insert_ops_before, Block.insert_ops_after and Rewriter.insert_op, as folds of the
   single insertions of ProofsOps.v.

   Liveness (the ghost erased marks) is carried along the folds by the frame relation
   `same_live`: no object that is live before a step is erased or removed by the step. *)
From Coq Require Import ZArith List Bool PArith FMapPositive Lia.
From XV Require Import C01.Model C01.Spec C01.ProofsBase C01.ProofsFrame C01.ProofsUses C01.ProofsOperands
  C01.ProofsDll C01.ProofsOps C01.ProofsBlocks.
Import ListNotations.

(* ------------------------------------------------------------------ the liveness frame *)

Definition same_live (s s' : state) : Prop :=
  (forall o, op_live s o -> op_live s' o) /\
  (forall b, blk_live s b -> blk_live s' b) /\
  (forall r, reg_live s r -> reg_live s' r).

Lemma fr_live : frame_rel same_live.
Proof.
  split.
  - intro s. split; [|split]; intros; assumption.
  - intros s1 s2 s3 (A1 & A2 & A3) (B1 & B2 & B3). split; [|split]; intros; auto.
Qed.

Lemma updO_same_live : forall o f, (forall x, o_erased (f x) = o_erased x) -> preserves same_live (updO o f).
Proof.
  intros o f E s s' r H. unfold updO in H. destruct (PM.find o (s_ops s)) as [x|] eqn:F.
  - inversion H; subst; clear H. split; [|split]; [|intros b Hb; exact Hb|intros q Hq; exact Hq].
    intros o' (y & Fy & Ey). unfold op_live. simpl. rewrite find_add.
    destruct (Pos.eqb_spec o' o) as [->|N].
    + rewrite F in Fy. injection Fy as <-. exists (f x). split; [reflexivity|]. rewrite E. exact Ey.
    + exists y. auto.
  - inversion H; subst. apply fr_live.
Qed.
Lemma updB_same_live : forall b f, (forall x, b_erased (f x) = b_erased x) -> preserves same_live (updB b f).
Proof.
  intros b f E s s' r H. unfold updB in H. destruct (PM.find b (s_blocks s)) as [x|] eqn:F.
  - inversion H; subst; clear H. split; [|split]; [intros o Ho; exact Ho| |intros q Hq; exact Hq].
    intros b' (y & Fy & Ey). unfold blk_live. simpl. rewrite find_add.
    destruct (Pos.eqb_spec b' b) as [->|N].
    + rewrite F in Fy. injection Fy as <-. exists (f x). split; [reflexivity|]. rewrite E. exact Ey.
    + exists y. auto.
  - inversion H; subst. apply fr_live.
Qed.
Lemma updR_same_live : forall q f, (forall x, r_erased (f x) = r_erased x) -> preserves same_live (updR q f).
Proof.
  intros q f E s s' r H. unfold updR in H. destruct (PM.find q (s_regions s)) as [x|] eqn:F.
  - inversion H; subst; clear H. split; [|split]; [intros o Ho; exact Ho|intros b Hb; exact Hb|].
    intros q' (y & Fy & Ey). unfold reg_live. simpl. rewrite find_add.
    destruct (Pos.eqb_spec q' q) as [->|N].
    + rewrite F in Fy. injection Fy as <-. exists (f x). split; [reflexivity|]. rewrite E. exact Ey.
    + exists y. auto.
  - inversion H; subst. apply fr_live.
Qed.
Lemma updV_same_live : forall v f, preserves same_live (updV v f).
Proof.
  intros v f s s' r H. unfold updV in H. destruct (PM.find v (s_values s)); inversion H; subst; [|apply fr_live].
  split; [|split]; intros ? Q; exact Q.
Qed.
Lemma updU_same_live : forall u f, preserves same_live (updU u f).
Proof.
  intros u f s s' r H. unfold updU in H. destruct (PM.find u (s_uses s)); inversion H; subst; [|apply fr_live].
  split; [|split]; intros ? Q; exact Q.
Qed.

#[export] Hint Resolve fr_live updV_same_live updU_same_live : pres.
#[export] Hint Extern 1 (preserves same_live (updO _ _)) => apply updO_same_live; intros ?; reflexivity : pres.
#[export] Hint Extern 1 (preserves same_live (updB _ _)) => apply updB_same_live; intros ?; reflexivity : pres.
#[export] Hint Extern 1 (preserves same_live (updR _ _)) => apply updR_same_live; intros ?; reflexivity : pres.

Lemma insert_op_after_live : forall b n e, preserves same_live (insert_op_after b n e).
Proof. intros. pres_ops fr_live. Qed.
Lemma insert_op_before_live : forall b n e, preserves same_live (insert_op_before b n e).
Proof. intros. pres_ops fr_live. Qed.
Lemma add_op_live : forall b o, preserves same_live (add_op b o).
Proof. intros. unfold add_op. pres fr_live; pres_ops fr_live. Qed.
#[export] Hint Resolve insert_op_after_live insert_op_before_live add_op_live : pres.

(* ------------------------------------------------------------------ Block.add_ops *)

Theorem add_ops_WF : forall ops s s' b r,
  WF s -> blk_live s b -> (forall o, In o ops -> op_live s o) ->
  add_ops b ops s = (s', Ok r) -> WF s'.
Proof.
  unfold add_ops. induction ops as [|o rest IH]; intros s s' b r W BL OL H; simpl in H.
  - apply ret_ok in H as [-> _]. exact W.
  - apply bind_ok in H as (s1 & u & H1 & H2).
    destruct (add_op_live b o s s1 _ H1) as (LO & LB & _).
    eapply (IH s1 s' b r); [| | |exact H2].
    + eapply add_op_WF; [exact W|exact BL| |exact H1]. apply OL. left. reflexivity.
    + apply LB. exact BL.
    + intros o' I. apply LO. apply OL. right. exact I.
Qed.

(* ------------------------------------------------------------------ Block.insert_ops_before *)

Theorem insert_ops_before_WF : forall ops s s' b ex r,
  WF s -> blk_live s b -> op_live s ex ->
  insert_ops_before b ops ex s = (s', Ok r) -> WF s'.
Proof.
  unfold insert_ops_before. induction ops as [|o rest IH]; intros s s' b ex r W BL EL H; simpl in H.
  - apply ret_ok in H as [-> _]. exact W.
  - apply bind_ok in H as (s1 & u & H1 & H2).
    destruct (insert_op_before_live b o ex s s1 _ H1) as (LO & LB & _).
    eapply (IH s1 s' b ex r); [| | |exact H2].
    + eapply insert_op_before_WF; [exact W|exact BL|exact EL|exact H1].
    + apply LB. exact BL.
    + apply LO. exact EL.
Qed.

(* ------------------------------------------------------------------ Block.insert_ops_after *)

Theorem insert_ops_after_WF : forall ops s s' b ex r,
  WF s -> blk_live s b -> op_live s ex -> (forall o, In o ops -> op_live s o) ->
  insert_ops_after b ops ex s = (s', Ok r) -> WF s'.
Proof.
  induction ops as [|o rest IH]; intros s s' b ex r W BL EL OL H; simpl in H.
  - apply ret_ok in H as [-> _]. exact W.
  - apply bind_ok in H as (s1 & u & H1 & H2).
    destruct (insert_op_after_live b o ex s s1 _ H1) as (LO & LB & _).
    eapply (IH s1 s' b o r); [| | | |exact H2].
    + eapply insert_op_after_WF; [exact W|exact BL|exact EL|exact H1].
    + apply LB. exact BL.
    + apply LO. apply OL. left. reflexivity.
    + intros o' I. apply LO. apply OL. right. exact I.
Qed.

(* ------------------------------------------------------------------ Rewriter.insert_op *)

Lemma check_insert_point_state : forall b ib s s' r, check_insert_point b ib s = (s', Ok r) -> s' = s.
Proof.
  intros b ib s s' r H. unfold check_insert_point in H. destruct ib as [o|].
  - apply bind_ok in H as (s1 & x & Hg & H). apply getO_ok in Hg as [-> _].
    destruct (negb (opt_eqb (o_parent x) (Some b))); [exfalso; eapply raise_ok; eauto|].
    apply ret_ok in H as [-> _]. reflexivity.
  - apply ret_ok in H as [-> _]. reflexivity.
Qed.

Theorem rw_insert_op_WF : forall ops s s' b ib r,
  WF s -> blk_live s b -> (forall o, In o ops -> op_live s o) ->
  (forall e, ib = Some e -> op_live s e) ->
  rw_insert_op ops b ib s = (s', Ok r) -> WF s'.
Proof.
  intros ops s s' b ib r W BL OL EL H. unfold rw_insert_op in H.
  apply bind_ok in H as (s0 & u & Hc & H). apply check_insert_point_state in Hc. subst s0.
  destruct ib as [e|].
  - eapply insert_ops_before_WF; [exact W|exact BL|apply EL; reflexivity|exact H].
  - eapply add_ops_WF; [exact W|exact BL|exact OL|exact H].
Qed.
