(* C01/ProofsBlocks.v -- WF is preserved by the block-in-region mutators Region.detach_block
   (by block and by index). *)
From Coq Require Import ZArith List Bool PArith FMapPositive Lia.
From XV Require Import C01.Model C01.Spec C01.ProofsBase C01.ProofsFrame C01.ProofsUses C01.ProofsOperands
  C01.ProofsDll C01.ProofsOps.
Import ListNotations.

(* ------------------------------------------------------------------ the T2 view of a state *)

Definition blive (s : state) (b : bid) : bool :=
  match PM.find b (s_blocks s) with Some x => negb (b_erased x) | None => false end.
Definition rFL (s : state) (r : rid) : option (option bid * option bid) :=
  match PM.find r (s_regions s) with
  | Some rr => if r_erased rr then None else Some (r_first rr, r_last rr)
  | None => None
  end.
Definition viewT2 (s : state) : dview :=
  mkView (blk_next s) (blk_prev s) (link (s_blocks s) b_parent) (blive s) (rFL s).

Lemma WF_region_Dabs : forall s, WF_region s <-> Dabs (viewT2 s).
Proof.
  intro s. split.
  - intros W r f la H. simpl in H. unfold rFL in H.
    destruct (PM.find r (s_regions s)) as [rr|] eqn:F; [|discriminate].
    destruct (r_erased rr) eqn:E; [discriminate|]. injection H as <- <-.
    destruct (W r rr F E) as (l & C1 & C2 & ND & M1 & M2). exists l. repeat split; try assumption.
    + intros x Ix. simpl. unfold link. destruct (M1 x Ix) as (xr & Fx & Px). rewrite Fx. simpl. f_equal. exact Px.
    + intros x Lx Px. simpl in Lx, Px. unfold blive in Lx. unfold link in Px.
      destruct (PM.find x (s_blocks s)) as [xr|] eqn:Fx; [|discriminate]. simpl in Px. injection Px as Px.
      eapply M2; eauto. destruct (b_erased xr); [discriminate|reflexivity].
  - intros D r rr F E. destruct (D r (r_first rr) (r_last rr)) as (l & C1 & C2 & ND & M1 & M2).
    { simpl. unfold rFL. rewrite F, E. reflexivity. }
    exists l. repeat split; try assumption.
    + intros o Io. specialize (M1 o Io). simpl in M1. unfold link in M1.
      destruct (PM.find o (s_blocks s)) as [x|]; [|discriminate]. simpl in M1. injection M1 as M1. eauto.
    + intros o x Fx Ex Px. apply M2; simpl.
      * unfold blive. rewrite Fx, Ex. reflexivity.
      * unfold link. rewrite Fx. simpl. f_equal. exact Px.
Qed.

Lemma detached_blocks_Ddet : forall s,
  (forall b x, PM.find b (s_blocks s) = Some x -> b_erased x = false -> b_parent x = None ->
               b_next x = None /\ b_prev x = None) <-> Ddet (viewT2 s).
Proof.
  intro s. split.
  - intros W x Lx Px. simpl in *. unfold blive in Lx. unfold link in Px. unfold blk_next, blk_prev, link.
    destruct (PM.find x (s_blocks s)) as [xr|] eqn:F; [|discriminate]. simpl in *. injection Px as Px.
    destruct (W x xr F) as [Q1 Q2]; [destruct (b_erased xr); [discriminate|reflexivity]|exact Px|].
    rewrite Q1, Q2. auto.
  - intros D o x F E P. destruct (D o) as [Q1 Q2].
    + simpl. unfold blive. rewrite F, E. reflexivity.
    + simpl. unfold link. rewrite F. simpl. rewrite P. reflexivity.
    + simpl in Q1, Q2. unfold blk_next, blk_prev, link in *. rewrite F in *. simpl in *.
      injection Q1 as Q1. injection Q2 as Q2. auto.
Qed.

(* effect of the primitive writes on the T2 view *)
Ltac t2_view_tac y F :=
  repeat split; (let z := fresh "z" in intro z; unfold blk_next, blk_prev, blive, fupd; simpl; rewrite ?link_add, ?find_add;
    destruct (Pos.eqb_spec z y) as [->|]; try reflexivity; unfold link; rewrite ?F; reflexivity).

Lemma updB_next_view2 : forall y v s s' r, updB y (set_b_next v) s = (s', Ok r) ->
  (forall z, dN (viewT2 s') z = fupd (dN (viewT2 s)) y (Some v) z) /\
  (forall z, dP (viewT2 s') z = dP (viewT2 s) z) /\ (forall z, dPar (viewT2 s') z = dPar (viewT2 s) z) /\
  (forall z, dLive (viewT2 s') z = dLive (viewT2 s) z) /\ (forall z, dFL (viewT2 s') z = dFL (viewT2 s) z).
Proof. intros y v s s' r H. apply updB_ok in H as (x & F & ->). simpl. t2_view_tac y F. Qed.
Lemma updB_prev_view2 : forall y v s s' r, updB y (set_b_prev v) s = (s', Ok r) ->
  (forall z, dN (viewT2 s') z = dN (viewT2 s) z) /\
  (forall z, dP (viewT2 s') z = fupd (dP (viewT2 s)) y (Some v) z) /\ (forall z, dPar (viewT2 s') z = dPar (viewT2 s) z) /\
  (forall z, dLive (viewT2 s') z = dLive (viewT2 s) z) /\ (forall z, dFL (viewT2 s') z = dFL (viewT2 s) z).
Proof. intros y v s s' r H. apply updB_ok in H as (x & F & ->). simpl. t2_view_tac y F. Qed.
Lemma updB_parent_view2 : forall y v s s' r, updB y (set_b_parent v) s = (s', Ok r) ->
  (forall z, dN (viewT2 s') z = dN (viewT2 s) z) /\
  (forall z, dP (viewT2 s') z = dP (viewT2 s) z) /\ (forall z, dPar (viewT2 s') z = fupd (dPar (viewT2 s)) y (Some v) z) /\
  (forall z, dLive (viewT2 s') z = dLive (viewT2 s) z) /\ (forall z, dFL (viewT2 s') z = dFL (viewT2 s) z).
Proof. intros y v s s' r H. apply updB_ok in H as (x & F & ->). simpl. t2_view_tac y F. Qed.

Lemma updR_first_view2 : forall b v s s' r, updR b (set_r_first v) s = (s', Ok r) ->
  (forall z, dN (viewT2 s') z = dN (viewT2 s) z) /\
  (forall z, dP (viewT2 s') z = dP (viewT2 s) z) /\ (forall z, dPar (viewT2 s') z = dPar (viewT2 s) z) /\
  (forall z, dLive (viewT2 s') z = dLive (viewT2 s) z) /\
  (forall z, dFL (viewT2 s') z = fupd (dFL (viewT2 s)) b (set_fst v (dFL (viewT2 s) b)) z).
Proof.
  intros b v s s' r H. apply updR_ok in H as (x & F & ->). simpl.
  repeat split; try (intro z; reflexivity).
  intro z. unfold rFL, fupd. simpl. rewrite find_add. destruct (Pos.eqb_spec z b) as [->|]; [|reflexivity].
  rewrite F. simpl. destruct (r_erased x); reflexivity.
Qed.
Lemma updR_last_view2 : forall b v s s' r, updR b (set_r_last v) s = (s', Ok r) ->
  (forall z, dN (viewT2 s') z = dN (viewT2 s) z) /\
  (forall z, dP (viewT2 s') z = dP (viewT2 s) z) /\ (forall z, dPar (viewT2 s') z = dPar (viewT2 s) z) /\
  (forall z, dLive (viewT2 s') z = dLive (viewT2 s) z) /\
  (forall z, dFL (viewT2 s') z = fupd (dFL (viewT2 s)) b (set_snd v (dFL (viewT2 s) b)) z).
Proof.
  intros b v s s' r H. apply updR_ok in H as (x & F & ->). simpl.
  repeat split; try (intro z; reflexivity).
  intro z. unfold rFL, fupd. simpl. rewrite find_add. destruct (Pos.eqb_spec z b) as [->|]; [|reflexivity].
  rewrite F. simpl. destruct (r_erased x); reflexivity.
Qed.

Lemma getB_view2 : forall b s x, PM.find b (s_blocks s) = Some x ->
  dN (viewT2 s) b = Some (b_next x) /\ dP (viewT2 s) b = Some (b_prev x) /\ dPar (viewT2 s) b = Some (b_parent x).
Proof. intros b s x F. simpl. unfold blk_next, blk_prev, link. rewrite F. auto. Qed.

(* generic view rewriting (any view function) *)
Ltac vrew2 :=
  repeat match goal with
         | H : forall z, dN ?X z = _ |- context [dN ?X _] => rewrite H
         | H : forall z, dP ?X z = _ |- context [dP ?X _] => rewrite H
         | H : forall z, dPar ?X z = _ |- context [dPar ?X _] => rewrite H
         | H : forall z, dLive ?X z = _ |- context [dLive ?X _] => rewrite H
         | H : forall z, dFL ?X z = _ |- context [dFL ?X _] => rewrite H
         | |- context [fupd] => progress (unfold fupd)
         end.
Ltac vrew2_in Q :=
  repeat match type of Q with
         | context [dN ?X _] => match goal with H : forall z, dN X z = _ |- _ => rewrite H in Q end
         | context [dP ?X _] => match goal with H : forall z, dP X z = _ |- _ => rewrite H in Q end
         | context [dPar ?X _] => match goal with H : forall z, dPar X z = _ |- _ => rewrite H in Q end
         | context [dLive ?X _] => match goal with H : forall z, dLive X z = _ |- _ => rewrite H in Q end
         | context [dFL ?X _] => match goal with H : forall z, dFL X z = _ |- _ => rewrite H in Q end
         | context [fupd] => progress (unfold fupd in Q)
         end.

Definition reg_live (s : state) (r : rid) : Prop :=
  exists rr, PM.find r (s_regions s) = Some rr /\ r_erased rr = false.
Lemma reg_live_FL : forall s r, reg_live s r -> exists f la, dFL (viewT2 s) r = Some (f, la).
Proof. intros s r (rr & F & E). simpl. unfold rFL. rewrite F, E. eauto. Qed.

(* frame of detach_block for the other groups *)
Ltac pres_blk FR := unfold detach_block, detach_block_core; pres FR.
Lemma detach_block_core_T1 : forall r b, preserves same_T1 (detach_block_core r b). Proof. intros. pres_blk fr_T1. Qed.
Lemma detach_block_core_T3 : forall r b, preserves same_T3 (detach_block_core r b). Proof. intros. pres_blk fr_T3. Qed.
Lemma detach_block_core_U : forall r b, preserves same_U (detach_block_core r b). Proof. intros. pres_blk fr_U. Qed.
Lemma detach_block_core_I : forall r b, preserves same_I (detach_block_core r b). Proof. intros. pres_blk fr_I. Qed.
Lemma detach_block_core_A : forall r b, preserves same_A (detach_block_core r b). Proof. intros. pres_blk fr_A. Qed.

(* WF from the T2 group *)
Lemma UWF_same : forall s s', UWF s -> same_U s s' -> UWF s'.
Proof.
  intros s s' UW SU. destruct (UWF_Uabs s UW) as [UA LN]. destruct SU as (Ao & Av & Ab & Au).
  apply Uabs_UWF.
  - eapply Uabs_ext; [| | |exact UA].
    + intro u. specialize (Au u). destruct (PM.find u (s_uses s')), (PM.find u (s_uses s)); simpl in Au; congruence.
    + intros [v|b]; simpl; unfold link.
      * specialize (Av v). unfold pU_val in Av.
        destruct (PM.find v (s_values s')), (PM.find v (s_values s)); simpl in *; congruence.
      * specialize (Ab b). unfold pU_blk in Ab.
        destruct (PM.find b (s_blocks s')), (PM.find b (s_blocks s)); simpl in *; congruence.
    + intros h o i u. unfold real_slot. split.
      * intros (x' & F' & E' & Z1 & Z2). destruct (agree_find _ _ _ _ _ Ao F') as (x & F & P).
        unfold pU_op in P. injection P as P1 P2 P3 P4 P5. exists x. split; [exact F|]. split; [congruence|].
        destruct h; simpl in *; rewrite <- ?P1, <- ?P2, <- ?P3, <- ?P4; auto.
      * intros (x & F & E & Z1 & Z2). destruct (agree_find_rev _ _ _ _ _ Ao F) as (x' & F' & P).
        unfold pU_op in P. injection P as P1 P2 P3 P4 P5. exists x'. split; [exact F'|]. split; [congruence|].
        destruct h; simpl in *; rewrite ?P1, ?P2, ?P3, ?P4; auto.
  - intros o x' F' E'. destruct (agree_find _ _ _ _ _ Ao F') as (x & F & P).
    unfold pU_op in P. injection P as P1 P2 P3 P4 P5. rewrite P5 in E'.
    destruct (LN o x F E') as [L1 L2]. rewrite P1, P2, P3, P4. auto.
Qed.

Lemma WF_groups_T2 : forall s s', WF s ->
  same_T1 s s' -> same_T3 s s' -> same_U s s' -> same_I s s' -> same_A s s' ->
  WF_region s' /\ Ddet (viewT2 s') -> WF s'.
Proof.
  intros s s' W T1 T3 SU SI SA [WR DD].
  pose proof (UWF_same s s' (WF_UWF s W) SU) as (U1 & U2 & U3 & U4 & U5). destruct W.
  destruct (WF_index_same s s' SI (conj wf_results (conj wf_args wf_owner))) as (I1 & I2 & I3).
  constructor; try assumption.
  - eapply WF_block_same; eauto.
  - eapply WF_opregs_same; eauto.
  - split; [|apply detached_blocks_Ddet; exact DD].
    destruct wf_detached as [W1 _]. destruct T1 as [Ao _].
    intros o x' F' E' P'. destruct (agree_find _ _ _ _ _ Ao F') as (x & F & P).
    unfold pT1_op in P. injection P as P1 P2 P3 P4. rewrite P4 in E'. rewrite P1 in P'.
    destruct (W1 o x F E' P') as [Q1 Q2]. split; congruence.
  - eapply WF_alloc_same; eauto.
Qed.

Lemma blive_view : forall s b x, PM.find b (s_blocks s) = Some x -> b_erased x = false -> dLive (viewT2 s) b = true.
Proof. intros s b x F E. simpl. unfold blive. rewrite F, E. reflexivity. Qed.

(* ------------------------------------------------------------------ Region.detach_block *)

Lemma detach_block_core_WF : forall s s' r b res,
  WF s -> reg_live s r ->
  (forall f la l, dFL (viewT2 s) r = Some (f, la) -> dll_at (viewT2 s) r f la l -> In b l) ->
  detach_block_core r b s = (s', Ok res) -> WF s'.
Proof.
  intros s s' r b res W RL HIn H.
  eapply (WF_groups_T2 s s' W); [eapply detach_block_core_T1|eapply detach_block_core_T3|eapply detach_block_core_U|
                                 eapply detach_block_core_I|eapply detach_block_core_A|]; try exact H.
  pose proof (proj1 (detached_blocks_Ddet s) (proj2 (wf_detached s W))) as DD.
  rewrite WF_region_Dabs. pose proof (proj1 (WF_region_Dabs s) (wf_region s W)) as D.
  unfold detach_block_core in H.
  apply bind_ok in H as (s1 & ? & H1 & H).
  destruct (updB_parent_view2 _ _ _ _ _ H1) as (N1 & P1 & R1 & L1 & F1).
  apply bind_ok in H as (s1' & br & Hg & H). apply getB_ok in Hg as [-> Fb1].
  apply bind_ok in H as (s3 & ? & Hprev & H).
  apply bind_ok in H as (s3' & br' & Hg & H). apply getB_ok in Hg as [-> Fb3].
  apply bind_ok in H as (s5 & ? & Hnext & H).
  apply bind_ok in H as (s6 & ? & H6 & H).
  destruct (updB_prev_view2 _ _ _ _ _ H6) as (N6 & P6 & R6 & L6 & F6).
  apply bind_ok in H as (s7 & ? & H7 & Hret). apply ret_ok in Hret as [<- _].
  destruct (updB_next_view2 _ _ _ _ _ H7) as (N7 & P7 & R7 & L7 & F7).
  destruct (reg_live_FL s r RL) as (f & la & FLr).
  destruct (D r f la FLr) as (l & DL). pose proof DL as (C1 & C2 & ND & M1 & M2).
  assert (Ib : In b l) by (eapply HIn; eauto).
  pose proof (M1 b Ib) as Vpar.
  destruct (in_split _ _ Ib) as (l1 & l2 & ->).
  pose proof (dll_prev_of _ _ _ _ _ _ _ DL) as Px. pose proof (dll_next_of _ _ _ _ _ _ _ DL) as Nx.
  (* fields read after the parent write *)
  destruct (getB_view2 _ _ _ Fb1) as (Vn1 & Vp1 & _). vrew2_in Vn1. vrew2_in Vp1.
  rewrite Nx in Vn1. injection Vn1 as Enext. rewrite Px in Vp1. injection Vp1 as Eprev.
  assert (ND' := ND). destruct (NoDup_app_inv _ _ ND') as (ND1 & ND2o & D12). inversion ND2o as [|? ? No2 ND2]; subst.
  destruct (b_prev br) as [p|] eqn:Op; destruct (b_next br) as [n|] eqn:On;
    pose proof Eprev as Lp; pose proof Enext as Ln.
  - (* p and n *)
    destruct (updB_next_view2 _ _ _ _ _ Hprev) as (N3 & P3 & R3 & L3 & F3).
    assert (In_p : In p (l1 ++ b :: l2)).
    { apply last_or_In in Lp. destruct Lp as [Q|Q]; [discriminate|]. apply in_or_app. left. exact Q. }
    assert (Npo : p <> b).
    { intro; subst. apply last_or_In in Lp. destruct Lp as [Q|Q]; [discriminate|]. eapply D12; [exact Q|left; reflexivity]. }
    destruct (getB_view2 _ _ _ Fb3) as (Vn3 & Vp3 & _). vrew2_in Vn3. vrew2_in Vp3.
    rewrite Nx in Vn3. rewrite Px in Vp3.
    revert Vn3. destruct (Pos.eqb_spec b p) as [Ebp|_]; [congruence|]. intro Vn3.
    injection Vn3 as Enext3. injection Vp3 as Eprev3. rewrite <- Enext3, <- Eprev3, ?Ln, ?Lp in *.
    rewrite <- ?Ln, <- ?Lp in Hnext.
    destruct (updB_prev_view2 _ _ _ _ _ Hnext) as (N5 & P5 & R5 & L5 & F5).
    assert (In_n : In n (l1 ++ b :: l2)).
    { apply in_or_app. right. right. destruct l2; simpl in Ln; [discriminate|]. injection Ln as ->. left. reflexivity. }
    assert (Nno : n <> b).
    { intro; subst. apply No2. destruct l2; simpl in Ln; [discriminate|]. injection Ln as ->. left. reflexivity. }
    assert (Npn : p <> n).
    { intro; subst. apply last_or_In in Lp. destruct Lp as [Q|Q]; [discriminate|].
      eapply D12; [exact Q|right]. destruct l2; simpl in Ln; [discriminate|]. injection Ln as ->. left. reflexivity. }
    assert (DLb : dll_at (viewT2 s') r (match l1 with [] => hd_error l2 | _ => f end)
                         (match l2 with [] => last_or None l1 | _ => la end) (l1 ++ l2)).
    { eapply (dll_remove (viewT2 s) (viewT2 s') r f la l1 b l2 DL); rewrite ?Lp, ?Ln.
      - intros y Ny1 Ny2. vrew2. fupd_solve.
      - intros p0 E. injection E as <-. vrew2. rewrite Nx, ?Ln. fupd_solve.
      - intros y Ny1 Ny2. vrew2. fupd_solve.
      - intros n0 E. injection E as <-. vrew2. rewrite Px, ?Lp. fupd_solve.
      - intros y Ny. vrew2. fupd_solve.
      - vrew2. fupd_solve.
      - intro y. vrew2. reflexivity. }
    split.
    { intros c f' la' Hc. destruct (Pos.eq_dec c r) as [->|Nc].
      + vrew2_in Hc. rewrite ?Pos.eqb_refl in Hc. rewrite ?FLr in Hc. simpl in Hc. rewrite ?Pos.eqb_refl in Hc.
        rewrite ?FLr in Hc. simpl in Hc. injection Hc as <- <-. exists (l1 ++ l2).
        destruct l1 as [|y1 t1]; [simpl in Lp; discriminate|].
        destruct l2 as [|y2 t2]; [simpl in Ln; discriminate|].
        cbn [app] in DLb |- *. exact DLb.
      + refine (Dabs_other (viewT2 s) (viewT2 s') r D _ _ _ _ c f' la' Nc Hc).
        * intros c0 N0. vrew2. fupd_solve.
        * intros z Q1 Q2. assert (z <> b) by (intro; subst; contradiction).
          assert (z <> p) by (intro; subst; apply Q1; apply M1; assumption).
          assert (z <> n) by (intro; subst; apply Q1; apply M1; assumption).
          repeat split; vrew2; fupd_solve.
        * intro z. vrew2. reflexivity.
        * intros z c0 N0 Q. vrew2_in Q. revert Q.
          destruct (Pos.eqb_spec z b); intro Q; [discriminate|exact Q]. }
    { intros z Lz Pz. vrew2_in Lz. vrew2_in Pz. revert Pz.
      destruct (Pos.eqb_spec z b) as [->|Nzo]; intro Pz.
      - split; vrew2; rewrite ?Px, ?Nx, ?Ln, ?Lp; fupd_solve.
      - assert (Nl : ~ In z (l1 ++ b :: l2)) by (intro Q; rewrite (M1 z Q) in Pz; discriminate).
        assert (z <> p) by (intro; subst; contradiction).
        assert (z <> n) by (intro; subst; contradiction).
        destruct (DD z Lz Pz) as [Q1 Q2]. split; vrew2; fupd_solve. }
  - (* p only: b is the last block *)
    destruct (updB_next_view2 _ _ _ _ _ Hprev) as (N3 & P3 & R3 & L3 & F3).
    assert (In_p : In p (l1 ++ b :: l2)).
    { apply last_or_In in Lp. destruct Lp as [Q|Q]; [discriminate|]. apply in_or_app. left. exact Q. }
    assert (Npo : p <> b).
    { intro; subst. apply last_or_In in Lp. destruct Lp as [Q|Q]; [discriminate|]. eapply D12; [exact Q|left; reflexivity]. }
    destruct (getB_view2 _ _ _ Fb3) as (Vn3 & Vp3 & _). vrew2_in Vn3. vrew2_in Vp3.
    rewrite Nx in Vn3. rewrite Px in Vp3.
    revert Vn3. destruct (Pos.eqb_spec b p) as [Ebp|_]; [congruence|]. intro Vn3.
    injection Vn3 as Enext3. injection Vp3 as Eprev3. rewrite <- Enext3, <- Eprev3, ?Ln, ?Lp in *.
    rewrite <- ?Ln, <- ?Lp in Hnext.
    destruct (updR_last_view2 _ _ _ _ _ Hnext) as (N5 & P5 & R5 & L5 & F5).
    assert (DLb : dll_at (viewT2 s') r (match l1 with [] => hd_error l2 | _ => f end)
                         (match l2 with [] => last_or None l1 | _ => la end) (l1 ++ l2)).
    { eapply (dll_remove (viewT2 s) (viewT2 s') r f la l1 b l2 DL); rewrite ?Lp, ?Ln.
      - intros y Ny1 Ny2. vrew2. fupd_solve.
      - intros p0 E. injection E as <-. vrew2. rewrite Nx, ?Ln. fupd_solve.
      - intros y Ny1 Ny2. vrew2. fupd_solve.
      - intros n0 E. discriminate.
      - intros y Ny. vrew2. fupd_solve.
      - vrew2. fupd_solve.
      - intro y. vrew2. reflexivity. }
    split.
    { intros c f' la' Hc. destruct (Pos.eq_dec c r) as [->|Nc].
      + vrew2_in Hc. rewrite ?Pos.eqb_refl in Hc. rewrite ?FLr in Hc. simpl in Hc. rewrite ?Pos.eqb_refl in Hc.
        rewrite ?FLr in Hc. simpl in Hc. injection Hc as <- <-. exists (l1 ++ l2).
        destruct l1 as [|y1 t1]; [simpl in Lp; discriminate|].
        destruct l2 as [|y2 t2]; [|simpl in Ln; discriminate].
        cbn [app] in DLb |- *. first [exact DLb | (rewrite Lp in DLb; exact DLb)].
      + refine (Dabs_other (viewT2 s) (viewT2 s') r D _ _ _ _ c f' la' Nc Hc).
        * intros c0 N0. vrew2. fupd_solve.
        * intros z Q1 Q2. assert (z <> b) by (intro; subst; contradiction).
          assert (z <> p) by (intro; subst; apply Q1; apply M1; assumption).
          repeat split; vrew2; fupd_solve.
        * intro z. vrew2. reflexivity.
        * intros z c0 N0 Q. vrew2_in Q. revert Q.
          destruct (Pos.eqb_spec z b); intro Q; [discriminate|exact Q]. }
    { intros z Lz Pz. vrew2_in Lz. vrew2_in Pz. revert Pz.
      destruct (Pos.eqb_spec z b) as [->|Nzo]; intro Pz.
      - split; vrew2; rewrite ?Px, ?Nx, ?Ln, ?Lp; fupd_solve.
      - assert (Nl : ~ In z (l1 ++ b :: l2)) by (intro Q; rewrite (M1 z Q) in Pz; discriminate).
        assert (z <> p) by (intro; subst; contradiction).
        destruct (DD z Lz Pz) as [Q1 Q2]. split; vrew2; fupd_solve. }
  - (* n only: b is the first block *)
    destruct (updR_first_view2 _ _ _ _ _ Hprev) as (N3 & P3 & R3 & L3 & F3).
    destruct (getB_view2 _ _ _ Fb3) as (Vn3 & Vp3 & _). vrew2_in Vn3. vrew2_in Vp3.
    rewrite Nx in Vn3. rewrite Px in Vp3.
    injection Vn3 as Enext3. injection Vp3 as Eprev3. rewrite <- Enext3, <- Eprev3, ?Ln, ?Lp in *.
    rewrite <- ?Ln, <- ?Lp in Hnext.
    destruct (updB_prev_view2 _ _ _ _ _ Hnext) as (N5 & P5 & R5 & L5 & F5).
    assert (In_n : In n (l1 ++ b :: l2)).
    { apply in_or_app. right. right. destruct l2; simpl in Ln; [discriminate|]. injection Ln as ->. left. reflexivity. }
    assert (Nno : n <> b).
    { intro; subst. apply No2. destruct l2; simpl in Ln; [discriminate|]. injection Ln as ->. left. reflexivity. }
    assert (DLb : dll_at (viewT2 s') r (match l1 with [] => hd_error l2 | _ => f end)
                         (match l2 with [] => last_or None l1 | _ => la end) (l1 ++ l2)).
    { eapply (dll_remove (viewT2 s) (viewT2 s') r f la l1 b l2 DL); rewrite ?Lp, ?Ln.
      - intros y Ny1 Ny2. vrew2. fupd_solve.
      - intros p0 E. discriminate.
      - intros y Ny1 Ny2. vrew2. fupd_solve.
      - intros n0 E. injection E as <-. vrew2. rewrite Px, ?Lp. fupd_solve.
      - intros y Ny. vrew2. fupd_solve.
      - vrew2. fupd_solve.
      - intro y. vrew2. reflexivity. }
    split.
    { intros c f' la' Hc. destruct (Pos.eq_dec c r) as [->|Nc].
      + vrew2_in Hc. rewrite ?Pos.eqb_refl in Hc. rewrite ?FLr in Hc. simpl in Hc. rewrite ?Pos.eqb_refl in Hc.
        rewrite ?FLr in Hc. simpl in Hc. injection Hc as <- <-. exists (l1 ++ l2).
        pose proof (last_or_none_nil l1 Lp) as ->.
        destruct l2 as [|y2 t2]; [simpl in Ln; discriminate|].
        cbn [app] in DLb |- *. simpl in Ln. injection Ln as <-. exact DLb.
      + refine (Dabs_other (viewT2 s) (viewT2 s') r D _ _ _ _ c f' la' Nc Hc).
        * intros c0 N0. vrew2. fupd_solve.
        * intros z Q1 Q2. assert (z <> b) by (intro; subst; contradiction).
          assert (z <> n) by (intro; subst; apply Q1; apply M1; assumption).
          repeat split; vrew2; fupd_solve.
        * intro z. vrew2. reflexivity.
        * intros z c0 N0 Q. vrew2_in Q. revert Q.
          destruct (Pos.eqb_spec z b); intro Q; [discriminate|exact Q]. }
    { intros z Lz Pz. vrew2_in Lz. vrew2_in Pz. revert Pz.
      destruct (Pos.eqb_spec z b) as [->|Nzo]; intro Pz.
      - split; vrew2; rewrite ?Px, ?Nx, ?Ln, ?Lp; fupd_solve.
      - assert (Nl : ~ In z (l1 ++ b :: l2)) by (intro Q; rewrite (M1 z Q) in Pz; discriminate).
        assert (z <> n) by (intro; subst; contradiction).
        destruct (DD z Lz Pz) as [Q1 Q2]. split; vrew2; fupd_solve. }
  - (* b is the only block *)
    destruct (updR_first_view2 _ _ _ _ _ Hprev) as (N3 & P3 & R3 & L3 & F3).
    destruct (getB_view2 _ _ _ Fb3) as (Vn3 & Vp3 & _). vrew2_in Vn3. vrew2_in Vp3.
    rewrite Nx in Vn3. rewrite Px in Vp3.
    injection Vn3 as Enext3. injection Vp3 as Eprev3. rewrite <- Enext3, <- Eprev3, ?Ln, ?Lp in *.
    rewrite <- ?Ln, <- ?Lp in Hnext.
    destruct (updR_last_view2 _ _ _ _ _ Hnext) as (N5 & P5 & R5 & L5 & F5).
    assert (DLb : dll_at (viewT2 s') r (match l1 with [] => hd_error l2 | _ => f end)
                         (match l2 with [] => last_or None l1 | _ => la end) (l1 ++ l2)).
    { eapply (dll_remove (viewT2 s) (viewT2 s') r f la l1 b l2 DL); rewrite ?Lp, ?Ln.
      - intros y Ny1 Ny2. vrew2. fupd_solve.
      - intros p0 E. discriminate.
      - intros y Ny1 Ny2. vrew2. fupd_solve.
      - intros n0 E. discriminate.
      - intros y Ny. vrew2. fupd_solve.
      - vrew2. fupd_solve.
      - intro y. vrew2. reflexivity. }
    split.
    { intros c f' la' Hc. destruct (Pos.eq_dec c r) as [->|Nc].
      + vrew2_in Hc. rewrite ?Pos.eqb_refl in Hc. rewrite ?FLr in Hc. simpl in Hc. rewrite ?Pos.eqb_refl in Hc.
        rewrite ?FLr in Hc. simpl in Hc. injection Hc as <- <-. exists (l1 ++ l2).
        pose proof (last_or_none_nil l1 Lp) as ->.
        destruct l2 as [|y2 t2]; [|simpl in Ln; discriminate].
        cbn [app] in DLb |- *. first [exact DLb | (rewrite Lp in DLb; exact DLb)].
      + refine (Dabs_other (viewT2 s) (viewT2 s') r D _ _ _ _ c f' la' Nc Hc).
        * intros c0 N0. vrew2. fupd_solve.
        * intros z Q1 Q2. assert (z <> b) by (intro; subst; contradiction).
          repeat split; vrew2; fupd_solve.
        * intro z. vrew2. reflexivity.
        * intros z c0 N0 Q. vrew2_in Q. revert Q.
          destruct (Pos.eqb_spec z b); intro Q; [discriminate|exact Q]. }
    { intros z Lz Pz. vrew2_in Lz. vrew2_in Pz. revert Pz.
      destruct (Pos.eqb_spec z b) as [->|Nzo]; intro Pz.
      - split; vrew2; rewrite ?Px, ?Nx, ?Ln, ?Lp; fupd_solve.
      - assert (Nl : ~ In z (l1 ++ b :: l2)) by (intro Q; rewrite (M1 z Q) in Pz; discriminate).
        destruct (DD z Lz Pz) as [Q1 Q2]. split; vrew2; fupd_solve. }
Qed.

Theorem detach_block_WF : forall s s' r b res,
  WF s -> reg_live s r -> blk_live s b -> detach_block r b s = (s', Ok res) -> WF s'.
Proof.
  intros s s' r b res W RL (br0 & Fb0 & Eb0) H. unfold detach_block in H.
  apply bind_ok in H as (s0 & br & Hg & H). apply getB_ok in Hg as [-> Fb].
  destruct (opt_eqb (b_parent br) (Some r)) eqn:P; simpl in H; [|exfalso; eapply raise_ok; eauto].
  apply opt_eqb_eq in P. rewrite Fb0 in Fb. injection Fb as <-.
  eapply detach_block_core_WF; eauto.
  intros f la l _ (_ & _ & _ & _ & M2). apply M2.
  - eapply blive_view; eauto.
  - simpl. unfold link. rewrite Fb0. simpl. rewrite P. reflexivity.
Qed.

Lemma chain_cons_inv : forall N x l, chain N (Some x) l -> exists n t, l = x :: t /\ N x = Some n /\ chain N n t.
Proof. intros N x l H. inversion H; subst. eauto. Qed.

(* RegionBlocks.__getitem__(int) returns a member of the region's block list *)
Lemma nth_block_fwd_in : forall fl cur k s s' b, nth_block_fwd fl cur k s = (s', Ok b) ->
  s' = s /\ forall l, chain (blk_next s) cur l -> In b l.
Proof.
  induction fl as [|f IH]; intros cur k s s' b H; simpl in H.
  - exfalso. eapply raise_ok; eauto.
  - destruct cur as [c|]; [|exfalso; eapply raise_ok; eauto].
    destruct (k =? 0)%Z.
    + apply ret_ok in H as [-> ->]. split; [reflexivity|]. intros l C. eapply chain_some_in; eauto.
    + apply bind_ok in H as (s0 & cr & Hg & H). apply getB_ok in Hg as [-> Fc].
      destruct (IH _ _ _ _ _ H) as [-> Q]. split; [reflexivity|]. intros l C.
      destruct (chain_cons_inv _ _ _ C) as (n & t & -> & Nc & Ct).
      right. apply Q. unfold blk_next, link in Nc. rewrite Fc in Nc. simpl in Nc. injection Nc as <-. exact Ct.
Qed.
Lemma nth_block_bwd_in : forall fl cur k s s' b, nth_block_bwd fl cur k s = (s', Ok b) ->
  s' = s /\ forall l, chain (blk_prev s) cur l -> In b l.
Proof.
  induction fl as [|f IH]; intros cur k s s' b H; simpl in H.
  - exfalso. eapply raise_ok; eauto.
  - destruct cur as [c|]; [|exfalso; eapply raise_ok; eauto].
    destruct (k =? 0)%Z.
    + apply ret_ok in H as [-> ->]. split; [reflexivity|]. intros l C. eapply chain_some_in; eauto.
    + apply bind_ok in H as (s0 & cr & Hg & H). apply getB_ok in Hg as [-> Fc].
      destruct (IH _ _ _ _ _ H) as [-> Q]. split; [reflexivity|]. intros l C.
      destruct (chain_cons_inv _ _ _ C) as (n & t & -> & Nc & Ct).
      right. apply Q. unfold blk_prev, link in Nc. rewrite Fc in Nc. simpl in Nc. injection Nc as <-. exact Ct.
Qed.

Theorem detach_block_idx_WF : forall s s' r idx res,
  WF s -> reg_live s r -> detach_block_idx r idx s = (s', Ok res) -> WF s'.
Proof.
  intros s s' r idx res W (rr0 & Fr0 & Er0) H. unfold detach_block_idx in H.
  apply bind_ok in H as (s0 & b & Hg & H). unfold region_blocks_getitem in Hg.
  apply bind_ok in Hg as (s1 & fl & Hf & Hg). unfold get_fuel in Hf. apply gets_ok in Hf as [-> ->].
  apply bind_ok in Hg as (s1 & rr & Hr & Hg). apply getR_ok in Hr as [-> Fr].
  rewrite Fr0 in Fr. injection Fr as <-.
  assert (RL : reg_live s r) by (exists rr0; auto).
  assert (FLr : dFL (viewT2 s) r = Some (r_first rr0, r_last rr0)).
  { simpl. unfold rFL. rewrite Fr0, Er0. reflexivity. }
  destruct (0 <=? idx)%Z.
  - destruct (nth_block_fwd_in _ _ _ _ _ _ Hg) as [-> Q].
    eapply detach_block_core_WF; eauto.
    intros f la l FL (C1 & _). rewrite FLr in FL. injection FL as <- <-. apply Q. exact C1.
  - destruct (nth_block_bwd_in _ _ _ _ _ _ Hg) as [-> Q].
    eapply detach_block_core_WF; eauto.
    intros f la l FL (_ & C2 & _). rewrite FLr in FL. injection FL as <- <-. apply in_rev. apply Q. exact C2.
Qed.

(* ------------------------------------------------------------------ inserting ONE block *)

(* Region._attach_block *)
Lemma attach_block_eff : forall r b s s' res, attach_block r b s = (s', Ok res) ->
  exists x, PM.find b (s_blocks s) = Some x /\ b_parent x = None /\
            updB b (set_b_parent (Some r)) s = (s', Ok tt).
Proof.
  intros r b s s' res H. unfold attach_block in H.
  apply bind_ok in H as (s0 & x & Hg & H). apply getB_ok in Hg as [-> F].
  destruct (is_some (b_parent x)) eqn:P; [exfalso; eapply raise_ok; eauto|].
  apply is_some_false in P.
  apply bind_ok in H as (s1 & anc & Ha & H). apply is_ancestor_state in Ha. subst s1.
  destruct anc; [exfalso; eapply raise_ok; eauto|].
  exists x. destruct res. auto.
Qed.

Ltac pres_blk2 FR := unfold add_block, insert_block_before, link_blocks, attach_block; pres FR.
Lemma add_block1_T1 : forall r b, preserves same_T1 (add_block r [b]). Proof. intros. pres_blk2 fr_T1. Qed.
Lemma add_block1_T3 : forall r b, preserves same_T3 (add_block r [b]). Proof. intros. pres_blk2 fr_T3. Qed.
Lemma add_block1_U : forall r b, preserves same_U (add_block r [b]). Proof. intros. pres_blk2 fr_U. Qed.
Lemma add_block1_I : forall r b, preserves same_I (add_block r [b]). Proof. intros. pres_blk2 fr_I. Qed.
Lemma add_block1_A : forall r b, preserves same_A (add_block r [b]). Proof. intros. pres_blk2 fr_A. Qed.
Lemma insert_block_before1_T1 : forall r b t, preserves same_T1 (insert_block_before r [b] t). Proof. intros. pres_blk2 fr_T1. Qed.
Lemma insert_block_before1_T3 : forall r b t, preserves same_T3 (insert_block_before r [b] t). Proof. intros. pres_blk2 fr_T3. Qed.
Lemma insert_block_before1_U : forall r b t, preserves same_U (insert_block_before r [b] t). Proof. intros. pres_blk2 fr_U. Qed.
Lemma insert_block_before1_I : forall r b t, preserves same_I (insert_block_before r [b] t). Proof. intros. pres_blk2 fr_I. Qed.
Lemma insert_block_before1_A : forall r b t, preserves same_A (insert_block_before r [b] t). Proof. intros. pres_blk2 fr_A. Qed.

(* Region.add_block(block) -- a single block *)
Theorem add_block1_WF : forall s s' r b res,
  WF s -> reg_live s r -> blk_live s b -> add_block r [b] s = (s', Ok res) -> WF s'.
Proof.
  intros s s' r b res W RL (bx & Fbx & Ebx) H.
  eapply (WF_groups_T2 s s' W); [eapply add_block1_T1|eapply add_block1_T3|eapply add_block1_U|
                                 eapply add_block1_I|eapply add_block1_A|]; try exact H.
  pose proof (proj1 (detached_blocks_Ddet s) (proj2 (wf_detached s W))) as DD.
  rewrite WF_region_Dabs. pose proof (proj1 (WF_region_Dabs s) (wf_region s W)) as D.
  unfold add_block in H.
  apply bind_ok in H as (s0 & rr & Hg & H). apply getR_ok in Hg as [-> Fr].
  destruct RL as (rr0 & Fr0 & Er0). rewrite Fr in Fr0. injection Fr0 as <-.
  assert (FLr : dFL (viewT2 s) r = Some (r_first rr, r_last rr)).
  { simpl. unfold rFL. rewrite Fr, Er0. reflexivity. }
  destruct (D r _ _ FLr) as (l & DL). pose proof DL as (C1 & C2 & ND & M1 & M2).
  destruct (r_last rr) as [prev|] eqn:Last.
  - (* non-empty region: link after the last block *)
    apply bind_ok in H as (s3 & last & Hl & H4). simpl in Hl.
    apply bind_ok in Hl as (s1 & ? & Hat & Hl).
    destruct (attach_block_eff _ _ _ _ _ Hat) as (xb & Fb & Pb & Hat').
    destruct (updB_parent_view2 _ _ _ _ _ Hat') as (N1 & P1 & R1 & L1 & F1).
    apply bind_ok in Hl as (s2 & ? & H2 & Hl).
    destruct (updB_prev_view2 _ _ _ _ _ H2) as (N2 & P2 & R2 & L2 & F2).
    apply bind_ok in Hl as (s3' & ? & H3 & Hr). apply ret_ok in Hr as [-> ->].
    destruct (updB_next_view2 _ _ _ _ _ H3) as (N3 & P3 & R3 & L3 & F3).
    destruct (updR_last_view2 _ _ _ _ _ H4) as (N4 & P4 & R4 & L4 & F4).
    (* prev is the last element of l *)
    pose proof C2 as C2'. apply chain_some_in in C2'. apply in_rev in C2'.
    destruct (list_snoc_cases l) as [->|(l1 & xl & ->)]; [destruct C2'|].
    assert (xl = prev).
    { rewrite rev_app_distr in C2. simpl in C2. apply chain_head in C2. simpl in C2. injection C2 as ->. reflexivity. }
    subst xl.
    destruct (getB_view2 _ _ _ Fb) as (Vn & Vp & Vpar). rewrite Pb in Vpar.
    rewrite Fbx in Fb. injection Fb as <-.
    destruct (DD b (blive_view _ _ _ Fbx Ebx) Vpar) as [Nb Pb0].
    pose proof (dll_next_of _ _ _ _ _ _ _ DL) as Nprev. cbn [hd_error] in Nprev.
    assert (Nne : b <> prev).
    { intro; subst. rewrite (M1 prev C2') in Vpar. discriminate. }
    assert (DLb : dll_at (viewT2 s') r (r_first rr) (Some b) (l1 ++ prev :: b :: [])).
    { eapply (dll_insert_after (viewT2 s) (viewT2 s') r (r_first rr) (Some prev) l1 prev [] b DL Vpar).
      - intros y Ny1 Ny2. vrew2. fupd_solve.
      - vrew2. fupd_solve.
      - vrew2. rewrite Nprev, Nb. fupd_solve.
      - intros y Ny _. vrew2. fupd_solve.
      - vrew2. fupd_solve.
      - intros n0 E. discriminate.
      - intros y Ny. vrew2. fupd_solve.
      - vrew2. fupd_solve.
      - intro y. vrew2. reflexivity. }
    split.
    { intros c f' la' Hc. destruct (Pos.eq_dec c r) as [->|Nc].
      + vrew2_in Hc. rewrite Pos.eqb_refl, FLr in Hc. simpl in Hc. injection Hc as <- <-. eauto.
      + refine (Dabs_other (viewT2 s) (viewT2 s') r D _ _ _ _ c f' la' Nc Hc).
        * intros c0 N0. vrew2. fupd_solve.
        * intros z Q1 Q2. assert (z <> b) by (intro; subst; contradiction).
          assert (z <> prev) by (intro; subst; apply Q1; apply M1; assumption).
          repeat split; vrew2; fupd_solve.
        * intro z. vrew2. reflexivity.
        * intros z c0 N0 Q. vrew2_in Q. revert Q.
          destruct (Pos.eqb_spec z b); intro Q; [injection Q as Q; congruence|exact Q]. }
    { apply (Ddet_other (viewT2 s) (viewT2 s') DD). intros z Lz Pz. vrew2_in Lz. vrew2_in Pz. revert Pz.
      destruct (Pos.eqb_spec z b); intro Pz; [discriminate|].
      assert (z <> prev) by (intro; subst; rewrite (M1 prev C2') in Pz; discriminate).
      repeat split; try assumption; vrew2; fupd_solve. }
  - (* empty region *)
    apply bind_ok in H as (s1 & ? & Hat & H).
    destruct (attach_block_eff _ _ _ _ _ Hat) as (xb & Fb & Pb & Hat').
    destruct (updB_parent_view2 _ _ _ _ _ Hat') as (N1 & P1 & R1 & L1 & F1).
    apply bind_ok in H as (s2 & ? & H2 & H).
    destruct (updR_first_view2 _ _ _ _ _ H2) as (N2 & P2 & R2 & L2 & F2).
    apply bind_ok in H as (s3 & last & Hl & H4). simpl in Hl. apply ret_ok in Hl as [-> ->].
    destruct (updR_last_view2 _ _ _ _ _ H4) as (N4 & P4 & R4 & L4 & F4).
    apply chain_none_nil in C2.
    assert (l = []) by (destruct l; [reflexivity|]; simpl in C2; apply app_eq_nil in C2; destruct C2; discriminate).
    subst l. apply chain_head in C1. simpl in C1. rewrite C1 in *.
    destruct (getB_view2 _ _ _ Fb) as (Vn & Vp & Vpar). rewrite Pb in Vpar.
    rewrite Fbx in Fb. injection Fb as <-.
    destruct (DD b (blive_view _ _ _ Fbx Ebx) Vpar) as [Nb Pb0].
    assert (DLb : dll_at (viewT2 s') r (Some b) (Some b) [b]).
    { eapply (dll_insert_empty (viewT2 s) (viewT2 s') r b DL Vpar).
      - intros y Ny. vrew2. fupd_solve.
      - vrew2. fupd_solve.
      - intro y. vrew2. reflexivity.
      - vrew2. exact Nb.
      - vrew2. exact Pb0. }
    split.
    { intros c f' la' Hc. destruct (Pos.eq_dec c r) as [->|Nc].
      + vrew2_in Hc. rewrite !Pos.eqb_refl, FLr in Hc. simpl in Hc. injection Hc as <- <-. eauto.
      + refine (Dabs_other (viewT2 s) (viewT2 s') r D _ _ _ _ c f' la' Nc Hc).
        * intros c0 N0. vrew2. fupd_solve.
        * intros z Q1 Q2. assert (z <> b) by (intro; subst; contradiction).
          repeat split; vrew2; fupd_solve.
        * intro z. vrew2. reflexivity.
        * intros z c0 N0 Q. vrew2_in Q. revert Q.
          destruct (Pos.eqb_spec z b); intro Q; [injection Q as Q; congruence|exact Q]. }
    { apply (Ddet_other (viewT2 s) (viewT2 s') DD). intros z Lz Pz. vrew2_in Lz. vrew2_in Pz. revert Pz.
      destruct (Pos.eqb_spec z b); intro Pz; [discriminate|].
      repeat split; try assumption; vrew2; fupd_solve. }
Qed.

(* Region.insert_block_before(block, target) -- a single block *)
Theorem insert_block_before1_WF : forall s s' r b target res,
  WF s -> reg_live s r -> blk_live s b -> blk_live s target ->
  insert_block_before r [b] target s = (s', Ok res) -> WF s'.
Proof.
  intros s s' r b target res W RL (bx & Fbx & Ebx) (tx & Ftx & Etx) H.
  eapply (WF_groups_T2 s s' W); [eapply insert_block_before1_T1|eapply insert_block_before1_T3|eapply insert_block_before1_U|
                                 eapply insert_block_before1_I|eapply insert_block_before1_A|]; try exact H.
  pose proof (proj1 (detached_blocks_Ddet s) (proj2 (wf_detached s W))) as DD.
  rewrite WF_region_Dabs. pose proof (proj1 (WF_region_Dabs s) (wf_region s W)) as D.
  unfold insert_block_before in H.
  apply bind_ok in H as (s0 & tr & Hg & H). apply getB_ok in Hg as [-> Ft].
  rewrite Ftx in Ft. injection Ft as <-.
  destruct (opt_eqb (b_parent tx) (Some r)) eqn:Pt; simpl in H; [|exfalso; eapply raise_ok; eauto].
  apply opt_eqb_eq in Pt.
  destruct (reg_live_FL s r RL) as (f & la & FLr).
  destruct (D r f la FLr) as (l & DL). pose proof DL as (C1 & C2 & ND & M1 & M2).
  destruct (getB_view2 _ _ _ Ftx) as (Vnt & Vpt & Vpart). rewrite Pt in Vpart.
  assert (It : In target l) by (apply M2; [eapply blive_view; eauto|exact Vpart]).
  destruct (in_split _ _ It) as (l1 & l2 & ->).
  pose proof (dll_prev_of _ _ _ _ _ _ _ DL) as Px. rewrite Px in Vpt. injection Vpt as Eprev.
  destruct (b_prev tx) as [prev|] eqn:Op.
  - (* target has a predecessor *)
    apply bind_ok in H as (s3 & last & Hl & H). simpl in Hl.
    apply bind_ok in Hl as (s1 & ? & Hat & Hl).
    destruct (attach_block_eff _ _ _ _ _ Hat) as (xb & Fb & Pb & Hat').
    destruct (updB_parent_view2 _ _ _ _ _ Hat') as (N1 & P1 & R1 & L1 & F1).
    apply bind_ok in Hl as (s2 & ? & H2 & Hl).
    destruct (updB_prev_view2 _ _ _ _ _ H2) as (N2 & P2 & R2 & L2 & F2).
    apply bind_ok in Hl as (s3' & ? & H3 & Hr). apply ret_ok in Hr as [-> ->].
    destruct (updB_next_view2 _ _ _ _ _ H3) as (N3 & P3 & R3 & L3 & F3).
    apply bind_ok in H as (s4 & ? & H4 & H5).
    destruct (updB_next_view2 _ _ _ _ _ H4) as (N4 & P4 & R4 & L4 & F4).
    destruct (updB_prev_view2 _ _ _ _ _ H5) as (N5 & P5 & R5 & L5 & F5).
    destruct (getB_view2 _ _ _ Fb) as (Vn & Vp & Vpar). rewrite Pb in Vpar.
    assert (In_p : In prev (l1 ++ target :: l2)).
    { apply last_or_In in Eprev. destruct Eprev as [Q|Q]; [discriminate|]. apply in_or_app. left. exact Q. }
    assert (Nbt : b <> target) by (intro; subst; rewrite Vpart in Vpar; discriminate).
    assert (Nbp : b <> prev) by (intro; subst; rewrite (M1 prev In_p) in Vpar; discriminate).
    assert (Npt : prev <> target).
    { intro; subst. destruct (NoDup_app_inv _ _ ND) as (_ & _ & D12).
      apply last_or_In in Eprev. destruct Eprev as [Q|Q]; [discriminate|]. eapply D12; [exact Q|left; reflexivity]. }
    assert (DLb : dll_at (viewT2 s') r (match l1 with [] => Some b | _ => f end) la (l1 ++ b :: target :: l2)).
    { eapply (dll_insert_before (viewT2 s) (viewT2 s') r f la l1 target l2 b DL Vpar); rewrite ?Eprev.
      - intros y Ny1 Ny2. vrew2. fupd_solve.
      - vrew2. fupd_solve.
      - vrew2. rewrite Px, Eprev. fupd_solve.
      - intros y Ny Nl. vrew2. fupd_solve.
      - vrew2. fupd_solve.
      - intros p0 E. injection E as <-. vrew2. fupd_solve.
      - intros y Ny. vrew2. fupd_solve.
      - vrew2. fupd_solve.
      - intro y. vrew2. reflexivity. }
    assert (L1ne : l1 <> []) by (intro; subst; simpl in Eprev; discriminate).
    split.
    { intros c f' la' Hc. destruct (Pos.eq_dec c r) as [->|Nc].
      + vrew2_in Hc. rewrite FLr in Hc. injection Hc as <- <-. exists (l1 ++ b :: target :: l2).
        destruct l1; [contradiction|exact DLb].
      + refine (Dabs_other (viewT2 s) (viewT2 s') r D _ _ _ _ c f' la' Nc Hc).
        * intros c0 N0. vrew2. reflexivity.
        * intros z Q1 Q2. assert (z <> b) by (intro; subst; contradiction).
          assert (z <> target) by (intro; subst; contradiction).
          assert (z <> prev) by (intro; subst; apply Q1; apply M1; assumption).
          repeat split; vrew2; fupd_solve.
        * intro z. vrew2. reflexivity.
        * intros z c0 N0 Q. vrew2_in Q. revert Q.
          destruct (Pos.eqb_spec z b); intro Q; [injection Q as Q; congruence|exact Q]. }
    { apply (Ddet_other (viewT2 s) (viewT2 s') DD). intros z Lz Pz. vrew2_in Lz. vrew2_in Pz. revert Pz.
      destruct (Pos.eqb_spec z b); intro Pz; [discriminate|].
      assert (z <> target) by (intro; subst; rewrite Vpart in Pz; discriminate).
      assert (z <> prev) by (intro; subst; rewrite (M1 prev In_p) in Pz; discriminate).
      repeat split; try assumption; vrew2; fupd_solve. }
  - (* target is the first block *)
    apply bind_ok in H as (s1 & ? & Hat & H).
    destruct (attach_block_eff _ _ _ _ _ Hat) as (xb & Fb & Pb & Hat').
    destruct (updB_parent_view2 _ _ _ _ _ Hat') as (N1 & P1 & R1 & L1 & F1).
    apply bind_ok in H as (s2 & ? & H2 & H).
    destruct (updR_first_view2 _ _ _ _ _ H2) as (N2 & P2 & R2 & L2 & F2).
    apply bind_ok in H as (s3 & ? & H3 & H).
    destruct (updB_next_view2 _ _ _ _ _ H3) as (N3 & P3 & R3 & L3 & F3).
    apply bind_ok in H as (s3' & last & Hl & H). simpl in Hl. apply ret_ok in Hl as [-> ->].
    apply bind_ok in H as (s4 & ? & H4 & H5).
    destruct (updB_next_view2 _ _ _ _ _ H4) as (N4 & P4 & R4 & L4 & F4).
    destruct (updB_prev_view2 _ _ _ _ _ H5) as (N5 & P5 & R5 & L5 & F5).
    pose proof (last_or_none_nil l1 Eprev) as ->. cbn [last_or] in Px.
    destruct (getB_view2 _ _ _ Fb) as (Vn & Vp & Vpar). rewrite Pb in Vpar.
    rewrite Fbx in Fb. injection Fb as <-.
    destruct (DD b (blive_view _ _ _ Fbx Ebx) Vpar) as [Nb Pb0].
    assert (Nbt : b <> target) by (intro; subst; rewrite Vpart in Vpar; discriminate).
    assert (DLb : dll_at (viewT2 s') r (Some b) la ([] ++ b :: target :: l2)).
    { eapply (dll_insert_before (viewT2 s) (viewT2 s') r f la [] target l2 b DL Vpar).
      - intros y Ny1 Ny2. vrew2. fupd_solve.
      - vrew2. fupd_solve.
      - vrew2. rewrite Px, Pb0. fupd_solve.
      - intros y Ny _. vrew2. fupd_solve.
      - vrew2. fupd_solve.
      - intros p0 E. discriminate.
      - intros y Ny. vrew2. fupd_solve.
      - vrew2. fupd_solve.
      - intro y. vrew2. reflexivity. }
    split.
    { intros c f' la' Hc. destruct (Pos.eq_dec c r) as [->|Nc].
      + vrew2_in Hc. rewrite Pos.eqb_refl, FLr in Hc. simpl in Hc. injection Hc as <- <-. eauto.
      + refine (Dabs_other (viewT2 s) (viewT2 s') r D _ _ _ _ c f' la' Nc Hc).
        * intros c0 N0. vrew2. fupd_solve.
        * intros z Q1 Q2. assert (z <> b) by (intro; subst; contradiction).
          assert (z <> target) by (intro; subst; contradiction).
          repeat split; vrew2; fupd_solve.
        * intro z. vrew2. reflexivity.
        * intros z c0 N0 Q. vrew2_in Q. revert Q.
          destruct (Pos.eqb_spec z b); intro Q; [injection Q as Q; congruence|exact Q]. }
    { apply (Ddet_other (viewT2 s) (viewT2 s') DD). intros z Lz Pz. vrew2_in Lz. vrew2_in Pz. revert Pz.
      destruct (Pos.eqb_spec z b); intro Pz; [discriminate|].
      assert (z <> target) by (intro; subst; rewrite Vpart in Pz; discriminate).
      repeat split; try assumption; vrew2; fupd_solve. }
Qed.
