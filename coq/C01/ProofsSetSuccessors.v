(* C01/ProofsSetSuccessors.v -- WF is preserved by the Operation.successors setter
   (mirror image of ProofsSetOperands.v: block holders, o_successors / o_successor_uses).
   The two loops are stated once, generically over the holder constructor. *)
From Coq Require Import ZArith List Bool PArith FMapPositive Lia.
From XV Require Import C01.Model C01.Spec C01.ProofsBase C01.ProofsFrame C01.ProofsUses C01.ProofsOperands
  C01.ProofsRauw C01.ProofsSetOperands.
Import ListNotations.
Local Open Scope Z_scope.

(* ------------------------------------------------------------------ frame *)

Lemma set_successors_T1 : forall o new, preserves same_T1 (set_successors o new).
Proof. intros. unfold set_successors. pres fr_T1. apply alloc_uses_pres; auto with pres. Qed.
Lemma set_successors_T2 : forall o new, preserves same_T2 (set_successors o new).
Proof. intros. unfold set_successors. pres fr_T2. apply alloc_uses_pres; auto with pres. Qed.
Lemma set_successors_T3 : forall o new, preserves same_T3 (set_successors o new).
Proof. intros. unfold set_successors. pres fr_T3. apply alloc_uses_pres; auto with pres. Qed.
Lemma set_successors_I : forall o new, preserves same_I (set_successors o new).
Proof. intros. unfold set_successors. pres fr_I. apply alloc_uses_pres; auto with pres. Qed.

(* ------------------------------------------------------------------ the two loops, for any holder constructor *)

Definition plus_uses_g (mk : positive -> holder) (Sl : slotrel) (o : oid) (k0 : Z)
           (pairs : list (positive * uid)) : slotrel :=
  fun h o' i u => Sl h o' i u \/
    exists k v, nth_error pairs k = Some (v, u) /\ h = mk v /\ o' = o /\ i = k0 + Z.of_nat k.

Section Loops.
  Variable mk : positive -> holder.

  Lemma remove_loop_g : forall (pairs : list (positive * uid)) s s' Sl o k0 r,
    Uabs s Sl ->
    (forall k v u, nth_error pairs k = Some (v, u) -> Sl (mk v) o (k0 + Z.of_nat k) u) ->
    forM pairs (fun p => remove_use (mk (fst p)) (snd p)) s = (s', Ok r) ->
    Uabs s' (minus_uses Sl (map snd pairs)) /\ s_ops s' = s_ops s /\ (forall x, use_info s' x = use_info s x).
  Proof.
    induction pairs as [|[v u] rest IH]; intros s s' Sl o k0 r UA INV H; simpl in H.
    - apply ret_ok in H as [-> _]. split; [|auto]. destruct UA as [UC US U1]. constructor.
      + intros h fu Hf. destruct (UC h fu Hf) as (l & C & ND & P & M). exists l. repeat split; try assumption.
        intros q Iq. destruct (M q Iq) as (o' & i' & Q). exists o', i'. split; [exact Q|intros []].
      + intros h o' i' q [Q _]. apply US. exact Q.
      + intros h h' o1 o2 i1 i2 q [Q1 _] [Q2 _]. eapply U1; eauto.
    - apply bind_ok in H as (s1 & ? & H1 & H2). simpl in H1.
      pose proof (INV 0%nat v u eq_refl) as S0. replace (k0 + Z.of_nat 0) with k0 in S0 by lia.
      destruct (remove_use_Uabs _ _ _ _ _ _ _ _ UA S0 H1) as (UA1 & Ops1 & Inf1).
      assert (INV1 : forall k v' u', nth_error rest k = Some (v', u') -> minus_use Sl u (mk v') o (k0 + 1 + Z.of_nat k) u').
      { intros k v' u' N. pose proof (INV (Datatypes.S k) v' u' N) as Q.
        replace (k0 + Z.of_nat (Datatypes.S k)) with (k0 + 1 + Z.of_nat k) in Q by lia.
        split; [exact Q|]. intro E. subst u'.
        destruct (ua_slot _ _ UA _ _ _ _ Q) as [I1 _]. destruct (ua_slot _ _ UA _ _ _ _ S0) as [I2 _].
        rewrite I1 in I2. injection I2 as E. lia. }
      destruct (IH s1 s' (minus_use Sl u) o (k0 + 1) r UA1 INV1 H2) as (UA' & Ops' & Inf').
      split; [|split; [congruence|intro q; rewrite Inf', Inf1; reflexivity]].
      destruct UA' as [UC US U1]. constructor.
      + intros h fu Hf. destruct (UC h fu Hf) as (l & C & ND & P & M). exists l. repeat split; try assumption.
        intros q Iq. destruct (M q Iq) as (o' & i' & [[Q N1] N2]). exists o', i'. split; [exact Q|].
        simpl. intros [E|I]; [congruence|contradiction].
      + intros h o' i' q [Q N]. apply US. split; [split; [exact Q|]|]; intro; apply N; simpl; auto.
      + intros h h' o1 o2 i1 i2 q [Q1 N1] [Q2 N2].
        eapply U1; (split; [split; [eassumption|]|]); intro; (apply N1 || apply N2); simpl; auto.
  Qed.

  Lemma add_loop_g : forall (pairs : list (positive * uid)) s s' Sl o k0 r,
    Uabs s Sl -> NoDup (map snd pairs) ->
    (forall k v u, nth_error pairs k = Some (v, u) ->
       use_info s u = Some (o, k0 + Z.of_nat k) /\ forall h' o' i', ~ Sl h' o' i' u) ->
    forM pairs (fun p => add_use (mk (fst p)) (snd p)) s = (s', Ok r) ->
    Uabs s' (plus_uses_g mk Sl o k0 pairs) /\ s_ops s' = s_ops s /\ (forall x, use_info s' x = use_info s x).
  Proof.
    induction pairs as [|[v u] rest IH]; intros s s' Sl o k0 r UA ND INV H; simpl in H.
    - apply ret_ok in H as [-> _]. split; [|auto]. destruct UA as [UC US U1]. constructor.
      + intros h fu Hf. destruct (UC h fu Hf) as (l & C & ND' & P & M). exists l. repeat split; try assumption.
        intros q Iq. destruct (M q Iq) as (o' & i' & Q). exists o', i'. left. exact Q.
      + intros h o' i' q [Q|(k & v & N & _)]; [apply US; exact Q|destruct k; discriminate].
      + intros h h' o1 o2 i1 i2 q [Q1|(k & v & N & _)] [Q2|(k' & v' & N' & _)];
          try (destruct k; discriminate); try (destruct k'; discriminate). eapply U1; eauto.
    - apply bind_ok in H as (s1 & ? & H1 & H2). simpl in H1. simpl in ND. inversion ND as [|? ? NI ND']; subst.
      destruct (INV 0%nat v u eq_refl) as [Inf Fl]. replace (k0 + Z.of_nat 0) with k0 in Inf by lia.
      destruct (add_use_Uabs _ _ _ _ _ _ _ _ UA Fl Inf H1) as (UA1 & Ops1 & Inf1).
      assert (INV1 : forall k v' u', nth_error rest k = Some (v', u') ->
                use_info s1 u' = Some (o, k0 + 1 + Z.of_nat k) /\ forall h' o' i', ~ plus_use Sl (mk v) o k0 u h' o' i' u').
      { intros k v' u' N. destruct (INV (Datatypes.S k) v' u' N) as [I2 F2]. split.
        - rewrite Inf1, I2. f_equal. f_equal. lia.
        - intros h' o' i' [Q|(_ & _ & _ & E)]; [eapply F2; eauto|]. subst u'. apply NI.
          apply nth_error_In in N. apply (in_map snd) in N. exact N. }
      destruct (IH s1 s' (plus_use Sl (mk v) o k0 u) o (k0 + 1) r UA1 ND' INV1 H2) as (UA' & Ops' & Inf').
      split; [|split; [congruence|intro q; rewrite Inf', Inf1; reflexivity]].
      assert (EQ : forall h o' i q, plus_uses_g mk (plus_use Sl (mk v) o k0 u) o (k0 + 1) rest h o' i q <->
                                    plus_uses_g mk Sl o k0 ((v, u) :: rest) h o' i q).
      { intros h o' i q. unfold plus_uses_g, plus_use. split.
        - intros [[Q|(-> & -> & -> & ->)]|(k & v' & N & -> & -> & ->)].
          + left. exact Q.
          + right. exists 0%nat, v. simpl. repeat split; try reflexivity. lia.
          + right. exists (Datatypes.S k), v'. simpl. repeat split; try assumption; try reflexivity. lia.
        - intros [Q|(k & v' & N & -> & -> & ->)].
          + left. left. exact Q.
          + destruct k as [|k]; simpl in N.
            * injection N as <- <-. left. right. repeat split; try reflexivity. lia.
            * right. exists k, v'. repeat split; try assumption; try reflexivity. lia. }
      destruct UA' as [UC US U1]. constructor.
      + intros h fu Hf. destruct (UC h fu Hf) as (l & C & ND2 & P & M). exists l. repeat split; try assumption.
        intros q Iq. destruct (M q Iq) as (o' & i' & Q). exists o', i'. apply EQ. exact Q.
      + intros h o' i' q Q. apply EQ in Q. apply US. exact Q.
      + intros h h' o1 o2 i1 i2 q Q1 Q2. apply EQ in Q1. apply EQ in Q2. eapply U1; eauto.
  Qed.
End Loops.

(* ------------------------------------------------------------------ the setter *)

Lemma map_snd_zip_eq : forall {A B} (l : list A) (l' : list B), length l = length l' -> map snd (zip l l') = l'.
Proof.
  intros A B l. induction l as [|a t IH]; intros [|b t'] L; simpl in *; try discriminate; try reflexivity.
  f_equal. apply IH. lia.
Qed.

Theorem set_successors_WF : forall s s' o new r,
  WF s -> op_live s o -> set_successors o new s = (s', Ok r) -> WF s'.
Proof.
  intros s s' o new r W (x0 & Fx0 & Ex0) H.
  pose proof (set_successors_T1 o new s s' _ H) as T1. pose proof (set_successors_T2 o new s s' _ H) as T2.
  pose proof (set_successors_T3 o new s s' _ H) as T3. pose proof (set_successors_I o new s s' _ H) as SI.
  destruct (UWF_Uabs s (WF_UWF s W)) as [UA LN].
  unfold set_successors in H.
  apply bind_ok in H as (s1 & new_uses & Hal & H).
  destruct (alloc_uses_post o (length new) 0 s s1 new_uses (proj2 (proj2 (proj2 (proj2 (wf_alloc s W))))) Hal) as [AP Lnew].
  pose proof (Uabs_alloc_uses s s1 o 0 new_uses (real_slot s) UA AP) as UA1.
  destruct AP as [ap_ops0 ap_values0 ap_blocks0 ap_regions0 ap_counters0 ap_old0 ap_new0 ap_only0 ap_nodup0 ap_below0].
  apply bind_ok in H as (s1' & orec & Hg & H). apply getO_ok in Hg as [-> Fo1].
  rewrite ap_ops0, Fx0 in Fo1. injection Fo1 as <-.
  apply bind_ok in H as (s2 & ? & Hrm & H).
  apply bind_ok in H as (s3 & ? & Had & H).
  apply bind_ok in H as (s4 & ? & Hu1 & Hu2).
  destruct (LN o x0 Fx0 Ex0) as [_ Len].
  (* removal of the old uses *)
  assert (INVr : forall k b u, nth_error (zip (o_successors x0) (o_successor_uses x0)) k = Some (b, u) ->
                   real_slot s (HB b) o (0 + Z.of_nat k) u).
  { intros k b u N. apply nth_error_zip in N. destruct N as [N1 N2]. exists x0. simpl.
    rewrite !znth_of_nat. auto. }
  destruct (remove_loop_g HB _ s1 s2 (real_slot s) o 0 _ UA1 INVr Hrm) as (UA2 & Ops2 & Inf2).
  assert (UA2' : Uabs s2 (minus_uses (real_slot s) (o_successor_uses x0))).
  { pose proof (map_snd_zip_eq (o_successors x0) (o_successor_uses x0) Len) as OLD.
    rewrite <- OLD. exact UA2. }
  clear UA2. rename UA2' into UA2.
  (* insertion of the new uses *)
  assert (INVa : forall k b u, nth_error (zip new new_uses) k = Some (b, u) ->
                   use_info s2 u = Some (o, 0 + Z.of_nat k) /\
                   forall h' o' i', ~ minus_uses (real_slot s) (o_successor_uses x0) h' o' i' u).
  { intros k b u N. apply nth_error_zip in N. destruct N as [N1 N2]. destruct (ap_new0 k u N2) as [Q1 Q2]. split.
    - rewrite Inf2. unfold use_info. rewrite Q2. reflexivity.
    - intros h' o' i' [Q _]. destruct (ua_slot _ _ UA _ _ _ _ Q) as [Inf _].
      destruct (use_info_some _ _ _ _ Inf) as (ur & F & _). congruence. }
  destruct (add_loop_g HB _ s2 s3 _ o 0 _ UA2 (NoDup_map_snd_zip new new_uses ap_nodup0) INVa Had) as (UA3 & Ops3 & Inf3).
  apply updO_ok in Hu1 as (xa & Fa & ->). apply updO_ok in Hu2 as (xb & Fb & ->).
  rewrite Ops3, Ops2, ap_ops0, Fx0 in Fa. injection Fa as <-.
  simpl in Fb. rewrite find_add_same in Fb. injection Fb as <-.
  set (xf := set_o_successor_uses new_uses (set_o_successors new x0)).
  (* the slot relation of the final state *)
  assert (OPS : forall o', PM.find o' (PM.add o xf (PM.add o (set_o_successors new x0) (s_ops s3))) =
                           if Pos.eqb o' o then Some xf else PM.find o' (s_ops s)).
  { intro o'. rewrite !find_add. destruct (Pos.eqb_spec o' o); [reflexivity|]. rewrite Ops3, Ops2, ap_ops0. reflexivity. }
  assert (OLDSLOT : forall u', In u' (o_successor_uses x0) ->
            exists b j, real_slot s (HB b) o (Z.of_nat j) u').
  { intros u' I. destruct (In_nth_error _ _ I) as (j & Nj).
    assert (exists b, nth_error (o_successors x0) j = Some b) as (b & Nb).
    { destruct (nth_error (o_successors x0) j) eqn:Q; [eauto|]. apply nth_error_None in Q.
      assert (j < length (o_successor_uses x0))%nat by (apply nth_error_Some; congruence). lia. }
    exists b, j. exists x0. simpl. rewrite !znth_of_nat. auto. }
  assert (SL : forall h o' i' u',
     real_slot (with_ops (PM.add o xf (s_ops (with_ops (PM.add o (set_o_successors new x0) (s_ops s3)) s3)))
                         (with_ops (PM.add o (set_o_successors new x0) (s_ops s3)) s3)) h o' i' u' <->
     plus_uses_g HB (minus_uses (real_slot s) (o_successor_uses x0)) o 0 (zip new new_uses) h o' i' u').
  { intros h o' i' u'. unfold real_slot. simpl. split.
    - intros (x' & F' & E' & Z1 & Z2). rewrite OPS in F'. destruct (Pos.eqb_spec o' o) as [->|No].
      + injection F' as <-. destruct h as [w|b]; simpl in Z1, Z2.
        * left. split; [exists x0; simpl; auto|]. intro I. destruct (OLDSLOT u' I) as (b & j & R1).
          assert (R2 : real_slot s (HV w) o i' u') by (exists x0; simpl; auto).
          pose proof (ua_one _ _ UA _ _ _ _ _ _ _ R1 R2). discriminate.
        * right. destruct (znth_some _ _ _ Z1) as (k & -> & N1). rewrite znth_of_nat in Z2.
          exists k, b. split; [apply nth_error_zip; auto|]. repeat split.
      + left. split; [exists x'; auto|]. intro I. destruct (OLDSLOT u' I) as (b & j & R1).
        assert (R2 : real_slot s h o' i' u') by (exists x'; auto).
        destruct (ua_slot _ _ UA _ _ _ _ R1) as [I1 _]. destruct (ua_slot _ _ UA _ _ _ _ R2) as [I2 _].
        rewrite I1 in I2. injection I2 as E _. congruence.
    - intros [[(x' & F' & E' & Z1 & Z2) NI]|(k & b & N & -> & -> & ->)].
      + rewrite OPS. destruct (Pos.eqb_spec o' o) as [->|No]; [|exists x'; auto].
        rewrite Fx0 in F'. injection F' as <-. exists xf. split; [reflexivity|]. split; [exact Ex0|].
        destruct h as [w|b]; simpl in *; [auto|]. exfalso. apply NI. eapply znth_In; eauto.
      + rewrite OPS, Pos.eqb_refl. exists xf. split; [reflexivity|]. split; [exact Ex0|].
        apply nth_error_zip in N. destruct N as [N1 N2]. simpl. rewrite !znth_of_nat. auto. }
  (* assemble *)
  assert (UW : UWF (with_ops (PM.add o xf (s_ops (with_ops (PM.add o (set_o_successors new x0) (s_ops s3)) s3)))
                             (with_ops (PM.add o (set_o_successors new x0) (s_ops s3)) s3))).
  { apply Uabs_UWF.
    - eapply Uabs_ext; [| |exact SL|exact UA3].
      + intro y. reflexivity.
      + intros [v|b]; reflexivity.
    - intros o' x' F' E'. simpl in F'. rewrite OPS in F'. destruct (Pos.eqb_spec o' o) as [->|No].
      + injection F' as <-. simpl. destruct (LN o x0 Fx0 Ex0) as [L1 _]. split; [exact L1|congruence].
      + apply (LN o' x' F' E'). }
  destruct UW as (U1 & U2 & U3 & U4 & U5). destruct W.
  destruct (WF_index_same _ _ SI (conj wf_results (conj wf_args wf_owner))) as (I1 & I2 & I3).
  constructor; try assumption.
  - eapply WF_block_same; eauto.
  - eapply WF_region_same; eauto.
  - eapply WF_opregs_same; eauto.
  - eapply WF_detached_same; eauto.
  - (* allocation bookkeeping *)
    assert (A12 : same_A s1 s2).
    { eapply (forM_pres same_A fr_A); [|exact Hrm]. intros [v u]. apply remove_use_A. }
    assert (A23 : same_A s2 s3).
    { eapply (forM_pres same_A fr_A); [|exact Had]. intros [v u]. apply add_use_A. }
    destruct wf_alloc as (B1 & B2 & B3 & B4 & B5). destruct ap_counters0 as (C1 & C2 & C3 & C4).
    assert (WA1 : WF_alloc s1).
    { unfold WF_alloc. rewrite ap_ops0, ap_blocks0, ap_regions0, ap_values0, C1, C2, C3, C4. repeat split; assumption. }
    pose proof (WF_alloc_same _ _ A23 (WF_alloc_same _ _ A12 WA1)) as (D1 & D2 & D3 & D4 & D5).
    unfold WF_alloc. simpl. repeat split; try assumption.
    intros i xi F. rewrite !find_add in F. destruct (Pos.eqb_spec i o) as [->|N].
    + apply (D1 o x0). rewrite Ops3, Ops2, ap_ops0. exact Fx0.
    + eapply D1; eauto.
Qed.
