(* C01/ProofsDemo.v -- non-vacuity: a concrete 3-block / 7-op state is well formed, a 12-call
   history over many constructors runs on it, and the hypothesis of the history theorem is
   satisfiable. *)
From Coq Require Import ZArith List Bool PArith FMapPositive Lia.
From XV Require Import C01.Model C01.Spec C01.ProofsBase C01.ProofsWfb C01.ProofsOps C01.ProofsHistory.
Import ListNotations.
Local Open Scope Z_scope.

(* ------------------------------------------------------------------ non-vacuity *)

Definition P3 : positive := 3%positive.
Definition P4 : positive := 4%positive.
Definition P5 : positive := 5%positive.
Definition P6 : positive := 6%positive.
Definition P7 : positive := 7%positive.
Definition P8 : positive := 8%positive.

(* one region, 3 blocks, 7 ops; value 1 is used three times, block 2 twice as a successor *)
Definition demo_build : list call :=
  [CBlockNew [] 2%nat; CBlockNew [] 0%nat; CBlockNew [] 1%nat;
   COpCreate [P1; P1; P2] 1%nat [] []; COpCreate [P4; P1] 2%nat [] []; COpCreate [P5; P6; P4] 0%nat [P2; P3] [];
   CAddOp P1 P1; CAddOp P1 P2; CAddOp P1 P3;
   COpCreate [P3] 1%nat [] []; COpCreate [P7; P3] 0%nat [P2] []; CAddOp P3 P4; CAddOp P3 P5;
   COpCreate [P1] 1%nat [] []; COpCreate [P8] 0%nat [] []; CAddOp P2 P6; CAddOp P2 P7;
   CRegionNew [P1; P2; P3]].
Definition demo_state : state := run demo_build empty_state.

(* 12 calls over many constructors (including split_before; detach; insert_op_before first) *)
Definition demo_history : list call :=
  [CSplitBefore P1 P2 1%nat;             (* block 1 split before op 2: new block 4 *)
   COpDetach P3;
   CInsertOpBefore P1 P3 P1;             (* op 3 becomes the first op of block 1 *)
   COperandSetItem P3 (-1) P2;
   CReplaceAllUsesWith P1 P2;
   CInsertArg P2 0;
   CSuccessorSetItem P3 0 P4;
   CDetachBlock P1 P3;
   CRwInsertBlock [P3] P1 (Some P1);
   CEraseOp P2 P7 true;
   CSetOperands P5 [P3; P3];
   CRwReplaceValueWithNewType false P3].

Fixpoint all_ok (cs : list call) (s : state) : bool :=
  match cs with
  | [] => true
  | c :: r => is_ok (snd (step s c)) && wf_b (fst (step s c)) && all_ok r (fst (step s c))
  end.

Lemma demo_nonvacuous :
  WF demo_state /\ all_ok demo_history demo_state = true /\ WF (run demo_history demo_state).
Proof.
  split; [apply wf_b_sound; vm_compute; reflexivity|].
  split; [vm_compute; reflexivity|apply wf_b_sound; vm_compute; reflexivity].
Qed.

(* the hypothesis of the history theorem is satisfiable: 9 proved calls on the demo state *)
Definition demo_clean : list call :=
  [CDetachOp P1 P2; CInsertOpBefore P1 P2 P1; COperandSetItem P3 0 P4; COperandSetItem P3 (-1) P1;
   CSuccessorSetItem P3 0 P3; CDetachOp P2 P7; CAddOp P3 P7; CDetachOp P3 P4; CInsertOpAfter P2 P4 P6].

Ltac live_tac := eexists; split; vm_compute; reflexivity.
Ltac clean_step :=
  eapply clean_cons;
  [reflexivity | cbv [args_live]; first [split; live_tac | live_tac] | vm_compute; reflexivity | ].
Lemma demo_clean_ok : clean demo_state demo_clean.
Proof.
  unfold demo_clean. do 9 clean_step. apply clean_nil.
Qed.

(* the whole demo, creation calls included, is a clean history from the EMPTY heap: the
   hypothesis of history_from_empty is satisfiable by a 27-call history *)
Ltac in_live_tac :=
  let z := fresh "z" in let I := fresh "I" in
  intros z I; repeat (destruct I as [<-|I]; [live_tac|]); destruct I.
Ltac clean_step2 :=
  eapply clean_cons;
  [reflexivity
  | cbv [args_live]; first [exact I | live_tac | in_live_tac | split; [live_tac|first [live_tac|in_live_tac]]]
  | vm_compute; reflexivity | ].
Lemma demo_from_empty_ok : clean empty_state (demo_build ++ demo_clean).
Proof.
  unfold demo_build, demo_clean. cbn [app]. do 27 clean_step2. apply clean_nil.
Qed.

(* erase of an operation WITH a region (region 1 = [block 1 (one argument) = [op 1 (one result)]])
   through the tree version of the erase theorem: the hypothesis tree_live is satisfiable, and the
   5-call history from the empty heap is clean *)
Definition demo_tree : list call :=
  [COpCreate [] 1%nat [] []; CBlockNew [P1] 1%nat; CRegionNew [P1]; COpCreate [] 0%nat [] [P1];
   COpErase P2 true].

Ltac tree_tac :=
  cbv [tree_live XV.C01.ProofsErase.all_live];
  let g := fresh "g" in let J := fresh "J" in
  intros g J;
  match type of J with In _ ?L =>
    let l := eval vm_compute in L in
    let E := fresh "E" in assert (E : L = l) by (vm_compute; reflexivity); rewrite E in J; clear E end;
  repeat (destruct J as [<-|J];
          [cbv beta iota delta [XV.C01.ProofsErase.glive]; lazymatch goal with |- True => exact Logic.I | _ => live_tac end|]);
  destruct J.
Ltac clean_step3 :=
  eapply clean_cons;
  [reflexivity
  | cbv [args_live];
    lazymatch goal with |- True => exact Logic.I | |- _ \/ _ => right; tree_tac | _ => in_live_tac end
  | vm_compute; reflexivity | ].
Lemma demo_tree_ok : clean empty_state demo_tree /\ wf_b (run demo_tree empty_state) = true.
Proof.
  split; [|vm_compute; reflexivity].
  unfold demo_tree. do 5 clean_step3. apply clean_nil.
Qed.
