(* C01/ProofsMove.v -- WF is preserved by Region.move_blocks (all blocks of a region are
   appended to another region). *)
From Coq Require Import ZArith List Bool PArith FMapPositive Lia.
From XV Require Import C01.Model C01.Spec C01.ProofsBase C01.ProofsFrame C01.ProofsUses C01.ProofsOperands
  C01.ProofsDll C01.ProofsOps C01.ProofsBlocks.
Import ListNotations.

(* ------------------------------------------------------------------ generic: splice a whole list at the end of another *)

Lemma dll_members_disjoint : forall V c1 c2 f1 la1 l1 f2 la2 l2, c1 <> c2 ->
  dll_at V c1 f1 la1 l1 -> dll_at V c2 f2 la2 l2 -> forall x, In x l1 -> In x l2 -> False.
Proof.
  intros V c1 c2 f1 la1 l1 f2 la2 l2 N (_ & _ & _ & M1 & _) (_ & _ & _ & M2 & _) x I1 I2.
  pose proof (M1 x I1) as Q1. pose proof (M2 x I2) as Q2. rewrite Q1 in Q2. injection Q2 as E. congruence.
Qed.

Lemma NoDup_app_intro : forall {A} (l1 l2 : list A), NoDup l1 -> NoDup l2 ->
  (forall x, In x l1 -> In x l2 -> False) -> NoDup (l1 ++ l2).
Proof.
  intros A l1. induction l1 as [|a t IH]; intros l2 N1 N2 D; simpl; [exact N2|].
  inversion N1 as [|? ? Na Nt]; subst. constructor.
  - intro I. apply in_app_or in I. destruct I as [I|I]; [contradiction|]. eapply D; [left; reflexivity|exact I].
  - apply IH; [exact Nt|exact N2|]. intros x I1 I2. eapply D; [right; exact I1|exact I2].
Qed.

Lemma chain_last_none : forall (N : lnk) st l p, chain N st (l ++ [p]) -> N p = Some None.
Proof.
  intros N st l p C. destruct (chain_split _ _ _ _ _ C) as (_ & nn & Np & Cn). inversion Cn; subst. exact Np.
Qed.

Lemma dll_splice_end : forall V V' c1 c2 f1 la1 l1 f2 la2 l2,
  c1 <> c2 -> dll_at V c1 f1 la1 l1 -> dll_at V c2 f2 la2 l2 ->
  (forall y, last_or None l1 <> Some y -> dN V' y = dN V y) ->
  (forall p, last_or None l1 = Some p -> dN V' p = Some (hd_error l2)) ->
  (forall y, hd_error l2 <> Some y -> dP V' y = dP V y) ->
  (forall q, hd_error l2 = Some q -> dP V' q = Some (last_or None l1)) ->
  (forall y, ~ In y l2 -> dPar V' y = dPar V y) ->
  (forall y, In y l2 -> dPar V' y = Some (Some c1)) ->
  (forall y, dLive V' y = dLive V y) ->
  dll_at V' c1 (match l1 with [] => f2 | _ => f1 end) (match l2 with [] => la1 | _ => la2 end) (l1 ++ l2) /\
  dll_at V' c2 None None [].
Proof.
  intros V V' c1 c2 f1 la1 l1 f2 la2 l2 Nc D1 D2 EN ENp EP EPq EPar EPar2 EL.
  pose proof (dll_members_disjoint _ _ _ _ _ _ _ _ _ Nc D1 D2) as DJ.
  pose proof D1 as (C1 & B1 & ND1 & M1 & K1). pose proof D2 as (C2 & B2 & ND2 & M2 & K2).
  pose proof (chain_head _ _ _ C2) as Hf2. pose proof (dll_last_of _ _ _ _ _ D1) as Hla1.
  split.
  - repeat split.
    + (* forward *)
      destruct (list_snoc_cases l1) as [->|(l1' & p & ->)].
      * simpl. eapply chain_ext; [|exact C2]. intros y Iy. apply EN. simpl. discriminate.
      * rewrite match_snoc. rewrite <- app_assoc.
        pose proof (chain_last_none _ _ _ _ C1) as Np.
        apply chain_seg in C1. apply seg_snoc_inv in C1. destruct C1 as [S1 _].
        destruct (NoDup_app_inv _ _ ND1) as (_ & _ & Dp).
        eapply seg_chain_app.
        -- eapply seg_ext; [|exact S1]. intros y Iy. apply EN. rewrite last_or_app. intro E. injection E as <-.
           eapply Dp; [exact Iy|left; reflexivity].
        -- simpl. econstructor; [rewrite (ENp p (last_or_app _ _ _)), <- Hf2; reflexivity|].
           eapply chain_ext; [|exact C2]. intros y Iy. apply EN. rewrite last_or_app. intro E. injection E as <-.
           eapply DJ; [apply in_or_app; right; left; reflexivity|exact Iy].
    + (* backward *)
      rewrite rev_app_distr.
      destruct l2 as [|q l2'].
      * simpl. eapply chain_ext; [|exact B1]. intros y Iy. apply EP. simpl. discriminate.
      * simpl. simpl in B2. pose proof (chain_last_none _ _ _ _ B2) as Pq.
        pose proof B2 as B2'. apply chain_seg in B2'. apply seg_snoc_inv in B2'. destruct B2' as [S2 _].
        inversion ND2 as [|? ? Nq ND2']; subst.
        rewrite <- app_assoc. eapply seg_chain_app.
        -- eapply seg_ext; [|exact S2]. intros y Iy. apply EP. simpl. intro E. injection E as <-.
           apply in_rev in Iy. contradiction.
        -- simpl. econstructor; [apply EPq; reflexivity|].
           eapply chain_ext; [|exact B1]. intros y Iy. apply EP. simpl. intro E. injection E as <-.
           apply in_rev in Iy. eapply DJ; [exact Iy|left; reflexivity].
    + (* NoDup *)
      apply NoDup_app_intro; assumption.
    + intros x Ix. apply in_app_or in Ix. destruct Ix as [I|I].
      * rewrite EPar; [apply M1; exact I|]. intro I2. eapply DJ; eauto.
      * apply EPar2. exact I.
    + intros x Lx Px. rewrite EL in Lx. apply in_or_app.
      destruct (in_dec Pos.eq_dec x l2) as [I|NI]; [right; exact I|left].
      rewrite (EPar x NI) in Px. apply K1; assumption.
  - repeat split; try constructor.
    + intros x [].
    + intros x Lx Px. rewrite EL in Lx.
      destruct (in_dec Pos.eq_dec x l2) as [I|NI].
      * rewrite (EPar2 x I) in Px. injection Px as E. congruence.
      * rewrite (EPar x NI) in Px. exfalso. apply NI. apply K2; assumption.
Qed.

(* ------------------------------------------------------------------ the parent loop *)

Lemma set_parent_loop_view : forall fl cur region s s' r l,
  set_parent_blocks_from fl cur region s = (s', Ok r) -> chain (blk_next s) cur l ->
  (forall z, dN (viewT2 s') z = dN (viewT2 s) z) /\ (forall z, dP (viewT2 s') z = dP (viewT2 s) z) /\
  (forall z, In z l -> dPar (viewT2 s') z = Some (Some region)) /\
  (forall z, ~ In z l -> dPar (viewT2 s') z = dPar (viewT2 s) z) /\
  (forall z, dLive (viewT2 s') z = dLive (viewT2 s) z) /\ (forall z, dFL (viewT2 s') z = dFL (viewT2 s) z).
Proof.
  induction fl as [|f IH]; intros cur region s s' r l H C; simpl in H.
  - exfalso. eapply raise_ok; eauto.
  - destruct cur as [b|].
    + apply bind_ok in H as (s0 & br & Hg & H). apply getB_ok in Hg as [-> Fb].
      apply bind_ok in H as (s1 & ? & H1 & H).
      destruct (updB_parent_view2 _ _ _ _ _ H1) as (N1 & P1 & R1 & L1 & F1).
      destruct (chain_cons_inv _ _ _ C) as (n & t & -> & Nb & Ct).
      unfold blk_next, link in Nb. rewrite Fb in Nb. simpl in Nb. injection Nb as <-.
      assert (Ct1 : chain (blk_next s1) (b_next br) t).
      { eapply chain_ext; [|exact Ct]. intros y _. exact (N1 y). }
      destruct (IH _ _ _ _ _ _ H Ct1) as (N2 & P2 & R2 & R2' & L2 & F2).
      split; [intro z; rewrite N2; apply N1|]. split; [intro z; rewrite P2; apply P1|].
      split; [|split; [|split; [intro z; rewrite L2; apply L1|intro z; rewrite F2; apply F1]]].
      * intros z [<-|I]; [|apply R2; exact I].
        destruct (in_dec Pos.eq_dec b t) as [I|NI]; [apply R2; exact I|].
        rewrite (R2' b NI), R1. apply fupd_same.
      * intros z NI. rewrite R2' by (intro I; apply NI; right; exact I). rewrite R1. apply fupd_other.
        intro E; subst. apply NI. left. reflexivity.
    + apply ret_ok in H as [-> _]. inversion C; subst.
      repeat split; try reflexivity. intros z [].
Qed.

(* ------------------------------------------------------------------ Region.move_blocks *)

Lemma set_parent_blocks_from_pres : forall R, frame_rel R ->
  (forall b f, (exists v, f = set_b_parent v) -> preserves R (updB b f)) ->
  forall fl cur region, preserves R (set_parent_blocks_from fl cur region).
Proof.
  intros R FR HU fl. induction fl as [|f IH]; intros cur region; simpl.
  - apply (pres_raise _ FR).
  - destruct cur as [b|]; [|apply (pres_ret _ FR)].
    apply (pres_bind _ FR); [apply (pres_getB _ FR)|intro br].
    apply (pres_bind _ FR); [apply HU; eauto|intros _; apply IH].
Qed.

Ltac pres_move FR :=
  unfold move_blocks; pres FR;
  try (apply set_parent_blocks_from_pres; [eauto with pres|]; intros ? ? (? & ->); pres FR).

Lemma move_blocks_T1 : forall a b, preserves same_T1 (move_blocks a b). Proof. intros. pres_move fr_T1. Qed.
Lemma move_blocks_T3 : forall a b, preserves same_T3 (move_blocks a b). Proof. intros. pres_move fr_T3. Qed.
Lemma move_blocks_U : forall a b, preserves same_U (move_blocks a b). Proof. intros. pres_move fr_U. Qed.
Lemma move_blocks_I : forall a b, preserves same_I (move_blocks a b). Proof. intros. pres_move fr_I. Qed.
Lemma move_blocks_A : forall a b, preserves same_A (move_blocks a b). Proof. intros. pres_move fr_A. Qed.

Theorem move_blocks_WF : forall s s' self region r,
  WF s -> reg_live s self -> reg_live s region -> move_blocks self region s = (s', Ok r) -> WF s'.
Proof.
  intros s s' self region r W RLs RLr H.
  eapply (WF_groups_T2 s s' W); [eapply move_blocks_T1|eapply move_blocks_T3|eapply move_blocks_U|
                                 eapply move_blocks_I|eapply move_blocks_A|]; try exact H.
  pose proof (proj1 (detached_blocks_Ddet s) (proj2 (wf_detached s W))) as DD.
  rewrite WF_region_Dabs. pose proof (proj1 (WF_region_Dabs s) (wf_region s W)) as D.
  unfold move_blocks in H.
  destruct (Pos.eqb_spec region self) as [E|Nrs]; [exfalso; eapply raise_ok; eauto|].
  apply bind_ok in H as (s0 & sr & Hg & H). apply getR_ok in Hg as [-> Fself].
  destruct RLs as (sr0 & Fs0 & Es0). rewrite Fself in Fs0. injection Fs0 as <-.
  destruct RLr as (rr0 & Fr0 & Er0).
  assert (FLs : dFL (viewT2 s) self = Some (r_first sr, r_last sr)) by (simpl; unfold rFL; rewrite Fself, Es0; reflexivity).
  assert (FLr : dFL (viewT2 s) region = Some (r_first rr0, r_last rr0)) by (simpl; unfold rFL; rewrite Fr0, Er0; reflexivity).
  destruct (r_first sr) as [sf|] eqn:First.
  2:{ apply ret_ok in H as [-> _]. split; assumption. }
  destruct (r_last sr) as [sl|] eqn:Last; [|exfalso; eapply raise_ok; eauto].
  apply bind_ok in H as (s0 & rr & Hg & H). apply getR_ok in Hg as [-> Fr]. rewrite Fr0 in Fr. injection Fr as <-.
  destruct (D self _ _ FLs) as (l2 & D2). destruct (D region _ _ FLr) as (l1 & D1).
  pose proof D1 as (C1 & B1 & ND1 & M1 & K1). pose proof D2 as (C2 & B2 & ND2 & M2 & K2).
  pose proof (chain_some_in _ _ _ C2) as Isf.
  pose proof (dll_last_of _ _ _ _ _ D1) as Hla1. pose proof (chain_head _ _ _ C2) as Hhd2.
  assert (DJ : forall x, In x l1 -> In x l2 -> False) by (eapply dll_members_disjoint; eauto).
  assert (Psf : dP (viewT2 s) sf = Some None).
  { destruct l2 as [|q t]; [destruct Isf|]. simpl in Hhd2. injection Hhd2 as <-.
    apply (dll_prev_of (viewT2 s) self (Some sf) (Some sl) [] sf t D2). }
  apply bind_ok in H as (sA & ? & HA & H).
  apply bind_ok in H as (sB & ? & HB & H).
  destruct (updR_last_view2 _ _ _ _ _ HB) as (NB & PB & RB & LB & FB).
  apply bind_ok in H as (sB' & fl & Hf & H). unfold get_fuel in Hf. apply gets_ok in Hf as [-> ->].
  apply bind_ok in H as (sB' & sr' & Hg & H). apply getR_ok in Hg as [-> Fself'].
  apply bind_ok in H as (sC & ? & HC & H).
  apply bind_ok in H as (sD & ? & HD & HE).
  destruct (updR_first_view2 _ _ _ _ _ HD) as (ND & PD & RD & LD & FD).
  destruct (updR_last_view2 _ _ _ _ _ HE) as (NE & PE & RE & LE & FE).
  (* the two cases of the link step, summarised *)
  assert (STEP : (forall y, last_or None l1 <> Some y -> dN (viewT2 sA) y = dN (viewT2 s) y) /\
                 (forall p, last_or None l1 = Some p -> dN (viewT2 sA) p = Some (Some sf)) /\
                 (forall y, y <> sf -> dP (viewT2 sA) y = dP (viewT2 s) y) /\
                 dP (viewT2 sA) sf = Some (last_or None l1) /\
                 (forall y, dPar (viewT2 sA) y = dPar (viewT2 s) y) /\
                 (forall y, dLive (viewT2 sA) y = dLive (viewT2 s) y) /\
                 (forall c, c <> region -> dFL (viewT2 sA) c = dFL (viewT2 s) c) /\
                 dFL (viewT2 sA) region = Some (match l1 with [] => Some sf | _ => r_first rr0 end, r_last rr0)).
  { rewrite <- Hla1. destruct (r_last rr0) as [ol|] eqn:LastR.
    - apply bind_ok in HA as (sA1 & ? & HA1 & HA2).
      destruct (updB_prev_view2 _ _ _ _ _ HA1) as (N1 & P1 & R1 & L1 & F1).
      destruct (updB_next_view2 _ _ _ _ _ HA2) as (N2 & P2 & R2 & L2 & F2).
      assert (l1 <> []) by (intro; subst; simpl in Hla1; discriminate).
      repeat split.
      + intros y Ny. vrew2. fupd_solve.
      + intros p Ep. injection Ep as <-. vrew2. fupd_solve.
      + intros y Ny. vrew2. fupd_solve.
      + vrew2. fupd_solve.
      + intro y. vrew2. reflexivity.
      + intro y. vrew2. reflexivity.
      + intros c Nc. vrew2. reflexivity.
      + vrew2. rewrite FLr. destruct l1; [contradiction|reflexivity].
    - destruct (updR_first_view2 _ _ _ _ _ HA) as (N1 & P1 & R1 & L1 & F1).
      assert (l1 = []) by (apply last_or_none_nil; symmetry; exact Hla1). subst l1.
      repeat split.
      + intros y Ny. vrew2. reflexivity.
      + intros p Ep. discriminate.
      + intros y Ny. vrew2. reflexivity.
      + vrew2. exact Psf.
      + intro y. vrew2. reflexivity.
      + intro y. vrew2. reflexivity.
      + intros c Nc. vrew2. fupd_solve.
      + vrew2. rewrite Pos.eqb_refl, FLr. reflexivity. }
  destruct STEP as (NA & NAp & PA & PAsf & RA & LA & FA & FAr).
  (* the parent loop runs over l2 *)
  assert (Ef' : r_first sr' = Some sf).
  { assert (Q : dFL (viewT2 sB) self = Some (Some sf, Some sl)).
    { rewrite FB. unfold fupd. destruct (Pos.eqb_spec self region); [congruence|]. rewrite FA by congruence. exact FLs. }
    simpl in Q. unfold rFL in Q. rewrite Fself' in Q. destruct (r_erased sr'); [discriminate|]. injection Q as Q _. exact Q. }
  rewrite Ef' in HC.
  assert (C2B : chain (blk_next sB) (Some sf) l2).
  { eapply chain_ext; [|exact C2]. intros y Iy. change (dN (viewT2 sB) y = dN (viewT2 s) y). rewrite NB. apply NA.
    intro E. apply last_or_In in E. destruct E as [E|E]; [discriminate|]. eapply DJ; eauto. }
  destruct (set_parent_loop_view _ _ _ _ _ _ _ HC C2B) as (NC & PC & RCin & RCout & LC & FC).
  assert (L2ne : l2 <> []) by (intro; subst; destruct Isf).
  destruct (dll_splice_end (viewT2 s) (viewT2 s') region self _ _ l1 _ _ l2 Nrs D1 D2) as [DR DS].
  - intros y Ny. rewrite NE, ND, NC, NB. apply NA. exact Ny.
  - intros p Ep. rewrite NE, ND, NC, NB, (NAp p Ep), <- Hhd2. reflexivity.
  - intros y Ny. rewrite PE, PD, PC, PB. apply PA. intro; subst. apply Ny. symmetry. exact Hhd2.
  - intros q Eq. rewrite <- Hhd2 in Eq. injection Eq as <-. rewrite PE, PD, PC, PB. exact PAsf.
  - intros y Ny. rewrite RE, RD, (RCout y Ny), RB. apply RA.
  - intros y Iy. rewrite RE, RD. apply RCin. exact Iy.
  - intro y. rewrite LE, LD, LC, LB. apply LA.
  - assert (FLself : dFL (viewT2 s') self = Some (None, None)).
    { rewrite FE, fupd_same, FD, fupd_same, FC, FB, fupd_other, FA, FLs by congruence. reflexivity. }
    assert (FLreg : dFL (viewT2 s') region = Some (match l1 with [] => Some sf | _ => r_first rr0 end, Some sl)).
    { rewrite FE, fupd_other, FD, fupd_other, FC, FB, fupd_same, FAr by congruence. reflexivity. }
    assert (FLoth : forall c, c <> self -> c <> region -> dFL (viewT2 s') c = dFL (viewT2 s) c).
    { intros c N1 N2. rewrite FE, fupd_other, FD, fupd_other, FC, FB, fupd_other, FA by assumption. reflexivity. }
    split.
    + intros c f' la' Hc. destruct (Pos.eq_dec c region) as [->|Ncr]; [|destruct (Pos.eq_dec c self) as [->|Ncs]].
      * rewrite FLreg in Hc. injection Hc as <- <-.
        exists (l1 ++ l2). destruct l2 as [|q t]; [contradiction|].
        simpl in Hhd2. injection Hhd2 as <-. destruct l1; exact DR.
      * rewrite FLself in Hc. injection Hc as <- <-. exists []. exact DS.
      * assert (Q : dFL (viewT2 s) c = Some (f', la')) by (rewrite <- FLoth by assumption; exact Hc).
        destruct (D c f' la' Q) as (l & DLc). exists l. eapply dll_frame; [exact DLc| |].
        -- intros z Pz.
           assert (Nz2 : ~ In z l2) by (intro I; rewrite (M2 z I) in Pz; injection Pz as Q2; congruence).
           assert (Nz1 : ~ In z l1) by (intro I; rewrite (M1 z I) in Pz; injection Pz as Q2; congruence).
           repeat split.
           ++ rewrite NE, ND, NC, NB. apply NA. intro E. apply last_or_In in E.
              destruct E as [E|E]; [discriminate|contradiction].
           ++ rewrite PE, PD, PC, PB. apply PA. intro; subst. contradiction.
           ++ rewrite RE, RD, (RCout z Nz2), RB. apply RA.
        -- intros z Lz Pz. rewrite LE, LD, LC, LB, LA in Lz. split; [exact Lz|].
           rewrite RE, RD in Pz. destruct (in_dec Pos.eq_dec z l2) as [I|NI].
           ++ rewrite (RCin z I) in Pz. injection Pz as Q2. congruence.
           ++ rewrite (RCout z NI), RB, RA in Pz. exact Pz.
    + apply (Ddet_other (viewT2 s) (viewT2 s') DD). intros z Lz Pz.
      rewrite LE, LD, LC, LB, LA in Lz. rewrite RE, RD in Pz.
      destruct (in_dec Pos.eq_dec z l2) as [I|NI]; [rewrite (RCin z I) in Pz; discriminate|].
      rewrite (RCout z NI), RB, RA in Pz.
      split; [exact Lz|]. split; [exact Pz|]. split.
      * rewrite NE, ND, NC, NB. apply NA. intro E. apply last_or_In in E.
        destruct E as [E|E]; [discriminate|]. rewrite (M1 z E) in Pz. discriminate.
      * rewrite PE, PD, PC, PB. apply PA. intro; subst. contradiction.
Qed.

(* ------------------------------------------------------------------ generic: splice a whole list before a node *)

Lemma chain_split3 : forall (N : lnk) st a t b, chain N st (a ++ t :: b) ->
  seg N st a (Some t) /\ chain N (Some t) (t :: b).
Proof.
  intros N st a t b C. destruct (chain_split _ _ _ _ _ C) as (S1 & nn & Nt & Cb).
  split; [exact S1|econstructor; eauto].
Qed.

Lemma seg_snoc : forall (N : lnk) st l p b, seg N st l (Some p) -> N p = Some b -> seg N st (l ++ [p]) b.
Proof.
  intros N st l p b S Np. eapply seg_app; [exact S|]. econstructor; [exact Np|constructor].
Qed.

(* a whole chain l2 (from its head, ending in None) re-targeted to end in `stop` *)
Lemma chain_retarget : forall (N N' : lnk) l2 stop,
  chain N (hd_error l2) l2 -> NoDup l2 -> l2 <> [] ->
  (forall y, In y l2 -> last_or None l2 <> Some y -> N' y = N y) ->
  (forall q, last_or None l2 = Some q -> N' q = Some stop) ->
  seg N' (hd_error l2) l2 stop.
Proof.
  intros N N' l2 stop C ND NE E Eq.
  destruct (list_snoc_cases l2) as [->|(l & q & ->)]; [contradiction|].
  apply chain_seg in C. apply seg_snoc_inv in C. destruct C as [S _].
  destruct (NoDup_app_inv _ _ ND) as (_ & _ & Dq).
  apply seg_snoc.
  - eapply seg_ext; [|exact S]. intros y Iy. apply E; [apply in_or_app; left; exact Iy|].
    rewrite last_or_app. intro Q. injection Q as <-. eapply Dq; [exact Iy|left; reflexivity].
  - apply Eq. apply last_or_app.
Qed.

Lemma dll_splice_before : forall V V' c1 c2 f1 la1 a t b f2 la2 l2,
  c1 <> c2 -> dll_at V c1 f1 la1 (a ++ t :: b) -> dll_at V c2 f2 la2 l2 -> l2 <> [] ->
  (forall y, last_or None l2 <> Some y -> last_or None a <> Some y -> dN V' y = dN V y) ->
  (forall p, last_or None a = Some p -> dN V' p = Some (hd_error l2)) ->
  (forall q, last_or None l2 = Some q -> dN V' q = Some (Some t)) ->
  (forall y, y <> t -> hd_error l2 <> Some y -> dP V' y = dP V y) ->
  (forall q, hd_error l2 = Some q -> dP V' q = Some (last_or None a)) ->
  dP V' t = Some (last_or None l2) ->
  (forall y, ~ In y l2 -> dPar V' y = dPar V y) ->
  (forall y, In y l2 -> dPar V' y = Some (Some c1)) ->
  (forall y, dLive V' y = dLive V y) ->
  dll_at V' c1 (match a with [] => f2 | _ => f1 end) la1 (a ++ l2 ++ t :: b) /\
  dll_at V' c2 None None [].
Proof.
  intros V V' c1 c2 f1 la1 a t b f2 la2 l2 Nc D1 D2 NE EN ENp ENq EP EPq EPt EPar EPar2 EL.
  pose proof (dll_members_disjoint _ _ _ _ _ _ _ _ _ Nc D1 D2) as DJ.
  pose proof D1 as (C1 & B1 & ND1 & M1 & K1). pose proof D2 as (C2 & B2 & ND2 & M2 & K2).
  pose proof (chain_head _ _ _ C2) as Hf2. subst f2.
  pose proof (dll_last_of _ _ _ _ _ D2) as Hla2. subst la2.
  destruct (NoDup_app_inv _ _ ND1) as (NDa & NDtb & Dab). inversion NDtb as [|? ? Ntb NDb]; subst.
  assert (It : In t (a ++ t :: b)) by (apply in_or_app; right; left; reflexivity).
  split.
  - repeat split.
    + (* forward *)
      destruct (chain_split3 _ _ _ _ _ C1) as (Sa & Ctb).
      assert (Ctb' : chain (dN V') (Some t) (t :: b)).
      { eapply chain_ext; [|exact Ctb]. intros y Iy. apply EN.
        - intro E. apply last_or_In in E. destruct E as [E|E]; [discriminate|].
          eapply DJ; [apply in_or_app; right; exact Iy|exact E].
        - intro E. apply last_or_In in E. destruct E as [E|E]; [discriminate|]. eapply Dab; eauto. }
      assert (S2 : seg (dN V') (hd_error l2) l2 (Some t)).
      { eapply (chain_retarget (dN V)); eauto. intros y Iy Ny. apply EN; [exact Ny|].
        intro E. apply last_or_In in E. destruct E as [E|E]; [discriminate|].
        eapply DJ; [apply in_or_app; left; exact E|exact Iy]. }
      destruct (list_snoc_cases a) as [->|(a' & p & ->)].
      * simpl. eapply seg_chain_app; [exact S2|exact Ctb'].
      * rewrite match_snoc. rewrite <- app_assoc. simpl.
        apply seg_snoc_inv in Sa. destruct Sa as [Sa' _].
        destruct (NoDup_app_inv _ _ NDa) as (_ & _ & Dp).
        eapply seg_chain_app.
        -- eapply seg_ext; [|exact Sa']. intros y Iy. apply EN.
           ++ intro E. apply last_or_In in E. destruct E as [E|E]; [discriminate|].
              eapply DJ; [apply in_or_app; left; apply in_or_app; left; exact Iy|exact E].
           ++ rewrite last_or_app. intro E. injection E as <-. eapply Dp; [exact Iy|left; reflexivity].
        -- econstructor; [apply ENp; apply last_or_app|]. eapply seg_chain_app; [exact S2|exact Ctb'].
    + (* backward *)
      replace (rev (a ++ l2 ++ t :: b)) with (rev b ++ t :: rev l2 ++ rev a)
        by (rewrite !rev_app_distr; simpl; rewrite <- !app_assoc; reflexivity).
      replace (rev (a ++ t :: b)) with (rev b ++ t :: rev a) in B1
        by (rewrite rev_app_distr; simpl; rewrite <- !app_assoc; reflexivity).
      destruct (chain_split _ _ _ _ _ B1) as (Sb & nn & Pt & Ca). pose proof (chain_head _ _ _ Ca) as Hnn. subst nn.
      eapply seg_chain_app.
      * eapply seg_ext; [|exact Sb]. intros y Iy. apply in_rev in Iy. apply EP.
        -- intro; subst. contradiction.
        -- intro E. assert (In y l2) by (destruct l2; simpl in E; [discriminate|injection E as ->; left; reflexivity]).
           eapply DJ; [apply in_or_app; right; right; exact Iy|assumption].
      * econstructor; [rewrite EPt, <- hd_error_rev; reflexivity|].
        assert (S2 : seg (dP V') (hd_error (rev l2)) (rev l2) (last_or None a)).
        { eapply (chain_retarget (dP V)).
          - rewrite hd_error_rev. exact B2.
          - apply NoDup_rev. exact ND2.
          - intro E. apply NE. apply (f_equal (@rev positive)) in E. rewrite rev_involutive in E. exact E.
          - intros y Iy Ny. apply in_rev in Iy. apply EP.
            + intro; subst. eapply DJ; [exact It|exact Iy].
            + rewrite last_or_rev in Ny. destruct l2; simpl in *; [contradiction|exact Ny].
          - intros q Eq. apply EPq. rewrite last_or_rev in Eq. destruct l2; simpl in *; [discriminate|exact Eq]. }
        eapply seg_chain_app; [exact S2|].
        rewrite <- hd_error_rev. eapply chain_ext; [|exact Ca]. intros y Iy. apply in_rev in Iy. apply EP.
        -- intro; subst. eapply Dab; [exact Iy|left; reflexivity].
        -- intro E. assert (In y l2) by (destruct l2; simpl in E; [discriminate|injection E as ->; left; reflexivity]).
           eapply DJ; [apply in_or_app; left; exact Iy|assumption].
    + (* NoDup *)
      apply NoDup_app_intro; [exact NDa| |].
      * apply NoDup_app_intro; [exact ND2|constructor; assumption|].
        intros x I2 I1. eapply DJ; [apply in_or_app; right; exact I1|exact I2].
      * intros x Ia I. apply in_app_or in I. destruct I as [I|I].
        -- eapply DJ; [apply in_or_app; left; exact Ia|exact I].
        -- eapply Dab; eauto.
    + intros x Ix. apply in_app_or in Ix. destruct Ix as [I|I]; [|apply in_app_or in I; destruct I as [I|I]].
      * rewrite EPar; [apply M1; apply in_or_app; left; exact I|]. intro I2. eapply DJ; [apply in_or_app; left; exact I|exact I2].
      * apply EPar2. exact I.
      * rewrite EPar; [apply M1; apply in_or_app; right; exact I|]. intro I2. eapply DJ; [apply in_or_app; right; exact I|exact I2].
    + intros x Lx Px. rewrite EL in Lx.
      destruct (in_dec Pos.eq_dec x l2) as [I|NI]; [apply in_or_app; right; apply in_or_app; left; exact I|].
      rewrite (EPar x NI) in Px. pose proof (K1 x Lx Px) as I. apply in_app_or in I. apply in_or_app.
      destruct I as [I|I]; [left; exact I|right; apply in_or_app; right; exact I].
  - repeat split; try constructor.
    + intros x [].
    + intros x Lx Px. rewrite EL in Lx.
      destruct (in_dec Pos.eq_dec x l2) as [I|NI].
      * rewrite (EPar2 x I) in Px. injection Px as E. congruence.
      * rewrite (EPar x NI) in Px. exfalso. apply NI. apply K2; assumption.
Qed.

(* ------------------------------------------------------------------ Region.move_blocks_before *)

Ltac pres_moveb FR :=
  unfold move_blocks_before; pres FR;
  try (apply set_parent_blocks_from_pres; [eauto with pres|]; intros ? ? (? & ->); pres FR).
Lemma move_blocks_before_T1 : forall a b, preserves same_T1 (move_blocks_before a b). Proof. intros. pres_moveb fr_T1. Qed.
Lemma move_blocks_before_T3 : forall a b, preserves same_T3 (move_blocks_before a b). Proof. intros. pres_moveb fr_T3. Qed.
Lemma move_blocks_before_U : forall a b, preserves same_U (move_blocks_before a b). Proof. intros. pres_moveb fr_U. Qed.
Lemma move_blocks_before_I : forall a b, preserves same_I (move_blocks_before a b). Proof. intros. pres_moveb fr_I. Qed.
Lemma move_blocks_before_A : forall a b, preserves same_A (move_blocks_before a b). Proof. intros. pres_moveb fr_A. Qed.

Theorem move_blocks_before_WF : forall s s' self target region tx r,
  WF s -> reg_live s self ->
  PM.find target (s_blocks s) = Some tx -> b_erased tx = false -> b_parent tx = Some region -> reg_live s region ->
  move_blocks_before self target s = (s', Ok r) -> WF s'.
Proof.
  intros s s' self target region tx r W RLs Ft Et Pt RLr H.
  eapply (WF_groups_T2 s s' W); [eapply move_blocks_before_T1|eapply move_blocks_before_T3|eapply move_blocks_before_U|
                                 eapply move_blocks_before_I|eapply move_blocks_before_A|]; try exact H.
  pose proof (proj1 (detached_blocks_Ddet s) (proj2 (wf_detached s W))) as DD.
  rewrite WF_region_Dabs. pose proof (proj1 (WF_region_Dabs s) (wf_region s W)) as D.
  unfold move_blocks_before in H.
  apply bind_ok in H as (s0 & tr & Hg & H). apply getB_ok in Hg as [-> Ft']. rewrite Ft in Ft'. injection Ft' as <-.
  rewrite Pt in H.
  destruct (opt_eqb (Some region) (Some self)) eqn:Q; [exfalso; eapply raise_ok; eauto|].
  apply opt_eqb_neq in Q. assert (Nrs : region <> self) by congruence. clear Q.
  apply bind_ok in H as (s0 & sr & Hg & H). apply getR_ok in Hg as [-> Fself].
  destruct RLs as (sr0 & Fs0 & Es0). rewrite Fself in Fs0. injection Fs0 as <-.
  destruct RLr as (rr0 & Fr0 & Er0).
  assert (FLs : dFL (viewT2 s) self = Some (r_first sr, r_last sr)) by (simpl; unfold rFL; rewrite Fself, Es0; reflexivity).
  assert (FLr : dFL (viewT2 s) region = Some (r_first rr0, r_last rr0)) by (simpl; unfold rFL; rewrite Fr0, Er0; reflexivity).
  destruct (r_first sr) as [sf|] eqn:First.
  2:{ apply ret_ok in H as [-> _]. split; assumption. }
  destruct (r_last sr) as [sl|] eqn:Last; [|exfalso; eapply raise_ok; eauto].
  destruct (D self _ _ FLs) as (l2 & D2). destruct (D region _ _ FLr) as (l1 & D1).
  pose proof D1 as (C1 & B1 & ND1 & M1 & K1). pose proof D2 as (C2 & B2 & ND2 & M2 & K2).
  pose proof (chain_some_in _ _ _ C2) as Isf.
  pose proof (dll_last_of _ _ _ _ _ D2) as Hla2. pose proof (chain_head _ _ _ C2) as Hhd2.
  assert (DJ : forall x, In x l1 -> In x l2 -> False) by (eapply dll_members_disjoint; eauto).
  assert (Vpart : dPar (viewT2 s) target = Some (Some region)) by (simpl; unfold link; rewrite Ft; simpl; rewrite Pt; reflexivity).
  assert (It : In target l1) by (apply K1; [eapply blive_view; eauto|exact Vpart]).
  destruct (in_split _ _ It) as (a & b & ->).
  pose proof (dll_prev_of _ _ _ _ _ _ _ D1) as Ptg.
  destruct (getB_view2 _ _ _ Ft) as (_ & Vpt & _). rewrite Ptg in Vpt. injection Vpt as Eprev.
  assert (Psf : dP (viewT2 s) sf = Some None).
  { destruct l2 as [|q t]; [destruct Isf|]. simpl in Hhd2. injection Hhd2 as <-.
    apply (dll_prev_of (viewT2 s) self (Some sf) (Some sl) [] sf t D2). }
  assert (L2ne : l2 <> []) by (intro; subst; destruct Isf).
  assert (Isl : In sl l2).
  { symmetry in Hla2. apply last_or_In in Hla2. destruct Hla2 as [E|E]; [discriminate|exact E]. }
  assert (Ntsf : target <> sf) by (intro; subst; eapply DJ; eauto).
  assert (Ntsl : target <> sl) by (intro; subst; eapply DJ; eauto).
  apply bind_ok in H as (sA & ? & HA & H).
  apply bind_ok in H as (sA' & fl & Hf & H). unfold get_fuel in Hf. apply gets_ok in Hf as [-> ->].
  apply bind_ok in H as (sA' & sr' & Hg & H). apply getR_ok in Hg as [-> Fself'].
  apply bind_ok in H as (sC & ? & HC & H).
  apply bind_ok in H as (sD & ? & HD & H).
  destruct (updB_next_view2 _ _ _ _ _ HD) as (ND & PD & RD & LD & FD).
  apply bind_ok in H as (sE & ? & HE & H).
  destruct (updB_prev_view2 _ _ _ _ _ HE) as (NE & PE & RE & LE & FE).
  apply bind_ok in H as (sF & ? & HF & HG).
  destruct (updR_first_view2 _ _ _ _ _ HF) as (NF & PF & RF & LF & FF).
  destruct (updR_last_view2 _ _ _ _ _ HG) as (NG & PG & RG & LG & FG).
  assert (STEP : (forall y, last_or None a <> Some y -> dN (viewT2 sA) y = dN (viewT2 s) y) /\
                 (forall p, last_or None a = Some p -> dN (viewT2 sA) p = Some (Some sf)) /\
                 (forall y, y <> sf -> dP (viewT2 sA) y = dP (viewT2 s) y) /\
                 dP (viewT2 sA) sf = Some (last_or None a) /\
                 (forall y, dPar (viewT2 sA) y = dPar (viewT2 s) y) /\
                 (forall y, dLive (viewT2 sA) y = dLive (viewT2 s) y) /\
                 (forall c, c <> region -> dFL (viewT2 sA) c = dFL (viewT2 s) c) /\
                 dFL (viewT2 sA) region = Some (match a with [] => Some sf | _ => r_first rr0 end, r_last rr0)).
  { destruct (b_prev tx) as [tp|] eqn:Op.
    - apply bind_ok in HA as (sA1 & ? & HA1 & HA2).
      destruct (updB_next_view2 _ _ _ _ _ HA1) as (N1 & P1 & R1 & L1 & F1).
      apply bind_ok in HA2 as (sA1' & tr' & Hg & HA2). apply getB_ok in Hg as [-> Ft1].
      destruct (updB_prev_view2 _ _ _ _ _ HA2) as (N2 & P2 & R2 & L2 & F2).
      destruct (getB_view2 _ _ _ Ft1) as (_ & Vp1 & _). rewrite P1, Ptg, Eprev in Vp1. injection Vp1 as E1.
      rewrite <- E1 in *.
      assert (a <> []) by (intro; subst; simpl in Eprev; discriminate).
      repeat split.
      + intros y Ny. vrew2. rewrite Eprev in Ny. fupd_solve.
      + intros p Ep. rewrite Eprev in Ep. injection Ep as <-. vrew2. fupd_solve.
      + intros y Ny. vrew2. fupd_solve.
      + vrew2. rewrite Eprev. fupd_solve.
      + intro y. vrew2. reflexivity.
      + intro y. vrew2. reflexivity.
      + intros c Nc. vrew2. reflexivity.
      + vrew2. rewrite FLr. destruct a; [contradiction|reflexivity].
    - destruct (updR_first_view2 _ _ _ _ _ HA) as (N1 & P1 & R1 & L1 & F1).
      assert (a = []) by (apply last_or_none_nil; exact Eprev). subst a.
      repeat split.
      + intros y Ny. vrew2. reflexivity.
      + intros p Ep. discriminate.
      + intros y Ny. vrew2. reflexivity.
      + vrew2. exact Psf.
      + intro y. vrew2. reflexivity.
      + intro y. vrew2. reflexivity.
      + intros c Nc. vrew2. fupd_solve.
      + vrew2. rewrite Pos.eqb_refl, FLr. reflexivity. }
  destruct STEP as (NA & NAp & PA & PAsf & RA & LA & FA & FAr).
  assert (Ef' : r_first sr' = Some sf).
  { assert (Q : dFL (viewT2 sA) self = Some (Some sf, Some sl)) by (rewrite FA by congruence; exact FLs).
    simpl in Q. unfold rFL in Q. rewrite Fself' in Q. destruct (r_erased sr'); [discriminate|]. injection Q as Q _. exact Q. }
  rewrite Ef' in HC.
  assert (C2A : chain (blk_next sA) (Some sf) l2).
  { eapply chain_ext; [|exact C2]. intros y Iy. change (dN (viewT2 sA) y = dN (viewT2 s) y). apply NA.
    intro E. apply last_or_In in E. destruct E as [E|E]; [discriminate|].
    eapply DJ; [apply in_or_app; left; exact E|exact Iy]. }
  destruct (set_parent_loop_view _ _ _ _ _ _ _ HC C2A) as (NC & PC & RCin & RCout & LC & FC).
  destruct (dll_splice_before (viewT2 s) (viewT2 s') region self _ _ a target b _ _ l2 Nrs D1 D2 L2ne) as [DR DS].
  - intros y Ny1 Ny2. rewrite NG, NF, NE, ND, fupd_other, NC; [apply NA; exact Ny2|].
    intro; subst. apply Ny1. symmetry. exact Hla2.
  - intros p Ep. rewrite NG, NF, NE, ND, fupd_other, NC, (NAp p Ep), <- Hhd2; [reflexivity|].
    intro; subst. apply last_or_In in Ep. destruct Ep as [Ep|Ep]; [discriminate|].
    eapply DJ; [apply in_or_app; left; exact Ep|exact Isl].
  - intros q Eq. rewrite <- Hla2 in Eq. injection Eq as <-. rewrite NG, NF, NE, ND, fupd_same. reflexivity.
  - intros y Ny1 Ny2. rewrite PG, PF, PE, fupd_other, PD, PC by exact Ny1. apply PA. intro; subst. apply Ny2. symmetry. exact Hhd2.
  - intros q Eq. rewrite <- Hhd2 in Eq. injection Eq as <-. rewrite PG, PF, PE, fupd_other, PD, PC by congruence. exact PAsf.
  - rewrite PG, PF, PE, fupd_same, <- Hla2. reflexivity.
  - intros y Ny. rewrite RG, RF, RE, RD, (RCout y Ny). apply RA.
  - intros y Iy. rewrite RG, RF, RE, RD. apply RCin. exact Iy.
  - intro y. rewrite LG, LF, LE, LD, LC. apply LA.
  - assert (FLself : dFL (viewT2 s') self = Some (None, None)).
    { rewrite FG, fupd_same, FF, fupd_same, FE, FD, FC, FA, FLs by congruence. reflexivity. }
    assert (FLreg : dFL (viewT2 s') region = Some (match a with [] => Some sf | _ => r_first rr0 end, r_last rr0)).
    { rewrite FG, fupd_other, FF, fupd_other, FE, FD, FC, FAr by congruence. reflexivity. }
    assert (FLoth : forall c, c <> self -> c <> region -> dFL (viewT2 s') c = dFL (viewT2 s) c).
    { intros c N1 N2. rewrite FG, fupd_other, FF, fupd_other, FE, FD, FC, FA by assumption. reflexivity. }
    split.
    + intros c f' la' Hc. destruct (Pos.eq_dec c region) as [->|Ncr]; [|destruct (Pos.eq_dec c self) as [->|Ncs]].
      * rewrite FLreg in Hc. injection Hc as <- <-.
        exists (a ++ l2 ++ target :: b). destruct l2 as [|q t]; [contradiction|].
        simpl in Hhd2. injection Hhd2 as <-. destruct a; exact DR.
      * rewrite FLself in Hc. injection Hc as <- <-. exists []. exact DS.
      * assert (Q : dFL (viewT2 s) c = Some (f', la')) by (rewrite <- FLoth by assumption; exact Hc).
        destruct (D c f' la' Q) as (l & DLc). exists l. eapply dll_frame; [exact DLc| |].
        -- intros z Pz.
           assert (Nz2 : ~ In z l2) by (intro I; rewrite (M2 z I) in Pz; injection Pz as Q2; congruence).
           assert (Nz1 : ~ In z (a ++ target :: b)) by (intro I; rewrite (M1 z I) in Pz; injection Pz as Q2; congruence).
           repeat split.
           ++ rewrite NG, NF, NE, ND, fupd_other, NC by (intro; subst; contradiction). apply NA.
              intro E. apply last_or_In in E. destruct E as [E|E]; [discriminate|]. apply Nz1. apply in_or_app. left. exact E.
           ++ rewrite PG, PF, PE, fupd_other, PD, PC by (intro; subst; contradiction). apply PA. intro; subst. contradiction.
           ++ rewrite RG, RF, RE, RD, (RCout z Nz2). apply RA.
        -- intros z Lz Pz. rewrite LG, LF, LE, LD, LC, LA in Lz. split; [exact Lz|].
           rewrite RG, RF, RE, RD in Pz. destruct (in_dec Pos.eq_dec z l2) as [I|NI].
           ++ rewrite (RCin z I) in Pz. injection Pz as Q2. congruence.
           ++ rewrite (RCout z NI), RA in Pz. exact Pz.
    + apply (Ddet_other (viewT2 s) (viewT2 s') DD). intros z Lz Pz.
      rewrite LG, LF, LE, LD, LC, LA in Lz. rewrite RG, RF, RE, RD in Pz.
      destruct (in_dec Pos.eq_dec z l2) as [I|NI]; [rewrite (RCin z I) in Pz; discriminate|].
      rewrite (RCout z NI), RA in Pz.
      split; [exact Lz|]. split; [exact Pz|]. split.
      * rewrite NG, NF, NE, ND, fupd_other, NC by (intro; subst; contradiction). apply NA.
        intro E. apply last_or_In in E. destruct E as [E|E]; [discriminate|].
        rewrite (M1 z (in_or_app _ _ _ (or_introl E))) in Pz. discriminate.
      * rewrite PG, PF, PE, fupd_other, PD, PC by (intro; subst; rewrite Vpart in Pz; discriminate).
        apply PA. intro; subst. contradiction.
Qed.
