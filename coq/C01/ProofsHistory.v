(* C01/ProofsHistory.v -- the initial state satisfies the invariant; every PROVED call constructor
   preserves it; histories of proved calls preserve it; refutation witnesses.
   Invariant carried through histories: WF (the property) /\ parents_ok (parent pointers of live
   nodes point to allocated ids -- an auxiliary fact needed by the creation calls, ProofsCreate.v). *)
From Coq Require Import ZArith List Bool PArith FMapPositive Lia.
From XV Require Import C01.Model C01.Spec C01.ProofsBase C01.ProofsWfb C01.ProofsFrame C01.ProofsUses
  C01.ProofsOperands C01.ProofsRauw C01.ProofsSetOperands C01.ProofsSetSuccessors C01.ProofsDll C01.ProofsOps
  C01.ProofsBlocks C01.ProofsOpRegions C01.ProofsMove C01.ProofsOpLists C01.ProofsBlockLists C01.ProofsArgs
  C01.ProofsCreate C01.ProofsInv C01.ProofsErase C01.ProofsReplaceType C01.ProofsReplaceOp.
Import ListNotations.
Local Open Scope Z_scope.

Theorem empty_WF : WF empty_state.
Proof. apply wf_b_sound. vm_compute. reflexivity. Qed.

(* ------------------------------------------------------------------ proved constructors *)

(* the call constructors whose WF-preservation is proved (all others are covered by the
   correspondence check + evaluation of wf_b on the model after every call) *)
Definition proved_call (c : call) : bool :=
  match c with
  | COpCreate _ _ _ _ | CBlockNew _ _ | CRegionNew _ | CCreateBlock _ _ _ => true
  (* erase of an operation: either the operation has no regions, or every node of the subtree
     that the erase is going to mark is live (see args_live) *)
  | COpErase _ _ | CEraseOp _ _ _ | CRwEraseOp _ _ _ => true
  | CRwReplaceValueWithNewType _ _ => true
  (* replace_op / PatternRewriter.replace_op: the replaced operation has no regions *)
  | CRwReplaceOp _ _ _ _ | CPrReplace _ _ _ _ => true
  | CSetOperands _ _ | CSetSuccessors _ _ | COperandSetItem _ _ _ | CSuccessorSetItem _ _ _
  | CAddRegion _ _ | CDetachRegion _ _ | CDetachRegionIdx _ _
  | CReplaceAllUsesWith _ _ | CReplaceUsesWithIf _ _ _ | CValueErase _ _
  | CPrReplaceAllUsesWith _ _ _ | CPrReplaceUsesWithIf _ _ _
  | CInsertArg _ _ | CPrInsertBlockArgument _ _ | CEraseArg _ _ _ | CPrEraseBlockArgument _ _
  | CInsertOpAfter _ _ _ | CInsertOpBefore _ _ _ | CAddOp _ _ | CDetachOp _ _ | COpDetach _
  | CAddOps _ _ | CInsertOpsBefore _ _ _ | CInsertOpsAfter _ _ _ | CRwInsertOp _ _ _ _ => true
  | CAddBlock _ _ | CInsertBlockBefore _ _ _ | CInsertBlockAfter _ _ _ | CInsertBlock _ _ _ | CRwInsertBlock _ _ _
  | CDetachBlock _ _ | CDetachBlockIdx _ _ | CMoveBlocks _ _ | CMoveBlocksBefore _ _
  | CRwInlineRegion _ _ _ _ | CRwMoveRegionContents _ _ => true
  | _ => false
  end.

(* a live block together with its (live) parent region *)
Definition blk_in_live_region (s : state) (t : bid) : Prop :=
  exists tx region, PM.find t (s_blocks s) = Some tx /\ b_erased tx = false /\
                    b_parent tx = Some region /\ reg_live s region.

(* a live operation without regions *)
Definition op_live_noregions (s : state) (o : oid) : Prop :=
  exists x, PM.find o (s_ops s) = Some x /\ o_erased x = false /\ o_regions x = [] /\
            (forall b, o_parent x = Some b -> blk_live s b).

(* every node that a successful erase of o marks erased (the walk collect_op) is live *)
Definition tree_live (s : state) (o : oid) : Prop := all_live s (collect_op (fuel_of s) s o).
(* the same, stated on the state reached by detaching o from its block b first (which is what
   Block.erase_op / Rewriter.erase_op do before erasing) *)
Definition tree_live_detached (s : state) (b : bid) (o : oid) : Prop :=
  forall s1 r1, detach_op b o s = (s1, Ok r1) -> tree_live s1 o.

(* "objects erased by a successful erase call are not used again", per constructor *)
Definition args_live (s : state) (c : call) : Prop :=
  match c with
  | CBlockNew ops _ => forall o, In o ops -> op_live s o
  | COpErase o _ => op_live_noregions s o \/ tree_live s o
  | CRwEraseOp _ o _ =>
      op_live_noregions s o \/
      (op_live s o /\
       (forall x b, PM.find o (s_ops s) = Some x -> o_parent x = Some b -> blk_live s b /\ tree_live_detached s b o) /\
       (forall x, PM.find o (s_ops s) = Some x -> o_parent x = None -> tree_live s o))
  | CRwReplaceOp o news _ _ | CPrReplace o news _ _ =>
      op_live_noregions s o /\ (forall n, In n news -> op_live s n)
  | CRwReplaceValueWithNewType _ v => val_live s v
  | CEraseOp b o _ => blk_live s b /\ (op_live_noregions s o \/ (op_live s o /\ tree_live_detached s b o))
  | CRegionNew blocks => forall b, In b blocks -> blk_live s b
  | CCreateBlock r ib _ => reg_live s r /\ (forall t, ib = Some t -> blk_live s t)
  | CSetOperands o _ | CSetSuccessors o _ | COperandSetItem o _ _ | CSuccessorSetItem o _ _
  | CDetachRegionIdx o _ | CAddRegion o _ => op_live s o
  | CInsertArg b _ | CPrInsertBlockArgument b _ => blk_live s b
  | CEraseArg b arg _ => blk_live s b /\ val_live s arg
  | CPrEraseBlockArgument arg _ =>
      val_live s arg /\ (forall vr b i, PM.find arg (s_values s) = Some vr -> v_kind vr = KArg b i -> blk_live s b)
  | CInsertOpAfter b _ ex | CInsertOpBefore b _ ex => blk_live s b /\ op_live s ex
  | CAddOp b o | CDetachOp b o => blk_live s b /\ op_live s o
  | COpDetach o => op_live s o /\
                   (forall x b, PM.find o (s_ops s) = Some x -> o_parent x = Some b -> blk_live s b)
  | CAddOps b ops => blk_live s b /\ (forall o, In o ops -> op_live s o)
  | CInsertOpsBefore b ops ex => blk_live s b /\ op_live s ex
  | CInsertOpsAfter b ops ex => blk_live s b /\ op_live s ex /\ (forall o, In o ops -> op_live s o)
  | CRwInsertOp _ ops b ib => blk_live s b /\ (forall o, In o ops -> op_live s o) /\ (forall e, ib = Some e -> op_live s e)
  | CAddBlock r blocks => reg_live s r /\ (forall b, In b blocks -> blk_live s b)
  | CInsertBlockBefore r blocks t => reg_live s r /\ blk_live s t /\ (forall b, In b blocks -> blk_live s b)
  | CInsertBlockAfter r blocks t =>
      reg_live s r /\ blk_live s t /\
      (forall tr r', PM.find t (s_blocks s) = Some tr -> b_parent tr = Some r' -> reg_live s r') /\
      (forall b, In b blocks -> blk_live s b)
  | CInsertBlock r blocks _ => reg_live s r /\ (forall b, In b blocks -> blk_live s b)
  | CRwInsertBlock blocks r ib => reg_live s r /\ (forall b, In b blocks -> blk_live s b) /\ (forall t, ib = Some t -> blk_live s t)
  | CDetachBlock r b => reg_live s r /\ blk_live s b
  | CDetachBlockIdx r _ => reg_live s r
  | CMoveBlocks r dest => reg_live s r /\ reg_live s dest
  | CMoveBlocksBefore r t => reg_live s r /\ blk_in_live_region s t
  | CRwInlineRegion _ r dest ib => reg_live s r /\ reg_live s dest /\
                                   match ib with Some t => blk_live s t | None => True end
  | CRwMoveRegionContents _ r => reg_live s r
  | _ => True
  end.

Lemma unit_ok : forall (m : M unit) s s' p, unit_ m s = (s', Ok p) -> m s = (s', Ok tt).
Proof.
  intros m s s' p H. unfold unit_ in H. apply bind_ok in H as (s1 & [] & H1 & H2).
  apply ret_ok in H2 as [-> _]. exact H1.
Qed.
Lemma lift_ok : forall {A} (f : A -> payload) (m : M A) s s' p, lift f m s = (s', Ok p) -> exists a, m s = (s', Ok a).
Proof.
  intros A f m s s' p H. unfold lift in H. apply bind_ok in H as (s1 & a & H1 & H2).
  apply ret_ok in H2 as [-> _]. eauto.
Qed.

Lemma check_bip_ok : forall region ib s s' r, check_block_insert_point region ib s = (s', Ok r) ->
  s' = s /\ forall t, ib = Some t -> exists br, PM.find t (s_blocks s) = Some br /\ b_parent br = Some region.
Proof.
  intros region ib s s' r H. unfold check_block_insert_point in H. destruct ib as [t|].
  - apply bind_ok in H as (s1 & br & Hg & H). apply getB_ok in Hg as [-> F].
    destruct (opt_eqb (b_parent br) (Some region)) eqn:P; simpl in H; [|exfalso; eapply raise_ok; eauto].
    apply ret_ok in H as [-> _]. apply opt_eqb_eq in P. split; [reflexivity|]. intros t0 E. injection E as <-. eauto.
  - apply ret_ok in H as [-> _]. split; [reflexivity|]. intros t0 E. discriminate.
Qed.

(* one wrapper per proved constructor, all of the same shape *)
Definition step_ok (c : call) : Prop := forall s s' p,
  WF s -> parents_ok s -> proved_call c = true -> args_live s c -> do_call c s = (s', Ok p) ->
  WF s' /\ parents_ok s'.

Ltac w_unit := intros s s' p W PO PC AL E; simpl in E, AL; apply unit_ok in E.
Ltac w_lift := intros s s' p W PO PC AL E; simpl in E, AL; apply lift_ok in E as (a & E).
Ltac p_nobody lem := eapply parents_ok_by_nobody; [apply lem|eassumption|eassumption].

Lemma W_CSetOperands : forall o new, step_ok (CSetOperands o new).
Proof. intros o new. w_unit. split; [exact (set_operands_WF _ _ _ _ _ W AL E)|p_nobody set_operands_par]. Qed.
Lemma W_CSetSuccessors : forall o new, step_ok (CSetSuccessors o new).
Proof. intros o new. w_unit. split; [exact (set_successors_WF _ _ _ _ _ W AL E)|p_nobody set_successors_par]. Qed.
Lemma W_COperandSetItem : forall o i v, step_ok (COperandSetItem o i v).
Proof. intros o i v. w_unit. split; [exact (operands_setitem_WF _ _ _ _ _ _ W AL E)|p_nobody operands_setitem_par]. Qed.
Lemma W_CSuccessorSetItem : forall o i v, step_ok (CSuccessorSetItem o i v).
Proof. intros o i v. w_unit. split; [exact (successors_setitem_WF _ _ _ _ _ _ W AL E)|p_nobody successors_setitem_par]. Qed.
Lemma W_CAddRegion : forall o r, step_ok (CAddRegion o r).
Proof. intros o r. w_unit. split; [exact (add_region_WF_gen _ _ _ _ _ W E)|exact (parents_ok_by_op _ o _ _ _ (add_region_par _ _ o r) W PO AL E)]. Qed.
Lemma W_CDetachRegion : forall o r, step_ok (CDetachRegion o r).
Proof. intros o r. w_lift. split; [exact (detach_region_WF_gen _ _ _ _ _ W E)|p_nobody detach_region_par]. Qed.
Lemma W_CDetachRegionIdx : forall o i, step_ok (CDetachRegionIdx o i).
Proof. intros o i. w_lift. split; [exact (detach_region_idx_WF _ _ _ _ _ W AL E)|p_nobody detach_region_idx_par]. Qed.
Lemma W_CReplaceAllUsesWith : forall v w, step_ok (CReplaceAllUsesWith v w).
Proof. intros v w. w_unit. split; [exact (replace_all_uses_with_WF _ _ _ _ _ W E)|p_nobody replace_all_uses_with_par]. Qed.
Lemma W_CReplaceUsesWithIf : forall v w sel, step_ok (CReplaceUsesWithIf v w sel).
Proof. intros v w sel. w_unit. split; [exact (replace_uses_with_if_WF _ _ _ _ _ _ W E)|p_nobody replace_uses_with_if_par]. Qed.
Lemma W_CValueErase : forall v safe, step_ok (CValueErase v safe).
Proof. intros v safe. w_unit. split; [exact (value_erase_WF _ _ _ _ _ W E)|p_nobody value_erase_par]. Qed.
Lemma W_CPrReplaceAllUsesWith : forall v w safe, step_ok (CPrReplaceAllUsesWith v w safe).
Proof. intros v w safe. w_unit. split; [exact (pr_replace_all_uses_with_WF _ _ _ _ _ _ W E)|p_nobody pr_replace_all_uses_with_par]. Qed.
Lemma W_CPrReplaceUsesWithIf : forall v w sel, step_ok (CPrReplaceUsesWithIf v w sel).
Proof. intros v w sel. w_unit. split; [exact (pr_replace_uses_with_if_WF _ _ _ _ _ _ W E)|p_nobody pr_replace_uses_with_if_par]. Qed.
Lemma W_CInsertArg : forall b i, step_ok (CInsertArg b i).
Proof. intros b i. w_lift. split; [exact (insert_arg_WF _ _ _ _ _ W AL E)|p_nobody insert_arg_par]. Qed.
Lemma W_CPrInsertBlockArgument : forall b i, step_ok (CPrInsertBlockArgument b i).
Proof. intros b i. w_lift. split; [exact (insert_arg_WF _ _ _ _ _ W AL E)|p_nobody insert_arg_par]. Qed.
Lemma W_CEraseArg : forall b v safe, step_ok (CEraseArg b v safe).
Proof. intros b v safe. w_unit. split; [exact (erase_arg_WF _ _ _ _ _ _ W (proj1 AL) (proj2 AL) E)|p_nobody erase_arg_par]. Qed.
Lemma W_CInsertOpAfter : forall b n e, step_ok (CInsertOpAfter b n e).
Proof. intros b n e. w_unit. split; [exact (insert_op_after_WF _ _ _ _ _ _ W (proj1 AL) (proj2 AL) E)|exact (parents_ok_by_block _ b _ _ _ (insert_op_after_par _ _ b n e) W PO (proj1 AL) E)]. Qed.
Lemma W_CInsertOpBefore : forall b n e, step_ok (CInsertOpBefore b n e).
Proof. intros b n e. w_unit. split; [exact (insert_op_before_WF _ _ _ _ _ _ W (proj1 AL) (proj2 AL) E)|exact (parents_ok_by_block _ b _ _ _ (insert_op_before_par _ _ b n e) W PO (proj1 AL) E)]. Qed.
Lemma W_CAddOp : forall b o, step_ok (CAddOp b o).
Proof. intros b o. w_unit. split; [exact (add_op_WF _ _ _ _ _ W (proj1 AL) (proj2 AL) E)|exact (parents_ok_by_block _ b _ _ _ (add_op_par _ _ b o) W PO (proj1 AL) E)]. Qed.
Lemma W_CDetachOp : forall b o, step_ok (CDetachOp b o).
Proof. intros b o. w_lift. split; [exact (detach_op_WF _ _ _ _ _ W (proj1 AL) (proj2 AL) E)|p_nobody detach_op_par]. Qed.
Lemma W_CAddOps : forall b ops, step_ok (CAddOps b ops).
Proof. intros b ops. w_unit. split; [exact (add_ops_WF _ _ _ _ _ W (proj1 AL) (proj2 AL) E)|exact (parents_ok_by_block _ b _ _ _ (add_ops_par _ _ b ops) W PO (proj1 AL) E)]. Qed.
Lemma W_CInsertOpsBefore : forall b ops e, step_ok (CInsertOpsBefore b ops e).
Proof. intros b ops e. w_unit. split; [exact (insert_ops_before_WF _ _ _ _ _ _ W (proj1 AL) (proj2 AL) E)|exact (parents_ok_by_block _ b _ _ _ (insert_ops_before_par _ _ b ops e) W PO (proj1 AL) E)]. Qed.
Lemma W_CInsertOpsAfter : forall b ops e, step_ok (CInsertOpsAfter b ops e).
Proof. intros b ops e. w_unit. split; [exact (insert_ops_after_WF _ _ _ _ _ _ W (proj1 AL) (proj1 (proj2 AL)) (proj2 (proj2 AL)) E)|exact (parents_ok_by_block _ b _ _ _ (insert_ops_after_par _ _ b ops e) W PO (proj1 AL) E)]. Qed.
Lemma W_CRwInsertOp : forall pr ops b ib, step_ok (CRwInsertOp pr ops b ib).
Proof. intros pr ops b ib. w_unit. split; [exact (rw_insert_op_WF _ _ _ _ _ _ W (proj1 AL) (proj1 (proj2 AL)) (proj2 (proj2 AL)) E)|exact (parents_ok_by_block _ b _ _ _ (rw_insert_op_par _ _ ops b ib) W PO (proj1 AL) E)]. Qed.
Lemma W_CAddBlock : forall r blocks, step_ok (CAddBlock r blocks).
Proof. intros r blocks. w_unit. split; [exact (add_block_WF _ _ _ _ _ W (proj1 AL) (proj2 AL) E)|exact (parents_ok_by_region _ r _ _ _ (add_block_par _ _ r blocks) W PO (proj1 AL) E)]. Qed.
Lemma W_CInsertBlockBefore : forall r blocks t, step_ok (CInsertBlockBefore r blocks t).
Proof. intros r blocks t. w_unit. split; [exact (insert_block_before_WF _ _ _ _ _ _ W (proj1 AL) (proj1 (proj2 AL)) (proj2 (proj2 AL)) E)|exact (parents_ok_by_region _ r _ _ _ (insert_block_before_par _ _ r blocks t) W PO (proj1 AL) E)]. Qed.
Lemma W_CInsertBlockAfter : forall r blocks t, step_ok (CInsertBlockAfter r blocks t).
Proof. intros r blocks t. w_unit. split; [exact (insert_block_after_WF _ _ _ _ _ _ W (proj1 AL) (proj1 (proj2 AL)) (proj1 (proj2 (proj2 AL))) (proj2 (proj2 (proj2 AL))) E)|exact (parents_ok_by_region _ r _ _ _ (insert_block_after_par _ _ r blocks t) W PO (proj1 AL) E)]. Qed.
Lemma W_CInsertBlock : forall r blocks i, step_ok (CInsertBlock r blocks i).
Proof. intros r blocks i. w_unit. split; [exact (insert_block_WF _ _ _ _ _ _ W (proj1 AL) (proj2 AL) E)|exact (parents_ok_by_region _ r _ _ _ (insert_block_par _ _ r blocks i) W PO (proj1 AL) E)]. Qed.
Lemma W_CRwInsertBlock : forall blocks r ib, step_ok (CRwInsertBlock blocks r ib).
Proof. intros blocks r ib. w_unit. split; [exact (rw_insert_block_WF _ _ _ _ _ _ W (proj1 AL) (proj1 (proj2 AL)) (proj2 (proj2 AL)) E)|exact (parents_ok_by_region _ r _ _ _ (rw_insert_block_par _ _ blocks r ib) W PO (proj1 AL) E)]. Qed.
Lemma W_CDetachBlock : forall r b, step_ok (CDetachBlock r b).
Proof. intros r b. w_lift. split; [exact (detach_block_WF _ _ _ _ _ W (proj1 AL) (proj2 AL) E)|p_nobody detach_block_par]. Qed.
Lemma W_CDetachBlockIdx : forall r i, step_ok (CDetachBlockIdx r i).
Proof. intros r i. w_lift. split; [exact (detach_block_idx_WF _ _ _ _ _ W AL E)|p_nobody detach_block_idx_par]. Qed.
Lemma W_CMoveBlocks : forall r d, step_ok (CMoveBlocks r d).
Proof. intros r d. w_unit. split; [exact (move_blocks_WF _ _ _ _ _ W (proj1 AL) (proj2 AL) E)|exact (move_blocks_parents_ok _ _ _ _ _ W PO (proj2 AL) E)]. Qed.
Lemma W_CBlockNew : forall ops nargs, step_ok (CBlockNew ops nargs).
Proof. intros ops nargs. w_lift. split; [exact (proj1 (block_new_inv _ _ _ _ _ W PO AL E))|exact (proj2 (block_new_inv _ _ _ _ _ W PO AL E))]. Qed.
Lemma W_CRegionNew : forall blocks, step_ok (CRegionNew blocks).
Proof. intros blocks. w_lift. split; [exact (proj1 (region_new_inv _ _ _ _ W PO AL E))|exact (proj2 (region_new_inv _ _ _ _ W PO AL E))]. Qed.
Lemma W_COpCreate : forall operands nres succs regions, step_ok (COpCreate operands nres succs regions).
Proof. intros operands nres succs regions. w_lift. split; [exact (proj1 (op_create_inv _ _ _ _ _ _ _ W PO E))|exact (proj2 (op_create_inv _ _ _ _ _ _ _ W PO E))]. Qed.

Lemma W_COpErase : forall o safe, step_ok (COpErase o safe).
Proof.
  intros o safe. w_unit. split; [|p_nobody op_erase_par].
  destruct AL as [(x & F & Ex & Rx & BL)|TL].
  - exact (op_erase_noregions_WF _ _ _ _ _ _ W F Ex Rx E).
  - exact (op_erase_tree_WF _ _ _ _ _ W TL E).
Qed.
Lemma W_CEraseOp : forall b o safe, step_ok (CEraseOp b o safe).
Proof.
  intros b o safe. w_unit. split; [|p_nobody erase_op_par].
  destruct AL as [A1 [(x & F & Ex & Rx & BL)|[OL TL]]].
  - exact (erase_op_noregions_WF _ _ _ _ _ _ _ W A1 F Ex Rx E).
  - exact (erase_op_tree_WF _ _ _ _ _ _ W A1 OL TL E).
Qed.
Lemma W_CRwEraseOp : forall pr o safe, step_ok (CRwEraseOp pr o safe).
Proof.
  intros pr o safe. w_unit. split; [|p_nobody rw_erase_op_par].
  destruct AL as [(x & F & Ex & Rx & BL)|(OL & T1 & T2)].
  - exact (rw_erase_op_noregions_WF _ _ _ _ _ _ W F Ex Rx BL E).
  - exact (rw_erase_op_tree_WF _ _ _ _ _ W OL T1 T2 E).
Qed.

Lemma W_CRwReplaceOp : forall o news nres safe, step_ok (CRwReplaceOp o news nres safe).
Proof.
  intros o news nres safe. w_unit. destruct AL as [(x & F & Ex & Rx & BL) NL].
  assert (BL' : forall x0 b, PM.find o (s_ops s) = Some x0 -> o_parent x0 = Some b -> blk_live s b).
  { intros x0 b F0 P0. rewrite F in F0. injection F0 as <-. exact (BL b P0). }
  exact (rw_replace_op_inv _ _ _ _ _ _ _ W PO (ex_intro _ x (conj F (conj Ex Rx))) BL' NL E).
Qed.
Lemma W_CPrReplace : forall o news nres safe, step_ok (CPrReplace o news nres safe).
Proof.
  intros o news nres safe. w_unit. destruct AL as [(x & F & Ex & Rx & BL) NL].
  assert (BL' : forall x0 b, PM.find o (s_ops s) = Some x0 -> o_parent x0 = Some b -> blk_live s b).
  { intros x0 b F0 P0. rewrite F in F0. injection F0 as <-. exact (BL b P0). }
  exact (pr_replace_inv _ _ _ _ _ _ _ W PO (ex_intro _ x (conj F (conj Ex Rx))) BL' NL E).
Qed.

Lemma rvnt_par : forall PB PR PO v, preserves (par_rel PB PR PO) (rw_replace_value_with_new_type v).
Proof.
  intros. unfold rw_replace_value_with_new_type.
  apply (pres_bind _ (fr_par PB PR PO)); [apply (pres_getV _ (fr_par PB PR PO))|intro vr].
  destruct (v_kind vr); pres (fr_par PB PR PO).
Qed.
Lemma W_CRwReplaceValueWithNewType : forall pr v, step_ok (CRwReplaceValueWithNewType pr v).
Proof.
  intros pr v. w_lift. split; [exact (rw_replace_value_with_new_type_WF _ _ _ _ W AL E)|p_nobody rvnt_par].
Qed.

Lemma W_COpDetach : forall o, step_ok (COpDetach o).
Proof.
  intros o. w_unit. split; [|p_nobody op_detach_par]. destruct AL as [OL BL]. unfold op_detach in E.
  apply bind_ok in E as (s0 & x & Hg & E). apply getO_ok in Hg as [-> F].
  destruct (o_parent x) as [b|] eqn:P; [|exfalso; eapply raise_ok; eauto].
  apply bind_ok in E as (s1 & a & E & R). apply ret_ok in R as [-> _].
  exact (detach_op_WF _ _ _ _ _ W (BL x b F P) OL E).
Qed.

Lemma pr_erase_block_argument_par : forall PB PR PO v safe,
  preserves (par_rel PB PR PO) (pr_erase_block_argument v safe).
Proof.
  intros. unfold pr_erase_block_argument.
  apply (pres_bind _ (fr_par PB PR PO)); [apply pr_replace_all_uses_with_par|intros _].
  apply (pres_bind _ (fr_par PB PR PO)); [apply (pres_getV _ (fr_par PB PR PO))|intro ar].
  destruct (v_kind ar); [apply (pres_raise _ (fr_par PB PR PO))|apply erase_arg_par|apply (pres_raise _ (fr_par PB PR PO))].
Qed.
Lemma W_CPrEraseBlockArgument : forall v safe, step_ok (CPrEraseBlockArgument v safe).
Proof.
  intros v safe. w_unit. split; [|p_nobody pr_erase_block_argument_par].
  exact (pr_erase_block_argument_WF _ _ _ _ _ W (proj1 AL) (proj2 AL) E).
Qed.

Lemma W_CMoveBlocksBefore : forall r t, step_ok (CMoveBlocksBefore r t).
Proof.
  intros r t. w_unit. destruct AL as [A1 (tx & region & F & Et & Pt & RL)]. split.
  - exact (move_blocks_before_WF _ _ _ _ _ _ _ W A1 F Et Pt RL E).
  - exact (move_blocks_before_parents_ok _ _ _ _ _ _ _ W PO F Pt RL E).
Qed.

Lemma W_CRwInlineRegion : forall pr r dest ib, step_ok (CRwInlineRegion pr r dest ib).
Proof.
  intros pr r dest ib. w_unit. destruct AL as (A1 & A2 & A3).
  unfold rw_inline_region in E. apply bind_ok in E as (s0 & ? & Hc & E).
  destruct (check_bip_ok _ _ _ _ _ Hc) as [-> CK]. destruct ib as [t|].
  - destruct (CK t eq_refl) as (br & F & P). destruct A3 as (br' & F' & Eb). rewrite F in F'. injection F' as <-.
    split; [exact (move_blocks_before_WF _ _ _ _ _ _ _ W A1 F Eb P A2 E)|
            exact (move_blocks_before_parents_ok _ _ _ _ _ _ _ W PO F P A2 E)].
  - split; [exact (move_blocks_WF _ _ _ _ _ W A1 A2 E)|exact (move_blocks_parents_ok _ _ _ _ _ W PO A2 E)].
Qed.

(* Rewriter.move_region_contents_to_new_regions: a fresh region, then move_blocks into it *)
Lemma region_new_empty_facts : forall s s' r, WF s -> region_new [] s = (s', Ok r) ->
  reg_live s' r /\ (forall q, reg_live s q -> reg_live s' q).
Proof.
  intros s s' r W H. unfold region_new in H.
  apply bind_ok in H as (s1 & r1 & Ha & H). unfold allocR in Ha. injection Ha as <- <-.
  apply bind_ok in H as (s2 & ? & Hb & H). apply ret_ok in H as [<- ->].
  unfold add_block in Hb. apply bind_ok in Hb as (s3 & rr & Hg & Hb). apply getR_ok in Hg as [-> F].
  simpl in F. rewrite find_add_same in F. injection F as <-. simpl in Hb. apply ret_ok in Hb as [-> _].
  split.
  - exists (mkRegion None None None false). simpl. rewrite find_add_same. auto.
  - intros q (xq & Fq & Eq). exists xq. simpl. rewrite find_add. destruct (Pos.eqb_spec q (n_region s)) as [->|N]; [|auto].
    exfalso. destruct (wf_alloc s W) as (_ & _ & B & _). specialize (B _ _ Fq). lia.
Qed.

Lemma W_CRwMoveRegionContents : forall pr r, step_ok (CRwMoveRegionContents pr r).
Proof.
  intros pr r. w_lift. unfold rw_move_region_contents_to_new_regions in E.
  apply bind_ok in E as (s1 & nr & Hn & E). apply bind_ok in E as (s2 & ? & Hm & E). apply ret_ok in E as [<- _].
  destruct (region_new_inv _ _ _ _ W PO (fun b (I : In b []) => match I with end) Hn) as [W1 PO1].
  destruct (region_new_empty_facts _ _ _ W Hn) as [L1 L2].
  split; [exact (move_blocks_WF _ _ _ _ _ W1 (L2 r AL) L1 Hm)|exact (move_blocks_parents_ok _ _ _ _ _ W1 PO1 L1 Hm)].
Qed.

(* Builder.create_block *)
Lemma W_CCreateBlock : forall r ib nargs, step_ok (CCreateBlock r ib nargs).
Proof.
  intros r ib nargs. w_lift. destruct AL as [A1 A2].
  destruct (parents_ok_fresh s PO) as (FB & _ & _).
  split.
  - eapply (create_block_WF s s' r ib nargs a W A1 A2); [|exact E].
    intros s1 b1 Hb. destruct (block_new_empty_spec _ _ _ _ W FB Hb) as (W1 & _ & L1 & _).
    destruct (block_new_empty_live _ _ _ _ W FB Hb) as (Q1 & Q2 & Q3).
    split; [exact W1|]. split; [exact L1|]. split; [exact Q1|split; [exact Q2|exact Q3]].
  - unfold create_block in E. apply bind_ok in E as (s0 & ? & Hc & E).
    destruct (check_bip_ok _ _ _ _ _ Hc) as [-> _].
    apply bind_ok in E as (s1 & b1 & Hb & E). apply bind_ok in E as (s2 & ? & Hi & E). apply ret_ok in E as [<- _].
    destruct (block_new_empty_spec _ _ _ _ W FB Hb) as (W1 & _ & _).
    destruct (block_new_empty_live _ _ _ _ W FB Hb) as (_ & _ & Q3).
    pose proof (block_new_parents_ok _ _ _ _ _ PO Hb) as PO1.
    exact (parents_ok_by_region _ r _ _ _ (rw_insert_block_par _ _ [b1] r ib) W1 PO1 (Q3 r A1) Hi).
Qed.

Create HintDb wstep discriminated.
#[export] Hint Resolve W_CSetOperands W_CSetSuccessors W_COperandSetItem W_CSuccessorSetItem W_CAddRegion W_CDetachRegion W_CDetachRegionIdx W_CReplaceAllUsesWith W_CReplaceUsesWithIf W_CValueErase W_CPrReplaceAllUsesWith W_CPrReplaceUsesWithIf W_CInsertArg W_CPrInsertBlockArgument W_CEraseArg W_CInsertOpAfter W_CInsertOpBefore W_CAddOp W_CDetachOp W_CAddOps W_CInsertOpsBefore W_CInsertOpsAfter W_CRwInsertOp W_CAddBlock W_CInsertBlockBefore W_CInsertBlockAfter W_CInsertBlock W_CRwInsertBlock W_CDetachBlock W_CDetachBlockIdx W_CMoveBlocks W_CBlockNew W_CRegionNew W_COpCreate W_COpErase W_CEraseOp W_CRwEraseOp W_CRwReplaceValueWithNewType W_COpDetach W_CPrEraseBlockArgument W_CMoveBlocksBefore W_CRwInlineRegion W_CRwMoveRegionContents W_CCreateBlock W_CRwReplaceOp W_CPrReplace : wstep.

Definition Inv (s : state) : Prop := WF s /\ parents_ok s.

Theorem empty_Inv : Inv empty_state.
Proof. split; [exact empty_WF|exact empty_parents_ok]. Qed.

Theorem step_preserves : forall s c p,
  Inv s -> proved_call c = true -> args_live s c -> snd (step s c) = Ok p -> Inv (fst (step s c)).
Proof.
  intros s c p [W PO] PC AL H. unfold step in *. destruct (do_call c s) as [s' r] eqn:E. simpl in *. subst r.
  destruct c; try (simpl in PC; discriminate);
    match goal with E0 : do_call ?c0 _ = _ |- _ =>
      let L := fresh "L" in assert (L : step_ok c0) by auto with wstep; exact (L _ _ _ W PO PC AL E0) end.
Qed.

(* a history all of whose calls are proved constructors applied to live arguments and none of
   which raises *)
Inductive clean : state -> list call -> Prop :=
| clean_nil : forall s, clean s []
| clean_cons : forall s c r p,
    proved_call c = true -> args_live s c -> snd (step s c) = Ok p ->
    clean (fst (step s c)) r -> clean s (c :: r).

Theorem history_preserves : forall cs s, Inv s -> clean s cs -> Inv (run cs s).
Proof.
  induction cs as [|c r IH]; intros s W C; simpl.
  - exact W.
  - inversion C; subst. apply IH; [eapply step_preserves; eauto|assumption].
Qed.

Theorem history_from_empty : forall cs, clean empty_state cs -> WF (run cs empty_state).
Proof. intros cs C. exact (proj1 (history_preserves cs empty_state empty_Inv C)). Qed.

(* ------------------------------------------------------------------ refutation witnesses *)

Definition P1 : positive := 1%positive.
Definition P2 : positive := 2%positive.

(* (a) the code before fix f198beb: op.operands[-1] = v *)
Definition w_setitem : state := run [CBlockNew [] 2%nat; COpCreate [P1; P2] 0%nat [] []] empty_state.

Lemma setitem_negative_old_refuted :
  WF w_setitem /\ op_live w_setitem P1 /\
  snd (operands_setitem_old P1 (-1) P1 w_setitem) = Ok tt /\
  ~ WF (fst (operands_setitem_old P1 (-1) P1 w_setitem)).
Proof.
  split; [apply wf_b_sound; vm_compute; reflexivity|].
  split; [eexists; split; vm_compute; reflexivity|].
  split; [vm_compute; reflexivity|].
  intro W. pose proof (wf_operands _ W P1) as Q.
  remember (PM.find P1 (s_ops (fst (operands_setitem_old P1 (-1) P1 w_setitem)))) as fx eqn:Hfx.
  vm_compute in Hfx. subst fx. specialize (Q _ eq_refl eq_refl). destruct Q as [L _].
  vm_compute in L. discriminate.
Qed.

(* the repaired code raises nothing and keeps WF on the same witness *)
Lemma setitem_negative_fixed_witness :
  snd (operands_setitem P1 (-1) P1 w_setitem) = Ok tt /\
  wf_b (fst (operands_setitem P1 (-1) P1 w_setitem)) = true.
Proof. split; vm_compute; reflexivity. Qed.

(* (b) the code before fix 9351131: op.detach_region(-1) *)
Definition w_detach_region : state :=
  run [CRegionNew []; CRegionNew []; COpCreate [] 0%nat [] [P1; P2]] empty_state.

Lemma detach_region_negative_old_refuted :
  WF w_detach_region /\ op_live w_detach_region P1 /\
  snd (detach_region_idx_old P1 (-1) w_detach_region) = Ok P2 /\
  ~ WF (fst (detach_region_idx_old P1 (-1) w_detach_region)).
Proof.
  split; [apply wf_b_sound; vm_compute; reflexivity|].
  split; [eexists; split; vm_compute; reflexivity|].
  split; [vm_compute; reflexivity|].
  intro W. pose proof (wf_opregs _ W P1) as Q.
  remember (PM.find P1 (s_ops (fst (detach_region_idx_old P1 (-1) w_detach_region)))) as fx eqn:Hfx.
  vm_compute in Hfx. subst fx. specialize (Q _ eq_refl eq_refl). destruct Q as [ND _].
  vm_compute in ND. inversion ND as [|? ? NI _]. apply NI. left. reflexivity.
Qed.

Lemma detach_region_negative_fixed_witness :
  snd (detach_region_idx P1 (-1) w_detach_region) = Ok P2 /\
  wf_b (fst (detach_region_idx P1 (-1) w_detach_region)) = true.
Proof. split; vm_compute; reflexivity. Qed.

(* (c) raising calls that leave a partial mutation behind (known findings C01-kf-4/5/6) *)
Definition w_add_block : state :=
  run [CBlockNew [] 0%nat; CBlockNew [] 0%nat; CRegionNew [P2]; CRegionNew []] empty_state.

Lemma raise_add_block_refuted :
  WF w_add_block /\ snd (step w_add_block (CAddBlock P2 [P1; P2])) = Raise ValueError /\
  ~ WF (fst (step w_add_block (CAddBlock P2 [P1; P2]))).
Proof.
  split; [apply wf_b_sound; vm_compute; reflexivity|].
  split; [vm_compute; reflexivity|].
  intro W. pose proof (wf_region _ W P2) as Q.
  remember (PM.find P2 (s_regions (fst (step w_add_block (CAddBlock P2 [P1; P2]))))) as fx eqn:Hfx.
  vm_compute in Hfx. subst fx. specialize (Q _ eq_refl eq_refl). destruct Q as (l & C1 & C2 & _).
  simpl in C1, C2. apply chain_none_nil in C2. destruct l as [|y t]; [inversion C1|].
  simpl in C2. apply app_eq_nil in C2. destruct C2; discriminate.
Qed.

Definition w_erase : state :=
  run [COpCreate [] 1%nat [] []; COpCreate [P1] 1%nat [] []; COpCreate [P2] 0%nat [] []] empty_state.

Lemma raise_erase_refuted :
  WF w_erase /\ snd (step w_erase (COpErase P2 true)) = Raise ValueError /\
  ~ WF (fst (step w_erase (COpErase P2 true))).
Proof.
  split; [apply wf_b_sound; vm_compute; reflexivity|].
  split; [vm_compute; reflexivity|].
  intro W. pose proof (wf_operands _ W P2) as Q.
  remember (PM.find P2 (s_ops (fst (step w_erase (COpErase P2 true))))) as fx eqn:Hfx.
  vm_compute in Hfx. subst fx. specialize (Q _ eq_refl eq_refl). destruct Q as [L _].
  vm_compute in L. discriminate.
Qed.

Definition w_erase_arg : state := run [CBlockNew [] 1%nat; COpCreate [P1] 0%nat [] []] empty_state.

Lemma raise_erase_arg_refuted :
  WF w_erase_arg /\ snd (step w_erase_arg (CEraseArg P1 P1 true)) = Raise ValueError /\
  ~ WF (fst (step w_erase_arg (CEraseArg P1 P1 true))).
Proof.
  split; [apply wf_b_sound; vm_compute; reflexivity|].
  split; [vm_compute; reflexivity|].
  intro W. pose proof (wf_owner _ W P1) as Q.
  remember (PM.find P1 (s_values (fst (step w_erase_arg (CEraseArg P1 P1 true))))) as fx eqn:Hfx.
  vm_compute in Hfx. subst fx. specialize (Q _ eq_refl eq_refl). simpl in Q.
  destruct Q as (br & F & Z). vm_compute in F. injection F as <-. vm_compute in Z. discriminate.
Qed.


Lemma use_clauses_iff : forall s,
  (WF_vuses s /\ WF_buses s /\ WF_operands s /\ WF_successors s /\ WF_disjoint s) <->
  (Uabs s (real_slot s) /\ lens_ok s).
Proof. intro s. split; [apply UWF_Uabs|intros [A B]; apply Uabs_UWF; assumption]. Qed.
