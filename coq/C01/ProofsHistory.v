(* C01/ProofsHistory.v -- the initial state is well formed; every PROVED call constructor
   preserves WF; histories of proved calls preserve WF; refutation witnesses. *)
From Coq Require Import ZArith List Bool PArith FMapPositive Lia.
From XV Require Import C01.Model C01.Spec C01.ProofsBase C01.ProofsWfb C01.ProofsFrame C01.ProofsUses
  C01.ProofsOperands C01.ProofsRauw C01.ProofsSetOperands C01.ProofsDll C01.ProofsOps C01.ProofsBlocks.
Import ListNotations.
Local Open Scope Z_scope.

Theorem empty_WF : WF empty_state.
Proof. apply wf_b_sound. vm_compute. reflexivity. Qed.

(* ------------------------------------------------------------------ proved constructors *)

(* the call constructors whose WF-preservation is proved (all others are covered by the
   correspondence check + evaluation of wf_b on the model after every call) *)
Definition proved_call (c : call) : bool :=
  match c with
  | CSetOperands _ _ | COperandSetItem _ _ _ | CSuccessorSetItem _ _ _
  | CReplaceAllUsesWith _ _ | CReplaceUsesWithIf _ _ _ | CValueErase _ _
  | CPrReplaceAllUsesWith _ _ _ | CPrReplaceUsesWithIf _ _ _
  | CInsertOpAfter _ _ _ | CInsertOpBefore _ _ _ | CAddOp _ _ | CDetachOp _ _ | COpDetach _ => true
  | CDetachBlock _ _ | CDetachBlockIdx _ _ => true
  (* the block-list calls are proved for a single block *)
  | CAddBlock _ [_] | CInsertBlockBefore _ [_] _ | CRwInsertBlock [_] _ _ => true
  | _ => false
  end.

(* "objects erased by a successful erase call are not used again", per constructor *)
Definition args_live (s : state) (c : call) : Prop :=
  match c with
  | CSetOperands o _ | COperandSetItem o _ _ | CSuccessorSetItem o _ _ => op_live s o
  | CInsertOpAfter b _ ex | CInsertOpBefore b _ ex => blk_live s b /\ op_live s ex
  | CAddOp b o | CDetachOp b o => blk_live s b /\ op_live s o
  | COpDetach o => op_live s o /\
                   (forall x b, PM.find o (s_ops s) = Some x -> o_parent x = Some b -> blk_live s b)
  | CDetachBlock r b => reg_live s r /\ blk_live s b
  | CDetachBlockIdx r _ => reg_live s r
  | CAddBlock r [b] => reg_live s r /\ blk_live s b
  | CInsertBlockBefore r [b] t => reg_live s r /\ blk_live s b /\ blk_live s t
  | CRwInsertBlock [b] r ib => reg_live s r /\ blk_live s b /\ match ib with Some t => blk_live s t | None => True end
  | _ => True
  end.

Lemma unit_ok : forall (m : M unit) s s' p, unit_ m s = (s', Ok p) -> m s = (s', Ok tt).
Proof.
  intros m s s' p H. unfold unit_ in H. apply bind_ok in H as (s1 & [] & H1 & H2).
  apply ret_ok in H2 as [-> _]. exact H1.
Qed.
Lemma lift_ok : forall {A} (f : A -> payload) (m : M A) s s' p, lift f m s = (s', Ok p) -> exists a, m s = (s', Ok a).
Proof.
  intros A f m s s' p H. unfold lift in H. apply bind_ok in H as (s1 & a & H1 & H2).
  apply ret_ok in H2 as [-> _]. eauto.
Qed.

Theorem step_preserves : forall s c p,
  WF s -> proved_call c = true -> args_live s c -> snd (step s c) = Ok p -> WF (fst (step s c)).
Proof.
  intros s c p W PC AL H. unfold step in *. destruct (do_call c s) as [s' r] eqn:E. simpl in *. subst r.
  destruct c; simpl in PC; try discriminate; simpl in E, AL.
  - apply unit_ok in E. exact (set_operands_WF _ _ _ _ _ W AL E).
  - apply unit_ok in E. exact (operands_setitem_WF _ _ _ _ _ _ W AL E).
  - apply unit_ok in E. exact (successors_setitem_WF _ _ _ _ _ _ W AL E).
  - apply unit_ok in E. destruct AL as [OL BL]. unfold op_detach in E.
    apply bind_ok in E as (s0 & x & Hg & E). apply getO_ok in Hg as [-> F].
    destruct (o_parent x) as [b|] eqn:P; [|exfalso; eapply raise_ok; eauto].
    apply bind_ok in E as (s1 & a & E & R). apply ret_ok in R as [-> _].
    exact (detach_op_WF _ _ _ _ _ W (BL x b F P) OL E).
  - apply unit_ok in E. exact (replace_all_uses_with_WF _ _ _ _ _ W E).
  - apply unit_ok in E. exact (replace_uses_with_if_WF _ _ _ _ _ _ W E).
  - apply unit_ok in E. exact (value_erase_WF _ _ _ _ _ W E).
  - apply unit_ok in E. destruct AL as [A1 A2]. exact (insert_op_after_WF _ _ _ _ _ _ W A1 A2 E).
  - apply unit_ok in E. destruct AL as [A1 A2]. exact (insert_op_before_WF _ _ _ _ _ _ W A1 A2 E).
  - apply unit_ok in E. destruct AL as [A1 A2]. exact (add_op_WF _ _ _ _ _ W A1 A2 E).
  - apply lift_ok in E as (a & E). destruct AL as [A1 A2]. exact (detach_op_WF _ _ _ _ _ W A1 A2 E).
  - (* CAddBlock *) destruct blocks as [|b [|]]; try discriminate. apply unit_ok in E. destruct AL as [A1 A2].
    exact (add_block1_WF _ _ _ _ _ W A1 A2 E).
  - (* CInsertBlockBefore *) destruct blocks as [|b [|]]; try discriminate. apply unit_ok in E. destruct AL as (A1 & A2 & A3).
    exact (insert_block_before1_WF _ _ _ _ _ _ W A1 A2 A3 E).
  - (* CDetachBlock *) apply lift_ok in E as (a & E). destruct AL as [A1 A2]. exact (detach_block_WF _ _ _ _ _ W A1 A2 E).
  - (* CDetachBlockIdx *) apply lift_ok in E as (a & E). exact (detach_block_idx_WF _ _ _ _ _ W AL E).
  - (* CRwInsertBlock *) destruct blocks as [|b [|]]; try discriminate. apply unit_ok in E. destruct AL as (A1 & A2 & A3).
    unfold rw_insert_block in E. apply bind_ok in E as (s0 & ? & Hc & E).
    assert (s0 = s).
    { unfold check_block_insert_point in Hc. destruct insert_before as [t|].
      - apply bind_ok in Hc as (s1 & br & Hg & Hc). apply getB_ok in Hg as [-> _].
        destruct (negb (opt_eqb (b_parent br) (Some region))); [exfalso; eapply raise_ok; eauto|].
        apply ret_ok in Hc as [-> _]. reflexivity.
      - apply ret_ok in Hc as [-> _]. reflexivity. }
    subst s0. destruct insert_before as [t|].
    + exact (insert_block_before1_WF _ _ _ _ _ _ W A1 A2 A3 E).
    + exact (add_block1_WF _ _ _ _ _ W A1 A2 E).
  - apply unit_ok in E. exact (pr_replace_all_uses_with_WF _ _ _ _ _ _ W E).
  - apply unit_ok in E. exact (pr_replace_uses_with_if_WF _ _ _ _ _ _ W E).
Qed.

(* a history all of whose calls are proved constructors applied to live arguments and none of
   which raises *)
Inductive clean : state -> list call -> Prop :=
| clean_nil : forall s, clean s []
| clean_cons : forall s c r p,
    proved_call c = true -> args_live s c -> snd (step s c) = Ok p ->
    clean (fst (step s c)) r -> clean s (c :: r).

Theorem history_preserves : forall cs s, WF s -> clean s cs -> WF (run cs s).
Proof.
  induction cs as [|c r IH]; intros s W C; simpl.
  - exact W.
  - inversion C; subst. apply IH; [eapply step_preserves; eauto|assumption].
Qed.

(* ------------------------------------------------------------------ refutation witnesses *)

Definition P1 : positive := 1%positive.
Definition P2 : positive := 2%positive.

(* (a) the code before fix f198beb: op.operands[-1] = v *)
Definition w_setitem : state := run [CBlockNew [] 2%nat; COpCreate [P1; P2] 0%nat [] []] empty_state.

Lemma setitem_negative_old_refuted :
  WF w_setitem /\ op_live w_setitem P1 /\
  snd (operands_setitem_old P1 (-1) P1 w_setitem) = Ok tt /\
  ~ WF (fst (operands_setitem_old P1 (-1) P1 w_setitem)).
Proof.
  split; [apply wf_b_sound; vm_compute; reflexivity|].
  split; [eexists; split; vm_compute; reflexivity|].
  split; [vm_compute; reflexivity|].
  intro W. pose proof (wf_operands _ W P1) as Q.
  remember (PM.find P1 (s_ops (fst (operands_setitem_old P1 (-1) P1 w_setitem)))) as fx eqn:Hfx.
  vm_compute in Hfx. subst fx. specialize (Q _ eq_refl eq_refl). destruct Q as [L _].
  vm_compute in L. discriminate.
Qed.

(* the repaired code raises nothing and keeps WF on the same witness *)
Lemma setitem_negative_fixed_witness :
  snd (operands_setitem P1 (-1) P1 w_setitem) = Ok tt /\
  wf_b (fst (operands_setitem P1 (-1) P1 w_setitem)) = true.
Proof. split; vm_compute; reflexivity. Qed.

(* (b) the code before fix 9351131: op.detach_region(-1) *)
Definition w_detach_region : state :=
  run [CRegionNew []; CRegionNew []; COpCreate [] 0%nat [] [P1; P2]] empty_state.

Lemma detach_region_negative_old_refuted :
  WF w_detach_region /\ op_live w_detach_region P1 /\
  snd (detach_region_idx_old P1 (-1) w_detach_region) = Ok P2 /\
  ~ WF (fst (detach_region_idx_old P1 (-1) w_detach_region)).
Proof.
  split; [apply wf_b_sound; vm_compute; reflexivity|].
  split; [eexists; split; vm_compute; reflexivity|].
  split; [vm_compute; reflexivity|].
  intro W. pose proof (wf_opregs _ W P1) as Q.
  remember (PM.find P1 (s_ops (fst (detach_region_idx_old P1 (-1) w_detach_region)))) as fx eqn:Hfx.
  vm_compute in Hfx. subst fx. specialize (Q _ eq_refl eq_refl). destruct Q as [ND _].
  vm_compute in ND. inversion ND as [|? ? NI _]. apply NI. left. reflexivity.
Qed.

Lemma detach_region_negative_fixed_witness :
  snd (detach_region_idx P1 (-1) w_detach_region) = Ok P2 /\
  wf_b (fst (detach_region_idx P1 (-1) w_detach_region)) = true.
Proof. split; vm_compute; reflexivity. Qed.

(* (c) raising calls that leave a partial mutation behind (known findings C01-kf-4/5/6) *)
Definition w_add_block : state :=
  run [CBlockNew [] 0%nat; CBlockNew [] 0%nat; CRegionNew [P2]; CRegionNew []] empty_state.

Lemma raise_add_block_refuted :
  WF w_add_block /\ snd (step w_add_block (CAddBlock P2 [P1; P2])) = Raise ValueError /\
  ~ WF (fst (step w_add_block (CAddBlock P2 [P1; P2]))).
Proof.
  split; [apply wf_b_sound; vm_compute; reflexivity|].
  split; [vm_compute; reflexivity|].
  intro W. pose proof (wf_region _ W P2) as Q.
  remember (PM.find P2 (s_regions (fst (step w_add_block (CAddBlock P2 [P1; P2]))))) as fx eqn:Hfx.
  vm_compute in Hfx. subst fx. specialize (Q _ eq_refl eq_refl). destruct Q as (l & C1 & C2 & _).
  simpl in C1, C2. apply chain_none_nil in C2. destruct l as [|y t]; [inversion C1|].
  simpl in C2. apply app_eq_nil in C2. destruct C2; discriminate.
Qed.

Definition w_erase : state :=
  run [COpCreate [] 1%nat [] []; COpCreate [P1] 1%nat [] []; COpCreate [P2] 0%nat [] []] empty_state.

Lemma raise_erase_refuted :
  WF w_erase /\ snd (step w_erase (COpErase P2 true)) = Raise ValueError /\
  ~ WF (fst (step w_erase (COpErase P2 true))).
Proof.
  split; [apply wf_b_sound; vm_compute; reflexivity|].
  split; [vm_compute; reflexivity|].
  intro W. pose proof (wf_operands _ W P2) as Q.
  remember (PM.find P2 (s_ops (fst (step w_erase (COpErase P2 true))))) as fx eqn:Hfx.
  vm_compute in Hfx. subst fx. specialize (Q _ eq_refl eq_refl). destruct Q as [L _].
  vm_compute in L. discriminate.
Qed.

Definition w_erase_arg : state := run [CBlockNew [] 1%nat; COpCreate [P1] 0%nat [] []] empty_state.

Lemma raise_erase_arg_refuted :
  WF w_erase_arg /\ snd (step w_erase_arg (CEraseArg P1 P1 true)) = Raise ValueError /\
  ~ WF (fst (step w_erase_arg (CEraseArg P1 P1 true))).
Proof.
  split; [apply wf_b_sound; vm_compute; reflexivity|].
  split; [vm_compute; reflexivity|].
  intro W. pose proof (wf_owner _ W P1) as Q.
  remember (PM.find P1 (s_values (fst (step w_erase_arg (CEraseArg P1 P1 true))))) as fx eqn:Hfx.
  vm_compute in Hfx. subst fx. specialize (Q _ eq_refl eq_refl). simpl in Q.
  destruct Q as (br & F & Z). vm_compute in F. injection F as <-. vm_compute in Z. discriminate.
Qed.


Lemma use_clauses_iff : forall s,
  (WF_vuses s /\ WF_buses s /\ WF_operands s /\ WF_successors s /\ WF_disjoint s) <->
  (Uabs s (real_slot s) /\ lens_ok s).
Proof. intro s. split; [apply UWF_Uabs|intros [A B]; apply Uabs_UWF; assumption]. Qed.
