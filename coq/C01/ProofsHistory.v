(* C01/ProofsHistory.v -- the initial state is well formed; every PROVED call constructor
   preserves WF; histories of proved calls preserve WF; refutation witnesses. *)
From Coq Require Import ZArith List Bool PArith FMapPositive Lia.
From XV Require Import C01.Model C01.Spec C01.ProofsBase C01.ProofsWfb C01.ProofsFrame C01.ProofsUses
  C01.ProofsOperands C01.ProofsRauw C01.ProofsSetOperands C01.ProofsSetSuccessors C01.ProofsDll C01.ProofsOps
  C01.ProofsBlocks C01.ProofsOpRegions C01.ProofsMove C01.ProofsOpLists C01.ProofsBlockLists C01.ProofsArgs.
Import ListNotations.
Local Open Scope Z_scope.

Theorem empty_WF : WF empty_state.
Proof. apply wf_b_sound. vm_compute. reflexivity. Qed.

(* ------------------------------------------------------------------ proved constructors *)

(* the call constructors whose WF-preservation is proved (all others are covered by the
   correspondence check + evaluation of wf_b on the model after every call) *)
Definition proved_call (c : call) : bool :=
  match c with
  | CSetOperands _ _ | CSetSuccessors _ _ | COperandSetItem _ _ _ | CSuccessorSetItem _ _ _
  | CAddRegion _ _ | CDetachRegion _ _ | CDetachRegionIdx _ _
  | CReplaceAllUsesWith _ _ | CReplaceUsesWithIf _ _ _ | CValueErase _ _
  | CPrReplaceAllUsesWith _ _ _ | CPrReplaceUsesWithIf _ _ _
  | CInsertOpAfter _ _ _ | CInsertOpBefore _ _ _ | CAddOp _ _ | CDetachOp _ _ | COpDetach _ => true
  | CDetachBlock _ _ | CDetachBlockIdx _ _ | CMoveBlocks _ _ | CMoveBlocksBefore _ _ | CRwInlineRegion _ _ _ _ => true
  | CAddOps _ _ | CInsertOpsBefore _ _ _ | CInsertOpsAfter _ _ _ | CRwInsertOp _ _ _ _ => true
  | CInsertArg _ _ | CPrInsertBlockArgument _ _ | CEraseArg _ _ _ | CPrEraseBlockArgument _ _ => true
  | CAddBlock _ _ | CInsertBlockBefore _ _ _ | CInsertBlockAfter _ _ _ | CInsertBlock _ _ _ | CRwInsertBlock _ _ _ => true
  | _ => false
  end.

(* a live block together with its (live) parent region *)
Definition blk_in_live_region (s : state) (t : bid) : Prop :=
  exists tx region, PM.find t (s_blocks s) = Some tx /\ b_erased tx = false /\
                    b_parent tx = Some region /\ reg_live s region.

(* "objects erased by a successful erase call are not used again", per constructor *)
Definition args_live (s : state) (c : call) : Prop :=
  match c with
  | CSetOperands o _ | CSetSuccessors o _ | COperandSetItem o _ _ | CSuccessorSetItem o _ _
  | CDetachRegionIdx o _ => op_live s o
  | CInsertOpAfter b _ ex | CInsertOpBefore b _ ex => blk_live s b /\ op_live s ex
  | CAddOp b o | CDetachOp b o => blk_live s b /\ op_live s o
  | COpDetach o => op_live s o /\
                   (forall x b, PM.find o (s_ops s) = Some x -> o_parent x = Some b -> blk_live s b)
  | CDetachBlock r b => reg_live s r /\ blk_live s b
  | CDetachBlockIdx r _ => reg_live s r
  | CInsertArg b _ | CPrInsertBlockArgument b _ => blk_live s b
  | CEraseArg b arg _ => blk_live s b /\ val_live s arg
  | CPrEraseBlockArgument arg _ =>
      val_live s arg /\ (forall vr b i, PM.find arg (s_values s) = Some vr -> v_kind vr = KArg b i -> blk_live s b)
  | CAddOps b ops => blk_live s b /\ (forall o, In o ops -> op_live s o)
  | CInsertOpsBefore b ops ex => blk_live s b /\ op_live s ex
  | CInsertOpsAfter b ops ex => blk_live s b /\ op_live s ex /\ (forall o, In o ops -> op_live s o)
  | CRwInsertOp _ ops b ib => blk_live s b /\ (forall o, In o ops -> op_live s o) /\ (forall e, ib = Some e -> op_live s e)
  | CAddBlock r blocks => reg_live s r /\ (forall b, In b blocks -> blk_live s b)
  | CInsertBlockBefore r blocks t => reg_live s r /\ blk_live s t /\ (forall b, In b blocks -> blk_live s b)
  | CInsertBlockAfter r blocks t =>
      reg_live s r /\ blk_live s t /\
      (forall tr r', PM.find t (s_blocks s) = Some tr -> b_parent tr = Some r' -> reg_live s r') /\
      (forall b, In b blocks -> blk_live s b)
  | CInsertBlock r blocks _ => reg_live s r /\ (forall b, In b blocks -> blk_live s b)
  | CRwInsertBlock blocks r ib => reg_live s r /\ (forall b, In b blocks -> blk_live s b) /\ (forall t, ib = Some t -> blk_live s t)
  | CMoveBlocks r dest => reg_live s r /\ reg_live s dest
  | CMoveBlocksBefore r t => reg_live s r /\ blk_in_live_region s t
  | CRwInlineRegion _ r dest ib => reg_live s r /\ reg_live s dest /\
                                   match ib with Some t => blk_live s t | None => True end
  | _ => True
  end.

Lemma unit_ok : forall (m : M unit) s s' p, unit_ m s = (s', Ok p) -> m s = (s', Ok tt).
Proof.
  intros m s s' p H. unfold unit_ in H. apply bind_ok in H as (s1 & [] & H1 & H2).
  apply ret_ok in H2 as [-> _]. exact H1.
Qed.
Lemma lift_ok : forall {A} (f : A -> payload) (m : M A) s s' p, lift f m s = (s', Ok p) -> exists a, m s = (s', Ok a).
Proof.
  intros A f m s s' p H. unfold lift in H. apply bind_ok in H as (s1 & a & H1 & H2).
  apply ret_ok in H2 as [-> _]. eauto.
Qed.

Lemma check_bip_ok : forall region ib s s' r, check_block_insert_point region ib s = (s', Ok r) ->
  s' = s /\ forall t, ib = Some t -> exists br, PM.find t (s_blocks s) = Some br /\ b_parent br = Some region.
Proof.
  intros region ib s s' r H. unfold check_block_insert_point in H. destruct ib as [t|].
  - apply bind_ok in H as (s1 & br & Hg & H). apply getB_ok in Hg as [-> F].
    destruct (opt_eqb (b_parent br) (Some region)) eqn:P; simpl in H; [|exfalso; eapply raise_ok; eauto].
    apply ret_ok in H as [-> _]. apply opt_eqb_eq in P. split; [reflexivity|]. intros t0 E. injection E as <-. eauto.
  - apply ret_ok in H as [-> _]. split; [reflexivity|]. intros t0 E. discriminate.
Qed.

(* one wrapper per proved constructor, all of the same shape *)
Definition step_ok (c : call) : Prop := forall s s' p,
  WF s -> proved_call c = true -> args_live s c -> do_call c s = (s', Ok p) -> WF s'.

Ltac w_unit := intros s s' p W PC AL E; simpl in E, AL; apply unit_ok in E.
Ltac w_lift := intros s s' p W PC AL E; simpl in E, AL; apply lift_ok in E as (a & E).

Lemma W_CSetOperands : forall o new, step_ok (CSetOperands o new).
Proof. intros o new. w_unit. exact (set_operands_WF _ _ _ _ _ W AL E). Qed.
Lemma W_CSetSuccessors : forall o new, step_ok (CSetSuccessors o new).
Proof. intros o new. w_unit. exact (set_successors_WF _ _ _ _ _ W AL E). Qed.
Lemma W_COperandSetItem : forall o i v, step_ok (COperandSetItem o i v).
Proof. intros o i v. w_unit. exact (operands_setitem_WF _ _ _ _ _ _ W AL E). Qed.
Lemma W_CSuccessorSetItem : forall o i v, step_ok (CSuccessorSetItem o i v).
Proof. intros o i v. w_unit. exact (successors_setitem_WF _ _ _ _ _ _ W AL E). Qed.
Lemma W_CAddRegion : forall o r, step_ok (CAddRegion o r).
Proof. intros o r. w_unit. exact (add_region_WF_gen _ _ _ _ _ W E). Qed.
Lemma W_CDetachRegion : forall o r, step_ok (CDetachRegion o r).
Proof. intros o r. w_lift. exact (detach_region_WF_gen _ _ _ _ _ W E). Qed.
Lemma W_CDetachRegionIdx : forall o i, step_ok (CDetachRegionIdx o i).
Proof. intros o i. w_lift. exact (detach_region_idx_WF _ _ _ _ _ W AL E). Qed.
Lemma W_COpDetach : forall o, step_ok (COpDetach o).
Proof.
  intros o. w_unit. destruct AL as [OL BL]. unfold op_detach in E.
  apply bind_ok in E as (s0 & x & Hg & E). apply getO_ok in Hg as [-> F].
  destruct (o_parent x) as [b|] eqn:P; [|exfalso; eapply raise_ok; eauto].
  apply bind_ok in E as (s1 & a & E & R). apply ret_ok in R as [-> _].
  exact (detach_op_WF _ _ _ _ _ W (BL x b F P) OL E).
Qed.
Lemma W_CReplaceAllUsesWith : forall v w, step_ok (CReplaceAllUsesWith v w).
Proof. intros v w. w_unit. exact (replace_all_uses_with_WF _ _ _ _ _ W E). Qed.
Lemma W_CReplaceUsesWithIf : forall v w sel, step_ok (CReplaceUsesWithIf v w sel).
Proof. intros v w sel. w_unit. exact (replace_uses_with_if_WF _ _ _ _ _ _ W E). Qed.
Lemma W_CValueErase : forall v safe, step_ok (CValueErase v safe).
Proof. intros v safe. w_unit. exact (value_erase_WF _ _ _ _ _ W E). Qed.
Lemma W_CInsertOpAfter : forall b n e, step_ok (CInsertOpAfter b n e).
Proof. intros b n e. w_unit. destruct AL as [A1 A2]. exact (insert_op_after_WF _ _ _ _ _ _ W A1 A2 E). Qed.
Lemma W_CInsertOpBefore : forall b n e, step_ok (CInsertOpBefore b n e).
Proof. intros b n e. w_unit. destruct AL as [A1 A2]. exact (insert_op_before_WF _ _ _ _ _ _ W A1 A2 E). Qed.
Lemma W_CAddOp : forall b o, step_ok (CAddOp b o).
Proof. intros b o. w_unit. destruct AL as [A1 A2]. exact (add_op_WF _ _ _ _ _ W A1 A2 E). Qed.
Lemma W_CDetachOp : forall b o, step_ok (CDetachOp b o).
Proof. intros b o. w_lift. destruct AL as [A1 A2]. exact (detach_op_WF _ _ _ _ _ W A1 A2 E). Qed.
Lemma W_CInsertArg : forall b i, step_ok (CInsertArg b i).
Proof. intros b i. w_lift. exact (insert_arg_WF _ _ _ _ _ W AL E). Qed.
Lemma W_CPrInsertBlockArgument : forall b i, step_ok (CPrInsertBlockArgument b i).
Proof. intros b i. w_lift. exact (insert_arg_WF _ _ _ _ _ W AL E). Qed.
Lemma W_CEraseArg : forall b v safe, step_ok (CEraseArg b v safe).
Proof. intros b v safe. w_unit. destruct AL as [A1 A2]. exact (erase_arg_WF _ _ _ _ _ _ W A1 A2 E). Qed.
Lemma W_CPrEraseBlockArgument : forall v safe, step_ok (CPrEraseBlockArgument v safe).
Proof. intros v safe. w_unit. destruct AL as [A1 A2]. exact (pr_erase_block_argument_WF _ _ _ _ _ W A1 A2 E). Qed.
Lemma W_CAddOps : forall b ops, step_ok (CAddOps b ops).
Proof. intros b ops. w_unit. destruct AL as [A1 A2]. exact (add_ops_WF _ _ _ _ _ W A1 A2 E). Qed.
Lemma W_CInsertOpsBefore : forall b ops e, step_ok (CInsertOpsBefore b ops e).
Proof. intros b ops e. w_unit. destruct AL as [A1 A2]. exact (insert_ops_before_WF _ _ _ _ _ _ W A1 A2 E). Qed.
Lemma W_CInsertOpsAfter : forall b ops e, step_ok (CInsertOpsAfter b ops e).
Proof. intros b ops e. w_unit. destruct AL as (A1 & A2 & A3). exact (insert_ops_after_WF _ _ _ _ _ _ W A1 A2 A3 E). Qed.
Lemma W_CRwInsertOp : forall pr ops b ib, step_ok (CRwInsertOp pr ops b ib).
Proof. intros pr ops b ib. w_unit. destruct AL as (A1 & A2 & A3). exact (rw_insert_op_WF _ _ _ _ _ _ W A1 A2 A3 E). Qed.
Lemma W_CAddBlock : forall r blocks, step_ok (CAddBlock r blocks).
Proof. intros r blocks. w_unit. destruct AL as [A1 A2]. exact (add_block_WF _ _ _ _ _ W A1 A2 E). Qed.
Lemma W_CInsertBlockBefore : forall r blocks t, step_ok (CInsertBlockBefore r blocks t).
Proof. intros r blocks t. w_unit. destruct AL as (A1 & A2 & A3). exact (insert_block_before_WF _ _ _ _ _ _ W A1 A2 A3 E). Qed.
Lemma W_CInsertBlockAfter : forall r blocks t, step_ok (CInsertBlockAfter r blocks t).
Proof. intros r blocks t. w_unit. destruct AL as (A1 & A2 & A3 & A4). exact (insert_block_after_WF _ _ _ _ _ _ W A1 A2 A3 A4 E). Qed.
Lemma W_CInsertBlock : forall r blocks i, step_ok (CInsertBlock r blocks i).
Proof. intros r blocks i. w_unit. destruct AL as [A1 A2]. exact (insert_block_WF _ _ _ _ _ _ W A1 A2 E). Qed.
Lemma W_CDetachBlock : forall r b, step_ok (CDetachBlock r b).
Proof. intros r b. w_lift. destruct AL as [A1 A2]. exact (detach_block_WF _ _ _ _ _ W A1 A2 E). Qed.
Lemma W_CDetachBlockIdx : forall r i, step_ok (CDetachBlockIdx r i).
Proof. intros r i. w_lift. exact (detach_block_idx_WF _ _ _ _ _ W AL E). Qed.
Lemma W_CMoveBlocks : forall r d, step_ok (CMoveBlocks r d).
Proof. intros r d. w_unit. destruct AL as [A1 A2]. exact (move_blocks_WF _ _ _ _ _ W A1 A2 E). Qed.
Lemma W_CMoveBlocksBefore : forall r t, step_ok (CMoveBlocksBefore r t).
Proof.
  intros r t. w_unit. destruct AL as [A1 (tx & region & F & Et & Pt & RL)].
  exact (move_blocks_before_WF _ _ _ _ _ _ _ W A1 F Et Pt RL E).
Qed.
Lemma W_CRwInsertBlock : forall blocks region ib, step_ok (CRwInsertBlock blocks region ib).
Proof. intros blocks region ib. w_unit. destruct AL as (A1 & A2 & A3). exact (rw_insert_block_WF _ _ _ _ _ _ W A1 A2 A3 E). Qed.
Lemma W_CRwInlineRegion : forall pr r dest ib, step_ok (CRwInlineRegion pr r dest ib).
Proof.
  intros pr r dest ib. w_unit. destruct AL as (A1 & A2 & A3).
  unfold rw_inline_region in E. apply bind_ok in E as (s0 & ? & Hc & E).
  destruct (check_bip_ok _ _ _ _ _ Hc) as [-> CK]. destruct ib as [t|].
  - destruct (CK t eq_refl) as (br & F & P). destruct A3 as (br' & F' & Eb). rewrite F in F'. injection F' as <-.
    exact (move_blocks_before_WF _ _ _ _ _ _ _ W A1 F Eb P A2 E).
  - exact (move_blocks_WF _ _ _ _ _ W A1 A2 E).
Qed.
Lemma W_CPrReplaceAllUsesWith : forall v w safe, step_ok (CPrReplaceAllUsesWith v w safe).
Proof. intros v w safe. w_unit. exact (pr_replace_all_uses_with_WF _ _ _ _ _ _ W E). Qed.
Lemma W_CPrReplaceUsesWithIf : forall v w sel, step_ok (CPrReplaceUsesWithIf v w sel).
Proof. intros v w sel. w_unit. exact (pr_replace_uses_with_if_WF _ _ _ _ _ _ W E). Qed.

Create HintDb wstep discriminated.
#[export] Hint Resolve W_CSetOperands W_CSetSuccessors W_COperandSetItem W_CSuccessorSetItem W_CAddRegion W_CDetachRegion
  W_CDetachRegionIdx W_COpDetach W_CReplaceAllUsesWith W_CReplaceUsesWithIf W_CValueErase W_CInsertOpAfter W_CInsertOpBefore
  W_CAddOp W_CDetachOp W_CInsertArg W_CPrInsertBlockArgument W_CEraseArg W_CPrEraseBlockArgument W_CAddOps W_CInsertOpsBefore W_CInsertOpsAfter W_CRwInsertOp W_CAddBlock W_CInsertBlockBefore
  W_CInsertBlockAfter W_CInsertBlock W_CDetachBlock W_CDetachBlockIdx W_CMoveBlocks W_CMoveBlocksBefore
  W_CRwInsertBlock W_CRwInlineRegion W_CPrReplaceAllUsesWith W_CPrReplaceUsesWithIf : wstep.

Theorem step_preserves : forall s c p,
  WF s -> proved_call c = true -> args_live s c -> snd (step s c) = Ok p -> WF (fst (step s c)).
Proof.
  intros s c p W PC AL H. unfold step in *. destruct (do_call c s) as [s' r] eqn:E. simpl in *. subst r.
  destruct c; try (simpl in PC; discriminate);
    match goal with E0 : do_call ?c0 _ = _ |- _ =>
      let L := fresh "L" in assert (L : step_ok c0) by auto with wstep; exact (L _ _ _ W PC AL E0) end.
Qed.

(* a history all of whose calls are proved constructors applied to live arguments and none of
   which raises *)
Inductive clean : state -> list call -> Prop :=
| clean_nil : forall s, clean s []
| clean_cons : forall s c r p,
    proved_call c = true -> args_live s c -> snd (step s c) = Ok p ->
    clean (fst (step s c)) r -> clean s (c :: r).

Theorem history_preserves : forall cs s, WF s -> clean s cs -> WF (run cs s).
Proof.
  induction cs as [|c r IH]; intros s W C; simpl.
  - exact W.
  - inversion C; subst. apply IH; [eapply step_preserves; eauto|assumption].
Qed.

(* ------------------------------------------------------------------ refutation witnesses *)

Definition P1 : positive := 1%positive.
Definition P2 : positive := 2%positive.

(* (a) the code before fix f198beb: op.operands[-1] = v *)
Definition w_setitem : state := run [CBlockNew [] 2%nat; COpCreate [P1; P2] 0%nat [] []] empty_state.

Lemma setitem_negative_old_refuted :
  WF w_setitem /\ op_live w_setitem P1 /\
  snd (operands_setitem_old P1 (-1) P1 w_setitem) = Ok tt /\
  ~ WF (fst (operands_setitem_old P1 (-1) P1 w_setitem)).
Proof.
  split; [apply wf_b_sound; vm_compute; reflexivity|].
  split; [eexists; split; vm_compute; reflexivity|].
  split; [vm_compute; reflexivity|].
  intro W. pose proof (wf_operands _ W P1) as Q.
  remember (PM.find P1 (s_ops (fst (operands_setitem_old P1 (-1) P1 w_setitem)))) as fx eqn:Hfx.
  vm_compute in Hfx. subst fx. specialize (Q _ eq_refl eq_refl). destruct Q as [L _].
  vm_compute in L. discriminate.
Qed.

(* the repaired code raises nothing and keeps WF on the same witness *)
Lemma setitem_negative_fixed_witness :
  snd (operands_setitem P1 (-1) P1 w_setitem) = Ok tt /\
  wf_b (fst (operands_setitem P1 (-1) P1 w_setitem)) = true.
Proof. split; vm_compute; reflexivity. Qed.

(* (b) the code before fix 9351131: op.detach_region(-1) *)
Definition w_detach_region : state :=
  run [CRegionNew []; CRegionNew []; COpCreate [] 0%nat [] [P1; P2]] empty_state.

Lemma detach_region_negative_old_refuted :
  WF w_detach_region /\ op_live w_detach_region P1 /\
  snd (detach_region_idx_old P1 (-1) w_detach_region) = Ok P2 /\
  ~ WF (fst (detach_region_idx_old P1 (-1) w_detach_region)).
Proof.
  split; [apply wf_b_sound; vm_compute; reflexivity|].
  split; [eexists; split; vm_compute; reflexivity|].
  split; [vm_compute; reflexivity|].
  intro W. pose proof (wf_opregs _ W P1) as Q.
  remember (PM.find P1 (s_ops (fst (detach_region_idx_old P1 (-1) w_detach_region)))) as fx eqn:Hfx.
  vm_compute in Hfx. subst fx. specialize (Q _ eq_refl eq_refl). destruct Q as [ND _].
  vm_compute in ND. inversion ND as [|? ? NI _]. apply NI. left. reflexivity.
Qed.

Lemma detach_region_negative_fixed_witness :
  snd (detach_region_idx P1 (-1) w_detach_region) = Ok P2 /\
  wf_b (fst (detach_region_idx P1 (-1) w_detach_region)) = true.
Proof. split; vm_compute; reflexivity. Qed.

(* (c) raising calls that leave a partial mutation behind (known findings C01-kf-4/5/6) *)
Definition w_add_block : state :=
  run [CBlockNew [] 0%nat; CBlockNew [] 0%nat; CRegionNew [P2]; CRegionNew []] empty_state.

Lemma raise_add_block_refuted :
  WF w_add_block /\ snd (step w_add_block (CAddBlock P2 [P1; P2])) = Raise ValueError /\
  ~ WF (fst (step w_add_block (CAddBlock P2 [P1; P2]))).
Proof.
  split; [apply wf_b_sound; vm_compute; reflexivity|].
  split; [vm_compute; reflexivity|].
  intro W. pose proof (wf_region _ W P2) as Q.
  remember (PM.find P2 (s_regions (fst (step w_add_block (CAddBlock P2 [P1; P2]))))) as fx eqn:Hfx.
  vm_compute in Hfx. subst fx. specialize (Q _ eq_refl eq_refl). destruct Q as (l & C1 & C2 & _).
  simpl in C1, C2. apply chain_none_nil in C2. destruct l as [|y t]; [inversion C1|].
  simpl in C2. apply app_eq_nil in C2. destruct C2; discriminate.
Qed.

Definition w_erase : state :=
  run [COpCreate [] 1%nat [] []; COpCreate [P1] 1%nat [] []; COpCreate [P2] 0%nat [] []] empty_state.

Lemma raise_erase_refuted :
  WF w_erase /\ snd (step w_erase (COpErase P2 true)) = Raise ValueError /\
  ~ WF (fst (step w_erase (COpErase P2 true))).
Proof.
  split; [apply wf_b_sound; vm_compute; reflexivity|].
  split; [vm_compute; reflexivity|].
  intro W. pose proof (wf_operands _ W P2) as Q.
  remember (PM.find P2 (s_ops (fst (step w_erase (COpErase P2 true))))) as fx eqn:Hfx.
  vm_compute in Hfx. subst fx. specialize (Q _ eq_refl eq_refl). destruct Q as [L _].
  vm_compute in L. discriminate.
Qed.

Definition w_erase_arg : state := run [CBlockNew [] 1%nat; COpCreate [P1] 0%nat [] []] empty_state.

Lemma raise_erase_arg_refuted :
  WF w_erase_arg /\ snd (step w_erase_arg (CEraseArg P1 P1 true)) = Raise ValueError /\
  ~ WF (fst (step w_erase_arg (CEraseArg P1 P1 true))).
Proof.
  split; [apply wf_b_sound; vm_compute; reflexivity|].
  split; [vm_compute; reflexivity|].
  intro W. pose proof (wf_owner _ W P1) as Q.
  remember (PM.find P1 (s_values (fst (step w_erase_arg (CEraseArg P1 P1 true))))) as fx eqn:Hfx.
  vm_compute in Hfx. subst fx. specialize (Q _ eq_refl eq_refl). simpl in Q.
  destruct Q as (br & F & Z). vm_compute in F. injection F as <-. vm_compute in Z. discriminate.
Qed.


Lemma use_clauses_iff : forall s,
  (WF_vuses s /\ WF_buses s /\ WF_operands s /\ WF_successors s /\ WF_disjoint s) <->
  (Uabs s (real_slot s) /\ lens_ok s).
Proof. intro s. split; [apply UWF_Uabs|intros [A B]; apply Uabs_UWF; assumption]. Qed.
