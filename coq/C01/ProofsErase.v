(* C01/ProofsErase.v -- WF is preserved by a SUCCESSFUL Operation.erase / Block.erase_op /
   Rewriter.erase_op of an operation WITHOUT regions.

   Route: the state between drop_all_references and the final `kill` is not WF for the op o
   being erased (operands without operand uses) while o is not yet marked erased.  Marking o
   erased is a ghost-only write that no mutator reads, so
     (1) the state after drop_all_references WITH o's erased flag set is WF
         (all obligations about o vanish; the use lists are exactly the slots of the other ops);
     (2) the remaining `value_erase` calls commute with the ghost write (simulation `sim`),
         and preserve WF on the marked run (value_erase_WF);
     (3) `kill` sets the flag of o (the marked final state) and marks the results dead
         (WF_owner only loses obligations). *)
From Coq Require Import ZArith List Bool PArith FMapPositive Lia.
From XV Require Import C01.Model C01.Spec C01.ProofsBase C01.ProofsFrame C01.ProofsUses C01.ProofsOperands
  C01.ProofsRauw C01.ProofsSetOperands C01.ProofsOps C01.ProofsBlocks.
Import ListNotations.
Local Open Scope Z_scope.

(* ------------------------------------------------------------------ removal loop, any holder class *)

Lemma remove_loop_g : forall (mk : positive -> holder) (pairs : list (positive * uid)) s s' Sl o k0 r,
  Uabs s Sl ->
  (forall k v u, nth_error pairs k = Some (v, u) -> Sl (mk v) o (k0 + Z.of_nat k) u) ->
  forM pairs (fun p => remove_use (mk (fst p)) (snd p)) s = (s', Ok r) ->
  Uabs s' (minus_uses Sl (map snd pairs)) /\ s_ops s' = s_ops s /\ (forall x, use_info s' x = use_info s x).
Proof.
  intros mk. induction pairs as [|[v u] rest IH]; intros s s' Sl o k0 r UA INV H; simpl in H.
  - apply ret_ok in H as [-> _]. split; [|auto]. destruct UA as [UC US U1]. constructor.
    + intros h fu Hf. destruct (UC h fu Hf) as (l & C & ND & P & M). exists l. repeat split; try assumption.
      intros q Iq. destruct (M q Iq) as (o' & i' & Q). exists o', i'. split; [exact Q|intros []].
    + intros h o' i' q [Q _]. apply US. exact Q.
    + intros h h' o1 o2 i1 i2 q [Q1 _] [Q2 _]. eapply U1; eauto.
  - apply bind_ok in H as (s1 & ? & H1 & H2). simpl in H1.
    pose proof (INV 0%nat v u eq_refl) as S0. replace (k0 + Z.of_nat 0) with k0 in S0 by lia.
    destruct (remove_use_Uabs _ _ _ _ _ _ _ _ UA S0 H1) as (UA1 & Ops1 & Inf1).
    assert (INV1 : forall k v' u', nth_error rest k = Some (v', u') -> minus_use Sl u (mk v') o (k0 + 1 + Z.of_nat k) u').
    { intros k v' u' N. pose proof (INV (Datatypes.S k) v' u' N) as Q.
      replace (k0 + Z.of_nat (Datatypes.S k)) with (k0 + 1 + Z.of_nat k) in Q by lia.
      split; [exact Q|]. intro E. subst u'.
      destruct (ua_slot _ _ UA _ _ _ _ Q) as [I1 _]. destruct (ua_slot _ _ UA _ _ _ _ S0) as [I2 _].
      rewrite I1 in I2. injection I2 as E. lia. }
    destruct (IH s1 s' (minus_use Sl u) o (k0 + 1) r UA1 INV1 H2) as (UA' & Ops' & Inf').
    split; [|split; [congruence|intro q; rewrite Inf', Inf1; reflexivity]].
    destruct UA' as [UC US U1]. constructor.
    + intros h fu Hf. destruct (UC h fu Hf) as (l & C & ND & P & M). exists l. repeat split; try assumption.
      intros q Iq. destruct (M q Iq) as (o' & i' & [[Q N1] N2]). exists o', i'. split; [exact Q|].
      simpl. intros [E|I]; [congruence|contradiction].
    + intros h o' i' q [Q N]. apply US. split; [split; [exact Q|]|]; intro; apply N; simpl; auto.
    + intros h h' o1 o2 i1 i2 q [Q1 N1] [Q2 N2].
      eapply U1; (split; [split; [eassumption|]|]); intro; (apply N1 || apply N2); simpl; auto.
Qed.

(* ------------------------------------------------------------------ the ghost write: mark an op erased *)

Definition markO (o : oid) (x : op_rec) (s : state) : state :=
  with_ops (PM.add o (set_o_erased true x) (s_ops s)) s.

Lemma mark_block : forall s o x, PM.find o (s_ops s) = Some x -> WF_block s -> WF_block (markO o x s).
Proof.
  intros s o x F W b br Fb Eb. destruct (W b br Fb Eb) as (l & C1 & C2 & ND & M1 & M2).
  assert (N : forall i, op_next (markO o x s) i = op_next s i).
  { intro i. unfold op_next, link, markO. simpl. rewrite find_add.
    destruct (Pos.eqb_spec i o) as [->|]; [rewrite F|]; reflexivity. }
  assert (P : forall i, op_prev (markO o x s) i = op_prev s i).
  { intro i. unfold op_prev, link, markO. simpl. rewrite find_add.
    destruct (Pos.eqb_spec i o) as [->|]; [rewrite F|]; reflexivity. }
  exists l. split; [eapply chain_ext; [|exact C1]; intros; apply N|].
  split; [eapply chain_ext; [|exact C2]; intros; apply P|]. split; [exact ND|]. split.
  - intros o' Io. destruct (M1 o' Io) as (x' & Fx & Px). unfold markO. simpl. rewrite find_add.
    destruct (Pos.eqb_spec o' o) as [->|]; [|eauto].
    rewrite F in Fx. injection Fx as <-. eexists. split; [reflexivity|exact Px].
  - intros o' x' Fx Ex Px. unfold markO in Fx. simpl in Fx. rewrite find_add in Fx.
    destruct (Pos.eqb_spec o' o) as [->|]; [injection Fx as <-; discriminate|]. eapply M2; eauto.
Qed.

Lemma mark_opregs : forall s o x, PM.find o (s_ops s) = Some x -> WF_opregs s -> WF_opregs (markO o x s).
Proof.
  intros s o x F W o' x' Fx Ex. unfold markO in Fx. simpl in Fx. rewrite find_add in Fx.
  destruct (Pos.eqb_spec o' o) as [->|]; [injection Fx as <-; discriminate|].
  exact (W o' x' Fx Ex).
Qed.

Lemma mark_index : forall s o x, PM.find o (s_ops s) = Some x ->
  WF_results s /\ WF_args s /\ WF_owner s ->
  WF_results (markO o x s) /\ WF_args (markO o x s) /\ WF_owner (markO o x s).
Proof.
  intros s o x F (W1 & W2 & W3). split; [|split].
  - intros o' x' Fx Ex. unfold markO in Fx. simpl in Fx. rewrite find_add in Fx.
    destruct (Pos.eqb_spec o' o) as [->|]; [injection Fx as <-; discriminate|].
    exact (W1 o' x' Fx Ex).
  - exact W2.
  - intros v vr Fv D. specialize (W3 v vr Fv D). destruct (v_kind vr) as [o' i|b i|old]; [|exact W3|exact I].
    destruct W3 as (x' & Fx & Z). unfold markO. simpl. rewrite find_add.
    destruct (Pos.eqb_spec o' o) as [->|]; [|eauto].
    rewrite F in Fx. injection Fx as <-. eexists. split; [reflexivity|exact Z].
Qed.

Lemma mark_detached : forall s o x, PM.find o (s_ops s) = Some x -> WF_detached s -> WF_detached (markO o x s).
Proof.
  intros s o x F [W1 W2]. split; [|exact W2].
  intros o' x' Fx Ex. unfold markO in Fx. simpl in Fx. rewrite find_add in Fx.
  destruct (Pos.eqb_spec o' o) as [->|]; [injection Fx as <-; discriminate|].
  exact (W1 o' x' Fx Ex).
Qed.

Lemma mark_alloc : forall s o x, PM.find o (s_ops s) = Some x -> WF_alloc s -> WF_alloc (markO o x s).
Proof.
  intros s o x F (B1 & B2 & B3 & B4 & B5). unfold WF_alloc, markO. simpl. repeat split; try assumption.
  intros i y Fy. rewrite find_add in Fy. destruct (Pos.eqb_spec i o) as [->|]; [eapply B1; eauto|eapply B1; eauto].
Qed.

(* ------------------------------------------------------------------ frame outside the use group *)

Definition same_nonU s s' := same_T1 s s' /\ same_T2 s s' /\ same_T3 s s' /\ same_I s s' /\ same_A s s'.

Lemma nonU_refl : forall s, same_nonU s s.
Proof. intro s. unfold same_nonU. repeat (split; [first [apply fr_T1|apply fr_T2|apply fr_T3|apply fr_I]|]). apply fr_A. Qed.
Lemma nonU_trans : forall s1 s2 s3, same_nonU s1 s2 -> same_nonU s2 s3 -> same_nonU s1 s3.
Proof.
  intros s1 s2 s3 (A1 & A2 & A3 & A4 & A5) (B1 & B2 & B3 & B4 & B5). unfold same_nonU.
  split; [eapply (fr_trans _ fr_T1); eauto|]. split; [eapply (fr_trans _ fr_T2); eauto|].
  split; [eapply (fr_trans _ fr_T3); eauto|]. split; [eapply (fr_trans _ fr_I); eauto|].
  eapply (fr_trans _ fr_A); eauto.
Qed.
Lemma fr_nonU : frame_rel same_nonU.
Proof. split; [exact nonU_refl|exact nonU_trans]. Qed.

Lemma pres_nonU : forall {A} (m : M A),
  preserves same_T1 m -> preserves same_T2 m -> preserves same_T3 m -> preserves same_I m -> preserves same_A m ->
  preserves same_nonU m.
Proof.
  intros A m P1 P2 P3 P4 P5 s s' r H. unfold same_nonU.
  split; [exact (P1 _ _ _ H)|]. split; [exact (P2 _ _ _ H)|]. split; [exact (P3 _ _ _ H)|].
  split; [exact (P4 _ _ _ H)|exact (P5 _ _ _ H)].
Qed.

Lemma updO_nonU : forall o f,
  (forall x, pT1_op (f x) = pT1_op x) -> (forall x, pT3_op (f x) = pT3_op x) -> (forall x, pI_op (f x) = pI_op x) ->
  preserves same_nonU (updO o f).
Proof.
  intros o f E1 E3 EI. apply pres_nonU.
  - apply updO_same_T1; exact E1.
  - apply updO_same_T2.
  - apply updO_same_T3; exact E3.
  - apply updO_same_I; exact EI.
  - apply updO_same_A.
Qed.

Lemma updO_nonU_at : forall o f s s' r x, PM.find o (s_ops s) = Some x ->
  pT1_op (f x) = pT1_op x -> pT3_op (f x) = pT3_op x -> pI_op (f x) = pI_op x ->
  updO o f s = (s', r) -> same_nonU s s'.
Proof.
  intros o f s s' r x F E1 E3 EI H. unfold updO in H. rewrite F in H. injection H as <- _.
  unfold same_nonU. split; [|split; [|split; [|split]]].
  - split; simpl; [eapply agree_add; eauto|apply agree_refl].
  - split; simpl; apply agree_refl.
  - split; simpl; [eapply agree_add; eauto|apply agree_refl].
  - split; [|split]; simpl; try apply agree_refl. eapply agree_add; eauto.
  - unfold same_A; simpl.
    repeat (split; [first [apply dom_eq_refl | eapply dom_eq_add; eauto | reflexivity]|]); reflexivity.
Qed.

Lemma remove_loop_nonU : forall (mk : positive -> holder) (pairs : list (positive * uid)),
  preserves same_nonU (forM pairs (fun p => remove_use (mk (fst p)) (snd p))).
Proof.
  intros mk pairs. apply pres_nonU.
  - apply (pres_forM _ fr_T1). intro a. apply remove_use_T1.
  - apply (pres_forM _ fr_T2). intro a. apply remove_use_T2.
  - apply (pres_forM _ fr_T3). intro a. apply remove_use_T3.
  - apply (pres_forM _ fr_I). intro a. apply remove_use_I.
  - apply (pres_forM _ fr_A). intro a. apply remove_use_A.
Qed.

(* Uabs reads the use table and the first_use pointers only *)
Lemma Uabs_irrel : forall s s' S, s_uses s' = s_uses s -> s_values s' = s_values s -> s_blocks s' = s_blocks s ->
  Uabs s S -> Uabs s' S.
Proof.
  intros s s' S E1 E2 E3 UA. eapply Uabs_ext; [| | |exact UA].
  - intro u. rewrite E1. reflexivity.
  - intros [v|b]; simpl; [rewrite E2|rewrite E3]; reflexivity.
  - intros; tauto.
Qed.

(* ------------------------------------------------------------------ drop_all_references, no regions *)

Lemma op_drop_S : forall f o, op_drop_all_references (S f) o =
  (updO o (set_o_parent None) ;;;
   orec <- getO o ;;
   forM (zip (o_operands orec) (o_operand_uses orec)) (fun p => remove_use (HV (fst p)) (snd p)) ;;;
   updO o (set_o_operand_uses []) ;;;
   forM (zip (o_successors orec) (o_successor_uses orec)) (fun p => remove_use (HB (fst p)) (snd p)) ;;;
   updO o (set_o_successor_uses []) ;;;
   updO o (set_o_successors []) ;;;
   forM (o_regions orec) (fun r => region_drop_all_references f r)).
Proof. reflexivity. Qed.

Lemma drop_noregions : forall s s2 o x f r,
  WF s -> PM.find o (s_ops s) = Some x -> o_erased x = false -> o_parent x = None -> o_regions x = [] ->
  op_drop_all_references (S f) o s = (s2, Ok r) ->
  (exists x2, PM.find o (s_ops s2) = Some x2) /\
  (forall i, i <> o -> PM.find i (s_ops s2) = PM.find i (s_ops s)) /\
  same_nonU s s2 /\
  Uabs s2 (minus_uses (minus_uses (real_slot s) (o_operand_uses x)) (o_successor_uses x)).
Proof.
  intros s s2 o x f r W Fx Ex Px Rx H.
  destruct (UWF_Uabs s (WF_UWF s W)) as [UA LN]. destruct (LN o x Fx Ex) as [Len1 Len2].
  rewrite op_drop_S in H.
  apply bind_ok in H as (sa & ? & Ha & H).
  assert (EP : pT1_op (set_o_parent None x) = pT1_op x) by (unfold pT1_op; simpl; rewrite Px; reflexivity).
  pose proof (updO_nonU_at o (set_o_parent None) _ _ _ _ Fx EP eq_refl eq_refl Ha) as N1.
  apply updO_ok in Ha as (xa & Fa & ->). rewrite Fx in Fa. injection Fa as <-.
  apply bind_ok in H as (sa' & orec & Hg & H). apply getO_ok in Hg as [-> Fo].
  simpl in Fo. rewrite find_add_same in Fo. injection Fo as <-. simpl in H. rewrite Rx in H.
  apply bind_ok in H as (sb & ? & Hl1 & H).
  apply bind_ok in H as (sc & ? & Hc & H).
  apply bind_ok in H as (sd & ? & Hl2 & H).
  apply bind_ok in H as (se & ? & He & H).
  apply bind_ok in H as (sf & ? & Hf & H). simpl in H. apply ret_ok in H as [-> _].
  (* first loop *)
  assert (UAa : Uabs (with_ops (PM.add o (set_o_parent None x) (s_ops s)) s) (real_slot s)).
  { eapply Uabs_irrel; [| | |exact UA]; reflexivity. }
  assert (INV1 : forall k v u, nth_error (zip (o_operands x) (o_operand_uses x)) k = Some (v, u) ->
                   real_slot s (HV v) o (0 + Z.of_nat k) u).
  { intros k v u N. apply nth_error_zip in N. destruct N as [N1' N2']. exists x. simpl.
    rewrite !znth_of_nat. auto. }
  destruct (remove_loop_g HV _ _ sb (real_slot s) o 0 _ UAa INV1 Hl1) as (UAb & Opsb & _).
  pose proof (remove_loop_nonU HV _ _ _ _ Hl1) as N2.
  assert (OLD1 : map snd (zip (o_operands x) (o_operand_uses x)) = o_operand_uses x).
  { clear -Len1. revert Len1. generalize (o_operands x) (o_operand_uses x).
    induction l as [|a t IH]; intros [|b t'] L; simpl in *; try discriminate; try reflexivity.
    f_equal. apply IH. lia. }
  assert (UAb' : Uabs sb (minus_uses (real_slot s) (o_operand_uses x))) by (rewrite <- OLD1; exact UAb).
  clear UAb. rename UAb' into UAb.
  pose proof (updO_nonU o (set_o_operand_uses []) (fun _ => eq_refl) (fun _ => eq_refl) (fun _ => eq_refl) _ _ _ Hc) as N3.
  apply updO_ok in Hc as (xc & Fc & ->).
  (* second loop *)
  assert (UAc : Uabs (with_ops (PM.add o (set_o_operand_uses [] xc) (s_ops sb)) sb)
                     (minus_uses (real_slot s) (o_operand_uses x))).
  { eapply Uabs_irrel; [| | |exact UAb]; reflexivity. }
  assert (INV2 : forall k b u, nth_error (zip (o_successors x) (o_successor_uses x)) k = Some (b, u) ->
                   minus_uses (real_slot s) (o_operand_uses x) (HB b) o (0 + Z.of_nat k) u).
  { intros k b u N. apply nth_error_zip in N. destruct N as [N1' N2']. split.
    - exists x. simpl. rewrite !znth_of_nat. auto.
    - intro I. eapply (wf_disjoint s W o x Fx Ex u I). eapply nth_error_In; eauto. }
  destruct (remove_loop_g HB _ _ sd _ o 0 _ UAc INV2 Hl2) as (UAd & Opsd & _).
  pose proof (remove_loop_nonU HB _ _ _ _ Hl2) as N4.
  assert (OLD2 : map snd (zip (o_successors x) (o_successor_uses x)) = o_successor_uses x).
  { clear -Len2. revert Len2. generalize (o_successors x) (o_successor_uses x).
    induction l as [|a t IH]; intros [|b t'] L; simpl in *; try discriminate; try reflexivity.
    f_equal. apply IH. lia. }
  assert (UAd' : Uabs sd (minus_uses (minus_uses (real_slot s) (o_operand_uses x)) (o_successor_uses x)))
    by (rewrite <- OLD2; exact UAd).
  clear UAd. rename UAd' into UAd.
  pose proof (updO_nonU o (set_o_successor_uses []) (fun _ => eq_refl) (fun _ => eq_refl) (fun _ => eq_refl) _ _ _ He) as N5.
  apply updO_ok in He as (xe & Fe & ->).
  pose proof (updO_nonU o (set_o_successors []) (fun _ => eq_refl) (fun _ => eq_refl) (fun _ => eq_refl) _ _ _ Hf) as N6.
  apply updO_ok in Hf as (xf & Ff & ->).
  split; [|split; [|split]].
  - eexists. simpl. rewrite find_add_same. reflexivity.
  - intros i Ni. simpl. rewrite !find_add_other by exact Ni. rewrite Opsd. simpl.
    rewrite find_add_other by exact Ni. rewrite Opsb. simpl. rewrite find_add_other by exact Ni. reflexivity.
  - eapply nonU_trans; [exact N1|]. eapply nonU_trans; [exact N2|]. eapply nonU_trans; [exact N3|].
    eapply nonU_trans; [exact N4|]. eapply nonU_trans; [exact N5|exact N6].
  - eapply Uabs_irrel; [| | |exact UAd]; reflexivity.
Qed.

(* ------------------------------------------------------------------ the marked middle state is WF *)

Lemma slot_of_uses : forall s o x u, lens_ok s ->
  PM.find o (s_ops s) = Some x -> o_erased x = false ->
  In u (o_operand_uses x) \/ In u (o_successor_uses x) -> exists h i, real_slot s h o i u.
Proof.
  intros s o x u LN F E [I|I]; destruct (LN o x F E) as [L1 L2]; destruct (In_nth_error _ _ I) as (j & Nj).
  - assert (exists v, nth_error (o_operands x) j = Some v) as (v & Nv).
    { destruct (nth_error (o_operands x) j) eqn:Q; [eauto|]. apply nth_error_None in Q.
      assert (j < length (o_operand_uses x))%nat by (apply nth_error_Some; congruence). lia. }
    exists (HV v), (Z.of_nat j). exists x. simpl. rewrite !znth_of_nat. auto.
  - assert (exists v, nth_error (o_successors x) j = Some v) as (v & Nv).
    { destruct (nth_error (o_successors x) j) eqn:Q; [eauto|]. apply nth_error_None in Q.
      assert (j < length (o_successor_uses x))%nat by (apply nth_error_Some; congruence). lia. }
    exists (HB v), (Z.of_nat j). exists x. simpl. rewrite !znth_of_nat. auto.
Qed.

Lemma mid_WF : forall s s2 o x x2,
  WF s -> PM.find o (s_ops s) = Some x -> o_erased x = false ->
  PM.find o (s_ops s2) = Some x2 ->
  (forall i, i <> o -> PM.find i (s_ops s2) = PM.find i (s_ops s)) ->
  same_nonU s s2 ->
  Uabs s2 (minus_uses (minus_uses (real_slot s) (o_operand_uses x)) (o_successor_uses x)) ->
  WF (markO o x2 s2).
Proof.
  intros s s2 o x x2 W Fx Ex F2 OTH (T1 & T2 & T3 & SI & SA) UA2.
  destruct (UWF_Uabs s (WF_UWF s W)) as [UA LN].
  pose proof (mark_block _ _ _ F2 (WF_block_same _ _ T1 (wf_block s W))) as C1.
  pose proof (WF_region_same _ _ T2 (wf_region s W)) as C2.
  pose proof (mark_opregs _ _ _ F2 (WF_opregs_same _ _ T3 (wf_opregs s W))) as C3.
  destruct (mark_index _ _ _ F2 (WF_index_same _ _ SI (conj (wf_results s W) (conj (wf_args s W) (wf_owner s W)))))
    as (C4 & C5 & C6).
  pose proof (mark_detached _ _ _ F2 (WF_detached_same _ _ T1 T2 (wf_detached s W))) as C7.
  pose proof (mark_alloc _ _ _ F2 (WF_alloc_same _ _ SA (wf_alloc s W))) as C8.
  assert (FM : forall i, PM.find i (s_ops (markO o x2 s2)) =
                         if Pos.eqb i o then Some (set_o_erased true x2) else PM.find i (s_ops s)).
  { intro i. unfold markO. simpl. rewrite find_add. destruct (Pos.eqb_spec i o); [reflexivity|apply OTH; assumption]. }
  assert (UW : UWF (markO o x2 s2)).
  { apply Uabs_UWF.
    - eapply Uabs_ext; [| | |exact UA2].
      + intro u. reflexivity.
      + intros [v|b]; reflexivity.
      + intros h o' i u. split.
        * intros (x' & F' & E' & Z1 & Z2). rewrite FM in F'. destruct (Pos.eqb_spec o' o) as [->|No].
          { injection F' as <-. discriminate. }
          assert (R : real_slot s h o' i u) by (exists x'; auto).
          assert (NI : ~ (In u (o_operand_uses x) \/ In u (o_successor_uses x))).
          { intro I. destruct (slot_of_uses s o x u LN Fx Ex I) as (h2 & i2 & R2).
            destruct (ua_slot _ _ UA _ _ _ _ R) as [I1 _]. destruct (ua_slot _ _ UA _ _ _ _ R2) as [I2 _].
            rewrite I1 in I2. injection I2 as E _. contradiction. }
          split; [split; [exact R|]|]; intro I; apply NI; auto.
        * intros [[(x' & F' & E' & Z1 & Z2) N1] N2]. destruct (Pos.eq_dec o' o) as [->|No].
          { exfalso. rewrite Fx in F'. injection F' as <-. apply znth_In in Z2.
            destruct h; simpl in Z2; contradiction. }
          exists x'. rewrite FM. destruct (Pos.eqb_spec o' o); [contradiction|]. auto.
    - intros o' x' F' E'. rewrite FM in F'. destruct (Pos.eqb_spec o' o) as [->|No].
      + injection F' as <-. discriminate.
      + exact (LN o' x' F' E'). }
  destruct UW as (U1 & U2 & U3 & U4 & U5).
  constructor; assumption.
Qed.

(* ------------------------------------------------------------------ the ghost write commutes with value_erase *)

(* t is s with the erased flag of o set (extensionally on the op table) *)
Definition Rm (o : oid) (s t : state) : Prop :=
  (forall i, PM.find i (s_ops t) =
             if Pos.eqb i o then option_map (set_o_erased true) (PM.find i (s_ops s)) else PM.find i (s_ops s)) /\
  s_blocks t = s_blocks s /\ s_regions t = s_regions s /\ s_values t = s_values s /\ s_uses t = s_uses s /\
  n_op t = n_op s /\ n_block t = n_block s /\ n_region t = n_region s /\ n_value t = n_value s /\ n_use t = n_use s.

Definition sim (o : oid) {A} (m : M A) : Prop :=
  forall s t s' a, Rm o s t -> m s = (s', Ok a) -> exists t', m t = (t', Ok a) /\ Rm o s' t'.

Ltac rm_split HR :=
  let R1 := fresh "R1" in
  destruct HR as (R1 & ? & ? & ? & ? & ? & ? & ? & ? & ?);
  unfold Rm; simpl; split; [try exact R1|repeat split; try congruence].

Lemma sim_ret : forall o {A} (a : A), sim o (ret a).
Proof. intros o A a s t s' b HR H. apply ret_ok in H as [-> ->]. exists t. split; [reflexivity|exact HR]. Qed.
Lemma sim_raise : forall o {A} e, sim o (@raise A e).
Proof. intros o A e s t s' b HR H. exfalso. eapply raise_ok; eauto. Qed.
Lemma sim_bind : forall o {A B} (m : M A) (f : A -> M B), sim o m -> (forall a, sim o (f a)) -> sim o (bind m f).
Proof.
  intros o A B m f Hm Hf s t s' b HR H. apply bind_ok in H as (s1 & a & H1 & H2).
  destruct (Hm _ _ _ _ HR H1) as (t1 & G1 & HR1). destruct (Hf a _ _ _ _ HR1 H2) as (t' & G2 & HR2).
  exists t'. split; [|exact HR2]. unfold bind. rewrite G1. exact G2.
Qed.
Lemma sim_gets : forall o {A} (f : state -> A), (forall s t, Rm o s t -> f t = f s) -> sim o (gets f).
Proof.
  intros o A f E s t s' b HR H. apply gets_ok in H as [-> ->]. exists t. split; [|exact HR].
  unfold gets. rewrite (E _ _ HR). reflexivity.
Qed.
Lemma sim_get_fuel : forall o, sim o get_fuel.
Proof.
  intro o. apply sim_gets. intros s t (_ & _ & _ & _ & _ & E1 & E2 & E3 & E4 & E5).
  unfold fuel_of. rewrite E1, E2, E3, E4, E5. reflexivity.
Qed.
Lemma sim_assert : forall o c, sim o (assert_ c).
Proof. intros o c. unfold assert_. destruct c; [apply sim_ret|apply sim_raise]. Qed.
Lemma sim_if : forall o {A} (c : bool) (m1 m2 : M A), sim o m1 -> sim o m2 -> sim o (if c then m1 else m2).
Proof. intros o A c m1 m2 H1 H2. destruct c; assumption. Qed.
Lemma sim_forM : forall o {A} (l : list A) (f : A -> M unit), (forall a, sim o (f a)) -> sim o (forM l f).
Proof.
  intros o A l f Hf. induction l as [|x r IH]; simpl; [apply sim_ret|].
  apply sim_bind; [apply Hf|intros _; exact IH].
Qed.
Lemma sim_index_or_raise : forall o {A} (l : list A) i, sim o (index_or_raise l i).
Proof. intros o A l i. unfold index_or_raise. destruct (py_index l i); [apply sim_ret|apply sim_raise]. Qed.

Lemma sim_getV : forall o v, sim o (getV v).
Proof.
  intros o v s t s' a HR H. apply getV_ok in H as [-> F]. exists t. split; [|exact HR].
  destruct HR as (_ & _ & _ & E & _). unfold getV. rewrite E, F. reflexivity.
Qed.
Lemma sim_getB : forall o v, sim o (getB v).
Proof.
  intros o v s t s' a HR H. apply getB_ok in H as [-> F]. exists t. split; [|exact HR].
  destruct HR as (_ & E & _). unfold getB. rewrite E, F. reflexivity.
Qed.
Lemma sim_getU : forall o v, sim o (getU v).
Proof.
  intros o v s t s' a HR H. apply getU_ok in H as [-> F]. exists t. split; [|exact HR].
  destruct HR as (_ & _ & _ & _ & E & _). unfold getU. rewrite E, F. reflexivity.
Qed.
Lemma sim_updV : forall o v f, sim o (updV v f).
Proof.
  intros o v f s t s' a HR H. apply updV_ok in H as (x & F & ->). destruct a.
  pose proof HR as (_ & _ & _ & E & _). unfold updV. rewrite E, F. eexists. split; [reflexivity|].
  rm_split HR.
Qed.
Lemma sim_updB : forall o v f, sim o (updB v f).
Proof.
  intros o v f s t s' a HR H. apply updB_ok in H as (x & F & ->). destruct a.
  pose proof HR as (_ & E & _). unfold updB. rewrite E, F. eexists. split; [reflexivity|].
  rm_split HR.
Qed.
Lemma sim_updU : forall o v f, sim o (updU v f).
Proof.
  intros o v f s t s' a HR H. apply updU_ok in H as (x & F & ->). destruct a.
  pose proof HR as (_ & _ & _ & _ & E & _). unfold updU. rewrite E, F. eexists. split; [reflexivity|].
  rm_split HR.
Qed.
Lemma sim_allocV : forall o rec, sim o (allocV rec).
Proof.
  intros o rec s t s' a HR H. unfold allocV in H. injection H as <- <-.
  pose proof HR as (_ & _ & _ & _ & _ & _ & _ & _ & E & _). unfold allocV. rewrite E.
  eexists. split; [reflexivity|]. rm_split HR.
Qed.

(* the only reads/writes of the op table in value_erase: OpOperands.__setitem__ *)
Lemma sim_getO_K : forall o o' {A} (K : list vid -> list uid -> M A),
  (forall a b, sim o (K a b)) -> sim o (orec <- getO o' ;; K (o_operands orec) (o_operand_uses orec)).
Proof.
  intros o o' A K HK s t s' a HR H. apply bind_ok in H as (s0 & orec & Hg & H). apply getO_ok in Hg as [-> F].
  destruct (HK _ _ _ _ _ _ HR H) as (t' & Ht & HR'). exists t'. split; [|exact HR'].
  destruct HR as (R1 & _). unfold bind, getO. rewrite (R1 o'), F. destruct (Pos.eqb o' o); simpl; exact Ht.
Qed.

Lemma sim_updO_operands : forall o o' l, sim o (updO o' (set_o_operands l)).
Proof.
  intros o o' l s t s' a HR H. apply updO_ok in H as (x & F & ->). destruct a.
  pose proof HR as (R0 & _). unfold updO. rewrite (R0 o'), F.
  destruct (Pos.eqb_spec o' o) as [->|No]; simpl; (eexists; split; [reflexivity|]).
  - rm_split HR. intro i. rewrite !find_add. destruct (Pos.eqb_spec i o) as [->|Ni]; [reflexivity|].
    rewrite (R1 i). destruct (Pos.eqb_spec i o); [contradiction|reflexivity].
  - rm_split HR. intro i. rewrite !find_add. destruct (Pos.eqb_spec i o') as [->|Ni].
    + destruct (Pos.eqb_spec o' o); [contradiction|reflexivity].
    + apply R1.
Qed.

Ltac sim_step :=
  match goal with
  | |- sim _ (bind _ _) => apply sim_bind; [|intros ?]
  | |- sim _ (ret _) => apply sim_ret
  | |- sim _ (raise _) => apply sim_raise
  | |- sim _ get_fuel => apply sim_get_fuel
  | |- sim _ (getV _) => apply sim_getV
  | |- sim _ (getB _) => apply sim_getB
  | |- sim _ (getU _) => apply sim_getU
  | |- sim _ (updV _ _) => apply sim_updV
  | |- sim _ (updB _ _) => apply sim_updB
  | |- sim _ (updU _ _) => apply sim_updU
  | |- sim _ (allocV _) => apply sim_allocV
  | |- sim _ (assert_ _) => apply sim_assert
  | |- sim _ (forM _ _) => apply sim_forM; intros ?
  | |- sim _ (index_or_raise _ _) => apply sim_index_or_raise
  | |- sim _ (if _ then _ else _) => apply sim_if
  | |- sim _ (match ?x with Some _ => _ | None => _ end) => destruct x
  | |- sim _ (match ?x with HV _ => _ | HB _ => _ end) => destruct x
  end.
Ltac sim_auto := repeat sim_step.

Lemma sim_get_first_use : forall o h, sim o (get_first_use h).
Proof. intros o h. unfold get_first_use. sim_auto. Qed.
Lemma sim_set_first_use : forall o h u, sim o (set_first_use h u).
Proof. intros o h u. unfold set_first_use. sim_auto. Qed.
Lemma sim_remove_use : forall o h u, sim o (remove_use h u).
Proof. intros o h u. unfold remove_use. sim_auto; apply sim_set_first_use. Qed.
Lemma sim_add_use : forall o h u, sim o (add_use h u).
Proof. intros o h u. unfold add_use. sim_auto; try apply sim_get_first_use; apply sim_set_first_use. Qed.

Definition setitem_K (o : oid) (idx : Z) (operand : vid) (operands : list vid) (operand_uses : list uid) : M unit :=
  let idx := norm_index (zlen operands) idx in
  if negb ((0 <=? idx) && (idx <? zlen operands)) then raise IndexError else
  old <- index_or_raise operands idx ;;
  u <- index_or_raise operand_uses idx ;;
  remove_use (HV old) u ;;;
  add_use (HV operand) u ;;;
  updO o (set_o_operands (py_slice_to operands idx ++ operand :: py_slice_from operands (idx + 1))).

Lemma operands_setitem_K : forall o idx v,
  operands_setitem o idx v = (orec <- getO o ;; setitem_K o idx v (o_operands orec) (o_operand_uses orec)).
Proof. reflexivity. Qed.

Lemma sim_operands_setitem : forall o o' idx v, sim o (operands_setitem o' idx v).
Proof.
  intros o o' idx v. rewrite operands_setitem_K. apply sim_getO_K. intros a b. unfold setitem_K.
  cbv zeta. sim_auto; first [apply sim_remove_use|apply sim_add_use|apply sim_updO_operands].
Qed.

Lemma sim_uses_from : forall o fl cur, sim o (uses_from fl cur).
Proof.
  intros o fl. induction fl as [|f IH]; intro cur; simpl; [apply sim_raise|].
  destruct cur as [u|]; [|apply sim_ret]. sim_auto. apply IH.
Qed.

Lemma sim_rauw : forall o self value, sim o (replace_all_uses_with self value).
Proof.
  intros o self value. unfold replace_all_uses_with, uses_of. sim_auto;
    first [apply sim_get_first_use|apply sim_uses_from|apply sim_operands_setitem].
Qed.

Lemma sim_value_erase : forall o self safe, sim o (value_erase self safe).
Proof.
  intros o self safe. unfold value_erase. sim_auto; first [apply sim_get_first_use|apply sim_rauw].
Qed.

(* ------------------------------------------------------------------ WF reads the tables through find only *)

Lemma agree_ext : forall {R P} (p : R -> P) (t t' : PM.t R), (forall i, PM.find i t' = PM.find i t) -> agree p t t'.
Proof. intros R P p t t' E i. rewrite E. reflexivity. Qed.
Lemma dom_eq_ext : forall {R} (t t' : PM.t R), (forall i, PM.find i t' = PM.find i t) -> dom_eq t t'.
Proof. intros R t t' E i. rewrite E. tauto. Qed.

Lemma WF_ops_ext : forall s t,
  (forall i, PM.find i (s_ops t) = PM.find i (s_ops s)) ->
  s_blocks t = s_blocks s -> s_regions t = s_regions s -> s_values t = s_values s -> s_uses t = s_uses s ->
  n_op t = n_op s -> n_block t = n_block s -> n_region t = n_region s -> n_value t = n_value s -> n_use t = n_use s ->
  WF s -> WF t.
Proof.
  intros s t Eo Eb Er Ev Eu N1 N2 N3 N4 N5 W.
  assert (Ab : forall i, PM.find i (s_blocks t) = PM.find i (s_blocks s)) by (intro; rewrite Eb; reflexivity).
  assert (Ar : forall i, PM.find i (s_regions t) = PM.find i (s_regions s)) by (intro; rewrite Er; reflexivity).
  assert (Av : forall i, PM.find i (s_values t) = PM.find i (s_values s)) by (intro; rewrite Ev; reflexivity).
  assert (Au : forall i, PM.find i (s_uses t) = PM.find i (s_uses s)) by (intro; rewrite Eu; reflexivity).
  apply (WF_groups s t W).
  - split; apply agree_ext; assumption.
  - split; apply agree_ext; assumption.
  - split; apply agree_ext; assumption.
  - split; [|split]; apply agree_ext; assumption.
  - unfold same_A. split; [apply dom_eq_ext; assumption|]. split; [apply dom_eq_ext; assumption|].
    split; [apply dom_eq_ext; assumption|]. split; [apply dom_eq_ext; assumption|].
    split; [apply dom_eq_ext; assumption|]. repeat split; assumption.
  - apply (UWF_same s t (WF_UWF s W)). split; [|split; [|split]]; apply agree_ext; assumption.
Qed.

(* ------------------------------------------------------------------ marking values dead *)

Lemma kill_value_WF : forall s s' v r, WF s -> updV v (set_v_dead true) s = (s', Ok r) -> WF s'.
Proof.
  intros s s' v r W H.
  assert (T1 : same_T1 s s') by (eapply updV_same_T1; exact H).
  assert (T2 : same_T2 s s') by (eapply updV_same_T2; exact H).
  assert (T3 : same_T3 s s') by (eapply updV_same_T3; exact H).
  assert (SU : same_U s s') by (eapply updV_same_U; [|exact H]; intro; reflexivity).
  assert (SA : same_A s s') by (eapply updV_same_A; exact H).
  pose proof (UWF_same s s' (WF_UWF s W) SU) as (U1 & U2 & U3 & U4 & U5).
  apply updV_ok in H as (x0 & F0 & ->).
  assert (FK : forall v' vr, PM.find v' (s_values s) = Some vr ->
            exists vr', PM.find v' (PM.add v (set_v_dead true x0) (s_values s)) = Some vr' /\ v_kind vr' = v_kind vr).
  { intros v' vr F. rewrite find_add. destruct (Pos.eqb_spec v' v) as [->|]; [|eauto].
    rewrite F0 in F. injection F as <-. eexists. split; reflexivity. }
  destruct W. constructor; try assumption;
    try (eapply WF_block_same; solve [eauto]); try (eapply WF_region_same; solve [eauto]);
    try (eapply WF_opregs_same; solve [eauto]); try (eapply WF_detached_same; solve [eauto]);
    try (eapply WF_alloc_same; solve [eauto]).
  - intros o x F E i w N. destruct (wf_results o x F E i w N) as (vr & Fv & K).
    destruct (FK _ _ Fv) as (vr' & Fv' & K'). exists vr'. split; [exact Fv'|congruence].
  - intros b x F E i w N. destruct (wf_args b x F E i w N) as (vr & Fv & K).
    destruct (FK _ _ Fv) as (vr' & Fv' & K'). exists vr'. split; [exact Fv'|congruence].
  - intros w vr F D. simpl in F. rewrite find_add in F. destruct (Pos.eqb_spec w v) as [->|].
    + injection F as <-. discriminate.
    + exact (wf_owner w vr F D).
Qed.

Lemma kill_values_WF : forall l s s' r, WF s -> forM (map GValue l) kill1 s = (s', Ok r) -> WF s'.
Proof.
  induction l as [|v rest IH]; intros s s' r W H; simpl in H.
  - apply ret_ok in H as [-> _]. exact W.
  - apply bind_ok in H as (s1 & ? & H1 & H2). eapply IH; [|exact H2]. eapply kill_value_WF; eauto.
Qed.

Lemma value_erase_loop_WF : forall l s s' safe r,
  WF s -> forM l (fun v => value_erase v safe) s = (s', Ok r) -> WF s'.
Proof.
  induction l as [|v rest IH]; intros s s' safe r W H; simpl in H.
  - apply ret_ok in H as [-> _]. exact W.
  - apply bind_ok in H as (s1 & ? & H1 & H2). eapply IH; [|exact H2]. eapply value_erase_WF; eauto.
Qed.

(* ------------------------------------------------------------------ Operation.erase, no regions *)

Lemma collect_op_S : forall f s o, collect_op (S f) s o =
  match PM.find o (s_ops s) with
  | None => []
  | Some x => GOp o :: map GValue (o_results x) ++ flat_map (collect_region f s) (o_regions x)
  end.
Proof. reflexivity. Qed.

Lemma fuel_pos : forall s, exists f, fuel_of s = S f.
Proof. intro s. destruct (fuel_of s) as [|f] eqn:E; [unfold fuel_of in E; lia|eauto]. Qed.

Theorem op_erase_noregions_WF : forall s s' o x safe r,
  WF s -> PM.find o (s_ops s) = Some x -> o_erased x = false -> o_regions x = [] ->
  op_erase o safe true s = (s', Ok r) -> WF s'.
Proof.
  intros s s' o x safe r W Fx Ex Rx H. unfold op_erase in H.
  apply bind_ok in H as (s0 & orec & Hg & H). apply getO_ok in Hg as [-> Fo]. rewrite Fx in Fo. injection Fo as <-.
  apply bind_ok in H as (s0 & ? & Ha & H). apply assert_ok in Ha as [-> Pa].
  apply negb_true_iff in Pa. apply is_some_false in Pa.
  apply bind_ok in H as (s0 & dead & Hd & H). apply gets_ok in Hd as [-> ->].
  apply bind_ok in H as (s0 & fl & Hf & H). unfold get_fuel in Hf. apply gets_ok in Hf as [-> ->].
  destruct (fuel_pos s) as (f & Ef). rewrite Ef in H. rewrite collect_op_S, Fx, Rx in H. simpl flat_map in H.
  rewrite app_nil_r in H.
  apply bind_ok in H as (s2 & ? & Hdrop & H). simpl in Hdrop.
  destruct (drop_noregions s s2 o x f _ W Fx Ex Pa Rx Hdrop) as ((x2 & F2) & OTH & NU & UA2).
  pose proof (mid_WF s s2 o x x2 W Fx Ex F2 OTH NU UA2) as W2.
  assert (HR2 : Rm o s2 (markO o x2 s2)).
  { unfold Rm, markO. simpl. split; [|repeat split].
    intro i. rewrite find_add. destruct (Pos.eqb_spec i o) as [->|]; [rewrite F2|]; reflexivity. }
  apply bind_ok in H as (s0 & orec' & Hg & H). apply getO_ok in Hg as [-> Fo'].
  apply bind_ok in H as (s3 & ? & Hve & Hk).
  destruct (sim_forM o (o_results orec') (fun v => value_erase v safe) (fun v => sim_value_erase o v safe)
              _ _ _ _ HR2 Hve) as (t3 & Hve' & HR3).
  pose proof (value_erase_loop_WF _ _ _ _ _ W2 Hve') as W3.
  unfold kill in Hk. simpl in Hk.
  apply bind_ok in Hk as (s4 & ? & Hk1 & Hk2). apply updO_ok in Hk1 as (xk & F3 & ->).
  eapply kill_values_WF; [|exact Hk2].
  destruct HR3 as (R1 & R2 & R3 & R4 & R5 & R6 & R7 & R8 & R9 & R10).
  apply (WF_ops_ext t3); simpl; try (symmetry; assumption); [|exact W3].
  intro i. rewrite (R1 i), find_add. destruct (Pos.eqb_spec i o) as [->|]; [rewrite F3|]; reflexivity.
Qed.

(* the same statement in the `op_live` shape used by ProofsHistory.args_live *)
Corollary op_erase_noregions_live_WF : forall s s' o safe r,
  WF s -> op_live s o -> (forall x, PM.find o (s_ops s) = Some x -> o_regions x = []) ->
  op_erase o safe true s = (s', Ok r) -> WF s'.
Proof.
  intros s s' o safe r W (x & F & E) NR H. eapply op_erase_noregions_WF; eauto.
Qed.

(* ------------------------------------------------------------------ Block.erase_op / Rewriter.erase_op *)

Lemma detach_op_ret : forall b o s s' r, detach_op b o s = (s', Ok r) -> r = o.
Proof.
  intros b o s s' r H. unfold detach_op in H.
  apply bind_ok in H as (s0 & orec & _ & H).
  destruct (negb (opt_eqb (o_parent orec) (Some b))); [exfalso; eapply raise_ok; eauto|].
  apply bind_ok in H as (s1 & ? & _ & H).
  apply bind_ok in H as (s2 & ? & _ & H).
  apply bind_ok in H as (s3 & ? & _ & H).
  apply ret_ok in H as [_ ->]. reflexivity.
Qed.

Theorem erase_op_noregions_WF : forall s s' b o x safe r,
  WF s -> blk_live s b -> PM.find o (s_ops s) = Some x -> o_erased x = false -> o_regions x = [] ->
  erase_op b o safe s = (s', Ok r) -> WF s'.
Proof.
  intros s s' b o x safe r W BL Fx Ex Rx H. unfold erase_op in H.
  apply bind_ok in H as (s1 & o' & Hd & He).
  pose proof (detach_op_ret _ _ _ _ _ Hd) as ->.
  assert (OL : op_live s o) by (exists x; auto).
  pose proof (detach_op_WF _ _ _ _ _ W BL OL Hd) as W1.
  destruct (detach_op_T3 b o s s1 _ Hd) as [Ao _].
  destruct (agree_find_rev _ _ _ _ _ Ao Fx) as (x1 & F1 & P). unfold pT3_op in P. injection P as P1 P2.
  eapply (op_erase_noregions_WF s1 s' o x1); eauto; congruence.
Qed.

Corollary erase_op_noregions_live_WF : forall s s' b o safe r,
  WF s -> blk_live s b -> op_live s o -> (forall x, PM.find o (s_ops s) = Some x -> o_regions x = []) ->
  erase_op b o safe s = (s', Ok r) -> WF s'.
Proof.
  intros s s' b o safe r W BL (x & F & E) NR H. eapply erase_op_noregions_WF; eauto.
Qed.

Theorem rw_erase_op_noregions_WF : forall s s' o x safe r,
  WF s -> PM.find o (s_ops s) = Some x -> o_erased x = false -> o_regions x = [] ->
  (forall b, o_parent x = Some b -> blk_live s b) ->
  rw_erase_op o safe s = (s', Ok r) -> WF s'.
Proof.
  intros s s' o x safe r W Fx Ex Rx BL H. unfold rw_erase_op in H.
  apply bind_ok in H as (s0 & orec & Hg & H). apply getO_ok in Hg as [-> Fo]. rewrite Fx in Fo. injection Fo as <-.
  destruct (o_parent x) as [b|] eqn:P.
  - eapply erase_op_noregions_WF; eauto.
  - eapply op_erase_noregions_WF; eauto.
Qed.

Corollary rw_erase_op_noregions_live_WF : forall s s' o safe r,
  WF s -> op_live s o ->
  (forall x, PM.find o (s_ops s) = Some x -> o_regions x = []) ->
  (forall x b, PM.find o (s_ops s) = Some x -> o_parent x = Some b -> blk_live s b) ->
  rw_erase_op o safe s = (s', Ok r) -> WF s'.
Proof.
  intros s s' o safe r W (x & F & E) NR BL H. eapply rw_erase_op_noregions_WF; eauto.
Qed.
