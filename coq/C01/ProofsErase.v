(* C01/ProofsErase.v -- WF is preserved by a SUCCESSFUL Operation.erase / Block.erase_op /
   Rewriter.erase_op of an operation WITHOUT regions.

   Route: the state between drop_all_references and the final `kill` is not WF for the op o
   being erased (operands without operand uses) while o is not yet marked erased.  Marking o
   erased is a ghost-only write that no mutator reads, so
     (1) the state after drop_all_references WITH o's erased flag set is WF
         (all obligations about o vanish; the use lists are exactly the slots of the other ops);
     (2) the remaining `value_erase` calls commute with the ghost write (simulation `sim`),
         and preserve WF on the marked run (value_erase_WF);
     (3) `kill` sets the flag of o (the marked final state) and marks the results dead
         (WF_owner only loses obligations). *)
From Coq Require Import ZArith List Bool PArith FMapPositive Lia FinFun.
From XV Require Import C01.Model C01.Spec C01.ProofsBase C01.ProofsFrame C01.ProofsUses C01.ProofsOperands
  C01.ProofsRauw C01.ProofsSetOperands C01.ProofsOps C01.ProofsBlocks.
Import ListNotations.
Local Open Scope Z_scope.

(* ------------------------------------------------------------------ removal loop, any holder class *)

Lemma remove_loop_g : forall (mk : positive -> holder) (pairs : list (positive * uid)) s s' Sl o k0 r,
  Uabs s Sl ->
  (forall k v u, nth_error pairs k = Some (v, u) -> Sl (mk v) o (k0 + Z.of_nat k) u) ->
  forM pairs (fun p => remove_use (mk (fst p)) (snd p)) s = (s', Ok r) ->
  Uabs s' (minus_uses Sl (map snd pairs)) /\ s_ops s' = s_ops s /\ (forall x, use_info s' x = use_info s x).
Proof.
  intros mk. induction pairs as [|[v u] rest IH]; intros s s' Sl o k0 r UA INV H; simpl in H.
  - apply ret_ok in H as [-> _]. split; [|auto]. destruct UA as [UC US U1]. constructor.
    + intros h fu Hf. destruct (UC h fu Hf) as (l & C & ND & P & M). exists l. repeat split; try assumption.
      intros q Iq. destruct (M q Iq) as (o' & i' & Q). exists o', i'. split; [exact Q|intros []].
    + intros h o' i' q [Q _]. apply US. exact Q.
    + intros h h' o1 o2 i1 i2 q [Q1 _] [Q2 _]. eapply U1; eauto.
  - apply bind_ok in H as (s1 & ? & H1 & H2). simpl in H1.
    pose proof (INV 0%nat v u eq_refl) as S0. replace (k0 + Z.of_nat 0) with k0 in S0 by lia.
    destruct (remove_use_Uabs _ _ _ _ _ _ _ _ UA S0 H1) as (UA1 & Ops1 & Inf1).
    assert (INV1 : forall k v' u', nth_error rest k = Some (v', u') -> minus_use Sl u (mk v') o (k0 + 1 + Z.of_nat k) u').
    { intros k v' u' N. pose proof (INV (Datatypes.S k) v' u' N) as Q.
      replace (k0 + Z.of_nat (Datatypes.S k)) with (k0 + 1 + Z.of_nat k) in Q by lia.
      split; [exact Q|]. intro E. subst u'.
      destruct (ua_slot _ _ UA _ _ _ _ Q) as [I1 _]. destruct (ua_slot _ _ UA _ _ _ _ S0) as [I2 _].
      rewrite I1 in I2. injection I2 as E. lia. }
    destruct (IH s1 s' (minus_use Sl u) o (k0 + 1) r UA1 INV1 H2) as (UA' & Ops' & Inf').
    split; [|split; [congruence|intro q; rewrite Inf', Inf1; reflexivity]].
    destruct UA' as [UC US U1]. constructor.
    + intros h fu Hf. destruct (UC h fu Hf) as (l & C & ND & P & M). exists l. repeat split; try assumption.
      intros q Iq. destruct (M q Iq) as (o' & i' & [[Q N1] N2]). exists o', i'. split; [exact Q|].
      simpl. intros [E|I]; [congruence|contradiction].
    + intros h o' i' q [Q N]. apply US. split; [split; [exact Q|]|]; intro; apply N; simpl; auto.
    + intros h h' o1 o2 i1 i2 q [Q1 N1] [Q2 N2].
      eapply U1; (split; [split; [eassumption|]|]); intro; (apply N1 || apply N2); simpl; auto.
Qed.

(* ------------------------------------------------------------------ the ghost write: mark an op erased *)

Definition markO (o : oid) (x : op_rec) (s : state) : state :=
  with_ops (PM.add o (set_o_erased true x) (s_ops s)) s.

Lemma mark_block : forall s o x, PM.find o (s_ops s) = Some x -> WF_block s -> WF_block (markO o x s).
Proof.
  intros s o x F W b br Fb Eb. destruct (W b br Fb Eb) as (l & C1 & C2 & ND & M1 & M2).
  assert (N : forall i, op_next (markO o x s) i = op_next s i).
  { intro i. unfold op_next, link, markO. simpl. rewrite find_add.
    destruct (Pos.eqb_spec i o) as [->|]; [rewrite F|]; reflexivity. }
  assert (P : forall i, op_prev (markO o x s) i = op_prev s i).
  { intro i. unfold op_prev, link, markO. simpl. rewrite find_add.
    destruct (Pos.eqb_spec i o) as [->|]; [rewrite F|]; reflexivity. }
  exists l. split; [eapply chain_ext; [|exact C1]; intros; apply N|].
  split; [eapply chain_ext; [|exact C2]; intros; apply P|]. split; [exact ND|]. split.
  - intros o' Io. destruct (M1 o' Io) as (x' & Fx & Px). unfold markO. simpl. rewrite find_add.
    destruct (Pos.eqb_spec o' o) as [->|]; [|eauto].
    rewrite F in Fx. injection Fx as <-. eexists. split; [reflexivity|exact Px].
  - intros o' x' Fx Ex Px. unfold markO in Fx. simpl in Fx. rewrite find_add in Fx.
    destruct (Pos.eqb_spec o' o) as [->|]; [injection Fx as <-; discriminate|]. eapply M2; eauto.
Qed.

Lemma mark_opregs : forall s o x, PM.find o (s_ops s) = Some x -> WF_opregs s -> WF_opregs (markO o x s).
Proof.
  intros s o x F W o' x' Fx Ex. unfold markO in Fx. simpl in Fx. rewrite find_add in Fx.
  destruct (Pos.eqb_spec o' o) as [->|]; [injection Fx as <-; discriminate|].
  exact (W o' x' Fx Ex).
Qed.

Lemma mark_index : forall s o x, PM.find o (s_ops s) = Some x ->
  WF_results s /\ WF_args s /\ WF_owner s ->
  WF_results (markO o x s) /\ WF_args (markO o x s) /\ WF_owner (markO o x s).
Proof.
  intros s o x F (W1 & W2 & W3). split; [|split].
  - intros o' x' Fx Ex. unfold markO in Fx. simpl in Fx. rewrite find_add in Fx.
    destruct (Pos.eqb_spec o' o) as [->|]; [injection Fx as <-; discriminate|].
    exact (W1 o' x' Fx Ex).
  - exact W2.
  - intros v vr Fv D. specialize (W3 v vr Fv D). destruct (v_kind vr) as [o' i|b i|old]; [|exact W3|exact I].
    destruct W3 as (x' & Fx & Z). unfold markO. simpl. rewrite find_add.
    destruct (Pos.eqb_spec o' o) as [->|]; [|eauto].
    rewrite F in Fx. injection Fx as <-. eexists. split; [reflexivity|exact Z].
Qed.

Lemma mark_detached : forall s o x, PM.find o (s_ops s) = Some x -> WF_detached s -> WF_detached (markO o x s).
Proof.
  intros s o x F [W1 W2]. split; [|exact W2].
  intros o' x' Fx Ex. unfold markO in Fx. simpl in Fx. rewrite find_add in Fx.
  destruct (Pos.eqb_spec o' o) as [->|]; [injection Fx as <-; discriminate|].
  exact (W1 o' x' Fx Ex).
Qed.

Lemma mark_alloc : forall s o x, PM.find o (s_ops s) = Some x -> WF_alloc s -> WF_alloc (markO o x s).
Proof.
  intros s o x F (B1 & B2 & B3 & B4 & B5). unfold WF_alloc, markO. simpl. repeat split; try assumption.
  intros i y Fy. rewrite find_add in Fy. destruct (Pos.eqb_spec i o) as [->|]; [eapply B1; eauto|eapply B1; eauto].
Qed.

(* ------------------------------------------------------------------ frame outside the use group *)

Definition same_nonU s s' := same_T1 s s' /\ same_T2 s s' /\ same_T3 s s' /\ same_I s s' /\ same_A s s'.

Lemma nonU_refl : forall s, same_nonU s s.
Proof. intro s. unfold same_nonU. repeat (split; [first [apply fr_T1|apply fr_T2|apply fr_T3|apply fr_I]|]). apply fr_A. Qed.
Lemma nonU_trans : forall s1 s2 s3, same_nonU s1 s2 -> same_nonU s2 s3 -> same_nonU s1 s3.
Proof.
  intros s1 s2 s3 (A1 & A2 & A3 & A4 & A5) (B1 & B2 & B3 & B4 & B5). unfold same_nonU.
  split; [eapply (fr_trans _ fr_T1); eauto|]. split; [eapply (fr_trans _ fr_T2); eauto|].
  split; [eapply (fr_trans _ fr_T3); eauto|]. split; [eapply (fr_trans _ fr_I); eauto|].
  eapply (fr_trans _ fr_A); eauto.
Qed.
Lemma fr_nonU : frame_rel same_nonU.
Proof. split; [exact nonU_refl|exact nonU_trans]. Qed.

Lemma pres_nonU : forall {A} (m : M A),
  preserves same_T1 m -> preserves same_T2 m -> preserves same_T3 m -> preserves same_I m -> preserves same_A m ->
  preserves same_nonU m.
Proof.
  intros A m P1 P2 P3 P4 P5 s s' r H. unfold same_nonU.
  split; [exact (P1 _ _ _ H)|]. split; [exact (P2 _ _ _ H)|]. split; [exact (P3 _ _ _ H)|].
  split; [exact (P4 _ _ _ H)|exact (P5 _ _ _ H)].
Qed.

Lemma updO_nonU : forall o f,
  (forall x, pT1_op (f x) = pT1_op x) -> (forall x, pT3_op (f x) = pT3_op x) -> (forall x, pI_op (f x) = pI_op x) ->
  preserves same_nonU (updO o f).
Proof.
  intros o f E1 E3 EI. apply pres_nonU.
  - apply updO_same_T1; exact E1.
  - apply updO_same_T2.
  - apply updO_same_T3; exact E3.
  - apply updO_same_I; exact EI.
  - apply updO_same_A.
Qed.

Lemma updO_nonU_at : forall o f s s' r x, PM.find o (s_ops s) = Some x ->
  pT1_op (f x) = pT1_op x -> pT3_op (f x) = pT3_op x -> pI_op (f x) = pI_op x ->
  updO o f s = (s', r) -> same_nonU s s'.
Proof.
  intros o f s s' r x F E1 E3 EI H. unfold updO in H. rewrite F in H. injection H as <- _.
  unfold same_nonU. split; [|split; [|split; [|split]]].
  - split; simpl; [eapply agree_add; eauto|apply agree_refl].
  - split; simpl; apply agree_refl.
  - split; simpl; [eapply agree_add; eauto|apply agree_refl].
  - split; [|split]; simpl; try apply agree_refl. eapply agree_add; eauto.
  - unfold same_A; simpl.
    repeat (split; [first [apply dom_eq_refl | eapply dom_eq_add; eauto | reflexivity]|]); reflexivity.
Qed.

Lemma remove_loop_nonU : forall (mk : positive -> holder) (pairs : list (positive * uid)),
  preserves same_nonU (forM pairs (fun p => remove_use (mk (fst p)) (snd p))).
Proof.
  intros mk pairs. apply pres_nonU.
  - apply (pres_forM _ fr_T1). intro a. apply remove_use_T1.
  - apply (pres_forM _ fr_T2). intro a. apply remove_use_T2.
  - apply (pres_forM _ fr_T3). intro a. apply remove_use_T3.
  - apply (pres_forM _ fr_I). intro a. apply remove_use_I.
  - apply (pres_forM _ fr_A). intro a. apply remove_use_A.
Qed.

(* Uabs reads the use table and the first_use pointers only *)
Lemma Uabs_irrel : forall s s' S, s_uses s' = s_uses s -> s_values s' = s_values s -> s_blocks s' = s_blocks s ->
  Uabs s S -> Uabs s' S.
Proof.
  intros s s' S E1 E2 E3 UA. eapply Uabs_ext; [| | |exact UA].
  - intro u. rewrite E1. reflexivity.
  - intros [v|b]; simpl; [rewrite E2|rewrite E3]; reflexivity.
  - intros; tauto.
Qed.

(* ------------------------------------------------------------------ drop_all_references, no regions *)

Lemma op_drop_S : forall f o, op_drop_all_references (S f) o =
  (updO o (set_o_parent None) ;;;
   orec <- getO o ;;
   forM (zip (o_operands orec) (o_operand_uses orec)) (fun p => remove_use (HV (fst p)) (snd p)) ;;;
   updO o (set_o_operand_uses []) ;;;
   forM (zip (o_successors orec) (o_successor_uses orec)) (fun p => remove_use (HB (fst p)) (snd p)) ;;;
   updO o (set_o_successor_uses []) ;;;
   updO o (set_o_successors []) ;;;
   forM (o_regions orec) (fun r => region_drop_all_references f r)).
Proof. reflexivity. Qed.

Lemma drop_noregions : forall s s2 o x f r,
  WF s -> PM.find o (s_ops s) = Some x -> o_erased x = false -> o_parent x = None -> o_regions x = [] ->
  op_drop_all_references (S f) o s = (s2, Ok r) ->
  (exists x2, PM.find o (s_ops s2) = Some x2) /\
  (forall i, i <> o -> PM.find i (s_ops s2) = PM.find i (s_ops s)) /\
  same_nonU s s2 /\
  Uabs s2 (minus_uses (minus_uses (real_slot s) (o_operand_uses x)) (o_successor_uses x)).
Proof.
  intros s s2 o x f r W Fx Ex Px Rx H.
  destruct (UWF_Uabs s (WF_UWF s W)) as [UA LN]. destruct (LN o x Fx Ex) as [Len1 Len2].
  rewrite op_drop_S in H.
  apply bind_ok in H as (sa & ? & Ha & H).
  assert (EP : pT1_op (set_o_parent None x) = pT1_op x) by (unfold pT1_op; simpl; rewrite Px; reflexivity).
  pose proof (updO_nonU_at o (set_o_parent None) _ _ _ _ Fx EP eq_refl eq_refl Ha) as N1.
  apply updO_ok in Ha as (xa & Fa & ->). rewrite Fx in Fa. injection Fa as <-.
  apply bind_ok in H as (sa' & orec & Hg & H). apply getO_ok in Hg as [-> Fo].
  simpl in Fo. rewrite find_add_same in Fo. injection Fo as <-. simpl in H. rewrite Rx in H.
  apply bind_ok in H as (sb & ? & Hl1 & H).
  apply bind_ok in H as (sc & ? & Hc & H).
  apply bind_ok in H as (sd & ? & Hl2 & H).
  apply bind_ok in H as (se & ? & He & H).
  apply bind_ok in H as (sf & ? & Hf & H). simpl in H. apply ret_ok in H as [-> _].
  (* first loop *)
  assert (UAa : Uabs (with_ops (PM.add o (set_o_parent None x) (s_ops s)) s) (real_slot s)).
  { eapply Uabs_irrel; [| | |exact UA]; reflexivity. }
  assert (INV1 : forall k v u, nth_error (zip (o_operands x) (o_operand_uses x)) k = Some (v, u) ->
                   real_slot s (HV v) o (0 + Z.of_nat k) u).
  { intros k v u N. apply nth_error_zip in N. destruct N as [N1' N2']. exists x. simpl.
    rewrite !znth_of_nat. auto. }
  destruct (remove_loop_g HV _ _ sb (real_slot s) o 0 _ UAa INV1 Hl1) as (UAb & Opsb & _).
  pose proof (remove_loop_nonU HV _ _ _ _ Hl1) as N2.
  assert (OLD1 : map snd (zip (o_operands x) (o_operand_uses x)) = o_operand_uses x).
  { clear -Len1. revert Len1. generalize (o_operands x) (o_operand_uses x).
    induction l as [|a t IH]; intros [|b t'] L; simpl in *; try discriminate; try reflexivity.
    f_equal. apply IH. lia. }
  assert (UAb' : Uabs sb (minus_uses (real_slot s) (o_operand_uses x))) by (rewrite <- OLD1; exact UAb).
  clear UAb. rename UAb' into UAb.
  pose proof (updO_nonU o (set_o_operand_uses []) (fun _ => eq_refl) (fun _ => eq_refl) (fun _ => eq_refl) _ _ _ Hc) as N3.
  apply updO_ok in Hc as (xc & Fc & ->).
  (* second loop *)
  assert (UAc : Uabs (with_ops (PM.add o (set_o_operand_uses [] xc) (s_ops sb)) sb)
                     (minus_uses (real_slot s) (o_operand_uses x))).
  { eapply Uabs_irrel; [| | |exact UAb]; reflexivity. }
  assert (INV2 : forall k b u, nth_error (zip (o_successors x) (o_successor_uses x)) k = Some (b, u) ->
                   minus_uses (real_slot s) (o_operand_uses x) (HB b) o (0 + Z.of_nat k) u).
  { intros k b u N. apply nth_error_zip in N. destruct N as [N1' N2']. split.
    - exists x. simpl. rewrite !znth_of_nat. auto.
    - intro I. eapply (wf_disjoint s W o x Fx Ex u I). eapply nth_error_In; eauto. }
  destruct (remove_loop_g HB _ _ sd _ o 0 _ UAc INV2 Hl2) as (UAd & Opsd & _).
  pose proof (remove_loop_nonU HB _ _ _ _ Hl2) as N4.
  assert (OLD2 : map snd (zip (o_successors x) (o_successor_uses x)) = o_successor_uses x).
  { clear -Len2. revert Len2. generalize (o_successors x) (o_successor_uses x).
    induction l as [|a t IH]; intros [|b t'] L; simpl in *; try discriminate; try reflexivity.
    f_equal. apply IH. lia. }
  assert (UAd' : Uabs sd (minus_uses (minus_uses (real_slot s) (o_operand_uses x)) (o_successor_uses x)))
    by (rewrite <- OLD2; exact UAd).
  clear UAd. rename UAd' into UAd.
  pose proof (updO_nonU o (set_o_successor_uses []) (fun _ => eq_refl) (fun _ => eq_refl) (fun _ => eq_refl) _ _ _ He) as N5.
  apply updO_ok in He as (xe & Fe & ->).
  pose proof (updO_nonU o (set_o_successors []) (fun _ => eq_refl) (fun _ => eq_refl) (fun _ => eq_refl) _ _ _ Hf) as N6.
  apply updO_ok in Hf as (xf & Ff & ->).
  split; [|split; [|split]].
  - eexists. simpl. rewrite find_add_same. reflexivity.
  - intros i Ni. simpl. rewrite !find_add_other by exact Ni. rewrite Opsd. simpl.
    rewrite find_add_other by exact Ni. rewrite Opsb. simpl. rewrite find_add_other by exact Ni. reflexivity.
  - eapply nonU_trans; [exact N1|]. eapply nonU_trans; [exact N2|]. eapply nonU_trans; [exact N3|].
    eapply nonU_trans; [exact N4|]. eapply nonU_trans; [exact N5|exact N6].
  - eapply Uabs_irrel; [| | |exact UAd]; reflexivity.
Qed.

(* ------------------------------------------------------------------ the marked middle state is WF *)

Lemma slot_of_uses : forall s o x u, lens_ok s ->
  PM.find o (s_ops s) = Some x -> o_erased x = false ->
  In u (o_operand_uses x) \/ In u (o_successor_uses x) -> exists h i, real_slot s h o i u.
Proof.
  intros s o x u LN F E [I|I]; destruct (LN o x F E) as [L1 L2]; destruct (In_nth_error _ _ I) as (j & Nj).
  - assert (exists v, nth_error (o_operands x) j = Some v) as (v & Nv).
    { destruct (nth_error (o_operands x) j) eqn:Q; [eauto|]. apply nth_error_None in Q.
      assert (j < length (o_operand_uses x))%nat by (apply nth_error_Some; congruence). lia. }
    exists (HV v), (Z.of_nat j). exists x. simpl. rewrite !znth_of_nat. auto.
  - assert (exists v, nth_error (o_successors x) j = Some v) as (v & Nv).
    { destruct (nth_error (o_successors x) j) eqn:Q; [eauto|]. apply nth_error_None in Q.
      assert (j < length (o_successor_uses x))%nat by (apply nth_error_Some; congruence). lia. }
    exists (HB v), (Z.of_nat j). exists x. simpl. rewrite !znth_of_nat. auto.
Qed.

Lemma mid_WF : forall s s2 o x x2,
  WF s -> PM.find o (s_ops s) = Some x -> o_erased x = false ->
  PM.find o (s_ops s2) = Some x2 ->
  (forall i, i <> o -> PM.find i (s_ops s2) = PM.find i (s_ops s)) ->
  same_nonU s s2 ->
  Uabs s2 (minus_uses (minus_uses (real_slot s) (o_operand_uses x)) (o_successor_uses x)) ->
  WF (markO o x2 s2).
Proof.
  intros s s2 o x x2 W Fx Ex F2 OTH (T1 & T2 & T3 & SI & SA) UA2.
  destruct (UWF_Uabs s (WF_UWF s W)) as [UA LN].
  pose proof (mark_block _ _ _ F2 (WF_block_same _ _ T1 (wf_block s W))) as C1.
  pose proof (WF_region_same _ _ T2 (wf_region s W)) as C2.
  pose proof (mark_opregs _ _ _ F2 (WF_opregs_same _ _ T3 (wf_opregs s W))) as C3.
  destruct (mark_index _ _ _ F2 (WF_index_same _ _ SI (conj (wf_results s W) (conj (wf_args s W) (wf_owner s W)))))
    as (C4 & C5 & C6).
  pose proof (mark_detached _ _ _ F2 (WF_detached_same _ _ T1 T2 (wf_detached s W))) as C7.
  pose proof (mark_alloc _ _ _ F2 (WF_alloc_same _ _ SA (wf_alloc s W))) as C8.
  assert (FM : forall i, PM.find i (s_ops (markO o x2 s2)) =
                         if Pos.eqb i o then Some (set_o_erased true x2) else PM.find i (s_ops s)).
  { intro i. unfold markO. simpl. rewrite find_add. destruct (Pos.eqb_spec i o); [reflexivity|apply OTH; assumption]. }
  assert (UW : UWF (markO o x2 s2)).
  { apply Uabs_UWF.
    - eapply Uabs_ext; [| | |exact UA2].
      + intro u. reflexivity.
      + intros [v|b]; reflexivity.
      + intros h o' i u. split.
        * intros (x' & F' & E' & Z1 & Z2). rewrite FM in F'. destruct (Pos.eqb_spec o' o) as [->|No].
          { injection F' as <-. discriminate. }
          assert (R : real_slot s h o' i u) by (exists x'; auto).
          assert (NI : ~ (In u (o_operand_uses x) \/ In u (o_successor_uses x))).
          { intro I. destruct (slot_of_uses s o x u LN Fx Ex I) as (h2 & i2 & R2).
            destruct (ua_slot _ _ UA _ _ _ _ R) as [I1 _]. destruct (ua_slot _ _ UA _ _ _ _ R2) as [I2 _].
            rewrite I1 in I2. injection I2 as E _. contradiction. }
          split; [split; [exact R|]|]; intro I; apply NI; auto.
        * intros [[(x' & F' & E' & Z1 & Z2) N1] N2]. destruct (Pos.eq_dec o' o) as [->|No].
          { exfalso. rewrite Fx in F'. injection F' as <-. apply znth_In in Z2.
            destruct h; simpl in Z2; contradiction. }
          exists x'. rewrite FM. destruct (Pos.eqb_spec o' o); [contradiction|]. auto.
    - intros o' x' F' E'. rewrite FM in F'. destruct (Pos.eqb_spec o' o) as [->|No].
      + injection F' as <-. discriminate.
      + exact (LN o' x' F' E'). }
  destruct UW as (U1 & U2 & U3 & U4 & U5).
  constructor; assumption.
Qed.

(* ------------------------------------------------------------------ the ghost write commutes with value_erase *)

(* t is s with the erased flag of o set (extensionally on the op table) *)
Definition Rm (o : oid) (s t : state) : Prop :=
  (forall i, PM.find i (s_ops t) =
             if Pos.eqb i o then option_map (set_o_erased true) (PM.find i (s_ops s)) else PM.find i (s_ops s)) /\
  s_blocks t = s_blocks s /\ s_regions t = s_regions s /\ s_values t = s_values s /\ s_uses t = s_uses s /\
  n_op t = n_op s /\ n_block t = n_block s /\ n_region t = n_region s /\ n_value t = n_value s /\ n_use t = n_use s.

Definition sim (o : oid) {A} (m : M A) : Prop :=
  forall s t s' a, Rm o s t -> m s = (s', Ok a) -> exists t', m t = (t', Ok a) /\ Rm o s' t'.

Ltac rm_split HR :=
  let R1 := fresh "R1" in
  destruct HR as (R1 & ? & ? & ? & ? & ? & ? & ? & ? & ?);
  unfold Rm; simpl; split; [try exact R1|repeat split; try congruence].

Lemma sim_ret : forall o {A} (a : A), sim o (ret a).
Proof. intros o A a s t s' b HR H. apply ret_ok in H as [-> ->]. exists t. split; [reflexivity|exact HR]. Qed.
Lemma sim_raise : forall o {A} e, sim o (@raise A e).
Proof. intros o A e s t s' b HR H. exfalso. eapply raise_ok; eauto. Qed.
Lemma sim_bind : forall o {A B} (m : M A) (f : A -> M B), sim o m -> (forall a, sim o (f a)) -> sim o (bind m f).
Proof.
  intros o A B m f Hm Hf s t s' b HR H. apply bind_ok in H as (s1 & a & H1 & H2).
  destruct (Hm _ _ _ _ HR H1) as (t1 & G1 & HR1). destruct (Hf a _ _ _ _ HR1 H2) as (t' & G2 & HR2).
  exists t'. split; [|exact HR2]. unfold bind. rewrite G1. exact G2.
Qed.
Lemma sim_gets : forall o {A} (f : state -> A), (forall s t, Rm o s t -> f t = f s) -> sim o (gets f).
Proof.
  intros o A f E s t s' b HR H. apply gets_ok in H as [-> ->]. exists t. split; [|exact HR].
  unfold gets. rewrite (E _ _ HR). reflexivity.
Qed.
Lemma sim_get_fuel : forall o, sim o get_fuel.
Proof.
  intro o. apply sim_gets. intros s t (_ & _ & _ & _ & _ & E1 & E2 & E3 & E4 & E5).
  unfold fuel_of. rewrite E1, E2, E3, E4, E5. reflexivity.
Qed.
Lemma sim_assert : forall o c, sim o (assert_ c).
Proof. intros o c. unfold assert_. destruct c; [apply sim_ret|apply sim_raise]. Qed.
Lemma sim_if : forall o {A} (c : bool) (m1 m2 : M A), sim o m1 -> sim o m2 -> sim o (if c then m1 else m2).
Proof. intros o A c m1 m2 H1 H2. destruct c; assumption. Qed.
Lemma sim_forM : forall o {A} (l : list A) (f : A -> M unit), (forall a, sim o (f a)) -> sim o (forM l f).
Proof.
  intros o A l f Hf. induction l as [|x r IH]; simpl; [apply sim_ret|].
  apply sim_bind; [apply Hf|intros _; exact IH].
Qed.
Lemma sim_index_or_raise : forall o {A} (l : list A) i, sim o (index_or_raise l i).
Proof. intros o A l i. unfold index_or_raise. destruct (py_index l i); [apply sim_ret|apply sim_raise]. Qed.

Lemma sim_getV : forall o v, sim o (getV v).
Proof.
  intros o v s t s' a HR H. apply getV_ok in H as [-> F]. exists t. split; [|exact HR].
  destruct HR as (_ & _ & _ & E & _). unfold getV. rewrite E, F. reflexivity.
Qed.
Lemma sim_getB : forall o v, sim o (getB v).
Proof.
  intros o v s t s' a HR H. apply getB_ok in H as [-> F]. exists t. split; [|exact HR].
  destruct HR as (_ & E & _). unfold getB. rewrite E, F. reflexivity.
Qed.
Lemma sim_getU : forall o v, sim o (getU v).
Proof.
  intros o v s t s' a HR H. apply getU_ok in H as [-> F]. exists t. split; [|exact HR].
  destruct HR as (_ & _ & _ & _ & E & _). unfold getU. rewrite E, F. reflexivity.
Qed.
Lemma sim_updV : forall o v f, sim o (updV v f).
Proof.
  intros o v f s t s' a HR H. apply updV_ok in H as (x & F & ->). destruct a.
  pose proof HR as (_ & _ & _ & E & _). unfold updV. rewrite E, F. eexists. split; [reflexivity|].
  rm_split HR.
Qed.
Lemma sim_updB : forall o v f, sim o (updB v f).
Proof.
  intros o v f s t s' a HR H. apply updB_ok in H as (x & F & ->). destruct a.
  pose proof HR as (_ & E & _). unfold updB. rewrite E, F. eexists. split; [reflexivity|].
  rm_split HR.
Qed.
Lemma sim_updU : forall o v f, sim o (updU v f).
Proof.
  intros o v f s t s' a HR H. apply updU_ok in H as (x & F & ->). destruct a.
  pose proof HR as (_ & _ & _ & _ & E & _). unfold updU. rewrite E, F. eexists. split; [reflexivity|].
  rm_split HR.
Qed.
Lemma sim_allocV : forall o rec, sim o (allocV rec).
Proof.
  intros o rec s t s' a HR H. unfold allocV in H. injection H as <- <-.
  pose proof HR as (_ & _ & _ & _ & _ & _ & _ & _ & E & _). unfold allocV. rewrite E.
  eexists. split; [reflexivity|]. rm_split HR.
Qed.

(* the only reads/writes of the op table in value_erase: OpOperands.__setitem__ *)
Lemma sim_getO_K : forall o o' {A} (K : list vid -> list uid -> M A),
  (forall a b, sim o (K a b)) -> sim o (orec <- getO o' ;; K (o_operands orec) (o_operand_uses orec)).
Proof.
  intros o o' A K HK s t s' a HR H. apply bind_ok in H as (s0 & orec & Hg & H). apply getO_ok in Hg as [-> F].
  destruct (HK _ _ _ _ _ _ HR H) as (t' & Ht & HR'). exists t'. split; [|exact HR'].
  destruct HR as (R1 & _). unfold bind, getO. rewrite (R1 o'), F. destruct (Pos.eqb o' o); simpl; exact Ht.
Qed.

Lemma sim_updO_operands : forall o o' l, sim o (updO o' (set_o_operands l)).
Proof.
  intros o o' l s t s' a HR H. apply updO_ok in H as (x & F & ->). destruct a.
  pose proof HR as (R0 & _). unfold updO. rewrite (R0 o'), F.
  destruct (Pos.eqb_spec o' o) as [->|No]; simpl; (eexists; split; [reflexivity|]).
  - rm_split HR. intro i. rewrite !find_add. destruct (Pos.eqb_spec i o) as [->|Ni]; [reflexivity|].
    rewrite (R1 i). destruct (Pos.eqb_spec i o); [contradiction|reflexivity].
  - rm_split HR. intro i. rewrite !find_add. destruct (Pos.eqb_spec i o') as [->|Ni].
    + destruct (Pos.eqb_spec o' o); [contradiction|reflexivity].
    + apply R1.
Qed.

Ltac sim_step :=
  match goal with
  | |- sim _ (bind _ _) => apply sim_bind; [|intros ?]
  | |- sim _ (ret _) => apply sim_ret
  | |- sim _ (raise _) => apply sim_raise
  | |- sim _ get_fuel => apply sim_get_fuel
  | |- sim _ (getV _) => apply sim_getV
  | |- sim _ (getB _) => apply sim_getB
  | |- sim _ (getU _) => apply sim_getU
  | |- sim _ (updV _ _) => apply sim_updV
  | |- sim _ (updB _ _) => apply sim_updB
  | |- sim _ (updU _ _) => apply sim_updU
  | |- sim _ (allocV _) => apply sim_allocV
  | |- sim _ (assert_ _) => apply sim_assert
  | |- sim _ (forM _ _) => apply sim_forM; intros ?
  | |- sim _ (index_or_raise _ _) => apply sim_index_or_raise
  | |- sim _ (if _ then _ else _) => apply sim_if
  | |- sim _ (match ?x with Some _ => _ | None => _ end) => destruct x
  | |- sim _ (match ?x with HV _ => _ | HB _ => _ end) => destruct x
  end.
Ltac sim_auto := repeat sim_step.

Lemma sim_get_first_use : forall o h, sim o (get_first_use h).
Proof. intros o h. unfold get_first_use. sim_auto. Qed.
Lemma sim_set_first_use : forall o h u, sim o (set_first_use h u).
Proof. intros o h u. unfold set_first_use. sim_auto. Qed.
Lemma sim_remove_use : forall o h u, sim o (remove_use h u).
Proof. intros o h u. unfold remove_use. sim_auto; apply sim_set_first_use. Qed.
Lemma sim_add_use : forall o h u, sim o (add_use h u).
Proof. intros o h u. unfold add_use. sim_auto; try apply sim_get_first_use; apply sim_set_first_use. Qed.

Definition setitem_K (o : oid) (idx : Z) (operand : vid) (operands : list vid) (operand_uses : list uid) : M unit :=
  let idx := norm_index (zlen operands) idx in
  if negb ((0 <=? idx) && (idx <? zlen operands)) then raise IndexError else
  old <- index_or_raise operands idx ;;
  u <- index_or_raise operand_uses idx ;;
  remove_use (HV old) u ;;;
  add_use (HV operand) u ;;;
  updO o (set_o_operands (py_slice_to operands idx ++ operand :: py_slice_from operands (idx + 1))).

Lemma operands_setitem_K : forall o idx v,
  operands_setitem o idx v = (orec <- getO o ;; setitem_K o idx v (o_operands orec) (o_operand_uses orec)).
Proof. reflexivity. Qed.

Lemma sim_operands_setitem : forall o o' idx v, sim o (operands_setitem o' idx v).
Proof.
  intros o o' idx v. rewrite operands_setitem_K. apply sim_getO_K. intros a b. unfold setitem_K.
  cbv zeta. sim_auto; first [apply sim_remove_use|apply sim_add_use|apply sim_updO_operands].
Qed.

Lemma sim_uses_from : forall o fl cur, sim o (uses_from fl cur).
Proof.
  intros o fl. induction fl as [|f IH]; intro cur; simpl; [apply sim_raise|].
  destruct cur as [u|]; [|apply sim_ret]. sim_auto. apply IH.
Qed.

Lemma sim_rauw : forall o self value, sim o (replace_all_uses_with self value).
Proof.
  intros o self value. unfold replace_all_uses_with, uses_of. sim_auto;
    first [apply sim_get_first_use|apply sim_uses_from|apply sim_operands_setitem].
Qed.

Lemma sim_value_erase : forall o self safe, sim o (value_erase self safe).
Proof.
  intros o self safe. unfold value_erase. sim_auto; first [apply sim_get_first_use|apply sim_rauw].
Qed.

(* ------------------------------------------------------------------ WF reads the tables through find only *)

Lemma agree_ext : forall {R P} (p : R -> P) (t t' : PM.t R), (forall i, PM.find i t' = PM.find i t) -> agree p t t'.
Proof. intros R P p t t' E i. rewrite E. reflexivity. Qed.
Lemma dom_eq_ext : forall {R} (t t' : PM.t R), (forall i, PM.find i t' = PM.find i t) -> dom_eq t t'.
Proof. intros R t t' E i. rewrite E. tauto. Qed.

Lemma WF_ops_ext : forall s t,
  (forall i, PM.find i (s_ops t) = PM.find i (s_ops s)) ->
  s_blocks t = s_blocks s -> s_regions t = s_regions s -> s_values t = s_values s -> s_uses t = s_uses s ->
  n_op t = n_op s -> n_block t = n_block s -> n_region t = n_region s -> n_value t = n_value s -> n_use t = n_use s ->
  WF s -> WF t.
Proof.
  intros s t Eo Eb Er Ev Eu N1 N2 N3 N4 N5 W.
  assert (Ab : forall i, PM.find i (s_blocks t) = PM.find i (s_blocks s)) by (intro; rewrite Eb; reflexivity).
  assert (Ar : forall i, PM.find i (s_regions t) = PM.find i (s_regions s)) by (intro; rewrite Er; reflexivity).
  assert (Av : forall i, PM.find i (s_values t) = PM.find i (s_values s)) by (intro; rewrite Ev; reflexivity).
  assert (Au : forall i, PM.find i (s_uses t) = PM.find i (s_uses s)) by (intro; rewrite Eu; reflexivity).
  apply (WF_groups s t W).
  - split; apply agree_ext; assumption.
  - split; apply agree_ext; assumption.
  - split; apply agree_ext; assumption.
  - split; [|split]; apply agree_ext; assumption.
  - unfold same_A. split; [apply dom_eq_ext; assumption|]. split; [apply dom_eq_ext; assumption|].
    split; [apply dom_eq_ext; assumption|]. split; [apply dom_eq_ext; assumption|].
    split; [apply dom_eq_ext; assumption|]. repeat split; assumption.
  - apply (UWF_same s t (WF_UWF s W)). split; [|split; [|split]]; apply agree_ext; assumption.
Qed.

(* ------------------------------------------------------------------ marking values dead *)

Lemma kill_value_WF : forall s s' v r, WF s -> updV v (set_v_dead true) s = (s', Ok r) -> WF s'.
Proof.
  intros s s' v r W H.
  assert (T1 : same_T1 s s') by (eapply updV_same_T1; exact H).
  assert (T2 : same_T2 s s') by (eapply updV_same_T2; exact H).
  assert (T3 : same_T3 s s') by (eapply updV_same_T3; exact H).
  assert (SU : same_U s s') by (eapply updV_same_U; [|exact H]; intro; reflexivity).
  assert (SA : same_A s s') by (eapply updV_same_A; exact H).
  pose proof (UWF_same s s' (WF_UWF s W) SU) as (U1 & U2 & U3 & U4 & U5).
  apply updV_ok in H as (x0 & F0 & ->).
  assert (FK : forall v' vr, PM.find v' (s_values s) = Some vr ->
            exists vr', PM.find v' (PM.add v (set_v_dead true x0) (s_values s)) = Some vr' /\ v_kind vr' = v_kind vr).
  { intros v' vr F. rewrite find_add. destruct (Pos.eqb_spec v' v) as [->|]; [|eauto].
    rewrite F0 in F. injection F as <-. eexists. split; reflexivity. }
  destruct W. constructor; try assumption;
    try (eapply WF_block_same; solve [eauto]); try (eapply WF_region_same; solve [eauto]);
    try (eapply WF_opregs_same; solve [eauto]); try (eapply WF_detached_same; solve [eauto]);
    try (eapply WF_alloc_same; solve [eauto]).
  - intros o x F E i w N. destruct (wf_results o x F E i w N) as (vr & Fv & K).
    destruct (FK _ _ Fv) as (vr' & Fv' & K'). exists vr'. split; [exact Fv'|congruence].
  - intros b x F E i w N. destruct (wf_args b x F E i w N) as (vr & Fv & K).
    destruct (FK _ _ Fv) as (vr' & Fv' & K'). exists vr'. split; [exact Fv'|congruence].
  - intros w vr F D. simpl in F. rewrite find_add in F. destruct (Pos.eqb_spec w v) as [->|].
    + injection F as <-. discriminate.
    + exact (wf_owner w vr F D).
Qed.

Lemma kill_values_WF : forall l s s' r, WF s -> forM (map GValue l) kill1 s = (s', Ok r) -> WF s'.
Proof.
  induction l as [|v rest IH]; intros s s' r W H; simpl in H.
  - apply ret_ok in H as [-> _]. exact W.
  - apply bind_ok in H as (s1 & ? & H1 & H2). eapply IH; [|exact H2]. eapply kill_value_WF; eauto.
Qed.

Lemma value_erase_loop_WF : forall l s s' safe r,
  WF s -> forM l (fun v => value_erase v safe) s = (s', Ok r) -> WF s'.
Proof.
  induction l as [|v rest IH]; intros s s' safe r W H; simpl in H.
  - apply ret_ok in H as [-> _]. exact W.
  - apply bind_ok in H as (s1 & ? & H1 & H2). eapply IH; [|exact H2]. eapply value_erase_WF; eauto.
Qed.

(* ------------------------------------------------------------------ Operation.erase, no regions *)

Lemma collect_op_S : forall f s o, collect_op (S f) s o =
  match PM.find o (s_ops s) with
  | None => []
  | Some x => GOp o :: map GValue (o_results x) ++ flat_map (collect_region f s) (o_regions x)
  end.
Proof. reflexivity. Qed.

Lemma fuel_pos : forall s, exists f, fuel_of s = S f.
Proof. intro s. destruct (fuel_of s) as [|f] eqn:E; [unfold fuel_of in E; lia|eauto]. Qed.

Theorem op_erase_noregions_WF : forall s s' o x safe r,
  WF s -> PM.find o (s_ops s) = Some x -> o_erased x = false -> o_regions x = [] ->
  op_erase o safe true s = (s', Ok r) -> WF s'.
Proof.
  intros s s' o x safe r W Fx Ex Rx H. unfold op_erase in H.
  apply bind_ok in H as (s0 & orec & Hg & H). apply getO_ok in Hg as [-> Fo]. rewrite Fx in Fo. injection Fo as <-.
  apply bind_ok in H as (s0 & ? & Ha & H). apply assert_ok in Ha as [-> Pa].
  apply negb_true_iff in Pa. apply is_some_false in Pa.
  apply bind_ok in H as (s0 & dead & Hd & H). apply gets_ok in Hd as [-> ->].
  apply bind_ok in H as (s0 & fl & Hf & H). unfold get_fuel in Hf. apply gets_ok in Hf as [-> ->].
  destruct (fuel_pos s) as (f & Ef). rewrite Ef in H. rewrite collect_op_S, Fx, Rx in H. simpl flat_map in H.
  rewrite app_nil_r in H.
  apply bind_ok in H as (s2 & ? & Hdrop & H). simpl in Hdrop.
  destruct (drop_noregions s s2 o x f _ W Fx Ex Pa Rx Hdrop) as ((x2 & F2) & OTH & NU & UA2).
  pose proof (mid_WF s s2 o x x2 W Fx Ex F2 OTH NU UA2) as W2.
  assert (HR2 : Rm o s2 (markO o x2 s2)).
  { unfold Rm, markO. simpl. split; [|repeat split].
    intro i. rewrite find_add. destruct (Pos.eqb_spec i o) as [->|]; [rewrite F2|]; reflexivity. }
  apply bind_ok in H as (s0 & orec' & Hg & H). apply getO_ok in Hg as [-> Fo'].
  apply bind_ok in H as (s3 & ? & Hve & Hk).
  destruct (sim_forM o (o_results orec') (fun v => value_erase v safe) (fun v => sim_value_erase o v safe)
              _ _ _ _ HR2 Hve) as (t3 & Hve' & HR3).
  pose proof (value_erase_loop_WF _ _ _ _ _ W2 Hve') as W3.
  unfold kill in Hk. simpl in Hk.
  apply bind_ok in Hk as (s4 & ? & Hk1 & Hk2). apply updO_ok in Hk1 as (xk & F3 & ->).
  eapply kill_values_WF; [|exact Hk2].
  destruct HR3 as (R1 & R2 & R3 & R4 & R5 & R6 & R7 & R8 & R9 & R10).
  apply (WF_ops_ext t3); simpl; try (symmetry; assumption); [|exact W3].
  intro i. rewrite (R1 i), find_add. destruct (Pos.eqb_spec i o) as [->|]; [rewrite F3|]; reflexivity.
Qed.

(* the same statement in the `op_live` shape used by ProofsHistory.args_live *)
Corollary op_erase_noregions_live_WF : forall s s' o safe r,
  WF s -> op_live s o -> (forall x, PM.find o (s_ops s) = Some x -> o_regions x = []) ->
  op_erase o safe true s = (s', Ok r) -> WF s'.
Proof.
  intros s s' o safe r W (x & F & E) NR H. eapply op_erase_noregions_WF; eauto.
Qed.

(* ------------------------------------------------------------------ Block.erase_op / Rewriter.erase_op *)

Lemma detach_op_ret : forall b o s s' r, detach_op b o s = (s', Ok r) -> r = o.
Proof.
  intros b o s s' r H. unfold detach_op in H.
  apply bind_ok in H as (s0 & orec & _ & H).
  destruct (negb (opt_eqb (o_parent orec) (Some b))); [exfalso; eapply raise_ok; eauto|].
  apply bind_ok in H as (s1 & ? & _ & H).
  apply bind_ok in H as (s2 & ? & _ & H).
  apply bind_ok in H as (s3 & ? & _ & H).
  apply ret_ok in H as [_ ->]. reflexivity.
Qed.

Theorem erase_op_noregions_WF : forall s s' b o x safe r,
  WF s -> blk_live s b -> PM.find o (s_ops s) = Some x -> o_erased x = false -> o_regions x = [] ->
  erase_op b o safe s = (s', Ok r) -> WF s'.
Proof.
  intros s s' b o x safe r W BL Fx Ex Rx H. unfold erase_op in H.
  apply bind_ok in H as (s1 & o' & Hd & He).
  pose proof (detach_op_ret _ _ _ _ _ Hd) as ->.
  assert (OL : op_live s o) by (exists x; auto).
  pose proof (detach_op_WF _ _ _ _ _ W BL OL Hd) as W1.
  destruct (detach_op_T3 b o s s1 _ Hd) as [Ao _].
  destruct (agree_find_rev _ _ _ _ _ Ao Fx) as (x1 & F1 & P). unfold pT3_op in P. injection P as P1 P2.
  eapply (op_erase_noregions_WF s1 s' o x1); eauto; congruence.
Qed.

Corollary erase_op_noregions_live_WF : forall s s' b o safe r,
  WF s -> blk_live s b -> op_live s o -> (forall x, PM.find o (s_ops s) = Some x -> o_regions x = []) ->
  erase_op b o safe s = (s', Ok r) -> WF s'.
Proof.
  intros s s' b o safe r W BL (x & F & E) NR H. eapply erase_op_noregions_WF; eauto.
Qed.

Theorem rw_erase_op_noregions_WF : forall s s' o x safe r,
  WF s -> PM.find o (s_ops s) = Some x -> o_erased x = false -> o_regions x = [] ->
  (forall b, o_parent x = Some b -> blk_live s b) ->
  rw_erase_op o safe s = (s', Ok r) -> WF s'.
Proof.
  intros s s' o x safe r W Fx Ex Rx BL H. unfold rw_erase_op in H.
  apply bind_ok in H as (s0 & orec & Hg & H). apply getO_ok in Hg as [-> Fo]. rewrite Fx in Fo. injection Fo as <-.
  destruct (o_parent x) as [b|] eqn:P.
  - eapply erase_op_noregions_WF; eauto.
  - eapply op_erase_noregions_WF; eauto.
Qed.

Corollary rw_erase_op_noregions_live_WF : forall s s' o safe r,
  WF s -> op_live s o ->
  (forall x, PM.find o (s_ops s) = Some x -> o_regions x = []) ->
  (forall x b, PM.find o (s_ops s) = Some x -> o_parent x = Some b -> blk_live s b) ->
  rw_erase_op o safe s = (s', Ok r) -> WF s'.
Proof.
  intros s s' o safe r W (x & F & E) NR BL H. eapply rw_erase_op_noregions_WF; eauto.
Qed.

(* ================================================================== Step C: operations WITH regions

   The whole tree below the op is walked by drop_all_references (mutual recursion over ops / regions /
   blocks).  `collect_op` (the ghost list of everything that `kill` marks) has exactly the recursion
   structure of the walk, so the walk is analysed by induction on the common fuel:
     - `Inv s X st`: the state st after the nodes X (a prefix of the collected list) have been dropped,
       described table by table relative to the initial state s, with the use-list invariant
       `Uabs st (real_slot s minus the slots of the ops in X)`;
     - `walk`: each of the five mutually recursive functions extends X by its collected list, provided
       the collected list has no duplicates (the tree below the op is a tree) and its ops are live;
     - `closure`: the collected list is closed under `parent` (WF + liveness), hence the fields that the
       walk clears belong to nodes that no live container outside the list refers to;
     - `fin_WF`: the walked state with everything collected marked erased/dead is WF;
     - `simT`: the remaining value_erase calls commute with the marks; `kill_spec`: `kill` sets the marks;
     - `collect_op_NoDup`: no duplicates, from WF + liveness + `parent = None` at the root (depth argument). *)
(* ------------------------------------------------------------------ membership in gnode lists *)

Definition gnode_eqb (a b : gnode) : bool :=
  match a, b with
  | GOp x, GOp y | GBlock x, GBlock y | GRegion x, GRegion y | GValue x, GValue y => Pos.eqb x y
  | _, _ => false
  end.
Lemma gnode_eqb_spec : forall a b, reflect (a = b) (gnode_eqb a b).
Proof.
  intros [x|x|x|x] [y|y|y|y]; simpl; try (constructor; discriminate);
    destruct (Pos.eqb_spec x y); constructor; congruence.
Qed.
Fixpoint gmem (g : gnode) (l : list gnode) : bool :=
  match l with [] => false | y :: r => gnode_eqb g y || gmem g r end.
Lemma gmem_In : forall g l, gmem g l = true <-> In g l.
Proof.
  intros g l. induction l as [|y r IH]; simpl; [split; [discriminate|tauto]|].
  rewrite orb_true_iff, IH. destruct (gnode_eqb_spec g y) as [E|N]; split; intros [H|H]; auto;
    first [discriminate|congruence].
Qed.
Lemma gmem_false : forall g l, gmem g l = false <-> ~ In g l.
Proof.
  intros g l. rewrite <- gmem_In. destruct (gmem g l); split; intro H;
    first [congruence|reflexivity|exfalso; apply H; reflexivity].
Qed.
Lemma gmem_app : forall g l1 l2, gmem g (l1 ++ l2) = gmem g l1 || gmem g l2.
Proof. intros g l1 l2. induction l1 as [|y r IH]; simpl; [reflexivity|]. rewrite IH, orb_assoc. reflexivity. Qed.

Definition isnode (g : gnode) : bool := match g with GValue _ => false | _ => true end.
Lemma gmem_values : forall g l, isnode g = true -> gmem g (map GValue l) = false.
Proof. intros g l N. induction l as [|v r IH]; simpl; [reflexivity|]. rewrite IH. destruct g; try discriminate; reflexivity. Qed.

(* ------------------------------------------------------------------ unfolding *)

Lemma region_drop_S : forall f r, region_drop_all_references (S f) r =
  (updR r (set_r_parent None) ;;; rr <- getR r ;; blocks_drop_from f (r_first rr)).
Proof. reflexivity. Qed.
Lemma blocks_drop_S : forall f cur, blocks_drop_from (S f) cur =
  match cur with
  | None => ret tt
  | Some b => br <- getB b ;; let nxt := b_next br in block_drop_all_references f b ;;; blocks_drop_from f nxt
  end.
Proof. reflexivity. Qed.
Lemma block_drop_S : forall f b, block_drop_all_references (S f) b =
  (updB b (set_b_parent None) ;;; updB b (set_b_next None) ;;; updB b (set_b_prev None) ;;;
   br <- getB b ;; ops_drop_from f (b_first_op br)).
Proof. reflexivity. Qed.
Lemma ops_drop_S : forall f cur, ops_drop_from (S f) cur =
  match cur with
  | None => ret tt
  | Some o => orec <- getO o ;; let nxt := o_next orec in op_drop_all_references f o ;;; ops_drop_from f nxt
  end.
Proof. reflexivity. Qed.

Lemma collect_region_S : forall f s r, collect_region (S f) s r =
  match PM.find r (s_regions s) with None => [] | Some x => GRegion r :: collect_blocks_from f s (r_first x) end.
Proof. reflexivity. Qed.
Lemma collect_blocks_S : forall f s cur, collect_blocks_from (S f) s cur =
  match cur with
  | None => []
  | Some b => match PM.find b (s_blocks s) with
              | None => []
              | Some x => collect_block f s b ++ collect_blocks_from f s (b_next x)
              end
  end.
Proof. reflexivity. Qed.
Lemma collect_block_S : forall f s b, collect_block (S f) s b =
  match PM.find b (s_blocks s) with
  | None => []
  | Some x => GBlock b :: map GValue (b_args x) ++ collect_ops_from f s (b_first_op x)
  end.
Proof. reflexivity. Qed.
Lemma collect_ops_S : forall f s cur, collect_ops_from (S f) s cur =
  match cur with
  | None => []
  | Some o => match PM.find o (s_ops s) with
              | None => []
              | Some x => collect_op f s o ++ collect_ops_from f s (o_next x)
              end
  end.
Proof. reflexivity. Qed.

(* ------------------------------------------------------------------ frame of the use-list programs *)

Definition nofu (x : block_rec) : block_rec := set_b_first_use None x.

Definition useonly (s s' : state) : Prop :=
  s_ops s' = s_ops s /\ s_regions s' = s_regions s /\
  agree nofu (s_blocks s) (s_blocks s') /\ agree pI_val (s_values s) (s_values s') /\ same_A s s'.

Lemma fr_useonly : frame_rel useonly.
Proof.
  split.
  - intro s. unfold useonly. repeat (split; [first [reflexivity|apply agree_refl]|]). apply fr_A.
  - intros s1 s2 s3 (A1 & A2 & A3 & A4 & A5) (B1 & B2 & B3 & B4 & B5). unfold useonly.
    split; [congruence|]. split; [congruence|]. split; [eapply agree_trans; eauto|].
    split; [eapply agree_trans; eauto|]. eapply (fr_trans _ fr_A); eauto.
Qed.

Lemma updU_useonly : forall u f, preserves useonly (updU u f).
Proof.
  intros u f s s' r H. pose proof (updU_same_A u f s s' r H) as SA.
  unfold updU in H. destruct (PM.find u (s_uses s)); injection H as <- _; [|apply fr_useonly].
  unfold useonly. simpl. repeat (split; [first [reflexivity|apply agree_refl]|]). exact SA.
Qed.
Lemma updV_fu_useonly : forall v u, preserves useonly (updV v (set_v_first_use u)).
Proof.
  intros v u s s' r H. pose proof (updV_same_A _ _ s s' r H) as SA.
  unfold updV in H. destruct (PM.find v (s_values s)) eqn:F; injection H as <- _; [|apply fr_useonly].
  unfold useonly. simpl. split; [reflexivity|]. split; [reflexivity|]. split; [apply agree_refl|].
  split; [|exact SA]. eapply agree_add; eauto.
Qed.
Lemma updB_fu_useonly : forall b u, preserves useonly (updB b (set_b_first_use u)).
Proof.
  intros b u s s' r H. pose proof (updB_same_A _ _ s s' r H) as SA.
  unfold updB in H. destruct (PM.find b (s_blocks s)) eqn:F; injection H as <- _; [|apply fr_useonly].
  unfold useonly. simpl. split; [reflexivity|]. split; [reflexivity|]. split; [|split; [apply agree_refl|exact SA]].
  eapply agree_add; eauto.
Qed.
#[export] Hint Resolve updU_useonly updV_fu_useonly updB_fu_useonly fr_useonly : pres.

Lemma set_first_use_useonly : forall h u, preserves useonly (set_first_use h u).
Proof. intros h u. unfold set_first_use. destruct h; auto with pres. Qed.
#[export] Hint Resolve set_first_use_useonly : pres.
Lemma remove_use_useonly : forall h u, preserves useonly (remove_use h u).
Proof. intros. unfold remove_use. pres fr_useonly. Qed.
Lemma remove_loop_useonly : forall (mk : positive -> holder) (pairs : list (positive * uid)),
  preserves useonly (forM pairs (fun p => remove_use (mk (fst p)) (snd p))).
Proof. intros. apply (pres_forM _ fr_useonly). intro a. apply remove_use_useonly. Qed.

(* ------------------------------------------------------------------ the state during the tree walk *)

Definition drop_op (x : op_rec) : op_rec :=
  mkOp (o_operands x) [] (o_results x) [] [] (o_regions x) None (o_next x) (o_prev x) (o_erased x).
Definition drop_blk (x : block_rec) : block_rec :=
  mkBlock (b_args x) (b_first_op x) (b_last_op x) None None None (b_first_use x) (b_erased x).
Definition drop_reg (x : region_rec) : region_rec := set_r_parent None x.

Definition minus_ops (S : slotrel) (X : list gnode) : slotrel :=
  fun h o i u => S h o i u /\ gmem (GOp o) X = false.

Record Tab (s : state) (X : list gnode) (st : state) : Prop := {
  tb_ops : forall i, PM.find i (s_ops st) =
     if gmem (GOp i) X then option_map drop_op (PM.find i (s_ops s)) else PM.find i (s_ops s);
  tb_regs : forall i, PM.find i (s_regions st) =
     if gmem (GRegion i) X then option_map drop_reg (PM.find i (s_regions s)) else PM.find i (s_regions s);
  tb_blks : forall i, option_map nofu (PM.find i (s_blocks st)) =
     if gmem (GBlock i) X then option_map (fun x => nofu (drop_blk x)) (PM.find i (s_blocks s))
     else option_map nofu (PM.find i (s_blocks s));
  tb_vals : agree pI_val (s_values s) (s_values st);
  tb_A : same_A s st }.

Definition Inv (s : state) (X : list gnode) (st : state) : Prop :=
  Tab s X st /\ Uabs st (minus_ops (real_slot s) X).

(* everything but the op table *)
Definition opsfree (s s' : state) : Prop :=
  s_regions s' = s_regions s /\ agree nofu (s_blocks s) (s_blocks s') /\
  agree pI_val (s_values s) (s_values s') /\ same_A s s'.
Lemma opsfree_refl : forall s, opsfree s s.
Proof. intro s. split; [reflexivity|]. split; [apply agree_refl|]. split; [apply agree_refl|apply fr_A]. Qed.
Lemma opsfree_trans : forall s1 s2 s3, opsfree s1 s2 -> opsfree s2 s3 -> opsfree s1 s3.
Proof.
  intros s1 s2 s3 (A2 & A3 & A4 & A5) (B2 & B3 & B4 & B5). split; [congruence|].
  split; [eapply agree_trans; eauto|]. split; [eapply agree_trans; eauto|eapply (fr_trans _ fr_A); eauto].
Qed.
Lemma useonly_opsfree : forall s s', useonly s s' -> opsfree s s'.
Proof. intros s s' (_ & A2 & A3 & A4 & A5). split; [exact A2|]. split; [exact A3|]. split; assumption. Qed.
Lemma updO_opsfree : forall o f s s' r, updO o f s = (s', r) -> opsfree s s'.
Proof.
  intros o f s s' r H. pose proof (updO_same_A o f s s' r H) as SA.
  unfold updO in H. destruct (PM.find o (s_ops s)); injection H as <- _; [|apply opsfree_refl].
  split; [reflexivity|]. split; [apply agree_refl|]. split; [apply agree_refl|exact SA].
Qed.

Lemma Tab_opsfree : forall s X st st', Tab s X st -> opsfree st st' ->
  (forall i, PM.find i (s_ops st') = PM.find i (s_ops st)) -> Tab s X st'.
Proof.
  intros s X st st' [T1 T2 T3 T4 T5] (A2 & A3 & A4 & A5) EO. constructor.
  - intro i. rewrite EO. apply T1.
  - intro i. rewrite A2. apply T2.
  - intro i. rewrite (A3 i). apply T3.
  - eapply agree_trans; eauto.
  - eapply (fr_trans _ fr_A); eauto.
Qed.

Lemma Tab_ext : forall s X X' st, (forall g, isnode g = true -> gmem g X' = gmem g X) -> Tab s X st -> Tab s X' st.
Proof.
  intros s X X' st E [T1 T2 T3 T4 T5]. constructor; try assumption.
  - intro i. rewrite (E (GOp i) eq_refl). apply T1.
  - intro i. rewrite (E (GRegion i) eq_refl). apply T2.
  - intro i. rewrite (E (GBlock i) eq_refl). apply T3.
Qed.

Lemma Uabs_slots : forall s S S', (forall h o i u, S' h o i u <-> S h o i u) -> Uabs s S -> Uabs s S'.
Proof. intros s S S' E UA. eapply Uabs_ext; [| |exact E|exact UA]; intros; reflexivity. Qed.

Lemma Inv_ext : forall s X X' st, (forall g, isnode g = true -> gmem g X' = gmem g X) -> Inv s X st -> Inv s X' st.
Proof.
  intros s X X' st E [T U]. split; [eapply Tab_ext; eauto|].
  eapply Uabs_slots; [|exact U]. intros h o i u. unfold minus_ops. rewrite (E (GOp o) eq_refl). tauto.
Qed.

Lemma Inv_values : forall s X l st, Inv s X st -> Inv s (X ++ map GValue l) st.
Proof.
  intros s X l st I. eapply Inv_ext; [|exact I]. intros g N. rewrite gmem_app, (gmem_values g l N), orb_false_r. reflexivity.
Qed.

(* ------------------------------------------------------------------ the own part of a region *)

Lemma reg_own : forall s X st st' r u S,
  Tab s X st -> gmem (GRegion r) X = false -> updR r (set_r_parent None) st = (st', Ok u) ->
  Tab s (X ++ [GRegion r]) st' /\ (Uabs st S -> Uabs st' S) /\
  exists x, PM.find r (s_regions s) = Some x /\ PM.find r (s_regions st') = Some (drop_reg x).
Proof.
  intros s X st st' r u S [T1 T2 T3 T4 T5] NX H.
  pose proof (updR_same_A _ _ _ _ _ H) as SA.
  apply updR_ok in H as (x & F & ->). rewrite T2, NX in F.
  split; [|split].
  - constructor; simpl.
    + intro i. rewrite gmem_app. simpl. rewrite orb_false_r. apply T1.
    + intro i. rewrite find_add, gmem_app. simpl. rewrite orb_false_r.
      destruct (Pos.eqb_spec i r) as [->|N].
      * rewrite orb_true_r, F. reflexivity.
      * rewrite orb_false_r. apply T2.
    + intro i. rewrite gmem_app. simpl. rewrite orb_false_r. apply T3.
    + exact T4.
    + eapply (fr_trans _ fr_A); eauto.
  - intro UA. eapply Uabs_irrel; [| | |exact UA]; reflexivity.
  - exists x. split; [exact F|]. simpl. rewrite find_add_same. reflexivity.
Qed.

(* ------------------------------------------------------------------ the own part of a block *)

Lemma nofu_inj_fields : forall x y, nofu x = nofu y ->
  b_args x = b_args y /\ b_first_op x = b_first_op y /\ b_last_op x = b_last_op y /\ b_next x = b_next y /\
  b_prev x = b_prev y /\ b_parent x = b_parent y /\ b_erased x = b_erased y.
Proof. intros x y H. unfold nofu, set_b_first_use in H. injection H. intros. repeat split; assumption. Qed.

Lemma Some_inj : forall {A} (a b : A), Some a = Some b -> a = b.
Proof. intros A a b H. injection H as H. exact H. Qed.

Lemma blk_own : forall s X st s1 s2 s3 b u1 u2 u3 S,
  Tab s X st -> gmem (GBlock b) X = false ->
  updB b (set_b_parent None) st = (s1, Ok u1) -> updB b (set_b_next None) s1 = (s2, Ok u2) ->
  updB b (set_b_prev None) s2 = (s3, Ok u3) ->
  Tab s (X ++ [GBlock b]) s3 /\ (Uabs st S -> Uabs s3 S) /\
  exists x x3, PM.find b (s_blocks s) = Some x /\ PM.find b (s_blocks s3) = Some x3 /\ b_first_op x3 = b_first_op x.
Proof.
  intros s X st s1 s2 s3 b u1 u2 u3 S [T1 T2 T3 T4 T5] NX H1 H2 H3.
  assert (SA : same_A st s3).
  { eapply (fr_trans _ fr_A); [eapply updB_same_A; exact H1|].
    eapply (fr_trans _ fr_A); [eapply updB_same_A; exact H2|eapply updB_same_A; exact H3]. }
  apply updB_ok in H1 as (x0 & F0 & ->). apply updB_ok in H2 as (x1 & F1 & ->). apply updB_ok in H3 as (x2 & F2 & ->).
  simpl in F1. rewrite find_add_same in F1. injection F1 as <-.
  simpl in F2. rewrite find_add_same in F2. injection F2 as <-.
  pose proof (T3 b) as Tb. rewrite NX, F0 in Tb.
  destruct (PM.find b (s_blocks s)) as [x|] eqn:Fx; [|discriminate].
  apply (Some_inj (nofu x0) (nofu x)) in Tb.
  destruct (nofu_inj_fields _ _ Tb) as (E1 & E2 & E3 & E4 & E5 & E6 & E7).
  assert (FB : forall i, PM.find i (PM.add b (set_b_prev None (set_b_next None (set_b_parent None x0)))
                 (PM.add b (set_b_next None (set_b_parent None x0)) (PM.add b (set_b_parent None x0) (s_blocks st)))) =
               if Pos.eqb i b then Some (set_b_prev None (set_b_next None (set_b_parent None x0))) else PM.find i (s_blocks st)).
  { intro i. rewrite !find_add. destruct (Pos.eqb i b); reflexivity. }
  split; [|split].
  - constructor; simpl.
    + intro i. rewrite gmem_app. simpl. rewrite orb_false_r. apply T1.
    + intro i. rewrite gmem_app. simpl. rewrite orb_false_r. apply T2.
    + intro i. rewrite FB, gmem_app. simpl. rewrite orb_false_r.
      destruct (Pos.eqb_spec i b) as [->|N].
      * rewrite orb_true_r, Fx. simpl. f_equal. unfold nofu, drop_blk, set_b_first_use. simpl.
        rewrite E1, E2, E3, E7. reflexivity.
      * rewrite orb_false_r. apply T3.
    + exact T4.
    + eapply (fr_trans _ fr_A); eauto.
  - intro UA. eapply Uabs_ext; [| | |exact UA].
    + intro y. reflexivity.
    + intros [v|b']; simpl; [reflexivity|]. unfold link. rewrite FB.
      destruct (Pos.eqb_spec b' b) as [->|]; [rewrite F0|]; reflexivity.
    + intros; tauto.
  - exists x. eexists. split; [reflexivity|]. simpl. rewrite find_add_same. split; [reflexivity|]. simpl. exact E2.
Qed.

Lemma map_snd_zip_len : forall {A B} (l : list A) (l' : list B), length l = length l' -> map snd (zip l l') = l'.
Proof.
  intros A B l. induction l as [|a t IH]; intros [|b t'] L; simpl in *; try discriminate; try reflexivity.
  f_equal. apply IH. lia.
Qed.

Lemma op_own_run : forall s X st sa sb sc sd se sf o x u1 u2 u3 u4 u5 u6,
  Uabs s (real_slot s) -> lens_ok s -> WF_disjoint s ->
  PM.find o (s_ops s) = Some x -> o_erased x = false ->
  Inv s X st -> gmem (GOp o) X = false ->
  updO o (set_o_parent None) st = (sa, Ok u1) ->
  forM (zip (o_operands x) (o_operand_uses x)) (fun p => remove_use (HV (fst p)) (snd p)) sa = (sb, Ok u2) ->
  updO o (set_o_operand_uses []) sb = (sc, Ok u3) ->
  forM (zip (o_successors x) (o_successor_uses x)) (fun p => remove_use (HB (fst p)) (snd p)) sc = (sd, Ok u4) ->
  updO o (set_o_successor_uses []) sd = (se, Ok u5) ->
  updO o (set_o_successors []) se = (sf, Ok u6) ->
  Inv s (X ++ [GOp o]) sf.
Proof.
  intros s X st sa sb sc sd se sf o x u1 u2 u3 u4 u5 u6 UA LN WD Fx Ex [T U] NX Ha Hl1 Hc Hl2 He Hf.
  destruct (LN o x Fx Ex) as [Len1 Len2].
  assert (F0 : PM.find o (s_ops st) = Some x) by (rewrite (tb_ops _ _ _ T), NX; exact Fx).
  (* frame *)
  pose proof (updO_opsfree _ _ _ _ _ Ha) as Q1.
  pose proof (remove_loop_useonly HV _ _ _ _ Hl1) as Q2.
  pose proof (updO_opsfree _ _ _ _ _ Hc) as Q3.
  pose proof (remove_loop_useonly HB _ _ _ _ Hl2) as Q4.
  pose proof (updO_opsfree _ _ _ _ _ He) as Q5.
  pose proof (updO_opsfree _ _ _ _ _ Hf) as Q6.
  assert (QF : opsfree st sf).
  { eapply opsfree_trans; [exact Q1|]. eapply opsfree_trans; [apply useonly_opsfree; exact Q2|].
    eapply opsfree_trans; [exact Q3|]. eapply opsfree_trans; [apply useonly_opsfree; exact Q4|].
    eapply opsfree_trans; [exact Q5|exact Q6]. }
  (* the op table *)
  apply updO_ok in Ha as (xa & Fa & Ea). rewrite F0 in Fa. injection Fa as <-.
  assert (Oa : s_ops sa = PM.add o (set_o_parent None x) (s_ops st)) by (rewrite Ea; reflexivity).
  assert (Ob : s_ops sb = s_ops sa) by (apply Q2).
  apply updO_ok in Hc as (xc & Fc & Ec). rewrite Ob, Oa, find_add_same in Fc. injection Fc as <-.
  assert (Oc : s_ops sc = PM.add o (set_o_operand_uses [] (set_o_parent None x)) (s_ops sb)) by (rewrite Ec; reflexivity).
  assert (Od : s_ops sd = s_ops sc) by (apply Q4).
  apply updO_ok in He as (xe & Fe & Ee). rewrite Od, Oc, find_add_same in Fe. injection Fe as <-.
  assert (Oe : s_ops se = PM.add o (set_o_successor_uses [] (set_o_operand_uses [] (set_o_parent None x))) (s_ops sd))
    by (rewrite Ee; reflexivity).
  apply updO_ok in Hf as (xf & Ff & Ef). rewrite Oe, find_add_same in Ff. injection Ff as <-.
  assert (FO : forall i, PM.find i (s_ops sf) = if Pos.eqb i o then Some (drop_op x) else PM.find i (s_ops st)).
  { intro i. rewrite Ef. simpl. rewrite Oe, Od, Oc, Ob, Oa, !find_add. destruct (Pos.eqb i o); reflexivity. }
  split.
  - (* tables *)
    destruct T as [T1 T2 T3 T4 T5]. destruct QF as (A2 & A3 & A4 & A5). constructor.
    + intro i. rewrite FO, gmem_app. simpl. rewrite orb_false_r.
      destruct (Pos.eqb_spec i o) as [->|N].
      * rewrite orb_true_r, Fx. reflexivity.
      * rewrite orb_false_r. apply T1.
    + intro i. rewrite A2, gmem_app. simpl. rewrite orb_false_r. apply T2.
    + intro i. rewrite (A3 i), gmem_app. simpl. rewrite orb_false_r. apply T3.
    + eapply agree_trans; eauto.
    + eapply (fr_trans _ fr_A); eauto.
  - (* use lists *)
    set (S0 := minus_ops (real_slot s) X) in *.
    assert (UAa : Uabs sa S0) by (eapply Uabs_irrel; [| | |exact U]; rewrite Ea; reflexivity).
    assert (INV1 : forall k v u, nth_error (zip (o_operands x) (o_operand_uses x)) k = Some (v, u) ->
                     S0 (HV v) o (0 + Z.of_nat k) u).
    { intros k v u N. apply nth_error_zip in N. destruct N as [N1' N2']. split; [|exact NX].
      exists x. simpl. rewrite !znth_of_nat. auto. }
    destruct (remove_loop_g HV _ _ sb S0 o 0 _ UAa INV1 Hl1) as (UAb & _ & _).
    assert (UAb' : Uabs sb (minus_uses S0 (o_operand_uses x))).
    { rewrite <- (map_snd_zip_len (o_operands x) (o_operand_uses x) Len1). exact UAb. }
    assert (UAc : Uabs sc (minus_uses S0 (o_operand_uses x))).
    { eapply Uabs_irrel; [| | |exact UAb']; rewrite Ec; reflexivity. }
    assert (INV2 : forall k b u, nth_error (zip (o_successors x) (o_successor_uses x)) k = Some (b, u) ->
                     minus_uses S0 (o_operand_uses x) (HB b) o (0 + Z.of_nat k) u).
    { intros k b u N. apply nth_error_zip in N. destruct N as [N1' N2']. split.
      - split; [|exact NX]. exists x. simpl. rewrite !znth_of_nat. auto.
      - intro I. eapply (WD o x Fx Ex u I). eapply nth_error_In; eauto. }
    destruct (remove_loop_g HB _ _ sd _ o 0 _ UAc INV2 Hl2) as (UAd & _ & _).
    assert (UAd' : Uabs sd (minus_uses (minus_uses S0 (o_operand_uses x)) (o_successor_uses x))).
    { rewrite <- (map_snd_zip_len (o_successors x) (o_successor_uses x) Len2). exact UAd. }
    assert (UAf : Uabs sf (minus_uses (minus_uses S0 (o_operand_uses x)) (o_successor_uses x))).
    { eapply Uabs_irrel; [| | |exact UAd']; rewrite Ef, Ee; reflexivity. }
    eapply Uabs_slots; [|exact UAf]. intros h o' i u. unfold S0, minus_ops, minus_uses. rewrite gmem_app. simpl.
    rewrite orb_false_r. split.
    + intros [R G]. apply orb_false_iff in G. destruct G as [G1 G2].
      assert (No : o' <> o) by (intro E; subst; rewrite Pos.eqb_refl in G2; discriminate).
      assert (NI : ~ (In u (o_operand_uses x) \/ In u (o_successor_uses x))).
      { intro I. destruct (slot_of_uses s o x u LN Fx Ex I) as (h2 & i2 & R2).
        destruct (ua_slot _ _ UA _ _ _ _ R) as [I1 _]. destruct (ua_slot _ _ UA _ _ _ _ R2) as [I2 _].
        rewrite I1 in I2. injection I2 as E _. contradiction. }
      split; [split; [split; assumption|]|]; intro I; apply NI; auto.
    + intros [[[R G1] N1] N2]. split; [exact R|]. rewrite G1. simpl.
      destruct (Pos.eqb_spec o' o) as [->|]; [|reflexivity]. exfalso.
      destruct R as (x' & F' & E' & Z1 & Z2). rewrite Fx in F'. injection F' as <-. apply znth_In in Z2.
      destruct h; simpl in Z2; contradiction.
Qed.

Definition ops_live (s : state) (L : list gnode) : Prop := forall i, In (GOp i) L -> op_live s i.

Lemma ops_live_app : forall s A B, ops_live s (A ++ B) -> ops_live s A /\ ops_live s B.
Proof. intros s A B H. split; intros i I; apply H; apply in_or_app; auto. Qed.

Lemma nodup_head_notin : forall (X : list gnode) g R post, NoDup (X ++ (g :: R) ++ post) -> gmem g X = false.
Proof.
  intros X g R post ND. apply gmem_false. intro I. destruct (NoDup_app_inv _ _ ND) as (_ & _ & D).
  apply (D g I). left. reflexivity.
Qed.

Section Walk.
  Variable s : state.
  Hypothesis UA : Uabs s (real_slot s).
  Hypothesis LN : lens_ok s.
  Hypothesis WD : WF_disjoint s.

  Definition W_op (f : nat) : Prop := forall o X post st st' r,
    NoDup (X ++ collect_op f s o ++ post) -> Inv s X st -> ops_live s (collect_op f s o) ->
    op_drop_all_references f o st = (st', Ok r) -> Inv s (X ++ collect_op f s o) st'.
  Definition W_region (f : nat) : Prop := forall x X post st st' r,
    NoDup (X ++ collect_region f s x ++ post) -> Inv s X st -> ops_live s (collect_region f s x) ->
    region_drop_all_references f x st = (st', Ok r) -> Inv s (X ++ collect_region f s x) st'.
  Definition W_blocks (f : nat) : Prop := forall cur X post st st' r,
    NoDup (X ++ collect_blocks_from f s cur ++ post) -> Inv s X st -> ops_live s (collect_blocks_from f s cur) ->
    blocks_drop_from f cur st = (st', Ok r) -> Inv s (X ++ collect_blocks_from f s cur) st'.
  Definition W_block (f : nat) : Prop := forall b X post st st' r,
    NoDup (X ++ collect_block f s b ++ post) -> Inv s X st -> ops_live s (collect_block f s b) ->
    block_drop_all_references f b st = (st', Ok r) -> Inv s (X ++ collect_block f s b) st'.
  Definition W_ops (f : nat) : Prop := forall cur X post st st' r,
    NoDup (X ++ collect_ops_from f s cur ++ post) -> Inv s X st -> ops_live s (collect_ops_from f s cur) ->
    ops_drop_from f cur st = (st', Ok r) -> Inv s (X ++ collect_ops_from f s cur) st'.

  Lemma regions_loop : forall f, W_region f -> forall rs X post st st' r,
    NoDup (X ++ flat_map (collect_region f s) rs ++ post) -> Inv s X st ->
    ops_live s (flat_map (collect_region f s) rs) ->
    forM rs (fun x => region_drop_all_references f x) st = (st', Ok r) ->
    Inv s (X ++ flat_map (collect_region f s) rs) st'.
  Proof.
    intros f WR. induction rs as [|x rest IH]; intros X post st st' r ND I OL H; simpl in H.
    - apply ret_ok in H as [-> _]. simpl. rewrite app_nil_r. exact I.
    - apply bind_ok in H as (s1 & [] & H1 & H2). simpl in *.
      apply ops_live_app in OL. destruct OL as [OL1 OL2].
      rewrite <- app_assoc in ND.
      pose proof (WR x X _ st s1 _ ND I OL1 H1) as I1.
      rewrite app_assoc in ND.
      pose proof (IH _ post s1 st' r ND I1 OL2 H2) as I2. rewrite <- app_assoc in I2. exact I2.
  Qed.

  Lemma find_op_back : forall X st i y, Tab s X st -> PM.find i (s_ops st) = Some y ->
    exists x, PM.find i (s_ops s) = Some x.
  Proof.
    intros X st i y T F. rewrite (tb_ops _ _ _ T) in F.
    destruct (PM.find i (s_ops s)) as [x|]; [eauto|]. destruct (gmem (GOp i) X); discriminate.
  Qed.
  Lemma find_reg_back : forall X st i y, Tab s X st -> PM.find i (s_regions st) = Some y ->
    exists x, PM.find i (s_regions s) = Some x.
  Proof.
    intros X st i y T F. rewrite (tb_regs _ _ _ T) in F.
    destruct (PM.find i (s_regions s)) as [x|]; [eauto|]. destruct (gmem (GRegion i) X); discriminate.
  Qed.
  Lemma find_blk_back : forall X st i y, Tab s X st -> PM.find i (s_blocks st) = Some y ->
    exists x, PM.find i (s_blocks s) = Some x.
  Proof.
    intros X st i y T F. pose proof (tb_blks _ _ _ T i) as Q. rewrite F in Q.
    destruct (PM.find i (s_blocks s)) as [x|]; [eauto|]. destruct (gmem (GBlock i) X); discriminate.
  Qed.

  Lemma walk_op_step : forall f, W_region f -> W_op (S f).
  Proof.
    intros f WR o X post st st' r ND [T U] OL H.
    rewrite op_drop_S in H.
    apply bind_ok in H as (sa & [] & Ha & H).
    assert (exists x, PM.find o (s_ops s) = Some x) as (x & Fx).
    { apply updO_ok in Ha as (y & Fy & _). eapply find_op_back; eauto. }
    rewrite collect_op_S, Fx in *.
    pose proof (nodup_head_notin _ _ _ _ ND) as NX.
    destruct (OL o (or_introl eq_refl)) as (x' & Fx' & Ex). rewrite Fx in Fx'. injection Fx' as <-.
    assert (F0 : PM.find o (s_ops st) = Some x) by (rewrite (tb_ops _ _ _ T), NX; exact Fx).
    apply bind_ok in H as (sa' & orec & Hg & H). apply getO_ok in Hg as [-> Fo].
    assert (orec = set_o_parent None x).
    { apply updO_ok in Ha as (y & Fy & ->). rewrite F0 in Fy. injection Fy as <-.
      simpl in Fo. rewrite find_add_same in Fo. congruence. }
    subst orec. simpl in H.
    apply bind_ok in H as (sb & [] & Hl1 & H).
    apply bind_ok in H as (sc & [] & Hc & H).
    apply bind_ok in H as (sd & [] & Hl2 & H).
    apply bind_ok in H as (se & [] & He & H).
    apply bind_ok in H as (sf & [] & Hf & H).
    pose proof (op_own_run s X st sa sb sc sd se sf o x _ _ _ _ _ _ UA LN WD Fx Ex (conj T U) NX Ha Hl1 Hc Hl2 He Hf) as I1.
    apply (Inv_values _ _ (o_results x)) in I1.
    assert (EQ : forall (F post' : list gnode),
              X ++ (GOp o :: map GValue (o_results x) ++ F) ++ post' =
              ((X ++ [GOp o]) ++ map GValue (o_results x)) ++ F ++ post').
    { intros F post'. rewrite <- !app_assoc. simpl. rewrite <- !app_assoc. reflexivity. }
    rewrite EQ in ND.
    assert (OL2 : ops_live s (flat_map (collect_region f s) (o_regions x))).
    { intros i Ii. apply OL. right. apply in_or_app. right. exact Ii. }
    pose proof (regions_loop f WR _ _ _ _ _ _ ND I1 OL2 H) as I2.
    pose proof (EQ (flat_map (collect_region f s) (o_regions x)) []) as EQ2. rewrite !app_nil_r in EQ2.
    rewrite EQ2. exact I2.
  Qed.

  Lemma walk_region_step : forall f, W_blocks f -> W_region (S f).
  Proof.
    intros f WB x X post st st' r ND [T U] OL H.
    rewrite region_drop_S in H.
    apply bind_ok in H as (s1 & [] & H1 & H).
    assert (exists xr, PM.find x (s_regions s) = Some xr) as (xr & Fx).
    { pose proof H1 as H1'. apply updR_ok in H1' as (y & Fy & _). eapply find_reg_back; eauto. }
    rewrite collect_region_S, Fx in *.
    pose proof (nodup_head_notin _ _ _ _ ND) as NX.
    destruct (reg_own s X st s1 x _ (minus_ops (real_slot s) X) T NX H1) as (T1 & U1 & xr' & Fx' & F1).
    rewrite Fx in Fx'. injection Fx' as <-.
    apply bind_ok in H as (s1' & rr & Hg & H). apply getR_ok in Hg as [-> Fr]. rewrite F1 in Fr. injection Fr as <-.
    simpl in H.
    assert (I1 : Inv s (X ++ [GRegion x]) s1).
    { split; [exact T1|]. eapply Uabs_slots; [|exact (U1 U)]. intros h o i u. unfold minus_ops.
      rewrite gmem_app. simpl. rewrite orb_false_r. tauto. }
    assert (EQ : forall (F post' : list gnode), X ++ (GRegion x :: F) ++ post' = (X ++ [GRegion x]) ++ F ++ post').
    { intros F post'. rewrite <- !app_assoc. reflexivity. }
    rewrite EQ in ND.
    assert (OL2 : ops_live s (collect_blocks_from f s (r_first xr))).
    { intros i Ii. apply OL. right. exact Ii. }
    pose proof (WB _ _ _ _ _ _ ND I1 OL2 H) as I2.
    pose proof (EQ (collect_blocks_from f s (r_first xr)) []) as EQ2. rewrite !app_nil_r in EQ2.
    rewrite EQ2. exact I2.
  Qed.

  Lemma walk_block_step : forall f, W_ops f -> W_block (S f).
  Proof.
    intros f WO b X post st st' r ND [T U] OL H.
    rewrite block_drop_S in H.
    apply bind_ok in H as (s1 & [] & H1 & H).
    apply bind_ok in H as (s2 & [] & H2 & H).
    apply bind_ok in H as (s3 & [] & H3 & H).
    assert (exists xb, PM.find b (s_blocks s) = Some xb) as (xb & Fx).
    { pose proof H1 as H1'. apply updB_ok in H1' as (y & Fy & _). eapply find_blk_back; eauto. }
    rewrite collect_block_S, Fx in *.
    pose proof (nodup_head_notin _ _ _ _ ND) as NX.
    destruct (blk_own s X st s1 s2 s3 b _ _ _ (minus_ops (real_slot s) X) T NX H1 H2 H3)
      as (T1 & U1 & xb' & x3 & Fx' & F3 & E3).
    rewrite Fx in Fx'. injection Fx' as <-.
    apply bind_ok in H as (s3' & br & Hg & H). apply getB_ok in Hg as [-> Fb]. rewrite F3 in Fb. injection Fb as <-.
    rewrite E3 in H.
    assert (I1 : Inv s (X ++ [GBlock b]) s3).
    { split; [exact T1|]. eapply Uabs_slots; [|exact (U1 U)]. intros h o i u. unfold minus_ops.
      rewrite gmem_app. simpl. rewrite orb_false_r. tauto. }
    apply (Inv_values _ _ (b_args xb)) in I1.
    assert (EQ : forall (F post' : list gnode),
              X ++ (GBlock b :: map GValue (b_args xb) ++ F) ++ post' =
              ((X ++ [GBlock b]) ++ map GValue (b_args xb)) ++ F ++ post').
    { intros F post'. rewrite <- !app_assoc. simpl. rewrite <- !app_assoc. reflexivity. }
    rewrite EQ in ND.
    assert (OL2 : ops_live s (collect_ops_from f s (b_first_op xb))).
    { intros i Ii. apply OL. right. apply in_or_app. right. exact Ii. }
    pose proof (WO _ _ _ _ _ _ ND I1 OL2 H) as I2.
    pose proof (EQ (collect_ops_from f s (b_first_op xb)) []) as EQ2. rewrite !app_nil_r in EQ2.
    rewrite EQ2. exact I2.
  Qed.

  Lemma walk_blocks_step : forall f, W_block f -> W_blocks f -> W_blocks (S f).
  Proof.
    intros f WB WBS cur X post st st' r ND [T U] OL H.
    rewrite blocks_drop_S in H. destruct cur as [b|].
    - apply bind_ok in H as (s0 & br & Hg & H). apply getB_ok in Hg as [-> Fb].
      destruct (find_blk_back _ _ _ _ T Fb) as (xb & Fx).
      rewrite collect_blocks_S, Fx in *. cbv zeta in H.
      apply bind_ok in H as (s1 & [] & H1 & H2).
      assert (NX : gmem (GBlock b) X = false).
      { destruct f as [|f']; [simpl in H1; exfalso; eapply raise_ok; eauto|].
        rewrite collect_block_S, Fx in ND. rewrite <- !app_assoc in ND. simpl in ND.
        exact (nodup_head_notin X (GBlock b) _ [] ltac:(rewrite app_nil_r; exact ND)). }
      assert (EN : b_next br = b_next xb).
      { pose proof (tb_blks _ _ _ T b) as Q. rewrite NX, Fb, Fx in Q. apply (Some_inj (nofu br) (nofu xb)) in Q.
        apply nofu_inj_fields in Q. tauto. }
      rewrite EN in H2.
      apply ops_live_app in OL. destruct OL as [OL1 OL2].
      rewrite <- app_assoc in ND.
      pose proof (WB b X _ st s1 _ ND (conj T U) OL1 H1) as I1.
      rewrite app_assoc in ND.
      pose proof (WBS _ _ post s1 st' r ND I1 OL2 H2) as I2. rewrite <- app_assoc in I2. exact I2.
    - apply ret_ok in H as [-> _]. rewrite collect_blocks_S. rewrite app_nil_r. split; assumption.
  Qed.

  Lemma walk_ops_step : forall f, W_op f -> W_ops f -> W_ops (S f).
  Proof.
    intros f WO WOS cur X post st st' r ND [T U] OL H.
    rewrite ops_drop_S in H. destruct cur as [o|].
    - apply bind_ok in H as (s0 & orec & Hg & H). apply getO_ok in Hg as [-> Fo].
      destruct (find_op_back _ _ _ _ T Fo) as (xo & Fx).
      rewrite collect_ops_S, Fx in *. cbv zeta in H.
      apply bind_ok in H as (s1 & [] & H1 & H2).
      assert (NX : gmem (GOp o) X = false).
      { destruct f as [|f']; [simpl in H1; exfalso; eapply raise_ok; eauto|].
        rewrite collect_op_S, Fx in ND. rewrite <- !app_assoc in ND. simpl in ND.
        exact (nodup_head_notin X (GOp o) _ [] ltac:(rewrite app_nil_r; exact ND)). }
      assert (EN : orec = xo).
      { rewrite (tb_ops _ _ _ T), NX, Fx in Fo. congruence. }
      subst orec.
      apply ops_live_app in OL. destruct OL as [OL1 OL2].
      rewrite <- app_assoc in ND.
      pose proof (WO o X _ st s1 _ ND (conj T U) OL1 H1) as I1.
      rewrite app_assoc in ND.
      pose proof (WOS _ _ post s1 st' r ND I1 OL2 H2) as I2. rewrite <- app_assoc in I2. exact I2.
    - apply ret_ok in H as [-> _]. rewrite collect_ops_S. rewrite app_nil_r. split; assumption.
  Qed.

  Lemma walk : forall f, W_op f /\ W_region f /\ W_blocks f /\ W_block f /\ W_ops f.
  Proof.
    induction f as [|f (I1 & I2 & I3 & I4 & I5)].
    - unfold W_op, W_region, W_blocks, W_block, W_ops.
      split; [|split; [|split; [|split]]]; intros ? ? ? ? ? ? ? ? ? HH; simpl in HH; exfalso; eapply raise_ok; eauto.
    - split; [apply walk_op_step; assumption|]. split; [apply walk_region_step; assumption|].
      split; [apply walk_blocks_step; assumption|]. split; [apply walk_block_step; assumption|].
      apply walk_ops_step; assumption.
  Qed.
End Walk.

(* ------------------------------------------------------------------ the collected sub-tree is closed under `parent` *)

Definition glive (s : state) (g : gnode) : Prop :=
  match g with
  | GOp i => op_live s i
  | GBlock b => blk_live s b
  | GRegion r => reg_live s r
  | GValue _ => True
  end.
Definition all_live (s : state) (L : list gnode) : Prop := forall g, In g L -> glive s g.

Lemma all_live_app : forall s A B, all_live s (A ++ B) -> all_live s A /\ all_live s B.
Proof. intros s A B H. split; intros g I; apply H; apply in_or_app; auto. Qed.

Definition par_in (s : state) (L : list gnode) (g : gnode) : Prop :=
  match g with
  | GOp i => exists x b, PM.find i (s_ops s) = Some x /\ o_parent x = Some b /\ In (GBlock b) L
  | GBlock b => exists x r, PM.find b (s_blocks s) = Some x /\ b_parent x = Some r /\ In (GRegion r) L
  | GRegion r => exists x o, PM.find r (s_regions s) = Some x /\ r_parent x = Some o /\ In (GOp o) L
  | GValue v => (exists o x, In (GOp o) L /\ PM.find o (s_ops s) = Some x /\ In v (o_results x)) \/
                (exists b x, In (GBlock b) L /\ PM.find b (s_blocks s) = Some x /\ In v (b_args x))
  end.

Lemma par_in_mono : forall s L L' g, (forall y, In y L -> In y L') -> par_in s L g -> par_in s L' g.
Proof.
  intros s L L' g HI P. destruct g as [i|b|r|v]; simpl in *.
  4:{ destruct P as [(o & x & M & F & Iv)|(b & x & M & F & Iv)]; [left; exists o, x|right; exists b, x]; auto. }
  - destruct P as (x & b & F & E & M). exists x, b. auto.
  - destruct P as (x & r & F & E & M). exists x, r. auto.
  - destruct P as (x & o & F & E & M). exists x, o. auto.
Qed.

Section Closure.
  Variable s : state.
  Hypothesis W : WF s.

  Definition C_op (f : nat) : Prop := forall o, all_live s (collect_op f s o) ->
    forall g, In g (collect_op f s o) -> g = GOp o \/ par_in s (collect_op f s o) g.
  Definition C_region (f : nat) : Prop := forall r, all_live s (collect_region f s r) ->
    forall g, In g (collect_region f s r) -> g = GRegion r \/ par_in s (collect_region f s r) g.
  Definition C_block (f : nat) : Prop := forall b, all_live s (collect_block f s b) ->
    forall g, In g (collect_block f s b) -> g = GBlock b \/ par_in s (collect_block f s b) g.
  Definition C_blocks (f : nat) : Prop := forall cur r l, chain (blk_next s) cur l ->
    (forall b, In b l -> exists x, PM.find b (s_blocks s) = Some x /\ b_parent x = Some r) ->
    all_live s (collect_blocks_from f s cur) ->
    forall g, In g (collect_blocks_from f s cur) ->
      (exists b x, g = GBlock b /\ PM.find b (s_blocks s) = Some x /\ b_parent x = Some r) \/
      par_in s (collect_blocks_from f s cur) g.
  Definition C_ops (f : nat) : Prop := forall cur b l, chain (op_next s) cur l ->
    (forall o, In o l -> exists x, PM.find o (s_ops s) = Some x /\ o_parent x = Some b) ->
    all_live s (collect_ops_from f s cur) ->
    forall g, In g (collect_ops_from f s cur) ->
      (exists o x, g = GOp o /\ PM.find o (s_ops s) = Some x /\ o_parent x = Some b) \/
      par_in s (collect_ops_from f s cur) g.

  Lemma closure_op_step : forall f, C_region f -> C_op (S f).
  Proof.
    intros f CR o AL g Ig. rewrite collect_op_S in *.
    destruct (PM.find o (s_ops s)) as [x|] eqn:Fx; [|destruct Ig].
    destruct (AL (GOp o) (or_introl eq_refl)) as (x' & Fx' & Ex). rewrite Fx in Fx'. injection Fx' as <-.
    destruct Ig as [<-|Ig]; [left; reflexivity|]. right.
    apply in_app_or in Ig. destruct Ig as [Ig|Ig].
    { apply in_map_iff in Ig. destruct Ig as (v & <- & Iv). simpl. left. exists o, x.
      split; [left; reflexivity|]. split; [exact Fx|exact Iv]. }
    apply in_flat_map in Ig. destruct Ig as (r & Ir & Ig).
    assert (SUB : forall y, In y (collect_region f s r) ->
              In y (GOp o :: map GValue (o_results x) ++ flat_map (collect_region f s) (o_regions x))).
    { intros y Iy. right. apply in_or_app. right. apply in_flat_map. eauto. }
    assert (AL2 : all_live s (collect_region f s r)) by (intros y Iy; apply AL; apply SUB; exact Iy).
    destruct (CR r AL2 g Ig) as [->|P]; [|eapply par_in_mono; eauto].
    destruct (wf_opregs s W o x Fx Ex) as (_ & M1 & _). destruct (M1 r Ir) as (rr & Fr & Pr).
    simpl. exists rr, o. split; [exact Fr|]. split; [exact Pr|]. left. reflexivity.
  Qed.

  Lemma closure_region_step : forall f, C_blocks f -> C_region (S f).
  Proof.
    intros f CB r AL g Ig. rewrite collect_region_S in *.
    destruct (PM.find r (s_regions s)) as [x|] eqn:Fx; [|destruct Ig].
    destruct (AL (GRegion r) (or_introl eq_refl)) as (x' & Fx' & Ex). rewrite Fx in Fx'. injection Fx' as <-.
    destruct Ig as [<-|Ig]; [left; reflexivity|]. right.
    destruct (wf_region s W r x Fx Ex) as (l & C1 & _ & _ & M1 & _).
    assert (AL2 : all_live s (collect_blocks_from f s (r_first x))) by (intros y Iy; apply AL; right; exact Iy).
    destruct (CB _ r l C1 M1 AL2 g Ig) as [(b & xb & -> & Fb & Pb)|P].
    - simpl. exists xb, r. split; [exact Fb|]. split; [exact Pb|]. left. reflexivity.
    - eapply par_in_mono; [|exact P]. intros y Iy. right. exact Iy.
  Qed.

  Lemma closure_block_step : forall f, C_ops f -> C_block (S f).
  Proof.
    intros f CO b AL g Ig. rewrite collect_block_S in *.
    destruct (PM.find b (s_blocks s)) as [x|] eqn:Fx; [|destruct Ig].
    destruct (AL (GBlock b) (or_introl eq_refl)) as (x' & Fx' & Ex). rewrite Fx in Fx'. injection Fx' as <-.
    destruct Ig as [<-|Ig]; [left; reflexivity|]. right.
    apply in_app_or in Ig. destruct Ig as [Ig|Ig].
    { apply in_map_iff in Ig. destruct Ig as (v & <- & Iv). simpl. right. exists b, x.
      split; [left; reflexivity|]. split; [exact Fx|exact Iv]. }
    destruct (wf_block s W b x Fx Ex) as (l & C1 & _ & _ & M1 & _).
    assert (SUB : forall y, In y (collect_ops_from f s (b_first_op x)) ->
              In y (GBlock b :: map GValue (b_args x) ++ collect_ops_from f s (b_first_op x))).
    { intros y Iy. right. apply in_or_app. right. exact Iy. }
    assert (AL2 : all_live s (collect_ops_from f s (b_first_op x))) by (intros y Iy; apply AL; apply SUB; exact Iy).
    destruct (CO _ b l C1 M1 AL2 g Ig) as [(o & xo & -> & Fo & Po)|P].
    - simpl. exists xo, b. split; [exact Fo|]. split; [exact Po|]. left. reflexivity.
    - eapply par_in_mono; [|exact P]. exact SUB.
  Qed.

  Lemma closure_blocks_step : forall f, C_block f -> C_blocks f -> C_blocks (S f).
  Proof.
    intros f CB CBS cur r l C M AL g Ig. rewrite collect_blocks_S in *.
    destruct cur as [b|]; [|destruct Ig].
    destruct (PM.find b (s_blocks s)) as [x|] eqn:Fx; [|destruct Ig].
    inversion C as [|? n l' Nb C']; subst.
    unfold blk_next, link in Nb. rewrite Fx in Nb. simpl in Nb. injection Nb as <-.
    apply all_live_app in AL. destruct AL as [AL1 AL2].
    apply in_app_or in Ig. destruct Ig as [Ig|Ig].
    - destruct (CB b AL1 g Ig) as [->|P].
      + left. destruct (M b (or_introl eq_refl)) as (x' & Fx' & Px). exists b, x'. auto.
      + right. eapply par_in_mono; [|exact P]. intros y Iy. apply in_or_app. left. exact Iy.
    - destruct (CBS _ r l' C' (fun b' I' => M b' (or_intror I')) AL2 g Ig) as [Q|P]; [left; exact Q|].
      right. eapply par_in_mono; [|exact P]. intros y Iy. apply in_or_app. right. exact Iy.
  Qed.

  Lemma closure_ops_step : forall f, C_op f -> C_ops f -> C_ops (S f).
  Proof.
    intros f CO COS cur b l C M AL g Ig. rewrite collect_ops_S in *.
    destruct cur as [o|]; [|destruct Ig].
    destruct (PM.find o (s_ops s)) as [x|] eqn:Fx; [|destruct Ig].
    inversion C as [|? n l' No C']; subst.
    unfold op_next, link in No. rewrite Fx in No. simpl in No. injection No as <-.
    apply all_live_app in AL. destruct AL as [AL1 AL2].
    apply in_app_or in Ig. destruct Ig as [Ig|Ig].
    - destruct (CO o AL1 g Ig) as [->|P].
      + left. destruct (M o (or_introl eq_refl)) as (x' & Fx' & Px). exists o, x'. auto.
      + right. eapply par_in_mono; [|exact P]. intros y Iy. apply in_or_app. left. exact Iy.
    - destruct (COS _ b l' C' (fun o' I' => M o' (or_intror I')) AL2 g Ig) as [Q|P]; [left; exact Q|].
      right. eapply par_in_mono; [|exact P]. intros y Iy. apply in_or_app. right. exact Iy.
  Qed.

  Lemma closure : forall f, C_op f /\ C_region f /\ C_blocks f /\ C_block f /\ C_ops f.
  Proof.
    induction f as [|f (I1 & I2 & I3 & I4 & I5)].
    - unfold C_op, C_region, C_blocks, C_block, C_ops.
      split; [|split; [|split; [|split]]]; simpl; intros; contradiction.
    - split; [apply closure_op_step; assumption|]. split; [apply closure_region_step; assumption|].
      split; [apply closure_blocks_step; assumption|]. split; [apply closure_block_step; assumption|].
      apply closure_ops_step; assumption.
  Qed.
End Closure.

(* ------------------------------------------------------------------ the effect of `kill` *)

Definition markT (T : list gnode) (s t : state) : Prop :=
  (forall i, PM.find i (s_ops t) =
     if gmem (GOp i) T then option_map (set_o_erased true) (PM.find i (s_ops s)) else PM.find i (s_ops s)) /\
  (forall i, PM.find i (s_blocks t) =
     if gmem (GBlock i) T then option_map (set_b_erased true) (PM.find i (s_blocks s)) else PM.find i (s_blocks s)) /\
  (forall i, PM.find i (s_regions t) =
     if gmem (GRegion i) T then option_map (set_r_erased true) (PM.find i (s_regions s)) else PM.find i (s_regions s)) /\
  (forall i, PM.find i (s_values t) =
     if gmem (GValue i) T then option_map (set_v_dead true) (PM.find i (s_values s)) else PM.find i (s_values s)) /\
  s_uses t = s_uses s /\
  n_op t = n_op s /\ n_block t = n_block s /\ n_region t = n_region s /\ n_value t = n_value s /\ n_use t = n_use s.

Lemma markT_nil : forall s, markT [] s s.
Proof. intro s. unfold markT. simpl. repeat split; reflexivity. Qed.

Lemma kill_spec : forall l s s' r, kill l s = (s', Ok r) -> markT l s s'.
Proof.
  unfold kill. induction l as [|g rest IH]; intros s s' r H; simpl in H.
  - apply ret_ok in H as [-> _]. apply markT_nil.
  - apply bind_ok in H as (s1 & [] & H1 & H2).
    destruct (IH _ _ _ H2) as (M1 & M2 & M3 & M4 & M5 & N1 & N2 & N3 & N4 & N5).
    destruct g as [o|b|x|v]; simpl in H1.
    + apply updO_ok in H1 as (y & F & ->). simpl in *. unfold markT.
      split; [|split; [exact M2|split; [exact M3|split; [exact M4|repeat split; assumption]]]].
      intro i. rewrite M1, find_add. simpl. destruct (Pos.eqb_spec i o) as [->|N]; simpl; [|reflexivity].
      rewrite F. destruct (gmem (GOp o) rest); reflexivity.
    + apply updB_ok in H1 as (y & F & ->). simpl in *. unfold markT.
      split; [exact M1|split; [|split; [exact M3|split; [exact M4|repeat split; assumption]]]].
      intro i. rewrite M2, find_add. simpl. destruct (Pos.eqb_spec i b) as [->|N]; simpl; [|reflexivity].
      rewrite F. destruct (gmem (GBlock b) rest); reflexivity.
    + apply updR_ok in H1 as (y & F & ->). simpl in *. unfold markT.
      split; [exact M1|split; [exact M2|split; [|split; [exact M4|repeat split; assumption]]]].
      intro i. rewrite M3, find_add. simpl. destruct (Pos.eqb_spec i x) as [->|N]; simpl; [|reflexivity].
      rewrite F. destruct (gmem (GRegion x) rest); reflexivity.
    + apply updV_ok in H1 as (y & F & ->). simpl in *. unfold markT.
      split; [exact M1|split; [exact M2|split; [exact M3|split; [|repeat split; assumption]]]].
      intro i. rewrite M4, find_add. simpl. destruct (Pos.eqb_spec i v) as [->|N]; simpl; [|reflexivity].
      rewrite F. destruct (gmem (GValue v) rest); reflexivity.
Qed.

(* ------------------------------------------------------------------ WF reads the tables through find only *)

Lemma WF_ext : forall s t,
  (forall i, PM.find i (s_ops t) = PM.find i (s_ops s)) ->
  (forall i, PM.find i (s_blocks t) = PM.find i (s_blocks s)) ->
  (forall i, PM.find i (s_regions t) = PM.find i (s_regions s)) ->
  (forall i, PM.find i (s_values t) = PM.find i (s_values s)) ->
  (forall i, PM.find i (s_uses t) = PM.find i (s_uses s)) ->
  n_op t = n_op s -> n_block t = n_block s -> n_region t = n_region s -> n_value t = n_value s -> n_use t = n_use s ->
  WF s -> WF t.
Proof.
  intros s t Ao Ab Ar Av Au N1 N2 N3 N4 N5 W.
  apply (WF_groups s t W).
  - split; apply agree_ext; assumption.
  - split; apply agree_ext; assumption.
  - split; apply agree_ext; assumption.
  - split; [|split]; apply agree_ext; assumption.
  - unfold same_A. split; [apply dom_eq_ext; assumption|]. split; [apply dom_eq_ext; assumption|].
    split; [apply dom_eq_ext; assumption|]. split; [apply dom_eq_ext; assumption|].
    split; [apply dom_eq_ext; assumption|]. repeat split; assumption.
  - apply (UWF_same s t (WF_UWF s W)). split; [|split; [|split]]; apply agree_ext; assumption.
Qed.

Lemma markT_fun : forall T s t t', markT T s t -> markT T s t' -> WF t -> WF t'.
Proof.
  intros T s t t' (M1 & M2 & M3 & M4 & M5 & N1 & N2 & N3 & N4 & N5) (M1' & M2' & M3' & M4' & M5' & N1' & N2' & N3' & N4' & N5').
  intro W. apply (WF_ext t t'); try exact W.
  - intro i. rewrite M1, M1'. reflexivity.
  - intro i. rewrite M2, M2'. reflexivity.
  - intro i. rewrite M3, M3'. reflexivity.
  - intro i. rewrite M4, M4'. reflexivity.
  - intro i. rewrite M5, M5'. reflexivity.
  - rewrite N1, N1'. reflexivity.
  - rewrite N2, N2'. reflexivity.
  - rewrite N3, N3'. reflexivity.
  - rewrite N4, N4'. reflexivity.
  - rewrite N5, N5'. reflexivity.
Qed.

(* ------------------------------------------------------------------ value_erase commutes with the marks *)

Definition MT (T : list gnode) (s t : state) : Prop :=
  markT T s t /\ forall v, gmem (GValue v) T = true -> (v < n_value s)%positive.

Definition simT (T : list gnode) {A} (m : M A) : Prop :=
  forall s t s' a, MT T s t -> m s = (s', Ok a) -> exists t', m t = (t', Ok a) /\ MT T s' t'.

Lemma simT_ret : forall T {A} (a : A), simT T (ret a).
Proof. intros T A a s t s' b HR H. apply ret_ok in H as [-> ->]. exists t. split; [reflexivity|exact HR]. Qed.
Lemma simT_raise : forall T {A} e, simT T (@raise A e).
Proof. intros T A e s t s' b HR H. exfalso. eapply raise_ok; eauto. Qed.
Lemma simT_bind : forall T {A B} (m : M A) (f : A -> M B), simT T m -> (forall a, simT T (f a)) -> simT T (bind m f).
Proof.
  intros T A B m f Hm Hf s t s' b HR H. apply bind_ok in H as (s1 & a & H1 & H2).
  destruct (Hm _ _ _ _ HR H1) as (t1 & G1 & HR1). destruct (Hf a _ _ _ _ HR1 H2) as (t' & G2 & HR2).
  exists t'. split; [|exact HR2]. unfold bind. rewrite G1. exact G2.
Qed.
Lemma simT_get_fuel : forall T, simT T get_fuel.
Proof.
  intros T s t s' b HR H. unfold get_fuel in *. apply gets_ok in H as [-> ->]. exists t. split; [|exact HR].
  destruct HR as [(_ & _ & _ & _ & _ & E1 & E2 & E3 & E4 & E5) _].
  unfold gets, fuel_of. rewrite E1, E2, E3, E4, E5. reflexivity.
Qed.
Lemma simT_assert : forall T c, simT T (assert_ c).
Proof. intros T c. unfold assert_. destruct c; [apply simT_ret|apply simT_raise]. Qed.
Lemma simT_if : forall T {A} (c : bool) (m1 m2 : M A), simT T m1 -> simT T m2 -> simT T (if c then m1 else m2).
Proof. intros T A c m1 m2 H1 H2. destruct c; assumption. Qed.
Lemma simT_forM : forall T {A} (l : list A) (f : A -> M unit), (forall a, simT T (f a)) -> simT T (forM l f).
Proof.
  intros T A l f Hf. induction l as [|x r IH]; simpl; [apply simT_ret|].
  apply simT_bind; [apply Hf|intros _; exact IH].
Qed.
Lemma simT_index_or_raise : forall T {A} (l : list A) i, simT T (index_or_raise l i).
Proof. intros T A l i. unfold index_or_raise. destruct (py_index l i); [apply simT_ret|apply simT_raise]. Qed.

Lemma simT_getU : forall T v, simT T (getU v).
Proof.
  intros T v s t s' a HR H. apply getU_ok in H as [-> F]. exists t. split; [|exact HR].
  destruct HR as [(_ & _ & _ & _ & E & _) _]. unfold getU. rewrite E, F. reflexivity.
Qed.
Lemma simT_updU : forall T v f, simT T (updU v f).
Proof.
  intros T v f s t s' a HR H. apply updU_ok in H as (x & F & ->). destruct a.
  destruct HR as [(M1 & M2 & M3 & M4 & M5 & N1 & N2 & N3 & N4 & N5) RV].
  unfold updU. rewrite M5, F. eexists. split; [reflexivity|].
  split; [|exact RV]. unfold markT. simpl.
  split; [exact M1|split; [exact M2|split; [exact M3|split; [exact M4|repeat split; assumption]]]].
Qed.

(* first_use of a value *)
Lemma simT_gfu : forall T v, simT T (get_first_use (HV v)).
Proof.
  intros T v s t s' a HR H. simpl in H. apply bind_ok in H as (s0 & x & Hg & H).
  apply getV_ok in Hg as [-> F]. apply ret_ok in H as [-> ->]. exists t. split; [|exact HR].
  destruct HR as [(_ & _ & _ & M4 & _) _]. simpl. unfold bind, getV. rewrite M4, F.
  destruct (gmem (GValue v) T); reflexivity.
Qed.
Lemma simT_sfu : forall T v u, simT T (set_first_use (HV v) u).
Proof.
  intros T v u s t s' a HR H. simpl in H. apply updV_ok in H as (x & F & ->). destruct a.
  destruct HR as [(M1 & M2 & M3 & M4 & M5 & N1 & N2 & N3 & N4 & N5) RV].
  simpl. unfold updV. rewrite M4, F.
  destruct (gmem (GValue v) T) eqn:G; simpl; (eexists; split; [reflexivity|]); (split; [|exact RV]);
    unfold markT; simpl; (split; [exact M1|split; [exact M2|split; [exact M3|split; [|repeat split; assumption]]]]);
    intro i; rewrite !find_add; (destruct (Pos.eqb_spec i v) as [->|Ni]; [rewrite G; reflexivity|apply M4]).
Qed.
Lemma simT_allocV : forall T rec, simT T (allocV rec).
Proof.
  intros T rec s t s' a HR H. unfold allocV in H. injection H as <- <-.
  destruct HR as [(M1 & M2 & M3 & M4 & M5 & N1 & N2 & N3 & N4 & N5) RV].
  unfold allocV. rewrite N4. eexists. split; [reflexivity|]. split.
  - unfold markT. simpl. split; [exact M1|split; [exact M2|split; [exact M3|split; [|repeat split; assumption]]]].
    intro i. rewrite !find_add. destruct (Pos.eqb_spec i (n_value s)) as [->|Ni]; [|apply M4].
    destruct (gmem (GValue (n_value s)) T) eqn:G; [|reflexivity]. apply RV in G. lia.
  - simpl. intros v G. apply RV in G. lia.
Qed.

Lemma simT_getO_K : forall T o' {A} (K : list vid -> list uid -> M A),
  (forall a b, simT T (K a b)) -> simT T (orec <- getO o' ;; K (o_operands orec) (o_operand_uses orec)).
Proof.
  intros T o' A K HK s t s' a HR H. apply bind_ok in H as (s0 & orec & Hg & H). apply getO_ok in Hg as [-> F].
  destruct (HK _ _ _ _ _ _ HR H) as (t' & Ht & HR'). exists t'. split; [|exact HR'].
  destruct HR as [(M1 & _) _]. unfold bind, getO. rewrite (M1 o'), F. destruct (gmem (GOp o') T); simpl; exact Ht.
Qed.
Lemma simT_updO_operands : forall T o' l, simT T (updO o' (set_o_operands l)).
Proof.
  intros T o' l s t s' a HR H. apply updO_ok in H as (x & F & ->). destruct a.
  destruct HR as [(M1 & M2 & M3 & M4 & M5 & N1 & N2 & N3 & N4 & N5) RV].
  unfold updO. rewrite (M1 o'), F.
  destruct (gmem (GOp o') T) eqn:G; simpl; (eexists; split; [reflexivity|]); (split; [|exact RV]);
    unfold markT; simpl; (split; [|split; [exact M2|split; [exact M3|split; [exact M4|repeat split; assumption]]]]);
    intro i; rewrite !find_add; (destruct (Pos.eqb_spec i o') as [->|Ni]; [rewrite G; reflexivity|apply M1]).
Qed.

Ltac simT_step :=
  match goal with
  | |- simT _ (bind _ _) => apply simT_bind; [|intros ?]
  | |- simT _ (ret _) => apply simT_ret
  | |- simT _ (raise _) => apply simT_raise
  | |- simT _ get_fuel => apply simT_get_fuel
  | |- simT _ (getU _) => apply simT_getU
  | |- simT _ (updU _ _) => apply simT_updU
  | |- simT _ (allocV _) => apply simT_allocV
  | |- simT _ (assert_ _) => apply simT_assert
  | |- simT _ (get_first_use (HV _)) => apply simT_gfu
  | |- simT _ (set_first_use (HV _) _) => apply simT_sfu
  | |- simT _ (forM _ _) => apply simT_forM; intros ?
  | |- simT _ (index_or_raise _ _) => apply simT_index_or_raise
  | |- simT _ (if _ then _ else _) => apply simT_if
  | |- simT _ (match ?x with Some _ => _ | None => _ end) => destruct x
  end.
Ltac simT_auto := repeat simT_step.

Lemma simT_remove_use : forall T v u, simT T (remove_use (HV v) u).
Proof. intros T v u. unfold remove_use. simT_auto. Qed.
Lemma simT_add_use : forall T v u, simT T (add_use (HV v) u).
Proof. intros T v u. unfold add_use. simT_auto. Qed.

Lemma simT_operands_setitem : forall T o' idx v, simT T (operands_setitem o' idx v).
Proof.
  intros T o' idx v. rewrite operands_setitem_K. apply simT_getO_K. intros a b. unfold setitem_K.
  cbv zeta. simT_auto; first [apply simT_remove_use|apply simT_add_use|apply simT_updO_operands].
Qed.

Lemma simT_uses_from : forall T fl cur, simT T (uses_from fl cur).
Proof.
  intros T fl. induction fl as [|f IH]; intro cur; simpl; [apply simT_raise|].
  destruct cur as [u|]; [|apply simT_ret]. simT_auto. apply IH.
Qed.

Lemma simT_rauw : forall T self value, simT T (replace_all_uses_with self value).
Proof.
  intros T self value. unfold replace_all_uses_with, uses_of. simT_auto;
    first [apply simT_uses_from|apply simT_operands_setitem].
Qed.

Lemma simT_value_erase : forall T self safe, simT T (value_erase self safe).
Proof. intros T self safe. unfold value_erase. simT_auto. apply simT_rauw. Qed.

(* ------------------------------------------------------------------ a state carrying the marks *)

Definition markS (T : list gnode) (s : state) : state :=
  mkState (PM.mapi (fun i x => if gmem (GOp i) T then set_o_erased true x else x) (s_ops s))
          (PM.mapi (fun i x => if gmem (GBlock i) T then set_b_erased true x else x) (s_blocks s))
          (PM.mapi (fun i x => if gmem (GRegion i) T then set_r_erased true x else x) (s_regions s))
          (PM.mapi (fun i x => if gmem (GValue i) T then set_v_dead true x else x) (s_values s))
          (s_uses s) (n_op s) (n_block s) (n_region s) (n_value s) (n_use s).

Lemma markS_markT : forall T s, markT T s (markS T s).
Proof.
  intros T s. unfold markT, markS. simpl.
  split; [|split; [|split; [|split; [|repeat split]]]]; intro i; rewrite PM.gmapi;
    match goal with |- context [gmem ?g T] => destruct (gmem g T) end;
    match goal with |- context [PM.find ?j ?m] => destruct (PM.find j m) end; reflexivity.
Qed.

(* ------------------------------------------------------------------ the marked state after the walk is WF *)

Lemma fin_WF : forall s s2 t o xo D,
  WF s -> PM.find o (s_ops s) = Some xo -> o_parent xo = None ->
  (forall g, In g D -> g = GOp o \/ par_in s D g) ->
  Inv s D s2 -> markT D s2 t -> WF t.
Proof.
  intros s s2 t o xo D W Fo Po CL [[T1 T2 T3 T4 T5] U] (M1 & M2 & M3 & M4 & M5 & N1 & N2 & N3 & N4 & N5).
  destruct (UWF_Uabs s (WF_UWF s W)) as [UA LN].
  (* tables of t *)
  assert (F_ops : forall i, PM.find i (s_ops t) =
            if gmem (GOp i) D then option_map (fun x => set_o_erased true (drop_op x)) (PM.find i (s_ops s))
            else PM.find i (s_ops s)).
  { intro i. rewrite M1, T1. destruct (gmem (GOp i) D); [|reflexivity]. destruct (PM.find i (s_ops s)); reflexivity. }
  assert (F_regs : forall i, PM.find i (s_regions t) =
            if gmem (GRegion i) D then option_map (fun x => set_r_erased true (drop_reg x)) (PM.find i (s_regions s))
            else PM.find i (s_regions s)).
  { intro i. rewrite M3, T2. destruct (gmem (GRegion i) D); [|reflexivity]. destruct (PM.find i (s_regions s)); reflexivity. }
  assert (F_blk_out : forall i y, gmem (GBlock i) D = false -> PM.find i (s_blocks t) = Some y ->
            exists xb, PM.find i (s_blocks s) = Some xb /\ nofu y = nofu xb).
  { intros i y G F. rewrite M2, G in F. pose proof (T3 i) as Q. rewrite G, F in Q.
    destruct (PM.find i (s_blocks s)) as [xb|]; [|discriminate]. exists xb. split; [reflexivity|].
    apply (Some_inj (nofu y) (nofu xb)). exact Q. }
  assert (F_blk_rev : forall i xb, gmem (GBlock i) D = false -> PM.find i (s_blocks s) = Some xb ->
            exists y, PM.find i (s_blocks t) = Some y /\ nofu y = nofu xb).
  { intros i xb G F. pose proof (T3 i) as Q. rewrite G, F in Q. rewrite M2, G.
    destruct (PM.find i (s_blocks s2)) as [y|]; [|discriminate]. exists y. split; [reflexivity|].
    apply (Some_inj (nofu y) (nofu xb)). exact Q. }
  assert (F_blk_in : forall i y, gmem (GBlock i) D = true -> PM.find i (s_blocks t) = Some y -> b_erased y = true).
  { intros i y G F. rewrite M2, G in F. destruct (PM.find i (s_blocks s2)); [|discriminate]. injection F as <-. reflexivity. }
  assert (F_blk_any : forall i xb, PM.find i (s_blocks s) = Some xb ->
            exists y, PM.find i (s_blocks t) = Some y /\ b_args y = b_args xb).
  { intros i xb F. pose proof (T3 i) as Q. rewrite F in Q. rewrite M2.
    destruct (PM.find i (s_blocks s2)) as [y|]; [|destruct (gmem (GBlock i) D); discriminate].
    assert (b_args y = b_args xb).
    { destruct (gmem (GBlock i) D); simpl in Q; injection Q; auto. }
    destruct (gmem (GBlock i) D); eexists; (split; [reflexivity|]); simpl; assumption. }
  assert (F_val : forall v vr, PM.find v (s_values s) = Some vr ->
            exists vr', PM.find v (s_values t) = Some vr' /\ v_kind vr' = v_kind vr).
  { intros v vr F. destruct (agree_find_rev _ _ _ _ _ T4 F) as (vr2 & F2 & P). unfold pI_val in P. injection P as P1 P2.
    rewrite M4, F2. destruct (gmem (GValue v) D); eexists; (split; [reflexivity|]); simpl; assumption. }
  assert (F_val_rev : forall v vr', PM.find v (s_values t) = Some vr' -> v_dead vr' = false ->
            exists vr, PM.find v (s_values s) = Some vr /\ v_kind vr = v_kind vr' /\ v_dead vr = false).
  { intros v vr' F Dd. rewrite M4 in F.
    destruct (gmem (GValue v) D).
    - destruct (PM.find v (s_values s2)); [|discriminate]. injection F as <-. discriminate.
    - destruct (agree_find _ _ _ _ _ T4 F) as (vr & Fv & P). unfold pI_val in P. injection P as P1 P2.
      exists vr. split; [exact Fv|]. split; congruence. }
  (* members of the sub-tree *)
  assert (IN : forall g, gmem g D = true -> g = GOp o \/ par_in s D g).
  { intros g G. apply CL. apply gmem_In. exact G. }
  assert (OUT_op : forall o' x' b, PM.find o' (s_ops s) = Some x' -> o_parent x' = Some b ->
            gmem (GBlock b) D = false -> gmem (GOp o') D = false).
  { intros o' x' b F P G. destruct (gmem (GOp o') D) eqn:G'; [|reflexivity]. exfalso.
    destruct (IN _ G') as [E|(x'' & b' & F' & P' & I')].
    - injection E as ->. rewrite Fo in F. injection F as <-. congruence.
    - rewrite F in F'. injection F' as <-. rewrite P in P'. injection P' as <-.
      apply gmem_In in I'. congruence. }
  assert (OUT_blk : forall b' x' r, PM.find b' (s_blocks s) = Some x' -> b_parent x' = Some r ->
            gmem (GRegion r) D = false -> gmem (GBlock b') D = false).
  { intros b' x' r F P G. destruct (gmem (GBlock b') D) eqn:G'; [|reflexivity]. exfalso.
    destruct (IN _ G') as [E|(x'' & r' & F' & P' & I')]; [discriminate|].
    rewrite F in F'. injection F' as <-. rewrite P in P'. injection P' as <-.
    apply gmem_In in I'. congruence. }
  assert (OUT_reg : forall r x' o', PM.find r (s_regions s) = Some x' -> r_parent x' = Some o' ->
            gmem (GOp o') D = false -> gmem (GRegion r) D = false).
  { intros r x' o' F P G. destruct (gmem (GRegion r) D) eqn:G'; [|reflexivity]. exfalso.
    destruct (IN _ G') as [E|(x'' & o'' & F' & P' & I')]; [discriminate|].
    rewrite F in F'. injection F' as <-. rewrite P in P'. injection P' as <-.
    apply gmem_In in I'. congruence. }
  assert (LIVE_op : forall o' x', PM.find o' (s_ops t) = Some x' -> o_erased x' = false ->
            gmem (GOp o') D = false /\ PM.find o' (s_ops s) = Some x').
  { intros o' x' F E. rewrite F_ops in F. destruct (gmem (GOp o') D); [|auto].
    destruct (PM.find o' (s_ops s)); [|discriminate]. injection F as <-. discriminate. }
  assert (LIVE_reg : forall r x', PM.find r (s_regions t) = Some x' -> r_erased x' = false ->
            gmem (GRegion r) D = false /\ PM.find r (s_regions s) = Some x').
  { intros r x' F E. rewrite F_regs in F. destruct (gmem (GRegion r) D); [|auto].
    destruct (PM.find r (s_regions s)); [|discriminate]. injection F as <-. discriminate. }
  assert (LIVE_blk : forall b y, PM.find b (s_blocks t) = Some y -> b_erased y = false ->
            gmem (GBlock b) D = false /\ exists xb, PM.find b (s_blocks s) = Some xb /\ nofu y = nofu xb).
  { intros b y F E. destruct (gmem (GBlock b) D) eqn:G.
    - rewrite (F_blk_in b y G F) in E. discriminate.
    - split; [reflexivity|]. eapply F_blk_out; eauto. }
  assert (NXT : forall i, op_next t i = op_next s i).
  { intro i. unfold op_next, link. rewrite F_ops. destruct (gmem (GOp i) D); [|reflexivity].
    destruct (PM.find i (s_ops s)); reflexivity. }
  assert (PRV : forall i, op_prev t i = op_prev s i).
  { intro i. unfold op_prev, link. rewrite F_ops. destruct (gmem (GOp i) D); [|reflexivity].
    destruct (PM.find i (s_ops s)); reflexivity. }
  (* use lists *)
  assert (UW : UWF t).
  { apply Uabs_UWF.
    - eapply Uabs_ext; [| | |exact U].
      + intro u. rewrite M5. reflexivity.
      + intros [v|b]; simpl; unfold link.
        * rewrite M4. destruct (gmem (GValue v) D); [|reflexivity]. destruct (PM.find v (s_values s2)); reflexivity.
        * rewrite M2. destruct (gmem (GBlock b) D); [|reflexivity]. destruct (PM.find b (s_blocks s2)); reflexivity.
      + intros h o' i u. unfold minus_ops. split.
        * intros (x' & F' & E' & Z1 & Z2). destruct (LIVE_op o' x' F' E') as [G Fs]. split; [|exact G]. exists x'. auto.
        * intros [(x' & F' & E' & Z1 & Z2) G]. exists x'. rewrite F_ops, G. auto.
    - intros o' x' F' E'. destruct (LIVE_op o' x' F' E') as [G Fs]. exact (LN o' x' Fs E'). }
  destruct UW as (U1 & U2 & U3 & U4 & U5).
  constructor; try assumption.
  - (* WF_block *)
    intros b y Fb Eb. destruct (LIVE_blk b y Fb Eb) as (G & xb & Fxb & Q).
    destruct (nofu_inj_fields _ _ Q) as (E1 & E2 & E3 & E4 & E5 & E6 & E7).
    destruct (wf_block s W b xb Fxb ltac:(congruence)) as (l & C1 & C2 & ND & Mm1 & Mm2).
    exists l. rewrite E2, E3.
    split; [eapply chain_ext; [|exact C1]; intros; apply NXT|].
    split; [eapply chain_ext; [|exact C2]; intros; apply PRV|]. split; [exact ND|]. split.
    + intros o' Io. destruct (Mm1 o' Io) as (x' & Fx' & Px'). exists x'. split; [|exact Px'].
      rewrite F_ops, (OUT_op o' x' b Fx' Px' G). exact Fx'.
    + intros o' x' Fx' Ex' Px'. destruct (LIVE_op o' x' Fx' Ex') as [_ Fs]. eapply Mm2; eauto.
  - (* WF_region *)
    intros r rr Fr Er. destruct (LIVE_reg r rr Fr Er) as [G Fs].
    destruct (wf_region s W r rr Fs Er) as (l & C1 & C2 & ND & Mm1 & Mm2).
    assert (MEM : forall b', In b' l -> exists xb y, PM.find b' (s_blocks s) = Some xb /\
              PM.find b' (s_blocks t) = Some y /\ nofu y = nofu xb /\ b_parent xb = Some r).
    { intros b' Ib. destruct (Mm1 b' Ib) as (xb & Fxb & Pxb).
      destruct (F_blk_rev b' xb (OUT_blk b' xb r Fxb Pxb G) Fxb) as (y & Fy & Q). exists xb, y. auto. }
    exists l.
    split; [eapply chain_ext; [|exact C1]|].
    { intros b' Ib. destruct (MEM b' Ib) as (xb & y & Fxb & Fy & Q & _).
      destruct (nofu_inj_fields _ _ Q) as (_ & _ & _ & E4 & _). unfold blk_next, link. rewrite Fy, Fxb. simpl. congruence. }
    split; [eapply chain_ext; [|exact C2]|].
    { intros b' Ib. apply in_rev in Ib. destruct (MEM b' Ib) as (xb & y & Fxb & Fy & Q & _).
      destruct (nofu_inj_fields _ _ Q) as (_ & _ & _ & _ & E5 & _). unfold blk_prev, link. rewrite Fy, Fxb. simpl. congruence. }
    split; [exact ND|]. split.
    + intros b' Ib. destruct (MEM b' Ib) as (xb & y & Fxb & Fy & Q & Pxb).
      destruct (nofu_inj_fields _ _ Q) as (_ & _ & _ & _ & _ & E6 & _). exists y. split; [exact Fy|congruence].
    + intros b' y Fy Ey Py. destruct (LIVE_blk b' y Fy Ey) as (_ & xb & Fxb & Q).
      destruct (nofu_inj_fields _ _ Q) as (_ & _ & _ & _ & _ & E6 & E7). eapply Mm2; eauto; congruence.
  - (* WF_opregs *)
    intros o' x' Fx' Ex'. destruct (LIVE_op o' x' Fx' Ex') as [G Fs].
    destruct (wf_opregs s W o' x' Fs Ex') as (ND & Mm1 & Mm2). split; [exact ND|]. split.
    + intros r Ir. destruct (Mm1 r Ir) as (rr & Fr & Pr). exists rr. split; [|exact Pr].
      rewrite F_regs, (OUT_reg r rr o' Fr Pr G). exact Fr.
    + intros r rr Fr Er Pr. destruct (LIVE_reg r rr Fr Er) as [_ Frs]. eapply Mm2; eauto.
  - (* WF_results *)
    intros o' x' Fx' Ex' i v N. destruct (LIVE_op o' x' Fx' Ex') as [G Fs].
    destruct (wf_results s W o' x' Fs Ex' i v N) as (vr & Fv & K).
    destruct (F_val v vr Fv) as (vr' & Fv' & K'). exists vr'. split; [exact Fv'|congruence].
  - (* WF_args *)
    intros b y Fb Eb i v N. destruct (LIVE_blk b y Fb Eb) as (G & xb & Fxb & Q).
    destruct (nofu_inj_fields _ _ Q) as (E1 & _ & _ & _ & _ & _ & E7). rewrite E1 in N.
    destruct (wf_args s W b xb Fxb ltac:(congruence) i v N) as (vr & Fv & K).
    destruct (F_val v vr Fv) as (vr' & Fv' & K'). exists vr'. split; [exact Fv'|congruence].
  - (* WF_owner *)
    intros v vr' Fv' Dd. destruct (F_val_rev v vr' Fv' Dd) as (vr & Fv & K & Dv).
    pose proof (wf_owner s W v vr Fv Dv) as OW. rewrite <- K. destruct (v_kind vr) as [o' i|b i|old]; [| |exact I].
    + destruct OW as (x' & Fx' & Z). rewrite F_ops. rewrite Fx'.
      destruct (gmem (GOp o') D); eexists; (split; [reflexivity|]); simpl; exact Z.
    + destruct OW as (xb & Fxb & Z). destruct (F_blk_any b xb Fxb) as (y & Fy & Ay). exists y. split; [exact Fy|congruence].
  - (* WF_detached *)
    destruct (wf_detached s W) as [D1 D2]. split.
    + intros o' x' Fx' Ex' Px'. destruct (LIVE_op o' x' Fx' Ex') as [_ Fs]. eapply D1; eauto.
    + intros b y Fb Eb Pb. destruct (LIVE_blk b y Fb Eb) as (G & xb & Fxb & Q).
      destruct (nofu_inj_fields _ _ Q) as (_ & _ & _ & E4 & E5 & E6 & E7).
      destruct (D2 b xb Fxb ltac:(congruence) ltac:(congruence)) as [Q1 Q2]. split; congruence.
  - (* WF_alloc *)
    destruct (wf_alloc s W) as (B1 & B2 & B3 & B4 & B5).
    destruct T5 as (D1 & D2 & D3 & D4 & D5 & K1 & K2 & K3 & K4 & K5).
    unfold WF_alloc, below. rewrite N1, N2, N3, N4, N5, K1, K2, K3, K4, K5. repeat split; intros i y F.
    + rewrite M1 in F. destruct (PM.find i (s_ops s2)) eqn:F2; [|destruct (gmem (GOp i) D); discriminate].
      destruct (PM.find i (s_ops s)) eqn:F3; [eapply B1; eauto|]. apply D1 in F3. congruence.
    + rewrite M2 in F. destruct (PM.find i (s_blocks s2)) eqn:F2; [|destruct (gmem (GBlock i) D); discriminate].
      destruct (PM.find i (s_blocks s)) eqn:F3; [eapply B2; eauto|]. apply D2 in F3. congruence.
    + rewrite M3 in F. destruct (PM.find i (s_regions s2)) eqn:F2; [|destruct (gmem (GRegion i) D); discriminate].
      destruct (PM.find i (s_regions s)) eqn:F3; [eapply B3; eauto|]. apply D3 in F3. congruence.
    + rewrite M4 in F. destruct (PM.find i (s_values s2)) eqn:F2; [|destruct (gmem (GValue i) D); discriminate].
      destruct (PM.find i (s_values s)) eqn:F3; [eapply B4; eauto|]. apply D4 in F3. congruence.
    + rewrite M5 in F. destruct (PM.find i (s_uses s)) eqn:F3; [eapply B5; eauto|]. apply D5 in F3. congruence.
Qed.

(* ------------------------------------------------------------------ parent pointers and depth *)

Definition gpar (s : state) (g : gnode) : option gnode :=
  match g with
  | GOp i => match PM.find i (s_ops s) with Some x => option_map GBlock (o_parent x) | None => None end
  | GBlock b => match PM.find b (s_blocks s) with Some x => option_map GRegion (b_parent x) | None => None end
  | GRegion r => match PM.find r (s_regions s) with Some x => option_map GOp (r_parent x) | None => None end
  | GValue v => match PM.find v (s_values s) with
                | Some vr => match v_kind vr with
                             | KRes o _ => Some (GOp o)
                             | KArg b _ => Some (GBlock b)
                             | KErased _ => None
                             end
                | None => None
                end
  end.

Inductive anc (s : state) : nat -> gnode -> gnode -> Prop :=
| anc0 : forall g, anc s O g g
| ancS : forall k g p c, gpar s g = Some p -> anc s k p c -> anc s (S k) g c.

Lemma anc_fun : forall s k g c c', anc s k g c -> anc s k g c' -> c = c'.
Proof.
  intros s k g c c' H. revert c'. induction H; intros c' H'; inversion H'; subst; [reflexivity|].
  apply IHanc. congruence.
Qed.
Lemma anc_trans : forall s j g c, anc s j g c -> forall k d, anc s k c d -> anc s (j + k) g d.
Proof. intros s j g c H. induction H; intros k' d H'; simpl; [exact H'|]. econstructor; eauto. Qed.
Lemma anc_split : forall s j k g d, anc s (j + k) g d -> exists c, anc s j g c /\ anc s k c d.
Proof.
  intros s j. induction j as [|j IH]; intros k g d H; simpl in H.
  - exists g. split; [constructor|exact H].
  - inversion H; subst. destruct (IH _ _ _ H2) as (c & A1 & A2). exists c. split; [econstructor; eauto|exact A2].
Qed.
Lemma anc_root : forall s k root c, gpar s root = None -> anc s k root c -> k = O /\ c = root.
Proof. intros s k root c R H. inversion H; subst; [auto|congruence]. Qed.
Lemma anc_one : forall s g p, gpar s g = Some p -> anc s 1 g p.
Proof. intros. econstructor; [eassumption|constructor]. Qed.

Lemma depth_le : forall s root k k' g, gpar s root = None ->
  anc s k g root -> anc s k' g root -> (k <= k')%nat -> k = k'.
Proof.
  intros s root k k' g R A1 A2 L. replace k' with (k + (k' - k))%nat in A2 by lia.
  destruct (anc_split _ _ _ _ _ A2) as (c & B1 & B2).
  assert (c = root) by (eapply anc_fun; eauto). subst c.
  destruct (anc_root _ _ _ _ R B2) as [E _]. lia.
Qed.
Lemma depth_uniq : forall s root k k' g, gpar s root = None -> anc s k g root -> anc s k' g root -> k = k'.
Proof.
  intros s root k k' g R A1 A2. destruct (Nat.le_ge_cases k k') as [L|L].
  - eapply depth_le; eauto.
  - symmetry. eapply depth_le; eauto.
Qed.

(* two containers at the same depth have disjoint sub-trees *)
Lemma sib_disj : forall s root k c1 c2 j1 j2 g, gpar s root = None ->
  anc s k c1 root -> anc s k c2 root -> anc s j1 g c1 -> anc s j2 g c2 -> c1 = c2 /\ j1 = j2.
Proof.
  intros s root k c1 c2 j1 j2 g R A1 A2 B1 B2.
  pose proof (anc_trans _ _ _ _ B1 _ _ A1) as D1. pose proof (anc_trans _ _ _ _ B2 _ _ A2) as D2.
  pose proof (depth_uniq _ _ _ _ _ R D1 D2) as E. assert (j1 = j2) by lia. subst j2.
  split; [eapply anc_fun; eauto|reflexivity].
Qed.

(* a proper descendant of c is not c *)
Lemma desc_neq : forall s root k c j, gpar s root = None -> anc s k c root -> anc s (S j) c c -> False.
Proof.
  intros s root k c j R A B. pose proof (anc_trans _ _ _ _ B _ _ A) as D.
  pose proof (depth_uniq _ _ _ _ _ R A D). lia.
Qed.

Lemma NoDup_app_intro : forall {A} (l1 l2 : list A),
  NoDup l1 -> NoDup l2 -> (forall x, In x l1 -> In x l2 -> False) -> NoDup (l1 ++ l2).
Proof.
  intros A l1 l2 N1 N2 D. induction N1 as [|a r Na N1 IH]; simpl; [exact N2|].
  constructor.
  - intro I. apply in_app_or in I. destruct I as [I|I]; [contradiction|]. eapply D; [left; reflexivity|exact I].
  - apply IH. intros x I1 I2. eapply D; [right; exact I1|exact I2].
Qed.

Lemma NoDup_flat_map_disj : forall {A B} (f : A -> list B) (l : list A),
  NoDup l -> (forall a, In a l -> NoDup (f a)) ->
  (forall a b g, In a l -> In b l -> In g (f a) -> In g (f b) -> a = b) ->
  NoDup (flat_map f l).
Proof.
  intros A B f l ND. induction ND as [|a r Na ND IH]; intros N1 DJ; simpl; [constructor|].
  apply NoDup_app_intro.
  - apply N1. left. reflexivity.
  - apply IH; [intros; apply N1; right; assumption|]. intros a' b g Ia Ib. apply DJ; right; assumption.
  - intros g I1 I2. apply in_flat_map in I2. destruct I2 as (b & Ib & Igb).
    assert (a = b) by (eapply (DJ a b g); [left; reflexivity|right; exact Ib|exact I1|exact Igb]). subst b. contradiction.
Qed.

Lemma NoDup_values : forall (l : list vid), NoDup l -> NoDup (map GValue l).
Proof. intros l ND. apply Injective_map_NoDup; [|exact ND]. intros a b E. injection E as E. exact E. Qed.

Lemma all_live_sub : forall s L L', all_live s L -> (forall g, In g L' -> In g L) -> all_live s L'.
Proof. intros s L L' AL SUB g I. apply AL. apply SUB. exact I. Qed.

Section Distinct.
  Variable s : state.
  Hypothesis W : WF s.
  Variable root : gnode.
  Hypothesis Rt : gpar s root = None.

  Lemma res_facts : forall o x, PM.find o (s_ops s) = Some x -> o_erased x = false ->
    NoDup (o_results x) /\ forall v, In v (o_results x) -> gpar s (GValue v) = Some (GOp o).
  Proof.
    intros o x F E. split.
    - apply NoDup_nth_error. intros i j Li Eq.
      destruct (nth_error (o_results x) i) as [v|] eqn:Ni; [|apply nth_error_None in Ni; lia].
      symmetry in Eq.
      destruct (wf_results s W o x F E i v Ni) as (vr & Fv & K).
      destruct (wf_results s W o x F E j v Eq) as (vr' & Fv' & K'). rewrite Fv in Fv'. injection Fv' as <-.
      rewrite K in K'. injection K' as K'. lia.
    - intros v Iv. destruct (In_nth_error _ _ Iv) as (i & Ni).
      destruct (wf_results s W o x F E i v Ni) as (vr & Fv & K). simpl. rewrite Fv, K. reflexivity.
  Qed.
  Lemma args_facts : forall b x, PM.find b (s_blocks s) = Some x -> b_erased x = false ->
    NoDup (b_args x) /\ forall v, In v (b_args x) -> gpar s (GValue v) = Some (GBlock b).
  Proof.
    intros b x F E. split.
    - apply NoDup_nth_error. intros i j Li Eq.
      destruct (nth_error (b_args x) i) as [v|] eqn:Ni; [|apply nth_error_None in Ni; lia].
      symmetry in Eq.
      destruct (wf_args s W b x F E i v Ni) as (vr & Fv & K).
      destruct (wf_args s W b x F E j v Eq) as (vr' & Fv' & K'). rewrite Fv in Fv'. injection Fv' as <-.
      rewrite K in K'. injection K' as K'. lia.
    - intros v Iv. destruct (In_nth_error _ _ Iv) as (i & Ni).
      destruct (wf_args s W b x F E i v Ni) as (vr & Fv & K). simpl. rewrite Fv, K. reflexivity.
  Qed.

  Definition N_op (f : nat) : Prop := forall o k0, anc s k0 (GOp o) root -> all_live s (collect_op f s o) ->
    NoDup (collect_op f s o) /\ forall g, In g (collect_op f s o) -> exists j, anc s j g (GOp o).
  Definition N_region (f : nat) : Prop := forall r k0, anc s k0 (GRegion r) root -> all_live s (collect_region f s r) ->
    NoDup (collect_region f s r) /\ forall g, In g (collect_region f s r) -> exists j, anc s j g (GRegion r).
  Definition N_block (f : nat) : Prop := forall b k0, anc s k0 (GBlock b) root -> all_live s (collect_block f s b) ->
    NoDup (collect_block f s b) /\ forall g, In g (collect_block f s b) -> exists j, anc s j g (GBlock b).
  Definition N_blocks (f : nat) : Prop := forall cur r l k0, anc s k0 (GRegion r) root ->
    chain (blk_next s) cur l -> NoDup l ->
    (forall b, In b l -> exists x, PM.find b (s_blocks s) = Some x /\ b_parent x = Some r) ->
    all_live s (collect_blocks_from f s cur) ->
    NoDup (collect_blocks_from f s cur) /\
    forall g, In g (collect_blocks_from f s cur) -> exists b j, In b l /\ anc s j g (GBlock b).
  Definition N_ops (f : nat) : Prop := forall cur b l k0, anc s k0 (GBlock b) root ->
    chain (op_next s) cur l -> NoDup l ->
    (forall o, In o l -> exists x, PM.find o (s_ops s) = Some x /\ o_parent x = Some b) ->
    all_live s (collect_ops_from f s cur) ->
    NoDup (collect_ops_from f s cur) /\
    forall g, In g (collect_ops_from f s cur) -> exists o j, In o l /\ anc s j g (GOp o).

  Lemma nodup_op_step : forall f, N_region f -> N_op (S f).
  Proof.
    intros f NR o k0 A0 AL. rewrite collect_op_S in *.
    destruct (PM.find o (s_ops s)) as [x|] eqn:Fx; [|split; [constructor|intros g []]].
    destruct (AL (GOp o) (or_introl eq_refl)) as (x' & Fx' & Ex). rewrite Fx in Fx'. injection Fx' as <-.
    destruct (res_facts o x Fx Ex) as [NDr PR].
    destruct (wf_opregs s W o x Fx Ex) as (NDg & M1 & _).
    assert (PG : forall r, In r (o_regions x) -> gpar s (GRegion r) = Some (GOp o)).
    { intros r Ir. destruct (M1 r Ir) as (rr & Fr & Pr). simpl. rewrite Fr, Pr. reflexivity. }
    assert (AR : forall r, In r (o_regions x) -> anc s (S k0) (GRegion r) root).
    { intros r Ir. econstructor; [apply PG; exact Ir|exact A0]. }
    assert (ALr : forall r, In r (o_regions x) -> all_live s (collect_region f s r)).
    { intros r Ir. eapply all_live_sub; [exact AL|]. intros g Ig. right. apply in_or_app. right.
      apply in_flat_map. eauto. }
    assert (EF : forall g, In g (flat_map (collect_region f s) (o_regions x)) ->
              exists r j, In r (o_regions x) /\ anc s j g (GRegion r)).
    { intros g Ig. apply in_flat_map in Ig. destruct Ig as (r & Ir & Ig).
      destruct (NR r _ (AR r Ir) (ALr r Ir)) as [_ En]. destruct (En g Ig) as (j & Aj). eauto. }
    assert (EV : forall g, In g (map GValue (o_results x)) -> anc s 1 g (GOp o)).
    { intros g Ig. apply in_map_iff in Ig. destruct Ig as (v & <- & Iv). apply anc_one. apply PR. exact Iv. }
    split.
    - constructor.
      + intro I. apply in_app_or in I. destruct I as [I|I].
        * apply in_map_iff in I. destruct I as (v & E & _). discriminate.
        * destruct (EF _ I) as (r & j & Ir & Aj).
          pose proof (anc_trans _ _ _ _ Aj _ _ (anc_one _ _ _ (PG r Ir))) as B. rewrite Nat.add_1_r in B.
          eapply desc_neq; eauto.
      + apply NoDup_app_intro.
        * apply NoDup_values. exact NDr.
        * apply NoDup_flat_map_disj; [exact NDg| |].
          { intros r Ir. apply (NR r _ (AR r Ir) (ALr r Ir)). }
          { intros r1 r2 g I1 I2 G1 G2.
            destruct (NR r1 _ (AR r1 I1) (ALr r1 I1)) as [_ E1]. destruct (E1 g G1) as (j1 & B1).
            destruct (NR r2 _ (AR r2 I2) (ALr r2 I2)) as [_ E2]. destruct (E2 g G2) as (j2 & B2).
            destruct (sib_disj _ _ _ _ _ _ _ _ Rt (AR r1 I1) (AR r2 I2) B1 B2) as [E _]. injection E as E. exact E. }
        * intros g I1 I2. pose proof (EV g I1) as B1. destruct (EF g I2) as (r & j & Ir & Aj).
          pose proof (anc_trans _ _ _ _ Aj _ _ (anc_one _ _ _ (PG r Ir))) as B2.
          destruct (sib_disj _ _ _ _ _ _ _ _ Rt A0 A0 B1 B2) as [_ E].
          assert (j = O) by lia. subst j. inversion Aj; subst.
          apply in_map_iff in I1. destruct I1 as (v & E1 & _). discriminate.
    - intros g [<-|Ig]; [exists O; constructor|]. apply in_app_or in Ig. destruct Ig as [Ig|Ig].
      + exists 1%nat. apply EV. exact Ig.
      + destruct (EF g Ig) as (r & j & Ir & Aj). exists (j + 1)%nat.
        eapply anc_trans; [exact Aj|]. apply anc_one. apply PG. exact Ir.
  Qed.

  Lemma nodup_region_step : forall f, N_blocks f -> N_region (S f).
  Proof.
    intros f NB r k0 A0 AL. rewrite collect_region_S in *.
    destruct (PM.find r (s_regions s)) as [x|] eqn:Fx; [|split; [constructor|intros g []]].
    destruct (AL (GRegion r) (or_introl eq_refl)) as (x' & Fx' & Ex). rewrite Fx in Fx'. injection Fx' as <-.
    destruct (wf_region s W r x Fx Ex) as (l & C1 & _ & NDl & M1 & _).
    assert (ALb : all_live s (collect_blocks_from f s (r_first x))).
    { eapply all_live_sub; [exact AL|]. intros g Ig. right. exact Ig. }
    destruct (NB _ r l k0 A0 C1 NDl M1 ALb) as [NDB EB].
    assert (PB : forall b, In b l -> gpar s (GBlock b) = Some (GRegion r)).
    { intros b Ib. destruct (M1 b Ib) as (xb & Fb & Pb). simpl. rewrite Fb, Pb. reflexivity. }
    split.
    - constructor; [|exact NDB]. intro I. destruct (EB _ I) as (b & j & Ib & Aj).
      pose proof (anc_trans _ _ _ _ Aj _ _ (anc_one _ _ _ (PB b Ib))) as B. rewrite Nat.add_1_r in B.
      eapply desc_neq; eauto.
    - intros g [<-|Ig]; [exists O; constructor|]. destruct (EB g Ig) as (b & j & Ib & Aj). exists (j + 1)%nat.
      eapply anc_trans; [exact Aj|]. apply anc_one. apply PB. exact Ib.
  Qed.

  Lemma nodup_block_step : forall f, N_ops f -> N_block (S f).
  Proof.
    intros f NO b k0 A0 AL. rewrite collect_block_S in *.
    destruct (PM.find b (s_blocks s)) as [x|] eqn:Fx; [|split; [constructor|intros g []]].
    destruct (AL (GBlock b) (or_introl eq_refl)) as (x' & Fx' & Ex). rewrite Fx in Fx'. injection Fx' as <-.
    destruct (args_facts b x Fx Ex) as [NDa PA].
    destruct (wf_block s W b x Fx Ex) as (l & C1 & _ & NDl & M1 & _).
    assert (ALo : all_live s (collect_ops_from f s (b_first_op x))).
    { eapply all_live_sub; [exact AL|]. intros g Ig. right. apply in_or_app. right. exact Ig. }
    destruct (NO _ b l k0 A0 C1 NDl M1 ALo) as [NDO EO].
    assert (PO : forall o, In o l -> gpar s (GOp o) = Some (GBlock b)).
    { intros o Io. destruct (M1 o Io) as (xo & Fo & Po). simpl. rewrite Fo, Po. reflexivity. }
    assert (EV : forall g, In g (map GValue (b_args x)) -> anc s 1 g (GBlock b)).
    { intros g Ig. apply in_map_iff in Ig. destruct Ig as (v & <- & Iv). apply anc_one. apply PA. exact Iv. }
    split.
    - constructor.
      + intro I. apply in_app_or in I. destruct I as [I|I].
        * apply in_map_iff in I. destruct I as (v & E & _). discriminate.
        * destruct (EO _ I) as (o & j & Io & Aj).
          pose proof (anc_trans _ _ _ _ Aj _ _ (anc_one _ _ _ (PO o Io))) as B. rewrite Nat.add_1_r in B.
          eapply desc_neq; eauto.
      + apply NoDup_app_intro; [apply NoDup_values; exact NDa|exact NDO|].
        intros g I1 I2. pose proof (EV g I1) as B1. destruct (EO g I2) as (o & j & Io & Aj).
        pose proof (anc_trans _ _ _ _ Aj _ _ (anc_one _ _ _ (PO o Io))) as B2.
        destruct (sib_disj _ _ _ _ _ _ _ _ Rt A0 A0 B1 B2) as [_ E].
        assert (j = O) by lia. subst j. inversion Aj; subst.
        apply in_map_iff in I1. destruct I1 as (v & E1 & _). discriminate.
    - intros g [<-|Ig]; [exists O; constructor|]. apply in_app_or in Ig. destruct Ig as [Ig|Ig].
      + exists 1%nat. apply EV. exact Ig.
      + destruct (EO g Ig) as (o & j & Io & Aj). exists (j + 1)%nat.
        eapply anc_trans; [exact Aj|]. apply anc_one. apply PO. exact Io.
  Qed.

  Lemma nodup_blocks_step : forall f, N_block f -> N_blocks f -> N_blocks (S f).
  Proof.
    intros f NB NBS cur r l k0 A0 C NDl M AL. rewrite collect_blocks_S in *.
    destruct cur as [b|]; [|split; [constructor|intros g []]].
    destruct (PM.find b (s_blocks s)) as [x|] eqn:Fx; [|split; [constructor|intros g []]].
    inversion C as [|? n l' Nb C']; subst.
    unfold blk_next, link in Nb. rewrite Fx in Nb. simpl in Nb. injection Nb as <-.
    inversion NDl as [|? ? Nbl NDl']; subst.
    apply all_live_app in AL. destruct AL as [AL1 AL2].
    assert (PB : forall b', In b' (b :: l') -> anc s (S k0) (GBlock b') root).
    { intros b' Ib. destruct (M b' Ib) as (xb & Fb & Pb). econstructor; [|exact A0]. simpl. rewrite Fb, Pb. reflexivity. }
    destruct (NB b _ (PB b (or_introl eq_refl)) AL1) as [ND1 E1].
    destruct (NBS _ r l' k0 A0 C' NDl' (fun b' I' => M b' (or_intror I')) AL2) as [ND2 E2].
    split.
    - apply NoDup_app_intro; [exact ND1|exact ND2|].
      intros g I1 I2. destruct (E1 g I1) as (j1 & B1). destruct (E2 g I2) as (b' & j2 & Ib' & B2).
      destruct (sib_disj _ _ _ _ _ _ _ _ Rt (PB b (or_introl eq_refl)) (PB b' (or_intror Ib')) B1 B2) as [E _].
      injection E as ->. contradiction.
    - intros g Ig. apply in_app_or in Ig. destruct Ig as [Ig|Ig].
      + destruct (E1 g Ig) as (j & Aj). exists b, j. split; [left; reflexivity|exact Aj].
      + destruct (E2 g Ig) as (b' & j & Ib' & Aj). exists b', j. split; [right; exact Ib'|exact Aj].
  Qed.

  Lemma nodup_ops_step : forall f, N_op f -> N_ops f -> N_ops (S f).
  Proof.
    intros f NO NOS cur b l k0 A0 C NDl M AL. rewrite collect_ops_S in *.
    destruct cur as [o|]; [|split; [constructor|intros g []]].
    destruct (PM.find o (s_ops s)) as [x|] eqn:Fx; [|split; [constructor|intros g []]].
    inversion C as [|? n l' No C']; subst.
    unfold op_next, link in No. rewrite Fx in No. simpl in No. injection No as <-.
    inversion NDl as [|? ? Nol NDl']; subst.
    apply all_live_app in AL. destruct AL as [AL1 AL2].
    assert (PO : forall o', In o' (o :: l') -> anc s (S k0) (GOp o') root).
    { intros o' Io. destruct (M o' Io) as (xo & Fo & Po). econstructor; [|exact A0]. simpl. rewrite Fo, Po. reflexivity. }
    destruct (NO o _ (PO o (or_introl eq_refl)) AL1) as [ND1 E1].
    destruct (NOS _ b l' k0 A0 C' NDl' (fun o' I' => M o' (or_intror I')) AL2) as [ND2 E2].
    split.
    - apply NoDup_app_intro; [exact ND1|exact ND2|].
      intros g I1 I2. destruct (E1 g I1) as (j1 & B1). destruct (E2 g I2) as (o' & j2 & Io' & B2).
      destruct (sib_disj _ _ _ _ _ _ _ _ Rt (PO o (or_introl eq_refl)) (PO o' (or_intror Io')) B1 B2) as [E _].
      injection E as ->. contradiction.
    - intros g Ig. apply in_app_or in Ig. destruct Ig as [Ig|Ig].
      + destruct (E1 g Ig) as (j & Aj). exists o, j. split; [left; reflexivity|exact Aj].
      + destruct (E2 g Ig) as (o' & j & Io' & Aj). exists o', j. split; [right; exact Io'|exact Aj].
  Qed.

  Lemma nodup_collect : forall f, N_op f /\ N_region f /\ N_blocks f /\ N_block f /\ N_ops f.
  Proof.
    induction f as [|f (I1 & I2 & I3 & I4 & I5)].
    - unfold N_op, N_region, N_blocks, N_block, N_ops.
      split; [|split; [|split; [|split]]]; simpl; intros; (split; [constructor|intros g []]).
    - split; [apply nodup_op_step; assumption|]. split; [apply nodup_region_step; assumption|].
      split; [apply nodup_blocks_step; assumption|]. split; [apply nodup_block_step; assumption|].
      apply nodup_ops_step; assumption.
  Qed.
End Distinct.

Lemma collect_op_NoDup : forall s o x, WF s -> PM.find o (s_ops s) = Some x -> o_parent x = None ->
  forall f, all_live s (collect_op f s o) -> NoDup (collect_op f s o).
Proof.
  intros s o x W F P f AL.
  assert (Rt : gpar s (GOp o) = None) by (simpl; rewrite F, P; reflexivity).
  exact (proj1 (proj1 (nodup_collect s W (GOp o) Rt f) o O (anc0 s (GOp o)) AL)).
Qed.

Lemma Inv_init : forall s, Uabs s (real_slot s) -> Inv s [] s.
Proof.
  intros s UA. split.
  - constructor; simpl; try reflexivity; [apply agree_refl|apply fr_A].
  - eapply Uabs_slots; [|exact UA]. intros h o i u. unfold minus_ops. simpl. tauto.
Qed.

(* Operation.erase of an op with an arbitrary tree of regions below it *)
Lemma op_erase_tree_nodup_WF : forall s s' o safe r,
  WF s ->
  all_live s (collect_op (fuel_of s) s o) ->
  NoDup (collect_op (fuel_of s) s o) ->
  op_erase o safe true s = (s', Ok r) -> WF s'.
Proof.
  intros s s' o safe r W AL ND H. unfold op_erase in H.
  apply bind_ok in H as (s0 & x & Hg & H). apply getO_ok in Hg as [-> Fx].
  apply bind_ok in H as (s0 & [] & Ha & H). apply assert_ok in Ha as [-> Pa].
  apply negb_true_iff in Pa. apply is_some_false in Pa.
  apply bind_ok in H as (s0 & dead & Hd & H). apply gets_ok in Hd as [-> ->].
  apply bind_ok in H as (s0 & fl & Hf & H). unfold get_fuel in Hf. apply gets_ok in Hf as [-> ->].
  set (D := collect_op (fuel_of s) s o) in *.
  apply bind_ok in H as (s2 & [] & Hdrop & H). simpl in Hdrop.
  destruct (UWF_Uabs s (WF_UWF s W)) as [UA LN].
  assert (OL : ops_live s D) by (intros i Ii; exact (AL (GOp i) Ii)).
  assert (ND' : NoDup ([] ++ D ++ [])) by (simpl; rewrite app_nil_r; exact ND).
  pose proof (proj1 (walk s UA LN (wf_disjoint s W) (fuel_of s)) o [] [] s s2 tt ND' (Inv_init s UA) OL Hdrop) as I2.
  simpl in I2.
  pose proof (proj1 (closure s W (fuel_of s)) o AL) as CL. fold D in CL.
  pose proof (markS_markT D s2) as MK.
  pose proof (fin_WF s s2 (markS D s2) o x D W Fx Pa CL I2 MK) as W2.
  assert (HR2 : MT D s2 (markS D s2)).
  { split; [exact MK|]. intros v G. apply gmem_In in G.
    destruct I2 as [[_ _ _ _ T5] _]. destruct T5 as (_ & _ & _ & _ & _ & _ & _ & _ & K4 & _). rewrite K4.
    destruct (wf_alloc s W) as (_ & _ & _ & B4 & _).
    destruct (CL _ G) as [E|[(o' & x' & Io & Fo & Iv)|(b & xb & Ib & Fb & Iv)]]; [discriminate| |].
    - destruct (AL _ Io) as (x'' & Fo' & Eo). rewrite Fo in Fo'. injection Fo' as <-.
      destruct (In_nth_error _ _ Iv) as (k & Nk).
      destruct (wf_results s W o' x' Fo Eo k v Nk) as (vr & Fv & _). eapply B4; eauto.
    - destruct (AL _ Ib) as (x'' & Fb' & Eb). rewrite Fb in Fb'. injection Fb' as <-.
      destruct (In_nth_error _ _ Iv) as (k & Nk).
      destruct (wf_args s W b xb Fb Eb k v Nk) as (vr & Fv & _). eapply B4; eauto. }
  apply bind_ok in H as (s0 & orec' & Hg & H). apply getO_ok in Hg as [-> Fo'].
  apply bind_ok in H as (s3 & [] & Hve & Hk).
  destruct (simT_forM D (o_results orec') (fun v => value_erase v safe) (fun v => simT_value_erase D v safe)
              _ _ _ _ HR2 Hve) as (t3 & Hve' & [MK3 _]).
  pose proof (value_erase_loop_WF _ _ _ _ _ W2 Hve') as W3.
  pose proof (kill_spec _ _ _ _ Hk) as MK'.
  exact (markT_fun D s3 t3 s' MK3 MK' W3).
Qed.

(* Operation.erase of a live op with an arbitrary tree of regions below it; the liveness hypothesis says
   that everything the erase is going to mark (the walk of `collect_op`) is live: erased objects are not
   reachable from live ones *)
Theorem op_erase_tree_WF : forall s s' o safe r,
  WF s ->
  all_live s (collect_op (fuel_of s) s o) ->
  op_erase o safe true s = (s', Ok r) -> WF s'.
Proof.
  intros s s' o safe r W AL H.
  assert (exists x, PM.find o (s_ops s) = Some x /\ o_parent x = None) as (x & Fx & Px).
  { unfold op_erase in H. apply bind_ok in H as (s0 & x & Hg & H). apply getO_ok in Hg as [-> Fx].
    apply bind_ok in H as (s0 & [] & Ha & _). apply assert_ok in Ha as [_ Pa].
    apply negb_true_iff in Pa. apply is_some_false in Pa. eauto. }
  eapply op_erase_tree_nodup_WF; eauto. eapply collect_op_NoDup; eauto.
Qed.

(* Block.erase_op / Rewriter.erase_op: the liveness hypothesis is about the state after the detach
   (detach_op rewires the siblings and the parent block of o, which are outside the tree below o) *)
Theorem erase_op_tree_WF : forall s s' b o safe r,
  WF s -> blk_live s b -> op_live s o ->
  (forall s1 r1, detach_op b o s = (s1, Ok r1) -> all_live s1 (collect_op (fuel_of s1) s1 o)) ->
  erase_op b o safe s = (s', Ok r) -> WF s'.
Proof.
  intros s s' b o safe r W BL OL AL H. unfold erase_op in H.
  apply bind_ok in H as (s1 & o' & Hd & He).
  pose proof (detach_op_ret _ _ _ _ _ Hd) as ->.
  pose proof (detach_op_WF _ _ _ _ _ W BL OL Hd) as W1.
  eapply op_erase_tree_WF; eauto.
Qed.

Theorem rw_erase_op_tree_WF : forall s s' o safe r,
  WF s -> op_live s o ->
  (forall x b, PM.find o (s_ops s) = Some x -> o_parent x = Some b ->
     blk_live s b /\ forall s1 r1, detach_op b o s = (s1, Ok r1) -> all_live s1 (collect_op (fuel_of s1) s1 o)) ->
  (forall x, PM.find o (s_ops s) = Some x -> o_parent x = None -> all_live s (collect_op (fuel_of s) s o)) ->
  rw_erase_op o safe s = (s', Ok r) -> WF s'.
Proof.
  intros s s' o safe r W OL HB HN H. unfold rw_erase_op in H.
  apply bind_ok in H as (s0 & x & Hg & H). apply getO_ok in Hg as [-> Fx].
  destruct (o_parent x) as [b|] eqn:P.
  - destruct (HB x b Fx P) as [BL AL]. eapply erase_op_tree_WF; eauto.
  - eapply op_erase_tree_WF; eauto.
Qed.
