(* C01/ProofsReplaceOp.v -- WF is preserved by Rewriter.replace_op and PatternRewriter.replace
   for a replaced operation WITHOUT regions (compositions of proved steps). *)
From Coq Require Import ZArith List Bool PArith FMapPositive Lia.
From XV Require Import C01.Model C01.Spec C01.ProofsBase C01.ProofsFrame C01.ProofsUses C01.ProofsOperands
  C01.ProofsRauw C01.ProofsOps C01.ProofsBlocks C01.ProofsOpLists C01.ProofsArgs C01.ProofsErase
  C01.ProofsCreate C01.ProofsInv.
Import ListNotations.

(* ------------------------------------------------------------------ liveness / shape along frames *)

Lemma blk_live_T2 : forall s s' b, same_T2 s s' -> blk_live s b -> blk_live s' b.
Proof.
  intros s s' b [Ab _] (x & F & E). destruct (agree_find_rev _ _ _ _ _ Ab F) as (x' & F' & P).
  unfold pT2_blk in P. injection P as _ _ _ P4. exists x'. split; [exact F'|congruence].
Qed.
Lemma op_live_T3 : forall s s' o, same_T3 s s' -> op_live s o -> op_live s' o.
Proof.
  intros s s' o [Ao _] (x & F & E). destruct (agree_find_rev _ _ _ _ _ Ao F) as (x' & F' & P).
  unfold pT3_op in P. injection P as _ P2. exists x'. split; [exact F'|congruence].
Qed.
Definition op_noreg (s : state) (o : oid) : Prop :=
  exists x, PM.find o (s_ops s) = Some x /\ o_erased x = false /\ o_regions x = [].
Lemma op_noreg_T3 : forall s s' o, same_T3 s s' -> op_noreg s o -> op_noreg s' o.
Proof.
  intros s s' o [Ao _] (x & F & E & R). destruct (agree_find_rev _ _ _ _ _ Ao F) as (x' & F' & P).
  unfold pT3_op in P. injection P as P1 P2. exists x'. split; [exact F'|]. split; congruence.
Qed.

Lemma insert_ops_after_pres : forall R, frame_rel R -> (forall b n e, preserves R (insert_op_after b n e)) ->
  forall ops b e, preserves R (insert_ops_after b ops e).
Proof.
  intros R FR H ops. induction ops as [|o r IH]; intros b e; simpl.
  - apply (pres_ret _ FR).
  - apply (pres_bind _ FR); [apply H|intros _; apply IH].
Qed.

(* the loop over (old result, replacement) pairs *)
Lemma results_loop : forall (pairs : list (vid * option vid)) (body : vid * option vid -> M unit) s s' r,
  (forall p s0 s1 r0, WF s0 -> body p s0 = (s1, Ok r0) -> WF s1) ->
  (forall p, preserves same_T2 (body p)) -> (forall p, preserves same_T3 (body p)) ->
  (forall p, preserves (par_rel nobody nobody nobody) (body p)) ->
  WF s -> forM pairs body s = (s', Ok r) ->
  WF s' /\ same_T2 s s' /\ same_T3 s s' /\ par_rel nobody nobody nobody s s'.
Proof.
  intros pairs body s s' r HW H2 H3 HP W H. split; [|split; [|split]].
  - revert s W H. induction pairs as [|p t IH]; intros s W H; simpl in H.
    + apply ret_ok in H as [-> _]. exact W.
    + apply bind_ok in H as (s1 & ? & Hb & H). eapply IH; [eapply HW; eauto|exact H].
  - eapply (pres_forM _ fr_T2); eauto.
  - eapply (pres_forM _ fr_T3); eauto.
  - eapply (pres_forM _ (fr_par nobody nobody nobody)); eauto.
Qed.

Lemma pr_rauw_T2 : forall v w safe, preserves same_T2 (pr_replace_all_uses_with v w safe).
Proof. intros. unfold pr_replace_all_uses_with. destruct w; [destruct (Pos.eqb v v0)|]; pres fr_T2. Qed.
Lemma pr_rauw_T3 : forall v w safe, preserves same_T3 (pr_replace_all_uses_with v w safe).
Proof. intros. unfold pr_replace_all_uses_with. destruct w; [destruct (Pos.eqb v v0)|]; pres fr_T3. Qed.

(* new_results' is computed without touching the state *)
Lemma new_results_pure : forall (new_ops : list oid) (new_results : option (list (option vid))) s s' l,
  match new_results with
  | Some l => ret l
  | None => match last_opt new_ops with
            | None => ret []
            | Some lo => lr <- getO lo ;; ret (map Some (o_results lr))
            end
  end s = (s', Ok l) -> s' = s.
Proof.
  intros new_ops new_results s s' l H. destruct new_results as [l0|].
  - apply ret_ok in H as [-> _]. reflexivity.
  - destruct (last_opt new_ops) as [lo|].
    + apply bind_ok in H as (s1 & lr & Hg & H). apply getO_ok in Hg as [-> _]. apply ret_ok in H as [-> _]. reflexivity.
    + apply ret_ok in H as [-> _]. reflexivity.
Qed.

(* ------------------------------------------------------------------ Rewriter.replace_op *)

Theorem rw_replace_op_inv : forall s s' o new_ops new_results safe r,
  WF s -> parents_ok s -> op_noreg s o ->
  (forall x b, PM.find o (s_ops s) = Some x -> o_parent x = Some b -> blk_live s b) ->
  (forall n, In n new_ops -> op_live s n) ->
  rw_replace_op o new_ops new_results safe s = (s', Ok r) -> WF s' /\ parents_ok s'.
Proof.
  intros s s' o new_ops new_results safe r W PO NR BL NL H. unfold rw_replace_op in H.
  apply bind_ok in H as (s0 & orec & Hg & H). apply getO_ok in Hg as [-> Fo].
  destruct (o_parent orec) as [block|] eqn:Po; [|exfalso; eapply raise_ok; eauto].
  pose proof (BL orec block Fo Po) as BLb.
  apply bind_ok in H as (s0 & nres & Hn & H). apply new_results_pure in Hn. subst s0.
  destruct (negb (Nat.eqb (length (o_results orec)) (length nres))); [exfalso; eapply raise_ok; eauto|].
  apply bind_ok in H as (s1 & ? & Hl & H). apply bind_ok in H as (s2 & ? & Hi & He).
  destruct (results_loop _ _ s s1 _
             (fun p s0 s1' r0 W0 Hb => match snd p as q return
                  (match q with None => value_erase (fst p) safe | Some nr => replace_all_uses_with (fst p) nr end) s0 = (s1', Ok r0) -> WF s1'
                with None => fun Hb => value_erase_WF _ _ _ _ _ W0 Hb | Some nr => fun Hb => replace_all_uses_with_WF _ _ _ _ _ W0 Hb end Hb)
             (fun p => match snd p as q return preserves same_T2 (match q with None => value_erase (fst p) safe | Some nr => replace_all_uses_with (fst p) nr end)
                       with None => value_erase_T2 _ _ | Some nr => rauw_T2 _ _ end)
             (fun p => match snd p as q return preserves same_T3 (match q with None => value_erase (fst p) safe | Some nr => replace_all_uses_with (fst p) nr end)
                       with None => value_erase_T3 _ _ | Some nr => rauw_T3 _ _ end)
             (fun p => match snd p as q return preserves (par_rel nobody nobody nobody) (match q with None => value_erase (fst p) safe | Some nr => replace_all_uses_with (fst p) nr end)
                       with None => value_erase_par _ _ _ _ _ | Some nr => replace_all_uses_with_par _ _ _ _ _ end)
             W Hl) as (W1 & T2a & T3a & PA).
  assert (OL : op_live s o) by (destruct NR as (xq & Fq & Eq & _); exists xq; auto).
  pose proof (par_rel_nobody_ok _ _ PA PO) as PO1.
  assert (W2 : WF s2).
  { eapply (insert_ops_after_WF new_ops s1 s2 block o _ W1); [eapply blk_live_T2; eauto|eapply op_live_T3; eauto| |exact Hi].
    intros n In. eapply op_live_T3; eauto. }
  assert (T2b : same_T2 s1 s2) by (eapply (insert_ops_after_pres _ fr_T2 insert_op_after_T2); exact Hi).
  assert (T3b : same_T3 s1 s2) by (eapply (insert_ops_after_pres _ fr_T3 insert_op_after_T3); exact Hi).
  destruct (op_noreg_T3 _ _ _ T3b (op_noreg_T3 _ _ _ T3a NR)) as (x2 & F2 & E2 & R2).
  assert (BL1 : blk_live s1 block) by (eapply blk_live_T2; eauto).
  pose proof (parents_ok_by_block _ block _ _ _ (insert_ops_after_par nobody nobody block new_ops o) W1 PO1 BL1 Hi) as PO2.
  split.
  - eapply (erase_op_noregions_WF s2 s' block o x2 safe _ W2); eauto. eapply blk_live_T2; eauto.
  - eapply parents_ok_by_nobody; [apply erase_op_par|exact PO2|exact He].
Qed.

(* ------------------------------------------------------------------ PatternRewriter.replace *)

Theorem pr_replace_inv : forall s s' o new_ops new_results safe r,
  WF s -> parents_ok s -> op_noreg s o ->
  (forall x b, PM.find o (s_ops s) = Some x -> o_parent x = Some b -> blk_live s b) ->
  (forall n, In n new_ops -> op_live s n) ->
  pr_replace o new_ops new_results safe s = (s', Ok r) -> WF s' /\ parents_ok s'.
Proof.
  intros s s' o new_ops new_results safe r W PO NR BL NL H. unfold pr_replace in H.
  apply bind_ok in H as (s0 & orec & Hg & H). apply getO_ok in Hg as [-> Fo].
  destruct (o_parent orec) as [block|] eqn:Po; [|exfalso; eapply raise_ok; eauto].
  pose proof (BL orec block Fo Po) as BLb.
  assert (OL : op_live s o) by (destruct NR as (xq & Fq & Eq & _); exists xq; auto).
  apply bind_ok in H as (s1 & ? & Hi & H).
  (* the insertion before o *)
  assert (STEP1 : WF s1 /\ same_T2 s s1 /\ same_T3 s s1 /\ par_rel (eq block) nobody nobody s s1).
  { destruct new_ops as [|n0 t0].
    - apply ret_ok in Hi as [-> _]. split; [exact W|]. split; [apply fr_T2|]. split; [apply fr_T3|apply fr_par].
    - split; [eapply (insert_ops_before_WF (n0 :: t0) s s1 block o _ W BLb OL Hi)|].
      split; [eapply (pres_forM _ fr_T2); [|exact Hi]; intro; apply insert_op_before_T2|].
      split; [eapply (pres_forM _ fr_T3); [|exact Hi]; intro; apply insert_op_before_T3|].
      eapply (insert_ops_before_par nobody nobody block (n0 :: t0) o); exact Hi. }
  destruct STEP1 as (W1 & T2a & T3a & PA).
  apply bind_ok in H as (s1' & nres & Hn & H). apply new_results_pure in Hn. subst s1'.
  apply bind_ok in H as (s1' & orec' & Hg & H). apply getO_ok in Hg as [-> Fo1].
  destruct (negb (Nat.eqb (length (o_results orec')) (length nres))); [exfalso; eapply raise_ok; eauto|].
  apply bind_ok in H as (s2 & ? & Hl & He).
  destruct (results_loop _ _ s1 s2 _
             (fun p s0 s1' r0 W0 Hb => pr_replace_all_uses_with_WF _ _ _ _ _ _ W0 Hb)
             (fun p => pr_rauw_T2 _ _ _) (fun p => pr_rauw_T3 _ _ _)
             (fun p => pr_replace_all_uses_with_par _ _ _ _ _ _) W1 Hl) as (W2 & T2b & T3b & PB).
  destruct (op_noreg_T3 _ _ _ T3b (op_noreg_T3 _ _ _ T3a NR)) as (x2 & F2 & E2 & R2).
  assert (PO1 : parents_ok s1).
  { apply (par_rel_live_ok _ _ _ s s1 PA (wf_alloc s W) PO).
    - intros b0 <-. destruct BLb as (bx & Fb & _). eauto.
    - intros q [].
    - intros q []. }
  pose proof (par_rel_nobody_ok _ _ PB PO1) as PO2.
  split; [|eapply parents_ok_by_nobody; [apply rw_erase_op_par|exact PO2|exact He]].
  eapply (rw_erase_op_noregions_WF s2 s' o x2 safe _ W2 F2 E2 R2); [|exact He].
  (* the parent of o is still `block` (or None) *)
  intros b Pb.
  assert (BL2 : blk_live s2 block) by (eapply blk_live_T2; [exact T2b|]; eapply blk_live_T2; eauto).
  destruct PB as (_ & PBo & _). destruct (PBo o x2 F2 E2) as [N|[(p & _ & [])|(y1 & F1 & E1 & Q1)]]; [congruence|].
  destruct PA as (_ & PAo & _). destruct (PAo o y1 F1 E1) as [N|[(p & Qp & <-)|(y0 & F0 & E0 & Q0)]].
  - congruence.
  - assert (b = block) by congruence. subst b. exact BL2.
  - rewrite Fo in F0. injection F0 as <-. assert (b = block) by congruence. subst b. exact BL2.
Qed.
