(* C01/ProofsInv.v -- the auxiliary invariant `parents_ok` (parent pointers of live nodes point
   to allocated ids; needed by the creation calls, see ProofsCreate.v) is preserved by
   move_blocks / move_blocks_before / drop_all_references. *)
From Coq Require Import ZArith List Bool PArith FMapPositive Lia.
From XV Require Import C01.Model C01.Spec C01.ProofsBase C01.ProofsFrame C01.ProofsOps C01.ProofsBlocks
  C01.ProofsMove C01.ProofsCreate.
Import ListNotations.

Lemma set_parent_blocks_from_par : forall PB PO region fl cur,
  preserves (par_rel PB (eq region) PO) (set_parent_blocks_from fl cur region).
Proof.
  intros PB PO region fl. induction fl as [|f IH]; intros cur; simpl.
  - pres (fr_par PB (eq region) PO).
  - destruct cur as [b|]; [|pres (fr_par PB (eq region) PO)].
    apply (pres_bind _ (fr_par PB (eq region) PO)); [pres (fr_par PB (eq region) PO)|intro br].
    apply (pres_bind _ (fr_par PB (eq region) PO)); [pres (fr_par PB (eq region) PO)|intros _; apply IH].
Qed.
#[export] Hint Resolve set_parent_blocks_from_par : pres.

Lemma move_blocks_par : forall PB PO self region, preserves (par_rel PB (eq region) PO) (move_blocks self region).
Proof. intros. unfold move_blocks. pres (fr_par PB (eq region) PO). Qed.

(* move_blocks_before: the destination region is read from the target block *)
Definition mbb_body (self : rid) (target : bid) (tr : block_rec) : M unit :=
  let region := b_parent tr in
  if opt_eqb region (Some self) then raise ValueError else
  match region with
  | None => raise ValueError
  | Some region =>
      sr <- getR self ;;
      match r_first sr with
      | None => ret tt
      | Some first_block =>
          match r_last sr with
          | None => raise AssertionError
          | Some last_block =>
              match b_prev tr with
              | None => updR region (set_r_first (Some first_block))
              | Some tp =>
                  updB tp (set_b_next (Some first_block)) ;;;
                  tr' <- getB target ;;
                  updB first_block (set_b_prev (b_prev tr'))
              end ;;;
              fl <- get_fuel ;;
              sr' <- getR self ;;
              set_parent_blocks_from fl (r_first sr') region ;;;
              updB last_block (set_b_next (Some target)) ;;;
              updB target (set_b_prev (Some last_block)) ;;;
              updR self (set_r_first None) ;;;
              updR self (set_r_last None)
          end
      end
  end.

Lemma move_blocks_before_unfold : forall self target,
  move_blocks_before self target = (tr <- getB target ;; mbb_body self target tr).
Proof. reflexivity. Qed.

Lemma mbb_body_par : forall PB PO self target tr region, b_parent tr = Some region ->
  preserves (par_rel PB (eq region) PO) (mbb_body self target tr).
Proof.
  intros PB PO self target tr region E. unfold mbb_body. rewrite E.
  destruct (opt_eqb (Some region) (Some self)); pres (fr_par PB (eq region) PO).
Qed.

Lemma move_blocks_before_parents_ok : forall self target s s' r tx region,
  WF s -> parents_ok s -> PM.find target (s_blocks s) = Some tx -> b_parent tx = Some region -> reg_live s region ->
  move_blocks_before self target s = (s', r) -> parents_ok s'.
Proof.
  intros self target s s' r tx region W PO F P RL H. rewrite move_blocks_before_unfold in H.
  unfold bind in H. unfold getB in H. rewrite F in H.
  eapply (parents_ok_by_region (mbb_body self target tx) region); eauto.
  apply mbb_body_par. exact P.
Qed.

Lemma move_blocks_parents_ok : forall self region s s' r,
  WF s -> parents_ok s -> reg_live s region -> move_blocks self region s = (s', r) -> parents_ok s'.
Proof.
  intros self region s s' r W PO RL H.
  eapply (parents_ok_by_region (move_blocks self region) region); eauto. apply move_blocks_par.
Qed.

(* ------------------------------------------------------------------ drop_all_references / erase *)

Lemma drop_all_par : forall PB PR PO fuel,
  (forall o, preserves (par_rel PB PR PO) (op_drop_all_references fuel o)) /\
  (forall r, preserves (par_rel PB PR PO) (region_drop_all_references fuel r)) /\
  (forall c, preserves (par_rel PB PR PO) (blocks_drop_from fuel c)) /\
  (forall b, preserves (par_rel PB PR PO) (block_drop_all_references fuel b)) /\
  (forall c, preserves (par_rel PB PR PO) (ops_drop_from fuel c)).
Proof.
  intros PB PR PO fuel. induction fuel as [|f (IH1 & IH2 & IH3 & IH4 & IH5)].
  - split; [|split; [|split; [|split]]]; intro; simpl; apply (pres_raise _ (fr_par PB PR PO)).
  - split; [|split; [|split; [|split]]]; [intro o|intro r|intro c|intro b|intro c]; simpl.
    + pres (fr_par PB PR PO); try apply IH2.
    + pres (fr_par PB PR PO); try apply IH3.
    + destruct c as [b|]; [|apply (pres_ret _ (fr_par PB PR PO))].
      apply (pres_bind _ (fr_par PB PR PO)); [apply (pres_getB _ (fr_par PB PR PO))|intro br].
      apply (pres_bind _ (fr_par PB PR PO)); [apply IH4|intros _; apply IH3].
    + pres (fr_par PB PR PO); try apply IH5.
    + destruct c as [o|]; [|apply (pres_ret _ (fr_par PB PR PO))].
      apply (pres_bind _ (fr_par PB PR PO)); [apply (pres_getO _ (fr_par PB PR PO))|intro orec].
      apply (pres_bind _ (fr_par PB PR PO)); [apply IH1|intros _; apply IH5].
Qed.

Lemma op_erase_par : forall PB PR PO o safe dr, preserves (par_rel PB PR PO) (op_erase o safe dr).
Proof.
  intros. unfold op_erase. pres (fr_par PB PR PO); try apply (proj1 (drop_all_par PB PR PO _)).
Qed.
Lemma erase_op_par : forall PB PR PO b o safe, preserves (par_rel PB PR PO) (erase_op b o safe).
Proof.
  intros. unfold erase_op. apply (pres_bind _ (fr_par PB PR PO)); [apply detach_op_par|intro]. apply op_erase_par.
Qed.
Lemma rw_erase_op_par : forall PB PR PO o safe, preserves (par_rel PB PR PO) (rw_erase_op o safe).
Proof.
  intros. unfold rw_erase_op. apply (pres_bind _ (fr_par PB PR PO)); [apply (pres_getO _ (fr_par PB PR PO))|intro orec].
  destruct (o_parent orec); [apply erase_op_par|apply op_erase_par].
Qed.
